(* C01, read direction at FILE level: on every text of the read dialect (wf_read_text) with the strict
   layout (strict_read_text) the reader returns exactly the chart the format's reference semantics
   denotes:  osu_read text = Some (realize d)  where  osu_denote text = Some d.
   Every clause of the strict layout is necessary: see the *_refuted theorems at the end. *)
From Coq Require Import String Ascii.
From Coq Require Import ZArith QArith Qround Qabs List Bool Lia Lqa.
From RV Require Import Base.PyNum Base.Text Formats.Osu Formats.OsuSpec Proofs.OsuProofs Proofs.OsuText.
Import ListNotations.
Open Scope Z_scope.

(* ================================================================== A. layout from the header order *)
Lemma subseq_nil_l ref : subseq [] ref = true.
Proof. destruct ref; reflexivity. Qed.

Lemma subseq_app_split a h b : forall ref, subseq (a ++ h :: b) ref = true ->
  exists r1 r2, ref = r1 ++ h :: r2 /\ subseq a r1 = true /\ subseq b r2 = true.
Proof.
  intro ref. revert a. induction ref as [|r ref IH]; intros a H.
  - destruct a; discriminate.
  - destruct a as [|x a'].
    + simpl in H. destruct (text_eqb h r) eqn:E.
      * apply text_eqb_eq in E. subst. exists [], ref. repeat split; auto.
      * destruct (IH [] H) as [r1 [r2 [E1 [S1 S2]]]]. exists (r :: r1), r2. subst. repeat split; auto.
    + simpl in H. destruct (text_eqb x r) eqn:E.
      * destruct (IH a' H) as [r1 [r2 [E1 [S1 S2]]]]. exists (r :: r1), r2. subst. repeat split; auto.
        simpl. rewrite E. exact S1.
      * destruct (IH (x :: a') H) as [r1 [r2 [E1 [S1 S2]]]]. exists (r :: r1), r2. subst. repeat split; auto.
        simpl. rewrite E. exact S1.
Qed.

Lemma subseq_in a : forall ref x, subseq a ref = true -> In x a -> In x ref.
Proof.
  intros ref. revert a. induction ref as [|r ref IH]; intros a x H I.
  - destruct a; [destruct I|discriminate].
  - destruct a as [|y a']; [destruct I|]. simpl in H. destruct (text_eqb y r) eqn:E.
    + apply text_eqb_eq in E. subst. destruct I as [I|I]; [left; auto|right; eapply IH; eauto].
    + right. eapply IH; eauto.
Qed.
Lemma subseq_nil_r a : subseq a [] = true -> a = [].
Proof. destruct a; [reflexivity|discriminate]. Qed.

Lemma split_unique {A} (h : A) r1 : forall r2 s1 s2, ~ In h r1 -> ~ In h s1 ->
  r1 ++ h :: r2 = s1 ++ h :: s2 -> r1 = s1 /\ r2 = s2.
Proof.
  induction r1 as [|x r1 IH]; intros r2 s1 s2 N1 N2 E; destruct s1 as [|y s1]; simpl in E.
  - inversion E. auto.
  - inversion E. subst. exfalso. apply N2. left. reflexivity.
  - inversion E. subst. exfalso. apply N1. left. reflexivity.
  - inversion E. subst. destruct (IH r2 s1 s2) as [A1 A2]; auto.
    + intro I. apply N1. right. exact I.
    + intro I. apply N2. right. exact I.
    + subst. auto.
Qed.

Fixpoint nodupb (l : list text) : bool :=
  match l with [] => true | x :: r => negb (existsb (text_eqb x) r) && nodupb r end.
Lemma nodupb_sound l : nodupb l = true -> NoDup l.
Proof.
  induction l as [|x l IH]; simpl; intro H; constructor.
  - apply andb_true_iff in H. destruct H as [H _]. apply negb_true_iff in H. intro I.
    assert (E: existsb (text_eqb x) l = true) by (apply existsb_exists; exists x; split; auto; apply text_eqb_refl). congruence.
  - apply IH. apply andb_true_iff in H. tauto.
Qed.
Lemma canonical_nodup : NoDup canonical_headers.
Proof. apply nodupb_sound. vm_compute. reflexivity. Qed.

(* the split of the canonical header list at one of its members, computed *)
Fixpoint split_at (h : text) (l : list text) : option (list text * list text) :=
  match l with
  | [] => None
  | x :: r => if text_eqb x h then Some ([], r)
              else match split_at h r with Some (a, b) => Some (x :: a, b) | None => None end
  end.
Lemma split_at_spec h l a b : split_at h l = Some (a, b) -> l = a ++ h :: b /\ ~ In h a.
Proof.
  revert a b. induction l as [|x l IH]; intros a b H; simpl in H; [discriminate|].
  destruct (text_eqb x h) eqn:E.
  - apply text_eqb_eq in E. inversion H. subst. split; auto.
  - destruct (split_at h l) as [[a' b']|]; [|discriminate]. inversion H. subst.
    destruct (IH a' b eq_refl) as [E1 N]. subst. split; auto.
    intros [I|I]; [subst; rewrite text_eqb_refl in E; discriminate|auto].
Qed.
Lemma canonical_split h r1 r2 u1 u2 :
  canonical_headers = r1 ++ h :: r2 -> split_at h canonical_headers = Some (u1, u2) -> r1 = u1 /\ r2 = u2.
Proof.
  intros E S. apply split_at_spec in S. destruct S as [E2 N2].
  apply (split_unique h); auto.
  - pose proof canonical_nodup as ND. rewrite E in ND. apply NoDup_remove_2 in ND.
    intro I. apply ND. apply in_or_app. left. exact I.
  - rewrite <- E. exact E2.
Qed.

Lemma headers_app a b : headers (a ++ b) = headers a ++ headers b.
Proof. apply filter_app. Qed.
Lemma headers_cons h r : is_header h = true -> headers (h :: r) = h :: headers r.
Proof. intro H. unfold headers. simpl. rewrite H. reflexivity. Qed.
Lemma in_headers l ls : In l ls -> is_header l = true -> In l (headers ls).
Proof. intros I H. apply filter_In. auto. Qed.
Lemma no_headers ls : headers ls = [] -> forall l, In l ls -> is_header l = false.
Proof.
  intros H l I. destruct (is_header l) eqn:E; auto. pose proof (in_headers l ls I E) as X. rewrite H in X. destruct X.
Qed.

(* first occurrence of a line *)
Lemma after_line_split h ls rest : after_line h ls = Some rest -> ls = upto h ls ++ h :: rest /\ ~ In h (upto h ls).
Proof.
  revert rest. induction ls as [|l ls IH]; intros rest H; simpl in *; [discriminate|].
  destruct (text_eqb l h) eqn:E.
  - apply text_eqb_eq in E. inversion H. subst. split; auto.
  - destruct (IH rest H) as [E1 N]. split; [simpl; congruence|].
    intros [I|I]; [subst; rewrite text_eqb_refl in E; discriminate|auto].
Qed.
Lemma after_line_none h ls : after_line h ls = None -> ~ In h ls /\ upto h ls = ls.
Proof.
  induction ls as [|l ls IH]; simpl; intro H; [split; auto|].
  destruct (text_eqb l h) eqn:E; [discriminate|]. destruct (IH H) as [N U]. split; [|congruence].
  intros [I|I]; [subst; rewrite text_eqb_refl in E; discriminate|auto].
Qed.
Lemma after_line_in h ls : In h ls -> exists rest, after_line h ls = Some rest.
Proof.
  intro I. destruct (after_line h ls) eqn:E; [eauto|]. apply after_line_none in E. tauto.
Qed.
Lemma after_line_app h a b : ~ In h a -> after_line h (a ++ h :: b) = Some b.
Proof.
  induction a as [|x a IH]; intro N; simpl.
  - rewrite text_eqb_refl. reflexivity.
  - destruct (text_eqb x h) eqn:E; [apply text_eqb_eq in E; exfalso; apply N; left; auto|].
    apply IH. intro I. apply N. right. exact I.
Qed.
Lemma upto_app h a b : ~ In h a -> upto h (a ++ h :: b) = a.
Proof.
  induction a as [|x a IH]; intro N; simpl.
  - rewrite text_eqb_refl. reflexivity.
  - destruct (text_eqb x h) eqn:E; [apply text_eqb_eq in E; exfalso; apply N; left; auto|].
    rewrite IH; auto. intro I. apply N. right. exact I.
Qed.
Lemma section_after h ls : section h ls = option_map take_body (after_line h ls).
Proof. induction ls as [|l ls IH]; simpl; auto. destruct (text_eqb l h); auto. Qed.

Definition PRE_HEADERS : list text := [t "[General]"; t "[Editor]"; t "[Metadata]"; t "[Difficulty]"; t "[Events]"].
Definition COLOURS := t "[Colours]".

(* the shape every text of the read dialect has *)
Record layout (ls pre tps hos : list text) : Prop := {
  lay_eq : ls = pre ++ TP_HEADER :: tps ++ HO_HEADER :: hos;
  lay_tp_pre : ~ In TP_HEADER pre;
  lay_ho_pre : ~ In HO_HEADER pre;
  lay_ho_tps : ~ In HO_HEADER tps;
  lay_pre : subseq (headers pre) PRE_HEADERS = true;
  lay_tps : subseq (headers tps) [COLOURS] = true;
  lay_hos : headers hos = [] }.

Lemma layout_of ls tpb hob :
  subseq (headers ls) canonical_headers = true ->
  section TP_HEADER ls = Some tpb -> section HO_HEADER ls = Some hob ->
  exists pre tps hos, layout ls pre tps hos.
Proof.
  intros SS S1 S2. rewrite section_after in S1, S2.
  destruct (after_line TP_HEADER ls) as [rest1|] eqn:A1; [|discriminate].
  destruct (after_line_split _ _ _ A1) as [E1 N1]. set (pre := upto TP_HEADER ls) in *.
  rewrite E1 in SS. rewrite headers_app in SS. rewrite (headers_cons TP_HEADER) in SS by reflexivity.
  destruct (subseq_app_split _ _ _ _ SS) as [r1 [r2 [C [P1 P2]]]].
  destruct (canonical_split TP_HEADER r1 r2 PRE_HEADERS [COLOURS; HO_HEADER] C eq_refl) as [R1 R2]. subst r1 r2.
  assert (NH: ~ In HO_HEADER pre).
  { intro I. pose proof (subseq_in _ _ _ P1 (in_headers _ _ I eq_refl)) as X. simpl in X.
    repeat (destruct X as [X|X]; [discriminate X|]). exact X. }
  destruct (after_line HO_HEADER ls) as [rest2|] eqn:A2; [|discriminate].
  destruct (after_line_split _ _ _ A2) as [E2 _].
  assert (IH: In HO_HEADER rest1).
  { assert (I: In HO_HEADER ls) by (rewrite E2; apply in_or_app; right; left; reflexivity).
    rewrite E1 in I. apply in_app_or in I. destruct I as [I|[I|I]]; [contradiction|discriminate I|exact I]. }
  destruct (after_line_in _ _ IH) as [hos A3]. destruct (after_line_split _ _ _ A3) as [E3 N3].
  set (tps := upto HO_HEADER rest1) in *.
  rewrite E3 in P2. rewrite headers_app in P2. rewrite (headers_cons HO_HEADER) in P2 by reflexivity.
  destruct (subseq_app_split _ _ _ _ P2) as [s1 [s2 [C2 [Q1 Q2]]]].
  assert (X: s1 = [COLOURS] /\ s2 = []).
  { assert (ND: NoDup (s1 ++ HO_HEADER :: s2)) by (rewrite <- C2; apply nodupb_sound; vm_compute; reflexivity).
    apply NoDup_remove_2 in ND.
    apply (split_unique HO_HEADER).
    - intro I. apply ND. apply in_or_app. left. exact I.
    - intros [I|[]]. discriminate I.
    - rewrite <- C2. reflexivity. }
  destruct X; subst s1 s2.
  exists pre, tps, hos. constructor; auto.
  - rewrite E1 at 1. rewrite E3 at 1. reflexivity.
  - apply subseq_nil_r. exact Q2.
Qed.

(* a header of the front part that occurs in the text occurs in [pre], exactly once; the headers that
   follow it inside [pre] are those the canonical order allows *)
Lemma layout_section ls pre tps hos sec u1 u2 : layout ls pre tps hos ->
  split_at sec PRE_HEADERS = Some (u1, u2) -> is_header sec = true ->
  (~ In sec ls -> ~ In sec pre) /\
  (In sec ls -> exists a b, pre = a ++ sec :: b /\ ~ In sec a /\ ~ In sec b /\ subseq (headers a) u1 = true /\ subseq (headers b) u2 = true).
Proof.
  intros L SP HS. destruct L as [E N1 N2 N3 P1 P2 P3]. split.
  - intros N I. apply N. rewrite E. apply in_or_app. left. exact I.
  - intro I.
    assert (IP: In sec pre).
    { rewrite E in I. apply in_app_or in I. destruct I as [I|[I|I]]; auto.
      - exfalso. apply split_at_spec in SP. destruct SP as [SP _].
        assert (X: In sec PRE_HEADERS) by (rewrite SP; apply in_or_app; right; left; reflexivity).
        rewrite <- I in X. simpl in X. repeat (destruct X as [X|X]; [discriminate X|]). exact X.
      - exfalso. apply in_app_or in I.
        assert (X: In sec PRE_HEADERS).
        { apply split_at_spec in SP. destruct SP as [SP _]. rewrite SP. apply in_or_app. right. left. reflexivity. }
        destruct I as [I|[I|I]].
        + pose proof (subseq_in _ _ _ P2 (in_headers _ _ I HS)) as Y. destruct Y as [Y|[]]. rewrite <- Y in X.
          simpl in X. repeat (destruct X as [X|X]; [discriminate X|]). exact X.
        + rewrite <- I in X. simpl in X. repeat (destruct X as [X|X]; [discriminate X|]). exact X.
        + pose proof (in_headers _ _ I HS) as Y. rewrite P3 in Y. destruct Y. }
    destruct (after_line_in _ _ IP) as [b A]. destruct (after_line_split _ _ _ A) as [E2 NA].
    exists (upto sec pre), b. split; [exact E2|]. split; [exact NA|].
    rewrite E2 in P1. rewrite headers_app in P1. rewrite (headers_cons sec) in P1 by exact HS.
    destruct (subseq_app_split _ _ _ _ P1) as [r1 [r2 [C [Q1 Q2]]]].
    assert (ND: NoDup PRE_HEADERS) by (apply nodupb_sound; vm_compute; reflexivity).
    assert (X: r1 = u1 /\ r2 = u2).
    { apply split_at_spec in SP. destruct SP as [SP NU]. apply (split_unique sec); auto.
      - rewrite C in ND. apply NoDup_remove_2 in ND. intro J. apply ND. apply in_or_app. left. exact J.
      - rewrite <- C. exact SP. }
    destruct X; subst r1 r2. split; [|split; auto].
    intro J. pose proof (subseq_in _ _ _ Q2 (in_headers _ _ J HS)) as Y.
    rewrite C in ND. apply NoDup_remove_2 in ND. apply ND. apply in_or_app. right. exact Y.
Qed.

(* ================================================================== B. the reader's split *)
Lemma model_split pre tps hos :
  ~ In TP_HEADER pre -> ~ In HO_HEADER pre -> ~ In HO_HEADER tps ->
  let lines := pre ++ TP_HEADER :: tps ++ HO_HEADER :: hos in
  exists ix_tp ix_ho,
    index_of TP_HEADER lines = Some ix_tp /\ index_of HO_HEADER lines = Some ix_ho /\
    py_slice_to lines ix_tp = pre /\
    py_slice lines (ix_tp + 1) ix_ho = tps /\ py_slice_from lines (ix_ho + 1) = hos.
Proof.
  intros P1 P2 P3 lines.
  exists (zlen pre), (zlen pre + 1 + zlen tps).
  assert (L: zlen lines = zlen pre + 1 + zlen tps + 1 + zlen hos).
  { unfold lines, zlen. rewrite app_length. simpl length. rewrite app_length. simpl length. lia. }
  assert (Z0: 0 <= zlen pre /\ 0 <= zlen tps /\ 0 <= zlen hos) by (unfold zlen; lia).
  assert (E2: lines = (pre ++ TP_HEADER :: tps) ++ HO_HEADER :: hos).
  { unfold lines. rewrite <- app_assoc. reflexivity. }
  assert (E3: lines = (pre ++ [TP_HEADER]) ++ tps ++ HO_HEADER :: hos).
  { unfold lines. rewrite <- app_assoc. reflexivity. }
  repeat split.
  - apply index_of_app. exact P1.
  - rewrite E2. rewrite index_of_app.
    + f_equal. unfold zlen. rewrite app_length. simpl length. lia.
    + intro I. apply in_app_or in I. destruct I as [I|[I|I]]; [exact (P2 I)|discriminate I|exact (P3 I)].
  - unfold py_slice_to. rewrite norm_ok by lia. unfold zlen at 1. rewrite Nat2Z.id. apply firstn_len_app.
  - unfold py_slice. rewrite !norm_ok by lia.
    replace (Z.to_nat (zlen pre + 1)) with (length (pre ++ [TP_HEADER])) by (rewrite app_length; unfold zlen; simpl; lia).
    rewrite E3 at 1. rewrite skipn_len_app.
    replace (Z.to_nat (zlen pre + 1 + zlen tps - (zlen pre + 1))) with (length tps) by (unfold zlen; lia).
    apply firstn_len_app.
  - unfold py_slice_from. rewrite norm_ok by lia.
    replace (Z.to_nat (zlen pre + 1 + zlen tps + 1)) with (length ((pre ++ TP_HEADER :: tps) ++ [HO_HEADER])).
    2:{ rewrite !app_length. simpl length. unfold zlen. lia. }
    replace lines with (((pre ++ TP_HEADER :: tps) ++ [HO_HEADER]) ++ hos).
    2:{ rewrite E2. rewrite <- app_assoc. reflexivity. }
    apply skipn_len_app.
Qed.

(* ================================================================== C. the metadata loop *)
(* the loop of _read_meta_string_list as three independent folds over the lines *)
Definition line_key (line : text) : text := hd [] (split_once COLON line).
Definition line_val (line : text) : option text := nth_text (split_once COLON line) 1.

Definition meta_step (line : text) (m : list mval) : option (list mval) :=
  match find_key (line_key line) meta_keys 0 with
  | Some (i, kd) => do mv <- read_meta_value kd (line_val line); Some (set_nth m i mv)
  | None => Some m
  end.
Fixpoint meta_fold (ls : list text) (m : list mval) : option (list mval) :=
  match ls with [] => Some m | l :: r => do m' <- meta_step l m; meta_fold r m' end.
Fixpoint bg_fold (ls : list text) (bg : text) : option text :=
  match ls with
  | [] => Some bg
  | l :: r => if text_eqb (line_key l) BG_MARK
              then match r with nx :: _ => bg_fold r (py_slice nx (find QUOTE nx + 1) (rfind QUOTE nx)) | [] => None end
              else bg_fold r bg
  end.
Fixpoint samples_fold (ls : list text) (ss : list sample) : option (list sample) :=
  match ls with
  | [] => Some ss
  | l :: r => if text_eqb (line_key l) SAMPLE_MARK
              then do s <- omap read_sample (filter (startswith (t "Sample")) r); samples_fold r s
              else samples_fold r ss
  end.

Lemma nth_text_app_len (a : list text) x b : nth_text (a ++ x :: b) (S (length a)) = nth_text b 0.
Proof. induction a; simpl; auto. Qed.
Lemma skipn_app_S {A} (a : list A) x b : skipn (S (length a)) (a ++ x :: b) = b.
Proof. induction a; simpl; auto. Qed.

Lemma read_meta_go_folds rest : forall done st,
  read_meta_go (done ++ rest) (length done) rest st =
  match meta_fold rest (ms_meta st), bg_fold rest (ms_bg st), samples_fold rest (ms_samples st) with
  | Some m, Some b, Some s => Some (mkMS m b s)
  | _, _, _ => None
  end.
Proof.
  induction rest as [|line rest IH]; intros done st.
  - destruct st. reflexivity.
  - cbn [read_meta_go meta_fold bg_fold samples_fold].
    assert (E: done ++ line :: rest = (done ++ [line]) ++ rest) by (rewrite <- app_assoc; reflexivity).
    assert (L: S (length done) = length (done ++ [line])) by (rewrite app_length; simpl; lia).
    Local Ltac fin_tac E L IH st := cbn [obind ms_meta ms_bg ms_samples]; rewrite E, L, IH; cbn [ms_meta ms_bg ms_samples]; try reflexivity; destruct st; reflexivity.
    unfold read_meta_line. fold (line_key line). fold (line_val line).
    rewrite nth_text_app_len, skipn_app_S.
    destruct line as [|c line'].
    + (* empty line: nothing happens *)
      cbn [nonempty negb obind]. fin_tac E L IH st.
    + cbn [nonempty negb]. set (line := c :: line') in *. unfold meta_step.
      destruct (find_key (line_key line) meta_keys 0) as [[i kd]|].
      * destruct (read_meta_value kd (line_val line)) as [mv|]; cbn [obind]; [|reflexivity].
        cbn [ms_meta ms_bg ms_samples].
        destruct (text_eqb (line_key line) BG_MARK).
        -- destruct rest as [|nx rest']; cbn [nth_text obind].
           ++ destruct (meta_fold [] (set_nth (ms_meta st) i mv)); reflexivity.
           ++ cbn [ms_meta ms_bg ms_samples].
              destruct (text_eqb (line_key line) SAMPLE_MARK).
              ** destruct (omap read_sample (filter (startswith (t "Sample")) (nx :: rest'))) as [ss|]; cbn [obind].
                 --- fin_tac E L IH st.
                 --- destruct (meta_fold (nx :: rest') (set_nth (ms_meta st) i mv)); [|reflexivity].
                     destruct (bg_fold (nx :: rest') (py_slice nx (find QUOTE nx + 1) (rfind QUOTE nx))); reflexivity.
              ** fin_tac E L IH st.
        -- cbn [obind]. destruct (text_eqb (line_key line) SAMPLE_MARK).
           ++ cbn [ms_meta ms_bg ms_samples].
              destruct (omap read_sample (filter (startswith (t "Sample")) rest)) as [ss|]; cbn [obind].
              ** fin_tac E L IH st.
              ** destruct (meta_fold rest (set_nth (ms_meta st) i mv)); [|reflexivity].
                 destruct (bg_fold rest (ms_bg st)); reflexivity.
           ++ fin_tac E L IH st.
      * cbn [obind].
        destruct (text_eqb (line_key line) BG_MARK).
        -- destruct rest as [|nx rest']; cbn [nth_text obind].
           ++ reflexivity.
           ++ cbn [ms_meta ms_bg ms_samples].
              destruct (text_eqb (line_key line) SAMPLE_MARK).
              ** destruct (omap read_sample (filter (startswith (t "Sample")) (nx :: rest'))) as [ss|]; cbn [obind].
                 --- fin_tac E L IH st.
                 --- destruct (meta_fold (nx :: rest') (ms_meta st)); [|reflexivity].
                     destruct (bg_fold (nx :: rest') (py_slice nx (find QUOTE nx + 1) (rfind QUOTE nx))); reflexivity.
              ** fin_tac E L IH st.
        -- cbn [obind]. destruct (text_eqb (line_key line) SAMPLE_MARK).
           ++ destruct (omap read_sample (filter (startswith (t "Sample")) rest)) as [ss|]; cbn [obind].
              ** fin_tac E L IH st.
              ** destruct (meta_fold rest (ms_meta st)); [|reflexivity].
                 destruct (bg_fold rest (ms_bg st)); reflexivity.
           ++ fin_tac E L IH st.
Qed.

Lemma read_meta_folds pre :
  read_meta pre =
  match meta_fold pre meta_default, bg_fold pre [], samples_fold pre [] with
  | Some m, Some b, Some s => Some (mkMS m b s)
  | _, _, _ => None
  end.
Proof. unfold read_meta. apply (read_meta_go_folds pre [] (mkMS meta_default [] [])). Qed.

(* ------------------------------------------------------------------ tables: model keys = format keys *)
Definition kind_of (ty : vtype) : mkind :=
  match ty with TStr => KStr | TInt => KInt | TBool => KBool | TDec => KFloat | TSampleSet => KSampleSet | TTags => KTags end.
Lemma meta_keys_table : meta_keys = map (fun e : text * text * vtype => (snd (fst e), kind_of (snd e))) key_table.
Proof. reflexivity. Qed.

Lemma nth_error_combine_seq {A} (l : list A) : forall i s e, nth_error l i = Some e -> In ((i + s)%nat, e) (combine (seq s (length l)) l).
Proof.
  induction l as [|x l IH]; intros i s e H; destruct i; simpl in *; try discriminate.
  - inversion H. left. reflexivity.
  - right. replace (S (i + s))%nat with (i + S s)%nat by lia. apply IH. exact H.
Qed.
Lemma forall_table (P : nat -> text * text * vtype -> bool) :
  forallb (fun p => P (fst p) (snd p)) (combine (seq 0 (length key_table)) key_table) = true ->
  forall i e, nth_error key_table i = Some e -> P i e = true.
Proof.
  intros H i e N. rewrite forallb_forall in H. pose proof (nth_error_combine_seq _ i 0%nat e N) as I.
  rewrite Nat.add_0_r in I. exact (H _ I).
Qed.

Definition kind_eqb (a b : mkind) : bool :=
  match a, b with KStr, KStr | KInt, KInt | KBool, KBool | KFloat, KFloat | KSampleSet, KSampleSet | KTags, KTags => true | _, _ => false end.
Definition vtype_eqb (a b : vtype) : bool :=
  match a, b with TStr, TStr | TInt, TInt | TBool, TBool | TDec, TDec | TSampleSet, TSampleSet | TTags, TTags => true | _, _ => false end.
Lemma kind_eqb_eq a b : kind_eqb a b = true -> a = b.
Proof. destruct a, b; simpl; congruence. Qed.
Lemma vtype_eqb_eq a b : vtype_eqb a b = true -> a = b.
Proof. destruct a, b; simpl; congruence. Qed.

Definition FRONT4 : list text := [t "[General]"; t "[Editor]"; t "[Metadata]"; t "[Difficulty]"].
Definition entry_check (i : nat) (e : text * text * vtype) : bool :=
  let '(sec, name, ty) := e in
  match find_key name meta_keys 0, key_entry name key_table with
  | Some (j, kd), Some (sec', ty') =>
      (j =? i)%nat && kind_eqb kd (kind_of ty) && text_eqb sec' sec && vtype_eqb ty' ty
      && negb (hd 0 name =? 91) && negb (has 58 name) && existsb (text_eqb sec) FRONT4
      && negb (text_eqb name BG_MARKER) && negb (text_eqb name SAMPLE_MARKER)
  | _, _ => false
  end.
Lemma entries_checked : forallb (fun p => entry_check (fst p) (snd p)) (combine (seq 0 (length key_table)) key_table) = true.
Proof. vm_compute. reflexivity. Qed.

Lemma entry_facts i sec name ty : nth_error key_table i = Some (sec, name, ty) ->
  find_key name meta_keys 0 = Some (i, kind_of ty) /\ key_entry name key_table = Some (sec, ty) /\
  hd 0 name <> 91 /\ ~ In 58 name /\ In sec FRONT4 /\ name <> BG_MARKER /\ name <> SAMPLE_MARKER.
Proof.
  intro N. pose proof (forall_table entry_check entries_checked i _ N) as C. unfold entry_check in C.
  destruct (find_key name meta_keys 0) as [[j kd]|]; [|discriminate].
  destruct (key_entry name key_table) as [[sec' ty']|]; [|discriminate].
  repeat (apply andb_true_iff in C; destruct C as [C ?]).
  apply Nat.eqb_eq in C. apply kind_eqb_eq in H6. apply text_eqb_eq in H5. apply vtype_eqb_eq in H4. subst.
  repeat split; auto.
  - apply negb_true_iff in H3. apply Z.eqb_neq in H3. exact H3.
  - apply negb_true_iff in H2. apply has_false_iff. exact H2.
  - apply existsb_exists in H1. destruct H1 as [x [I E]]. apply text_eqb_eq in E. subst. exact I.
  - apply negb_true_iff in H0. intro E. rewrite E, text_eqb_refl in H0. discriminate.
  - apply negb_true_iff in H. intro E. rewrite E, text_eqb_refl in H. discriminate.
Qed.

(* ------------------------------------------------------------------ small list lemmas *)
Lemma set_nth_length {A} (l : list A) : forall i x, length (set_nth l i x) = length l.
Proof. induction l as [|y l IH]; intros [|i] x; simpl; auto. Qed.
Lemma set_nth_same {A} (l : list A) : forall i x, (i < length l)%nat -> nth_error (set_nth l i x) i = Some x.
Proof. induction l as [|y l IH]; intros [|i] x H; simpl in *; try lia; auto. apply IH. lia. Qed.
Lemma set_nth_other {A} (l : list A) : forall i j x, i <> j -> nth_error (set_nth l i x) j = nth_error l j.
Proof. induction l as [|y l IH]; intros [|i] [|j] x H; simpl; auto; try congruence. Qed.

Lemma find_key_sound k tbl : forall i0 j kd, find_key k tbl i0 = Some (j, kd) ->
  (i0 <= j)%nat /\ nth_error tbl (j - i0) = Some (k, kd).
Proof.
  induction tbl as [|[n kd0] tbl IH]; intros i0 j kd H; simpl in H; [discriminate|].
  destruct (text_eqb k n) eqn:E.
  - apply text_eqb_eq in E. inversion H. subst. split; [lia|]. rewrite Nat.sub_diag. reflexivity.
  - destruct (IH _ _ _ H) as [L N]. split; [lia|]. replace (j - i0)%nat with (S (j - S i0)) by lia. exact N.
Qed.
Lemma find_key_none k tbl : forall i0, find_key k tbl i0 = None -> forall n kd, In (n, kd) tbl -> k <> n.
Proof.
  induction tbl as [|[n0 kd0] tbl IH]; intros i0 H n kd I; simpl in *; [destruct I|].
  destruct (text_eqb k n0) eqn:E; [discriminate|]. destruct I as [I|I].
  - inversion I. subst. intro X. subst. rewrite text_eqb_refl in E. discriminate.
  - eapply IH; eauto.
Qed.

Lemma lookup_kv_acc key body : forall acc,
  lookup_kv key body acc = match lookup_kv key body None with Some w => Some w | None => acc end.
Proof.
  induction body as [|l body IH]; intro acc; simpl; auto.
  rewrite IH. rewrite (IH (match cut_first 58 l with Some (k, v) => if text_eqb k key then Some v else None | None => None end)).
  destruct (lookup_kv key body None); auto.
  destruct (cut_first 58 l) as [[k v]|]; auto. destruct (text_eqb k key); auto.
Qed.
Lemma lookup_kv_cons key l body :
  lookup_kv key (l :: body) None =
  match lookup_kv key body None with
  | Some w => Some w
  | None => match cut_first 58 l with Some (k, v) => if text_eqb k key then Some v else None | None => None end
  end.
Proof. cbn [lookup_kv]. apply lookup_kv_acc. Qed.
Lemma lookup_kv_app key a b acc : lookup_kv key (a ++ b) acc = lookup_kv key b (lookup_kv key a acc).
Proof. revert acc. induction a as [|l a IH]; intro acc; simpl; auto. Qed.
Lemma lookup_kv_in key body v : lookup_kv key body None = Some v -> exists l, In l body /\ cut_first 58 l = Some (key, v).
Proof.
  induction body as [|l body IH]; [discriminate|]. rewrite lookup_kv_cons.
  destruct (lookup_kv key body None) as [w|] eqn:L.
  - intro H. inversion H. subst. destruct (IH eq_refl) as [l' [I C]]. exists l'. split; [right; exact I|exact C].
  - destruct (cut_first 58 l) as [[k v']|] eqn:C; [|discriminate]. destruct (text_eqb k key) eqn:E; [|discriminate].
    apply text_eqb_eq in E. intro H. inversion H. subst. exists l. split; [left; reflexivity|exact C].
Qed.

Lemma line_cut_some l k v : cut_first 58 l = Some (k, v) -> line_key l = k /\ line_val l = Some v.
Proof. intro C. pose proof (meta_line_cut l) as M. unfold COLON in M. rewrite C in M. exact M. Qed.
Lemma line_cut_none l : cut_first 58 l = None -> line_key l = l /\ line_val l = None.
Proof. intro C. pose proof (meta_line_cut l) as M. unfold COLON in M. rewrite C in M. exact M. Qed.
Lemma line_key_key_of l : line_key l = key_of l.
Proof.
  unfold key_of. destruct (cut_first 58 l) as [[k v]|] eqn:C.
  - apply (line_cut_some _ _ _ C).
  - apply (line_cut_none _ C).
Qed.

Lemma nth_error_meta_keys i sec name ty : nth_error key_table i = Some (sec, name, ty) ->
  nth_error meta_keys i = Some (name, kind_of ty).
Proof. intro N. rewrite meta_keys_table. rewrite nth_error_map, N. reflexivity. Qed.

(* the value of attribute i after the loop: the LAST line  name:value  anywhere among the lines wins *)
Lemma meta_fold_nth ls : forall m m', meta_fold ls m = Some m' -> length m = 30%nat ->
  length m' = 30%nat /\
  forall i sec name ty, nth_error key_table i = Some (sec, name, ty) ->
    nth_error m' i = match lookup_kv name ls None with
                     | Some v => read_meta_value (kind_of ty) (Some v)
                     | None => nth_error m i end.
Proof.
  induction ls as [|l ls IH]; intros m m' H Lm.
  - simpl in H. inversion H. subst. split; auto.
  - cbn [meta_fold] in H. destruct (meta_step l m) as [m1|] eqn:S; [|discriminate]. cbn [obind] in H.
    assert (L1: length m1 = 30%nat).
    { unfold meta_step in S. destruct (find_key (line_key l) meta_keys 0) as [[j kd]|].
      - destruct (read_meta_value kd (line_val l)); [|discriminate]. inversion S. rewrite set_nth_length. exact Lm.
      - inversion S. subst. exact Lm. }
    destruct (IH m1 m' H L1) as [L' IHn]. split; auto.
    intros i sec name ty N. rewrite (IHn i sec name ty N).
    rewrite lookup_kv_cons. destruct (lookup_kv name ls None) as [w|]; [reflexivity|].
    destruct (entry_facts _ _ _ _ N) as [FK [KE _]].
    assert (Li: (i < length key_table)%nat) by (apply nth_error_Some; rewrite N; discriminate).
    change (length key_table) with 30%nat in Li.
    unfold meta_step in S.
    destruct (cut_first 58 l) as [[k v]|] eqn:C.
    + destruct (line_cut_some _ _ _ C) as [K V]. rewrite K, V in S.
      destruct (text_eqb k name) eqn:E.
      * apply text_eqb_eq in E. rewrite E in S. rewrite FK in S.
        destruct (read_meta_value (kind_of ty) (Some v)) as [mv|]; [|discriminate]. inversion S.
        rewrite set_nth_same by lia. reflexivity.
      * destruct (find_key k meta_keys 0) as [[j kd]|] eqn:F.
        -- destruct (read_meta_value kd (Some v)); [|discriminate]. inversion S.
           apply set_nth_other. intro X. subst j.
           destruct (find_key_sound _ _ _ _ _ F) as [_ N2]. rewrite Nat.sub_0_r in N2.
           rewrite (nth_error_meta_keys _ _ _ _ N) in N2. inversion N2. subst. rewrite text_eqb_refl in E. discriminate.
        -- inversion S. reflexivity.
    + destruct (line_cut_none _ C) as [K V]. rewrite K, V in S.
      destruct (find_key l meta_keys 0) as [[j kd]|].
      * destruct kd; discriminate.
      * inversion S. reflexivity.
Qed.

Lemma meta_fold_ok ls : (forall l j kd, In l ls -> find_key (line_key l) meta_keys 0 = Some (j, kd) ->
                          exists mv, read_meta_value kd (line_val l) = Some mv) ->
  forall m, exists m', meta_fold ls m = Some m'.
Proof.
  induction ls as [|l ls IH]; intros H m; [exists m; reflexivity|].
  cbn [meta_fold]. unfold meta_step. destruct (find_key (line_key l) meta_keys 0) as [[j kd]|] eqn:F.
  - destruct (H l j kd (or_introl eq_refl) F) as [mv R]. rewrite R. cbn [obind].
    apply IH. intros l' j' kd' I. apply H. right. exact I.
  - cbn [obind]. apply IH. intros l' j' kd' I. apply H. right. exact I.
Qed.

(* ------------------------------------------------------------------ the strict layout, line by line *)
Definition last_header (cur : text) (a : list text) : text := fold_left (fun c x => if is_header x then x else c) a cur.

Lemma lines_in_place_app a : forall cur b,
  lines_in_place cur (a ++ b) = lines_in_place cur a && lines_in_place (last_header cur a) b.
Proof.
  induction a as [|l a IH]; intros cur b; [reflexivity|].
  cbn [app lines_in_place last_header fold_left]. destruct (is_header l).
  - apply IH.
  - rewrite IH. rewrite andb_assoc. reflexivity.
Qed.
Lemma last_header_plain a : forall cur, (forall l, In l a -> is_header l = false) -> last_header cur a = cur.
Proof.
  induction a as [|l a IH]; intros cur H; [reflexivity|]. cbn [last_header fold_left].
  rewrite (H l (or_introl eq_refl)). apply IH. intros x I. apply H. right. exact I.
Qed.

Lemma header_first l : is_header l = true -> exists r, l = 91 :: r.
Proof.
  destruct l as [|c r]; [discriminate|]. intro H. exists r. f_equal.
  destruct c as [|p|p]; try discriminate.
  repeat (destruct p as [p|p|]; try discriminate). reflexivity.
Qed.
Lemma header_key l k v : is_header l = true -> cut_first 58 l = Some (k, v) -> hd 0 k = 91.
Proof.
  intros H C. destruct (header_first l H) as [r E]. subst. simpl in C.
  destruct (cut_first 58 r) as [[a b]|]; [|discriminate]. inversion C. reflexivity.
Qed.
Lemma header_not_key l name : is_header l = true -> hd 0 name <> 91 -> key_of l <> name.
Proof.
  intros H N E. unfold key_of in E. destruct (cut_first 58 l) as [[k v]|] eqn:C.
  - subst. apply N. eapply header_key; eauto.
  - subst. destruct (header_first _ H) as [r E]. subst. apply N. reflexivity.
Qed.

Lemma lip_line cur ls l : lines_in_place cur ls = true -> In l ls -> is_header l = false ->
  exists cur', attr_line_ok cur' l = true.
Proof.
  intros H I NH. apply in_split in I. destruct I as [a [b E]]. subst.
  rewrite lines_in_place_app in H. apply andb_true_iff in H. destruct H as [_ H].
  cbn [lines_in_place] in H. rewrite NH in H. apply andb_true_iff in H. destruct H as [H _]. eauto.
Qed.

(* outside its own section an attribute's key does not occur *)
Lemma lookup_outside name sec ty : key_entry name key_table = Some (sec, ty) -> hd 0 name <> 91 ->
  forall ls cur acc, lines_in_place cur ls = true -> cur <> sec -> ~ In sec ls -> lookup_kv name ls acc = acc.
Proof.
  intros KE NH. induction ls as [|l ls IH]; intros cur acc H NC NI; [reflexivity|].
  cbn [lookup_kv lines_in_place] in *.
  assert (NI2: ~ In sec ls) by (intro I; apply NI; right; exact I).
  assert (NL: l <> sec) by (intro E; apply NI; left; exact E).
  destruct (is_header l) eqn:HL.
  - rewrite (IH l _ H NL NI2).
    destruct (cut_first 58 l) as [[k v]|] eqn:C; auto. destruct (text_eqb k name) eqn:E; auto.
    apply text_eqb_eq in E. subst. exfalso. apply NH. eapply header_key; eauto.
  - apply andb_true_iff in H. destruct H as [H1 H2]. rewrite (IH cur _ H2 NC NI2).
    destruct (cut_first 58 l) as [[k v]|] eqn:C; auto. destruct (text_eqb k name) eqn:E; auto.
    apply text_eqb_eq in E. subst. exfalso.
    unfold attr_line_ok, key_of in H1. rewrite C, KE in H1. apply andb_true_iff in H1. destruct H1 as [H1 _].
    apply text_eqb_eq in H1. congruence.
Qed.

Lemma take_body_app_header b h r : is_header h = true -> take_body (b ++ h :: r) = take_body b.
Proof.
  intro H. induction b as [|l b IH]; simpl.
  - rewrite H. reflexivity.
  - destruct (is_header l); [reflexivity|]. rewrite IH. reflexivity.
Qed.
Lemma take_body_split b : exists b2, b = take_body b ++ b2 /\
  (b2 = [] \/ exists h r, b2 = h :: r /\ is_header h = true) /\ (forall l, In l (take_body b) -> is_header l = false).
Proof.
  induction b as [|l b [b2 [E [T P]]]]; simpl.
  - exists []. repeat split; auto. intros l [].
  - destruct (is_header l) eqn:H.
    + exists (l :: b). repeat split; auto. right. eauto. intros x [].
    + exists b2. repeat split; auto.
      * simpl. congruence.
      * intros x [I|I]; [subst; exact H|auto].
Qed.
Lemma take_body_plain b : (forall l, In l b -> is_header l = false) -> take_body b = b.
Proof. apply take_body_all. Qed.

Lemma front4_header sec : In sec FRONT4 -> is_header sec = true /\ sec <> [] /\
  exists u1 u2, split_at sec PRE_HEADERS = Some (u1, u2).
Proof.
  intro I. simpl in I. repeat (destruct I as [I|I]; [subst; repeat split; try discriminate; vm_compute; eauto|]). destruct I.
Qed.

(* what the format reads for attribute (sec, name, ty) is the last  name:value  line before [TimingPoints] *)
Lemma denote_key_flat ls pre tps hos i sec name ty :
  layout ls pre tps hos -> lines_in_place [] pre = true -> nth_error key_table i = Some (sec, name, ty) ->
  denote_key ls (sec, name, ty) =
  match lookup_kv name pre None with None => Some None | Some v => option_map Some (typed_value ty v) end.
Proof.
  intros L G N. destruct (entry_facts _ _ _ _ N) as [_ [KE [NH [_ [IS _]]]]].
  destruct (front4_header sec IS) as [HS [NE [u1 [u2 SP]]]].
  destruct (layout_section _ _ _ _ sec u1 u2 L SP HS) as [A B].
  unfold denote_key. rewrite section_after.
  destruct (after_line sec ls) as [rest|] eqn:AL.
  - assert (I: In sec ls).
    { destruct (after_line_split _ _ _ AL) as [E _]. rewrite E. apply in_or_app. right. left. reflexivity. }
    destruct (B I) as [a [b [E [Na [Nb _]]]]].
    assert (R: rest = b ++ TP_HEADER :: tps ++ HO_HEADER :: hos).
    { rewrite (lay_eq _ _ _ _ L), E in AL. rewrite <- app_assoc in AL. simpl in AL.
      rewrite after_line_app in AL by exact Na. inversion AL. reflexivity. }
    subst rest. cbn [option_map]. rewrite take_body_app_header by reflexivity.
    destruct (take_body_split b) as [b2 [Eb [T P]]].
    assert (LK: lookup_kv name pre None = lookup_kv name (take_body b) None).
    { rewrite E in G. rewrite lines_in_place_app in G. apply andb_true_iff in G. destruct G as [G1 G2].
      cbn [lines_in_place] in G2. rewrite HS in G2.
      rewrite Eb in G2. rewrite lines_in_place_app in G2. apply andb_true_iff in G2. destruct G2 as [G2 G3].
      rewrite E, lookup_kv_app. rewrite (lookup_outside _ _ _ KE NH a [] None G1) by (auto; congruence).
      cbn [lookup_kv].
      assert (X: match cut_first 58 sec with Some (k, v) => if text_eqb k name then Some v else None | None => None end = None).
      { destruct (cut_first 58 sec) as [[k v]|] eqn:C; auto. destruct (text_eqb k name) eqn:EE; auto.
        apply text_eqb_eq in EE. subst. exfalso. apply NH. eapply header_key; eauto. }
      rewrite X. rewrite Eb at 1. rewrite lookup_kv_app.
      destruct T as [T|[h [r [T HH]]]]; [subst b2; reflexivity|]. subst b2.
      cbn [lookup_kv lines_in_place] in *. rewrite HH in G3.
      assert (Ih: In h b) by (rewrite Eb; apply in_or_app; right; left; reflexivity).
      rewrite (lookup_outside _ _ _ KE NH r h _ G3).
      - destruct (cut_first 58 h) as [[k v]|] eqn:C; auto. destruct (text_eqb k name) eqn:EE; auto.
        apply text_eqb_eq in EE. subst. exfalso. apply NH. eapply header_key; eauto.
      - intro X2. subst. contradiction.
      - intro X2. apply Nb. rewrite Eb. apply in_or_app. right. right. exact X2. }
    rewrite LK. reflexivity.
  - destruct (after_line_none _ _ AL) as [NI _]. cbn [option_map].
    rewrite (lookup_outside _ _ _ KE NH pre [] None G); auto; try congruence.
Qed.

(* ------------------------------------------------------------------ typed values: reader = format *)
Lemma text_eqb_sym a : forall b, text_eqb a b = text_eqb b a.
Proof. induction a as [|x a IH]; destruct b as [|y b]; simpl; auto. rewrite Z.eqb_sym, IH. reflexivity. Qed.

Lemma sampleset_same s : sampleset_from_string s = sample_set_of s.
Proof.
  unfold sampleset_from_string, sample_set_of. cbn [index_of].
  rewrite (text_eqb_sym (t "None") s), (text_eqb_sym (t "Normal") s), (text_eqb_sym (t "Soft") s), (text_eqb_sym (t "Drum") s).
  destruct (text_eqb s (t "None")); [reflexivity|].
  destruct (text_eqb s (t "Normal")); [reflexivity|].
  destruct (text_eqb s (t "Soft")); [reflexivity|].
  destruct (text_eqb s (t "Drum")); reflexivity.
Qed.

Definition words' (x : text) : list text := filter nonempty (map strip (split_on 32 x)).
Lemma words_lead ws s : forallb is_space ws = true -> words' (ws ++ s) = words' s.
Proof.
  induction ws as [|x ws IH]; intro H; [reflexivity|]. simpl in H. apply andb_true_iff in H. destruct H as [Hx Hw].
  unfold words' in *. cbn [app split_on]. destruct (Z.eqb_spec x 32) as [E|E].
  - cbn [map filter]. rewrite strip_nil. cbn [nonempty]. apply IH. exact Hw.
  - rewrite <- (IH Hw). pose proof (split_on_nonempty 32 (ws ++ s)) as NE.
    destruct (split_on 32 (ws ++ s)) as [|h tl]; [congruence|]. cbn [map filter].
    change (x :: h) with ([x] ++ h). rewrite strip_lead by (simpl; rewrite Hx; reflexivity). reflexivity.
Qed.
Lemma filter_strip_comm ps : forallb (fun p => negb (nonempty p) || nonempty (strip p)) ps = true ->
  map strip (filter nonempty ps) = filter nonempty (map strip ps).
Proof.
  induction ps as [|p ps IH]; intro H; [reflexivity|]. simpl in H. apply andb_true_iff in H. destruct H as [Hp Hs].
  cbn [filter map]. destruct p as [|c p'].
  - cbn [nonempty]. rewrite strip_nil. cbn [nonempty]. apply IH. exact Hs.
  - cbn [nonempty negb orb] in Hp. cbn [nonempty map]. rewrite Hp. rewrite IH by exact Hs. reflexivity.
Qed.

(* v = the text after the first colon of a stripped line *)
Definition ends_tight (v : text) : Prop := head_ok is_space (rev v).
Lemma value_ends_tight l k v : stripped l -> cut_first 58 l = Some (k, v) -> ends_tight v.
Proof.
  intros S C. rewrite cut_first_is_cut_at in C. apply cut_at_some in C. destruct C as [E _].
  destruct v as [|c v']; [exact I|]. unfold ends_tight.
  apply (tight_suffix (k ++ [58]) (c :: v')); [|discriminate]. rewrite <- app_assoc. simpl. rewrite <- E. exact S.
Qed.

Lemma tags_same v : ends_tight v -> tags_plain v = true ->
  map strip (filter nonempty (split_on SPACE v)) = words (strip v).
Proof.
  intros T P. unfold tags_plain in P. unfold SPACE. rewrite (filter_strip_comm _ P).
  change (filter nonempty (map strip (split_on 32 v))) with (words' v).
  change (words (strip v)) with (words' (strip v)).
  destruct (strip_left_only v T) as [ws [E F]]. rewrite E at 1. apply words_lead. exact F.
Qed.

Lemma rmv_typed ty v : ends_tight v -> (ty = TTags -> tags_plain v = true) ->
  read_meta_value (kind_of ty) (Some v) = typed_value ty v.
Proof.
  intros T P. unfold read_meta_value, typed_value. cbn [obind]. destruct ty; cbn [kind_of].
  - reflexivity.
  - unfold py_int. destruct (parse_int (strip v)); reflexivity.
  - unfold py_int. destruct (parse_int (strip v)); reflexivity.
  - unfold py_float. destruct (parse_dec (strip v)); reflexivity.
  - rewrite sampleset_same. reflexivity.
  - rewrite (tags_same v T (P eq_refl)). reflexivity.
Qed.

(* ------------------------------------------------------------------ (M) the 30 attributes *)
Lemma nth_error_ext {A} (a : list A) : forall b, (forall i, nth_error a i = nth_error b i) -> a = b.
Proof.
  induction a as [|x a IH]; intros b H.
  - destruct b; auto. specialize (H 0%nat). discriminate.
  - destruct b as [|y b]; [specialize (H 0%nat); discriminate|].
    pose proof (H 0%nat) as H0. inversion H0. f_equal. apply IH. intro i. exact (H (S i)).
Qed.
Lemma nth_error_combine {A B} (a : list A) : forall (b : list B) i x y,
  nth_error a i = Some x -> nth_error b i = Some y -> nth_error (combine a b) i = Some (x, y).
Proof.
  induction a as [|a0 a IH]; intros [|b0 b] [|i] x y NA NB; simpl in *; try discriminate.
  - inversion NA. inversion NB. reflexivity.
  - apply IH; auto.
Qed.
Lemma omap_length {A B} (f : A -> option B) l : forall r, omap f l = Some r -> length r = length l.
Proof.
  induction l as [|x l IH]; intros r H; simpl in H; [inversion H; reflexivity|].
  destruct (f x); [|discriminate]. cbn [obind] in H. destruct (omap f l) as [r'|]; [|discriminate].
  inversion H. simpl. f_equal. apply IH. reflexivity.
Qed.
Lemma omap_nth {A B} (f : A -> option B) l : forall r i x, omap f l = Some r -> nth_error l i = Some x ->
  exists y, f x = Some y /\ nth_error r i = Some y.
Proof.
  induction l as [|a l IH]; intros r i x H N; [destruct i; discriminate|].
  simpl in H. destruct (f a) as [b|] eqn:F; [|discriminate]. cbn [obind] in H.
  destruct (omap f l) as [r'|] eqn:O; [|discriminate]. inversion H. subst.
  destruct i; simpl in N.
  - inversion N. subst. exists b. auto.
  - apply (IH r' i x eq_refl N).
Qed.

Lemma find_key_entry k j kd : find_key k meta_keys 0 = Some (j, kd) ->
  exists sec ty, nth_error key_table j = Some (sec, k, ty) /\ kd = kind_of ty.
Proof.
  intro F. destruct (find_key_sound _ _ _ _ _ F) as [_ N]. rewrite Nat.sub_0_r in N.
  rewrite meta_keys_table in N. rewrite nth_error_map in N.
  destruct (nth_error key_table j) as [[[sec k'] ty]|]; [|discriminate]. simpl in N. inversion N. subst. eauto.
Qed.

(* what the strict layout says about a line carrying an attribute key *)
Lemma attr_line_facts cur l sec name ty : stripped l -> attr_line_ok cur l = true -> key_of l = name ->
  key_entry name key_table = Some (sec, ty) ->
  exists v tv, cut_first 58 l = Some (name, v) /\ typed_value ty v = Some tv /\
               read_meta_value (kind_of ty) (Some v) = Some tv.
Proof.
  intros S A K KE. unfold attr_line_ok in A. rewrite K, KE in A.
  apply andb_true_iff in A. destruct A as [_ A].
  destruct (cut_first 58 l) as [[k v]|] eqn:C; [|discriminate].
  assert (k = name) by (unfold key_of in K; rewrite C in K; exact K). subst k.
  unfold value_typed in A. apply andb_true_iff in A. destruct A as [A1 A2].
  destruct (typed_value ty v) as [tv|] eqn:TV; [|discriminate].
  exists v, tv. repeat split; auto. rewrite <- TV. apply rmv_typed.
  - eapply value_ends_tight; eauto.
  - intro E. subst. exact A2.
Qed.

Lemma meta_agree ls pre tps hos meta_d :
  (forall l, In l ls -> stripped l) -> layout ls pre tps hos -> lines_in_place [] pre = true ->
  omap (denote_key ls) key_table = Some meta_d ->
  meta_fold pre meta_default = Some (realize_meta meta_d).
Proof.
  intros ST L G D.
  assert (STP: forall l, In l pre -> stripped l).
  { intros l I. apply ST. rewrite (lay_eq _ _ _ _ L). apply in_or_app. left. exact I. }
  (* every line carrying a key is processed without exception *)
  assert (OK: forall l j kd, In l pre -> find_key (line_key l) meta_keys 0 = Some (j, kd) ->
              exists mv, read_meta_value kd (line_val l) = Some mv).
  { intros l j kd I F. destruct (find_key_entry _ _ _ F) as [sec [ty [N EK]]]. subst kd.
    destruct (entry_facts _ _ _ _ N) as [_ [KE [NH _]]]. rewrite line_key_key_of in *.
    assert (HL: is_header l = false).
    { destruct (is_header l) eqn:H; auto. exfalso. exact (header_not_key l _ H NH eq_refl). }
    destruct (lip_line _ _ _ G I HL) as [cur A].
    destruct (attr_line_facts _ _ _ _ _ (STP l I) A eq_refl KE) as [v [tv [C [_ R]]]].
    destruct (line_cut_some _ _ _ C) as [_ V]. rewrite V. eauto. }
  destruct (meta_fold_ok pre OK meta_default) as [m' MF]. rewrite MF. f_equal.
  destruct (meta_fold_nth pre _ _ MF eq_refl) as [L' NTH].
  pose proof (omap_length _ _ _ D) as LD. change (length key_table) with 30%nat in LD.
  apply nth_error_ext. intro i.
  destruct (nth_error key_table i) as [[[sec name] ty]|] eqn:N.
  - rewrite (NTH i sec name ty N).
    destruct (omap_nth _ _ _ _ _ D N) as [o [DK NO]].
    rewrite (denote_key_flat _ _ _ _ _ _ _ _ L G N) in DK.
    assert (Li: (i < length key_table)%nat) by (apply nth_error_Some; rewrite N; discriminate).
    change (length key_table) with 30%nat in Li.
    destruct (nth_error meta_default i) as [def|] eqn:ND.
    2:{ apply nth_error_None in ND. change (length meta_default) with 30%nat in ND. lia. }
    assert (RN: nth_error (realize_meta meta_d) i = Some (match o with Some v => v | None => def end)).
    { unfold realize_meta. rewrite nth_error_map.
      assert (C: nth_error (combine meta_d meta_default) i = Some (o, def)).
      { apply nth_error_combine; auto. }
      rewrite C. reflexivity. }
    rewrite RN.
    destruct (lookup_kv name pre None) as [v|] eqn:LK.
    + destruct (lookup_kv_in _ _ _ LK) as [l [I C]].
      destruct (entry_facts _ _ _ _ N) as [_ [KE [NH _]]].
      assert (K: key_of l = name) by (unfold key_of; rewrite C; reflexivity).
      assert (HL: is_header l = false).
      { destruct (is_header l) eqn:H; auto. exfalso. exact (header_not_key l _ H NH K). }
      destruct (lip_line _ _ _ G I HL) as [cur A].
      destruct (attr_line_facts _ _ _ _ _ (STP l I) A K KE) as [v' [tv [C' [TV R]]]].
      rewrite C in C'. inversion C'. subst v'. rewrite R. rewrite TV in DK. cbn [option_map] in DK.
      inversion DK. reflexivity.
    + inversion DK. reflexivity.
  - assert (Li: (length key_table <= i)%nat) by (apply nth_error_None; exact N).
    change (length key_table) with 30%nat in Li.
    assert (A: nth_error m' i = None) by (apply nth_error_None; lia).
    assert (B: nth_error (realize_meta meta_d) i = None).
    { apply nth_error_None. unfold realize_meta. rewrite map_length, combine_length. lia. }
    congruence.
Qed.

(* ================================================================== (B)/(S) the two [Events] markers *)
Definition is_mark (m : text) : Prop := m = BG_MARKER \/ m = SAMPLE_MARKER.
Lemma mark_facts m : is_mark m ->
  key_entry m key_table = None /\ hd 0 m <> 91 /\ is_header m = false /\ m <> EVENTS /\ line_key m = m /\
  (text_eqb m BG_MARKER || text_eqb m SAMPLE_MARKER = true) /\ m <> [].
Proof. intros [E|E]; subst; vm_compute; repeat split; congruence. Qed.

Lemma lip_line_at cur ls l : lines_in_place cur ls = true -> In l ls -> is_header l = false ->
  exists a b, ls = a ++ l :: b /\ attr_line_ok (last_header cur a) l = true.
Proof.
  intros H I NH. apply in_split in I. destruct I as [a [b E]]. subst. exists a, b. split; auto.
  rewrite lines_in_place_app in H. apply andb_true_iff in H. destruct H as [_ H].
  cbn [lines_in_place] in H. rewrite NH in H. apply andb_true_iff in H. tauto.
Qed.
Lemma last_header_in a : forall cur, last_header cur a = cur \/ In (last_header cur a) a.
Proof.
  induction a as [|l a IH]; intro cur; [left; reflexivity|]. cbn [last_header fold_left].
  destruct (is_header l).
  - destruct (IH l) as [E|I]; [right; left; unfold last_header in E; rewrite E; reflexivity|right; right; exact I].
  - destruct (IH cur) as [E|I]; [left; exact E|right; right; exact I].
Qed.

(* a line whose key is a marker IS the marker *)
Lemma mark_exact m cur ls l : is_mark m -> lines_in_place cur ls = true -> In l ls -> line_key l = m -> l = m.
Proof.
  intros M H I K. destruct (mark_facts m M) as [KE [NH [_ [_ [_ [OR _]]]]]]. rewrite line_key_key_of in K.
  destruct (is_header l) eqn:HL.
  - exfalso. exact (header_not_key l m HL NH K).
  - destruct (lip_line _ _ _ H I HL) as [c A]. unfold attr_line_ok in A. rewrite K, KE, OR in A.
    apply andb_true_iff in A. destruct A as [A _]. apply text_eqb_eq in A. exact A.
Qed.
(* and it stands in [Events] *)
Lemma mark_in_events m cur ls : is_mark m -> lines_in_place cur ls = true -> In m ls -> cur = EVENTS \/ In EVENTS ls.
Proof.
  intros M H I. destruct (mark_facts m M) as [KE [NH [HM [_ [KM [OR _]]]]]].
  destruct (lip_line_at _ _ _ H I HM) as [a [b [E A]]]. unfold attr_line_ok in A.
  assert (K: key_of m = m) by (rewrite <- line_key_key_of; exact KM).
  rewrite K, KE, OR in A. apply andb_true_iff in A. destruct A as [_ A]. apply text_eqb_eq in A.
  destruct (last_header_in a cur) as [X|X]; [left; congruence|right]. rewrite A in X. rewrite E. apply in_or_app. left. exact X.
Qed.

Lemma occurrences_app m a b : occurrences m (a ++ b) = (occurrences m a + occurrences m b)%nat.
Proof. unfold occurrences. rewrite filter_app, app_length. reflexivity. Qed.
Lemma occurrences_zero m l : occurrences m l = O -> ~ In m l.
Proof.
  unfold occurrences. intros H I. assert (X: In m (filter (text_eqb m) l)) by (apply filter_In; split; auto; apply text_eqb_refl).
  destruct (filter (text_eqb m) l); [destruct X|discriminate].
Qed.

Definition EV_SPLIT : split_at EVENTS PRE_HEADERS = Some (FRONT4, []).
Proof. reflexivity. Qed.

Lemma marker_position m ls pre tps hos : is_mark m -> layout ls pre tps hos -> lines_in_place [] pre = true ->
  (occurrences m pre <= 1)%nat -> In m pre ->
  exists front x' y, pre = front ++ m :: y /\ ~ In m front /\ ~ In m y /\
                     section EVENTS ls = Some (x' ++ m :: y) /\ ~ In m x'.
Proof.
  intros M L G OC I. destruct (mark_facts m M) as [KE [NH [HM [NEV [KM [OR NE]]]]]].
  assert (IE: In EVENTS ls).
  { destruct (mark_in_events m [] pre M G I) as [X|X]; [discriminate X|].
    rewrite (lay_eq _ _ _ _ L). apply in_or_app. left. exact X. }
  destruct (layout_section _ _ _ _ EVENTS _ _ L EV_SPLIT eq_refl) as [_ B].
  destruct (B IE) as [a [b [E [Na [Nb [_ Hb]]]]]]. apply subseq_nil_r in Hb.
  (* the marker is not before [Events] *)
  assert (NA: ~ In m a).
  { intro IA. rewrite E in G. rewrite lines_in_place_app in G. apply andb_true_iff in G. destruct G as [G1 _].
    destruct (mark_in_events m [] a M G1 IA) as [X|X]; [discriminate X|contradiction]. }
  assert (IB: In m b).
  { rewrite E in I. apply in_app_or in I. destruct I as [I|[I|I]]; [contradiction|congruence|exact I]. }
  destruct (after_line_in _ _ IB) as [y AL]. destruct (after_line_split _ _ _ AL) as [Eb Nx].
  set (x' := upto m b) in *.
  exists (a ++ EVENTS :: x'), x', y.
  assert (Ny: ~ In m y).
  { apply occurrences_zero. rewrite E, Eb in OC. rewrite !occurrences_app in OC.
    change (occurrences m (EVENTS :: x' ++ m :: y)) with (occurrences m ([EVENTS] ++ x' ++ m :: y)) in OC.
    rewrite !occurrences_app in OC. change (occurrences m (m :: y)) with (occurrences m ([m] ++ y)) in OC.
    rewrite occurrences_app in OC. assert (O1: occurrences m [m] = 1%nat) by (unfold occurrences; simpl; rewrite text_eqb_refl; reflexivity).
    lia. }
  repeat split; auto.
  - rewrite E, Eb. rewrite <- app_assoc. reflexivity.
  - intro X. apply in_app_or in X. destruct X as [X|[X|X]]; [contradiction|congruence|contradiction].
  - rewrite section_after. rewrite (lay_eq _ _ _ _ L), E. rewrite <- app_assoc. cbn [app].
    rewrite after_line_app by exact Na. cbn [option_map]. rewrite take_body_app_header by reflexivity.
    rewrite take_body_plain by (apply no_headers; exact Hb). rewrite Eb. reflexivity.
Qed.

Lemma marker_absent m ls pre tps hos : is_mark m -> layout ls pre tps hos -> lines_in_place [] pre = true ->
  ~ In m pre ->
  (forall l, In l pre -> line_key l <> m) /\
  match section EVENTS ls with None => True | Some body => after_line m body = None end.
Proof.
  intros M L G NI. split.
  - intros l I K. apply NI. rewrite <- (mark_exact m [] pre l M G I K). exact I.
  - rewrite section_after. destruct (after_line EVENTS ls) as [rest|] eqn:AL; cbn [option_map]; auto.
    destruct (after_line_split _ _ _ AL) as [E _].
    assert (IE: In EVENTS ls) by (rewrite E; apply in_or_app; right; left; reflexivity).
    destruct (layout_section _ _ _ _ EVENTS _ _ L EV_SPLIT eq_refl) as [_ B].
    destruct (B IE) as [a [b [E2 [Na [Nb [_ Hb]]]]]].
    assert (R: rest = b ++ TP_HEADER :: tps ++ HO_HEADER :: hos).
    { rewrite (lay_eq _ _ _ _ L), E2 in AL. rewrite <- app_assoc in AL. cbn [app] in AL.
      rewrite after_line_app in AL by exact Na. inversion AL. reflexivity. }
    subst rest. rewrite take_body_app_header by reflexivity.
    destruct (after_line m (take_body b)) as [r|] eqn:A2; auto. exfalso.
    destruct (after_line_split _ _ _ A2) as [E3 _]. apply NI. rewrite E2. apply in_or_app. right. right.
    destruct (take_body_split b) as [b2 [Eb _]]. rewrite Eb. apply in_or_app. left. rewrite E3. apply in_or_app. right. left. reflexivity.
Qed.

(* ------------------------------------------------------------------ background *)
Lemma bg_fold_none ls : forall bg, (forall l, In l ls -> line_key l <> BG_MARK) -> bg_fold ls bg = Some bg.
Proof.
  induction ls as [|l ls IH]; intros bg H; [reflexivity|]. cbn [bg_fold].
  destruct (text_eqb (line_key l) BG_MARK) eqn:E.
  - apply text_eqb_eq in E. exfalso. exact (H l (or_introl eq_refl) E).
  - apply IH. intros x I. apply H. right. exact I.
Qed.
Lemma bg_fold_one front y : forall bg, (forall l, In l front -> line_key l <> BG_MARK) -> (forall l, In l y -> line_key l <> BG_MARK) ->
  bg_fold (front ++ BG_MARK :: y) bg =
  match y with nx :: _ => Some (py_slice nx (find QUOTE nx + 1) (rfind QUOTE nx)) | [] => None end.
Proof.
  induction front as [|l front IH]; intros bg H1 H2.
  - cbn [app bg_fold]. change (text_eqb (line_key BG_MARK) BG_MARK) with true. cbn iota.
    destruct y as [|nx y']; [reflexivity|]. apply bg_fold_none. exact H2.
  - cbn [app bg_fold]. destruct (text_eqb (line_key l) BG_MARK) eqn:E.
    + apply text_eqb_eq in E. exfalso. exact (H1 l (or_introl eq_refl) E).
    + apply IH; auto. intros x I. apply H1. right. exact I.
Qed.

Lemma has_in c s : has c s = true -> In c s.
Proof.
  unfold has. intro H. apply existsb_exists in H. destruct H as [x [I E]]. apply Z.eqb_eq in E. subst. exact I.
Qed.
Lemma between_quotes_slice l s : between_quotes l = Some s -> py_slice l (find QUOTE l + 1) (rfind QUOTE l) = s.
Proof.
  unfold between_quotes. destruct (cut_first 34 l) as [[a rest]|] eqn:C; [|discriminate].
  destruct (has 34 rest) eqn:H; [|discriminate]. intro E. inversion E. clear E. subst s.
  rewrite cut_first_is_cut_at in C. apply cut_at_some in C. destruct C as [El Na].
  unfold between_quotes_go.
  assert (IR: In 34 (rev rest)) by (apply in_rev; rewrite rev_involutive; apply has_in; exact H).
  destruct (cut_first 34 (rev rest)) as [[rb rm]|] eqn:C2.
  2:{ exfalso. rewrite cut_first_is_cut_at in C2. revert C2 IR. generalize (rev rest). intro r.
      induction r as [|x r IH]; simpl; [tauto|]. destruct (Z.eqb_spec x 34); [discriminate|].
      destruct (cut_at 34 r) as [[? ?]|]; [discriminate|]. intros _ [I|I]; [congruence|]. apply IH; auto. }
  rewrite cut_first_is_cut_at in C2. apply cut_at_some in C2. destruct C2 as [Er Nb].
  assert (R: rest = rev rm ++ 34 :: rev rb).
  { rewrite <- (rev_involutive rest), Er. rewrite rev_app_distr. simpl. rewrite <- app_assoc. reflexivity. }
  rewrite El, R. unfold QUOTE. apply slice_between; auto. intro I. apply Nb. apply in_rev. exact I.
Qed.

Lemma bg_agree ls pre tps hos bgd : layout ls pre tps hos -> lines_in_place [] pre = true ->
  (occurrences BG_MARKER pre <= 1)%nat -> denote_bg ls = Some bgd ->
  bg_fold pre [] = Some (match bgd with Some b => b | None => [] end).
Proof.
  intros L G OC D. assert (M: is_mark BG_MARKER) by (left; reflexivity).
  unfold denote_bg in D. change (t "[Events]") with EVENTS in D. change (t "//Background and Video events") with BG_MARKER in D.
  destruct (in_dec (list_eq_dec Z.eq_dec) BG_MARKER pre) as [I|NI].
  - destruct (marker_position _ _ _ _ _ M L G OC I) as [front [x' [y [E [Nf [Ny [S Nx]]]]]]].
    rewrite S in D. rewrite after_line_app in D by exact Nx.
    rewrite E. change BG_MARKER with BG_MARK. rewrite bg_fold_one.
    + destruct y as [|nx y']; [discriminate|]. destruct (between_quotes nx) as [s|] eqn:B; [|discriminate].
      cbn [option_map] in D. inversion D. rewrite (between_quotes_slice _ _ B). reflexivity.
    + intros l Il K. apply Nf. rewrite <- (mark_exact _ [] pre l M G) at 1; auto. rewrite E. apply in_or_app. left. exact Il.
    + intros l Il K. apply Ny. rewrite <- (mark_exact _ [] pre l M G) at 1; auto. rewrite E. apply in_or_app. right. right. exact Il.
  - destruct (marker_absent _ _ _ _ _ M L G NI) as [A B].
    rewrite (bg_fold_none pre [] A). destruct (section EVENTS ls) as [body|].
    + rewrite B in D. inversion D. reflexivity.
    + inversion D. reflexivity.
Qed.

(* ------------------------------------------------------------------ sample events *)
Lemma samples_fold_none ls : forall ss, (forall l, In l ls -> line_key l <> SAMPLE_MARK) -> samples_fold ls ss = Some ss.
Proof.
  induction ls as [|l ls IH]; intros ss H; [reflexivity|]. cbn [samples_fold].
  destruct (text_eqb (line_key l) SAMPLE_MARK) eqn:E.
  - apply text_eqb_eq in E. exfalso. exact (H l (or_introl eq_refl) E).
  - apply IH. intros x I. apply H. right. exact I.
Qed.
Lemma samples_fold_one front y : forall ss, (forall l, In l front -> line_key l <> SAMPLE_MARK) ->
  (forall l, In l y -> line_key l <> SAMPLE_MARK) ->
  samples_fold (front ++ SAMPLE_MARK :: y) ss = omap read_sample (filter (startswith (t "Sample")) y).
Proof.
  induction front as [|l front IH]; intros ss H1 H2.
  - cbn [app samples_fold]. change (text_eqb (line_key SAMPLE_MARK) SAMPLE_MARK) with true. cbn iota.
    destruct (omap read_sample (filter (startswith (t "Sample")) y)) as [s|]; cbn [obind]; [|reflexivity].
    apply samples_fold_none. exact H2.
  - cbn [app samples_fold]. destruct (text_eqb (line_key l) SAMPLE_MARK) eqn:E.
    + apply text_eqb_eq in E. exfalso. exact (H1 l (or_introl eq_refl) E).
    + apply IH; auto. intros x I. apply H1. right. exact I.
Qed.

Lemma startswith_weaken p q : forall l, startswith (p ++ q) l = true -> startswith p l = true.
Proof.
  induction p as [|x p IH]; intros l H; [reflexivity|]. destruct l as [|y l]; [discriminate|].
  simpl in *. apply andb_true_iff in H. destruct H as [H1 H2]. rewrite H1. simpl. apply IH. exact H2.
Qed.
Lemma filter_same {A} (p q : A -> bool) l : (forall x, In x l -> p x = q x) -> filter p l = filter q l.
Proof.
  induction l as [|x l IH]; intro H; [reflexivity|]. simpl. rewrite (H x (or_introl eq_refl)).
  rewrite IH by (intros y I; apply H; right; exact I). reflexivity.
Qed.
Lemma omap_impl {A B} (f g : A -> option B) l : (forall x y, In x l -> f x = Some y -> g x = Some y) ->
  forall r, omap f l = Some r -> omap g l = Some r.
Proof.
  induction l as [|x l IH]; intros H r O; [exact O|]. simpl in *.
  destruct (f x) as [y|] eqn:F; [|discriminate]. cbn [obind] in O. destruct (omap f l) as [r'|] eqn:O2; [|discriminate].
  rewrite (H x y (or_introl eq_refl) F). cbn [obind].
  rewrite (IH (fun x y I => H x y (or_intror I)) r' eq_refl). exact O.
Qed.

Lemma sample_line_same l s : denote_sample l = Some s -> read_sample l = Some s.
Proof.
  unfold denote_sample, read_sample. unfold COMMA.
  destruct (split_on 44 l) as [|f0 [|f1 [|f2 [|f3 [|f4 [|f5 r]]]]]]; try discriminate.
  cbn [nth_text obind]. unfold py_float, py_int.
  destruct (parse_dec (strip f1)); [|discriminate]. destruct (parse_int (strip f4)); [|discriminate]. auto.
Qed.

Lemma samples_agree ls pre tps hos ssd : layout ls pre tps hos -> lines_in_place [] pre = true ->
  (occurrences SAMPLE_MARKER pre <= 1)%nat ->
  match after_line SAMPLE_MARKER pre with
  | Some rest => forallb (fun l => negb (startswith (t "Sample") l) || startswith (t "Sample,") l) rest
  | None => true end = true ->
  denote_samples ls = Some ssd ->
  samples_fold pre [] = Some ssd.
Proof.
  intros L G OC SG D. assert (M: is_mark SAMPLE_MARKER) by (right; reflexivity).
  unfold denote_samples in D. change (t "[Events]") with EVENTS in D. change (t "//Storyboard Sound Samples") with SAMPLE_MARKER in D.
  destruct (in_dec (list_eq_dec Z.eq_dec) SAMPLE_MARKER pre) as [I|NI].
  - destruct (marker_position _ _ _ _ _ M L G OC I) as [front [x' [y [E [Nf [Ny [S Nx]]]]]]].
    rewrite S in D. rewrite after_line_app in D by exact Nx.
    rewrite E in SG. rewrite after_line_app in SG by exact Nf.
    rewrite E. change SAMPLE_MARKER with SAMPLE_MARK. rewrite samples_fold_one.
    + rewrite (filter_same (startswith (t "Sample")) (startswith (t "Sample,")) y).
      * apply (omap_impl denote_sample read_sample); auto. intros x s _. apply sample_line_same.
      * intros x Ix. rewrite forallb_forall in SG. specialize (SG x Ix).
        destruct (startswith (t "Sample,") x) eqn:S2.
        -- apply (startswith_weaken (t "Sample") [44]). exact S2.
        -- rewrite orb_false_r in SG. apply negb_true_iff in SG. exact SG.
    + intros l Il K. apply Nf. rewrite <- (mark_exact _ [] pre l M G) at 1; auto. rewrite E. apply in_or_app. left. exact Il.
    + intros l Il K. apply Ny. rewrite <- (mark_exact _ [] pre l M G) at 1; auto. rewrite E. apply in_or_app. right. right. exact Il.
  - destruct (marker_absent _ _ _ _ _ M L G NI) as [A B].
    rewrite (samples_fold_none pre [] A). destruct (section EVENTS ls) as [body|].
    + rewrite B in D. exact D.
    + exact D.
Qed.

(* ================================================================== D. the two list sections *)
(* ------------------------------------------------------------------ [TimingPoints] *)
Lemma tp_line l tp : denote_tp l = Some tp -> tp_shaped l = true ->
  (match eff_of_line l with Some e => (e =? 0) || (e =? 1) | None => false end = true) ->
  match tp with
  | TPBpm b => is_timing_point l = true /\ is_slider_velocity l = false /\ read_bpm l = Some b
  | TPSv s => is_slider_velocity l = true /\ is_timing_point l = false /\ read_sv l = Some s
  end.
Proof.
  intros D SH EF.
  assert (E01: effects_01 l).
  { unfold effects_01, eff_of_line, COMMA in *. intros f ki N P.
    destruct (split_on 44 l) as [|f0 [|f1 [|f2 [|f3 [|f4 [|f5 [|f6 [|f7 [|f8 r]]]]]]]]]; try discriminate.
    cbn [map nth_text] in *. inversion N. subst f. unfold py_int in P. rewrite P in EF.
    apply orb_true_iff in EF. destruct EF as [X|X]; apply Z.eqb_eq in X; auto. }
  assert (MN: meter_numeric l).
  { unfold meter_numeric, denote_tp, COMMA in *. intros f N.
    destruct (split_on 44 l) as [|f0 [|f1 [|f2 [|f3 [|f4 [|f5 [|f6 [|f7 [|f8 r]]]]]]]]]; try discriminate.
    cbn [map nth_text] in *. inversion N. subst f. unfold py_int.
    destruct (parse_dec (strip f0)); [|discriminate]. destruct (parse_dec (strip f1)); [|discriminate].
    destruct (parse_int (strip f2)); [eauto|discriminate]. }
  unfold tp_shaped in SH. apply andb_true_iff in SH. destruct SH as [LEN U].
  destruct (nth_text (split_on 44 l) 6) as [u|] eqn:NU; [|discriminate].
  apply orb_true_iff in U. destruct U as [U|U]; apply text_eqb_eq in U; subst u.
  - (* SV *)
    assert (SV: is_slider_velocity l = true).
    { unfold is_slider_velocity, tp_kind_is, COMMA. rewrite LEN, NU. reflexivity. }
    assert (NT: is_timing_point l = false).
    { unfold is_timing_point, tp_kind_is, COMMA. rewrite LEN, NU. reflexivity. }
    pose proof (read_sv_denotes l SV E01 MN) as R. rewrite D in R.
    destruct (read_sv l) as [s|]; [|discriminate]. cbn [option_map] in R. inversion R. auto.
  - assert (TPt: is_timing_point l = true).
    { unfold is_timing_point, tp_kind_is, COMMA. rewrite LEN, NU. reflexivity. }
    assert (NS: is_slider_velocity l = false).
    { unfold is_slider_velocity, tp_kind_is, COMMA. rewrite LEN, NU. reflexivity. }
    pose proof (read_bpm_denotes l TPt E01) as R. rewrite D in R.
    destruct (read_bpm l) as [b|]; [|discriminate]. cbn [option_map] in R. inversion R. auto.
Qed.

Lemma tp_section body : forall tpsd,
  forallb tp_shaped (filter nonempty body) = true ->
  forallb (fun l => match eff_of_line l with Some e => (e =? 0) || (e =? 1) | None => false end) (filter nonempty body) = true ->
  omap denote_tp (filter nonempty body) = Some tpsd ->
  omap read_bpm (filter is_timing_point body) = Some (pick_bpms tpsd) /\
  omap read_sv (filter is_slider_velocity body) = Some (pick_svs tpsd).
Proof.
  induction body as [|l body IH]; intros tpsd SH EF D.
  - simpl in D. inversion D. split; reflexivity.
  - cbn [filter] in *. destruct l as [|c l'].
    + cbn [nonempty] in *. change (is_timing_point []) with false. change (is_slider_velocity []) with false. apply IH; auto.
    + cbn [nonempty] in *. set (l := c :: l') in *. cbn [forallb omap] in *.
      apply andb_true_iff in SH. destruct SH as [S1 S2]. apply andb_true_iff in EF. destruct EF as [E1 E2].
      destruct (denote_tp l) as [tp|] eqn:DT; [|discriminate]. cbn [obind] in D.
      destruct (omap denote_tp (filter nonempty body)) as [r|] eqn:O; [|discriminate]. inversion D. subst tpsd.
      destruct (IH r S2 E2 eq_refl) as [A B]. pose proof (tp_line l tp DT S1 E1) as T.
      destruct tp as [b|s]; destruct T as [T1 [T2 T3]]; rewrite T1, T2; cbn [omap pick_bpms pick_svs].
      * rewrite T3, A. cbn [obind]. split; [reflexivity|exact B].
      * rewrite T3, B. cbn [obind]. split; [exact A|reflexivity].
Qed.

Lemma not_shaped_not_tp l : tp_shaped l = false -> is_timing_point l = false /\ is_slider_velocity l = false.
Proof.
  unfold tp_shaped, is_timing_point, is_slider_velocity, tp_kind_is, COMMA. intro H.
  destruct (length (split_on 44 l) =? 8)%nat; [|auto]. cbn [andb] in H.
  destruct (nth_text (split_on 44 l) 6) as [u|]; [|auto]. apply orb_false_iff in H. destruct H as [H0 H1].
  rewrite H0, H1. auto.
Qed.
Lemma filter_none {A} (p : A -> bool) l : (forall x, In x l -> p x = false) -> filter p l = [].
Proof.
  induction l as [|x l IH]; intro H; [reflexivity|]. simpl. rewrite (H x (or_introl eq_refl)).
  apply IH. intros y I. apply H. right. exact I.
Qed.

(* ------------------------------------------------------------------ [HitObjects] *)
Lemma count_zero_not c s : ~ In c s -> count c s = O.
Proof. apply count_zero_iff. Qed.

Lemma not_space_58 : is_space 58 = false. Proof. reflexivity. Qed.
Lemma not_num_58 : is_num_char 58 = false. Proof. reflexivity. Qed.

Lemma all_space_no c ws : is_space c = false -> forallb is_space ws = true -> ~ In c ws.
Proof. intros H F I. rewrite forallb_forall in F. apply F in I. congruence. Qed.

Lemma ho_line k l ho : stripped l -> denote_ho k l = Some ho ->
  match ho with
  | HHit n => is_hit l = true /\ is_hold l = false /\ read_hit l k = Some n
  | HHold n => is_hold l = true /\ is_hit l = false /\ read_hold l k = Some n
  end.
Proof.
  intros ST D. unfold denote_ho in D.
  destruct (split_on 44 l) as [|f0 [|f1 [|f2 [|f3 [|f4 [|ps [|f6 r]]]]]]] eqn:SP; try discriminate.
  cbn [map] in D.
  destruct (parse_int (strip f0)) as [x|] eqn:P0; [|discriminate].
  destruct (parse_int (strip f1)) as [y|] eqn:P1; [|discriminate].
  destruct (parse_dec (strip f2)) as [o|] eqn:P2; [|discriminate].
  destruct (parse_int (strip f3)) as [ty|] eqn:P3; [|discriminate].
  destruct (parse_int (strip f4)) as [hs|] eqn:P4; [|discriminate].
  assert (CC: count COMMA l = 5%nat).
  { pose proof (split_length_count 44 l) as LC. rewrite SP in LC. simpl in LC. unfold COMMA. lia. }
  assert (JL: l = f0 ++ 44 :: f1 ++ 44 :: f2 ++ 44 :: f3 ++ 44 :: f4 ++ 44 :: ps).
  { rewrite <- (join_split 44 l), SP. reflexivity. }
  assert (CL: count COLON l = count 58 (strip ps)).
  { unfold COLON. rewrite JL at 1. repeat (rewrite count_app; cbn [count]; change (44 =? 58) with false; cbn iota).
    rewrite (count_zero_not 58 f0) by (eapply parsed_no_sep_int; eauto).
    rewrite (count_zero_not 58 f1) by (eapply parsed_no_sep_int; eauto).
    rewrite (count_zero_not 58 f2) by (eapply parsed_no_sep_dec; eauto).
    rewrite (count_zero_not 58 f3) by (eapply parsed_no_sep_int; eauto).
    rewrite (count_zero_not 58 f4) by (eapply parsed_no_sep_int; eauto).
    rewrite count_strip by reflexivity. reflexivity. }
  assert (PS: split_on 58 (strip ps) <> [[]] -> exists ws, ps = ws ++ strip ps /\ forallb is_space ws = true).
  { intro NE. apply strip_left_only. destruct ps as [|c ps']; [exfalso; apply NE; reflexivity|].
    apply (tight_suffix (f0 ++ 44 :: f1 ++ 44 :: f2 ++ 44 :: f3 ++ 44 :: f4 ++ [44]) (c :: ps')); [|discriminate].
    repeat (rewrite <- app_assoc; cbn [app]). rewrite <- JL. exact ST. }
  destruct (Z.testbit ty 7) eqn:B7.
  - destruct (split_on 58 (strip ps)) as [|en [|ss [|ads [|cs [|vol [|file [|z r]]]]]]] eqn:SC; try discriminate.
    destruct (parse_dec (strip en)) as [e|] eqn:Q0; [|discriminate].
    destruct (parse_int (strip ss)) as [ss'|] eqn:Q1; [|discriminate].
    destruct (parse_int (strip ads)) as [ads'|] eqn:Q2; [|discriminate].
    destruct (parse_int (strip cs)) as [cs'|] eqn:Q3; [|discriminate].
    destruct (parse_int (strip vol)) as [vol'|] eqn:Q4; [|discriminate].
    apply some_inj in D. subst ho.
    assert (C5: count 58 (strip ps) = 5%nat).
    { pose proof (split_length_count 58 (strip ps)) as LC. rewrite SC in LC. simpl in LC. lia. }
    assert (H1: is_hold l = true) by (unfold is_hold; rewrite CC, CL, C5; reflexivity).
    assert (H2: is_hit l = false) by (unfold is_hit; rewrite CC, CL, C5; reflexivity).
    split; [exact H1|]. split; [exact H2|].
    destruct (PS ltac:(discriminate)) as [ws [EP FW]].
    unfold read_hold. rewrite H1. cbn [negb]. cbv zeta. unfold COMMA, COLON. rewrite SP.
    cbn [last_text last nth_text obind]. rewrite EP.
    rewrite split_on_prefix by (apply all_space_no; auto). rewrite SC.
    cbn [nth_text]. unfold py_float, py_int. rewrite P2, P0. cbn [obind]. rewrite strip_lead by exact FW.
    rewrite Q0, P4. cbn [obind]. rewrite Q1. cbn [obind]. rewrite Q2. cbn [obind]. rewrite Q3. cbn [obind].
    rewrite Q4. cbn [obind]. rewrite x_to_col_exact. reflexivity.
  - destruct (Z.testbit ty 0) eqn:B0; [|discriminate].
    destruct (split_on 58 (strip ps)) as [|ss [|ads [|cs [|vol [|file [|z r]]]]]] eqn:SC; try discriminate.
    destruct (parse_int (strip ss)) as [ss'|] eqn:Q1; [|discriminate].
    destruct (parse_int (strip ads)) as [ads'|] eqn:Q2; [|discriminate].
    destruct (parse_int (strip cs)) as [cs'|] eqn:Q3; [|discriminate].
    destruct (parse_int (strip vol)) as [vol'|] eqn:Q4; [|discriminate].
    apply some_inj in D. subst ho.
    assert (C4: count 58 (strip ps) = 4%nat).
    { pose proof (split_length_count 58 (strip ps)) as LC. rewrite SC in LC. simpl in LC. lia. }
    assert (H1: is_hit l = true) by (unfold is_hit; rewrite CC, CL, C4; reflexivity).
    assert (H2: is_hold l = false) by (unfold is_hold; rewrite CC, CL, C4; reflexivity).
    split; [exact H1|]. split; [exact H2|].
    destruct (PS ltac:(discriminate)) as [ws [EP FW]].
    unfold read_hit. rewrite H1. cbn [negb]. cbv zeta. unfold COMMA, COLON. rewrite SP.
    cbn [last_text last nth_text obind]. rewrite EP.
    rewrite split_on_prefix by (apply all_space_no; auto). rewrite SC.
    cbn [nth_text]. unfold py_float, py_int. rewrite P2, P0, P4. cbn [obind]. rewrite strip_lead by exact FW.
    rewrite Q1. cbn [obind]. rewrite Q2. cbn [obind]. rewrite Q3. cbn [obind].
    rewrite Q4. cbn [obind]. rewrite x_to_col_exact. reflexivity.
Qed.

Lemma ho_section k body : forall hosd, (forall l, In l body -> stripped l) ->
  omap (denote_ho k) (filter nonempty body) = Some hosd ->
  omap (fun s => read_hit s k) (filter is_hit body) = Some (pick_hits hosd) /\
  omap (fun s => read_hold s k) (filter is_hold body) = Some (pick_holds hosd).
Proof.
  induction body as [|l body IH]; intros hosd ST D.
  - simpl in D. inversion D. split; reflexivity.
  - cbn [filter] in *. destruct l as [|c l'].
    + cbn [nonempty] in *. change (is_hit []) with false. change (is_hold []) with false.
      apply IH; auto. intros x I. apply ST. right. exact I.
    + cbn [nonempty] in *. set (l := c :: l') in *. cbn [omap] in D.
      destruct (denote_ho k l) as [ho|] eqn:DH; [|discriminate]. cbn [obind] in D.
      destruct (omap (denote_ho k) (filter nonempty body)) as [r|] eqn:O; [|discriminate]. inversion D. subst hosd.
      destruct (IH r (fun x I => ST x (or_intror I)) eq_refl) as [A B].
      pose proof (ho_line k l ho (ST l (or_introl eq_refl)) DH) as T.
      destruct ho as [n|n]; destruct T as [T1 [T2 T3]]; rewrite T1, T2; cbn [omap pick_hits pick_holds].
      * rewrite T3, A. cbn [obind]. split; [reflexivity|exact B].
      * rewrite T3, B. cbn [obind]. split; [exact A|reflexivity].
Qed.

(* ================================================================== E. the file *)
Lemma integral_trunc q : is_integral q = true -> qtrunc q = Qfloor q.
Proof.
  unfold is_integral. intro H. apply Qeq_bool_iff in H. rewrite (qtrunc_comp _ _ H). apply qtrunc_Z.
Qed.

Lemma realize_nth meta i dflt : length meta = 30%nat ->
  nth i (realize_meta meta) dflt = match nth i meta None with Some v => v | None => nth i meta_default dflt end.
Proof.
  intro L. unfold realize_meta.
  set (f := fun p : option mval * mval => match fst p with Some v => v | None => snd p end).
  change dflt with (f (None, dflt)) at 1. rewrite map_nth. rewrite combine_nth by (rewrite L; reflexivity). reflexivity.
Qed.

Lemma stripped_lines lines0 : forall l, In l (map strip lines0) -> stripped l.
Proof. intros l I. apply in_map_iff in I. destruct I as [x [E _]]. subst. apply strip_stripped. Qed.

Theorem osu_read_denotes lines0 : wf_read_text lines0 = true -> strict_read_text lines0 = true ->
  exists d, osu_denote lines0 = Some d /\ osu_read lines0 = Some (realize d).
Proof.
  intros WF SG. unfold wf_read_text in WF. apply andb_true_iff in WF. destruct WF as [SS WF].
  destruct (osu_denote lines0) as [d|] eqn:D; [|discriminate]. exists d. split; [reflexivity|].
  apply andb_true_iff in WF. destruct WF as [WF EFF]. clear WF.
  unfold osu_denote in D. cbv zeta in D. unfold strict_read_text in SG. cbv zeta in SG.
  unfold osu_read. cbv zeta. set (ls := map strip lines0) in *.
  destruct (omap (denote_key ls) key_table) as [meta|] eqn:DM; [|discriminate]. cbn [obind] in D.
  destruct (denote_bg ls) as [bgd|] eqn:DB; [|discriminate]. cbn [obind] in D.
  destruct (denote_samples ls) as [ssd|] eqn:DS; [|discriminate]. cbn [obind] in D.
  destruct (section (t "[TimingPoints]") ls) as [tpb|] eqn:STP; [|discriminate]. cbn [obind] in D.
  destruct (section (t "[HitObjects]") ls) as [hob|] eqn:SHO; [|discriminate]. cbn [obind] in D.
  destruct (omap denote_tp (filter nonempty tpb)) as [tpsd|] eqn:DT; [|discriminate]. cbn [obind] in D.
  destruct (nth IX_KEYS meta None) as [[s|q|b|tg]|] eqn:NK; try discriminate.
  destruct (is_integral q) eqn:IQ; [|discriminate]. cbn [obind] in D.
  destruct (omap (denote_ho (Qfloor q)) (filter nonempty hob)) as [hosd|] eqn:DH; [|discriminate]. cbn [obind] in D.
  apply some_inj in D. subst d.
  destruct (layout_of ls tpb hob SS STP SHO) as [pre [tps [hos L]]].
  pose proof (stripped_lines lines0) as STR. fold ls in STR.
  (* the strict layout in terms of pre / tps *)
  assert (UP: upto (t "[TimingPoints]") ls = pre).
  { rewrite (lay_eq _ _ _ _ L). apply upto_app. exact (lay_tp_pre _ _ _ _ L). }
  assert (AF: after_line (t "[TimingPoints]") ls = Some (tps ++ HO_HEADER :: hos)).
  { rewrite (lay_eq _ _ _ _ L). apply after_line_app. exact (lay_tp_pre _ _ _ _ L). }
  rewrite UP, AF in SG. change (t "[HitObjects]") with HO_HEADER in SG.
  rewrite (upto_app HO_HEADER tps hos (lay_ho_tps _ _ _ _ L)) in SG.
  repeat (apply andb_true_iff in SG; destruct SG as [SG ?]).
  rename SG into G1, H3 into G2, H2 into G3, H1 into G4, H0 into G5, H into G6.
  apply Nat.leb_le in G2. apply Nat.leb_le in G3.
  (* sections of the format *)
  assert (TPB: tpb = take_body tps).
  { change (t "[TimingPoints]") with TP_HEADER in STP. rewrite section_after in STP.
    change TP_HEADER with (t "[TimingPoints]") in STP. rewrite AF in STP. cbn [option_map] in STP.
    rewrite take_body_app_header in STP by reflexivity. inversion STP. reflexivity. }
  assert (HOB: hob = hos).
  { rewrite section_after in SHO. rewrite (lay_eq _ _ _ _ L) in SHO.
    replace (pre ++ TP_HEADER :: tps ++ HO_HEADER :: hos) with ((pre ++ TP_HEADER :: tps) ++ HO_HEADER :: hos) in SHO
      by (rewrite <- app_assoc; reflexivity).
    change (t "[HitObjects]") with HO_HEADER in SHO. rewrite after_line_app in SHO.
    - cbn [option_map] in SHO. rewrite take_body_plain in SHO by (apply no_headers; exact (lay_hos _ _ _ _ L)).
      inversion SHO. reflexivity.
    - intro I. apply in_app_or in I. destruct I as [I|[I|I]].
      + exact (lay_ho_pre _ _ _ _ L I). + discriminate I. + exact (lay_ho_tps _ _ _ _ L I). }
  (* the reader's split *)
  destruct (model_split pre tps hos (lay_tp_pre _ _ _ _ L) (lay_ho_pre _ _ _ _ L) (lay_ho_tps _ _ _ _ L))
    as [ix_tp [ix_ho [I1 [I2 [S1 [S2 S3]]]]]].
  rewrite <- (lay_eq _ _ _ _ L) in I1, I2, S1, S2, S3.
  rewrite I1, I2. cbn [obind]. rewrite S1, S2, S3.
  (* metadata, background, samples *)
  rewrite read_meta_folds.
  rewrite (meta_agree ls pre tps hos meta STR L G1 DM).
  rewrite (bg_agree ls pre tps hos bgd L G1 G2 DB).
  rewrite (samples_agree ls pre tps hos ssd L G1 G3 G4 DS). cbn [obind ms_meta ms_bg ms_samples].
  (* timing points *)
  destruct (take_body_split tps) as [other [ET [_ _]]].
  assert (OT: skipn (length (take_body tps)) tps = other).
  { rewrite ET at 2. apply skipn_app_len. }
  rewrite OT in G6. rewrite <- TPB in G5.
  destruct (tp_section tpb tpsd G5 EFF DT) as [RB RS].
  assert (FO: forall p, (p = is_timing_point \/ p = is_slider_velocity) -> filter p tps = filter p tpb).
  { intros p Hp. rewrite ET, filter_app, <- TPB. rewrite (filter_none p other); [apply app_nil_r|].
    intros x Ix. rewrite forallb_forall in G6. specialize (G6 x Ix). apply negb_true_iff in G6.
    destruct (not_shaped_not_tp x G6) as [A B]. destruct Hp; subst; auto. }
  rewrite (FO is_slider_velocity) by auto. rewrite (FO is_timing_point) by auto.
  rewrite RS, RB. cbn [obind].
  (* hit objects *)
  assert (MK: meta_num (realize_meta meta) IX_CS = q).
  { unfold meta_num. rewrite realize_nth by (rewrite (omap_length _ _ _ DM); reflexivity).
    change IX_CS with IX_KEYS. rewrite NK. reflexivity. }
  rewrite MK, (integral_trunc q IQ).
  assert (STH: forall l, In l hos -> stripped l).
  { intros l I. apply STR. rewrite (lay_eq _ _ _ _ L). apply in_or_app. right. right. apply in_or_app. right. right. exact I. }
  rewrite HOB in DH. destruct (ho_section (Qfloor q) hos hosd STH DH) as [RH RL].
  rewrite RH, RL. cbn [obind]. reflexivity.
Qed.

(* ------------------------------------------------------------------ the boolean relation of the runner *)
Lemma q_close_refl tol a : (0 <= tol)%Q -> q_close tol a a = true.
Proof.
  intro H. unfold q_close. apply Qle_bool_iff.
  assert (E: (a - a == 0)%Q) by ring. rewrite E. change (Qabs 0) with 0%Q.
  apply Qmult_le_0_compat; auto. pose proof (Qabs_nonneg a). lra.
Qed.
Lemma qmax_nonneg tol : (0 <= qmax tol META_TOL)%Q.
Proof. unfold qmax. destruct (Qle_bool tol META_TOL) eqn:E; [discriminate|]. apply Qle_bool_false in E. unfold META_TOL in *. lra. Qed.
Lemma list_eqb_refl {A} (e : A -> A -> bool) l : (forall x, e x x = true) -> list_eqb e l l = true.
Proof. intro H. induction l; simpl; auto. rewrite H, IHl. reflexivity. Qed.
Lemma mval_close_refl tol v : mval_close tol v v = true.
Proof.
  destruct v; simpl.
  - apply text_eqb_refl.
  - apply q_close_refl. apply qmax_nonneg.
  - destruct b; reflexivity.
  - apply list_eqb_refl. apply text_eqb_refl.
Qed.
Lemma perm_match_refl {A} (r : A -> A -> bool) l : (forall x, r x x = true) -> perm_match r l l = true.
Proof. intro H. induction l; simpl; auto. rewrite H. exact IHl. Qed.
Lemma note_close_refl tol n : (0 <= tol)%Q -> note_close tol n n = true.
Proof. intro H. unfold note_close. rewrite !q_close_refl, !Z.eqb_refl, text_eqb_refl by exact H. reflexivity. Qed.
Lemma bpm_close_refl tol b : (0 <= tol)%Q -> bpm_close tol b b = true.
Proof.
  intro H. unfold bpm_close. rewrite (q_close_refl tol) by exact H. rewrite q_close_refl by apply qmax_nonneg.
  rewrite !Z.eqb_refl. destruct (b_kiai b); reflexivity.
Qed.
Lemma sv_close_refl tol b : (0 <= tol)%Q -> sv_close tol b b = true.
Proof.
  intro H. unfold sv_close. rewrite (q_close_refl tol) by exact H. rewrite q_close_refl by apply qmax_nonneg.
  rewrite !Z.eqb_refl. destruct (s_kiai b); reflexivity.
Qed.
Lemma sample_close_refl tol b : (0 <= tol)%Q -> sample_close tol b b = true.
Proof. intro H. unfold sample_close. rewrite q_close_refl, text_eqb_refl, Z.eqb_refl by exact H. reflexivity. Qed.

Lemma meta_agrees_realize tol d : forall defs, length defs = length d ->
  meta_agrees tol d (map (fun p : option mval * mval => match fst p with Some v => v | None => snd p end) (combine d defs)) = true.
Proof.
  induction d as [|o d IH]; intros defs L; destruct defs as [|x defs]; try discriminate; [reflexivity|].
  simpl in L. cbn [combine map meta_agrees fst snd]. destruct o as [v|].
  - rewrite mval_close_refl. apply IH. lia.
  - apply IH. lia.
Qed.

Lemma denotes_realize tol d : (0 <= tol)%Q -> length (d_meta d) = 30%nat -> denotes tol d (realize d) = true.
Proof.
  intros H L. unfold denotes, realize. cbn [c_meta c_bg c_samples c_bpms c_svs c_hits c_holds].
  unfold realize_meta. rewrite meta_agrees_realize by (rewrite L; reflexivity).
  rewrite !perm_match_refl; auto using note_close_refl, bpm_close_refl, sv_close_refl, sample_close_refl.
  destruct (d_bg d); [rewrite text_eqb_refl|]; reflexivity.
Qed.

Lemma denote_meta_length lines0 d : osu_denote lines0 = Some d -> length (d_meta d) = 30%nat.
Proof.
  unfold osu_denote. cbv zeta. intro D.
  destruct (omap (denote_key (map strip lines0)) key_table) as [meta|] eqn:DM; [|discriminate]. cbn [obind] in D.
  repeat match type of D with (obind ?x _) = _ => destruct x; [cbn [obind] in D|discriminate] end.
  apply some_inj in D. subst d. cbn [d_meta]. apply (omap_length _ _ _ DM).
Qed.

(* the form the correspondence runner evaluates on the implementation's outputs *)
Corollary osu_read_denotes_bool tol lines0 : (0 <= tol)%Q -> read_domain lines0 = true ->
  match osu_denote lines0, osu_read lines0 with
  | Some d, Some c => denotes tol d c = true
  | _, _ => False
  end.
Proof.
  intros H RD. unfold read_domain in RD. apply andb_true_iff in RD. destruct RD as [WF SG].
  destruct (osu_read_denotes lines0 WF SG) as [d [D R]]. rewrite D, R.
  apply denotes_realize; auto. eapply denote_meta_length; eauto.
Qed.

(* ================================================================== F. every clause of the strict layout is necessary
   Each witness is in the read dialect (wf_read_text = true: the text denotes), yet the reader - which is not
   section aware and classifies lines by shape - does not return the denoted chart.  [disagree]: not even
   the tolerant relation [denotes] holds (or the reader raises). *)
Definition disagree (ls : list text) : bool :=
  negb match osu_denote ls, osu_read ls with Some d, Some c => denotes 0 d c | _, _ => false end.
Definition TAIL4 : list text := [t "[Difficulty]"; t "CircleSize:4"; t "[TimingPoints]"; t "[HitObjects]"].

(* an attribute line in a foreign section: the reader takes it (Title = b), the format does not *)
Definition w_foreign_section : list text := [t "[Metadata]"; t "Title:a"; t "[Difficulty]"; t "Title:b"; t "CircleSize:4"; t "[TimingPoints]"; t "[HitObjects]"].
Theorem read_refuted_foreign_section : wf_read_text w_foreign_section = true /\ disagree w_foreign_section = true.
Proof. vm_compute. split; reflexivity. Qed.
(* an attribute name without a colon: the reader raises (AttributeError) *)
Definition w_key_without_colon : list text := [t "[Metadata]"; t "Title"] ++ TAIL4.
Theorem read_refuted_key_without_colon : wf_read_text w_key_without_colon = true /\ osu_read w_key_without_colon = None.
Proof. vm_compute. split; reflexivity. Qed.
(* an ill-typed value that a later line overrides: the reader raises (ValueError) *)
Definition w_overridden_ill_typed : list text := [t "[Difficulty]"; t "CircleSize:x"; t "CircleSize:4"; t "[TimingPoints]"; t "[HitObjects]"].
Theorem read_refuted_overridden_ill_typed : wf_read_text w_overridden_ill_typed = true /\ osu_read w_overridden_ill_typed = None.
Proof. vm_compute. split; reflexivity. Qed.
(* Tags with a tab between two blanks: the reader returns an empty tag *)
Definition w_tags_tab : list text := [t "[Metadata]"; t "Tags:a " ++ [9] ++ t " b"] ++ TAIL4.
Theorem read_refuted_tags_tab : wf_read_text w_tags_tab = true /\ disagree w_tags_tab = true /\
  option_map (fun c => meta_tags (c_meta c) 21) (osu_read w_tags_tab) = Some [t "a"; []; t "b"].
Proof. vm_compute. repeat split; reflexivity. Qed.
(* two background markers: the reader keeps the last, the format the first *)
Definition w_two_bg_markers : list text :=
  [t "[Difficulty]"; t "CircleSize:4"; t "[Events]"; BG_MARKER; t "0,0,""a.png"",0,0"; BG_MARKER; t "0,0,""b.png"",0,0";
   t "[TimingPoints]"; t "[HitObjects]"].
Theorem read_refuted_two_bg_markers : wf_read_text w_two_bg_markers = true /\ disagree w_two_bg_markers = true.
Proof. vm_compute. split; reflexivity. Qed.
(* a marker followed by a colon: the reader accepts it as the marker (background a.png), the format sees no marker *)
Definition w_marker_with_colon : list text :=
  [t "[Difficulty]"; t "CircleSize:4"; t "[Events]"; BG_MARKER ++ t ":x"; t "0,0,""a.png"",0,0"; t "[TimingPoints]"; t "[HitObjects]"].
Theorem read_refuted_marker_with_colon : wf_read_text w_marker_with_colon = true /\
  option_map c_bg (osu_read w_marker_with_colon) = Some (t "a.png") /\
  option_map (fun d => c_bg (realize d)) (osu_denote w_marker_with_colon) = Some [].
Proof. vm_compute. repeat split; reflexivity. Qed.
(* a marker outside [Events] *)
Definition w_marker_outside_events : list text :=
  [t "[Difficulty]"; t "CircleSize:4"; BG_MARKER; t "0,0,""a.png"",0,0"; t "[TimingPoints]"; t "[HitObjects]"].
Theorem read_refuted_marker_outside_events : wf_read_text w_marker_outside_events = true /\
  option_map c_bg (osu_read w_marker_outside_events) = Some (t "a.png") /\
  option_map (fun d => c_bg (realize d)) (osu_denote w_marker_outside_events) = Some [].
Proof. vm_compute. repeat split; reflexivity. Qed.
(* after the sample marker a line starting with "Sample" but not "Sample,": read as a sample event / raises *)
Definition w_sample_prefix : list text :=
  [t "[Difficulty]"; t "CircleSize:4"; t "[Events]"; SAMPLE_MARKER; t "SampleX,1,0,""a"",70"; t "[TimingPoints]"; t "[HitObjects]"].
Theorem read_refuted_sample_prefix : wf_read_text w_sample_prefix = true /\ disagree w_sample_prefix = true.
Proof. vm_compute. split; reflexivity. Qed.
Definition w_sample_bare : list text :=
  [t "[Difficulty]"; t "CircleSize:4"; t "[Events]"; SAMPLE_MARKER; t "Sample"; t "[TimingPoints]"; t "[HitObjects]"].
Theorem read_refuted_sample_bare : wf_read_text w_sample_bare = true /\ osu_read w_sample_bare = None.
Proof. vm_compute. split; reflexivity. Qed.
(* uninherited field "01" (or " 1", "+1"): the format reads a tempo point, the reader DROPS the line silently *)
Definition w_uninherited_not_literal : list text :=
  [t "[Difficulty]"; t "CircleSize:4"; t "[TimingPoints]"; t "0,500,4,0,0,0, 1,0"; t "[HitObjects]"].
Theorem read_refuted_uninherited_not_literal : wf_read_text w_uninherited_not_literal = true /\
  disagree w_uninherited_not_literal = true /\
  option_map (fun c => length (c_bpms c)) (osu_read w_uninherited_not_literal) = Some 0%nat /\
  option_map (fun d => length (d_bpms d)) (osu_denote w_uninherited_not_literal) = Some 1%nat.
Proof. vm_compute. repeat split; reflexivity. Qed.
(* a line of [Colours] with the shape of a timing line: the reader takes it as a tempo point *)
Definition w_colours_timing_shape : list text :=
  [t "[Difficulty]"; t "CircleSize:4"; t "[TimingPoints]"; t "[Colours]"; t "0,500,4,0,0,0,1,0"; t "[HitObjects]"].
Theorem read_refuted_colours_timing_shape : wf_read_text w_colours_timing_shape = true /\
  disagree w_colours_timing_shape = true.
Proof. vm_compute. split; reflexivity. Qed.

(* all the witnesses above are outside the strict layout, as they must be *)
Theorem refutation_witnesses_not_strict :
  forallb (fun w => negb (strict_read_text w))
    [w_foreign_section; w_key_without_colon; w_overridden_ill_typed; w_tags_tab; w_two_bg_markers; w_marker_with_colon;
     w_marker_outside_events; w_sample_prefix; w_sample_bare; w_uninherited_not_literal; w_colours_timing_shape] = true.
Proof. vm_compute. reflexivity. Qed.

(* the two former defect inputs (corpus/C01) are inside the domain of the theorem *)
Theorem corpus_in_domain : read_domain colon_witness = true /\ read_domain xcol_witness = true.
Proof. vm_compute. split; reflexivity. Qed.
