(* Proofs about the BMS model (Formats/BMS.v), its text helpers and its specification (Formats/BMSSpec.v). *)
From Coq Require Import ZArith QArith Qround Qabs List Bool Lia Lqa Znumtheory.
From RV Require Import Base.PyNum Timing.Snapper Timing.Snap Timing.TimingMap Timing.Reseat Timing.Integrate
  Formats.BMSText Formats.BMS Formats.BMSSpec.
Import ListNotations.
Open Scope Z_scope.

(* ================================================================ finite-range checks ================================================================ *)
Lemma range_check (P : Z -> bool) (N : nat) :
  forallb (fun k => P (Z.of_nat k)) (seq 0 N) = true -> forall n, 0 <= n < Z.of_nat N -> P n = true.
Proof.
  intros H n Hn. rewrite forallb_forall in H.
  specialize (H (Z.to_nat n)). rewrite Z2Nat.id in H by lia. apply H.
  apply in_seq. lia.
Qed.

(* ---- id codecs ---- *)
Lemma b36_roundtrip n : 0 <= n < 1296 -> b36_parse2 (b36_pair n) = Some n.
Proof.
  intro H.
  pose proof (range_check (fun n => match b36_parse2 (b36_pair n) with Some m => m =? n | None => false end) 1296) as R.
  assert (E: forallb (fun k => (fun n => match b36_parse2 (b36_pair n) with Some m => m =? n | None => false end) (Z.of_nat k))
                     (seq 0 1296) = true) by (vm_compute; reflexivity).
  specialize (R E n H). cbv beta in R.
  destruct (b36_parse2 (b36_pair n)); try discriminate. apply Z.eqb_eq in R. congruence.
Qed.

Lemma b36_pair_is_pair n : 0 <= n < 1296 -> is_b36_pair (b36_pair n) = true.
Proof. intro H. unfold is_b36_pair. rewrite b36_roundtrip by exact H. reflexivity. Qed.

Lemma hex_roundtrip n : 0 <= n < 256 -> hex_parse2 (hex_pair n) = Some n.
Proof.
  intro H.
  pose proof (range_check (fun n => match hex_parse2 (hex_pair n) with Some m => m =? n | None => false end) 256) as R.
  assert (E: forallb (fun k => (fun n => match hex_parse2 (hex_pair n) with Some m => m =? n | None => false end) (Z.of_nat k))
                     (seq 0 256) = true) by (vm_compute; reflexivity).
  specialize (R E n H). cbv beta in R.
  destruct (hex_parse2 (hex_pair n)); try discriminate. apply Z.eqb_eq in R. congruence.
Qed.

(* distinct numbers get distinct ids (the #BPMxx table of the writer has no clash) *)
Lemma b36_pair_injective a b : 0 <= a < 1296 -> 0 <= b < 1296 -> b36_pair a = b36_pair b -> a = b.
Proof.
  intros Ha Hb E. pose proof (b36_roundtrip a Ha) as A. pose proof (b36_roundtrip b Hb) as B.
  rewrite E in A. congruence.
Qed.

(* ---- the three-digit measure field ---- *)
Definition show3_ok (m : Z) : bool :=
  match show3 m with
  | [x; y; z] => is_digit x && is_digit y && is_digit z && (100 * (x - 48) + 10 * (y - 48) + (z - 48) =? m)
  | _ => false
  end.
Lemma show3_ok_all m : 0 <= m < 1000 -> show3_ok m = true.
Proof.
  intro H. apply (range_check show3_ok 1000); [vm_compute; reflexivity | exact H].
Qed.

Lemma show3_parse m : 0 <= m < 1000 -> parse_nat (show3 m) = Some m /\ length (show3 m) = 3%nat.
Proof.
  intro H.
  pose proof (range_check (fun m => match parse_nat (show3 m) with Some v => (v =? m) && (length (show3 m) =? 3)%nat | None => false end) 1000) as R.
  assert (E: forallb (fun k => (fun m => match parse_nat (show3 m) with Some v => (v =? m) && (length (show3 m) =? 3)%nat | None => false end)
                                 (Z.of_nat k)) (seq 0 1000) = true) by (vm_compute; reflexivity).
  specialize (R E m H). cbv beta in R.
  destruct (parse_nat (show3 m)); try discriminate.
  apply andb_true_iff in R. destruct R as [R1 R2]. apply Z.eqb_eq in R1. apply Nat.eqb_eq in R2. subst. auto.
Qed.

(* a line assembled by the writer is read back by the specification's line reader as (measure, channel, data) *)
Lemma data_line_written m a b data :
  0 <= m < 1000 -> data_line ([35] ++ show3 m ++ [a; b] ++ [58] ++ data) = Some (m, [a; b], data).
Proof.
  intro H. pose proof (show3_ok_all m H) as S. unfold show3_ok in S.
  destruct (show3 m) as [|x [|y [|z [|w r]]]]; try discriminate.
  repeat (apply andb_true_iff in S; destruct S as [S ?]).
  cbn [app data_line]. rewrite S, H2, H1. cbn [andb]. apply Z.eqb_eq in H0. rewrite H0. reflexivity.
Qed.

(* ================================================================ position arithmetic ================================================================ *)
(* reader: pair i of a k-pair sequence sits at beat  Fraction(i, k) * 4 ; that is the oracle's position
   (fraction i/k of a 4-beat measure), as reduced fractions *)
Lemma read_pos_is_spec_pos (i k : Z) :
  Qred ((inject_Z i / inject_Z k) * 4)%Q = Qred (Qred (inject_Z i / inject_Z k) * BEATS_PER_MEASURE)%Q.
Proof.
  apply Qred_complete. unfold BEATS_PER_MEASURE. rewrite Qred_correct. reflexivity.
Qed.

Lemma read_pos_value (i k : Z) : (Qred ((inject_Z i / inject_Z k) * 4) == 4 * inject_Z i / inject_Z k)%Q.
Proof. rewrite Qred_correct. unfold Qdiv. ring. Qed.

(* writer: slot arithmetic.  A row at measure fraction num/den goes to slot num*(L/den) of a line of L slots
   when den | L: an integer in [0, L) denoting the same fraction. *)
Lemma Qfloor_inject (x : Q) (z : Z) : (x == inject_Z z)%Q -> Qfloor x = z.
Proof. intro E. rewrite (Qfloor_comp _ _ E). apply Qfloor_Z. Qed.

Lemma qtrunc_inject (x : Q) (z : Z) : 0 <= z -> (x == inject_Z z)%Q -> qtrunc x = z.
Proof.
  intros Hz E. unfold qtrunc.
  assert (Qle_bool 0 x = true) as ->.
  { apply Qle_bool_iff. rewrite E. change 0%Q with (inject_Z 0). rewrite <- Zle_Qle. exact Hz. }
  apply Qfloor_inject. exact E.
Qed.

Theorem slot_arith (r : wrow) (L : Z) :
  0 < wr_den r -> (wr_den r | L) -> 0 <= wr_num r < wr_den r -> 0 < L ->
  let s := ws_slot (slot_of r L) in
  s = wr_num r * (L / wr_den r) /\ 0 <= s < L
  /\ (inject_Z s / inject_Z L == inject_Z (wr_num r) / inject_Z (wr_den r))%Q.
Proof.
  intros Hd [q Hq] Hn HL. cbn zeta.
  assert (Eq : L / wr_den r = q) by (subst L; apply Z.div_mul; lia).
  assert (Hq0 : 0 < q) by nia.
  assert (S : ws_slot (slot_of r L) = wr_num r * q).
  { unfold slot_of. cbn [ws_slot]. apply qtrunc_inject; [nia|].
    rewrite Qred_correct. subst L. rewrite !inject_Z_mult.
    assert (~ (inject_Z (wr_den r) == 0)%Q).
    { change 0%Q with (inject_Z 0). rewrite inject_Z_injective. lia. }
    field. assumption. }
  rewrite S, Eq. split; [reflexivity|]. split; [nia|].
  subst L. rewrite !inject_Z_mult.
  assert (~ (inject_Z (wr_den r) == 0)%Q) by (change 0%Q with (inject_Z 0); rewrite inject_Z_injective; lia).
  assert (~ (inject_Z q == 0)%Q) by (change 0%Q with (inject_Z 0); rewrite inject_Z_injective; lia).
  field. split; assumption.
Qed.

(* ---- slot fill keeps the line length: a written data line has exactly L pairs ---- *)
Lemma set_nth_length {A} (i : nat) (x : A) (l : list A) : length (set_nth i x l) = length l.
Proof. revert i; induction l; intros [|i]; cbn; auto. Qed.

Lemma fill_slots_length (rows : list wslot) : forall seq out, fill_slots seq rows = Some out -> length out = length seq.
Proof.
  induction rows as [|r rows IH]; intros seq out H; cbn in H.
  - inversion H; reflexivity.
  - destruct ((ws_slot r <? 0) || (Z.of_nat (length seq) <=? ws_slot r)); try discriminate.
    apply IH in H. rewrite H. apply set_nth_length.
Qed.

Lemma set_nth_Forall {A} (P : A -> Prop) (i : nat) (x : A) (l : list A) : P x -> Forall P l -> Forall P (set_nth i x l).
Proof.
  intros Hx. revert i. induction l; intros [|i] H; cbn; auto; inversion H; subst; constructor; auto.
Qed.

Lemma fill_slots_Forall (P : text -> Prop) (rows : list wslot) :
  Forall (fun r => P (ws_value r)) rows -> forall seq out, Forall P seq -> fill_slots seq rows = Some out -> Forall P out.
Proof.
  induction 1 as [|r rows Hr Hrows IH]; intros seq out Hs H; cbn in H.
  - inversion H; subst; assumption.
  - destruct ((ws_slot r <? 0) || (Z.of_nat (length seq) <=? ws_slot r)); try discriminate.
    eapply IH; [|exact H]. apply set_nth_Forall; assumption.
Qed.

Lemma concat_pairs_length (l : list text) : Forall (fun t => length t = 2%nat) l -> length (concat l) = (2 * length l)%nat.
Proof.
  induction 1; cbn; [reflexivity|]. rewrite app_length. lia.
Qed.

(* bms_write_wf, line level: a line produced for a group whose values are two-character ids is
   '#' mmm cc ':' followed by exactly L two-character pairs (even data length) *)
Theorem written_line_shape (g : list wslot) (r : wslot) (rest : list wslot) (line : text) :
  g = r :: rest -> 0 <= ws_L r ->
  Forall (fun x => length (ws_value x) = 2%nat) g ->
  line_of_group g = Some line ->
  exists data, line = [35] ++ show3 (ws_measure r) ++ ws_channel r ++ [58] ++ data
               /\ length data = (2 * Z.to_nat (ws_L r))%nat.
Proof.
  intros -> HL Hv H. unfold line_of_group in H.
  destruct (fill_slots (repeat PAIR00 (Z.to_nat (ws_L r))) (r :: rest)) as [seq|] eqn:E; try discriminate.
  inversion H; subst. eexists; split; [reflexivity|].
  pose proof (fill_slots_length _ _ _ E) as Len. rewrite repeat_length in Len.
  rewrite concat_pairs_length; [lia|].
  eapply (fill_slots_Forall (fun t => length t = 2%nat)); [exact Hv| |exact E].
  apply Forall_forall. intros x Hx. apply repeat_spec in Hx. subst. reflexivity.
Qed.

(* ================================================================ header retention ================================================================ *)
(* BMSMap._read_file_header keeps title / artist / level / LNOBJ from the header table, the initial tempo is the
   value of #BPM, and every header that is not #BPM / #BPMxx / #WAV.. stays in misc *)
Theorem read_header_retains (d : header) (m : bms_meta) :
  read_file_header d = Some m ->
  m_title m = get_or d K_TITLE /\ m_artist m = get_or d K_ARTIST /\ m_version m = get_or d K_PLAYLEVEL
  /\ m_lnobj m = get_or d K_LNOBJ
  /\ (exists v, dict_get K_BPM (filter (fun kv => negb (is_exbpm_key (fst kv) || is_wav_key (fst kv))) d) = Some v
                /\ parse_decimal v = Some (m_bpm m))
  /\ m_samples m = read_samples d
  /\ read_exbpms d [] = Some (m_exbpms m)
  /\ (forall k v, In (k, v) d -> is_exbpm_key k = false -> is_wav_key k = false -> text_eqb K_BPM k = false -> In (k, v) (m_misc m)).
Proof.
  unfold read_file_header. intro H.
  destruct (read_exbpms d []) as [ex|] eqn:E1; try discriminate.
  destruct (dict_get K_BPM _) as [v|] eqn:E2; try discriminate.
  destruct (parse_decimal v) as [bpm|] eqn:E3; try discriminate.
  inversion H; subst; cbn. repeat split; auto.
  - exists v. split; [reflexivity|assumption].
  - intros k w Hin Hx Hw Hb. unfold dict_remove. apply filter_In. split.
    + apply filter_In. split; [assumption|]. cbn. rewrite Hx, Hw. reflexivity.
    + cbn. rewrite Hb. reflexivity.
Qed.

(* header lines are stored under their key with everything after the first blank as value *)
Lemma classify_header_line (hdr : header) (notes : list note_entry) (k v : text) :
  ~ In 32 k ->
  classify_line (hdr, notes) ([35] ++ k ++ [32] ++ v) = Some (dict_set k v hdr, notes).
Proof.
  intro Hk. unfold classify_line. cbn [app starts_with]. rewrite Z.eqb_refl. cbn [andb].
  assert (S : forall k, ~ In 32 k -> split_first 32 (k ++ 32 :: v) = (k, Some v)).
  { induction k0 as [|c k0 IH]; intro Hn; cbn.
    - reflexivity.
    - destruct (c =? 32) eqn:Ec; [apply Z.eqb_eq in Ec; subst; exfalso; apply Hn; left; reflexivity|].
      rewrite IH; [reflexivity|]. intro; apply Hn; right; assumption. }
  cbn [split_first]. change (35 =? 32) with false. cbv iota.
  rewrite (S k Hk). reflexivity.
Qed.

Lemma dict_get_set_same {V} (k : text) (v : V) d : text_eqb k k = true -> dict_get k (dict_set k v d) = Some v.
Proof.
  intro R. induction d as [|[k' v'] d IH]; cbn.
  - rewrite R. reflexivity.
  - destruct (text_eqb k k') eqn:E; cbn; [rewrite R; reflexivity|]. rewrite E. exact IH.
Qed.
Lemma text_eqb_refl t : text_eqb t t = true.
Proof. induction t; cbn; auto. rewrite Z.eqb_refl. exact IHt. Qed.
