(* Proofs about the BMS model (Formats/BMS.v), its text helpers and its specification (Formats/BMSSpec.v). *)
From Coq Require Import ZArith QArith Qround Qabs List Bool Lia Lqa Znumtheory.
From RV Require Import Base.PyNum Timing.Snapper Timing.Snap Timing.TimingMap Timing.Reseat Timing.Integrate
  Formats.BMSText Formats.BMS Formats.BMSSpec.
Import ListNotations.
Open Scope Z_scope.

(* ================================================================ finite-range checks ================================================================ *)
Lemma range_check (P : Z -> bool) (N : nat) :
  forallb (fun k => P (Z.of_nat k)) (seq 0 N) = true -> forall n, 0 <= n < Z.of_nat N -> P n = true.
Proof.
  intros H n Hn. rewrite forallb_forall in H.
  specialize (H (Z.to_nat n)). rewrite Z2Nat.id in H by lia. apply H.
  apply in_seq. lia.
Qed.

(* ---- id codecs ---- *)
Definition b36_rt_ok (n : Z) : bool := match b36_parse2 (b36_pair n) with Some m => m =? n | None => false end.
Definition hex_rt_ok (n : Z) : bool := match hex_parse2 (hex_pair n) with Some m => m =? n | None => false end.

Lemma b36_roundtrip n : 0 <= n < 1296 -> b36_parse2 (b36_pair n) = Some n.
Proof.
  intro H.
  assert (R : b36_rt_ok n = true) by (apply (range_check b36_rt_ok 1296); [vm_compute; reflexivity | exact H]).
  unfold b36_rt_ok in R.
  destruct (b36_parse2 (b36_pair n)); try discriminate. apply Z.eqb_eq in R. congruence.
Qed.

Lemma b36_pair_is_pair n : 0 <= n < 1296 -> is_b36_pair (b36_pair n) = true.
Proof. intro H. unfold is_b36_pair. rewrite b36_roundtrip by exact H. reflexivity. Qed.

Lemma hex_roundtrip n : 0 <= n < 256 -> hex_parse2 (hex_pair n) = Some n.
Proof.
  intro H.
  assert (R : hex_rt_ok n = true) by (apply (range_check hex_rt_ok 256); [vm_compute; reflexivity | exact H]).
  unfold hex_rt_ok in R.
  destruct (hex_parse2 (hex_pair n)); try discriminate. apply Z.eqb_eq in R. congruence.
Qed.

(* distinct numbers get distinct ids (the #BPMxx table of the writer has no clash) *)
Lemma b36_pair_injective a b : 0 <= a < 1296 -> 0 <= b < 1296 -> b36_pair a = b36_pair b -> a = b.
Proof.
  intros Ha Hb E. pose proof (b36_roundtrip a Ha) as A. pose proof (b36_roundtrip b Hb) as B.
  rewrite E in A. congruence.
Qed.

(* ---- the three-digit measure field ---- *)
Definition show3_ok (m : Z) : bool :=
  match show3 m with
  | [x; y; z] => is_digit x && is_digit y && is_digit z && (100 * (x - 48) + 10 * (y - 48) + (z - 48) =? m)
  | _ => false
  end.
Lemma show3_ok_all m : 0 <= m < 1000 -> show3_ok m = true.
Proof.
  intro H. apply (range_check show3_ok 1000); [vm_compute; reflexivity | exact H].
Qed.

Definition show3_rt_ok (m : Z) : bool :=
  match parse_nat (show3 m) with Some v => (v =? m) && (length (show3 m) =? 3)%nat | None => false end.
Lemma show3_parse m : 0 <= m < 1000 -> parse_nat (show3 m) = Some m /\ length (show3 m) = 3%nat.
Proof.
  intro H.
  assert (R : show3_rt_ok m = true) by (apply (range_check show3_rt_ok 1000); [vm_compute; reflexivity | exact H]).
  unfold show3_rt_ok in R.
  destruct (parse_nat (show3 m)); try discriminate.
  apply andb_true_iff in R. destruct R as [R1 R2]. apply Z.eqb_eq in R1. apply Nat.eqb_eq in R2. subst. auto.
Qed.

(* a line assembled by the writer is read back by the specification's line reader as (measure, channel, data) *)
Lemma data_line_written m a b data :
  0 <= m < 1000 -> data_line ([35] ++ show3 m ++ [a; b] ++ [58] ++ data) = Some (m, [a; b], data).
Proof.
  intro H. pose proof (show3_ok_all m H) as S. unfold show3_ok in S.
  destruct (show3 m) as [|x [|y [|z [|w r]]]]; try discriminate.
  apply andb_true_iff in S. destruct S as [S S4].
  apply andb_true_iff in S. destruct S as [S S3].
  apply andb_true_iff in S. destruct S as [S1 S2].
  apply Z.eqb_eq in S4.
  cbn [app]. unfold data_line. rewrite S1, S2, S3. cbn [andb]. rewrite S4. reflexivity.
Qed.

(* ================================================================ position arithmetic ================================================================ *)
(* reader: pair i of a k-pair sequence sits at beat  Fraction(i, k) * 4 ; that is the oracle's position
   (fraction i/k of a 4-beat measure), as reduced fractions *)
Lemma read_pos_is_spec_pos (i k : Z) :
  Qred ((inject_Z i / inject_Z k) * 4)%Q = Qred (Qred (inject_Z i / inject_Z k) * BEATS_PER_MEASURE)%Q.
Proof.
  apply Qred_complete. unfold BEATS_PER_MEASURE. rewrite Qred_correct. reflexivity.
Qed.

Lemma read_pos_value (i k : Z) : (Qred ((inject_Z i / inject_Z k) * 4) == 4 * inject_Z i / inject_Z k)%Q.
Proof. rewrite Qred_correct. unfold Qdiv. ring. Qed.

(* writer: slot arithmetic.  A row at measure fraction num/den goes to slot num*(L/den) of a line of L slots
   when den | L: an integer in [0, L) denoting the same fraction. *)
Lemma Qfloor_inject (x : Q) (z : Z) : (x == inject_Z z)%Q -> Qfloor x = z.
Proof. intro E. rewrite (Qfloor_comp _ _ E). apply Qfloor_Z. Qed.

Lemma qtrunc_inject (x : Q) (z : Z) : 0 <= z -> (x == inject_Z z)%Q -> qtrunc x = z.
Proof.
  intros Hz E. unfold qtrunc.
  assert (Qle_bool 0 x = true) as ->.
  { apply Qle_bool_iff. rewrite E. change 0%Q with (inject_Z 0). rewrite <- Zle_Qle. exact Hz. }
  apply Qfloor_inject. exact E.
Qed.

Theorem slot_arith (r : wrow) (L : Z) :
  0 < wr_den r -> (wr_den r | L) -> 0 <= wr_num r < wr_den r -> 0 < L ->
  let s := ws_slot (slot_of r L) in
  s = wr_num r * (L / wr_den r) /\ 0 <= s < L
  /\ (inject_Z s / inject_Z L == inject_Z (wr_num r) / inject_Z (wr_den r))%Q.
Proof.
  intros Hd [q Hq] Hn HL. cbn zeta.
  assert (Eq : L / wr_den r = q) by (subst L; apply Z.div_mul; lia).
  assert (Hq0 : 0 < q) by nia.
  assert (S : ws_slot (slot_of r L) = wr_num r * q).
  { unfold slot_of. cbn [ws_slot]. apply qtrunc_inject; [nia|].
    rewrite Qred_correct. subst L. rewrite !inject_Z_mult.
    assert (~ (inject_Z (wr_den r) == 0)%Q).
    { change 0%Q with (inject_Z 0). rewrite inject_Z_injective. lia. }
    field. assumption. }
  rewrite S, Eq. split; [reflexivity|]. split; [nia|].
  subst L. rewrite !inject_Z_mult.
  assert (~ (inject_Z (wr_den r) == 0)%Q) by (change 0%Q with (inject_Z 0); rewrite inject_Z_injective; lia).
  assert (~ (inject_Z q == 0)%Q) by (change 0%Q with (inject_Z 0); rewrite inject_Z_injective; lia).
  field. split; assumption.
Qed.

(* ---- slot fill keeps the line length: a written data line has exactly L pairs ---- *)
Lemma set_nth_length {A} (i : nat) (x : A) (l : list A) : length (set_nth i x l) = length l.
Proof. revert i; induction l; intros [|i]; cbn; auto. Qed.

Lemma fill_slots_length (rows : list wslot) : forall seq out, fill_slots seq rows = Some out -> length out = length seq.
Proof.
  induction rows as [|r rows IH]; intros seq out H; cbn in H.
  - inversion H; reflexivity.
  - destruct ((ws_slot r <? 0) || (Z.of_nat (length seq) <=? ws_slot r)); try discriminate.
    apply IH in H. rewrite H. apply set_nth_length.
Qed.

Lemma set_nth_Forall {A} (P : A -> Prop) (i : nat) (x : A) (l : list A) : P x -> Forall P l -> Forall P (set_nth i x l).
Proof.
  intros Hx. revert i. induction l; intros [|i] H; cbn; auto; inversion H; subst; constructor; auto.
Qed.

Lemma fill_slots_Forall (P : text -> Prop) (rows : list wslot) :
  Forall (fun r => P (ws_value r)) rows -> forall seq out, Forall P seq -> fill_slots seq rows = Some out -> Forall P out.
Proof.
  induction 1 as [|r rows Hr Hrows IH]; intros seq out Hs H; cbn in H.
  - inversion H; subst; assumption.
  - destruct ((ws_slot r <? 0) || (Z.of_nat (length seq) <=? ws_slot r)); try discriminate.
    eapply IH; [|exact H]. apply set_nth_Forall; assumption.
Qed.

Lemma concat_pairs_length (l : list text) : Forall (fun t => length t = 2%nat) l -> length (concat l) = (2 * length l)%nat.
Proof.
  induction 1; cbn; [reflexivity|]. rewrite app_length. lia.
Qed.

(* bms_write_wf, line level: a line produced for a group whose values are two-character ids is
   '#' mmm cc ':' followed by exactly L two-character pairs (even data length) *)
Theorem written_line_shape (g : list wslot) (r : wslot) (rest : list wslot) (line : text) :
  g = r :: rest -> 0 <= ws_L r ->
  Forall (fun x => length (ws_value x) = 2%nat) g ->
  line_of_group g = Some line ->
  exists data, line = [35] ++ show3 (ws_measure r) ++ ws_channel r ++ [58] ++ data
               /\ length data = (2 * Z.to_nat (ws_L r))%nat.
Proof.
  intros -> HL Hv H. unfold line_of_group in H.
  destruct (fill_slots (repeat PAIR00 (Z.to_nat (ws_L r))) (r :: rest)) as [seq|] eqn:E; try discriminate.
  inversion H; subst. eexists; split; [reflexivity|].
  pose proof (fill_slots_length _ _ _ E) as Len. rewrite repeat_length in Len.
  rewrite concat_pairs_length; [lia|].
  eapply (fill_slots_Forall (fun t => length t = 2%nat)); [exact Hv| |exact E].
  apply Forall_forall. intros x Hx. apply repeat_spec in Hx. subst. reflexivity.
Qed.

(* ================================================================ header retention ================================================================ *)
(* BMSMap._read_file_header keeps title / artist / level / LNOBJ from the header table, the initial tempo is the
   value of #BPM, and every header that is not #BPM / #BPMxx / #WAV.. stays in misc *)
Theorem read_header_retains (d : header) (m : bms_meta) :
  read_file_header d = Some m ->
  m_title m = get_or d K_TITLE /\ m_artist m = get_or d K_ARTIST /\ m_version m = get_or d K_PLAYLEVEL
  /\ m_lnobj m = get_or d K_LNOBJ
  /\ (exists v, dict_get K_BPM (filter (fun kv => negb (is_exbpm_key (fst kv) || is_wav_key (fst kv))) d) = Some v
                /\ parse_decimal v = Some (m_bpm m))
  /\ m_samples m = read_samples d
  /\ read_exbpms d [] = Some (m_exbpms m)
  /\ (forall k v, In (k, v) d -> is_exbpm_key k = false -> is_wav_key k = false -> text_eqb K_BPM k = false -> In (k, v) (m_misc m)).
Proof.
  unfold read_file_header. intro H.
  destruct (read_exbpms d []) as [ex|] eqn:E1; try discriminate.
  destruct (dict_get K_BPM _) as [v|] eqn:E2; try discriminate.
  destruct (parse_decimal v) as [bpm|] eqn:E3; try discriminate.
  inversion H; subst; cbn. repeat split; auto.
  - exists v. split; [reflexivity|assumption].
  - intros k w Hin Hx Hw Hb. unfold dict_remove. apply filter_In. split.
    + apply filter_In. split; [assumption|]. cbn. rewrite Hx, Hw. reflexivity.
    + cbn. rewrite Hb. reflexivity.
Qed.

(* header lines are stored under their key with everything after the first blank as value *)
Lemma classify_header_line (hdr : header) (notes : list note_entry) (k v : text) :
  ~ In 32 k ->
  classify_line (hdr, notes) ([35] ++ k ++ [32] ++ v) = Some (dict_set k v hdr, notes).
Proof.
  intro Hk. unfold classify_line. cbn [app starts_with]. rewrite Z.eqb_refl. cbn [andb].
  assert (S : forall k, ~ In 32 k -> split_first 32 (k ++ 32 :: v) = (k, Some v)).
  { induction k0 as [|c k0 IH]; intro Hn; cbn.
    - reflexivity.
    - destruct (c =? 32) eqn:Ec; [apply Z.eqb_eq in Ec; subst; exfalso; apply Hn; left; reflexivity|].
      rewrite IH; [reflexivity|]. intro; apply Hn; right; assumption. }
  cbn [split_first]. change (35 =? 32) with false. cbv iota.
  rewrite (S k Hk). reflexivity.
Qed.

Lemma dict_get_set_same {V} (k : text) (v : V) d : text_eqb k k = true -> dict_get k (dict_set k v d) = Some v.
Proof.
  intro R. induction d as [|[k' v'] d IH]; cbn.
  - rewrite R. reflexivity.
  - destruct (text_eqb k k') eqn:E; cbn; [rewrite R; reflexivity|]. rewrite E. exact IH.
Qed.
Lemma text_eqb_refl t : text_eqb t t = true.
Proof. induction t; cbn; auto. rewrite Z.eqb_refl. exact IHt. Qed.

(* a written chart as plain lines: the initial tempo printed with 7 decimals (stands for str(float); used only to
   state witnesses and examples about whole written files) *)
Definition render_wline (w : wline) : text :=
  match w with WText t => t | WBpm0 q => T_BPM ++ [32] ++ fmt_fixed 7 q end.

(* ================================================================ lane lookup ================================================================ *)
Lemma text_eqb_eq a : forall b, text_eqb a b = true -> a = b.
Proof.
  induction a as [|x a IH]; intros [|y b] H; cbn in H; try discriminate; auto.
  apply andb_true_iff in H. destruct H as [H1 H2]. apply Z.eqb_eq in H1. subst. f_equal. auto.
Qed.

Lemma layout_rev_in_gen (v : Z) (lay : layout) : forall acc ch,
  fold_left (fun acc kv => if snd kv =? v then Some (fst kv) else acc) lay acc = Some ch ->
  acc = Some ch \/ In (ch, v) lay.
Proof.
  induction lay as [|[k w] lay IH]; intros acc ch H; cbn in H.
  - left; assumption.
  - apply IH in H. destruct H as [H|H]; [|right; right; assumption].
    destruct (w =? v) eqn:E.
    + apply Z.eqb_eq in E. inversion H; subst. right; left; reflexivity.
    + left; assumption.
Qed.
Lemma layout_rev_in (lay : layout) v ch : layout_rev lay v = Some ch -> In (ch, v) lay.
Proof.
  intro H. apply layout_rev_in_gen in H. destruct H as [H|H]; [discriminate|assumption].
Qed.

Lemma dict_get_of_in (lay : layout) : no_dup_by text_eqb (map fst lay) = true ->
  forall ch v, In (ch, v) lay -> dict_get ch lay = Some v.
Proof.
  induction lay as [|[k w] lay IH]; intros ND ch v Hin; [contradiction|].
  cbn in ND. apply andb_true_iff in ND. destruct ND as [N1 N2]. apply negb_true_iff in N1.
  destruct Hin as [E|Hin].
  - inversion E; subst. cbn. rewrite text_eqb_refl. reflexivity.
  - cbn. destruct (text_eqb ch k) eqn:Ek.
    + apply text_eqb_eq in Ek. subst k. exfalso.
      assert (existsb (text_eqb ch) (map fst lay) = true).
      { apply existsb_exists. exists ch. split; [|apply text_eqb_refl].
        apply in_map_iff. exists (ch, v). split; [reflexivity|assumption]. }
      congruence.
    + apply IH; assumption.
Qed.

(* on a layout satisfying the obligations, the writer's column -> channel lookup and the reader's channel -> column
   lookup are inverse *)
Theorem layout_rev_get (mk : Z) (lay : layout) v ch :
  layout_ok mk lay = true -> layout_rev lay v = Some ch -> layout_get lay ch = Some v.
Proof.
  unfold layout_ok. intros H R. repeat (apply andb_true_iff in H; destruct H as [H ?]).
  apply dict_get_of_in; [assumption|]. apply layout_rev_in. assumption.
Qed.

(* ================================================================ find_lcm ================================================================ *)
Lemma nth_set_nth_eq {A} (l : list A) : forall i x d, (i < length l)%nat -> nth i (set_nth i x l) d = x.
Proof. induction l; intros [|i] x d H; cbn in *; try lia; auto; try (apply IHl; lia). Qed.
Lemma nth_set_nth_neq {A} (l : list A) : forall i k x d, i <> k -> nth k (set_nth i x l) d = nth k l d.
Proof.
  induction l; intros [|i] [|k] x d H; cbn; auto; try congruence; try (apply IHl; congruence).
Qed.

Section FindLcm.
  Variable thr : Z.
  Variable a0 : list Z.
  Hypothesis pos : Forall (fun x => 0 < x) a0.
  Let n := length a0.

  (* entry k of the working state: either still alive with a value v that is a positive multiple of the input
     (the input itself, or below the threshold) and no result yet; or consumed, with such a result *)
  Definition entry_ok (x0 : Z) (ak : option Z) (rk : Z) : Prop :=
    match ak with
    | Some v => rk = 0 /\ (x0 | v) /\ 0 < v /\ (v = x0 \/ v < thr)
    | None => (x0 | rk) /\ 0 < rk /\ rk < thr
    end.
  Definition inv (st : list (option Z) * list Z) : Prop :=
    length (fst st) = n /\ length (snd st) = n /\
    forall k, (k < n)%nat -> entry_ok (nth k a0 0) (nth k (fst st) None) (nth k (snd st) 0).

  Lemma inv_init : inv (map Some a0, repeat 0 n).
  Proof.
    unfold inv; cbn [fst snd]. rewrite map_length, repeat_length. repeat split; auto.
    intros k Hk. rewrite (nth_indep _ None (Some 0)) by (rewrite map_length; exact Hk).
    rewrite (map_nth Some a0 0 k). cbn.
    assert (nth k (repeat 0 n) 0 = 0) as -> by (apply nth_repeat).
    split; [reflexivity|]. split; [apply Z.divide_refl|].
    split; [|left; reflexivity].
    rewrite Forall_forall in pos. apply pos. apply nth_In. exact Hk.
  Qed.

  Lemma inv_step i j st : (i < n)%nat -> (j < n)%nat -> inv st -> inv (lcm_step thr i j st).
  Proof.
    intros Hi Hj [La [Lr I]]. destruct st as [a r]; cbn [fst snd] in *. unfold lcm_step.
    destruct (Nat.eqb i j) eqn:Eij; [repeat split; assumption|]. apply Nat.eqb_neq in Eij.
    destruct (nth i a None) as [b|] eqn:Ei; [|repeat split; assumption].
    destruct (nth j a None) as [c|] eqn:Ej; [|repeat split; assumption].
    destruct (Z.lcm b c <? thr) eqn:El; [|repeat split; assumption]. apply Z.ltb_lt in El.
    pose proof (I i Hi) as Ii. pose proof (I j Hj) as Ij. rewrite Ei in Ii. rewrite Ej in Ij.
    cbn in Ii, Ij. destruct Ii as [Ri [Di [Pi _]]]. destruct Ij as [Rj [Dj [Pj _]]].
    assert (Lpos : 0 < Z.lcm b c).
    { pose proof (Z.lcm_nonneg b c). assert (Z.lcm b c <> 0) by (rewrite Z.lcm_eq_0; lia). lia. }
    unfold inv; cbn [fst snd]. rewrite !set_nth_length. repeat split; auto.
    intros k Hk. destruct (Nat.eq_dec k j) as [->|Nkj].
    - rewrite nth_set_nth_eq by (rewrite set_nth_length; lia). rewrite nth_set_nth_eq by lia. cbn.
      split; [|split; assumption]. eapply Z.divide_trans; [exact Dj|apply Z.divide_lcm_r].
    - rewrite (nth_set_nth_neq _ j k) by congruence. rewrite (nth_set_nth_neq r j k) by congruence.
      destruct (Nat.eq_dec k i) as [->|Nki].
      + rewrite nth_set_nth_eq by lia. cbn. split; [exact Ri|]. split.
        * eapply Z.divide_trans; [exact Di|apply Z.divide_lcm_l].
        * split; [assumption|right; assumption].
      + rewrite (nth_set_nth_neq _ i k) by congruence. apply I. exact Hk.
  Qed.

  Lemma inv_inner i (js : list nat) : (i < n)%nat -> Forall (fun j => (j < n)%nat) js ->
    forall st, inv st -> inv (fold_left (fun st j => lcm_step thr i j st) js st).
  Proof.
    intros Hi. induction 1 as [|j js Hj _ IH]; intros st H; cbn; [assumption|].
    apply IH. apply inv_step; assumption.
  Qed.

  Lemma seq_below : Forall (fun j => (j < n)%nat) (seq 0 n).
  Proof. apply Forall_forall. intros j Hj. apply in_seq in Hj. lia. Qed.

  Lemma inv_outer (is : list nat) : Forall (fun i => (i < n)%nat) is ->
    forall st, inv st ->
    inv (fold_left (fun st i => fold_left (fun st j => lcm_step thr i j st) (seq 0 n) st) is st).
  Proof.
    induction 1 as [|i is Hi _ IH]; intros st H; cbn; [assumption|].
    apply IH. apply inv_inner; [assumption|apply seq_below|assumption].
  Qed.
  Lemma inv_loops st : inv st -> inv (lcm_loops thr n st).
  Proof. unfold lcm_loops. apply inv_outer. apply seq_below. Qed.

  Lemma lcm_finish_length (a : list (option Z)) : forall r, length a = length r -> length (lcm_finish a r) = length a.
  Proof. induction a; intros [|y r] H; cbn in *; try lia; auto. Qed.
  Lemma lcm_finish_nth (a : list (option Z)) : forall r k, length a = length r -> (k < length a)%nat ->
    nth k (lcm_finish a r) 0 =
      if nth k r 0 =? 0 then match nth k a None with Some v => v | None => 0 end else nth k r 0.
  Proof.
    induction a as [|x a IH]; intros [|y r] [|k] L Hk; cbn in *; try lia; auto.
    apply IH; lia.
  Qed.

  (* find_lcm_spec: the result has one entry per input; every input divides its entry; every entry is positive and
     is either the input itself or below the threshold (so inputs >= threshold are never merged) *)
  Theorem find_lcm_spec_sec :
    length (find_lcm thr a0) = n /\
    forall k, (k < n)%nat ->
      (nth k a0 0 | nth k (find_lcm thr a0) 0) /\ 0 < nth k (find_lcm thr a0) 0
      /\ (nth k (find_lcm thr a0) 0 = nth k a0 0 \/ nth k (find_lcm thr a0) 0 < thr).
  Proof.
    unfold find_lcm. fold n.
    pose proof (inv_loops _ inv_init) as H.
    destruct (lcm_loops thr n (map Some a0, repeat 0 n)) as [a r]. destruct H as [La [Lr I]]. cbn [fst snd] in *.
    split; [rewrite lcm_finish_length; lia|].
    intros k Hk. rewrite lcm_finish_nth by lia.
    specialize (I k Hk). unfold entry_ok in I.
    destruct (nth k a None) as [v|].
    - destruct I as [-> [D [P B]]]. cbn. auto.
    - destruct I as [D [P B]]. destruct (nth k r 0 =? 0) eqn:E; [apply Z.eqb_eq in E; lia|]. auto.
  Qed.
End FindLcm.

Theorem find_lcm_spec (thr : Z) (a : list Z) :
  Forall (fun x => 0 < x) a ->
  length (find_lcm thr a) = length a /\
  forall k, (k < length a)%nat ->
    (nth k a 0 | nth k (find_lcm thr a) 0) /\ 0 < nth k (find_lcm thr a) 0
    /\ (nth k (find_lcm thr a) 0 = nth k a 0 \/ nth k (find_lcm thr a) 0 < thr).
Proof. intro H. exact (find_lcm_spec_sec thr a H). Qed.

(* ================================================================ no merge (line level) ================================================================ *)
Definition is_obj (t : text) : bool := negb (text_eqb t PAIR00).
Definition cnt (l : list text) : nat := length (filter is_obj l).

Lemma fill_slots_in_range (rows : list wslot) : forall seq out, fill_slots seq rows = Some out ->
  Forall (fun r => 0 <= ws_slot r < Z.of_nat (length seq)) rows.
Proof.
  induction rows as [|r rows IH]; intros seq out H; cbn in H; [constructor|].
  destruct ((ws_slot r <? 0) || (Z.of_nat (length seq) <=? ws_slot r)) eqn:E; try discriminate.
  apply orb_false_iff in E. destruct E as [E1 E2]. apply Z.ltb_ge in E1. apply Z.leb_gt in E2.
  constructor; [lia|]. apply IH in H. rewrite set_nth_length in H. exact H.
Qed.

Lemma cnt_set_nth (l : list text) : forall i v,
  (i < length l)%nat -> is_obj (nth i l PAIR00) = false -> is_obj v = true -> cnt (set_nth i v l) = S (cnt l).
Proof.
  unfold cnt. induction l as [|x l IH]; intros [|i] v Hi H0 Hv; cbn in *; try lia.
  - rewrite H0, Hv. reflexivity.
  - assert (E : length (filter is_obj (set_nth i v l)) = S (length (filter is_obj l))) by (apply IH; auto; lia).
    destruct (is_obj x); cbn; rewrite E; reflexivity.
Qed.

Lemma fill_slots_cnt (rows : list wslot) : forall seq out,
  Forall (fun r => is_obj (ws_value r) = true) rows ->
  NoDup (map ws_slot rows) ->
  Forall (fun r => is_obj (nth (Z.to_nat (ws_slot r)) seq PAIR00) = false) rows ->
  fill_slots seq rows = Some out ->
  cnt out = (cnt seq + length rows)%nat.
Proof.
  induction rows as [|r rows IH]; intros seq out Hv Hd He H.
  - cbn in H. inversion H; subst. cbn. lia.
  - pose proof (fill_slots_in_range _ _ _ H) as Hr.
    cbn in H. destruct ((ws_slot r <? 0) || (Z.of_nat (length seq) <=? ws_slot r)); try discriminate.
    inversion Hv as [|? ? Hv1 Hv2]; subst. inversion Hd as [|? ? Hd1 Hd2]; subst.
    inversion He as [|? ? He1 He2]; subst. inversion Hr as [|? ? Hr1 Hr2]; subst.
    rewrite (IH _ _ Hv2 Hd2) with (2 := H).
    + rewrite cnt_set_nth by (auto; lia). cbn. lia.
    + apply Forall_forall. intros r' Hin.
      rewrite Forall_forall in He2, Hr2. specialize (He2 r' Hin). specialize (Hr2 r' Hin).
      rewrite nth_set_nth_neq; [exact He2|].
      intro E. apply Hd1. apply in_map_iff. exists r'. split; [|assumption].
      apply Z2Nat.inj in E; lia.
Qed.

Lemma cnt_repeat00 (L : nat) : cnt (repeat PAIR00 L) = 0%nat.
Proof. unfold cnt. induction L; cbn; auto. Qed.

(* filling distinct slots of an all-00 line with non-00 ids gives exactly one object per row *)
Theorem fill_slots_no_merge (rows : list wslot) (L : nat) (out : list text) :
  Forall (fun r => text_eqb (ws_value r) PAIR00 = false) rows ->
  NoDup (map ws_slot rows) ->
  fill_slots (repeat PAIR00 L) rows = Some out ->
  length (filter (fun t => negb (text_eqb t PAIR00)) out) = length rows.
Proof.
  intros Hv Hd H.
  change (cnt out = length rows).
  rewrite (fill_slots_cnt rows (repeat PAIR00 L) out); auto.
  - rewrite cnt_repeat00. reflexivity.
  - eapply Forall_impl; [|exact Hv]. intros r E. unfold is_obj. rewrite E. reflexivity.
  - pose proof (fill_slots_in_range _ _ _ H) as Hr. rewrite repeat_length in Hr.
    eapply Forall_impl; [|exact Hr]. intros r [R1 R2]. cbv beta.
    rewrite nth_repeat. reflexivity.
Qed.

(* ================================================================ header retention, whole file ================================================================ *)
(* the key under which BMSMap.read stores a (stripped) line in its header table, if it is a filled header line *)
Definition header_key_of (line : text) : option text :=
  if starts_with [35] line
  then match split_first 32 line with (k, Some _) => Some (skipn 1 k) | (_, None) => None end
  else None.

Lemma text_eqb_neq a b : a <> b -> text_eqb a b = false.
Proof. intro N. destruct (text_eqb a b) eqn:E; [apply text_eqb_eq in E; contradiction|reflexivity]. Qed.

Lemma dict_get_set_other {V} (k k' : text) (v : V) d : k <> k' -> dict_get k (dict_set k' v d) = dict_get k d.
Proof.
  intro N. induction d as [|[k2 v2] d IH]; cbn.
  - rewrite (text_eqb_neq k k' N). reflexivity.
  - destruct (text_eqb k' k2) eqn:E; cbn.
    + apply text_eqb_eq in E. subst k2. rewrite (text_eqb_neq k k' N). reflexivity.
    + destruct (text_eqb k k2); [reflexivity|exact IH].
Qed.

Lemma dict_get_in {V} (k : text) (v : V) d : dict_get k d = Some v -> In (k, v) d.
Proof.
  induction d as [|[k2 v2] d IH]; cbn; [discriminate|].
  destruct (text_eqb k k2) eqn:E; intro H.
  - apply text_eqb_eq in E. inversion H; subst. left; reflexivity.
  - right. apply IH. exact H.
Qed.

Lemma classify_line_keeps st line st' k :
  classify_line st line = Some st' -> header_key_of line <> Some k -> dict_get k (fst st') = dict_get k (fst st).
Proof.
  destruct st as [hdr notes]. unfold classify_line, header_key_of.
  destruct (starts_with [35] line); [|intros H _; inversion H; reflexivity].
  destruct (split_first 32 line) as [w [v|]].
  - intros H N. inversion H; subst. cbn [fst]. apply dict_get_set_other. intro E. apply N. rewrite E. reflexivity.
  - intros H _. destruct (nth_error w 1) as [c|]; [|discriminate].
    destruct (is_digit c); [|inversion H; reflexivity].
    destruct (split_all 58 w) as [|command [|data [|x r]]]; try discriminate. inversion H; reflexivity.
Qed.

Lemma classify_lines_keeps k : forall lines st st',
  classify_lines st lines = Some st' ->
  (forall l, In l lines -> header_key_of (strip l) <> Some k) ->
  dict_get k (fst st') = dict_get k (fst st).
Proof.
  induction lines as [|l ls IH]; intros st st' H N; cbn in H.
  - inversion H; reflexivity.
  - destruct (classify_line st (strip l)) as [s1|] eqn:E; [|discriminate].
    rewrite (IH s1 st' H) by (intros; apply N; right; assumption).
    eapply classify_line_keeps; [exact E|]. apply N. left; reflexivity.
Qed.

Lemma classify_lines_app : forall a b st,
  classify_lines st (a ++ b) = match classify_lines st a with Some s => classify_lines s b | None => None end.
Proof.
  induction a as [|l a IH]; intros b st; cbn; [reflexivity|].
  destruct (classify_line st (strip l)); [apply IH|reflexivity].
Qed.

(* a (stripped) header line  #K v  whose key is not set again by a later line ends up in the header table as K -> v,
   wherever it stands in the text *)
Theorem header_line_retained (l1 l2 : list text) (k v : text) st st' :
  ~ In 32 k ->
  strip ([35] ++ k ++ [32] ++ v) = [35] ++ k ++ [32] ++ v ->
  (forall l, In l l2 -> header_key_of (strip l) <> Some k) ->
  classify_lines st (l1 ++ ([35] ++ k ++ [32] ++ v) :: l2) = Some st' ->
  dict_get k (fst st') = Some v.
Proof.
  intros Hk Hs Hl H. rewrite classify_lines_app in H.
  destruct (classify_lines st l1) as [[hdr notes]|]; [|discriminate].
  cbn [classify_lines] in H. rewrite Hs in H. rewrite (classify_header_line hdr notes k v Hk) in H.
  rewrite (classify_lines_keeps k l2 _ _ H Hl). cbn [fst]. apply dict_get_set_same. apply text_eqb_refl.
Qed.

(* bms_read_header: whenever BMSMap.read succeeds on a text containing the header line  #K v  (K not set again
   later), the chart retains it: as title / artist / level / LNOBJ for those keys, and in misc for every key that is
   not #BPM, #BPMxx or #WAV.. *)
Theorem bms_read_header (tbl : list Q) (cfg : layout) (mk : Z) (l1 l2 : list text) (k v : text) (c : bms_chart) :
  ~ In 32 k ->
  strip ([35] ++ k ++ [32] ++ v) = [35] ++ k ++ [32] ++ v ->
  (forall l, In l l2 -> header_key_of (strip l) <> Some k) ->
  bms_read tbl cfg mk (l1 ++ ([35] ++ k ++ [32] ++ v) :: l2) = Some c ->
  (k = K_TITLE -> m_title (c_meta c) = v) /\ (k = K_ARTIST -> m_artist (c_meta c) = v)
  /\ (k = K_PLAYLEVEL -> m_version (c_meta c) = v) /\ (k = K_LNOBJ -> m_lnobj (c_meta c) = v)
  /\ (is_exbpm_key k = false -> is_wav_key k = false -> text_eqb K_BPM k = false -> In (k, v) (m_misc (c_meta c))).
Proof.
  intros Hk Hs Hl H. unfold bms_read in H.
  destruct (classify_lines ([], []) _) as [[hdr notes]|] eqn:E; [|discriminate].
  pose proof (header_line_retained l1 l2 k v _ _ Hk Hs Hl E) as G. cbn [fst] in G.
  destruct (read_file_header hdr) as [meta|] eqn:E2; [|discriminate].
  destruct (read_notes tbl cfg mk meta (rev notes)) as [[[hs ls] bp]|]; [|discriminate].
  inversion H; subst. cbn [c_meta].
  destruct (read_header_retains hdr meta E2) as [T [A [V [Ln [_ [_ [_ M]]]]]]].
  rewrite T, A, V, Ln. unfold get_or.
  repeat split; try (intros ->; rewrite G; reflexivity).
  intros X W B. apply M; auto. apply dict_get_in. exact G.
Qed.

(* ================================================================ bms_write_wf: every note line the writer assembles is well-shaped ================================================================ *)
Definition line_shape (l : text) : Prop :=
  exists m ch data, l = [35] ++ show3 m ++ ch ++ [58] ++ data /\ Nat.even (length data) = true.

Lemma insert_by_Forall {A} (lt : A -> A -> bool) (P : A -> Prop) x : forall l, P x -> Forall P l -> Forall P (insert_by lt x l).
Proof.
  induction l as [|y l IH]; intros Hx Hl; cbn.
  - constructor; auto.
  - inversion Hl; subst. destruct (negb (lt y x)); constructor; auto.
Qed.
Lemma sort_by_Forall {A} (lt : A -> A -> bool) (P : A -> Prop) : forall l, Forall P l -> Forall P (sort_by lt l).
Proof.
  unfold sort_by. induction 1; cbn; [constructor|]. apply insert_by_Forall; assumption.
Qed.

Lemma group_runs_Forall (P : wslot -> Prop) : forall l cur,
  Forall P l -> Forall P cur ->
  Forall (fun g => g <> [] /\ Forall P g) (group_runs l cur).
Proof.
  induction l as [|r l IH]; intros cur Hl Hc; cbn.
  - destruct cur as [|c cur]; [constructor|]. constructor; [|constructor].
    split; [|apply Forall_rev; assumption].
    intro E. apply (f_equal (@length _)) in E. rewrite rev_length in E. discriminate.
  - inversion Hl; subst. destruct cur as [|c cur].
    + apply IH; auto.
    + destruct (slot_key_eq c r).
      * apply IH; auto.
      * constructor.
        -- split; [|apply Forall_rev; assumption].
           intro E. apply (f_equal (@length _)) in E. rewrite rev_length in E. discriminate.
        -- apply IH; auto.
Qed.

Lemma all_some'_Forall {A B} (f : A -> option B) (Q : B -> Prop) (R : A -> Prop) :
  (forall a b, R a -> f a = Some b -> Q b) ->
  forall l out, Forall R l -> all_some' (map f l) = Some out -> Forall Q out.
Proof.
  intros H. induction l as [|a l IH]; intros out Hl E; cbn in E.
  - inversion E; constructor.
  - inversion Hl; subst. destruct (f a) as [b|] eqn:Fa; [|discriminate].
    destruct (all_some' (map f l)) as [r|] eqn:Er; [|discriminate]. inversion E; subst.
    constructor; [eapply H; eauto|]. apply IH; auto.
Qed.

(* the line assembly of _write_notes after the slot table is computed *)
Definition lines_of_slots (slots : list wslot) : option (list text) :=
  all_some' (map line_of_group (group_runs (sort_by slot_key_lt slots) [])).

Lemma write_note_lines_unfold rows :
  write_note_lines rows =
  lines_of_slots (map (fun p => slot_of (fst p) (snd p)) (combine rows (new_dens LCM_THRESHOLD rows))).
Proof. reflexivity. Qed.

Theorem written_lines_shape (slots : list wslot) (ls : list text) :
  Forall (fun s => length (ws_value s) = 2%nat /\ 0 <= ws_L s) slots ->
  lines_of_slots slots = Some ls ->
  Forall line_shape ls.
Proof.
  intros Hs H. unfold lines_of_slots in H.
  eapply (all_some'_Forall line_of_group line_shape
            (fun g => g <> [] /\ Forall (fun s => length (ws_value s) = 2%nat /\ 0 <= ws_L s) g)); [| |exact H].
  - intros g line [Hne Hg] Hl. destruct g as [|r rest]; [contradiction|].
    inversion Hg as [|? ? [_ HL] _]; subst.
    destruct (written_line_shape (r :: rest) r rest line eq_refl HL) as [data [E Len]]; auto.
    + eapply Forall_impl; [|exact Hg]. intros s [A _]. exact A.
    + exists (ws_measure r), (ws_channel r), data. split; [exact E|].
      rewrite Len. rewrite Nat.even_mul. reflexivity.
  - apply group_runs_Forall; [|constructor]. apply sort_by_Forall. exact Hs.
Qed.

(* ================================================================ the slot table as a whole ================================================================ *)
Lemma same_group_refl r : same_group r r = true.
Proof. unfold same_group. rewrite Z.eqb_refl, text_eqb_refl. reflexivity. Qed.

Lemma nth_middle_map {A B} (f : A -> B) (l1 : list A) (x : A) (l2 : list A) (d : B) :
  nth (length l1) (map f (l1 ++ x :: l2)) d = f x.
Proof. rewrite map_app. rewrite app_nth2; rewrite map_length; [|lia]. rewrite Nat.sub_diag. reflexivity. Qed.

Lemma filter_app_mid {A} (p : A -> bool) l1 x l2 : p x = true -> filter p (l1 ++ x :: l2) = filter p l1 ++ x :: filter p l2.
Proof. intro H. rewrite filter_app. cbn. rewrite H. reflexivity. Qed.

(* every row's line length (new_den) is a positive multiple of the row's own denominator: find_lcm is applied to the
   row's (measure, channel) group and the row reads the entry at its own position in the group *)
Theorem new_dens_divisible (thr : Z) (rows : list wrow) :
  Forall (fun r => 0 < wr_den r) rows ->
  Forall2 (fun r L => (wr_den r | L) /\ 0 < L) rows (new_dens thr rows).
Proof.
  intro P. unfold new_dens.
  set (go := fix go (before rest : list wrow) {struct rest} : list Z :=
         match rest with
         | [] => []
         | r :: rest' =>
             nth (length (filter (same_group r) before)) (find_lcm thr (map wr_den (filter (same_group r) rows))) 0
             :: go (before ++ [r]) rest'
         end).
  assert (G : forall rest before, rows = before ++ rest ->
                Forall2 (fun r L => (wr_den r | L) /\ 0 < L) rest (go before rest)).
  { induction rest as [|r rest IH]; intros before E; cbn; constructor.
    - set (grp := filter (same_group r) rows).
      assert (Eg : grp = filter (same_group r) before ++ r :: filter (same_group r) rest).
      { unfold grp. rewrite E. apply filter_app_mid. apply same_group_refl. }
      assert (Pg : Forall (fun x => 0 < x) (map wr_den grp)).
      { apply Forall_forall. intros x Hx. apply in_map_iff in Hx. destruct Hx as [y [<- Hy]].
        unfold grp in Hy. apply filter_In in Hy. destruct Hy as [Hy _]. rewrite Forall_forall in P. apply P. exact Hy. }
      destruct (find_lcm_spec thr (map wr_den grp) Pg) as [_ S].
      specialize (S (length (filter (same_group r) before))).
      assert (Lt : (length (filter (same_group r) before) < length (map wr_den grp))%nat).
      { rewrite map_length, Eg, app_length. cbn. lia. }
      destruct (S Lt) as [D [Pos _]].
      rewrite Eg in D at 1. rewrite nth_middle_map in D. split; assumption.
    - apply IH. rewrite E, <- app_assoc. reflexivity. }
  apply (G rows []). reflexivity.
Qed.

(* whole slot table: every row (hit, hold head, LN tail, tempo object) is put, in a line of L = new_den slots, at slot
   num * (L / den): an integer inside the line, denoting exactly the row's own fraction num/den of the measure *)
Theorem write_slots_positions (rows : list wrow) :
  Forall (fun r => 0 < wr_den r /\ 0 <= wr_num r < wr_den r) rows ->
  Forall2 (fun r s => ws_measure s = wr_measure r /\ ws_channel s = wr_channel r /\ ws_value s = wr_value r
                      /\ 0 <= ws_slot s < ws_L s
                      /\ (inject_Z (ws_slot s) / inject_Z (ws_L s) == inject_Z (wr_num r) / inject_Z (wr_den r))%Q)
          rows (map (fun p => slot_of (fst p) (snd p)) (combine rows (new_dens LCM_THRESHOLD rows))).
Proof.
  intro P.
  assert (D : Forall2 (fun r L => (wr_den r | L) /\ 0 < L) rows (new_dens LCM_THRESHOLD rows)).
  { apply new_dens_divisible. eapply Forall_impl; [|exact P]. intros r [A _]. exact A. }
  revert P. induction D as [|r L rows nd [Dv Lp] _ IH]; intro P; cbn [combine map]; constructor.
  - inversion P as [|? ? [Dp Np] _]; subst. cbn [fst snd].
    destruct (slot_arith r L Dp Dv Np Lp) as [_ [R E]].
    unfold slot_of in *. cbn [ws_measure ws_channel ws_value ws_slot ws_L] in *. repeat split; auto; lia.
  - apply IH. inversion P; assumption.
Qed.

Definition slot_rel (r : wrow) (s : wslot) : Prop :=
  ws_measure s = wr_measure r /\ ws_channel s = wr_channel r /\ ws_value s = wr_value r
  /\ 0 <= ws_slot s < ws_L s
  /\ (inject_Z (ws_slot s) / inject_Z (ws_L s) == inject_Z (wr_num r) / inject_Z (wr_den r))%Q.

(* uniqueness: two written objects share (measure, channel, position) only if their rows already did -- rows at distinct
   (measure, channel, fraction) are never merged, whatever line lengths find_lcm chose *)
Theorem written_positions_unique r s r' s' :
  slot_rel r s -> slot_rel r' s' ->
  ws_measure s = ws_measure s' -> ws_channel s = ws_channel s' ->
  (inject_Z (ws_slot s) / inject_Z (ws_L s) == inject_Z (ws_slot s') / inject_Z (ws_L s'))%Q ->
  wr_measure r = wr_measure r' /\ wr_channel r = wr_channel r'
  /\ (inject_Z (wr_num r) / inject_Z (wr_den r) == inject_Z (wr_num r') / inject_Z (wr_den r'))%Q.
Proof.
  intros [M [C [_ [_ E]]]] [M' [C' [_ [_ E']]]] Hm Hc Hp.
  repeat split; try congruence. rewrite <- E, <- E'. exact Hp.
Qed.
