(* C17 — proofs about the model of full_ln (Algo/FullLN.v) and its specification (Algo/FullLNSpec.v). *)
From Coq Require Import ZArith List Bool Permutation Sorted Lia.
From RV Require Import Algo.FullLN Algo.FullLNSpec.
Import ListNotations.
Open Scope Z_scope.

(* ================================================================== generic list facts *)
Lemma perm_filter {A} (f : A -> bool) (l l' : list A) :
  Permutation l l' -> Permutation (filter f l) (filter f l').
Proof.
  induction 1; cbn.
  - constructor.
  - destruct (f x); auto.
  - destruct (f x), (f y); auto. apply perm_swap.
  - eapply perm_trans; eauto.
Qed.

Lemma nth_error_ext_eq {A} (a b : list A) :
  (forall i, nth_error a i = nth_error b i) -> a = b.
Proof.
  revert b. induction a as [|x a IH]; intros [|y b] Hn; auto.
  - specialize (Hn 0%nat). discriminate.
  - specialize (Hn 0%nat). discriminate.
  - f_equal.
    + specialize (Hn 0%nat). cbn in Hn. congruence.
    + apply IH. intro i. exact (Hn (S i)).
Qed.

Lemma nth_error_Some_lt {A} (l : list A) i x : nth_error l i = Some x -> (i < length l)%nat.
Proof. intro Hx. apply nth_error_Some. congruence. Qed.

Lemma nth_error_lt_Some {A} (l : list A) i : (i < length l)%nat -> exists x, nth_error l i = Some x.
Proof. intro Hl. destruct (nth_error l i) eqn:E; eauto. apply nth_error_None in E. lia. Qed.

Lemma list_eqb_eq {A} (f : A -> A -> bool) :
  (forall x y, f x y = true -> x = y) -> forall a b, list_eqb f a b = true -> a = b.
Proof.
  intros Hf. induction a as [|x a IH]; intros [|y b] Hb; cbn in Hb; try discriminate; auto.
  apply andb_true_iff in Hb as [H1 H2]. f_equal; auto.
Qed.

(* ================================================================== notes *)
Lemma note_eqb_eq a b : note_eqb a b = true -> a = b.
Proof.
  destruct a as [c o l], b as [c' o' l']. unfold note_eqb. cbn.
  intro Hb. apply andb_true_iff in Hb as [Hb H3]. apply andb_true_iff in Hb as [H1 H2].
  apply Z.eqb_eq in H1, H2. subst.
  destruct l, l'; try discriminate; auto. apply Z.eqb_eq in H3. subst. reflexivity.
Qed.

Lemma note_eqb_refl a : note_eqb a a = true.
Proof.
  destruct a as [c o l]. unfold note_eqb. cbn. rewrite !Z.eqb_refl. destruct l; auto. apply Z.eqb_refl.
Qed.

Lemma remove1_perm x l l' : remove1 x l = Some l' -> Permutation l (x :: l').
Proof.
  revert l'. induction l as [|y l IH]; intros l' Hr; cbn in Hr; try discriminate.
  destruct (note_eqb x y) eqn:E.
  - apply note_eqb_eq in E. inversion Hr. subst. reflexivity.
  - destruct (remove1 x l) eqn:E2; try discriminate. inversion Hr. subst.
    eapply perm_trans. apply perm_skip. apply IH. reflexivity. apply perm_swap.
Qed.

Lemma remove1_in x l : In x l -> exists l', remove1 x l = Some l'.
Proof.
  induction l as [|y l IH]; intros Hi. destruct Hi.
  cbn. destruct (note_eqb x y) eqn:E; eauto.
  destruct Hi as [->|Hi]. rewrite note_eqb_refl in E. discriminate.
  destruct (IH Hi) as [l' ->]. eauto.
Qed.

Lemma perm_b_sound a : forall b, perm_b a b = true -> Permutation a b.
Proof.
  induction a as [|x a IH]; intros b Hb; cbn in Hb.
  - destruct b; try discriminate. constructor.
  - destruct (remove1 x b) eqn:E; try discriminate.
    apply remove1_perm in E. eapply perm_trans. apply perm_skip. apply IH. exact Hb.
    symmetry. exact E.
Qed.

Lemma perm_b_refl a : perm_b a a = true.
Proof. induction a as [|x a IH]; cbn; auto. rewrite note_eqb_refl. exact IH. Qed.

(* ================================================================== sortedness by offset *)
Definition le_off (a b : note) : Prop := n_off a <= n_off b.
Definition SortedOff (s : list note) : Prop := StronglySorted le_off s.
(* consecutive elements are ordered *)
Definition ChainOff (s : list note) : Prop :=
  forall i a b, nth_error s i = Some a -> nth_error s (S i) = Some b -> n_off a <= n_off b.

Lemma sorted_chain s : SortedOff s -> ChainOff s.
Proof.
  induction 1 as [|x s Hs IH Hf]; intros i a b Ha Hb.
  - destruct i; discriminate.
  - destruct i as [|i].
    + cbn in Ha, Hb. inversion Ha; subst. destruct s as [|y s]; try discriminate. cbn in Hb. inversion Hb; subst.
      inversion Hf; subst. assumption.
    + cbn in Ha. exact (IH i a b Ha Hb).
Qed.

Lemma chain_tail x s : ChainOff (x :: s) -> ChainOff s.
Proof. intros Hc i a b Ha Hb. exact (Hc (S i) a b Ha Hb). Qed.

Lemma chain_mono s : ChainOff s -> forall i j a b, (i <= j)%nat ->
  nth_error s i = Some a -> nth_error s j = Some b -> n_off a <= n_off b.
Proof.
  intros Hc i j. induction j as [|j IH]; intros a b Hij Ha Hb.
  - assert (i = 0%nat) by lia. subst. rewrite Ha in Hb. inversion Hb. lia.
  - destruct (Nat.eq_dec i (S j)) as [->|Hne].
    + rewrite Ha in Hb. inversion Hb. lia.
    + destruct (nth_error_lt_Some s j) as [m Hm]. { apply nth_error_Some_lt in Hb. lia. }
      assert (n_off a <= n_off m) by (apply IH; auto; lia).
      assert (n_off m <= n_off b) by (eapply Hc; eauto). lia.
Qed.

Lemma sortedb_chain s : sortedb s = true -> ChainOff s.
Proof.
  induction s as [|x s IH]; intros Hb i a b Ha Hn.
  - destruct i; discriminate.
  - cbn in Hb. destruct s as [|y s].
    + destruct i; cbn in Hn; discriminate.
    + apply andb_true_iff in Hb as [H1 H2]. destruct i as [|i].
      * cbn in Ha, Hn. inversion Ha; inversion Hn; subst. apply Z.leb_le. exact H1.
      * exact (IH H2 i a b Ha Hn).
Qed.

Lemma sorted_filter f s : SortedOff s -> SortedOff (filter f s).
Proof.
  induction 1 as [|x s Hs IH Hf]; cbn. constructor.
  destruct (f x); auto. constructor; auto.
  clear - Hf. induction Hf; cbn. constructor. destruct (f x0); auto.
Qed.

Lemma insert_off_perm x l : Permutation (insert_off x l) (x :: l).
Proof.
  induction l as [|y l IH]; cbn. reflexivity.
  destruct (n_off x <=? n_off y). reflexivity.
  eapply perm_trans. apply perm_skip. exact IH. apply perm_swap.
Qed.
Lemma isort_perm l : Permutation (isort l) l.
Proof.
  induction l as [|x l IH]; cbn. constructor.
  eapply perm_trans. apply insert_off_perm. apply perm_skip. exact IH.
Qed.
Lemma insert_off_sorted x l : SortedOff l -> SortedOff (insert_off x l).
Proof.
  induction 1 as [|y l Hs IH Hf]; cbn.
  - constructor; constructor.
  - destruct (n_off x <=? n_off y) eqn:E.
    + apply Z.leb_le in E. constructor. constructor; auto.
      constructor. exact E. eapply Forall_impl; [|exact Hf]. unfold le_off. intros; lia.
    + apply Z.leb_gt in E. constructor. exact IH.
      eapply Permutation_Forall. symmetry. apply insert_off_perm.
      constructor; auto. unfold le_off. lia.
Qed.
Lemma isort_sorted l : SortedOff (isort l).
Proof. induction l as [|x l IH]; cbn. constructor. apply insert_off_sorted. exact IH. Qed.

Lemma sp_insert_perm x l : Permutation (sp_insert x l) (x :: l).
Proof.
  induction l as [|y l IH]; cbn. reflexivity.
  destruct (n_off y <? n_off x). 2: reflexivity.
  eapply perm_trans. apply perm_skip. exact IH. apply perm_swap.
Qed.
Lemma sp_sort_perm l : Permutation (sp_sort l) l.
Proof.
  induction l as [|x l IH]; cbn. constructor.
  eapply perm_trans. apply sp_insert_perm. apply perm_skip. exact IH.
Qed.

(* ================================================================== the expected result of a processing order *)
Lemma filled_Fill gap thr a b : Fill gap thr a b (filled gap thr a b).
Proof.
  unfold Fill, filled. cbn. split; [reflexivity|]. split; [reflexivity|].
  destruct (n_off b - n_off a - gap <? thr) eqn:E.
  - apply Z.ltb_lt in E. right. auto.
  - apply Z.ltb_ge in E. left. auto.
Qed.

Lemma expected_length gap thr rest : forall cur, length (expected gap thr cur rest) = S (length rest).
Proof. induction rest as [|b rest IH]; intros cur; cbn; auto. Qed.

Lemma expected_nth_fill gap thr rest : forall cur i a b,
  nth_error (cur :: rest) i = Some a -> nth_error (cur :: rest) (S i) = Some b ->
  nth_error (expected gap thr cur rest) i = Some (filled gap thr a b).
Proof.
  induction rest as [|c rest IH]; intros cur i a b Ha Hb.
  - destruct i; cbn in Hb; discriminate.
  - destruct i as [|i].
    + cbn in Ha, Hb. inversion Ha; inversion Hb; subst. reflexivity.
    + cbn [expected]. cbn [nth_error]. apply IH; assumption.
Qed.

Lemma expected_nth_last gap thr rest : forall cur i a,
  nth_error (cur :: rest) i = Some a -> nth_error (cur :: rest) (S i) = None ->
  nth_error (expected gap thr cur rest) i = Some a.
Proof.
  induction rest as [|c rest IH]; intros cur i a Ha Hn.
  - destruct i as [|i]. cbn in Ha. inversion Ha. reflexivity. destruct i; discriminate.
  - destruct i as [|i]. cbn in Hn. discriminate.
    cbn [expected]. cbn [nth_error]. apply IH; assumption.
Qed.

(* a sorted order and its expected result witness the column specification *)
Lemma expected_col_spec gap thr s I O :
  Permutation s I -> ChainOff s -> Permutation (expected_col gap thr s) O -> ColumnSpec gap thr I O.
Proof.
  intros Hp Hc Ho. exists s, (expected_col gap thr s). split; [exact Hp|]. split; [exact Ho|].
  destruct s as [|cur rest].
  - cbn. split; [reflexivity|]. split.
    + intros i a b Ha. destruct i; discriminate.
    + intros i a Ha. destruct i; discriminate.
  - cbn [expected_col]. split. apply expected_length. split.
    + intros i a b Ha Hb. split. eapply Hc; eauto.
      exists (filled gap thr a b). split. apply expected_nth_fill; assumption. apply filled_Fill.
    + intros i a Ha Hn. apply expected_nth_last; assumption.
Qed.

(* ================================================================== soundness of the boolean oracle *)
Lemma col_ok_sound gap thr I O : col_ok gap thr I O = true -> ColumnSpec gap thr I O.
Proof.
  unfold col_ok. destruct I as [|n I].
  - destruct O; try discriminate. intros _. apply (expected_col_spec gap thr []); try constructor.
    intros i a b Ha. destruct i; discriminate.
  - intro Hb. apply existsb_exists in Hb as [r [Hin Hb]].
    destruct (remove1 r (n :: I)) as [I'|] eqn:E; try discriminate.
    apply andb_true_iff in Hb as [Hs Hp].
    apply (expected_col_spec gap thr (sp_sort I' ++ [r])).
    + eapply perm_trans. apply Permutation_app_comm. cbn.
      eapply perm_trans. apply perm_skip. apply sp_sort_perm. symmetry. apply remove1_perm. exact E.
    + apply sortedb_chain. exact Hs.
    + apply perm_b_sound. exact Hp.
Qed.

Lemma dedup_in x l : In x l -> In x (dedup l).
Proof.
  induction l as [|y l IH]; intros Hi. destruct Hi.
  cbn. destruct (existsb (Z.eqb y) l) eqn:E.
  - destruct Hi as [->|Hi]; auto. apply IH. apply existsb_exists in E as [z [Hz Hy]]. apply Z.eqb_eq in Hy. subst. exact Hz.
  - destruct Hi as [->|Hi]. left; reflexivity. right; auto.
Qed.

Lemma filter_col_nil c l : ~ In c (map n_col l) -> filter (in_col c) l = [].
Proof.
  induction l as [|x l IH]; intros Hn; cbn; auto.
  unfold in_col at 1. destruct (n_col x =? c) eqn:E.
  - apply Z.eqb_eq in E. exfalso. apply Hn. left. exact E.
  - apply IH. intro Hi. apply Hn. right. exact Hi.
Qed.

Lemma ColumnSpec_nil gap thr : ColumnSpec gap thr [] [].
Proof. apply col_ok_sound. reflexivity. Qed.

Lemma notes_ok_sound gap thr I O : notes_ok gap thr I O = true -> NotesSpec gap thr I O.
Proof.
  intros Hb c. unfold notes_ok in Hb. rewrite forallb_forall in Hb.
  destruct (in_dec Z.eq_dec c (map n_col (I ++ O))) as [Hi|Hn].
  - apply col_ok_sound. apply Hb. apply dedup_in. exact Hi.
  - rewrite map_app in Hn. rewrite !filter_col_nil. apply ColumnSpec_nil.
    intro; apply Hn; apply in_or_app; auto. intro; apply Hn; apply in_or_app; auto.
Qed.

Lemma slot_eqb_eq a b : slot_eqb a b = true -> a = b.
Proof. destruct a, b; cbn; congruence. Qed.
Lemma class_eqb_eq a b : class_eqb a b = true -> a = b.
Proof. destruct a, b; cbn; congruence. Qed.
Lemma tl_eqb_eq a b : tl_eqb a b = true -> a = b.
Proof.
  destruct a as [s c n i], b as [s' c' n' i']. unfold tl_eqb. cbn. intro Hb.
  repeat (apply andb_true_iff in Hb as [Hb ?]).
  apply slot_eqb_eq in Hb. apply class_eqb_eq in H1.
  apply (list_eqb_eq _ note_eqb_eq) in H0. apply (list_eqb_eq Z.eqb (fun x y => proj1 (Z.eqb_eq x y))) in H.
  congruence.
Qed.

Theorem specb_sound m gap thr o : specb m gap thr o = true -> SpecO m gap thr o.
Proof.
  unfold specb. destruct o as [m'|]; try discriminate. intro Hb.
  repeat (apply andb_true_iff in Hb as [Hb ?]).
  exists m'. split; [reflexivity|]. constructor.
  - apply notes_ok_sound. exact Hb.
  - intros n Hn. rewrite forallb_forall in H2. specialize (H2 n Hn). unfold is_hit in H2. destruct (n_len n); congruence.
  - intros n Hn. rewrite forallb_forall in H1. specialize (H1 n Hn). unfold is_hit in H1. destruct (n_len n); cbn in H1; congruence.
  - apply (list_eqb_eq _ tl_eqb_eq). exact H0.
  - apply (list_eqb_eq _ slot_eqb_eq). exact H.
Qed.

(* ================================================================== consequences of the specification *)
Lemma key_dec : forall x y : Z * Z, {x = y} + {x <> y}.
Proof. decide equality; apply Z.eq_dec. Qed.

Lemma column_keys gap thr I O : ColumnSpec gap thr I O -> Permutation (map key I) (map key O).
Proof.
  intros (s & o & Hs & Ho & Hlen & Hfill & Hlast).
  assert (map key s = map key o) as Heq.
  { apply nth_error_ext_eq. intro i. rewrite !nth_error_map.
    destruct (nth_error s i) as [a|] eqn:Ea.
    - destruct (nth_error s (S i)) as [b|] eqn:Eb.
      + destruct (Hfill i a b Ea Eb) as [_ (x & Hx & Hc & Hoff & _)]. rewrite Hx. cbn. unfold key. congruence.
      + rewrite (Hlast i a Ea Eb). reflexivity.
    - apply nth_error_None in Ea. rewrite <- Hlen in Ea. apply nth_error_None in Ea. rewrite Ea. reflexivity. }
  eapply perm_trans. apply Permutation_map. symmetry. exact Hs.
  rewrite Heq. apply Permutation_map. exact Ho.
Qed.

Lemma count_key_filter c t l :
  count_occ key_dec (map key l) (c, t) = count_occ key_dec (map key (filter (in_col c) l)) (c, t).
Proof.
  induction l as [|x l IH]; cbn [map filter]. reflexivity.
  unfold in_col at 1. destruct (n_col x =? c) eqn:E.
  - cbn [map]. cbn [count_occ]. destruct (key_dec (key x) (c, t)); rewrite IH; reflexivity.
  - apply Z.eqb_neq in E. rewrite count_occ_cons_neq. exact IH. unfold key. congruence.
Qed.

Theorem count_of_spec gap thr I O : NotesSpec gap thr I O -> CountKept I O.
Proof.
  intro Hs. unfold CountKept. apply (Permutation_count_occ key_dec). intros [c t].
  rewrite (count_key_filter c t I), (count_key_filter c t O).
  apply (Permutation_count_occ key_dec). eapply column_keys. apply Hs.
Qed.

Lemma filter_col_in c l n : In n (filter (in_col c) l) <-> In n l /\ n_col n = c.
Proof. rewrite filter_In. unfold in_col. rewrite Z.eqb_eq. tauto. Qed.

Theorem no_overlap_of_spec gap thr I O : 0 <= gap -> NotesSpec gap thr I O -> NoOverlap I O.
Proof.
  intros Hg Hs h l n Hh Hl Hn Hc Hlt.
  destruct (Hs (n_col h)) as (s & o & Hps & Hpo & Hlen & Hfill & Hlast).
  assert (ChainOff s) as Hch. { intros i a b Ha Hb. apply (Hfill i a b Ha Hb). }
  assert (In h o) as Hho. { eapply Permutation_in. symmetry. exact Hpo. apply filter_col_in. auto. }
  assert (In n s) as Hns. { eapply Permutation_in. symmetry. exact Hps. apply filter_col_in. auto. }
  apply In_nth_error in Hho as [i Hi]. apply In_nth_error in Hns as [j Hj].
  destruct (nth_error_lt_Some s i) as [a Ha]. { rewrite <- Hlen. eapply nth_error_Some_lt. exact Hi. }
  destruct (nth_error s (S i)) as [b|] eqn:Eb.
  - destruct (Hfill i a b Ha Eb) as [Hab (x & Hx & _ & Hoff & Hk)].
    rewrite Hi in Hx. inversion Hx; subst x.
    destruct Hk as [[_ Hk]|[_ Hk]]; rewrite Hl in Hk; try discriminate. inversion Hk; subst l.
    destruct (le_lt_dec j i) as [Hji|Hji].
    + assert (n_off n <= n_off a) by (eapply (chain_mono s Hch j i); eauto). lia.
    + assert (n_off b <= n_off n) by (eapply (chain_mono s Hch (S i) j); eauto). lia.
  - rewrite (Hlast i a Ha Eb) in Hi. inversion Hi; subst a.
    assert (j <= i)%nat. { apply nth_error_None in Eb. apply nth_error_Some_lt in Hj. lia. }
    assert (n_off n <= n_off h) by (eapply (chain_mono s Hch j i); eauto). lia.
Qed.

Theorem last_kept_of_spec gap thr I O : NotesSpec gap thr I O -> LastKept I O.
Proof.
  intros Hs c Hne.
  destruct (Hs c) as (s & o & Hps & Hpo & Hlen & Hfill & Hlast).
  assert (ChainOff s) as Hch. { intros i a b Ha Hb. apply (Hfill i a b Ha Hb). }
  assert (length s <> 0%nat) as Hl0.
  { intro H0. apply length_zero_iff_nil in H0. subst s. apply Permutation_nil in Hps. contradiction. }
  destruct (nth_error_lt_Some s (length s - 1)) as [a Ha]. lia.
  assert (nth_error s (S (length s - 1)) = None) as Hn. { apply nth_error_None. lia. }
  assert (In a (filter (in_col c) I)) as Hai. { eapply Permutation_in. exact Hps. eapply nth_error_In. exact Ha. }
  apply filter_col_in in Hai as [Hai Hac].
  exists a. repeat split; auto.
  - intros n Hn1 Hn2. assert (In n s) as Hns. { eapply Permutation_in. symmetry. exact Hps. apply filter_col_in. auto. }
    apply In_nth_error in Hns as [j Hj].
    eapply (chain_mono s Hch j (length s - 1)); eauto. apply nth_error_Some_lt in Hj. lia.
  - assert (In a (filter (in_col c) O)) as Hao. { eapply Permutation_in. exact Hpo. eapply nth_error_In. apply (Hlast _ _ Ha Hn). }
    apply filter_col_in in Hao. tauto.
Qed.

(* ================================================================== the model's loop is the expected result *)
Lemma ln_column_expected gap thr g : ln_column gap thr g = expected_col gap thr g.
Proof.
  induction g as [|n rest IH]. reflexivity.
  destruct rest as [|n' r].
  - cbn. destruct n; reflexivity.
  - change (ln_column gap thr (n :: n' :: r))
      with (mkNote (n_col n) (n_off n) (if thr <=? n_off n' - n_off n - gap then Some (n_off n' - n_off n - gap) else None)
            :: ln_column gap thr (n' :: r)).
    rewrite IH. cbn [expected_col expected]. f_equal.
    unfold filled. cbn zeta. rewrite Z.leb_antisym. destruct (n_off n' - n_off n - gap <? thr); reflexivity.
Qed.

Lemma ln_column_cols gap thr c g :
  Forall (fun n => n_col n = c) g -> Forall (fun n => n_col n = c) (ln_column gap thr g).
Proof.
  induction 1 as [|n rest Hn Hr IH]. constructor.
  destruct rest as [|n' r].
  - cbn. constructor; auto.
  - change (ln_column gap thr (n :: n' :: r))
      with (mkNote (n_col n) (n_off n) (if thr <=? n_off n' - n_off n - gap then Some (n_off n' - n_off n - gap) else None)
            :: ln_column gap thr (n' :: r)).
    constructor; auto.
Qed.

(* ---- groupby keys *)
Lemma insert_col_in x c l : In x (insert_col c l) <-> x = c \/ In x l.
Proof.
  induction l as [|d l IH]; cbn. intuition.
  destruct (c <? d). cbn. intuition.
  destruct (c =? d) eqn:E. apply Z.eqb_eq in E. subst. cbn. intuition.
  cbn. rewrite IH. intuition.
Qed.
Lemma insert_col_sorted c l : StronglySorted Z.lt l -> StronglySorted Z.lt (insert_col c l).
Proof.
  induction 1 as [|d l Hs IH Hf]; cbn. constructor; constructor.
  destruct (c <? d) eqn:E1.
  - apply Z.ltb_lt in E1. constructor. constructor; auto. constructor; auto.
    eapply Forall_impl; [|exact Hf]. intros; lia.
  - destruct (c =? d) eqn:E2. constructor; auto.
    apply Z.ltb_ge in E1. apply Z.eqb_neq in E2. constructor; auto.
    apply Forall_forall. intros x Hx. apply insert_col_in in Hx as [->|Hx]. lia.
    rewrite Forall_forall in Hf. auto.
Qed.
Lemma columns_sorted s : StronglySorted Z.lt (columns s).
Proof. unfold columns. induction (map n_col s); cbn. constructor. apply insert_col_sorted. assumption. Qed.
Lemma columns_in c s : In c (columns s) <-> In c (map n_col s).
Proof. unfold columns. induction (map n_col s); cbn. tauto. rewrite insert_col_in, IHl. intuition. Qed.

Lemma filter_all {A} (p : A -> bool) l : (forall x, In x l -> p x = true) -> filter p l = l.
Proof. induction l; cbn; intros Hp; auto. rewrite Hp by auto. f_equal. auto. Qed.
Lemma filter_none {A} (p : A -> bool) l : (forall x, In x l -> p x = false) -> filter p l = [].
Proof. induction l; cbn; intros Hp; auto. rewrite Hp by auto. auto. Qed.

Section Rows.
  Variable f : Z -> list note.
  Hypothesis Hf : forall c n, In n (f c) -> n_col n = c.

  Lemma filter_chunk_same c : filter (in_col c) (f c) = f c.
  Proof. apply filter_all. intros n Hn. unfold in_col. apply Z.eqb_eq. auto. Qed.
  Lemma filter_chunk_other c c' : c' <> c -> filter (in_col c) (f c') = [].
  Proof. intro Hne. apply filter_none. intros n Hn. unfold in_col. apply Z.eqb_neq. rewrite (Hf _ _ Hn). exact Hne. Qed.

  Lemma filter_rows_absent c cs : ~ In c cs -> filter (in_col c) (flat_map f cs) = [].
  Proof.
    induction cs as [|d cs IH]; intro Hn; cbn; auto.
    rewrite filter_app, filter_chunk_other, IH; auto. intro; apply Hn; right; auto. intro; apply Hn; left; auto.
  Qed.
  Lemma filter_rows_present c cs : StronglySorted Z.lt cs -> In c cs -> filter (in_col c) (flat_map f cs) = f c.
  Proof.
    induction 1 as [|d cs Hs IH Hfa]; intros Hi. destruct Hi.
    cbn. rewrite filter_app. destruct (Z.eq_dec d c) as [->|Hne].
    - rewrite filter_chunk_same, filter_rows_absent. apply app_nil_r.
      intro Hc. rewrite Forall_forall in Hfa. specialize (Hfa c Hc). lia.
    - rewrite filter_chunk_other by exact Hne. destruct Hi as [->|Hi]. congruence. cbn. auto.
  Qed.
End Rows.

Lemma group_cols c s : Forall (fun n => n_col n = c) (group c s).
Proof. apply Forall_forall. intros n Hn. unfold group in Hn. apply filter_In in Hn as [_ Hn]. apply Z.eqb_eq. exact Hn. Qed.

Lemma group_is_filter c s : group c s = filter (in_col c) s.
Proof. reflexivity. Qed.

(* the rows produced after the sort, for any sorted permutation of the stacked frame, satisfy the note rule *)
Theorem ln_rows_spec gap thr st s :
  Permutation s st -> SortedOff s -> NotesSpec gap thr st (ln_rows gap thr s).
Proof.
  intros Hp Hs c. apply (expected_col_spec gap thr (group c s)).
  - rewrite group_is_filter. apply perm_filter. exact Hp.
  - apply sorted_chain. rewrite group_is_filter. apply sorted_filter. exact Hs.
  - rewrite <- ln_column_expected. unfold ln_rows.
    assert (forall c' n, In n (ln_column gap thr (group c' s)) -> n_col n = c') as Hf.
    { intros c' n Hn. pose proof (ln_column_cols gap thr c' _ (group_cols c' s)) as Hall.
      rewrite Forall_forall in Hall. auto. }
    destruct (in_dec Z.eq_dec c (columns s)) as [Hi|Hn].
    + rewrite (filter_rows_present _ Hf c (columns s) (columns_sorted s) Hi). reflexivity.
    + rewrite (filter_rows_absent _ Hf c (columns s) Hn).
      rewrite group_is_filter, filter_col_nil. constructor. rewrite <- columns_in. exact Hn.
Qed.

(* ================================================================== chart level *)
Definition upd (h o : list note) (l : tlist) : tlist :=
  match tl_slot l with SHits => set_rows l h | SHolds => set_rows l o | SOther => l end.

Lemma rebuild_some rows h : rebuild rows = Some h -> h = rows.
Proof. unfold rebuild. destruct rows; congruence. Qed.

Lemma full_ln_sorted_inv m s gap thr m' :
  full_ln_sorted m s gap thr = Some m' ->
  m' = map (upd (filter is_hit (ln_rows gap thr s)) (filter (fun n => negb (is_hit n)) (ln_rows gap thr s))) m.
Proof.
  unfold full_ln_sorted. destruct (find_slot SHits m); try discriminate. destruct (find_slot SHolds m); try discriminate.
  destruct (rebuild (filter is_hit _)) eqn:E1; try discriminate.
  destruct (rebuild (filter (fun n => negb (is_hit n)) _)) eqn:E2; try discriminate.
  apply rebuild_some in E1, E2. subst. intro H. inversion H. reflexivity.
Qed.

Lemma upd_slot h o x : tl_slot (upd h o x) = tl_slot x.
Proof. unfold upd. destruct (tl_slot x) eqn:E; cbn; auto. Qed.
Lemma upd_other h o x : tl_slot x = SOther -> upd h o x = x.
Proof. unfold upd. intros ->. reflexivity. Qed.
Lemma upd_notes_hits h o x : tl_slot x = SHits -> tl_notes (upd h o x) = h.
Proof. unfold upd. intros ->. reflexivity. Qed.
Lemma upd_notes_holds h o x : tl_slot x = SHolds -> tl_notes (upd h o x) = o.
Proof. unfold upd. intros ->. reflexivity. Qed.

Lemma upd_others h o m : others (map (upd h o) m) = others m.
Proof.
  unfold others, slot_lists. induction m as [|x m IH]; cbn [map filter]; auto.
  rewrite upd_slot. destruct (slot_eqb (tl_slot x) SOther) eqn:E; auto.
  apply slot_eqb_eq in E. rewrite (upd_other h o x E). f_equal. exact IH.
Qed.
Lemma upd_layout h o m : map tl_slot (map (upd h o) m) = map tl_slot m.
Proof. induction m as [|x m IH]; cbn [map]; auto. rewrite upd_slot. f_equal; auto. Qed.
Lemma upd_hits h o m : slot_notes SHits (map (upd h o) m) = flat_map (fun _ => h) (slot_lists SHits m).
Proof.
  unfold slot_notes, slot_lists. induction m as [|x m IH]; cbn [map filter]; auto.
  rewrite upd_slot. destruct (slot_eqb (tl_slot x) SHits) eqn:E; auto.
  apply slot_eqb_eq in E. cbn [flat_map]. rewrite (upd_notes_hits h o x E). f_equal. exact IH.
Qed.
Lemma upd_holds h o m : slot_notes SHolds (map (upd h o) m) = flat_map (fun _ => o) (slot_lists SHolds m).
Proof.
  unfold slot_notes, slot_lists. induction m as [|x m IH]; cbn [map filter]; auto.
  rewrite upd_slot. destruct (slot_eqb (tl_slot x) SHolds) eqn:E; auto.
  apply slot_eqb_eq in E. cbn [flat_map]. rewrite (upd_notes_holds h o x E). f_equal. exact IH.
Qed.
Lemma flat_const_one {A B} (l : list A) (h : list B) : length l = 1%nat -> flat_map (fun _ => h) l = h.
Proof. destruct l as [|x [|y l]]; cbn; try discriminate. intros _. apply app_nil_r. Qed.

(* what wf_chart gives *)
Lemma wf_chart_inv m : wf_chart m = true ->
  count_slot SHits m = 1%nat /\ count_slot SHolds m = 1%nat /\
  (forall l, In l m -> tl_slot l = SHits -> tl_class l = CHit /\ forall n, In n (tl_notes l) -> n_len n = None) /\
  (forall l, In l m -> tl_slot l = SHolds -> tl_class l = CHold) /\
  (forall l, In l m -> tl_class l = CNone -> tl_notes l = []).
Proof.
  unfold wf_chart. intro Hb. repeat (apply andb_true_iff in Hb as [Hb ?]).
  apply Nat.eqb_eq in Hb, H4. repeat split; auto.
  - rewrite forallb_forall in H3. apply class_eqb_eq. apply H3. unfold slot_lists. apply filter_In. split; auto. rewrite H6. reflexivity.
  - intros n Hn. rewrite forallb_forall in H1. assert (is_hit n = true) as Hh.
    { apply H1. unfold slot_notes. apply in_flat_map. exists l. split; auto. unfold slot_lists. apply filter_In. split; auto. rewrite H6. reflexivity. }
    unfold is_hit in Hh. destruct (n_len n); congruence.
  - intros l Hl Hs. rewrite forallb_forall in H2. apply class_eqb_eq. apply H2. unfold slot_lists. apply filter_In. split; auto. rewrite Hs. reflexivity.
  - intros l Hl Hc. rewrite forallb_forall in H. specialize (H l Hl). rewrite Hc in H. destruct (tl_notes l); congruence.
Qed.

Lemma map_hit_id l : (forall n, In n l -> n_len n = None) -> map (fun n => mkNote (n_col n) (n_off n) None) l = l.
Proof.
  induction l as [|x l IH]; cbn; intros Hn; auto. f_equal; auto.
  specialize (Hn x (or_introl eq_refl)). destruct x; cbn in *. congruence.
Qed.

Lemma flat_map_ext_in {A B} (f g : A -> list B) l : (forall a, In a l -> f a = g a) -> flat_map f l = flat_map g l.
Proof. induction l as [|x l IH]; cbn; intro He; auto. rewrite He by (left; reflexivity). f_equal. apply IH. intros; apply He; right; auto. Qed.

(* the stacked frame holds exactly the notes of m.hits and m.holds *)
Lemma stacked_eq m : wf_chart m = true -> stacked m = chart_notes m.
Proof.
  intros Hw. apply wf_chart_inv in Hw as (_ & _ & Hh & Ho & _).
  unfold stacked, chart_notes, slot_notes, slot_lists, in_slot. f_equal; apply flat_map_ext_in; intros l Hl.
  - apply filter_In in Hl as [Hl Hs]. apply slot_eqb_eq in Hs. destruct (Hh l Hl Hs) as [Hc Hn].
    unfold stack_rows. rewrite Hc. apply map_hit_id. exact Hn.
  - apply filter_In in Hl as [Hl Hs]. apply slot_eqb_eq in Hs. unfold stack_rows. rewrite (Ho l Hl Hs). reflexivity.
Qed.
Lemma stacked_perm m : wf_chart m = true -> Permutation (stacked m) (chart_notes m).
Proof. intro Hw. rewrite (stacked_eq m Hw). reflexivity. Qed.

Lemma partition_perm {A} (p : A -> bool) l : Permutation l (filter p l ++ filter (fun x => negb (p x)) l).
Proof.
  induction l as [|x l IH]; cbn. constructor.
  destruct (p x); cbn. apply perm_skip. exact IH. apply Permutation_cons_app. exact IH.
Qed.

Lemma NotesSpec_perm gap thr I I' O O' :
  Permutation I I' -> Permutation O O' -> NotesSpec gap thr I O -> NotesSpec gap thr I' O'.
Proof.
  intros HI HO Hs c. destruct (Hs c) as (s & o & H1 & H2 & H3).
  exists s, o. split. eapply perm_trans. exact H1. apply perm_filter. exact HI.
  split. eapply perm_trans. exact H2. apply perm_filter. exact HO. exact H3.
Qed.

(* MAIN: for every sorted order the sort may return, the result satisfies the specification *)
Theorem full_ln_sorted_spec m s gap thr m' :
  wf_chart m = true ->
  Permutation s (stacked m) -> SortedOff s ->
  full_ln_sorted m s gap thr = Some m' -> Spec m gap thr m'.
Proof.
  intros Hw Hp Hs Hr. apply full_ln_sorted_inv in Hr.
  set (rows := ln_rows gap thr s) in *. set (h := filter is_hit rows) in *.
  set (o := filter (fun n => negb (is_hit n)) rows) in *.
  destruct (wf_chart_inv m Hw) as (Hc1 & Hc2 & _).
  assert (slot_notes SHits m' = h) as Eh. { rewrite Hr, upd_hits. apply flat_const_one. exact Hc1. }
  assert (slot_notes SHolds m' = o) as Eo. { rewrite Hr, upd_holds. apply flat_const_one. exact Hc2. }
  constructor.
  - unfold chart_notes at 2. rewrite Eh, Eo.
    apply (NotesSpec_perm gap thr (stacked m) _ rows _).
    + apply stacked_perm; assumption.
    + apply partition_perm.
    + apply ln_rows_spec; assumption.
  - rewrite Eh. intros n Hn. apply filter_In in Hn as [_ Hn]. unfold is_hit in Hn. destruct (n_len n); congruence.
  - rewrite Eo. intros n Hn. apply filter_In in Hn as [_ Hn]. unfold is_hit in Hn. destruct (n_len n); cbn in Hn; congruence.
  - rewrite Hr. apply upd_others.
  - rewrite Hr. apply upd_layout.
Qed.

Lemma find_filter {A} (f : A -> bool) l : find f l = match filter f l with [] => None | x :: _ => Some x end.
Proof. induction l as [|x l IH]; cbn; auto. destruct (f x); auto. Qed.

(* the operation is defined on every well-formed chart *)
Theorem full_ln_sorted_defined m s gap thr :
  wf_chart m = true -> exists m', full_ln_sorted m s gap thr = Some m'.
Proof.
  intros Hw. destruct (wf_chart_inv m Hw) as (Hc1 & Hc2 & _).
  unfold full_ln_sorted, find_slot. rewrite !find_filter.
  unfold count_slot, slot_lists in *.
  destruct (filter (fun l => slot_eqb (tl_slot l) SHits) m) as [|lh [|? ?]]; try discriminate.
  destruct (filter (fun l => slot_eqb (tl_slot l) SHolds) m) as [|lo [|? ?]]; try discriminate.
  unfold rebuild. destruct (filter is_hit _); destruct (filter (fun n => negb (is_hit n)) _); eauto.
Qed.

(* ================================================================== the model with its stable sort *)
Theorem full_ln_spec m gap thr m' :
  wf_chart m = true -> full_ln m gap thr = Some m' -> Spec m gap thr m'.
Proof. intros Hw. apply full_ln_sorted_spec; auto. apply isort_perm. apply isort_sorted. Qed.

Theorem full_ln_defined m gap thr :
  wf_chart m = true -> exists m', full_ln m gap thr = Some m'.
Proof. intros. apply full_ln_sorted_defined; assumption. Qed.

(* consequences, for every sorted order *)
Theorem full_ln_sorted_count m s gap thr m' :
  wf_chart m = true -> Permutation s (stacked m) -> SortedOff s ->
  full_ln_sorted m s gap thr = Some m' -> CountKept (chart_notes m) (chart_notes m').
Proof. intros Hw Hp Hs Hr. eapply count_of_spec. apply (sp_notes _ _ _ _ (full_ln_sorted_spec m s gap thr m' Hw Hp Hs Hr)). Qed.

Theorem full_ln_sorted_no_overlap m s gap thr m' :
  wf_chart m = true -> 0 <= gap -> Permutation s (stacked m) -> SortedOff s ->
  full_ln_sorted m s gap thr = Some m' -> NoOverlap (chart_notes m) (chart_notes m').
Proof.
  intros Hw Hg Hp Hs Hr. eapply no_overlap_of_spec. exact Hg.
  apply (sp_notes _ _ _ _ (full_ln_sorted_spec m s gap thr m' Hw Hp Hs Hr)).
Qed.

Theorem full_ln_sorted_last_kept m s gap thr m' :
  wf_chart m = true -> Permutation s (stacked m) -> SortedOff s ->
  full_ln_sorted m s gap thr = Some m' -> LastKept (chart_notes m) (chart_notes m').
Proof. intros Hw Hp Hs Hr. eapply last_kept_of_spec. apply (sp_notes _ _ _ _ (full_ln_sorted_spec m s gap thr m' Hw Hp Hs Hr)). Qed.

Theorem full_ln_count m gap thr m' :
  wf_chart m = true -> full_ln m gap thr = Some m' ->
  CountKept (chart_notes m) (chart_notes m').
Proof. intros Hw. apply full_ln_sorted_count; auto. apply isort_perm. apply isort_sorted. Qed.

Theorem full_ln_no_overlap m gap thr m' :
  wf_chart m = true -> 0 <= gap -> full_ln m gap thr = Some m' ->
  NoOverlap (chart_notes m) (chart_notes m').
Proof. intros Hw Hg. apply full_ln_sorted_no_overlap; auto. apply isort_perm. apply isort_sorted. Qed.

Theorem full_ln_last_kept m gap thr m' :
  wf_chart m = true -> full_ln m gap thr = Some m' ->
  LastKept (chart_notes m) (chart_notes m').
Proof. intros Hw. apply full_ln_sorted_last_kept; auto. apply isort_perm. apply isort_sorted. Qed.

(* what a `true` of the oracle on an implementation output means *)
Theorem specb_consequences m gap thr m' :
  specb m gap thr (Some m') = true -> 0 <= gap ->
  Spec m gap thr m' /\ CountKept (chart_notes m) (chart_notes m') /\
  NoOverlap (chart_notes m) (chart_notes m') /\ LastKept (chart_notes m) (chart_notes m').
Proof.
  intros Hb Hg. apply specb_sound in Hb as (m2 & E & Hs). inversion E; subst m2.
  split; [exact Hs|]. pose proof (sp_notes _ _ _ _ Hs) as Hn.
  split. eapply count_of_spec; eauto. split. eapply no_overlap_of_spec; eauto. eapply last_kept_of_spec; eauto.
Qed.

(* ================================================================== the OLD variant (before the repair 2c338d8)
   StepMania: Map.stack((HitList, HoldList)) also collected mines/fakes/lifts/keysounds (HitList subclasses) and rolls
   (HoldList subclass); they came back inside hits/holds and stayed in their own list: note count not conserved.
   The current model (only m.hits and m.holds are stacked) conserves it on the same chart. *)
Definition sm_witness : chart :=
  [ mkTL SOther CHit [mkNote 1 500 None] [1];       (* mines: one mine at 500 in column 1 *)
    mkTL SHits CHit [mkNote 0 0 None] [];           (* hits: one hit at 0 in column 0 *)
    mkTL SHolds CHold [] [];
    mkTL SOther CNone [] [2] ].                     (* bpms *)

Theorem old_by_type_count_refuted :
  exists m gap thr m', wf_chart m = true /\ 0 <= gap /\ 0 <= thr /\
    full_ln_old_by_type m gap thr = Some m' /\ ~ CountKept (chart_notes m) (chart_notes m').
Proof.
  exists sm_witness, 150, 100.
  eexists. split. reflexivity. split. lia. split. lia. split. vm_compute. reflexivity.
  intro Hp. apply Permutation_length in Hp. vm_compute in Hp. discriminate.
Qed.

Theorem sm_witness_now_ok :
  wf_chart sm_witness = true /\ specb sm_witness 150 100 (full_ln sm_witness 150 100) = true.
Proof. vm_compute. split; reflexivity. Qed.

(* ================================================================== the correspondence relation transfers the theorem
   (Corr/RunC17.v: [corr] accepts an implementation output that equals the model's output, as multisets of rows,
   for some choice of which note among those sharing the greatest offset of a column is processed last).
   Whatever [corr] accepts satisfies the specification: agreement under Corr carries the theorem over to that
   implementation output. *)
From RV Require Corr.RunC17.

Lemma sorted_snoc l r : SortedOff l -> Forall (fun x => n_off x <= n_off r) l -> SortedOff (l ++ [r]).
Proof.
  induction 1 as [|x l Hs IH Hf]; intros Hr; cbn. constructor; constructor.
  inversion Hr; subst. constructor. apply IH; assumption.
  apply Forall_app. split; auto.
Qed.

Lemma sorted_app_last l z : SortedOff (l ++ [z]) -> Forall (fun x => n_off x <= n_off z) (l ++ [z]).
Proof.
  induction l as [|x l IH]; cbn; intro Hs.
  - constructor; [lia|constructor].
  - apply StronglySorted_inv in Hs as [Hs Hf]. constructor; auto.
    rewrite Forall_forall in Hf. apply Hf. apply in_or_app. right. left. reflexivity.
Qed.

Lemma remove1_sorted x l l' : SortedOff l -> remove1 x l = Some l' -> SortedOff l'.
Proof.
  intros Hs. revert l'. induction Hs as [|y l Hs IH Hf]; intros l' Hr; cbn in Hr; try discriminate.
  destruct (note_eqb x y). inversion Hr; subst; assumption.
  destruct (remove1 x l) as [r|] eqn:E; try discriminate. inversion Hr; subst.
  constructor. apply IH. reflexivity.
  apply remove1_perm in E. pose proof (Permutation_Forall E Hf) as Hf'. inversion Hf'; assumption.
Qed.

Lemma ColumnSpec_perm gap thr I I' O O' :
  Permutation I I' -> Permutation O O' -> ColumnSpec gap thr I O -> ColumnSpec gap thr I' O'.
Proof.
  intros HI HO (s & o & H1 & H2 & H3). exists s, o.
  split. eapply perm_trans; eauto. split. eapply perm_trans; eauto. exact H3.
Qed.

Lemma col_corr_sound gap thr G Oc :
  SortedOff G -> RunC17.col_corr gap thr G Oc = true -> ColumnSpec gap thr G Oc.
Proof.
  intros Hs. unfold RunC17.col_corr. destruct G as [|g0 G0] eqn:EG.
  - destruct Oc; try discriminate. intros _. apply ColumnSpec_nil.
  - rewrite <- EG in *. clear EG g0 G0. intro Hb. apply existsb_exists in Hb as [r [Hr Hp]].
    unfold last_candidates in Hr. destruct (rev G) as [|z rest] eqn:Erev. destruct Hr.
    apply filter_In in Hr as [HrG Hoff]. apply Z.eqb_eq in Hoff.
    assert (G = rev rest ++ [z]) as EG. { rewrite <- (rev_involutive G), Erev. reflexivity. }
    assert (Forall (fun x => n_off x <= n_off r) G) as Hmax.
    { rewrite Hoff. rewrite EG. apply sorted_app_last. rewrite <- EG. exact Hs. }
    unfold reorder_last in Hp. destruct (remove1_in r G HrG) as [G' EG']. rewrite EG' in Hp.
    pose proof (remove1_perm _ _ _ EG') as Hperm.
    apply (expected_col_spec gap thr (G' ++ [r])).
    + eapply perm_trans. apply Permutation_app_comm. symmetry. exact Hperm.
    + apply sorted_chain. apply sorted_snoc. eapply remove1_sorted; eauto.
      pose proof (Permutation_Forall Hperm Hmax) as Hf. inversion Hf; assumption.
    + rewrite <- ln_column_expected. apply perm_b_sound. exact Hp.
Qed.

Lemma notes_corr_sound gap thr st O : RunC17.notes_corr gap thr st O = true -> NotesSpec gap thr st O.
Proof.
  unfold RunC17.notes_corr. intro Hb. apply andb_true_iff in Hb as [Hcols Hin].
  rewrite forallb_forall in Hcols, Hin. intro c.
  assert (Permutation (filter (in_col c) (isort st)) (filter (in_col c) st)) as Hp.
  { apply perm_filter. apply isort_perm. }
  destruct (in_dec Z.eq_dec c (columns (isort st))) as [Hi|Hn].
  - eapply ColumnSpec_perm. exact Hp. reflexivity.
    apply col_corr_sound. apply sorted_filter. apply isort_sorted. apply (Hcols c Hi).
  - assert (filter (in_col c) (isort st) = []) as E1. { apply filter_col_nil. rewrite <- columns_in. exact Hn. }
    rewrite E1 in Hp. apply Permutation_nil in Hp. rewrite Hp.
    assert (filter (in_col c) O = []) as E2.
    { apply filter_none. intros n Hn'. unfold in_col. apply Z.eqb_neq. intro Hc.
      specialize (Hin n Hn'). apply existsb_exists in Hin as [d [Hd Hd']]. apply Z.eqb_eq in Hd'. subst. contradiction. }
    rewrite E2. apply ColumnSpec_nil.
Qed.

Theorem corr_transfers m gap thr out :
  wf_chart m = true -> RunC17.corr m gap thr out = true -> SpecO m gap thr out.
Proof.
  intros Hw. unfold RunC17.corr. destruct (full_ln m gap thr) as [mo|] eqn:Em.
  2: { destruct (full_ln_defined m gap thr Hw) as [m' Hm]. congruence. }
  destruct out as [io|]; try discriminate. intro Hb.
  repeat (apply andb_true_iff in Hb as [Hb ?]).
  rename H into Hmulti, H0 into Hnotes, H1 into Hholds, H2 into Hhits, H3 into Hoth.
  apply (list_eqb_eq _ slot_eqb_eq) in Hb. apply (list_eqb_eq _ tl_eqb_eq) in Hoth.
  apply full_ln_sorted_inv in Em.
  exists io. split; [reflexivity|]. constructor.
  - eapply NotesSpec_perm. apply stacked_perm; assumption. reflexivity. apply notes_corr_sound. exact Hnotes.
  - intros n Hn. rewrite forallb_forall in Hhits. specialize (Hhits n Hn). unfold is_hit in Hhits. destruct (n_len n); congruence.
  - intros n Hn. rewrite forallb_forall in Hholds. specialize (Hholds n Hn). unfold is_hit in Hholds. destruct (n_len n); cbn in Hholds; congruence.
  - rewrite Hoth, Em. apply upd_others.
  - rewrite Hb, Em. apply upd_layout.
Qed.

(* ================================================================== completeness of the boolean oracle:
   specb decides the specification (a `false` on an implementation output is a genuine counter-example). *)
Lemma Fill_filled gap thr a b x : Fill gap thr a b x -> x = filled gap thr a b.
Proof.
  destruct x as [c o l]. unfold Fill, filled. cbn. intros (Hc & Ho & Hk). subst.
  destruct Hk as [[Hle Hl]|[Hlt Hl]]; subst.
  - destruct (n_off b - n_off a - gap <? thr) eqn:E; auto. apply Z.ltb_lt in E. lia.
  - destruct (n_off b - n_off a - gap <? thr) eqn:E; auto. apply Z.ltb_ge in E. lia.
Qed.

Lemma perm_b_complete a : forall b, Permutation a b -> perm_b a b = true.
Proof.
  induction a as [|x a IH]; intros b Hp.
  - apply Permutation_nil in Hp. subst. reflexivity.
  - cbn. assert (In x b) as Hi. { eapply Permutation_in. exact Hp. left. reflexivity. }
    destruct (remove1_in x b Hi) as [b' Eb]. rewrite Eb. apply IH.
    apply remove1_perm in Eb. eapply Permutation_cons_inv. eapply perm_trans. exact Hp. exact Eb.
Qed.

Lemma sorted_sortedb s : SortedOff s -> sortedb s = true.
Proof.
  induction 1 as [|x s Hs IH Hf]. reflexivity.
  cbn. destruct s as [|y s]. reflexivity.
  apply andb_true_iff. split; [|exact IH]. apply Z.leb_le. inversion Hf; assumption.
Qed.

Lemma sp_insert_sorted x l : SortedOff l -> SortedOff (sp_insert x l).
Proof.
  induction 1 as [|y l Hs IH Hf]; cbn.
  - constructor; constructor.
  - destruct (n_off y <? n_off x) eqn:E.
    + apply Z.ltb_lt in E. constructor. exact IH.
      eapply Permutation_Forall. symmetry. apply sp_insert_perm. constructor; auto. unfold le_off. lia.
    + apply Z.ltb_ge in E. constructor. constructor; auto.
      constructor. exact E. eapply Forall_impl; [|exact Hf]. unfold le_off. intros; lia.
Qed.
Lemma sp_sort_sorted l : SortedOff (sp_sort l).
Proof. induction l as [|x l IH]; cbn. constructor. apply sp_insert_sorted. exact IH. Qed.

Lemma sorted_offs s : SortedOff s -> StronglySorted Z.le (map n_off s).
Proof.
  induction 1 as [|x s Hs IH Hf]; cbn; constructor; auto.
  apply Forall_map. exact Hf.
Qed.

Lemma sorted_perm_unique (l1 : list Z) : forall l2,
  StronglySorted Z.le l1 -> StronglySorted Z.le l2 -> Permutation l1 l2 -> l1 = l2.
Proof.
  induction l1 as [|x l1 IH]; intros l2 H1 H2 Hp.
  - apply Permutation_nil in Hp. auto.
  - destruct l2 as [|y l2]. { apply Permutation_sym, Permutation_nil in Hp. discriminate. }
    apply StronglySorted_inv in H1 as [H1 F1]. apply StronglySorted_inv in H2 as [H2 F2].
    rewrite Forall_forall in F1, F2.
    assert (x = y) as ->.
    { assert (In y (x :: l1)) as Hy. { eapply Permutation_in. symmetry. exact Hp. left. reflexivity. }
      assert (In x (y :: l2)) as Hx. { eapply Permutation_in. exact Hp. left. reflexivity. }
      destruct Hy as [->|Hy]; auto. destruct Hx as [->|Hx]; auto.
      specialize (F1 y Hy). specialize (F2 x Hx). lia. }
    f_equal. apply IH; auto. eapply Permutation_cons_inv. exact Hp.
Qed.

(* the non-last outputs of a column depend on the processing order only through its offsets *)
Section Fills.
  Variables gap thr c : Z.
  Fixpoint fills (ts : list Z) (tl : Z) : list note :=
    match ts with
    | [] => []
    | t :: ts' =>
        let nx := match ts' with [] => tl | t' :: _ => t' end in
        mkNote c t (if nx - t - gap <? thr then None else Some (nx - t - gap)) :: fills ts' tl
    end.

  Lemma expected_fills s0 : forall cur r,
    (forall n, In n (cur :: s0) -> n_col n = c) ->
    expected gap thr cur (s0 ++ [r]) = fills (map n_off (cur :: s0)) (n_off r) ++ [r].
  Proof.
    induction s0 as [|b s0 IH]; intros cur r Hc.
    - cbn. unfold filled. rewrite (Hc cur (or_introl eq_refl)). reflexivity.
    - cbn [app expected]. rewrite IH by (intros n Hn; apply Hc; right; exact Hn).
      cbn [map fills app]. unfold filled. rewrite (Hc cur (or_introl eq_refl)). reflexivity.
  Qed.

  Lemma expected_col_fills s0 r :
    (forall n, In n s0 -> n_col n = c) ->
    expected_col gap thr (s0 ++ [r]) = fills (map n_off s0) (n_off r) ++ [r].
  Proof.
    destruct s0 as [|cur s0]; intro Hc. reflexivity.
    cbn [app expected_col]. apply expected_fills. exact Hc.
  Qed.
End Fills.

Lemma chain_sorted s : ChainOff s -> SortedOff s.
Proof.
  induction s as [|x s IH]; intro Hc. constructor.
  constructor. apply IH. eapply chain_tail. exact Hc.
  apply Forall_forall. intros y Hy. apply In_nth_error in Hy as [j Hj].
  apply (chain_mono (x :: s) Hc 0 (S j)); auto. lia.
Qed.

Lemma col_ok_complete gap thr c I O :
  (forall n, In n I -> n_col n = c) -> ColumnSpec gap thr I O -> col_ok gap thr I O = true.
Proof.
  intros Hcol (s & o & Hps & Hpo & Hlen & Hfill & Hlast).
  assert (ChainOff s) as Hch. { intros i a b Ha Hb. apply (Hfill i a b Ha Hb). }
  assert (o = expected_col gap thr s) as Eo.
  { apply nth_error_ext_eq. intro i. destruct (nth_error s i) as [a|] eqn:Ea.
    - destruct s as [|cur rest]. destruct i; discriminate.
      destruct (nth_error (cur :: rest) (S i)) as [b|] eqn:Eb.
      + destruct (Hfill i a b Ea Eb) as [_ (x & Hx & HF)]. rewrite Hx. apply Fill_filled in HF. subst x.
        symmetry. apply expected_nth_fill; assumption.
      + rewrite (Hlast i a Ea Eb). symmetry. apply expected_nth_last; assumption.
    - assert (length (expected_col gap thr s) = length s) as Hl2.
      { destruct s; cbn. reflexivity. apply expected_length. }
      apply nth_error_None in Ea. transitivity (@None note).
      apply nth_error_None. lia. symmetry. apply nth_error_None. lia. }
  unfold col_ok. destruct I as [|n0 I0] eqn:EI.
  - apply Permutation_sym, Permutation_nil in Hps. subst s. cbn in Eo. subst o. apply Permutation_nil in Hpo. subst O. reflexivity.
  - rewrite <- EI in *.
    (* the last note of the processing order *)
    destruct (rev s) as [|r rest] eqn:Er.
    { assert (s = []) by (rewrite <- (rev_involutive s), Er; reflexivity). subst s.
      apply Permutation_nil in Hps. rewrite Hps in EI. discriminate. }
    assert (s = rev rest ++ [r]) as Es. { rewrite <- (rev_involutive s), Er. reflexivity. }
    set (s0 := rev rest) in *.
    assert (In r I) as HrI. { eapply Permutation_in. exact Hps. rewrite Es. apply in_or_app. right. left. reflexivity. }
    destruct (remove1_in r I HrI) as [I' EI'].
    assert (Permutation I' s0) as Hp0.
    { apply remove1_perm in EI'. eapply Permutation_cons_inv. eapply perm_trans. symmetry. exact EI'.
      eapply perm_trans. symmetry. exact Hps. rewrite Es. symmetry. apply Permutation_cons_append. }
    apply existsb_exists. exists r. split; [exact HrI|]. rewrite EI'. cbn zeta.
    assert (SortedOff s) as Hss by (apply chain_sorted; exact Hch).
    assert (Forall (fun x => n_off x <= n_off r) s) as Hmax. { rewrite Es. apply sorted_app_last. rewrite <- Es. exact Hss. }
    assert (SortedOff (sp_sort I' ++ [r])) as Hs'.
    { apply sorted_snoc. apply sp_sort_sorted.
      eapply Permutation_Forall. symmetry. eapply perm_trans. apply sp_sort_perm. exact Hp0.
      rewrite Es in Hmax. apply Forall_app in Hmax. tauto. }
    apply andb_true_iff. split. apply sorted_sortedb. exact Hs'.
    apply perm_b_complete.
    assert (forall n, In n s0 -> n_col n = c) as Hc0.
    { intros n Hn. apply Hcol. eapply Permutation_in. exact Hps. rewrite Es. apply in_or_app. left. exact Hn. }
    assert (forall n, In n (sp_sort I') -> n_col n = c) as Hc1.
    { intros n Hn. apply Hc0. eapply Permutation_in. eapply perm_trans. apply sp_sort_perm. exact Hp0. exact Hn. }
    rewrite (expected_col_fills gap thr c _ r Hc1).
    assert (map n_off (sp_sort I') = map n_off s0) as Eoffs.
    { apply sorted_perm_unique.
      - apply sorted_offs. apply sp_sort_sorted.
      - apply sorted_offs. rewrite Es in Hss. clear - Hss. induction s0; cbn in *. constructor.
        apply StronglySorted_inv in Hss as [H1 H2]. constructor. apply IHs0; exact H1. apply Forall_app in H2. tauto.
      - apply Permutation_map. eapply perm_trans. apply sp_sort_perm. exact Hp0. }
    rewrite Eoffs, <- (expected_col_fills gap thr c _ r Hc0), <- Es, <- Eo. exact Hpo.
Qed.

Lemma dedup_incl x l : In x (dedup l) -> In x l.
Proof.
  induction l as [|y l IH]; cbn; intro Hi. destruct Hi.
  destruct (existsb (Z.eqb y) l). right; auto. destruct Hi as [->|Hi]. left; reflexivity. right; auto.
Qed.

Lemma notes_ok_complete gap thr I O : NotesSpec gap thr I O -> notes_ok gap thr I O = true.
Proof.
  intro Hs. unfold notes_ok. apply forallb_forall. intros c _.
  apply (col_ok_complete gap thr c). intros n Hn. apply filter_col_in in Hn. tauto. apply Hs.
Qed.

Lemma list_eqb_refl {A} (f : A -> A -> bool) : (forall x, f x x = true) -> forall l, list_eqb f l l = true.
Proof. intros Hf. induction l; cbn; auto. rewrite Hf. exact IHl. Qed.
Lemma slot_eqb_refl s : slot_eqb s s = true. Proof. destruct s; reflexivity. Qed.
Lemma tl_eqb_refl l : tl_eqb l l = true.
Proof.
  unfold tl_eqb. rewrite slot_eqb_refl. destruct (tl_class l); cbn;
  rewrite (list_eqb_refl _ note_eqb_refl), (list_eqb_refl _ Z.eqb_refl); reflexivity.
Qed.

Theorem specb_complete m gap thr o : SpecO m gap thr o -> specb m gap thr o = true.
Proof.
  intros (m' & -> & [Hn Hh Ho Hoth Hlay]). unfold specb.
  rewrite (notes_ok_complete _ _ _ _ Hn), Hoth, Hlay.
  rewrite (list_eqb_refl _ tl_eqb_refl), (list_eqb_refl _ slot_eqb_refl).
  assert (forallb is_hit (slot_notes SHits m') = true) as ->.
  { apply forallb_forall. intros n Hi. unfold is_hit. rewrite (Hh n Hi). reflexivity. }
  assert (forallb (fun n => negb (is_hit n)) (slot_notes SHolds m') = true) as ->.
  { apply forallb_forall. intros n Hi. unfold is_hit. specialize (Ho n Hi). destruct (n_len n); cbn; congruence. }
  reflexivity.
Qed.

Theorem specb_decides m gap thr o : specb m gap thr o = true <-> SpecO m gap thr o.
Proof. split. apply specb_sound. apply specb_complete. Qed.
