(* C17 — proofs about the model of full_ln (Algo/FullLN.v) and its specification (Algo/FullLNSpec.v). *)
From Coq Require Import ZArith List Bool Permutation Sorted Lia.
From RV Require Import Algo.FullLN Algo.FullLNSpec.
Import ListNotations.
Open Scope Z_scope.

(* ================================================================== generic list facts *)
Lemma perm_filter {A} (f : A -> bool) (l l' : list A) :
  Permutation l l' -> Permutation (filter f l) (filter f l').
Proof.
  induction 1; cbn.
  - constructor.
  - destruct (f x); auto.
  - destruct (f x), (f y); auto. apply perm_swap.
  - eapply perm_trans; eauto.
Qed.

Lemma nth_error_ext_eq {A} (a b : list A) :
  (forall i, nth_error a i = nth_error b i) -> a = b.
Proof.
  revert b. induction a as [|x a IH]; intros [|y b] Hn; auto.
  - specialize (Hn 0%nat). discriminate.
  - specialize (Hn 0%nat). discriminate.
  - f_equal.
    + specialize (Hn 0%nat). cbn in Hn. congruence.
    + apply IH. intro i. exact (Hn (S i)).
Qed.

Lemma nth_error_Some_lt {A} (l : list A) i x : nth_error l i = Some x -> (i < length l)%nat.
Proof. intro Hx. apply nth_error_Some. congruence. Qed.

Lemma nth_error_lt_Some {A} (l : list A) i : (i < length l)%nat -> exists x, nth_error l i = Some x.
Proof. intro Hl. destruct (nth_error l i) eqn:E; eauto. apply nth_error_None in E. lia. Qed.

Lemma list_eqb_eq {A} (f : A -> A -> bool) :
  (forall x y, f x y = true -> x = y) -> forall a b, list_eqb f a b = true -> a = b.
Proof.
  intros Hf. induction a as [|x a IH]; intros [|y b] Hb; cbn in Hb; try discriminate; auto.
  apply andb_true_iff in Hb as [H1 H2]. f_equal; auto.
Qed.

(* ================================================================== notes *)
Lemma note_eqb_eq a b : note_eqb a b = true -> a = b.
Proof.
  destruct a as [c o l], b as [c' o' l']. unfold note_eqb. cbn.
  intro Hb. apply andb_true_iff in Hb as [Hb H3]. apply andb_true_iff in Hb as [H1 H2].
  apply Z.eqb_eq in H1, H2. subst.
  destruct l, l'; try discriminate; auto. apply Z.eqb_eq in H3. subst. reflexivity.
Qed.

Lemma note_eqb_refl a : note_eqb a a = true.
Proof.
  destruct a as [c o l]. unfold note_eqb. cbn. rewrite !Z.eqb_refl. destruct l; auto. apply Z.eqb_refl.
Qed.

Lemma remove1_perm x l l' : remove1 x l = Some l' -> Permutation l (x :: l').
Proof.
  revert l'. induction l as [|y l IH]; intros l' Hr; cbn in Hr; try discriminate.
  destruct (note_eqb x y) eqn:E.
  - apply note_eqb_eq in E. inversion Hr. subst. reflexivity.
  - destruct (remove1 x l) eqn:E2; try discriminate. inversion Hr. subst.
    eapply perm_trans. apply perm_skip. apply IH. reflexivity. apply perm_swap.
Qed.

Lemma remove1_in x l : In x l -> exists l', remove1 x l = Some l'.
Proof.
  induction l as [|y l IH]; intros Hi. destruct Hi.
  cbn. destruct (note_eqb x y) eqn:E; eauto.
  destruct Hi as [->|Hi]. rewrite note_eqb_refl in E. discriminate.
  destruct (IH Hi) as [l' ->]. eauto.
Qed.

Lemma perm_b_sound a : forall b, perm_b a b = true -> Permutation a b.
Proof.
  induction a as [|x a IH]; intros b Hb; cbn in Hb.
  - destruct b; try discriminate. constructor.
  - destruct (remove1 x b) eqn:E; try discriminate.
    apply remove1_perm in E. eapply perm_trans. apply perm_skip. apply IH. exact Hb.
    symmetry. exact E.
Qed.

Lemma perm_b_refl a : perm_b a a = true.
Proof. induction a as [|x a IH]; cbn; auto. rewrite note_eqb_refl. exact IH. Qed.

(* ================================================================== sortedness by offset *)
Definition le_off (a b : note) : Prop := n_off a <= n_off b.
Definition SortedOff (s : list note) : Prop := StronglySorted le_off s.
(* consecutive elements are ordered *)
Definition ChainOff (s : list note) : Prop :=
  forall i a b, nth_error s i = Some a -> nth_error s (S i) = Some b -> n_off a <= n_off b.

Lemma sorted_chain s : SortedOff s -> ChainOff s.
Proof.
  induction 1 as [|x s Hs IH Hf]; intros i a b Ha Hb.
  - destruct i; discriminate.
  - destruct i as [|i].
    + cbn in Ha, Hb. inversion Ha; subst. destruct s as [|y s]; try discriminate. cbn in Hb. inversion Hb; subst.
      inversion Hf; subst. assumption.
    + cbn in Ha. exact (IH i a b Ha Hb).
Qed.

Lemma chain_tail x s : ChainOff (x :: s) -> ChainOff s.
Proof. intros Hc i a b Ha Hb. exact (Hc (S i) a b Ha Hb). Qed.

Lemma chain_mono s : ChainOff s -> forall i j a b, (i <= j)%nat ->
  nth_error s i = Some a -> nth_error s j = Some b -> n_off a <= n_off b.
Proof.
  intros Hc i j. induction j as [|j IH]; intros a b Hij Ha Hb.
  - assert (i = 0%nat) by lia. subst. rewrite Ha in Hb. inversion Hb. lia.
  - destruct (Nat.eq_dec i (S j)) as [->|Hne].
    + rewrite Ha in Hb. inversion Hb. lia.
    + destruct (nth_error_lt_Some s j) as [m Hm]. { apply nth_error_Some_lt in Hb. lia. }
      assert (n_off a <= n_off m) by (apply IH; auto; lia).
      assert (n_off m <= n_off b) by (eapply Hc; eauto). lia.
Qed.

Lemma sortedb_chain s : sortedb s = true -> ChainOff s.
Proof.
  induction s as [|x s IH]; intros Hb i a b Ha Hn.
  - destruct i; discriminate.
  - cbn in Hb. destruct s as [|y s].
    + destruct i; cbn in Hn; discriminate.
    + apply andb_true_iff in Hb as [H1 H2]. destruct i as [|i].
      * cbn in Ha, Hn. inversion Ha; inversion Hn; subst. apply Z.leb_le. exact H1.
      * exact (IH H2 i a b Ha Hn).
Qed.

Lemma sorted_filter f s : SortedOff s -> SortedOff (filter f s).
Proof.
  induction 1 as [|x s Hs IH Hf]; cbn. constructor.
  destruct (f x); auto. constructor; auto.
  clear - Hf. induction Hf; cbn. constructor. destruct (f x0); auto.
Qed.

Lemma insert_off_perm x l : Permutation (insert_off x l) (x :: l).
Proof.
  induction l as [|y l IH]; cbn. reflexivity.
  destruct (n_off x <=? n_off y). reflexivity.
  eapply perm_trans. apply perm_skip. exact IH. apply perm_swap.
Qed.
Lemma isort_perm l : Permutation (isort l) l.
Proof.
  induction l as [|x l IH]; cbn. constructor.
  eapply perm_trans. apply insert_off_perm. apply perm_skip. exact IH.
Qed.
Lemma insert_off_sorted x l : SortedOff l -> SortedOff (insert_off x l).
Proof.
  induction 1 as [|y l Hs IH Hf]; cbn.
  - constructor; constructor.
  - destruct (n_off x <=? n_off y) eqn:E.
    + apply Z.leb_le in E. constructor. constructor; auto.
      constructor. exact E. eapply Forall_impl; [|exact Hf]. unfold le_off. intros; lia.
    + apply Z.leb_gt in E. constructor. exact IH.
      eapply Permutation_Forall. symmetry. apply insert_off_perm.
      constructor; auto. unfold le_off. lia.
Qed.
Lemma isort_sorted l : SortedOff (isort l).
Proof. induction l as [|x l IH]; cbn. constructor. apply insert_off_sorted. exact IH. Qed.

Lemma sp_insert_perm x l : Permutation (sp_insert x l) (x :: l).
Proof.
  induction l as [|y l IH]; cbn. reflexivity.
  destruct (n_off y <? n_off x). 2: reflexivity.
  eapply perm_trans. apply perm_skip. exact IH. apply perm_swap.
Qed.
Lemma sp_sort_perm l : Permutation (sp_sort l) l.
Proof.
  induction l as [|x l IH]; cbn. constructor.
  eapply perm_trans. apply sp_insert_perm. apply perm_skip. exact IH.
Qed.

(* ================================================================== the expected result of a processing order *)
Lemma filled_Fill gap thr a b : Fill gap thr a b (filled gap thr a b).
Proof.
  unfold Fill, filled. cbn. split; [reflexivity|]. split; [reflexivity|].
  destruct (n_off b - n_off a - gap <? thr) eqn:E.
  - apply Z.ltb_lt in E. right. auto.
  - apply Z.ltb_ge in E. left. auto.
Qed.

Lemma expected_length gap thr rest : forall cur, length (expected gap thr cur rest) = S (length rest).
Proof. induction rest as [|b rest IH]; intros cur; cbn; auto. Qed.

Lemma expected_nth_fill gap thr rest : forall cur i a b,
  nth_error (cur :: rest) i = Some a -> nth_error (cur :: rest) (S i) = Some b ->
  nth_error (expected gap thr cur rest) i = Some (filled gap thr a b).
Proof.
  induction rest as [|c rest IH]; intros cur i a b Ha Hb.
  - destruct i; cbn in Hb; discriminate.
  - destruct i as [|i].
    + cbn in Ha, Hb. inversion Ha; inversion Hb; subst. reflexivity.
    + cbn [expected]. cbn [nth_error]. apply IH; assumption.
Qed.

Lemma expected_nth_last gap thr rest : forall cur i a,
  nth_error (cur :: rest) i = Some a -> nth_error (cur :: rest) (S i) = None ->
  nth_error (expected gap thr cur rest) i = Some a.
Proof.
  induction rest as [|c rest IH]; intros cur i a Ha Hn.
  - destruct i as [|i]. cbn in Ha. inversion Ha. reflexivity. destruct i; discriminate.
  - destruct i as [|i]. cbn in Hn. discriminate.
    cbn [expected]. cbn [nth_error]. apply IH; assumption.
Qed.

(* a sorted order and its expected result witness the column specification *)
Lemma expected_col_spec gap thr s I O :
  Permutation s I -> ChainOff s -> Permutation (expected_col gap thr s) O -> ColumnSpec gap thr I O.
Proof.
  intros Hp Hc Ho. exists s, (expected_col gap thr s). split; [exact Hp|]. split; [exact Ho|].
  destruct s as [|cur rest].
  - cbn. split; [reflexivity|]. split.
    + intros i a b Ha. destruct i; discriminate.
    + intros i a Ha. destruct i; discriminate.
  - cbn [expected_col]. split. apply expected_length. split.
    + intros i a b Ha Hb. split. eapply Hc; eauto.
      exists (filled gap thr a b). split. apply expected_nth_fill; assumption. apply filled_Fill.
    + intros i a Ha Hn. apply expected_nth_last; assumption.
Qed.

(* ================================================================== soundness of the boolean oracle *)
Lemma col_ok_sound gap thr I O : col_ok gap thr I O = true -> ColumnSpec gap thr I O.
Proof.
  unfold col_ok. destruct I as [|n I].
  - destruct O; try discriminate. intros _. apply (expected_col_spec gap thr []); try constructor.
    intros i a b Ha. destruct i; discriminate.
  - intro Hb. apply existsb_exists in Hb as [r [Hin Hb]].
    destruct (remove1 r (n :: I)) as [I'|] eqn:E; try discriminate.
    apply andb_true_iff in Hb as [Hs Hp].
    apply (expected_col_spec gap thr (sp_sort I' ++ [r])).
    + eapply perm_trans. apply Permutation_app_comm. cbn.
      eapply perm_trans. apply perm_skip. apply sp_sort_perm. symmetry. apply remove1_perm. exact E.
    + apply sortedb_chain. exact Hs.
    + apply perm_b_sound. exact Hp.
Qed.

Lemma dedup_in x l : In x l -> In x (dedup l).
Proof.
  induction l as [|y l IH]; intros Hi. destruct Hi.
  cbn. destruct (existsb (Z.eqb y) l) eqn:E.
  - destruct Hi as [->|Hi]; auto. apply IH. apply existsb_exists in E as [z [Hz Hy]]. apply Z.eqb_eq in Hy. subst. exact Hz.
  - destruct Hi as [->|Hi]. left; reflexivity. right; auto.
Qed.

Lemma filter_col_nil c l : ~ In c (map n_col l) -> filter (in_col c) l = [].
Proof.
  induction l as [|x l IH]; intros Hn; cbn; auto.
  unfold in_col at 1. destruct (n_col x =? c) eqn:E.
  - apply Z.eqb_eq in E. exfalso. apply Hn. left. exact E.
  - apply IH. intro Hi. apply Hn. right. exact Hi.
Qed.

Lemma ColumnSpec_nil gap thr : ColumnSpec gap thr [] [].
Proof. apply col_ok_sound. reflexivity. Qed.

Lemma notes_ok_sound gap thr I O : notes_ok gap thr I O = true -> NotesSpec gap thr I O.
Proof.
  intros Hb c. unfold notes_ok in Hb. rewrite forallb_forall in Hb.
  destruct (in_dec Z.eq_dec c (map n_col (I ++ O))) as [Hi|Hn].
  - apply col_ok_sound. apply Hb. apply dedup_in. exact Hi.
  - rewrite map_app in Hn. rewrite !filter_col_nil. apply ColumnSpec_nil.
    intro; apply Hn; apply in_or_app; auto. intro; apply Hn; apply in_or_app; auto.
Qed.

Lemma slot_eqb_eq a b : slot_eqb a b = true -> a = b.
Proof. destruct a, b; cbn; congruence. Qed.
Lemma class_eqb_eq a b : class_eqb a b = true -> a = b.
Proof. destruct a, b; cbn; congruence. Qed.
Lemma tl_eqb_eq a b : tl_eqb a b = true -> a = b.
Proof.
  destruct a as [s c y n i], b as [s' c' y' n' i']. unfold tl_eqb. cbn. intro Hb.
  repeat (apply andb_true_iff in Hb as [Hb ?]).
  apply slot_eqb_eq in Hb. apply class_eqb_eq in H2. apply eqb_prop in H1.
  apply (list_eqb_eq _ note_eqb_eq) in H0. apply (list_eqb_eq Z.eqb (fun x y => proj1 (Z.eqb_eq x y))) in H.
  congruence.
Qed.

Theorem specb_sound m gap thr o : specb m gap thr o = true -> SpecO m gap thr o.
Proof.
  unfold specb. destruct o as [m'|]; try discriminate. intro Hb.
  repeat (apply andb_true_iff in Hb as [Hb ?]).
  exists m'. split; [reflexivity|]. constructor.
  - apply notes_ok_sound. exact Hb.
  - intros n Hn. rewrite forallb_forall in H2. specialize (H2 n Hn). unfold is_hit in H2. destruct (n_len n); congruence.
  - intros n Hn. rewrite forallb_forall in H1. specialize (H1 n Hn). unfold is_hit in H1. destruct (n_len n); cbn in H1; congruence.
  - apply (list_eqb_eq _ tl_eqb_eq). exact H0.
  - apply (list_eqb_eq _ slot_eqb_eq). exact H.
Qed.

(* ================================================================== consequences of the specification *)
Lemma key_dec : forall x y : Z * Z, {x = y} + {x <> y}.
Proof. decide equality; apply Z.eq_dec. Qed.

Lemma column_keys gap thr I O : ColumnSpec gap thr I O -> Permutation (map key I) (map key O).
Proof.
  intros (s & o & Hs & Ho & Hlen & Hfill & Hlast).
  assert (map key s = map key o) as Heq.
  { apply nth_error_ext_eq. intro i. rewrite !nth_error_map.
    destruct (nth_error s i) as [a|] eqn:Ea.
    - destruct (nth_error s (S i)) as [b|] eqn:Eb.
      + destruct (Hfill i a b Ea Eb) as [_ (x & Hx & Hc & Hoff & _)]. rewrite Hx. cbn. unfold key. congruence.
      + rewrite (Hlast i a Ea Eb). reflexivity.
    - apply nth_error_None in Ea. rewrite <- Hlen in Ea. apply nth_error_None in Ea. rewrite Ea. reflexivity. }
  eapply perm_trans. apply Permutation_map. symmetry. exact Hs.
  rewrite Heq. apply Permutation_map. exact Ho.
Qed.

Lemma count_key_filter c t l :
  count_occ key_dec (map key l) (c, t) = count_occ key_dec (map key (filter (in_col c) l)) (c, t).
Proof.
  induction l as [|x l IH]; cbn [map filter]. reflexivity.
  unfold in_col at 1. destruct (n_col x =? c) eqn:E.
  - cbn [map]. cbn [count_occ]. destruct (key_dec (key x) (c, t)); rewrite IH; reflexivity.
  - apply Z.eqb_neq in E. rewrite count_occ_cons_neq. exact IH. unfold key. congruence.
Qed.

Theorem count_of_spec gap thr I O : NotesSpec gap thr I O -> CountKept I O.
Proof.
  intro Hs. unfold CountKept. apply (Permutation_count_occ key_dec). intros [c t].
  rewrite (count_key_filter c t I), (count_key_filter c t O).
  apply (Permutation_count_occ key_dec). eapply column_keys. apply Hs.
Qed.

Lemma filter_col_in c l n : In n (filter (in_col c) l) <-> In n l /\ n_col n = c.
Proof. rewrite filter_In. unfold in_col. rewrite Z.eqb_eq. tauto. Qed.

Theorem no_overlap_of_spec gap thr I O : 0 <= gap -> NotesSpec gap thr I O -> NoOverlap I O.
Proof.
  intros Hg Hs h l n Hh Hl Hn Hc Hlt.
  destruct (Hs (n_col h)) as (s & o & Hps & Hpo & Hlen & Hfill & Hlast).
  assert (ChainOff s) as Hch. { intros i a b Ha Hb. apply (Hfill i a b Ha Hb). }
  assert (In h o) as Hho. { eapply Permutation_in. symmetry. exact Hpo. apply filter_col_in. auto. }
  assert (In n s) as Hns. { eapply Permutation_in. symmetry. exact Hps. apply filter_col_in. auto. }
  apply In_nth_error in Hho as [i Hi]. apply In_nth_error in Hns as [j Hj].
  destruct (nth_error_lt_Some s i) as [a Ha]. { rewrite <- Hlen. eapply nth_error_Some_lt. exact Hi. }
  destruct (nth_error s (S i)) as [b|] eqn:Eb.
  - destruct (Hfill i a b Ha Eb) as [Hab (x & Hx & _ & Hoff & Hk)].
    rewrite Hi in Hx. inversion Hx; subst x.
    destruct Hk as [[_ Hk]|[_ Hk]]; rewrite Hl in Hk; try discriminate. inversion Hk; subst l.
    destruct (le_lt_dec j i) as [Hji|Hji].
    + assert (n_off n <= n_off a) by (eapply (chain_mono s Hch j i); eauto). lia.
    + assert (n_off b <= n_off n) by (eapply (chain_mono s Hch (S i) j); eauto). lia.
  - rewrite (Hlast i a Ha Eb) in Hi. inversion Hi; subst a.
    assert (j <= i)%nat. { apply nth_error_None in Eb. apply nth_error_Some_lt in Hj. lia. }
    assert (n_off n <= n_off h) by (eapply (chain_mono s Hch j i); eauto). lia.
Qed.

Theorem last_kept_of_spec gap thr I O : NotesSpec gap thr I O -> LastKept I O.
Proof.
  intros Hs c Hne.
  destruct (Hs c) as (s & o & Hps & Hpo & Hlen & Hfill & Hlast).
  assert (ChainOff s) as Hch. { intros i a b Ha Hb. apply (Hfill i a b Ha Hb). }
  assert (length s <> 0%nat) as Hl0.
  { intro H0. apply length_zero_iff_nil in H0. subst s. apply Permutation_nil in Hps. contradiction. }
  destruct (nth_error_lt_Some s (length s - 1)) as [a Ha]. lia.
  assert (nth_error s (S (length s - 1)) = None) as Hn. { apply nth_error_None. lia. }
  assert (In a (filter (in_col c) I)) as Hai. { eapply Permutation_in. exact Hps. eapply nth_error_In. exact Ha. }
  apply filter_col_in in Hai as [Hai Hac].
  exists a. repeat split; auto.
  - intros n Hn1 Hn2. assert (In n s) as Hns. { eapply Permutation_in. symmetry. exact Hps. apply filter_col_in. auto. }
    apply In_nth_error in Hns as [j Hj].
    eapply (chain_mono s Hch j (length s - 1)); eauto. apply nth_error_Some_lt in Hj. lia.
  - assert (In a (filter (in_col c) O)) as Hao. { eapply Permutation_in. exact Hpo. eapply nth_error_In. apply (Hlast _ _ Ha Hn). }
    apply filter_col_in in Hao. tauto.
Qed.

(* ================================================================== the model's loop is the expected result *)
Lemma ln_column_expected gap thr g : ln_column gap thr g = expected_col gap thr g.
Proof.
  induction g as [|n rest IH]. reflexivity.
  destruct rest as [|n' r].
  - cbn. destruct n; reflexivity.
  - change (ln_column gap thr (n :: n' :: r))
      with (mkNote (n_col n) (n_off n) (if thr <=? n_off n' - n_off n - gap then Some (n_off n' - n_off n - gap) else None)
            :: ln_column gap thr (n' :: r)).
    rewrite IH. cbn [expected_col expected]. f_equal.
    unfold filled. cbn zeta. rewrite Z.leb_antisym. destruct (n_off n' - n_off n - gap <? thr); reflexivity.
Qed.

Lemma ln_column_cols gap thr c g :
  Forall (fun n => n_col n = c) g -> Forall (fun n => n_col n = c) (ln_column gap thr g).
Proof.
  induction 1 as [|n rest Hn Hr IH]. constructor.
  destruct rest as [|n' r].
  - cbn. constructor; auto.
  - change (ln_column gap thr (n :: n' :: r))
      with (mkNote (n_col n) (n_off n) (if thr <=? n_off n' - n_off n - gap then Some (n_off n' - n_off n - gap) else None)
            :: ln_column gap thr (n' :: r)).
    constructor; auto.
Qed.

(* ---- groupby keys *)
Lemma insert_col_in x c l : In x (insert_col c l) <-> x = c \/ In x l.
Proof.
  induction l as [|d l IH]; cbn. intuition.
  destruct (c <? d). cbn. intuition.
  destruct (c =? d) eqn:E. apply Z.eqb_eq in E. subst. cbn. intuition.
  cbn. rewrite IH. intuition.
Qed.
Lemma insert_col_sorted c l : StronglySorted Z.lt l -> StronglySorted Z.lt (insert_col c l).
Proof.
  induction 1 as [|d l Hs IH Hf]; cbn. constructor; constructor.
  destruct (c <? d) eqn:E1.
  - apply Z.ltb_lt in E1. constructor. constructor; auto. constructor; auto.
    eapply Forall_impl; [|exact Hf]. intros; lia.
  - destruct (c =? d) eqn:E2. constructor; auto.
    apply Z.ltb_ge in E1. apply Z.eqb_neq in E2. constructor; auto.
    apply Forall_forall. intros x Hx. apply insert_col_in in Hx as [->|Hx]. lia.
    rewrite Forall_forall in Hf. auto.
Qed.
Lemma columns_sorted s : StronglySorted Z.lt (columns s).
Proof. unfold columns. induction (map n_col s); cbn. constructor. apply insert_col_sorted. assumption. Qed.
Lemma columns_in c s : In c (columns s) <-> In c (map n_col s).
Proof. unfold columns. induction (map n_col s); cbn. tauto. rewrite insert_col_in, IHl. intuition. Qed.

Lemma filter_all {A} (p : A -> bool) l : (forall x, In x l -> p x = true) -> filter p l = l.
Proof. induction l; cbn; intros Hp; auto. rewrite Hp by auto. f_equal. auto. Qed.
Lemma filter_none {A} (p : A -> bool) l : (forall x, In x l -> p x = false) -> filter p l = [].
Proof. induction l; cbn; intros Hp; auto. rewrite Hp by auto. auto. Qed.

Section Rows.
  Variable f : Z -> list note.
  Hypothesis Hf : forall c n, In n (f c) -> n_col n = c.

  Lemma filter_chunk_same c : filter (in_col c) (f c) = f c.
  Proof. apply filter_all. intros n Hn. unfold in_col. apply Z.eqb_eq. auto. Qed.
  Lemma filter_chunk_other c c' : c' <> c -> filter (in_col c) (f c') = [].
  Proof. intro Hne. apply filter_none. intros n Hn. unfold in_col. apply Z.eqb_neq. rewrite (Hf _ _ Hn). exact Hne. Qed.

  Lemma filter_rows_absent c cs : ~ In c cs -> filter (in_col c) (flat_map f cs) = [].
  Proof.
    induction cs as [|d cs IH]; intro Hn; cbn; auto.
    rewrite filter_app, filter_chunk_other, IH; auto. intro; apply Hn; right; auto. intro; apply Hn; left; auto.
  Qed.
  Lemma filter_rows_present c cs : StronglySorted Z.lt cs -> In c cs -> filter (in_col c) (flat_map f cs) = f c.
  Proof.
    induction 1 as [|d cs Hs IH Hfa]; intros Hi. destruct Hi.
    cbn. rewrite filter_app. destruct (Z.eq_dec d c) as [->|Hne].
    - rewrite filter_chunk_same, filter_rows_absent. apply app_nil_r.
      intro Hc. rewrite Forall_forall in Hfa. specialize (Hfa c Hc). lia.
    - rewrite filter_chunk_other by exact Hne. destruct Hi as [->|Hi]. congruence. cbn. auto.
  Qed.
End Rows.

Lemma group_cols c s : Forall (fun n => n_col n = c) (group c s).
Proof. apply Forall_forall. intros n Hn. unfold group in Hn. apply filter_In in Hn as [_ Hn]. apply Z.eqb_eq. exact Hn. Qed.

Lemma group_is_filter c s : group c s = filter (in_col c) s.
Proof. reflexivity. Qed.

(* the rows produced after the sort, for any sorted permutation of the stacked frame, satisfy the note rule *)
Theorem ln_rows_spec gap thr st s :
  Permutation s st -> SortedOff s -> NotesSpec gap thr st (ln_rows gap thr s).
Proof.
  intros Hp Hs c. apply (expected_col_spec gap thr (group c s)).
  - rewrite group_is_filter. apply perm_filter. exact Hp.
  - apply sorted_chain. rewrite group_is_filter. apply sorted_filter. exact Hs.
  - rewrite <- ln_column_expected. unfold ln_rows.
    assert (forall c' n, In n (ln_column gap thr (group c' s)) -> n_col n = c') as Hf.
    { intros c' n Hn. pose proof (ln_column_cols gap thr c' _ (group_cols c' s)) as Hall.
      rewrite Forall_forall in Hall. auto. }
    destruct (in_dec Z.eq_dec c (columns s)) as [Hi|Hn].
    + rewrite (filter_rows_present _ Hf c (columns s) (columns_sorted s) Hi). reflexivity.
    + rewrite (filter_rows_absent _ Hf c (columns s) Hn).
      rewrite group_is_filter, filter_col_nil. constructor. rewrite <- columns_in. exact Hn.
Qed.

(* ================================================================== chart level *)
Definition upd (h o : list note) (l : tlist) : tlist :=
  match tl_slot l with SHits => set_rows l h | SHolds => set_rows l o | SOther => l end.

Lemma rebuild_some y rows h : rebuild y rows = Some h -> h = rows.
Proof. unfold rebuild. destruct rows; [|destruct y]; congruence. Qed.

Lemma full_ln_sorted_inv m s gap thr m' :
  full_ln_sorted m s gap thr = Some m' ->
  m' = map (upd (filter is_hit (ln_rows gap thr s)) (filter (fun n => negb (is_hit n)) (ln_rows gap thr s))) m.
Proof.
  unfold full_ln_sorted. destruct (find_slot SHits m); try discriminate. destruct (find_slot SHolds m); try discriminate.
  destruct (rebuild _ (filter is_hit _)) eqn:E1; try discriminate.
  destruct (rebuild _ (filter (fun n => negb (is_hit n)) _)) eqn:E2; try discriminate.
  apply rebuild_some in E1, E2. subst. intro H. inversion H. reflexivity.
Qed.

Lemma upd_slot h o x : tl_slot (upd h o x) = tl_slot x.
Proof. unfold upd. destruct (tl_slot x) eqn:E; cbn; auto. Qed.
Lemma upd_other h o x : tl_slot x = SOther -> upd h o x = x.
Proof. unfold upd. intros ->. reflexivity. Qed.
Lemma upd_notes_hits h o x : tl_slot x = SHits -> tl_notes (upd h o x) = h.
Proof. unfold upd. intros ->. reflexivity. Qed.
Lemma upd_notes_holds h o x : tl_slot x = SHolds -> tl_notes (upd h o x) = o.
Proof. unfold upd. intros ->. reflexivity. Qed.

Lemma upd_others h o m : others (map (upd h o) m) = others m.
Proof.
  unfold others, slot_lists. induction m as [|x m IH]; cbn [map filter]; auto.
  rewrite upd_slot. destruct (slot_eqb (tl_slot x) SOther) eqn:E; auto.
  apply slot_eqb_eq in E. rewrite (upd_other h o x E). f_equal. exact IH.
Qed.
Lemma upd_layout h o m : map tl_slot (map (upd h o) m) = map tl_slot m.
Proof. induction m as [|x m IH]; cbn [map]; auto. rewrite upd_slot. f_equal; auto. Qed.
Lemma upd_hits h o m : slot_notes SHits (map (upd h o) m) = flat_map (fun _ => h) (slot_lists SHits m).
Proof.
  unfold slot_notes, slot_lists. induction m as [|x m IH]; cbn [map filter]; auto.
  rewrite upd_slot. destruct (slot_eqb (tl_slot x) SHits) eqn:E; auto.
  apply slot_eqb_eq in E. cbn [flat_map]. rewrite (upd_notes_hits h o x E). f_equal. exact IH.
Qed.
Lemma upd_holds h o m : slot_notes SHolds (map (upd h o) m) = flat_map (fun _ => o) (slot_lists SHolds m).
Proof.
  unfold slot_notes, slot_lists. induction m as [|x m IH]; cbn [map filter]; auto.
  rewrite upd_slot. destruct (slot_eqb (tl_slot x) SHolds) eqn:E; auto.
  apply slot_eqb_eq in E. cbn [flat_map]. rewrite (upd_notes_holds h o x E). f_equal. exact IH.
Qed.
Lemma flat_const_one {A B} (l : list A) (h : list B) : length l = 1%nat -> flat_map (fun _ => h) l = h.
Proof. destruct l as [|x [|y l]]; cbn; try discriminate. intros _. apply app_nil_r. Qed.

(* what wf_chart gives *)
Lemma wf_chart_inv m : wf_chart m = true ->
  count_slot SHits m = 1%nat /\ count_slot SHolds m = 1%nat /\
  (forall l, In l m -> tl_slot l = SHits -> tl_class l = CHit /\ forall n, In n (tl_notes l) -> n_len n = None) /\
  (forall l, In l m -> tl_slot l = SHolds -> tl_class l = CHold) /\
  (forall l, In l m -> tl_class l = CNone -> tl_notes l = []).
Proof.
  unfold wf_chart. intro Hb. repeat (apply andb_true_iff in Hb as [Hb ?]).
  apply Nat.eqb_eq in Hb, H4. repeat split; auto.
  - rewrite forallb_forall in H3. apply class_eqb_eq. apply H3. unfold slot_lists. apply filter_In. split; auto. rewrite H6. reflexivity.
  - intros n Hn. rewrite forallb_forall in H1. assert (is_hit n = true) as Hh.
    { apply H1. unfold slot_notes. apply in_flat_map. exists l. split; auto. unfold slot_lists. apply filter_In. split; auto. rewrite H6. reflexivity. }
    unfold is_hit in Hh. destruct (n_len n); congruence.
  - intros l Hl Hs. rewrite forallb_forall in H2. apply class_eqb_eq. apply H2. unfold slot_lists. apply filter_In. split; auto. rewrite Hs. reflexivity.
  - intros l Hl Hc. rewrite forallb_forall in H. specialize (H l Hl). rewrite Hc in H. destruct (tl_notes l); congruence.
Qed.

Lemma map_hit_id l : (forall n, In n l -> n_len n = None) -> map (fun n => mkNote (n_col n) (n_off n) None) l = l.
Proof.
  induction l as [|x l IH]; cbn; intros Hn; auto. f_equal; auto.
  specialize (Hn x (or_introl eq_refl)). destruct x; cbn in *. congruence.
Qed.

(* without extra note lists, the stacked frame holds exactly the notes of m.hits and m.holds *)
Lemma stacked_perm m : wf_chart m = true -> no_extra m = true -> Permutation (stacked m) (chart_notes m).
Proof.
  intros Hw Hx. apply wf_chart_inv in Hw as (_ & _ & Hh & Ho & Hn).
  assert (forall l, In l m -> tl_slot l = SOther -> stack_rows l = []) as Hoth.
  { intros l Hl Hs. unfold no_extra in Hx. rewrite forallb_forall in Hx.
    assert (In l (others m)) as Hlo. { unfold others, slot_lists. apply filter_In. split; auto. rewrite Hs. reflexivity. }
    specialize (Hx l Hlo). unfold stack_rows. destruct (tl_class l) eqn:Ec; auto; destruct (tl_notes l); auto; discriminate. }
  clear Hx Hn. unfold stacked, chart_notes, slot_notes, slot_lists.
  induction m as [|x m IH]. constructor.
  assert (Permutation (flat_map stack_rows m)
            (flat_map tl_notes (filter (fun l => slot_eqb (tl_slot l) SHits) m) ++
             flat_map tl_notes (filter (fun l => slot_eqb (tl_slot l) SHolds) m))) as IH'.
  { apply IH; intros; [apply Hh|apply Ho|apply Hoth]; auto; right; auto. }
  cbn. destruct (tl_slot x) eqn:Es; cbn.
  - destruct (Hh x (or_introl eq_refl) Es) as [Hc Hnn]. unfold stack_rows at 1. rewrite Hc, (map_hit_id _ Hnn).
    rewrite <- app_assoc. apply Permutation_app_head. exact IH'.
  - pose proof (Ho x (or_introl eq_refl) Es) as Hc. unfold stack_rows at 1. rewrite Hc.
    eapply perm_trans. apply Permutation_app_head. exact IH'. apply Permutation_app_swap_app.
  - rewrite (Hoth x (or_introl eq_refl) Es). cbn. exact IH'.
Qed.

Lemma partition_perm {A} (p : A -> bool) l : Permutation l (filter p l ++ filter (fun x => negb (p x)) l).
Proof.
  induction l as [|x l IH]; cbn. constructor.
  destruct (p x); cbn. apply perm_skip. exact IH. apply Permutation_cons_app. exact IH.
Qed.

Lemma NotesSpec_perm gap thr I I' O O' :
  Permutation I I' -> Permutation O O' -> NotesSpec gap thr I O -> NotesSpec gap thr I' O'.
Proof.
  intros HI HO Hs c. destruct (Hs c) as (s & o & H1 & H2 & H3).
  exists s, o. split. eapply perm_trans. exact H1. apply perm_filter. exact HI.
  split. eapply perm_trans. exact H2. apply perm_filter. exact HO. exact H3.
Qed.

(* MAIN: for every sorted order the sort may return, the result satisfies the specification *)
Theorem full_ln_sorted_spec m s gap thr m' :
  wf_chart m = true -> no_extra m = true ->
  Permutation s (stacked m) -> SortedOff s ->
  full_ln_sorted m s gap thr = Some m' -> Spec m gap thr m'.
Proof.
  intros Hw Hx Hp Hs Hr. apply full_ln_sorted_inv in Hr.
  set (rows := ln_rows gap thr s) in *. set (h := filter is_hit rows) in *.
  set (o := filter (fun n => negb (is_hit n)) rows) in *.
  destruct (wf_chart_inv m Hw) as (Hc1 & Hc2 & _).
  assert (slot_notes SHits m' = h) as Eh. { rewrite Hr, upd_hits. apply flat_const_one. exact Hc1. }
  assert (slot_notes SHolds m' = o) as Eo. { rewrite Hr, upd_holds. apply flat_const_one. exact Hc2. }
  constructor.
  - unfold chart_notes at 2. rewrite Eh, Eo.
    apply (NotesSpec_perm gap thr (stacked m) _ rows _).
    + apply stacked_perm; assumption.
    + apply partition_perm.
    + apply ln_rows_spec; assumption.
  - rewrite Eh. intros n Hn. apply filter_In in Hn as [_ Hn]. unfold is_hit in Hn. destruct (n_len n); congruence.
  - rewrite Eo. intros n Hn. apply filter_In in Hn as [_ Hn]. unfold is_hit in Hn. destruct (n_len n); cbn in Hn; congruence.
  - rewrite Hr. apply upd_others.
  - rewrite Hr. apply upd_layout.
Qed.

Lemma find_filter {A} (f : A -> bool) l : find f l = match filter f l with [] => None | x :: _ => Some x end.
Proof. induction l as [|x l IH]; cbn; auto. destruct (f x); auto. Qed.

(* the operation is defined whenever the rebuilt classes have no list-valued default *)
Theorem full_ln_sorted_defined m s gap thr :
  wf_chart m = true -> no_listy m = true -> exists m', full_ln_sorted m s gap thr = Some m'.
Proof.
  intros Hw Hy. destruct (wf_chart_inv m Hw) as (Hc1 & Hc2 & _).
  unfold no_listy in Hy. rewrite forallb_app in Hy. apply andb_true_iff in Hy as [Y1 Y2].
  unfold full_ln_sorted, find_slot. rewrite !find_filter.
  unfold count_slot, slot_lists in *.
  destruct (filter (fun l => slot_eqb (tl_slot l) SHits) m) as [|lh [|? ?]]; try discriminate.
  destruct (filter (fun l => slot_eqb (tl_slot l) SHolds) m) as [|lo [|? ?]]; try discriminate.
  cbn in Y1, Y2. rewrite andb_true_r in Y1, Y2. apply negb_true_iff in Y1, Y2. rewrite Y1, Y2.
  unfold rebuild. destruct (filter is_hit _); destruct (filter (fun n => negb (is_hit n)) _); eauto.
Qed.

(* ================================================================== the model with its stable sort *)
Theorem full_ln_spec m gap thr m' :
  wf_chart m = true -> no_extra m = true -> full_ln m gap thr = Some m' -> Spec m gap thr m'.
Proof. intros Hw Hx. apply full_ln_sorted_spec; auto. apply isort_perm. apply isort_sorted. Qed.

Theorem full_ln_defined m gap thr :
  wf_chart m = true -> no_listy m = true -> exists m', full_ln m gap thr = Some m'.
Proof. intros. apply full_ln_sorted_defined; assumption. Qed.

(* consequences, for every sorted order *)
Theorem full_ln_sorted_count m s gap thr m' :
  wf_chart m = true -> no_extra m = true -> Permutation s (stacked m) -> SortedOff s ->
  full_ln_sorted m s gap thr = Some m' -> CountKept (chart_notes m) (chart_notes m').
Proof. intros Hw Hx Hp Hs Hr. eapply count_of_spec. apply (sp_notes _ _ _ _ (full_ln_sorted_spec m s gap thr m' Hw Hx Hp Hs Hr)). Qed.

Theorem full_ln_sorted_no_overlap m s gap thr m' :
  wf_chart m = true -> no_extra m = true -> 0 <= gap -> Permutation s (stacked m) -> SortedOff s ->
  full_ln_sorted m s gap thr = Some m' -> NoOverlap (chart_notes m) (chart_notes m').
Proof.
  intros Hw Hx Hg Hp Hs Hr. eapply no_overlap_of_spec. exact Hg.
  apply (sp_notes _ _ _ _ (full_ln_sorted_spec m s gap thr m' Hw Hx Hp Hs Hr)).
Qed.

Theorem full_ln_sorted_last_kept m s gap thr m' :
  wf_chart m = true -> no_extra m = true -> Permutation s (stacked m) -> SortedOff s ->
  full_ln_sorted m s gap thr = Some m' -> LastKept (chart_notes m) (chart_notes m').
Proof. intros Hw Hx Hp Hs Hr. eapply last_kept_of_spec. apply (sp_notes _ _ _ _ (full_ln_sorted_spec m s gap thr m' Hw Hx Hp Hs Hr)). Qed.

Theorem full_ln_count m gap thr m' :
  wf_chart m = true -> no_extra m = true -> full_ln m gap thr = Some m' ->
  CountKept (chart_notes m) (chart_notes m').
Proof. intros Hw Hx. apply full_ln_sorted_count; auto. apply isort_perm. apply isort_sorted. Qed.

Theorem full_ln_no_overlap m gap thr m' :
  wf_chart m = true -> no_extra m = true -> 0 <= gap -> full_ln m gap thr = Some m' ->
  NoOverlap (chart_notes m) (chart_notes m').
Proof. intros Hw Hx Hg. apply full_ln_sorted_no_overlap; auto. apply isort_perm. apply isort_sorted. Qed.

Theorem full_ln_last_kept m gap thr m' :
  wf_chart m = true -> no_extra m = true -> full_ln m gap thr = Some m' ->
  LastKept (chart_notes m) (chart_notes m').
Proof. intros Hw Hx. apply full_ln_sorted_last_kept; auto. apply isort_perm. apply isort_sorted. Qed.

(* what a `true` of the oracle on an implementation output means *)
Theorem specb_consequences m gap thr m' :
  specb m gap thr (Some m') = true -> 0 <= gap ->
  Spec m gap thr m' /\ CountKept (chart_notes m) (chart_notes m') /\
  NoOverlap (chart_notes m) (chart_notes m') /\ LastKept (chart_notes m) (chart_notes m').
Proof.
  intros Hb Hg. apply specb_sound in Hb as (m2 & E & Hs). inversion E; subst m2.
  split; [exact Hs|]. pose proof (sp_notes _ _ _ _ Hs) as Hn.
  split. eapply count_of_spec; eauto. split. eapply no_overlap_of_spec; eauto. eapply last_kept_of_spec; eauto.
Qed.

(* ================================================================== the two defect classes of the pinned tree *)
(* StepMania: Map.stack((HitList, HoldList)) also collects mines/fakes/lifts/keysounds (HitList subclasses) and rolls
   (HoldList subclass); they come back inside hits/holds and stay in their own list: note count is not conserved. *)
Definition sm_witness : chart :=
  [ mkTL SOther CHit false [mkNote 1 500 None] [1];       (* mines: one mine at 500 in column 1 *)
    mkTL SHits CHit false [mkNote 0 0 None] [];           (* hits: one hit at 0 in column 0 *)
    mkTL SHolds CHold false [] [];
    mkTL SOther CNone false [] [2] ].                     (* bpms *)

Theorem full_ln_count_refuted :
  exists m gap thr m', wf_chart m = true /\ no_listy m = true /\ 0 <= gap /\ 0 <= thr /\
    full_ln m gap thr = Some m' /\ ~ CountKept (chart_notes m) (chart_notes m').
Proof.
  exists sm_witness, 150, 100.
  eexists. split. reflexivity. split. reflexivity. split. lia. split. lia. split. vm_compute. reflexivity.
  intro Hp. apply Permutation_length in Hp. vm_compute in Hp. discriminate.
Qed.

Theorem full_ln_spec_refuted :
  exists m gap thr m', wf_chart m = true /\ no_listy m = true /\ 0 <= gap /\ 0 <= thr /\
    full_ln m gap thr = Some m' /\ ~ Spec m gap thr m'.
Proof.
  destruct full_ln_count_refuted as (m & gap & thr & m' & Hw & Hy & Hg & Ht & Hr & Hn).
  exists m, gap, thr, m'. repeat split; auto. intro Hs. apply Hn. eapply count_of_spec. apply (sp_notes _ _ _ _ Hs).
Qed.

(* Quaver: QuaHit/QuaHold declare keysounds with default [] and TimedList.from_dict assigns that list to a
   non-empty frame: ValueError for every chart with at least one note. *)
Definition qua_witness : chart :=
  [ mkTL SOther CNone false [] [1];
    mkTL SHits CHit true [mkNote 0 0 None] [];
    mkTL SHolds CHold true [] [] ].

Theorem full_ln_defined_refuted :
  exists m gap thr, wf_chart m = true /\ no_extra m = true /\ 0 <= gap /\ 0 <= thr /\ full_ln m gap thr = None.
Proof. exists qua_witness, 150, 100. repeat split; try reflexivity; lia. Qed.
