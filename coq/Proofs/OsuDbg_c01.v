From Coq Require Import String Ascii.
From Coq Require Import ZArith QArith Qround Qabs List Bool Lia Lqa Qfield.
From RV Require Import Base.PyNum Base.Text Formats.Osu Formats.OsuSpec Proofs.OsuProofs.
Import ListNotations.
Open Scope Z_scope.

Lemma tp_kind_fields d l : tp_kind_is d l = true ->
  exists f0 f1 f2 f3 f4 f5 f7, split_on COMMA l = [f0; f1; f2; f3; f4; f5; d; f7].
Proof.
  unfold tp_kind_is. intro H.
  destruct (split_on COMMA l) as [|f0 [|f1 [|f2 [|f3 [|f4 [|f5 [|f6 [|f7 [|f8 r]]]]]]]]]; simpl in H; try discriminate.
  apply text_eqb_eq in H. subst. repeat eexists.
Qed.

Lemma zbool_odd ki : ki = 0 \/ ki = 1 -> zbool ki = Z.odd ki.
Proof. intros [E|E]; subst; reflexivity. Qed.

Definition effects_01 (l : text) : Prop :=
  forall f ki, nth_text (split_on COMMA l) 7 = Some f -> py_int f = Some ki -> ki = 0 \/ ki = 1.

Theorem read_bpm_denotes l : is_timing_point l = true -> effects_01 l ->
  denote_tp l = option_map TPBpm (read_bpm l).
Proof.
  intros H E. unfold read_bpm. rewrite H. cbn [negb]. cbv zeta.
  destruct (tp_kind_fields _ _ H) as [f0 [f1 [f2 [f3 [f4 [f5 [f7 S]]]]]]].
  unfold effects_01 in E. rewrite S in E. specialize (E f7). cbn [nth_text] in E.
  unfold denote_tp. unfold COMMA in *. rewrite S. cbn [map nth_text obind].
  unfold py_float, py_int in *.
  change (parse_int (strip (t "1"))) with (Some 1).
  destruct (parse_dec (strip f0)) as [o|]; cbn [obind]; [|reflexivity].
  destruct (parse_dec (strip f1)) as [c|]; cbn [obind]; [|reflexivity].
  destruct (parse_int (strip f2)) as [me|]; cbn [obind].
  2:{ destruct (Qeq_bool c 0); reflexivity. }
  destruct (parse_int (strip f3)) as [ss|]; cbn [obind].
  2:{ destruct (Qeq_bool c 0); reflexivity. }
  destruct (parse_int (strip f4)) as [si|]; cbn [obind].
  2:{ destruct (Qeq_bool c 0); reflexivity. }
  destruct (parse_int (strip f5)) as [v|]; cbn [obind].
  2:{ destruct (Qeq_bool c 0); reflexivity. }
  destruct (parse_int (strip f7)) as [ki|]; cbn [obind].
  2:{ destruct (Qeq_bool c 0); reflexivity. }
  destruct (Qeq_bool c 0); [reflexivity|]. cbn [option_map Z.eqb]. 
  rewrite (zbool_odd ki (E ki eq_refl eq_refl)). reflexivity.
Qed.

Ltac split_options :=
  unfold obind; cbn beta iota;
  repeat match goal with |- context [match ?e with Some _ => _ | None => _ end] => destruct e end;
  cbn [option_map]; try reflexivity.

Definition meter_numeric (l : text) : Prop :=
  forall f, nth_text (split_on COMMA l) 2 = Some f -> exists me, py_int f = Some me.

(* (the reader ignores the meter field of an SV line; the format requires it to be an integer) *)
Theorem read_sv_denotes l : is_slider_velocity l = true -> effects_01 l -> meter_numeric l ->
  denote_tp l = option_map TPSv (read_sv l).
Proof.
  intros H E M. unfold read_sv. rewrite H. cbn [negb]. cbv zeta.
  destruct (tp_kind_fields _ _ H) as [f0 [f1 [f2 [f3 [f4 [f5 [f7 S]]]]]]].
  unfold effects_01 in E. rewrite S in E. specialize (E f7). cbn [nth_text] in E.
  unfold meter_numeric in M. rewrite S in M. destruct (M f2 eq_refl) as [me ME].
  unfold denote_tp. unfold COMMA in *. rewrite S. cbn [map nth_text].
  unfold py_float, py_int in *. rewrite ME.
  change (parse_int (strip (t "0"))) with (Some 0). unfold obind. cbn beta iota.
  destruct (parse_int (strip f7)) as [ki|] eqn:K.
  - pose proof (zbool_odd ki (E ki eq_refl eq_refl)) as Z. split_options; destruct (Qeq_bool _ 0); try reflexivity.
    cbn [option_map Z.eqb]. rewrite Z. reflexivity.
  - split_options; destruct (Qeq_bool _ 0); reflexivity.
Qed.

Lemma six_fields l : count COMMA l = 5%nat -> exists f0 f1 f2 f3 f4 ps, split_on COMMA l = [f0; f1; f2; f3; f4; ps].
Proof.
  intro H. pose proof (split_length_count COMMA l) as L. rewrite H in L.
  destruct (split_on COMMA l) as [|f0 [|f1 [|f2 [|f3 [|f4 [|f5 [|f6 r]]]]]]]; simpl in L; try discriminate.
  repeat eexists.
Qed.

Theorem read_hit_denotes l k : is_hit l = true ->
  forall f0 f1 f2 f3 f4 ps, split_on COMMA l = [f0; f1; f2; f3; f4; ps] ->
  strip ps = ps -> length (split_on COLON ps) = 5%nat ->
  (exists y, py_int f1 = Some y) ->
  (exists ty, py_int f3 = Some ty /\ Z.testbit ty 7 = false /\ Z.testbit ty 0 = true) ->
  denote_ho k l = option_map HHit (read_hit l k).
Proof.
  intros H f0 f1 f2 f3 f4 ps S SP L5 [y Y] [ty [T [B7 B0]]].
  unfold read_hit. rewrite H. cbn [negb]. cbv zeta.
  unfold denote_ho. unfold COMMA, COLON in *. rewrite S. cbn [map last_text last nth_text obind]. rewrite SP.
  destruct (split_on 58 ps) as [|c0 [|c1 [|c2 [|c3 [|c4 [|c5 r]]]]]]; simpl in L5; try discriminate.
  cbn [nth_text]. unfold py_float, py_int in *. rewrite Y, T, B7, B0. unfold obind. cbn beta iota.
  repeat match goal with |- context [match ?e with Some _ => _ | None => _ end] => destruct e end;
  cbn [option_map]; try reflexivity.
  rewrite x_to_col_exact. reflexivity.
Qed.

Theorem read_hold_denotes l k : is_hold l = true ->
  forall f0 f1 f2 f3 f4 ps, split_on COMMA l = [f0; f1; f2; f3; f4; ps] ->
  strip ps = ps -> length (split_on COLON ps) = 6%nat ->
  (exists y, py_int f1 = Some y) ->
  (exists ty, py_int f3 = Some ty /\ Z.testbit ty 7 = true) ->
  denote_ho k l = option_map HHold (read_hold l k).
Proof.
  intros H f0 f1 f2 f3 f4 ps S SP L5 [y Y] [ty [T B7]].
  unfold read_hold. rewrite H. cbn [negb]. cbv zeta.
  unfold denote_ho. unfold COMMA, COLON in *. rewrite S. cbn [map last_text last nth_text]. rewrite SP.
  destruct (split_on 58 ps) as [|c0 [|c1 [|c2 [|c3 [|c4 [|c5 [|c6 r]]]]]]]; simpl in L5; try discriminate.
  cbn [nth_text]. unfold py_float, py_int in *. rewrite Y, T, B7. split_options.
  rewrite x_to_col_exact. reflexivity.
Qed.

(* ------------------------------------------------------------------ section split *)
Lemma index_of_app x a b : ~ In x a -> index_of x (a ++ x :: b) = Some (zlen a).
Proof.
  induction a as [|y a IH]; intro H.
  - simpl. rewrite text_eqb_refl. reflexivity.
  - simpl. destruct (text_eqb y x) eqn:E.
    + apply text_eqb_eq in E. exfalso. apply H. left. exact E.
    + rewrite IH by (intro I; apply H; right; exact I). unfold zlen. simpl length. rewrite Nat2Z.inj_succ. reflexivity.
Qed.
Lemma firstn_len_app {A} (a b : list A) : firstn (length a) (a ++ b) = a.
Proof. induction a; simpl; congruence. Qed.
Lemma skipn_len_app {A} (a b : list A) : skipn (length a) (a ++ b) = b.
Proof. induction a; simpl; congruence. Qed.
Lemma norm_ok n i : 0 <= i <= n -> norm_ix n i = i.
Proof. intro H. unfold norm_ix. destruct (Z.ltb_spec i 0); lia. Qed.

Lemma take_body_until (body rest : list text) (h : text) :
  forallb is_header body = false \/ True -> (forall l, In l body -> is_header l = false) -> is_header h = true ->
  take_body (body ++ h :: rest) = body.
Proof.
  intros _ NB HH. induction body as [|l body IH]; simpl.
  - rewrite HH. reflexivity.
  - rewrite (NB l (or_introl eq_refl)). rewrite IH; auto. intros l' I. apply NB. right. exact I.
Qed.
Lemma take_body_all (body : list text) : (forall l, In l body -> is_header l = false) -> take_body body = body.
Proof.
  induction body as [|l body IH]; simpl; intro NB; auto.
  rewrite (NB l (or_introl eq_refl)). rewrite IH; auto.
Qed.
Lemma section_app h a b : ~ In h a -> section h (a ++ h :: b) = Some (take_body b).
Proof.
  induction a as [|y a IH]; intro H; simpl.
  - rewrite text_eqb_refl. reflexivity.
  - destruct (text_eqb y h) eqn:E.
    + apply text_eqb_eq in E. exfalso. apply H. left. exact E.
    + apply IH. intro I. apply H. right. exact I.
Qed.

(* the model's split (index of the two headers + Python slices) and the specification's section
   function pick the same lines, on every text whose two list sections come in file order *)
Theorem section_split pre tps hos :
  ~ In TP_HEADER pre -> ~ In HO_HEADER pre -> ~ In HO_HEADER tps ->
  (forall l, In l tps -> is_header l = false) -> (forall l, In l hos -> is_header l = false) ->
  let lines := pre ++ TP_HEADER :: tps ++ HO_HEADER :: hos in
  exists ix_tp ix_ho,
    index_of TP_HEADER lines = Some ix_tp /\ index_of HO_HEADER lines = Some ix_ho /\
    py_slice_to lines ix_tp = pre /\
    py_slice lines (ix_tp + 1) ix_ho = tps /\ py_slice_from lines (ix_ho + 1) = hos /\
    section TP_HEADER lines = Some tps /\ section HO_HEADER lines = Some hos.
Proof.
  intros P1 P2 P3 NT NH lines.
  exists (zlen pre), (zlen pre + 1 + zlen tps).
  assert (L: zlen lines = zlen pre + 1 + zlen tps + 1 + zlen hos).
  { unfold lines, zlen. rewrite app_length. simpl length. rewrite app_length. simpl length. lia. }
  assert (Z0: 0 <= zlen pre /\ 0 <= zlen tps /\ 0 <= zlen hos) by (unfold zlen; lia).
  assert (E2: lines = (pre ++ TP_HEADER :: tps) ++ HO_HEADER :: hos).
  { unfold lines. rewrite <- app_assoc. reflexivity. }
  assert (E3: lines = (pre ++ [TP_HEADER]) ++ tps ++ HO_HEADER :: hos).
  { unfold lines. rewrite <- app_assoc. reflexivity. }
  repeat split.
  - apply index_of_app. exact P1.
  - rewrite E2. rewrite index_of_app.
    + f_equal. unfold zlen. rewrite app_length. simpl length. lia.
    + intro I. apply in_app_or in I. destruct I as [I|[I|I]]; [exact (P2 I)|discriminate I|exact (P3 I)].
  - unfold py_slice_to. rewrite norm_ok by lia. unfold zlen at 1. rewrite Nat2Z.id. apply firstn_len_app.
  - unfold py_slice. rewrite !norm_ok by lia.
    replace (Z.to_nat (zlen pre + 1)) with (length (pre ++ [TP_HEADER])) by (rewrite app_length; unfold zlen; simpl; lia).
    rewrite E3 at 1. rewrite skipn_len_app.
    replace (Z.to_nat (zlen pre + 1 + zlen tps - (zlen pre + 1))) with (length tps) by (unfold zlen; lia).
    apply firstn_len_app.
  - unfold py_slice_from. rewrite norm_ok by lia.
    replace (Z.to_nat (zlen pre + 1 + zlen tps + 1)) with (length ((pre ++ TP_HEADER :: tps) ++ [HO_HEADER])).
    2:{ rewrite !app_length. simpl length. unfold zlen. lia. }
    replace lines with (((pre ++ TP_HEADER :: tps) ++ [HO_HEADER]) ++ hos).
    2:{ rewrite E2. rewrite <- app_assoc. reflexivity. }
    apply skipn_len_app.
  - unfold lines. rewrite section_app by exact P1. apply take_body_until; auto.
  - rewrite E2. rewrite section_app.
    + apply take_body_all. exact NH.
    + intro I. apply in_app_or in I. destruct I as [I|[I|I]]; [exact (P2 I)|discriminate I|exact (P3 I)].
Qed.
