(* C02, header level: the reader's sequential _read_metadata over the header tokens computes what the reference
   semantics reads off the item list (last #OFFSET, last #BPMS), on the header domain hdr_ok; the '#BPMS' value parsed by
   _read_bpms is the reference tempo script (Snap(0, beat, 4) = snap_of_beat beat). *)
From Coq Require Import String ZArith QArith Qround List Bool Lia Lqa.
From RV Require Base.Text.
From RV Require Import Base.PyNum Timing.Snapper Timing.Snap Timing.TimingMap Timing.Reseat Timing.Integrate
  Formats.SMText Formats.SM Formats.SMSpec Formats.SMReadDom Proofs.SMTextFacts Proofs.SMReadPieces Proofs.TimingProofs.
Import ListNotations.
Open Scope Z_scope.

Lemma text_eqb_eq a b : text_eqb a b = true <-> a = b.
Proof. exact (Text.text_eqb_eq a b). Qed.
Lemma text_eqb_refl a : text_eqb a a = true.
Proof. apply text_eqb_eq. reflexivity. Qed.
Lemma text_eqb_sym a b : text_eqb a b = text_eqb b a.
Proof.
  destruct (text_eqb a b) eqn:E.
  - apply text_eqb_eq in E. subst. symmetry. apply text_eqb_refl.
  - destruct (text_eqb b a) eqn:E2; [|reflexivity]. apply text_eqb_eq in E2. subst. rewrite text_eqb_refl in E. discriminate.
Qed.

(* ------------------------------------------------------------------ one header token *)
(* the dispatch of _read_metadata on the tag s0 and the raw second field x *)
Definition meta_step (st : meta_st) (s0 x : text) : option meta_st :=
  let upd (f : text -> option meta_st) := f (strip x) in
  match index_of s0 text_tags 0 with
  | Some i => upd (fun x => Some (mkMeta (replace_at i x (m_txt st)) (m_offset st) (m_sstart st) (m_slen st)
                                       (m_sel st) (m_bcs st) (m_stops st)))
  | None =>
    if text_eqb s0 (tx "#OFFSET") then
      upd (fun x => match parse_decimal x with
                    | Some q => Some (mkMeta (m_txt st) (Some (Qred (- (q * 1000)))) (m_sstart st) (m_slen st)
                                             (m_sel st) (m_bcs st) (m_stops st))
                    | None => None end)
    else if text_eqb s0 (tx "#BPMS") then
      upd (fun x => match read_bpms x with
                    | Some l => Some (mkMeta (m_txt st) (m_offset st) (m_sstart st) (m_slen st)
                                             (m_sel st) (Some l) (m_stops st))
                    | None => None end)
    else if text_eqb s0 (tx "#STOPS") then
      upd (fun x =>
        match m_bcs st, m_offset st with
        | Some l, Some off =>
            match from_bcs off l with
            | None => None
            | Some _ =>
                if forallb (fun ln => match ln with [] => true | _ => false end) (split_on 44 x)
                then Some (mkMeta (m_txt st) (m_offset st) (m_sstart st) (m_slen st) (m_sel st) (m_bcs st) true)
                else None
            end
        | _, _ => None
        end)
    else if text_eqb s0 (tx "#SAMPLESTART") then
      upd (fun x => match parse_decimal x with
                    | Some q => Some (mkMeta (m_txt st) (m_offset st) (Qred (q * 1000)) (m_slen st)
                                             (m_sel st) (m_bcs st) (m_stops st))
                    | None => None end)
    else if text_eqb s0 (tx "#SAMPLELENGTH") then
      upd (fun x => match parse_decimal x with
                    | Some q => Some (mkMeta (m_txt st) (m_offset st) (m_sstart st) (Qred (q * 1000))
                                             (m_sel st) (m_bcs st) (m_stops st))
                    | None => None end)
    else if text_eqb s0 (tx "#SELECTABLE") then
      upd (fun x => Some (mkMeta (m_txt st) (m_offset st) (m_sstart st) (m_slen st)
                                 (text_eqb x (tx "YES")) (m_bcs st) (m_stops st)))
    else Some st
  end.

Lemma read_meta_token_step st line s0 x rest : line <> [] -> map strip (split_on 58 line) = s0 :: x :: rest -> s0 <> [] ->
  read_meta_token st line = meta_step st (hack s0) x.
Proof.
  intros Nl M N0. unfold read_meta_token. destruct line as [|c line]; [congruence|]. rewrite M.
  destruct s0 as [|c0 s0]; [congruence|]. reflexivity.
Qed.

(* ------------------------------------------------------------------ numbers *)
Lemma parse_decimal_strip s : parse_decimal (strip s) = parse_decimal s.
Proof. unfold parse_decimal. rewrite strip_idem. reflexivity. Qed.
Lemma parse_decimal_ws_l w s : allws w -> parse_decimal (w ++ s) = parse_decimal s.
Proof. intro W. unfold parse_decimal. rewrite strip_ws_l by exact W. reflexivity. Qed.
Lemma parse_decimal_ws_r s w : allws w -> parse_decimal (s ++ w) = parse_decimal s.
Proof. intro W. unfold parse_decimal. rewrite strip_ws_r by exact W. reflexivity. Qed.

Open Scope Q_scope.
(* Snap(0, beat, 4) for a beat >= 0 is the position  (beat // 4, beat % 4) *)
Lemma snap_norm_beat x : 0 <= x -> snap_norm 0 x 4 = Some (snap_of_beat x).
Proof.
  intro Hx. unfold snap_norm, snap_of_beat. change (0 <? 0)%Z with false. cbn iota.
  destruct (Qlt_bool x 0 || Qle_bool 4 x) eqn:Ec; cbn [fst snd].
  - assert (P4 : 0 < 4) by reflexivity. destruct (qfloordiv_mod x 4 P4) as [Ev [Hlo Hhi]].
    assert (E1 : Qlt_bool (qmod x 4) 0 = false) by (apply Qlt_bool_false; exact Hlo).
    assert (E2 : (0 + qfloordiv x 4 <? 0)%Z = false).
    { apply Z.ltb_ge. unfold qfloordiv. assert (L : inject_Z 0 <= x / 4) by (change (inject_Z 0) with 0; apply Qle_shift_div_l; lra).
      apply Qfloor_resp_le in L. rewrite Qfloor_Z in L. lia. }
    rewrite E1, E2. cbn [orb]. unfold qfloordiv, qmod. rewrite Z.add_0_l. reflexivity.
  - apply orb_false_iff in Ec. destruct Ec as [Ec1 Ec2]. rewrite Ec1. change (0 <? 0)%Z with false. cbn [orb].
    apply Qle_bool_false in Ec2.
    assert (F : Qfloor (x / 4) = 0%Z).
    { apply Qfloor_unique. change (inject_Z 0) with 0. apply Qle_shift_div_l; lra. change (inject_Z 0) with 0. apply Qlt_shift_div_r; lra. }
    rewrite F. f_equal. f_equal. apply Qred_complete. change (inject_Z 0) with 0. ring.
Qed.

Definition script_of_pairs (pairs : list (Q * Q)) : list bcs :=
  map (fun p : Q * Q => mkBcs (snd p) 4 (snap_of_beat (fst p))) pairs.

Lemma split_eq_parse line : map parse_decimal (split_on 61 (strip line)) = map parse_decimal (split_on 61 line).
Proof. apply (map_split_strip_gen parse_decimal 61 line eq_refl parse_decimal_ws_l parse_decimal_ws_r). Qed.

Lemma read_bpm_pair_of_parse line x y : parse_pair (strip line) = Some (x, y) -> 0 <= x ->
  read_bpm_pair line = Some (mkBcs y 4 (snap_of_beat x)).
Proof.
  unfold parse_pair, read_bpm_pair. intros H Hx. pose proof (split_eq_parse line) as M.
  destruct (split_on 61 (strip line)) as [|a [|b [|? ?]]]; try discriminate.
  destruct (parse_decimal a) as [xa|] eqn:Pa; [|discriminate]. destruct (parse_decimal b) as [yb|] eqn:Pb; [|discriminate].
  inversion H; subst xa yb. cbn [map] in M. rewrite Pa, Pb in M.
  destruct (split_on 61 line) as [|a' [|b' [|? ?]]]; try discriminate. cbn [map] in M. inversion M as [[M1 M2]].
  rewrite (snap_norm_beat x Hx). reflexivity.
Qed.

Lemma read_bpms_of_parse v pairs : bpms_parse v = Some pairs -> read_bpms v = Some (script_of_pairs pairs).
Proof.
  unfold bpms_parse, read_bpms. destruct (map_opt (fun p => parse_pair (strip p)) (split_on 44 v)) as [ps|] eqn:M; [|discriminate].
  destruct (forallb (fun p : Q * Q => Qle_bool 0 (fst p)) ps) eqn:F; [|discriminate]. intro H. inversion H; subst ps. clear H.
  revert pairs M F. induction (split_on 44 v) as [|ln lns IH]; intros pairs M F.
  - inversion M; subst. reflexivity.
  - cbn [map_opt] in M. destruct (parse_pair (strip ln)) as [[x y]|] eqn:P; [|discriminate].
    destruct (map_opt (fun p => parse_pair (strip p)) lns) as [r|] eqn:R; [|discriminate]. inversion M; subst pairs.
    cbn [forallb fst] in F. apply andb_true_iff in F. destruct F as [F1 F2]. apply Qle_bool_iff in F1.
    cbn [map_opt]. rewrite (read_bpm_pair_of_parse ln x y P F1), (IH r eq_refl F2). reflexivity.
Qed.
Lemma bpms_parse_pairs v pairs : bpms_parse v = Some pairs ->
  map_opt (fun p => parse_pair (strip p)) (split_on 44 v) = Some pairs /\ forallb (fun p : Q * Q => Qle_bool 0 (fst p)) pairs = true.
Proof.
  unfold bpms_parse. destruct (map_opt _ _) as [ps|]; [|discriminate]. destruct (forallb _ ps) eqn:F; [|discriminate].
  intro H. inversion H; subst. auto.
Qed.
Close Scope Q_scope.

(* ------------------------------------------------------------------ the item list: last-wins lookups *)
Definition has_tag (tag : text) (fields : list (text * text)) : Prop := exists v, In (tag, v) fields.

Lemma lookup_last_absent tag fields : (forall v, ~ In (tag, v) fields) -> forall cur, lookup_last tag fields cur = cur.
Proof.
  induction fields as [|[t v] r IH]; intros N cur; [reflexivity|]. cbn [lookup_last].
  destruct (text_eqb t tag) eqn:E.
  - apply text_eqb_eq in E. subst t. exfalso. apply (N v). left. reflexivity.
  - apply IH. intros v' K. apply (N v'). right. exact K.
Qed.
Lemma lookup_last_in tag fields : forall cur v, lookup_last tag fields cur = Some v -> cur = Some v \/ In (tag, v) fields.
Proof.
  induction fields as [|[t v0] r IH]; intros cur v H; [left; exact H|]. cbn [lookup_last] in H.
  destruct (IH _ _ H) as [K|K]; [|right; right; exact K].
  destruct (text_eqb t tag) eqn:E; [|left; exact K]. apply text_eqb_eq in E. subst t. inversion K; subst. right. left. reflexivity.
Qed.

(* hdr_scan: at most one #OFFSET and one #BPMS item *)
Lemma hdr_scan_offset_unique fields : forall so sb, hdr_scan so sb fields = true -> has_tag (tx "#OFFSET") fields -> so = false.
Proof.
  induction fields as [|[t v] r IH]; intros so sb H [v0 K]; [destruct K|]. cbn [hdr_scan] in H.
  destruct (text_eqb t (tx "#OFFSET")) eqn:E1.
  { apply andb_true_iff in H. destruct H as [H _]. apply andb_true_iff in H. destruct H as [H _]. apply negb_true_iff in H. exact H. }
  assert (K' : has_tag (tx "#OFFSET") r).
  { destruct K as [K|K]; [inversion K; subst; rewrite text_eqb_refl in E1; discriminate|exists v0; exact K]. }
  destruct (text_eqb t (tx "#BPMS")).
  { apply andb_true_iff in H. destruct H as [_ H]. exact (IH _ _ H K'). }
  destruct (text_eqb t (tx "#STOPS")).
  { apply andb_true_iff in H. destruct H as [_ H]. exact (IH _ _ H K'). }
  destruct (text_eqb t (tx "#SAMPLESTART") || text_eqb t (tx "#SAMPLELENGTH")).
  { apply andb_true_iff in H. destruct H as [_ H]. exact (IH _ _ H K'). }
  exact (IH _ _ H K').
Qed.
Lemma hdr_scan_bpms_unique fields : forall so sb, hdr_scan so sb fields = true -> has_tag (tx "#BPMS") fields -> sb = false.
Proof.
  induction fields as [|[t v] r IH]; intros so sb H [v0 K]; [destruct K|]. cbn [hdr_scan] in H.
  assert (K' : text_eqb t (tx "#BPMS") = false -> has_tag (tx "#BPMS") r).
  { intro E. destruct K as [K|K]; [inversion K; subst; rewrite text_eqb_refl in E; discriminate|exists v0; exact K]. }
  destruct (text_eqb t (tx "#OFFSET")) eqn:E1.
  { apply text_eqb_eq in E1. subst t. apply andb_true_iff in H. destruct H as [_ H]. exact (IH _ _ H (K' eq_refl)). }
  destruct (text_eqb t (tx "#BPMS")) eqn:E2.
  { apply andb_true_iff in H. destruct H as [H _]. apply andb_true_iff in H. destruct H as [H _]. apply negb_true_iff in H. exact H. }
  destruct (text_eqb t (tx "#STOPS")).
  { apply andb_true_iff in H. destruct H as [_ H]. exact (IH _ _ H (K' eq_refl)). }
  destruct (text_eqb t (tx "#SAMPLESTART") || text_eqb t (tx "#SAMPLELENGTH")).
  { apply andb_true_iff in H. destruct H as [_ H]. exact (IH _ _ H (K' eq_refl)). }
  exact (IH _ _ H (K' eq_refl)).
Qed.

(* ------------------------------------------------------------------ running the header *)
Fixpoint read_fields (st : meta_st) (fields : list (text * text)) : option meta_st :=
  match fields with
  | [] => Some st
  | (t, v) :: r => match meta_step st t v with Some st' => read_fields st' r | None => None end
  end.

Lemma meta_step_other st t v :
  text_eqb t (tx "#OFFSET") = false -> text_eqb t (tx "#BPMS") = false -> text_eqb t (tx "#STOPS") = false ->
  text_eqb t (tx "#SAMPLESTART") = false -> text_eqb t (tx "#SAMPLELENGTH") = false ->
  exists st', meta_step st t v = Some st' /\ m_offset st' = m_offset st /\ m_bcs st' = m_bcs st /\ m_stops st' = m_stops st.
Proof.
  intros E1 E2 E3 E4 E5. unfold meta_step. destruct (index_of t text_tags 0).
  - eexists. split; [reflexivity|]. cbn. auto.
  - rewrite E1, E2, E3, E4, E5. destruct (text_eqb t (tx "#SELECTABLE")); eexists; (split; [reflexivity|]); cbn; auto.
Qed.

Section Run.
Variables (offv bpmv : text) (off : Q) (l : list bcs).
Hypothesis Hoff : parse_decimal offv = Some off.
Hypothesis Hbpm : read_bpms bpmv = Some l.
Hypothesis Hfrom : forall init, from_bcs init l <> None.
Let O := Qred (- (off * 1000))%Q.

Lemma run_fields fields : forall so sb st, hdr_scan so sb fields = true ->
  Forall (fun f : text * text => strip (snd f) = snd f) fields ->
  (forall v, In (tx "#OFFSET", v) fields -> v = offv) -> (forall v, In (tx "#BPMS", v) fields -> v = bpmv) ->
  m_stops st = true -> (so = true -> m_offset st = Some O) -> (sb = true -> m_bcs st = Some l) ->
  exists st', read_fields st fields = Some st' /\ m_stops st' = true
              /\ (so = true \/ has_tag (tx "#OFFSET") fields -> m_offset st' = Some O)
              /\ (sb = true \/ has_tag (tx "#BPMS") fields -> m_bcs st' = Some l).
Proof.
  induction fields as [|[t v] r IH]; intros so sb st H FS Ho Hb Hs Hso Hsb.
  - exists st. split; [reflexivity|]. split; [exact Hs|]. split; intros [K|[v K]]; auto; destruct K.
  - inversion FS as [|? ? Sv FS']; subst. cbn [snd] in Sv. cbn [hdr_scan] in H. cbn [read_fields].
    assert (Ho' : forall v0, In (tx "#OFFSET", v0) r -> v0 = offv) by (intros v0 K; apply Ho; right; exact K).
    assert (Hb' : forall v0, In (tx "#BPMS", v0) r -> v0 = bpmv) by (intros v0 K; apply Hb; right; exact K).
    destruct (text_eqb t (tx "#OFFSET")) eqn:E1.
    { apply text_eqb_eq in E1. subst t. apply andb_true_iff in H. destruct H as [H H3]. apply andb_true_iff in H. destruct H as [H1 H2].
      assert (v = offv) by (apply Ho; left; reflexivity). subst v.
      assert (M : meta_step st (tx "#OFFSET") offv = Some (mkMeta (m_txt st) (Some O) (m_sstart st) (m_slen st) (m_sel st) (m_bcs st) (m_stops st))).
      { unfold meta_step. change (index_of (tx "#OFFSET") text_tags 0) with (@None nat). cbv beta iota zeta.
        change (text_eqb (tx "#OFFSET") (tx "#OFFSET")) with true. cbv iota. rewrite Sv, Hoff. reflexivity. }
      rewrite M. match goal with |- context [read_fields ?s1 r] =>
        destruct (IH true sb s1 H3 FS' Ho' Hb' ltac:(cbn; auto) ltac:(cbn; auto) ltac:(cbn; auto)) as (st' & R & S' & O' & B') end.
      exists st'. split; [exact R|]. split; [exact S'|]. split; [intros _; apply O'; left; reflexivity|].
      intros [K|[v0 K]]; apply B'; [left; exact K|]. destruct K as [K|K]; [inversion K|]. right. exists v0. exact K. }
    destruct (text_eqb t (tx "#BPMS")) eqn:E2.
    { apply text_eqb_eq in E2. subst t. apply andb_true_iff in H. destruct H as [H H3]. apply andb_true_iff in H. destruct H as [H1 H2].
      assert (v = bpmv) by (apply Hb; left; reflexivity). subst v.
      assert (M : meta_step st (tx "#BPMS") bpmv = Some (mkMeta (m_txt st) (m_offset st) (m_sstart st) (m_slen st) (m_sel st) (Some l) (m_stops st))).
      { unfold meta_step. change (index_of (tx "#BPMS") text_tags 0) with (@None nat). cbv beta iota zeta.
        change (text_eqb (tx "#BPMS") (tx "#OFFSET")) with false. change (text_eqb (tx "#BPMS") (tx "#BPMS")) with true. cbv iota.
        rewrite Sv, Hbpm. reflexivity. }
      rewrite M. match goal with |- context [read_fields ?s1 r] =>
        destruct (IH so true s1 H3 FS' Ho' Hb' ltac:(cbn; auto) ltac:(cbn; auto) ltac:(cbn; auto)) as (st' & R & S' & O' & B') end.
      exists st'. split; [exact R|]. split; [exact S'|]. split; [|intros _; apply B'; left; reflexivity].
      intros [K|[v0 K]]; apply O'; [left; exact K|]. destruct K as [K|K]; [inversion K|]. right. exists v0. exact K. }
    assert (HT : forall tag, text_eqb t tag = false -> has_tag tag ((t, v) :: r) -> has_tag tag r).
    { intros tag E [v0 [K|K]]; [inversion K; subst; rewrite text_eqb_refl in E; discriminate|exists v0; exact K]. }
    destruct (text_eqb t (tx "#STOPS")) eqn:E3.
    { apply text_eqb_eq in E3. subst t. apply andb_true_iff in H. destruct H as [H H4]. apply andb_true_iff in H. destruct H as [H H3].
      apply andb_true_iff in H. destruct H as [H1 H2]. subst so sb.
      assert (M : meta_step st (tx "#STOPS") v = Some (mkMeta (m_txt st) (m_offset st) (m_sstart st) (m_slen st) (m_sel st) (m_bcs st) true)).
      { unfold meta_step. change (index_of (tx "#STOPS") text_tags 0) with (@None nat). cbv beta iota zeta.
        change (text_eqb (tx "#STOPS") (tx "#OFFSET")) with false. change (text_eqb (tx "#STOPS") (tx "#BPMS")) with false.
        change (text_eqb (tx "#STOPS") (tx "#STOPS")) with true. cbv iota.
        rewrite (Hso eq_refl), (Hsb eq_refl). destruct (from_bcs O l) eqn:F; [|exfalso; exact (Hfrom O F)]. rewrite Sv, H3. reflexivity. }
      rewrite M. match goal with |- context [read_fields ?s1 r] =>
        destruct (IH true true s1 H4 FS' Ho' Hb' ltac:(cbn; auto) ltac:(cbn; auto) ltac:(cbn; auto)) as (st' & R & S' & O' & B') end.
      exists st'. split; [exact R|]. split; [exact S'|]. split; intros _; [apply O'|apply B']; left; reflexivity. }
    destruct (text_eqb t (tx "#SAMPLESTART")) eqn:E4.
    { apply text_eqb_eq in E4. subst t. cbn [orb] in H. apply andb_true_iff in H. destruct H as [H1 H2].
      destruct (parse_decimal v) as [q|] eqn:Pq; [|discriminate].
      assert (M : meta_step st (tx "#SAMPLESTART") v = Some (mkMeta (m_txt st) (m_offset st) (Qred (q * 1000)) (m_slen st) (m_sel st) (m_bcs st) (m_stops st))).
      { unfold meta_step. change (index_of (tx "#SAMPLESTART") text_tags 0) with (@None nat). cbv beta iota zeta.
        change (text_eqb (tx "#SAMPLESTART") (tx "#OFFSET")) with false. change (text_eqb (tx "#SAMPLESTART") (tx "#BPMS")) with false.
        change (text_eqb (tx "#SAMPLESTART") (tx "#STOPS")) with false. change (text_eqb (tx "#SAMPLESTART") (tx "#SAMPLESTART")) with true.
        cbv iota. rewrite Sv, Pq. reflexivity. }
      rewrite M. match goal with |- context [read_fields ?s1 r] =>
        destruct (IH so sb s1 H2 FS' Ho' Hb' ltac:(cbn; auto) ltac:(cbn; auto) ltac:(cbn; auto)) as (st' & R & S' & O' & B') end.
      exists st'. split; [exact R|]. split; [exact S'|].
      split; intros [K|K]; [apply O'; left; exact K|apply O'; right; apply (HT _ E1 K)|apply B'; left; exact K|apply B'; right; apply (HT _ E2 K)]. }
    destruct (text_eqb t (tx "#SAMPLELENGTH")) eqn:E5.
    { apply text_eqb_eq in E5. subst t. cbn [orb] in H. apply andb_true_iff in H. destruct H as [H1 H2].
      destruct (parse_decimal v) as [q|] eqn:Pq; [|discriminate].
      assert (M : meta_step st (tx "#SAMPLELENGTH") v = Some (mkMeta (m_txt st) (m_offset st) (m_sstart st) (Qred (q * 1000)) (m_sel st) (m_bcs st) (m_stops st))).
      { unfold meta_step. change (index_of (tx "#SAMPLELENGTH") text_tags 0) with (@None nat). cbv beta iota zeta.
        change (text_eqb (tx "#SAMPLELENGTH") (tx "#OFFSET")) with false. change (text_eqb (tx "#SAMPLELENGTH") (tx "#BPMS")) with false.
        change (text_eqb (tx "#SAMPLELENGTH") (tx "#STOPS")) with false. change (text_eqb (tx "#SAMPLELENGTH") (tx "#SAMPLESTART")) with false.
        change (text_eqb (tx "#SAMPLELENGTH") (tx "#SAMPLELENGTH")) with true.
        cbv iota. rewrite Sv, Pq. reflexivity. }
      rewrite M. match goal with |- context [read_fields ?s1 r] =>
        destruct (IH so sb s1 H2 FS' Ho' Hb' ltac:(cbn; auto) ltac:(cbn; auto) ltac:(cbn; auto)) as (st' & R & S' & O' & B') end.
      exists st'. split; [exact R|]. split; [exact S'|].
      split; intros [K|K]; [apply O'; left; exact K|apply O'; right; apply (HT _ E1 K)|apply B'; left; exact K|apply B'; right; apply (HT _ E2 K)]. }
    cbn [orb] in H.
    destruct (meta_step_other st t v E1 E2 E3 E4 E5) as (st1 & M & A1 & A2 & A3). rewrite M.
    destruct (IH so sb st1 H FS' Ho' Hb') as (st' & R & S' & O' & B'); try congruence.
    { intro K. rewrite A1. exact (Hso K). } { intro K. rewrite A2. exact (Hsb K). }
    exists st'. split; [exact R|]. split; [exact S'|].
    split; intros [K|K]; [apply O'; left; exact K|apply O'; right; apply (HT _ E1 K)|apply B'; left; exact K|apply B'; right; apply (HT _ E2 K)].
Qed.
End Run.

(* ------------------------------------------------------------------ consequences of hdr_scan for the lookups *)
Lemma hdr_scan_rest so sb t v r : hdr_scan so sb ((t, v) :: r) = true -> exists so' sb', hdr_scan so' sb' r = true
  /\ (text_eqb t (tx "#OFFSET") = true -> so' = true) /\ (text_eqb t (tx "#BPMS") = true -> sb' = true).
Proof.
  cbn [hdr_scan]. intro H.
  destruct (text_eqb t (tx "#OFFSET")) eqn:E1.
  { apply andb_true_iff in H. destruct H as [_ H]. exists true, sb. split; [exact H|]. split; [auto|].
    intro K. apply text_eqb_eq in E1, K. subst t. discriminate. }
  destruct (text_eqb t (tx "#BPMS")) eqn:E2.
  { apply andb_true_iff in H. destruct H as [_ H]. exists so, true. split; [exact H|]. split; [discriminate|auto]. }
  destruct (text_eqb t (tx "#STOPS")).
  { apply andb_true_iff in H. destruct H as [_ H]. exists so, sb. split; [exact H|]. split; discriminate. }
  destruct (text_eqb t (tx "#SAMPLESTART") || text_eqb t (tx "#SAMPLELENGTH")).
  { apply andb_true_iff in H. destruct H as [_ H]. exists so, sb. split; [exact H|]. split; discriminate. }
  exists so, sb. split; [exact H|]. split; discriminate.
Qed.

Lemma unique_offset fields : forall so sb, hdr_scan so sb fields = true ->
  forall v, In (tx "#OFFSET", v) fields -> forall cur, lookup_last (tx "#OFFSET") fields cur = Some v.
Proof.
  induction fields as [|[t v0] r IH]; intros so sb H v K cur; [destruct K|].
  destruct (hdr_scan_rest so sb t v0 r H) as (so' & sb' & Hr & Ho & _). cbn [lookup_last].
  destruct (text_eqb t (tx "#OFFSET")) eqn:E.
  - assert (N : forall v', ~ In (tx "#OFFSET", v') r).
    { intros v' K'. pose proof (hdr_scan_offset_unique r so' sb' Hr (ex_intro _ v' K')) as F. rewrite (Ho eq_refl) in F. discriminate. }
    destruct K as [K|K]; [|exfalso; exact (N v K)]. inversion K; subst. apply lookup_last_absent. exact N.
  - destruct K as [K|K]; [inversion K; subst; rewrite text_eqb_refl in E; discriminate|]. exact (IH so' sb' Hr v K cur).
Qed.
Lemma unique_bpms fields : forall so sb, hdr_scan so sb fields = true ->
  forall v, In (tx "#BPMS", v) fields -> forall cur, lookup_last (tx "#BPMS") fields cur = Some v.
Proof.
  induction fields as [|[t v0] r IH]; intros so sb H v K cur; [destruct K|].
  destruct (hdr_scan_rest so sb t v0 r H) as (so' & sb' & Hr & _ & Hb). cbn [lookup_last].
  destruct (text_eqb t (tx "#BPMS")) eqn:E.
  - assert (N : forall v', ~ In (tx "#BPMS", v') r).
    { intros v' K'. pose proof (hdr_scan_bpms_unique r so' sb' Hr (ex_intro _ v' K')) as F. rewrite (Hb eq_refl) in F. discriminate. }
    destruct K as [K|K]; [|exfalso; exact (N v K)]. inversion K; subst. apply lookup_last_absent. exact N.
  - destruct K as [K|K]; [inversion K; subst; rewrite text_eqb_refl in E; discriminate|]. exact (IH so' sb' Hr v K cur).
Qed.

Lemma hdr_scan_bpms_parse fields : forall so sb, hdr_scan so sb fields = true ->
  forall v, In (tx "#BPMS", v) fields -> is_someb (bpms_parse v) = true.
Proof.
  induction fields as [|[t v0] r IH]; intros so sb H v K; [destruct K|].
  destruct (hdr_scan_rest so sb t v0 r H) as (so' & sb' & Hr & _ & _).
  destruct K as [K|K]; [|exact (IH so' sb' Hr v K)]. inversion K; subst. cbn [hdr_scan] in H.
  change (text_eqb (tx "#BPMS") (tx "#OFFSET")) with false in H. change (text_eqb (tx "#BPMS") (tx "#BPMS")) with true in H. cbv iota in H.
  apply andb_true_iff in H. destruct H as [H _]. apply andb_true_iff in H. destruct H as [_ H]. exact H.
Qed.

Lemma read_metadata_app a b st : read_metadata st (a ++ b) = match read_metadata st a with Some st' => read_metadata st' b | None => None end.
Proof. revert st. induction a as [|x a IH]; intro st; [reflexivity|]. cbn [app read_metadata]. destruct (read_meta_token st x); [apply IH|reflexivity]. Qed.
