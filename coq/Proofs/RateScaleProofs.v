(* Uniform scaling of a timing map (Map.rate: every time divided by r > 0, every tempo multiplied by r): no position
   changes.  The re-derived tempo script, TimingMap.snaps, the millisecond form of the script, and the specification
   functions of C10 (time_of, change times, the tempo active at a time, cumulative beats, the snap-grid test, the boolean
   domains) commute with the scaling.  Used for the closure of the writer domains under rate (C13). *)
From Coq Require Import ZArith QArith Qround Qabs List Bool Lia Lqa.
From RV Require Import Base.PyNum Timing.Snapper Timing.Snap Timing.TimingMap Timing.Integrate Timing.Domain Timing.Domain2
  Proofs.SnapperProofs Proofs.TimingProofs.
Import ListNotations.
Open Scope Q_scope.

Definition bco_sc (r : Q) (b : bco) : bco := mkBco (Qred (bo_bpm b * r)) (bo_met b) (Qred (bo_off b / r)).
Definition bcs_sc (r : Q) (c : bcs) : bcs := mkBcs (Qred (bs_bpm c * r)) (bs_met c) (bs_snap c).

(* ------------------------------------------------------------------ A. numbers *)
Lemma Qlt_bool_comp a b c d : a == c -> b == d -> Qlt_bool a b = Qlt_bool c d.
Proof. intros E1 E2. unfold Qlt_bool. rewrite E1, E2. reflexivity. Qed.
Lemma Qle_bool_comp a b c d : a == c -> b == d -> Qle_bool a b = Qle_bool c d.
Proof. intros E1 E2. rewrite E1, E2. reflexivity. Qed.
Lemma Qeq_bool_comp a b c d : a == c -> b == d -> Qeq_bool a b = Qeq_bool c d.
Proof. intros E1 E2. rewrite E1, E2. reflexivity. Qed.
Lemma qfloordiv_comp a b c d : a == c -> b == d -> qfloordiv a b = qfloordiv c d.
Proof. intros E1 E2. unfold qfloordiv. apply Qfloor_comp. rewrite E1, E2. reflexivity. Qed.
Lemma qmod_comp a b c d : a == c -> b == d -> qmod a b == qmod c d.
Proof. intros E1 E2. unfold qmod. rewrite (Qfloor_comp (a / b) (c / d)) by (rewrite E1, E2; reflexivity). rewrite E1, E2. reflexivity. Qed.
Lemma frac_comp' a b : a == b -> frac a == frac b.
Proof. intro E. unfold frac. rewrite (Qfloor_comp a b E), E. reflexivity. Qed.

Lemma sc_bisect_pick_comp a b : a == b -> forall l v0, bisect_pick v0 l a = bisect_pick v0 l b.
Proof.
  intros E. induction l as [|w l' IH]; intros v0; cbn [bisect_pick]; auto.
  rewrite (Qle_bool_comp a w b w E (Qeq_refl _)).
  assert (E2 : Qlt_bool (a - v0) (w - a) = Qlt_bool (b - v0) (w - b)) by (apply Qlt_bool_comp; rewrite E; reflexivity).
  rewrite E2, IH. reflexivity.
Qed.
Lemma sc_snap_frac_comp tbl a b : a == b -> snap_frac tbl a = snap_frac tbl b.
Proof.
  intros E. destruct tbl as [|v0 l]; cbn [snap_frac]; auto.
  rewrite (Qle_bool_comp a v0 b v0 E (Qeq_refl _)), (sc_bisect_pick_comp a b E). reflexivity.
Qed.

Section Scale.
  Variable r : Q.
  Hypothesis Hr : 0 < r.

  Lemma r_ne : ~ r == 0.
  Proof. intro E. rewrite E in Hr. apply (Qlt_irrefl _ Hr). Qed.
  Lemma rinv_pos : 0 < / r.
  Proof. apply Qinv_lt_0_compat. exact Hr. Qed.

  Lemma div_le_iff a b : a / r <= b / r <-> a <= b.
  Proof. unfold Qdiv. apply Qmult_le_r. exact rinv_pos. Qed.
  Lemma div_lt_iff a b : a / r < b / r <-> a < b.
  Proof. unfold Qdiv. apply Qmult_lt_r. exact rinv_pos. Qed.
  Lemma Qle_bool_div a b : Qle_bool (a / r) (b / r) = Qle_bool a b.
  Proof.
    destruct (Qle_bool a b) eqn:E.
    - apply Qle_bool_iff. apply div_le_iff. apply Qle_bool_iff. exact E.
    - destruct (Qle_bool (a / r) (b / r)) eqn:E2; [|reflexivity]. apply Qle_bool_iff in E2. apply (proj1 (div_le_iff a b)) in E2.
      apply (proj2 (Qle_bool_iff a b)) in E2. congruence.
  Qed.
  Lemma Qlt_bool_div a b : Qlt_bool (a / r) (b / r) = Qlt_bool a b.
  Proof. unfold Qlt_bool. rewrite Qle_bool_div. reflexivity. Qed.
  Lemma Qeq_bool_div a b : Qeq_bool (a / r) (b / r) = Qeq_bool a b.
  Proof.
    destruct (Qeq_bool a b) eqn:E.
    - apply Qeq_bool_iff. apply Qeq_bool_iff in E. rewrite E. reflexivity.
    - destruct (Qeq_bool (a / r) (b / r)) eqn:E2; [|reflexivity]. apply Qeq_bool_iff in E2.
      assert (X : a == b).
      { assert (Y : a == a / r * r) by (field; exact r_ne). assert (Z : b == b / r * r) by (field; exact r_ne). rewrite Y, Z, E2. reflexivity. }
      apply Qeq_bool_iff in X. congruence.
  Qed.
  Lemma Qlt_bool_0_mul a : Qlt_bool 0 (a * r) = Qlt_bool 0 a.
  Proof.
    destruct (Qlt_bool 0 a) eqn:E.
    - apply Qlt_bool_iff. apply Qlt_bool_iff in E. apply Qmult_lt_0_compat; assumption.
    - destruct (Qlt_bool 0 (a * r)) eqn:E2; [|reflexivity]. apply Qlt_bool_iff in E2. apply Qlt_bool_false in E.
      exfalso. assert (a * r <= 0 * r) by (apply Qmult_le_compat_r; [exact E|apply Qlt_le_weak; exact Hr]). lra.
  Qed.

  (* (a / r) / (m / r) = a / m, whatever m *)
  Lemma div_div a m : (a / r) / (m / r) == a / m.
  Proof.
    unfold Qdiv. rewrite Qinv_mult_distr, Qinv_involutive.
    assert (E : / r * r == 1) by (rewrite Qmult_comm; apply Qmult_inv_r; exact r_ne).
    transitivity (a * / m * (/ r * r)); [ring|]. rewrite E. ring.
  Qed.
  Lemma beat_len_sc b : beat_len (Qred (b * r)) == beat_len b / r.
  Proof. unfold beat_len, Qdiv. rewrite Qred_correct, Qinv_mult_distr. ring. Qed.
  Lemma measure_len_sc b m : measure_len (Qred (b * r)) m == measure_len b m / r.
  Proof. unfold measure_len. rewrite beat_len_sc. unfold Qdiv. ring. Qed.

  (* ------------------------------------------------------------------ B. Snap.__post_init__ / from_offset *)
  Lemma snap_norm_comp m b b' met : b == b' -> snap_norm m b met = snap_norm m b' met.
  Proof.
    intro E. unfold snap_norm.
    set (b1 := if (m <? 0)%Z then b + inject_Z m * met else b). set (b1' := if (m <? 0)%Z then b' + inject_Z m * met else b').
    assert (E1 : b1 == b1') by (unfold b1, b1'; destruct (m <? 0)%Z; rewrite E; reflexivity).
    rewrite (Qlt_bool_comp b1 0 b1' 0 E1 (Qeq_refl _)), (Qle_bool_comp met b1 met b1' (Qeq_refl _) E1).
    destruct (Qlt_bool b1' 0 || Qle_bool met b1').
    - cbn [fst snd]. rewrite (qfloordiv_comp b1 met b1' met E1 (Qeq_refl _)).
      rewrite (Qlt_bool_comp (qmod b1 met) 0 (qmod b1' met) 0 (qmod_comp _ _ _ _ E1 (Qeq_refl _)) (Qeq_refl _)).
      destruct (Qlt_bool (qmod b1' met) 0 || (m + qfloordiv b1' met <? 0)%Z); [reflexivity|].
      f_equal. f_equal. apply Qred_complete. apply qmod_comp; [exact E1|reflexivity].
    - cbn [fst snd]. rewrite (Qlt_bool_comp b1 0 b1' 0 E1 (Qeq_refl _)).
      destruct (Qlt_bool b1' 0 || (m <? 0)%Z); [reflexivity|]. f_equal. f_equal. apply Qred_complete. exact E1.
  Qed.

  Variable tbl : list Q.

  Lemma snapper_snap_eq x y : x == y -> snapper_snap tbl x = snapper_snap tbl y.
  Proof.
    intro E. unfold snapper_snap. rewrite (sc_snap_frac_comp tbl (frac x) (frac y) (frac_comp' x y E)), (Qfloor_comp x y E). reflexivity.
  Qed.

  Lemma snap_from_offset_sc o' o c cs : o' == o / r -> snap_from_offset tbl o' (bco_sc r c) cs = snap_from_offset tbl o c cs.
  Proof.
    intro Eo. unfold snap_from_offset. cbn [bco_sc bo_off bo_bpm bo_met].
    set (del := o - bo_off c). set (del' := o' - Qred (bo_off c / r)).
    assert (Ed : del' == del / r) by (unfold del, del'; rewrite Eo, Qred_correct; unfold Qdiv; ring).
    set (ml := measure_len (bo_bpm c) (bo_met c)). set (ml' := measure_len (Qred (bo_bpm c * r)) (bo_met c)).
    assert (Em : ml' == ml / r) by apply measure_len_sc.
    assert (Eq : qfloordiv del' ml' = qfloordiv del ml).
    { unfold qfloordiv. apply Qfloor_comp. rewrite Ed, Em. apply div_div. }
    rewrite Eq. apply snap_norm_comp.
    assert (Ex : (del' - inject_Z (qfloordiv del ml) * ml') / beat_len (Qred (bo_bpm c * r))
                 == (del - inject_Z (qfloordiv del ml) * ml) / beat_len (bo_bpm c)).
    { rewrite beat_len_sc, Ed, Em. rewrite <- (div_div (del - inject_Z (qfloordiv del ml) * ml) (beat_len (bo_bpm c))).
      apply Qdiv_comp; [unfold Qdiv; ring|reflexivity]. }
    rewrite (snapper_snap_eq _ _ Ex). reflexivity.
  Qed.

  (* ------------------------------------------------------------------ C. sorting *)
  Lemma bco_lt_sc a b : bco_lt (bco_sc r a) (bco_sc r b) = bco_lt a b.
  Proof.
    unfold bco_lt. cbn [bco_sc bo_off]. rewrite (Qlt_bool_comp _ _ (bo_off a / r) (bo_off b / r) (Qred_correct _) (Qred_correct _)).
    apply Qlt_bool_div.
  Qed.
  Lemma insert_by_map {A B} (f : A -> B) (lt : A -> A -> bool) (lt' : B -> B -> bool) :
    (forall a b, lt' (f a) (f b) = lt a b) -> forall x l, insert_by lt' (f x) (map f l) = map f (insert_by lt x l).
  Proof.
    intros H x l. induction l as [|y l IH]; [reflexivity|]. cbn [map insert_by]. rewrite H.
    destruct (negb (lt y x)); [reflexivity|]. cbn [map]. rewrite IH. reflexivity.
  Qed.
  Lemma sort_by_map {A B} (f : A -> B) (lt : A -> A -> bool) (lt' : B -> B -> bool) :
    (forall a b, lt' (f a) (f b) = lt a b) -> forall l, sort_by lt' (map f l) = map f (sort_by lt l).
  Proof.
    intros H l. unfold sort_by. induction l as [|x l IH]; [reflexivity|]. cbn [map fold_right]. rewrite IH.
    apply (insert_by_map f lt lt' H).
  Qed.
  Lemma sort_bco_sc l : sort_by bco_lt (map (bco_sc r) l) = map (bco_sc r) (sort_by bco_lt l).
  Proof. apply sort_by_map. intros a b. apply bco_lt_sc. Qed.

  (* ------------------------------------------------------------------ D. the re-derived script *)
  Lemma bco_to_bcs_go_sc : forall rest p s,
    bco_to_bcs_go tbl (bco_sc r p) s (map (bco_sc r) rest) = option_map (map (bcs_sc r)) (bco_to_bcs_go tbl p s rest).
  Proof.
    induction rest as [|c rest IH]; intros p s; [reflexivity|]. cbn [map bco_to_bcs_go].
    assert (E : snap_from_offset tbl (bo_off (bco_sc r c)) (bco_sc r p) s = snap_from_offset tbl (bo_off c) p s).
    { apply snap_from_offset_sc. cbn [bco_sc bo_off]. apply Qred_correct. }
    rewrite E. destruct (snap_from_offset tbl (bo_off c) p s) as [s1|]; [|reflexivity].
    cbn [bco_sc bo_met bo_bpm]. change (mkBco (Qred (bo_bpm c * r)) (bo_met c) (Qred (bo_off c / r))) with (bco_sc r c).
    rewrite IH. destruct (bco_to_bcs_go tbl c _ rest); reflexivity.
  Qed.
  Lemma bco_to_bcs_sc l : bco_to_bcs tbl (map (bco_sc r) l) = option_map (map (bcs_sc r)) (bco_to_bcs tbl l).
  Proof.
    unfold bco_to_bcs. rewrite sort_bco_sc. destruct (sort_by bco_lt l) as [|p rest]; [reflexivity|]. cbn [map].
    cbn [bco_sc bo_met]. destruct (snap_norm 0 0 (bo_met p)) as [s0|]; [|reflexivity].
    change (mkBco (Qred (bo_bpm p * r)) (bo_met p) (Qred (bo_off p / r))) with (bco_sc r p).
    rewrite bco_to_bcs_go_sc. destruct (bco_to_bcs_go tbl p s0 rest); reflexivity.
  Qed.

  (* ------------------------------------------------------------------ E. TimingMap.snaps *)
  Definition pr_sc (x : bco * bcs) : bco * bcs := (bco_sc r (fst x), bcs_sc r (snd x)).
  Lemma skip_off_gt_sc q' q : q' == q / r -> forall cur, skip_off_gt q' (map pr_sc cur) = option_map (map pr_sc) (skip_off_gt q cur).
  Proof.
    intros Eq. induction cur as [|[o s] cur IH]; [reflexivity|]. cbn [map pr_sc fst snd skip_off_gt].
    assert (E : Qlt_bool q' (bo_off (bco_sc r o)) = Qlt_bool q (bo_off o)).
    { cbn [bco_sc bo_off]. rewrite (Qlt_bool_comp _ _ (q / r) (bo_off o / r) Eq (Qred_correct _)). apply Qlt_bool_div. }
    rewrite E. destruct (Qlt_bool q (bo_off o)); [exact IH|reflexivity].
  Qed.
  Lemma sweep_snaps_sc : forall qs' qs cur,
    Forall2 (fun a b : nat * Q => fst a = fst b /\ snd a == snd b / r) qs' qs ->
    sweep_snaps tbl (map pr_sc cur) qs' = sweep_snaps tbl cur qs.
  Proof.
    induction qs' as [|[i q'] qs' IH]; intros qs cur F; inversion F as [|? [j q] ? qs0 [Ei Eq] F']; subst; [reflexivity|].
    cbn [fst snd] in Ei, Eq. subst j. cbn [sweep_snaps]. rewrite (skip_off_gt_sc q' q Eq).
    destruct (skip_off_gt q cur) as [[|[o s] cur']|]; try reflexivity. cbn [option_map map pr_sc fst snd].
    change (bs_snap (bcs_sc r s)) with (bs_snap s). rewrite (snap_from_offset_sc q' q o (bs_snap s) Eq).
    change (pr_sc (o, s) :: map pr_sc cur') with (map pr_sc ((o, s) :: cur')).
    rewrite (IH qs0 ((o, s) :: cur') F'). reflexivity.
  Qed.
  Lemma idx_q_lt_sc (a' a b' b : nat * Q) : snd a' == snd a / r -> snd b' == snd b / r -> idx_q_lt a' b' = idx_q_lt a b.
  Proof. intros Ea Eb. unfold idx_q_lt. rewrite (Qlt_bool_comp _ _ _ _ Ea Eb). apply Qlt_bool_div. Qed.
  Definition q_rel (a b : nat * Q) : Prop := fst a = fst b /\ snd a == snd b / r.
  Lemma insert_by_rel x' x : q_rel x' x -> forall l' l, Forall2 q_rel l' l -> Forall2 q_rel (insert_by idx_q_lt x' l') (insert_by idx_q_lt x l).
  Proof.
    intros Rx. induction 1 as [|y' y l' l Ry F IH]; cbn [insert_by]; [constructor; [exact Rx|constructor]|].
    rewrite (idx_q_lt_sc y' y x' x (proj2 Ry) (proj2 Rx)). destruct (negb (idx_q_lt y x)).
    - constructor; [exact Rx|]. constructor; assumption.
    - constructor; assumption.
  Qed.
  Lemma sort_by_rel l' l : Forall2 q_rel l' l -> Forall2 q_rel (sort_by idx_q_lt l') (sort_by idx_q_lt l).
  Proof. unfold sort_by. induction 1 as [|x' x l' l Rx F IH]; cbn [fold_right]; [constructor|]. apply insert_by_rel; assumption. Qed.
  Lemma forall2_rev {A B} (R : A -> B -> Prop) l l' : Forall2 R l l' -> Forall2 R (rev l) (rev l').
  Proof. induction 1; cbn [rev]; [constructor|]. apply Forall2_app; [assumption|constructor; [assumption|constructor]]. Qed.
  Lemma combine_seq_rel : forall os' os n, Forall2 (fun a b => a == b / r) os' os ->
    Forall2 q_rel (combine (seq n (length os')) os') (combine (seq n (length os)) os).
  Proof.
    induction os' as [|a os' IH]; intros os n F; inversion F as [|? b ? os0 E F']; subst; [constructor|].
    cbn [length seq combine]. constructor; [split; [reflexivity|exact E]|]. apply IH. exact F'.
  Qed.
  Lemma combine_map_pr (bcos : list bco) (bcss : list bcs) : combine (map (bco_sc r) bcos) (map (bcs_sc r) bcss) = map pr_sc (combine bcos bcss).
  Proof. revert bcss. induction bcos as [|b bcos IH]; intros [|c bcss]; cbn; try reflexivity. f_equal. apply IH. Qed.

  Lemma sc_forall2_length {A B} (R : A -> B -> Prop) l l' : Forall2 R l l' -> length l = length l'.
  Proof. induction 1; cbn; auto. Qed.
  (* MAIN: TimingMap.snaps of the scaled map at the scaled times returns the very same positions *)
  Theorem tm_snaps_sc bcos os' os : Forall2 (fun a b => a == b / r) os' os ->
    tm_snaps tbl (map (bco_sc r) bcos) os' = tm_snaps tbl bcos os.
  Proof.
    intro F. unfold tm_snaps. rewrite sort_bco_sc, bco_to_bcs_sc.
    destruct (bco_to_bcs tbl (sort_by bco_lt bcos)) as [bcss|]; [|reflexivity]. cbn [option_map].
    rewrite combine_map_pr, <- map_rev.
    rewrite (sweep_snaps_sc _ (rev (sort_by idx_q_lt (combine (seq 0 (length os)) os)))).
    - rewrite (sc_forall2_length _ _ _ F). reflexivity.
    - apply forall2_rev. apply sort_by_rel. apply combine_seq_rel. exact F.
  Qed.

  (* ------------------------------------------------------------------ F. the millisecond form of a script *)
  Lemma snap_offset_sc d b m : snap_offset d (Qred (b * r)) m == snap_offset d b m / r.
  Proof. unfold snap_offset. rewrite measure_len_sc, beat_len_sc. unfold Qdiv. ring. Qed.
  Lemma from_bcs_go_sc : forall rest off' off p, off' == off / r ->
    from_bcs_go off' (bcs_sc r p) (map (bcs_sc r) rest) = option_map (map (bco_sc r)) (from_bcs_go off p rest).
  Proof.
    induction rest as [|c rest IH]; intros off' off p E; [reflexivity|]. cbn [map from_bcs_go].
    change (bs_snap (bcs_sc r c)) with (bs_snap c). change (bs_snap (bcs_sc r p)) with (bs_snap p).
    destruct (snap_sub (bs_snap c) (bs_snap p)) as [d|]; [|reflexivity].
    cbn [bcs_sc bs_bpm bs_met].
    set (o1 := Qred (off + snap_offset d (bs_bpm p) (bs_met p))).
    assert (E1 : Qred (off' + snap_offset d (Qred (bs_bpm p * r)) (bs_met p)) = Qred (o1 / r)).
    { apply Qred_complete. unfold o1. rewrite snap_offset_sc, E. rewrite (Qred_correct (off + snap_offset d (bs_bpm p) (bs_met p))). unfold Qdiv. ring. }
    rewrite E1. change (mkBcs (Qred (bs_bpm c * r)) (bs_met c) (bs_snap c)) with (bcs_sc r c).
    rewrite (IH (Qred (o1 / r)) o1 c (Qred_correct _)). destruct (from_bcs_go o1 c rest); reflexivity.
  Qed.
  Lemma bcs_lt_sc a b : bcs_lt (bcs_sc r a) (bcs_sc r b) = bcs_lt a b.
  Proof. reflexivity. Qed.
  Lemma from_bcs_sc init l : from_bcs (Qred (init / r)) (map (bcs_sc r) l) = option_map (map (bco_sc r)) (from_bcs init l).
  Proof.
    unfold from_bcs. rewrite (sort_by_map (bcs_sc r) bcs_lt bcs_lt bcs_lt_sc).
    destruct (sort_by bcs_lt l) as [|p rest]; [reflexivity|]. cbn [map]. change (bs_snap (bcs_sc r p)) with (bs_snap p).
    destruct (negb ((s_m (bs_snap p) =? 0)%Z && Qeq_bool (s_b (bs_snap p)) 0)); [reflexivity|].
    rewrite (from_bcs_go_sc rest (Qred (init / r)) init p (Qred_correct _)). destruct (from_bcs_go init p rest); reflexivity.
  Qed.

  (* ------------------------------------------------------------------ G. the specification functions *)
  Lemma time_of_go_sc : forall rest t' t cur s, t' == t / r ->
    time_of_go t' (bcs_sc r cur) (map (bcs_sc r) rest) s == time_of_go t cur rest s / r.
  Proof.
    induction rest as [|n rest IH]; intros t' t cur s E; cbn [map time_of_go].
    - cbn [bcs_sc bs_bpm bs_met bs_snap]. rewrite beat_len_sc, E. unfold Qdiv. ring.
    - change (bs_snap (bcs_sc r n)) with (bs_snap n). destruct (snap_le (bs_snap n) s).
      + apply IH. cbn [bcs_sc bs_bpm bs_met bs_snap]. rewrite beat_len_sc, E. unfold Qdiv. ring.
      + cbn [bcs_sc bs_bpm bs_met bs_snap]. rewrite beat_len_sc, E. unfold Qdiv. ring.
  Qed.
  Lemma time_of_sc init' init l s : init' == init / r -> time_of init' (map (bcs_sc r) l) s == time_of init l s / r.
  Proof. intro E. destruct l as [|c rest]; [cbn; unfold Qdiv; ring|]. cbn [map time_of]. apply time_of_go_sc. exact E. Qed.

  Lemma active_go_sc : forall rest t cur s, snd (active_go t (bcs_sc r cur) (map (bcs_sc r) rest) s) = bcs_sc r (snd (active_go 0 cur rest s)).
  Proof.
    induction rest as [|n rest IH]; intros t cur s; cbn [map active_go]; [reflexivity|].
    change (bs_snap (bcs_sc r n)) with (bs_snap n). destruct (snap_le (bs_snap n) s); [|reflexivity].
    rewrite IH. clear. generalize (0 + beat_len (bs_bpm cur) * seg_beats (bs_met cur) (bs_snap cur) (bs_snap n)). intro t.
    revert n. generalize 0. revert t. induction rest as [|m rest IH]; intros t t2 n; cbn [active_go]; [reflexivity|].
    destruct (snap_le (bs_snap m) s); [apply IH|reflexivity].
  Qed.

  Definition t_rel (a b : Q * bcs) : Prop := fst a == fst b / r /\ snd a = bcs_sc r (snd b).
  Lemma change_times_go_sc : forall rest t' t cur, t' == t / r ->
    Forall2 (fun a b => a == b / r) (change_times_go t' (bcs_sc r cur) (map (bcs_sc r) rest)) (change_times_go t cur rest).
  Proof.
    induction rest as [|n rest IH]; intros t' t cur E; cbn [map change_times_go]; [constructor|].
    assert (E1 : t' + beat_len (bs_bpm (bcs_sc r cur)) * seg_beats (bs_met (bcs_sc r cur)) (bs_snap (bcs_sc r cur)) (bs_snap (bcs_sc r n))
                 == (t + beat_len (bs_bpm cur) * seg_beats (bs_met cur) (bs_snap cur) (bs_snap n)) / r).
    { cbn [bcs_sc bs_bpm bs_met bs_snap]. rewrite beat_len_sc, E. unfold Qdiv. ring. }
    constructor; [exact E1|]. apply IH. exact E1.
  Qed.
  Lemma changes_sc init' init l : init' == init / r ->
    Forall2 t_rel (combine (change_times init' (map (bcs_sc r) l)) (map (bcs_sc r) l)) (combine (change_times init l) l).
  Proof.
    intro E. destruct l as [|c rest]; [constructor|]. cbn [map change_times combine]. constructor; [split; [exact E|reflexivity]|].
    pose proof (change_times_go_sc rest init' init c E) as F. revert F.
    generalize (change_times_go init' (bcs_sc r c) (map (bcs_sc r) rest)) (change_times_go init c rest). clear.
    intros a b F. revert rest. induction F as [|x y a b Exy F IH]; intros [|n rest]; cbn [map combine]; try constructor.
    - split; [exact Exy|reflexivity].
    - apply IH.
  Qed.
  Lemma active_by_time_sc o' o : o' == o / r -> forall rest' rest cur' cur, t_rel cur' cur -> Forall2 t_rel rest' rest ->
    t_rel (active_by_time cur' rest' o') (active_by_time cur rest o).
  Proof.
    intros Eo. induction rest' as [|n' rest' IH]; intros rest cur' cur Rc F; inversion F as [|? n ? rest0 Rn F']; subst; cbn [active_by_time]; [exact Rc|].
    rewrite (Qle_bool_comp _ _ (fst n / r) (o / r) (proj1 Rn) Eo), Qle_bool_div.
    destruct (Qle_bool (fst n) o); [apply IH; assumption|exact Rc].
  Qed.
  Lemma active_at_time_sc init' init l o' o : init' == init / r -> o' == o / r -> l <> [] ->
    t_rel (active_at_time init' (map (bcs_sc r) l) o') (active_at_time init l o).
  Proof.
    intros Ei Eo Nl. unfold active_at_time. pose proof (changes_sc init' init l Ei) as F.
    destruct l as [|c rest]; [contradiction|]. cbn [map change_times combine] in *. inversion F as [|? ? ? ? Rc F']; subst.
    apply (active_by_time_sc o' o Eo); assumption.
  Qed.

  Lemma on_gridb_comp x y : x == y -> on_gridb tbl x = on_gridb tbl y.
  Proof.
    intro E. unfold on_gridb. induction tbl as [|v t IH]; [reflexivity|]. cbn [existsb].
    rewrite (Qeq_bool_comp (frac x) v (frac y) v (frac_comp' x y E) (Qeq_refl _)), IH. reflexivity.
  Qed.
  Lemma time_on_gridb_sc init' init l o' o : init' == init / r -> o' == o / r -> l <> [] ->
    time_on_gridb tbl init' (map (bcs_sc r) l) o' = time_on_gridb tbl init l o.
  Proof.
    intros Ei Eo Nl. unfold time_on_gridb. cbv zeta. destruct (active_at_time_sc init' init l o' o Ei Eo Nl) as [E1 E2].
    apply on_gridb_comp. rewrite E2. cbn [bcs_sc bs_bpm]. rewrite beat_len_sc, E1, Eo.
    rewrite <- (div_div (o - fst (active_at_time init l o)) (beat_len (bs_bpm (snd (active_at_time init l o))))).
    apply Qdiv_comp; [unfold Qdiv; ring|reflexivity].
  Qed.

  Lemma beats_at_go_sc o' o : o' == o / r -> forall rest' rest acc' acc cur' cur, acc' == acc -> t_rel cur' cur -> Forall2 t_rel rest' rest ->
    beats_at_go acc' cur' rest' o' == beats_at_go acc cur rest o.
  Proof.
    intros Eo. induction rest' as [|n' rest' IH]; intros rest acc' acc cur' cur Ea [Ec1 Ec2] F; inversion F as [|? n ? rest0 Rn F']; subst; cbn [beats_at_go].
    - rewrite Ec2, Ea, Ec1, Eo. cbn [bcs_sc bs_bpm]. rewrite Qred_correct. field. split; [discriminate|exact r_ne].
    - rewrite (Qle_bool_comp _ _ (fst n / r) (o / r) (proj1 Rn) Eo), Qle_bool_div. destruct (Qle_bool (fst n) o).
      + apply IH; [|exact Rn|exact F']. rewrite Ec2, Ea, Ec1, (proj1 Rn). cbn [bcs_sc bs_bpm]. rewrite Qred_correct. field. split; [discriminate|exact r_ne].
      + rewrite Ec2, Ea, Ec1, Eo. cbn [bcs_sc bs_bpm]. rewrite Qred_correct. field. split; [discriminate|exact r_ne].
  Qed.
  Lemma beats_at_sc init' init l o' o : init' == init / r -> o' == o / r ->
    beats_at init' (map (bcs_sc r) l) o' == beats_at init l o.
  Proof.
    intros Ei Eo. unfold beats_at. pose proof (changes_sc init' init l Ei) as F.
    destruct l as [|c rest]; [reflexivity|]. cbn [map change_times combine] in *. inversion F as [|? ? ? ? Rc F']; subst.
    apply (beats_at_go_sc o' o Eo); [reflexivity|assumption|assumption].
  Qed.

  (* ------------------------------------------------------------------ H. the boolean domains *)
  Lemma wfcb_sc c : wfcb (bcs_sc r c) = wfcb c.
  Proof.
    unfold wfcb. cbn [bcs_sc bs_bpm bs_met bs_snap].
    rewrite (Qlt_bool_comp 0 (Qred (bs_bpm c * r)) 0 (bs_bpm c * r) (Qeq_refl _) (Qred_correct _)), Qlt_bool_0_mul. reflexivity.
  Qed.
  Lemma node_okb_sc c : node_okb (bcs_sc r c) = node_okb c.
  Proof. unfold node_okb. rewrite wfcb_sc. reflexivity. Qed.
  Lemma script_okb_sc : forall rest p, script_okb tbl (bcs_sc r p) (map (bcs_sc r) rest) = script_okb tbl p rest.
  Proof.
    induction rest as [|c rest IH]; intro p; [reflexivity|]. cbn [map script_okb]. rewrite IH. f_equal.
    unfold step_okb. rewrite node_okb_sc. reflexivity.
  Qed.
  Lemma domainb_sc l qs : domainb tbl (map (bcs_sc r) l) qs = domainb tbl l qs.
  Proof.
    destruct l as [|c0 rest]; [reflexivity|]. cbn [map domainb]. rewrite node_okb_sc, script_okb_sc. reflexivity.
  Qed.
  Lemma same_met_sc l : same_met (map (bcs_sc r) l) = same_met l.
  Proof.
    destruct l as [|c rest]; [reflexivity|]. cbn [map same_met]. induction rest as [|x rest IH]; [reflexivity|]. cbn [map forallb]. rewrite IH. reflexivity.
  Qed.
  Lemma active_met_sc l s : active_met (map (bcs_sc r) l) s = active_met l s.
  Proof. destruct l as [|c rest]; [reflexivity|]. cbn [map active_met]. rewrite active_go_sc. reflexivity. Qed.
End Scale.
