(* C02, timing: the tempo script read from '#BPMS' is the reference script (sorting by Snap = sorting by beat); on the
   1/48 grid (C02's domain) it lies in the domain of C10's closed form (domainb) and of C11's reseating theorem
   (wf_unseated, no_extend), given that every k/48 is a snapper fraction (table obligation grid48_in_table). *)
From Coq Require Import String ZArith QArith Qround Qabs List Bool Lia Lqa Sorting.Permutation.
From RV Require Import Base.PyNum Timing.Snapper Timing.Snap Timing.TimingMap Timing.Reseat Timing.Integrate Timing.Domain
  Timing.ReseatSpec Timing.ReseatDomain
  Formats.SMText Formats.SM Formats.SMSpec Formats.SMReadDom
  Proofs.SnapperProofs Proofs.TimingProofs Proofs.RederiveProofs Proofs.ReseatProofs Proofs.SMReadMeta.
Import ListNotations.
Open Scope Q_scope.

Lemma Qlt_bool_comp a a' b b' : a == a' -> b == b' -> Qlt_bool a b = Qlt_bool a' b'.
Proof. intros E1 E2. unfold Qlt_bool. rewrite E1, E2. reflexivity. Qed.
Lemma bool_iff_eq (a b : bool) : (a = true <-> b = true) -> a = b.
Proof. destruct a, b; intros [H1 H2]; auto. symmetry; apply H1; reflexivity. Qed.

(* ------------------------------------------------------------------ positions of beats *)
Lemma snap_of_beat_facts x : let s := snap_of_beat x in
  s_m s = Qfloor (x / 4) /\ s_b s == x - 4 * inject_Z (s_m s) /\ 0 <= s_b s /\ s_b s < 4 /\ s_met s = 4.
Proof.
  cbn zeta. unfold snap_of_beat. cbn [s_m s_b s_met]. rewrite Qred_correct.
  pose proof (Qfloor_le (x / 4)) as F1. pose proof (Qlt_floor (x / 4)) as F2.
  rewrite inject_Z_plus in F2. change (inject_Z 1) with 1 in F2. set (k := inject_Z (Qfloor (x / 4))) in *.
  assert (E : x == (x / 4) * 4) by (field). split; [reflexivity|]. split; [ring|]. split; [|split; [|reflexivity]]; lra.
Qed.
Lemma snap_of_beat_nonneg x : 0 <= x -> (0 <= s_m (snap_of_beat x))%Z.
Proof.
  intro H. cbn. assert (L : inject_Z 0 <= x / 4) by (change (inject_Z 0) with 0; apply Qle_shift_div_l; lra).
  apply Qfloor_resp_le in L. rewrite Qfloor_Z in L. exact L.
Qed.

Lemma snap_lt_beats a b : snap_lt (snap_of_beat a) (snap_of_beat b) = Qlt_bool a b.
Proof.
  apply bool_iff_eq. rewrite snap_lt_iff, Qlt_bool_iff.
  destruct (snap_of_beat_facts a) as (Ma & Ba & Ba0 & Ba4 & _). destruct (snap_of_beat_facts b) as (Mb & Bb & Bb0 & Bb4 & _).
  unfold slt. set (sa := snap_of_beat a) in *. set (sb := snap_of_beat b) in *. split.
  - intros [H|[H1 H2]].
    + assert (inject_Z (s_m sa) + 1 <= inject_Z (s_m sb)).
      { change 1 with (inject_Z 1). rewrite <- inject_Z_plus, <- Zle_Qle. lia. } lra.
    + rewrite H1 in Ba. lra.
  - intro H. destruct (Z.lt_trichotomy (s_m sa) (s_m sb)) as [L|[L|L]]; [left; exact L|right; split; [exact L|rewrite L in Ba; lra]|].
    exfalso. assert (inject_Z (s_m sb) + 1 <= inject_Z (s_m sa)).
    { change 1 with (inject_Z 1). rewrite <- inject_Z_plus, <- Zle_Qle. lia. } lra.
Qed.

(* ------------------------------------------------------------------ sorting commutes with the map to positions *)
Lemma insert_by_map {A B} (f : A -> B) (lt1 : A -> A -> bool) (lt2 : B -> B -> bool) x l :
  (forall y, In y l -> lt2 (f y) (f x) = lt1 y x) -> insert_by lt2 (f x) (map f l) = map f (insert_by lt1 x l).
Proof.
  induction l as [|y l IH]; intro H; [reflexivity|]. cbn [map insert_by]. rewrite (H y (or_introl eq_refl)).
  destruct (negb (lt1 y x)); [reflexivity|]. cbn [map]. rewrite IH; [reflexivity|]. intros z Hz. apply H. right. exact Hz.
Qed.
Lemma sort_by_map {A B} (f : A -> B) (lt1 : A -> A -> bool) (lt2 : B -> B -> bool) l :
  (forall x y, lt2 (f y) (f x) = lt1 y x) -> sort_by lt2 (map f l) = map f (sort_by lt1 l).
Proof.
  intro H. unfold sort_by. induction l as [|x l IH]; [reflexivity|]. cbn [map fold_right]. rewrite IH.
  apply insert_by_map. intros y _. apply H.
Qed.

Lemma script_sorted pairs : sort_by bcs_lt (script_of_pairs pairs) = script_of_pairs (sort_by pair_lt pairs).
Proof. unfold script_of_pairs. apply sort_by_map. intros x y. unfold bcs_lt, pair_lt. cbn [bs_snap]. apply snap_lt_beats. Qed.

Lemma tempo_script_eq pairs : tempo_script pairs = script_of_pairs (sort_by pair_lt pairs).
Proof. reflexivity. Qed.

(* ------------------------------------------------------------------ a sorted list of pairs *)
Fixpoint adj_le (l : list (Q * Q)) : Prop :=
  match l with
  | a :: ((b :: _) as l') => fst a <= fst b /\ adj_le l'
  | _ => True
  end.
Lemma insert_adj_le x l : adj_le l -> adj_le (insert_by pair_lt x l).
Proof.
  induction l as [|y l IH]; intro H; [exact I|]. cbn [insert_by]. change (pair_lt y x) with (Qlt_bool (fst y) (fst x)).
  destruct (Qlt_bool (fst y) (fst x)) eqn:E; cbn [negb].
  - apply Qlt_bool_iff in E. destruct l as [|z l].
    + cbn. split; [lra|exact I].
    + destruct H as [H1 H2]. specialize (IH H2). cbn [insert_by] in IH |- *. change (pair_lt z x) with (Qlt_bool (fst z) (fst x)) in *.
      destruct (Qlt_bool (fst z) (fst x)) eqn:E2; cbn [negb] in IH |- *.
      * split; [exact H1|exact IH].
      * split; [lra|exact IH].
  - apply Qlt_bool_false in E. split; [exact E|exact H].
Qed.
Lemma sort_adj_le l : adj_le (sort_by pair_lt l).
Proof. unfold sort_by. induction l as [|x l IH]; [exact I|]. cbn [fold_right]. apply insert_adj_le. exact IH. Qed.

Fixpoint adj_lt (l : list (Q * Q)) : Prop :=
  match l with
  | a :: ((b :: _) as l') => fst a < fst b /\ adj_lt l'
  | _ => True
  end.
Lemma adj_lt_of_distinct l : adj_le l -> distinct_q (map fst l) = true -> adj_lt l.
Proof.
  induction l as [|a l IH]; intros H D; [exact I|]. destruct l as [|b l]; [exact I|]. destruct H as [H1 H2].
  cbn [map distinct_q existsb] in D. apply andb_true_iff in D. destruct D as [D1 D2].
  apply negb_true_iff, orb_false_iff in D1. destruct D1 as [D1 _].
  split; [|apply IH; assumption]. destruct (Qeq_dec (fst a) (fst b)) as [E|N]; [apply Qeq_bool_iff in E; congruence|]. lra.
Qed.

(* ------------------------------------------------------------------ the 1/48 grid *)
Lemma grid48_value x : on_grid48 x = true -> x == Qfloor (x * 48) # 48.
Proof.
  unfold on_grid48. intro H. apply Qeq_bool_iff in H. rewrite (Qmake_Qdiv (Qfloor (x * 48)) 48), <- H.
  change (inject_Z (Z.pos 48)) with 48. field.
Qed.

(* the fractional part of z/N is (z mod N)/N *)
Lemma frac_ratio (z : Z) (N : positive) : frac (z # N) == (z mod Z.pos N) # N.
Proof.
  unfold frac. change (Qfloor (z # N)) with (z / Z.pos N)%Z. unfold Qeq, Qminus, Qplus, Qopp, inject_Z. cbn [Qnum Qden].
  pose proof (Z.div_mod z (Z.pos N) ltac:(lia)). nia.
Qed.
Lemma frac_comp x y : x == y -> frac x == frac y.
Proof. intro E. unfold frac. assert (F : Qfloor x = Qfloor y) by (apply Qfloor_comp; exact E). rewrite F, E. reflexivity. Qed.

Lemma grid48_on_grid tbl d (z : Z) : grid48_in_table tbl = true -> d == z # 48 -> on_gridb tbl d = true.
Proof.
  intros G E. unfold on_gridb. unfold grid48_in_table in G. rewrite forallb_forall in G.
  set (j := (z mod 48)%Z). assert (Hj : (0 <= j < 48)%Z) by (apply Z.mod_pos_bound; lia).
  specialize (G (Z.to_nat j) ltac:(apply in_seq; lia)). rewrite Z2Nat.id in G by lia.
  apply existsb_exists in G. destruct G as (t & Ht & Et). apply existsb_exists. exists t. split; [exact Ht|].
  apply Qeq_bool_iff. apply Qeq_bool_iff in Et. rewrite <- Et, (frac_comp d (z # 48) E), frac_ratio. fold j.
  unfold Qeq, Qdiv, Qmult, Qinv, inject_Z. cbn. lia.
Qed.

(* ------------------------------------------------------------------ the script of a '#BPMS' value on the grid *)
Section Script.
Variable tbl : list Q.
Hypothesis Hgrid : grid48_in_table tbl = true.
Variable sorted : list (Q * Q).            (* beat, bpm — sorted by beat *)
Hypothesis Hadj : adj_lt sorted.
Hypothesis Hg48 : forall p, In p sorted -> on_grid48 (fst p) = true.
Hypothesis Hpos : forall p, In p sorted -> 0 <= fst p /\ 0 < snd p.

Let l := script_of_pairs sorted.
Definition fP (p : Q * Q) : bcs := mkBcs (snd p) 4 (snap_of_beat (fst p)).

Lemma node_okb_pair p : In p sorted -> node_okb (fP p) = true.
Proof.
  intro Hp. destruct (Hpos p Hp) as [P0 Pb]. destruct (snap_of_beat_facts (fst p)) as (M & B & B0 & B4 & Mt).
  unfold node_okb, wfcb, fP. cbn [bs_bpm bs_met bs_snap]. rewrite Mt.
  repeat (apply andb_true_iff; split); try reflexivity.
  - apply Qlt_bool_iff. exact Pb.
  - apply Z.leb_le. apply snap_of_beat_nonneg. exact P0.
  - apply Qle_bool_iff. exact B0.
  - apply Qlt_bool_iff. exact B4.
Qed.

Lemma seg_beats_pairs a b : seg_beats 4 (snap_of_beat a) (snap_of_beat b) == b - a.
Proof.
  destruct (snap_of_beat_facts a) as (_ & Ba & _). destruct (snap_of_beat_facts b) as (_ & Bb & _).
  unfold seg_beats. rewrite inject_Z_minus, Ba, Bb. ring.
Qed.

Lemma step_okb_pair a b : In a sorted -> In b sorted -> fst a < fst b -> step_okb tbl (fP a) (fP b) = true.
Proof.
  intros Ha Hb Hlt. unfold step_okb. apply andb_true_iff; split; [apply andb_true_iff; split; [apply andb_true_iff; split|]|].
  - unfold fP. cbn [bs_snap]. rewrite snap_lt_beats. apply Qlt_bool_iff. exact Hlt.
  - apply node_okb_pair. exact Hb.
  - unfold fP. cbn [bs_snap bs_met]. apply Qlt_bool_iff. destruct (snap_of_beat_facts (fst b)) as (_ & _ & _ & B4 & _). exact B4.
  - unfold fP. cbn [bs_snap bs_met].
    apply (grid48_on_grid tbl _ (Qfloor (fst b * 48) - Qfloor (fst a * 48)) Hgrid).
    rewrite seg_beats_pairs. rewrite (grid48_value _ (Hg48 b Hb)) at 1. rewrite (grid48_value _ (Hg48 a Ha)) at 1.
    unfold Qeq, Qminus, Qplus, Qopp. cbn [Qnum Qden]. lia.
Qed.

Lemma script_okb_pairs : forall rest a, (forall p, In p (a :: rest) -> In p sorted) -> adj_lt (a :: rest) ->
  script_okb tbl (fP a) (map fP rest) = true.
Proof.
  induction rest as [|b rest IH]; intros a Hin H; [reflexivity|]. cbn [map script_okb]. destruct H as [H1 H2].
  apply andb_true_iff. split.
  - apply step_okb_pair; [apply Hin; left; reflexivity|apply Hin; right; left; reflexivity|exact H1].
  - apply IH; [intros p Hp; apply Hin; right; exact Hp|exact H2].
Qed.

(* the C10 domain, with any queries at non-negative positions *)
Theorem script_domainb (qs : list snap) :
  match l with c0 :: _ => (s_m (bs_snap c0) =? 0)%Z && Qeq_bool (s_b (bs_snap c0)) 0 = true | [] => False end ->
  (forall q, In q qs -> (0 <= s_m q)%Z /\ 0 <= s_b q) ->
  domainb tbl l qs = true.
Proof.
  unfold l, script_of_pairs. fold fP. case_eq sorted; [intros _ []|intros a rest Es]. cbn [map]. intros H0 Hq.
  apply andb_true_iff in H0. destruct H0 as [M0 B0].
  unfold domainb. apply andb_true_iff; split; [apply andb_true_iff; split; [apply andb_true_iff; split; [apply andb_true_iff; split|]|]|].
  - apply node_okb_pair. rewrite Es. left. reflexivity.
  - exact M0.
  - exact B0.
  - apply script_okb_pairs; [intros p Hp; rewrite Es; exact Hp|rewrite <- Es; exact Hadj].
  - apply forallb_forall. intros q Hin. destruct (Hq q Hin) as [Q1 Q2]. apply andb_true_iff. split; [|apply Qle_bool_iff; exact Q2].
    apply snap_le_iff. apply Z.eqb_eq in M0. apply Qeq_bool_iff in B0. unfold sle. rewrite M0.
    destruct (Z.eq_dec (s_m q) 0) as [E|N]; [right; split; [symmetry; exact E|rewrite B0; exact Q2]|left; lia].
Qed.

(* the C11 domain *)
Lemma wf_unseated_go_pairs : forall rest a, (forall p, In p (a :: rest) -> In p sorted) -> adj_lt (a :: rest) ->
  wf_unseated_go 4 (snap_of_beat (fst a)) (map fP rest) = true.
Proof.
  induction rest as [|b rest IH]; intros a Hin H; [reflexivity|]. cbn [map wf_unseated_go]. destruct H as [H1 H2].
  assert (Hb : In b sorted) by (apply Hin; right; left; reflexivity).
  destruct (Hpos b Hb) as [P0 Pb]. destruct (snap_of_beat_facts (fst b)) as (M & B & B0 & B4 & Mt).
  unfold fP at 1 2 3 4 5 6. cbn [bs_snap bs_bpm bs_met]. rewrite Mt.
  repeat (apply andb_true_iff; split); try reflexivity.
  - rewrite snap_lt_beats. apply Qlt_bool_iff. exact H1.
  - apply Qlt_bool_iff. exact Pb.
  - apply Qle_bool_iff. exact B0.
  - apply Qlt_bool_iff. exact B4.
  - apply IH; [intros p Hp; apply Hin; right; exact Hp|exact H2].
Qed.

Theorem script_wf_unseated :
  match l with c0 :: _ => (s_m (bs_snap c0) =? 0)%Z && Qeq_bool (s_b (bs_snap c0)) 0 = true | [] => False end ->
  wf_unseated l = true.
Proof.
  unfold l, script_of_pairs. fold fP. case_eq sorted; [intros _ []|intros a rest Es]. cbn [map]. intros H0.
  apply andb_true_iff in H0. destruct H0 as [M0 B0].
  assert (Ha : In a sorted) by (rewrite Es; left; reflexivity). destruct (Hpos a Ha) as [P0 Pb].
  unfold wf_unseated. unfold fP at 1 2 3 4 5 6 7 8 9. cbn [bs_snap bs_bpm bs_met]. cbn [bs_snap fP] in M0, B0. rewrite M0, B0.
  destruct (snap_of_beat_facts (fst a)) as (_ & _ & _ & _ & Mt). rewrite Mt.
  repeat (apply andb_true_iff; split); try reflexivity.
  - apply Qlt_bool_iff. exact Pb.
  - apply wf_unseated_go_pairs; [intros p Hp; rewrite Es; exact Hp|rewrite <- Es; exact Hadj].
Qed.

(* no gap has a remainder in the extend window (0, 1/1000] *)
Lemma window_grid (N : positive) (z : Z) y : (Z.pos N < 1000)%Z -> y == z # N ->
  in_window THRESHOLD (y - inject_Z (Qfloor y)) = false.
Proof.
  intros HN E. unfold in_window. fold (frac y). pose proof (frac_comp y (z # N) E) as F. rewrite frac_ratio in F.
  set (j := (z mod Z.pos N)%Z) in *. assert (Hj : (0 <= j < Z.pos N)%Z) by (apply Z.mod_pos_bound; lia).
  destruct (Z.eq_dec j 0) as [J0|Jn].
  - apply andb_false_iff. left. apply Qlt_bool_false. rewrite F, J0. unfold Qle. cbn. lia.
  - apply andb_false_iff. right. apply Qle_bool_false. rewrite F. unfold THRESHOLD, Qlt. cbn [Qnum Qden]. nia.
Qed.

Lemma gaps_noext_pairs : forall rest a, (forall p, In p (a :: rest) -> In p sorted) ->
  gaps_forall (gap_noextb THRESHOLD) (fP a) (map fP rest) = true.
Proof.
  induction rest as [|b rest IH]; intros a Hin; [reflexivity|]. cbn [map gaps_forall].
  assert (Ha : In a sorted) by (apply Hin; left; reflexivity). assert (Hb : In b sorted) by (apply Hin; right; left; reflexivity).
  apply andb_true_iff. split; [|apply IH; intros p Hp; apply Hin; right; exact Hp].
  unfold fP at 1 2 3. cbn [bs_met bs_snap]. set (d := seg_beats 4 (snap_of_beat (fst a)) (snap_of_beat (fst b))).
  assert (Ed : d == (Qfloor (fst b * 48) - Qfloor (fst a * 48)) # 48).
  { unfold d. rewrite seg_beats_pairs. rewrite (grid48_value _ (Hg48 b Hb)) at 1. rewrite (grid48_value _ (Hg48 a Ha)) at 1.
    unfold Qeq, Qminus, Qplus, Qopp. cbn [Qnum Qden]. lia. }
  unfold gap_noextb, gap_mr, gap_br. apply andb_true_iff. split; apply negb_true_iff.
  - apply (window_grid 192 (Qfloor (fst b * 48) - Qfloor (fst a * 48))); [lia|]. transitivity (((Qfloor (fst b * 48) - Qfloor (fst a * 48)) # 48) / 4); [apply Qdiv_comp; [exact Ed|reflexivity]|]. unfold Qeq, Qdiv, Qmult, Qinv. cbn [Qnum Qden]. lia.
  - apply (window_grid 48 (Qfloor (fst b * 48) - Qfloor (fst a * 48))); [lia|exact Ed].
Qed.
Theorem script_no_extend : no_extend THRESHOLD l = true.
Proof.
  unfold no_extend, gaps_all, l, script_of_pairs. fold fP. case_eq sorted; [reflexivity|intros a rest Es]. cbn [map].
  apply gaps_noext_pairs. intros p Hp. rewrite Es. exact Hp.
Qed.
End Script.
