(* C03 whole-file writer theorem, part 4: from the writer's grid of cells to the stream of the reference semantics.
   write_measures succeeds; the note data (measures joined by "\n,\n", padding measures included) denotes, measure by
   measure with the right measure numbers, the fold [run] over the stream of placed notes read in (measure, row, column)
   order; that stream is a permutation of the placed notes and strictly sorted by (written beat, column). *)
From Coq Require Import String ZArith QArith Qround Qabs List Bool Lia Lqa Sorting.Sorted Sorting.Permutation.
From RV Require Import Base.PyNum Timing.Snapper Timing.Snap Timing.TimingMap Timing.Reseat Timing.Integrate
  Formats.SMText Formats.SM Formats.SMSpec Proofs.SMProofs Proofs.SMWriteProofs Proofs.SMWriteWholeRun Proofs.SMWriteWholeText.
Import ListNotations.
Open Scope Q_scope.

(* ---------------------------------------------------------------- generic list lemmas *)
Lemma flat_map_nil {A B} (l : list A) : flat_map (fun _ => @nil B) l = [].
Proof. induction l; cbn; auto. Qed.
Lemma flat_map_app_perm {A B} (g f : A -> list B) l :
  Permutation (flat_map (fun a => g a ++ f a) l) (flat_map g l ++ flat_map f l).
Proof.
  induction l as [|a l IH]; cbn [flat_map]; [constructor|].
  rewrite <- !app_assoc. apply Permutation_app_head.
  eapply perm_trans; [apply Permutation_app_head; exact IH|]. apply Permutation_app_swap_app.
Qed.
Lemma flat_map_perm_pointwise {A B} (f g : A -> list B) l :
  (forall a, In a l -> Permutation (f a) (g a)) -> Permutation (flat_map f l) (flat_map g l).
Proof.
  induction l as [|a l IH]; intro H; cbn [flat_map]; [constructor|].
  apply Permutation_app; [apply H; left; reflexivity|apply IH; intros b Hb; apply H; right; exact Hb].
Qed.
Lemma flat_map_ext_in {A B} (f g : A -> list B) l : (forall a, In a l -> f a = g a) -> flat_map f l = flat_map g l.
Proof.
  induction l as [|a l IH]; intro H; cbn [flat_map]; [reflexivity|].
  rewrite (H a (or_introl eq_refl)), IH; [reflexivity|]. intros b Hb. apply H. right. exact Hb.
Qed.

Section KeyFilter.
  Context {X K : Type} (key : X -> K) (keqb : K -> K -> bool).
  Hypothesis keqb_spec : forall a b, keqb a b = true <-> a = b.

  Lemma single_key_once (x : X) k0 ks : NoDup ks -> In k0 ks ->
    flat_map (fun k => if keqb k0 k then [x] else []) ks = [x].
  Proof.
    induction ks as [|k ks IH]; intros Hnd Hin; [destruct Hin|]. inversion Hnd as [|? ? Hn Hnd']; subst. cbn [flat_map].
    destruct (keqb k0 k) eqn:E.
    - apply keqb_spec in E. subst k.
      assert (Z: flat_map (fun k => if keqb k0 k then [x] else []) ks = []).
      { transitivity (flat_map (fun _ : K => @nil X) ks); [|apply flat_map_nil].
        apply flat_map_ext_in. intros a Ha. destruct (keqb k0 a) eqn:E; [|reflexivity].
        apply keqb_spec in E. subst a. contradiction. }
      rewrite Z. reflexivity.
    - destruct Hin as [->|Hin]; [assert (keqb k0 k0 = true) by (apply keqb_spec; reflexivity); congruence|]. apply IH; assumption.
  Qed.

  (* reading a list key by key, over a duplicate-free list of keys that covers it, permutes it *)
  Lemma key_scan_perm ks (l : list X) : NoDup ks -> (forall x, In x l -> In (key x) ks) ->
    Permutation (flat_map (fun k => filter (fun x => keqb (key x) k) l) ks) l.
  Proof.
    intros Hnd. induction l as [|x l IH]; intro Hc.
    - cbn [filter]. rewrite flat_map_nil. constructor.
    - eapply perm_trans.
      + assert (E: flat_map (fun k => filter (fun y => keqb (key y) k) (x :: l)) ks
                 = flat_map (fun k => (if keqb (key x) k then [x] else []) ++ filter (fun y => keqb (key y) k) l) ks).
        { apply flat_map_ext_in. intros k _. cbn [filter]. destruct (keqb (key x) k); reflexivity. }
        rewrite E. apply flat_map_app_perm.
      + rewrite single_key_once; [|exact Hnd|apply Hc; left; reflexivity]. cbn [app]. constructor.
        apply IH. intros y Hy. apply Hc. right. exact Hy.
  Qed.

  Lemma filter_key_single (l : list X) x rest k0 : NoDup (map key l) ->
    filter (fun y => keqb (key y) k0) l = x :: rest -> rest = [] /\ In x l /\ key x = k0.
  Proof.
    induction l as [|y l IH]; intros Hnd H; cbn [filter] in H; [discriminate|].
    cbn [map] in Hnd. inversion Hnd as [|? ? Hn Hnd']; subst.
    destruct (keqb (key y) k0) eqn:E.
    - injection H as -> Hr. apply keqb_spec in E. split; [|split; [left; reflexivity|exact E]].
      destruct rest as [|z rest]; [reflexivity|exfalso].
      assert (Hz: In z (filter (fun y => keqb (key y) k0) l)) by (rewrite Hr; left; reflexivity).
      apply filter_In in Hz. destruct Hz as [Hz1 Hz2]. apply keqb_spec in Hz2. apply Hn. rewrite E, <- Hz2. apply in_map. exact Hz1.
    - destruct (IH Hnd' H) as [A [B C]]. split; [exact A|split; [right; exact B|exact C]].
  Qed.
  Lemma filter_key_nil (l : list X) k0 : filter (fun y => keqb (key y) k0) l = [] -> forall x, In x l -> key x <> k0.
  Proof.
    intros H x Hx E. assert (In x (filter (fun y => keqb (key y) k0) l)); [|rewrite H in *; contradiction].
    apply filter_In. split; [exact Hx|apply keqb_spec; exact E].
  Qed.
End KeyFilter.

Lemma StronglySorted_app {A} (R : A -> A -> Prop) l1 l2 :
  StronglySorted R l1 -> StronglySorted R l2 -> (forall x y, In x l1 -> In y l2 -> R x y) -> StronglySorted R (l1 ++ l2).
Proof.
  induction l1 as [|a l1 IH]; intros H1 H2 H; [exact H2|]. cbn [app]. apply StronglySorted_inv in H1. destruct H1 as [H1 Ha].
  constructor.
  - apply IH; [exact H1|exact H2|]. intros x y Hx Hy. apply H; [right; exact Hx|exact Hy].
  - apply Forall_app. split; [exact Ha|]. apply Forall_forall. intros y Hy. apply H; [left; reflexivity|exact Hy].
Qed.
Lemma sorted_flat_map {A B} (R' : A -> A -> Prop) (R : B -> B -> Prop) (f : A -> list B) ks :
  StronglySorted R' ks -> (forall k, In k ks -> StronglySorted R (f k)) ->
  (forall k k' x x', In k ks -> In k' ks -> R' k k' -> In x (f k) -> In x' (f k') -> R x x') ->
  StronglySorted R (flat_map f ks).
Proof.
  induction 1 as [|k ks Hs IH Hk]; intros H1 H2; cbn [flat_map]; [constructor|].
  apply StronglySorted_app.
  - apply H1. left. reflexivity.
  - apply IH; [intros k' Hk'; apply H1; right; exact Hk'|]. intros a b x y Ha Hb. apply H2; right; assumption.
  - intros x y Hx Hy. apply in_flat_map in Hy. destruct Hy as [k' [Hk' Hy]].
    rewrite Forall_forall in Hk. apply (H2 k k' x y); [left; reflexivity|right; exact Hk'|apply Hk; exact Hk'|exact Hx|exact Hy].
Qed.
Lemma seq_sorted a n : StronglySorted lt (seq a n).
Proof.
  revert a. induction n as [|n IH]; intro a; cbn [seq]; constructor; [apply IH|].
  apply Forall_forall. intros x Hx. apply in_seq in Hx. lia.
Qed.

Lemma map_flat_map' {A B C} (f : B -> C) (g : A -> list B) l : map f (flat_map g l) = flat_map (fun x => map f (g x)) l.
Proof. induction l as [|a l IH]; cbn [flat_map map]; [reflexivity|]. rewrite map_app, IH. reflexivity. Qed.
Lemma flat_map_map' {A B C} (f : B -> list C) (h : A -> B) l : flat_map f (map h l) = flat_map (fun x => f (h x)) l.
Proof. induction l as [|a l IH]; cbn [flat_map map]; [reflexivity|]. rewrite IH. reflexivity. Qed.
Lemma filter_filter {A} (p q : A -> bool) l : filter p (filter q l) = filter (fun x => q x && p x) l.
Proof.
  induction l as [|a l IH]; cbn [filter]; [reflexivity|]. destruct (q a); cbn [filter andb]; [destruct (p a); rewrite IH; reflexivity|exact IH].
Qed.
Lemma Forall_nth_error {A} (P : A -> Prop) l : (forall i x, nth_error l i = Some x -> P x) -> Forall P l.
Proof.
  intro H. apply Forall_forall. intros x Hx. apply In_nth_error in Hx. destruct Hx as [i Hi]. apply (H i x Hi).
Qed.
Lemma nth_error_nth' {A} (l : list A) i d x : nth_error l i = Some x -> nth i l d = x.
Proof. revert i. induction l as [|a l IH]; intros [|i] H; cbn in *; try discriminate; [congruence|apply IH; exact H]. Qed.
Lemma nth_error_of_nth {A} (l : list A) i d : (i < length l)%nat -> nth_error l i = Some (nth i l d).
Proof. revert i. induction l as [|a l IH]; intros [|i] H; cbn in *; try lia; [reflexivity|apply IH; lia]. Qed.

(* ---------------------------------------------------------------- rows as streams *)
Definition wbeat (m n r : Z) : Q := Qred (inject_Z (4 * m) + inject_Z (4 * r) / inject_Z n).

Section RowsStream.
  Variables (time : Q -> Q) (keys m n : Z).

  Fixpoint rows_stream (rows : list text) (r0 : Z) : list cellev :=
    match rows with
    | [] => []
    | row :: rs => map (fun cc : nat * Z => (wbeat m n r0, fst cc, snd cc)) (row_cells row 0) ++ rows_stream rs (r0 + 1)
    end.

  Lemma denote_rows_run rows : forall r0 op acc, Forall (fun row : text => Z.of_nat (length row) = keys) rows ->
    denote_rows rows keys m n r0 time op acc = run time (rows_stream rows r0) (op, acc).
  Proof.
    induction rows as [|row rs IH]; intros r0 op acc Hw; cbn [denote_rows rows_stream run]; [reflexivity|].
    apply Forall_cons_iff in Hw. destruct Hw as [Hrow Hrs]. rewrite Hrow, Z.eqb_refl. cbn [negb].
    change (Qred (inject_Z (4 * m) + inject_Z (4 * r0) / inject_Z n)) with (wbeat m n r0).
    rewrite (denote_row_run time (wbeat m n r0) row 0 op acc), run_app.
    destruct (run time _ (op, acc)) as [[op' acc']|]; [apply IH; exact Hrs|reflexivity].
  Qed.

  Lemma row_cells_spec row : forall c0,
    row_cells row c0 = flat_map (fun i => let ch := nth i row 48%Z in if (ch =? 48)%Z then [] else [((c0 + i)%nat, ch)]) (seq 0 (length row)).
  Proof.
    induction row as [|c row IH]; intro c0; cbn [row_cells length seq flat_map]; [reflexivity|].
    rewrite <- seq_shift, flat_map_map'. cbn [nth]. rewrite Nat.add_0_r.
    rewrite (IH (S c0)).
    assert (E: flat_map (fun i => let ch := nth i row 48%Z in if (ch =? 48)%Z then [] else [((S c0 + i)%nat, ch)]) (seq 0 (length row))
             = flat_map (fun x => let ch := nth x row 48%Z in if (ch =? 48)%Z then [] else [((c0 + S x)%nat, ch)]) (seq 0 (length row))).
    { apply flat_map_ext_in. intros i _. cbv zeta. replace (S c0 + i)%nat with (c0 + S i)%nat by lia. reflexivity. }
    rewrite E. destruct (c =? 48)%Z; reflexivity.
  Qed.

  Lemma rows_stream_spec rows : forall r0,
    rows_stream rows r0 = flat_map (fun i => map (fun cc : nat * Z => (wbeat m n (r0 + Z.of_nat i), fst cc, snd cc)) (row_cells (nth i rows []) 0))
                                   (seq 0 (length rows)).
  Proof.
    induction rows as [|row rs IH]; intro r0; cbn [rows_stream length seq flat_map]; [reflexivity|].
    rewrite <- seq_shift, flat_map_map'. cbn [nth]. rewrite Z.add_0_r. f_equal. rewrite (IH (r0 + 1)%Z).
    apply flat_map_ext_in. intros i _. replace (r0 + 1 + Z.of_nat i)%Z with (r0 + Z.of_nat (S i))%Z by lia. reflexivity.
  Qed.
End RowsStream.

(* ---------------------------------------------------------------- one written measure *)
Definition goodch (c : Z) : bool :=
  negb (c =? 48)%Z && (negb (c =? 44)%Z && negb (c =? 47)%Z && negb (c =? 58)%Z && negb (c =? 59)%Z) && negb (is_ws c).
Definition linech (c : Z) : bool := (c =? 48)%Z || goodch c.
Definition nat2_eqb (a b : nat * nat) : bool := Nat.eqb (fst a) (fst b) && Nat.eqb (snd a) (snd b).
Lemma nat2_eqb_spec a b : nat2_eqb a b = true <-> a = b.
Proof.
  destruct a as [a1 a2], b as [b1 b2]. unfold nat2_eqb. cbn [fst snd]. rewrite andb_true_iff, !Nat.eqb_eq.
  split; [intros [-> ->]; reflexivity|intro H; injection H as -> ->; split; reflexivity].
Qed.
Lemma nat_eqb_spec' a b : Nat.eqb a b = true <-> a = b.
Proof. apply Nat.eqb_eq. Qed.

Section Measure.
  Variables (k dm m : Z) (g : list placed).
  Hypothesis Hk : (0 < k)%Z.
  Hypothesis Hdm : (0 < dm)%Z.
  Definition pl_ok (p : placed) : Prop := (0 <= p_num p < p_den p)%Z /\ (0 <= p_col p < k)%Z /\ goodch (p_char p) = true.
  Hypothesis Hg : Forall pl_ok g.
  Hypothesis Hnd : NoDup (map (fun p => (prow dm p, pcol p)) g).

  Let K := Z.to_nat k.
  Let DM := Z.to_nat dm.

  Lemma pl_row_range p : pl_ok p -> (0 <= p_num p * dm / p_den p < dm)%Z.
  Proof.
    intros [[H0 H1] _]. split; [apply Z.div_pos; [apply Z.mul_nonneg_nonneg|]; lia|].
    apply Z.div_lt_upper_bound; [lia|]. nia.
  Qed.
  Lemma pl_placed_ok p : pl_ok p -> placed_ok dm k p.
  Proof. intros [[H0 H1] [H2 _]]. unfold placed_ok. repeat split; lia. Qed.
  Lemma pl_prow_lt p : pl_ok p -> (prow dm p < DM)%nat.
  Proof. intro H. pose proof (pl_row_range p H). unfold prow, DM. lia. Qed.
  Lemma pl_pcol_lt p : pl_ok p -> (pcol p < K)%nat.
  Proof. intros [_ [H _]]. unfold pcol, K. lia. Qed.

  Lemma fill_lines_some (h : list placed) : forall lines, Forall pl_ok h -> rect K lines -> length lines = DM ->
    exists lines', fill_lines lines h dm k = Some lines'.
  Proof.
    induction h as [|p h IH]; intros lines Hh R L; cbn [fill_lines]; [eexists; reflexivity|].
    apply Forall_cons_iff in Hh. destruct Hh as [Hp Hh]. pose proof (pl_row_range p Hp) as Hr. pose proof Hp as [_ [Hc _]].
    assert (S: exists l1, set_cell lines (p_num p * dm / p_den p) (p_col p) k (p_char p) = Some l1).
    { unfold set_cell. destruct (Z.ltb_spec (p_col p) 0); [lia|]. destruct (Z.ltb_spec (p_col p) 0); [lia|].
      destruct (Z.leb_spec k (p_col p)); [lia|]. cbn [orb].
      destruct (nth_error lines (Z.to_nat (p_num p * dm / p_den p))) eqn:N; [eexists; reflexivity|].
      apply nth_error_None in N. unfold DM in L. lia. }
    destruct S as [l1 S]. rewrite S.
    destruct (set_cell_spec _ _ _ _ _ _ R (proj1 Hr) Hc S) as (R1 & L1 & _). apply IH; [exact Hh|exact R1|congruence].
  Qed.

  Definition at_cell (r c : nat) (p : placed) : bool := nat2_eqb (prow dm p, pcol p) (r, c).
  Definition mcell (p : placed) : cellev := (wbeat m dm (p_num p * dm / p_den p), pcol p, p_char p).
  Definition mscan : list placed :=
    flat_map (fun r => flat_map (fun c => filter (at_cell r c) g) (seq 0 K)) (seq 0 DM).

  Lemma goodch_not48 c : goodch c = true -> (c =? 48)%Z = false.
  Proof. unfold goodch. intro H. apply andb_true_iff in H. destruct H as [H _]. apply andb_true_iff in H. destruct H as [H _]. apply negb_true_iff in H. exact H. Qed.

  Section WithLines.
    Variable lines' : list (list Z).
    Hypothesis HL : length lines' = DM.
    Hypothesis HR : rect K lines'.
    Hypothesis HC : forall p, In p g -> cell lines' (prow dm p) (pcol p) = Some (p_char p).
    Hypothesis HZ : forall r c, (r < DM)%nat -> (c < K)%nat -> (forall p, In p g -> (r, c) <> (prow dm p, pcol p)) -> cell lines' r c = Some 48%Z.

    Lemma cell_nth r c : (r < DM)%nat -> (c < K)%nat -> cell lines' r c = Some (nth c (nth r lines' []) 48%Z).
    Proof.
      intros Hr Hc. unfold cell. rewrite (nth_error_of_nth lines' r []) by lia.
      assert (Hl: length (nth r lines' []) = K).
      { apply (rect_nth K lines' r). exact HR. apply nth_error_of_nth. lia. }
      apply nth_error_of_nth. lia.
    Qed.

    Lemma cell_case r c : (r < DM)%nat -> (c < K)%nat ->
      (let ch := nth c (nth r lines' []) 48%Z in if (ch =? 48)%Z then [] else [(wbeat m dm (0 + Z.of_nat r), (0 + c)%nat, ch)])
      = map mcell (filter (at_cell r c) g).
    Proof.
      intros Hr Hc. cbv zeta. pose proof (cell_nth r c Hr Hc) as Hn.
      destruct (filter (at_cell r c) g) as [|p rest] eqn:F.
      - rewrite (HZ r c Hr Hc) in Hn.
        + injection Hn as Hn. rewrite <- Hn. reflexivity.
        + intros p Hp E. apply (filter_key_nil (fun p => (prow dm p, pcol p)) nat2_eqb nat2_eqb_spec g (r, c) F p Hp). symmetry. exact E.
      - destruct (filter_key_single (fun p => (prow dm p, pcol p)) nat2_eqb nat2_eqb_spec g p rest (r, c) Hnd F) as [-> [Hp Hkey]].
        injection Hkey as Hpr Hpc. rewrite <- Hpr, <- Hpc in Hn. rewrite (HC p Hp) in Hn. injection Hn as Hn.
        rewrite Hpr, Hpc in Hn. rewrite <- Hn.
        rewrite Forall_forall in Hg. pose proof (Hg p Hp) as Hok. pose proof Hok as [_ [_ Hch]]. rewrite (goodch_not48 _ Hch).
        cbn [map]. unfold mcell. rewrite Hpc. f_equal. f_equal. f_equal. f_equal.
        pose proof (pl_row_range p Hok). unfold prow in Hpr. lia.
    Qed.

    Lemma measure_stream : rows_stream m dm lines' 0 = map mcell mscan.
    Proof.
      rewrite rows_stream_spec. unfold text. rewrite HL. unfold mscan. rewrite map_flat_map'. apply flat_map_ext_in. intros r Hr. apply in_seq in Hr.
      rewrite row_cells_spec, map_flat_map'. unfold text.
      assert (Hl: length (nth r lines' []) = K).
      { apply (rect_nth K lines' r). exact HR. apply nth_error_of_nth. lia. }
      rewrite Hl, map_flat_map'. apply flat_map_ext_in. intros c Hc. apply in_seq in Hc.
      rewrite <- (cell_case r c) by lia. cbv zeta. unfold text. destruct (nth c (nth r lines' []) 48%Z =? 48)%Z; reflexivity.
    Qed.

    Lemma lines_chars : Forall (fun ln : list Z => length ln = K /\ forallb linech ln = true) lines'.
    Proof.
      apply Forall_nth_error. intros r ln Hr.
      assert (Hr': (r < DM)%nat) by (rewrite <- HL; apply nth_error_Some; congruence).
      assert (Hl: length ln = K) by (apply (rect_nth K lines' r); assumption).
      split; [exact Hl|]. apply forallb_forall. intros ch Hch. apply In_nth_error in Hch. destruct Hch as [c Hc].
      assert (Hc': (c < K)%nat) by (rewrite <- Hl; apply nth_error_Some; congruence).
      pose proof (cell_case r c Hr' Hc') as E. cbv zeta in E.
      rewrite (nth_error_nth' lines' r [] ln Hr), (nth_error_nth' ln c 48%Z ch Hc) in E.
      unfold linech. destruct (ch =? 48)%Z eqn:E48; [reflexivity|]. cbn [orb].
      destruct (filter (at_cell r c) g) as [|p rest] eqn:F; [discriminate|]. cbn [map] in E. injection E as _ _ E _.
      assert (Hp: In p g). { assert (I: In p (filter (at_cell r c) g)) by (rewrite F; left; reflexivity). apply filter_In in I. apply I. }
      rewrite Forall_forall in Hg. destruct (Hg p Hp) as [_ [_ G]]. rewrite E. exact G.
    Qed.
  End WithLines.

  Lemma mscan_perm : Permutation mscan g.
  Proof.
    unfold mscan.
    eapply perm_trans; [|apply (key_scan_perm (fun p => prow dm p) Nat.eqb nat_eqb_spec' (seq 0 DM) g (seq_NoDup _ _))].
    - apply flat_map_perm_pointwise. intros r _.
      eapply perm_trans; [|apply (key_scan_perm (fun p => pcol p) Nat.eqb nat_eqb_spec' (seq 0 K) _ (seq_NoDup _ _))].
      + apply flat_map_perm_pointwise. intros c _. rewrite filter_filter. unfold at_cell, nat2_eqb. cbn [fst snd]. apply Permutation_refl.
      + intros p Hp. apply filter_In in Hp. destruct Hp as [Hp _]. apply in_seq. rewrite Forall_forall in Hg. pose proof (pl_pcol_lt p (Hg p Hp)). lia.
    - intros p Hp. apply in_seq. rewrite Forall_forall in Hg. pose proof (pl_prow_lt p (Hg p Hp)). lia.
  Qed.
End Measure.

(* ---------------------------------------------------------------- order of the scan *)
Lemma wbeat_val m n r : wbeat m n r == inject_Z (4 * m) + inject_Z (4 * r) / inject_Z n.
Proof. apply Qred_correct. Qed.
Lemma wbeat_lt m n r r' : (0 < n)%Z -> (r < r')%Z -> wbeat m n r < wbeat m n r'.
Proof.
  intros Hn Hr. rewrite !wbeat_val. pose proof (inj_pos n Hn) as Hn'.
  assert (inject_Z (4 * r) / inject_Z n < inject_Z (4 * r') / inject_Z n); [|lra].
  apply Qmult_lt_compat_r; [apply Qinv_lt_0_compat; exact Hn'|]. rewrite <- Zlt_Qlt. lia.
Qed.
Lemma wbeat_range m n r : (0 < n)%Z -> (0 <= r < n)%Z -> inject_Z (4 * m) <= wbeat m n r /\ wbeat m n r < inject_Z (4 * (m + 1)).
Proof.
  intros Hn Hr. rewrite wbeat_val. pose proof (inj_pos n Hn) as Hn'.
  assert (A: 0 <= inject_Z (4 * r) / inject_Z n).
  { apply Qle_shift_div_l; [exact Hn'|]. rewrite Qmult_0_l. change 0 with (inject_Z 0). rewrite <- Zle_Qle. lia. }
  assert (B: inject_Z (4 * r) / inject_Z n < 4).
  { apply Qlt_shift_div_r; [exact Hn'|]. change 4 with (inject_Z 4). rewrite <- inject_Z_mult, <- Zlt_Qlt. lia. }
  replace (4 * (m + 1))%Z with (4 * m + 4)%Z by ring. rewrite inject_Z_plus. change (inject_Z 4) with 4. split; lra.
Qed.

Section MeasureSorted.
  Variables (k dm m : Z) (g : list placed).
  Hypothesis Hk : (0 < k)%Z.
  Hypothesis Hdm : (0 < dm)%Z.
  Hypothesis Hg : Forall (pl_ok k) g.
  Hypothesis Hnd : NoDup (map (fun p => (prow dm p, pcol p)) g).

  Lemma in_cell_scan x r c : In x (map (mcell dm m) (filter (at_cell dm r c) g)) ->
    exists p, In p g /\ x = mcell dm m p /\ prow dm p = r /\ pcol p = c.
  Proof.
    intro H. apply in_map_iff in H. destruct H as [p [<- Hp]]. apply filter_In in Hp. destruct Hp as [Hp Hat].
    unfold at_cell in Hat. apply nat2_eqb_spec in Hat. injection Hat as H1 H2. exists p. repeat split; assumption.
  Qed.

  Lemma mscan_sorted : StronglySorted clt (map (mcell dm m) (mscan k dm g)).
  Proof.
    unfold mscan. rewrite map_flat_map'.
    apply (sorted_flat_map lt clt _ _ (seq_sorted 0 _)).
    - intros r _. rewrite map_flat_map'. apply (sorted_flat_map lt clt _ _ (seq_sorted 0 _)).
      + intros c _. destruct (filter (at_cell dm r c) g) as [|p rest] eqn:F; [constructor|].
        destruct (filter_key_single (fun p => (prow dm p, pcol p)) nat2_eqb nat2_eqb_spec g p rest (r, c) Hnd F) as [-> _].
        cbn [map]. repeat constructor.
      + intros c c' x x' _ _ Hcc Hx Hx'.
        destruct (in_cell_scan x r c Hx) as [p [Hp [-> [Hr Hc]]]]. destruct (in_cell_scan x' r c' Hx') as [p' [Hp' [-> [Hr' Hc']]]].
        right. unfold mcell, cbeat, ccol. cbn [fst snd]. split; [|lia].
        rewrite Forall_forall in Hg. pose proof (pl_row_range k dm Hk Hdm p (Hg p Hp)). pose proof (pl_row_range k dm Hk Hdm p' (Hg p' Hp')).
        unfold prow in Hr, Hr'. replace (p_num p' * dm / p_den p')%Z with (p_num p * dm / p_den p)%Z by lia. reflexivity.
    - intros r r' x x' _ _ Hrr Hx Hx'. rewrite map_flat_map' in Hx, Hx'. apply in_flat_map in Hx, Hx'.
      destruct Hx as [c [_ Hx]]. destruct Hx' as [c' [_ Hx']].
      destruct (in_cell_scan x r c Hx) as [p [Hp [-> [Hr Hc]]]]. destruct (in_cell_scan x' r' c' Hx') as [p' [Hp' [-> [Hr' Hc']]]].
      left. unfold mcell, cbeat. cbn [fst]. apply wbeat_lt; [exact Hdm|].
      rewrite Forall_forall in Hg. pose proof (pl_row_range k dm Hk Hdm p (Hg p Hp)). pose proof (pl_row_range k dm Hk Hdm p' (Hg p' Hp')).
      unfold prow in Hr, Hr'. lia.
  Qed.

  Lemma mscan_beat_range x : In x (map (mcell dm m) (mscan k dm g)) -> inject_Z (4 * m) <= cbeat x /\ cbeat x < inject_Z (4 * (m + 1)).
  Proof.
    intro H. apply in_map_iff in H. destruct H as [p [<- Hp]].
    apply (Permutation_in _ (mscan_perm k dm g Hk Hdm Hg)) in Hp. unfold mcell, cbeat. cbn [fst].
    rewrite Forall_forall in Hg. apply wbeat_range; [exact Hdm|apply (pl_row_range k dm Hk Hdm p (Hg p Hp))].
  Qed.
End MeasureSorted.

(* ---------------------------------------------------------------- the list of measures *)
Lemma insert_z_in x l y : In y (insert_z x l) <-> y = x \/ In y l.
Proof.
  induction l as [|z l IH]; cbn [insert_z]; [cbn; intuition|].
  destruct (Z.ltb_spec x z); [cbn [In]; intuition|]. destruct (Z.eqb_spec x z).
  - subst. cbn [In]. intuition.
  - cbn [In]. rewrite IH. intuition.
Qed.
Lemma insert_z_sorted x l : StronglySorted Z.lt l -> StronglySorted Z.lt (insert_z x l).
Proof.
  induction l as [|z l IH]; intro H; cbn [insert_z]; [repeat constructor|].
  apply StronglySorted_inv in H. destruct H as [Hs Hz]. rewrite Forall_forall in Hz.
  destruct (Z.ltb_spec x z).
  - constructor; [constructor; [exact Hs|apply Forall_forall; exact Hz]|]. apply Forall_forall. intros y [<-|Hy]; [exact H|]. specialize (Hz y Hy). lia.
  - destruct (Z.eqb_spec x z); [constructor; [exact Hs|apply Forall_forall; exact Hz]|].
    constructor; [apply IH; exact Hs|]. apply Forall_forall. intros y Hy. apply insert_z_in in Hy. destruct Hy as [->|Hy]; [lia|apply Hz; exact Hy].
Qed.
Lemma measures_of_in ps m : In m (measures_of ps) <-> In m (map p_measure ps).
Proof.
  unfold measures_of. induction (map p_measure ps) as [|x l IH]; cbn [fold_right]; [reflexivity|]. rewrite insert_z_in, IH. cbn [In]. intuition.
Qed.
Lemma measures_of_sorted ps : StronglySorted Z.lt (measures_of ps).
Proof. unfold measures_of. induction (map p_measure ps) as [|x l IH]; cbn [fold_right]; [constructor|apply insert_z_sorted; exact IH]. Qed.
Lemma sorted_lt_nodup l : StronglySorted Z.lt l -> NoDup l.
Proof.
  induction 1 as [|x l _ IH Hx]; constructor; [|exact IH]. intro Hin. rewrite Forall_forall in Hx. specialize (Hx x Hin). lia.
Qed.

(* ---------------------------------------------------------------- measures as lists of rows *)
Fixpoint dmeas (rowss : list (list text)) (keys m : Z) (time : Q -> Q) (op : openst) (acc : list dnote) : option (openst * list dnote) :=
  match rowss with
  | [] => Some (op, acc)
  | rows :: r =>
      match rows with
      | [] => None
      | _ => match denote_rows rows keys m (Z.of_nat (length rows)) 0 time op acc with
             | None => None
             | Some (op', acc') => dmeas r keys (m + 1) time op' acc'
             end
      end
  end.
Lemma denote_measures_dmeas ms : forall keys m time op acc ns op' acc',
  dmeas (map mrows ms) keys m time op acc = Some (op', acc') ->
  exists ns', denote_measures ms keys m time op acc ns = Some (op', acc', ns').
Proof.
  induction ms as [|mt ms IH]; intros keys m time op acc ns op' acc' H; cbn [map dmeas denote_measures] in *.
  - injection H as <- <-. eexists. reflexivity.
  - change (filter (fun l : list Z => match l with [] => false | _ :: _ => true end) (map strip (split_on 10 mt))) with (mrows mt).
    destruct (mrows mt) as [|r0 rs] eqn:E; [discriminate|].
    destruct (denote_rows (r0 :: rs) keys m _ 0 time op acc) as [[op1 acc1]|]; [|discriminate]. apply IH. exact H.
Qed.

Definition mch (c : Z) : bool := (c =? 10)%Z || linech c.
Definition bodych (c : Z) : bool := (c =? 44)%Z || mch c.

Lemma map_repeat' {A B} (f : A -> B) x n : map f (repeat x n) = repeat (f x) n.
Proof. induction n as [|n IH]; cbn [repeat map]; [reflexivity|]. rewrite IH. reflexivity. Qed.
Lemma linech_nows c : linech c = true -> is_ws c = false.
Proof.
  unfold linech, goodch. intro H. apply orb_true_iff in H. destruct H as [H|H].
  - apply Z.eqb_eq in H. subst. reflexivity.
  - apply andb_true_iff in H. destruct H as [_ H]. apply negb_true_iff in H. exact H.
Qed.
Lemma join_chars (P : Z -> bool) sep l : forallb P sep = true -> Forall (fun a => forallb P a = true) l -> forallb P (join sep l) = true.
Proof.
  intros Hs. induction 1 as [|a l Ha Hl IH]; [reflexivity|]. destruct l as [|b l]; [exact Ha|].
  change (join sep (a :: b :: l)) with (a ++ sep ++ join sep (b :: l)). rewrite !forallb_app, Ha, Hs, IH. reflexivity.
Qed.
Lemma join_head sep l : l <> [] -> Forall (fun a : text => a <> [] /\ head_nows a) l -> join sep l <> [] /\ head_nows (join sep l).
Proof.
  intros Hne H. destruct l as [|a l]; [congruence|]. apply Forall_cons_iff in H. destruct H as [[Ha1 Ha2] _].
  destruct l as [|b l]; [split; assumption|]. change (join sep (a :: b :: l)) with (a ++ sep ++ join sep (b :: l)).
  destruct a as [|x a]; [congruence|]. split; [discriminate|exact Ha2].
Qed.
Lemma join_last sep l : l <> [] -> Forall (fun a : text => a <> [] /\ head_nows (rev a)) l -> head_nows (rev (join sep l)).
Proof.
  intros Hne H. induction H as [|a l [Ha1 Ha2] Hl IH]; [congruence|]. destruct l as [|b l]; [exact Ha2|].
  change (join sep (a :: b :: l)) with (a ++ sep ++ join sep (b :: l)). rewrite !rev_app_distr.
  assert (N: b :: l <> []) by discriminate. specialize (IH N).
  assert (Hj: join sep (b :: l) <> []).
  { apply Forall_cons_iff in Hl. destruct Hl as [[Hb _] _]. destruct l as [|c l]; [exact Hb|].
    change (join sep (b :: c :: l)) with (b ++ sep ++ join sep (c :: l)). destruct b; [congruence|discriminate]. }
  destruct (rev (join sep (b :: l))) as [|y r] eqn:E; [|exact IH].
  exfalso. apply Hj. rewrite <- (rev_involutive (join sep (b :: l))), E. reflexivity.
Qed.

(* ---------------------------------------------------------------- the whole note data of a chart *)
Section Chart.
  Variable cf : smconf.
  Hypothesis Hmet : k_metronome cf = 4%Z.
  Hypothesis Hcap : (0 < k_max_snap cf)%Z.
  Variable time : Q -> Q.
  Variables (k : Z) (ps : list placed).
  Hypothesis Hk : (0 < k)%Z.
  Hypothesis Hps : Forall (fun p => pl_ok k p /\ (0 <= p_measure p)%Z) ps.
  Definition gm (m : Z) : list placed := filter (fun p => (p_measure p =? m)%Z) ps.
  Definition dm_of (m : Z) : Z := den_max_of cf (map p_den (gm m)).
  Hypothesis Hnd : forall m, NoDup (map (fun p => (prow (dm_of m) p, pcol p)) (gm m)).
  Definition cellof (p : placed) : cellev := mcell (dm_of (p_measure p)) (p_measure p) p.
  Definition cscan (ms : list Z) : list placed := flat_map (fun m => mscan k (dm_of m) (gm m)) ms.
  Let K := Z.to_nat k.

  Lemma gm_ok m : Forall (pl_ok k) (gm m).
  Proof.
    apply Forall_forall. intros p Hp. apply filter_In in Hp. rewrite Forall_forall in Hps. apply (Hps p (proj1 Hp)).
  Qed.
  Lemma gm_measure m p : In p (gm m) -> p_measure p = m.
  Proof. intro Hp. apply filter_In in Hp. apply Z.eqb_eq. apply Hp. Qed.

  Lemma fold_cap_pos r : forall d, (0 < d)%Z -> Forall (fun y => 0 < y)%Z r -> (0 < fold_left (lcm_and_cap cf) r d)%Z.
  Proof.
    induction r as [|y r IH]; intros d Hd Hr; cbn [fold_left]; [exact Hd|]. apply Forall_cons_iff in Hr. destruct Hr as [Hy Hr].
    apply IH; [|exact Hr]. unfold lcm_and_cap. pose proof (Z.lcm_nonneg d y).
    assert (Z.lcm d y <> 0)%Z by (intro E; apply Z.lcm_eq_0 in E; lia). lia.
  Qed.
  Lemma dm_pos m : (0 < dm_of m)%Z.
  Proof.
    unfold dm_of, den_max_of.
    assert (Hd: Forall (fun y => 0 < y)%Z (map p_den (gm m))).
    { apply Forall_forall. intros y Hy. apply in_map_iff in Hy. destruct Hy as [p [<- Hp]].
      pose proof (gm_ok m) as G. rewrite Forall_forall in G. destruct (G p Hp) as [[? ?] _]. lia. }
    destruct (map p_den (gm m)) as [|d r]; [exact Hcap|]. apply Forall_cons_iff in Hd. destruct Hd as [Hd Hr].
    pose proof (fold_cap_pos r d Hd Hr). lia.
  Qed.

  Definition padrows : list text := repeat (repeat 48%Z K) 4.
  Lemma K_pos : (0 < K)%nat. Proof. unfold K. lia. Qed.
  Lemma zero_row_ok : row_ok (repeat 48%Z K).
  Proof.
    split; [pose proof K_pos; destruct K; [lia|discriminate]|]. apply forallb_forall. intros c Hc. apply repeat_spec in Hc. subst. reflexivity.
  Qed.
  Lemma pad_mrows : mrows (pad_measure cf current (Some k)) = padrows.
  Proof.
    unfold pad_measure. cbn [v_pad current]. rewrite Hmet. change (Z.to_nat 4) with 4%nat. fold K.
    apply mrows_join; [discriminate|]. apply Forall_forall. intros r Hr. apply repeat_spec in Hr. subst. apply zero_row_ok.
  Qed.
  Lemma zero_row_cells n c0 : row_cells (repeat 48%Z n) c0 = [].
  Proof. revert c0. induction n as [|n IH]; intro c0; cbn [repeat row_cells]; [reflexivity|]. rewrite Z.eqb_refl. apply IH. Qed.
  Lemma dmeas_pads j : forall rest m0 op acc,
    dmeas (repeat padrows j ++ rest) k m0 time op acc = dmeas rest k (m0 + Z.of_nat j) time op acc.
  Proof.
    induction j as [|j IH]; intros rest m0 op acc; cbn [repeat app]; [rewrite Z.add_0_r; reflexivity|].
    cbn [dmeas]. unfold padrows at 1 2. cbn [repeat].
    rewrite (denote_rows_run time k m0 _ _ 0 op acc).
    - cbn [rows_stream]. rewrite !zero_row_cells. cbn [map app run]. rewrite IH. f_equal. lia.
    - repeat constructor; rewrite repeat_length; unfold K; lia.
  Qed.

  Lemma mch_pad : forallb mch (pad_measure cf current (Some k)) = true.
  Proof.
    unfold pad_measure. cbn [v_pad current]. apply join_chars; [reflexivity|]. apply Forall_forall. intros r Hr. apply repeat_spec in Hr. subst.
    apply forallb_forall. intros c Hc. apply repeat_spec in Hc. subst. reflexivity.
  Qed.

  Definition piece_ok (mt : text) : Prop := forallb mch mt = true /\ mt <> [] /\ head_nows mt /\ head_nows (rev mt).

  Lemma lines_piece lines : lines <> [] -> Forall (fun ln : list Z => length ln = K /\ forallb linech ln = true) lines ->
    piece_ok (join nl lines) /\ Forall row_ok lines.
  Proof.
    intros Hne H.
    assert (R: Forall row_ok lines).
    { apply Forall_forall. intros ln Hln. rewrite Forall_forall in H. destruct (H ln Hln) as [Hl Hc]. split.
      - pose proof K_pos. destruct ln; [cbn in Hl; lia|discriminate].
      - apply forallb_forall. intros c Hc'. rewrite forallb_forall in Hc. rewrite (linech_nows c (Hc c Hc')). reflexivity. }
    split; [|exact R]. unfold piece_ok.
    assert (Hh: Forall (fun a : text => a <> [] /\ head_nows a) lines).
    { apply Forall_forall. intros ln Hln. rewrite Forall_forall in R. destruct (R ln Hln) as [R1 R2]. split; [exact R1|apply nows_head; exact R2]. }
    assert (Hl: Forall (fun a : text => a <> [] /\ head_nows (rev a)) lines).
    { apply Forall_forall. intros ln Hln. rewrite Forall_forall in R. destruct (R ln Hln) as [R1 R2]. split; [exact R1|].
      apply nows_head. rewrite forallb_rev. exact R2. }
    split; [|split; [apply (join_head nl lines Hne Hh)|split; [apply (join_head nl lines Hne Hh)|apply (join_last nl lines Hne Hl)]]].
    apply join_chars; [reflexivity|]. apply Forall_forall. intros ln Hln. rewrite Forall_forall in H. destruct (H ln Hln) as [_ Hc].
    apply forallb_forall. intros c Hc'. rewrite forallb_forall in Hc. unfold mch. rewrite (Hc c Hc'). apply orb_true_r.
  Qed.

  Lemma pad_piece : piece_ok (pad_measure cf current (Some k)).
  Proof.
    assert (E: pad_measure cf current (Some k) = join nl (repeat (repeat 48%Z K) 4)).
    { unfold pad_measure. cbn [v_pad current]. rewrite Hmet. reflexivity. }
    rewrite E. apply lines_piece; [discriminate|]. apply Forall_forall. intros r Hr. apply repeat_spec in Hr. subst. split; [apply repeat_length|].
    apply forallb_forall. intros c Hc. apply repeat_spec in Hc. subst. reflexivity.
  Qed.

  Lemma wm_denote ms : forall prev, StronglySorted Z.lt ms -> (forall m, In m ms -> (prev < m)%Z) -> (-1 <= prev)%Z ->
    exists out, write_measures cf current ps (Some k) prev ms = Some out
      /\ (ms <> [] -> out <> [])
      /\ Forall piece_ok out
      /\ forall op acc, dmeas (map mrows out) k (prev + 1) time op acc = run time (map cellof (cscan ms)) (op, acc).
  Proof.
    induction ms as [|m ms IH]; intros prev Hs Hlt Hprev.
    - exists []. cbn [write_measures]. split; [reflexivity|]. split; [congruence|]. split; [constructor|]. intros op acc. reflexivity.
    - apply StronglySorted_inv in Hs. destruct Hs as [Hs Hm]. rewrite Forall_forall in Hm.
      assert (Hpm: (prev < m)%Z) by (apply Hlt; left; reflexivity).
      destruct (IH m Hs Hm ltac:(lia)) as [rest [W1 [_ [W3 W4]]]].
      cbn [write_measures]. fold (gm m). fold (dm_of m). rewrite W1.
      pose proof (dm_pos m) as Hdm. pose proof (gm_ok m) as Hg.
      destruct (fill_lines_some k (dm_of m) Hk Hdm (gm m) (repeat (repeat 48%Z (Z.to_nat k)) (Z.to_nat (dm_of m))) Hg
                  (blank_rect k _) (repeat_length _ _)) as [lines' F].
      rewrite F.
      assert (Hpok: Forall (placed_ok (dm_of m) k) (gm m)).
      { apply Forall_forall. intros p Hp. rewrite Forall_forall in Hg. apply (pl_placed_ok k (dm_of m) Hk Hdm p (Hg p Hp)). }
      destruct (written_measure_cells (dm_of m) k (gm m) lines' Hpok (Hnd m) F) as (L & R & C & Z0).
      pose proof (lines_chars k (dm_of m) m (gm m) Hk Hdm Hg (Hnd m) lines' L R C Z0) as LC.
      assert (Hne: lines' <> []) by (intro E; rewrite E in L; cbn in L; lia).
      destruct (lines_piece lines' Hne LC) as [P1 P2].
      eexists. split; [reflexivity|]. split; [intros _ E; symmetry in E; apply app_cons_not_nil in E; exact E|]. split.
      + apply Forall_app. split; [apply Forall_forall; intros x Hx; apply repeat_spec in Hx; subst; apply pad_piece|constructor; [exact P1|exact W3]].
      + intros op acc. rewrite map_app, map_repeat', pad_mrows. cbn [map]. rewrite dmeas_pads.
        replace (prev + 1 + Z.of_nat (Z.to_nat (m - prev - 1)))%Z with m by lia.
        unfold nl. rewrite (mrows_join lines' Hne P2). cbn [dmeas]. destruct lines' as [|l0 ls] eqn:El; [congruence|]. rewrite <- El in *.
        assert (En: Z.of_nat (length lines') = dm_of m) by (rewrite L; lia). unfold text. rewrite En.
        rewrite (denote_rows_run time k m (dm_of m) lines' 0 op acc).
        * rewrite (measure_stream k (dm_of m) m (gm m) Hk Hdm Hg (Hnd m) lines' L R C Z0).
          cbn [cscan flat_map]. rewrite map_app, run_app.
          assert (Ec: map cellof (mscan k (dm_of m) (gm m)) = map (mcell (dm_of m) m) (mscan k (dm_of m) (gm m))).
          { apply map_ext_in. intros p Hp. apply (Permutation_in _ (mscan_perm k (dm_of m) (gm m) Hk Hdm Hg)) in Hp.
            unfold cellof. rewrite (gm_measure m p Hp). reflexivity. }
          rewrite Ec. destruct (run time _ (op, acc)) as [[op1 acc1]|]; [apply W4|reflexivity].
        * apply Forall_forall. intros ln Hln. rewrite Forall_forall in LC. destruct (LC ln Hln) as [Hl _]. rewrite Hl. unfold K. lia.
  Qed.

  (* ---- row counts: every written measure has a multiple of 4 rows (needed by the READER's 4-beat slicing) ---- *)
  Lemma fold_cap_mult4 r : forall d, (k_max_snap cf mod 4 = 0)%Z -> (d mod 4 = 0)%Z ->
    (fold_left (lcm_and_cap cf) r d mod 4 = 0)%Z.
  Proof.
    induction r as [|y r IH]; intros d Hc Hd; [exact Hd|]. cbn [fold_left]. apply IH; [exact Hc|]. unfold lcm_and_cap.
    assert (L : (Z.lcm d y mod 4 = 0)%Z).
    { apply Z.mod_divide; [lia|]. apply Z.divide_trans with d; [apply Z.mod_divide; [lia|exact Hd]|apply Z.divide_lcm_l]. }
    destruct (Z.min_spec (Z.lcm d y) (k_max_snap cf)) as [[_ E]|[_ E]]; rewrite E; assumption.
  Qed.
  Lemma den_max_mult4 dens : (k_max_snap cf mod 4 = 0)%Z -> Forall (fun y => (y mod 4 = 0)%Z) dens -> (den_max_of cf dens mod 4 = 0)%Z.
  Proof.
    intros Hc F. unfold den_max_of. destruct dens as [|d r]; [exact Hc|]. inversion F as [|? ? Hd Hr]; subst.
    pose proof (fold_cap_mult4 r d Hc Hd) as L.
    destruct (Z.min_spec (fold_left (lcm_and_cap cf) r d) (k_max_snap cf)) as [[_ E]|[_ E]]; rewrite E; assumption.
  Qed.

  Lemma wm_rows4 (Hc4 : (k_max_snap cf mod 4 = 0)%Z) (Hd4 : forall p, In p ps -> (p_den p mod 4 = 0)%Z) ms :
    forall prev out, write_measures cf current ps (Some k) prev ms = Some out ->
    Forall (fun mt => (Z.of_nat (length (mrows mt)) mod 4 = 0)%Z) out.
  Proof.
    induction ms as [|m ms IH]; intros prev out W; cbn [write_measures] in W.
    - injection W as <-. constructor.
    - fold (gm m) in W. fold (dm_of m) in W.
      destruct (fill_lines _ (gm m) (dm_of m) k) as [lines'|] eqn:F; [|discriminate].
      destruct (write_measures cf current ps (Some k) m ms) as [rest|] eqn:W1; [|discriminate]. injection W as <-.
      pose proof (dm_pos m) as Hdm. pose proof (gm_ok m) as Hg.
      assert (Hpok: Forall (placed_ok (dm_of m) k) (gm m)).
      { apply Forall_forall. intros p Hp. rewrite Forall_forall in Hg. apply (pl_placed_ok k (dm_of m) Hk Hdm p (Hg p Hp)). }
      destruct (written_measure_cells (dm_of m) k (gm m) lines' Hpok (Hnd m) F) as (L & R & C & Z0).
      pose proof (lines_chars k (dm_of m) m (gm m) Hk Hdm Hg (Hnd m) lines' L R C Z0) as LC.
      assert (Hne: lines' <> []) by (intro E; rewrite E in L; cbn in L; lia).
      destruct (lines_piece lines' Hne LC) as [P1 P2].
      apply Forall_app. split.
      + apply Forall_forall. intros x Hx. apply repeat_spec in Hx. subst x. rewrite pad_mrows. unfold padrows. rewrite repeat_length. reflexivity.
      + constructor; [|exact (IH m rest W1)]. unfold nl. rewrite (mrows_join lines' Hne P2).
        assert (En: Z.of_nat (length lines') = dm_of m) by (rewrite L; lia). unfold text in *. rewrite En. unfold dm_of. apply den_max_mult4; [exact Hc4|].
        apply Forall_forall. intros y Hy. apply in_map_iff in Hy. destruct Hy as (p & <- & Hp). apply Hd4. apply filter_In in Hp. apply Hp.
  Qed.

  Lemma denote_measures_ns_eq ms : forall keys m time' op acc ns op' acc' ns',
    denote_measures ms keys m time' op acc ns = Some (op', acc', ns') ->
    ns' = rev (map (fun mt => Z.of_nat (length (mrows mt))) ms) ++ ns.
  Proof.
    induction ms as [|mt ms IH]; intros keys m time' op acc ns op' acc' ns' D; cbn [denote_measures] in D.
    - injection D as <- <- <-. reflexivity.
    - change (filter (fun l : list Z => match l with [] => false | _ :: _ => true end) (map strip (split_on 10 mt))) with (mrows mt) in D.
      cbn [map rev]. destruct (mrows mt) as [|r0 rs] eqn:E; [discriminate|]. cbv zeta in D.
      match type of D with match ?X with _ => _ end = _ => destruct X as [[op1 acc1]|] end; [|discriminate].
      rewrite (IH _ _ _ _ _ _ _ _ _ D), <- app_assoc. reflexivity.
  Qed.

  Lemma cscan_perm : Permutation (cscan (measures_of ps)) ps.
  Proof.
    unfold cscan.
    eapply perm_trans; [|apply (key_scan_perm p_measure Z.eqb Z.eqb_eq (measures_of ps) ps (sorted_lt_nodup _ (measures_of_sorted ps)))].
    - apply flat_map_perm_pointwise. intros m _. apply (mscan_perm k (dm_of m) (gm m) Hk (dm_pos m) (gm_ok m)).
    - intros p Hp. apply measures_of_in. apply in_map. exact Hp.
  Qed.

  Lemma cellof_gm m : map cellof (mscan k (dm_of m) (gm m)) = map (mcell (dm_of m) m) (mscan k (dm_of m) (gm m)).
  Proof.
    apply map_ext_in. intros p Hp. apply (Permutation_in _ (mscan_perm k (dm_of m) (gm m) Hk (dm_pos m) (gm_ok m))) in Hp.
    unfold cellof. rewrite (gm_measure m p Hp). reflexivity.
  Qed.

  Lemma cscan_sorted : StronglySorted clt (map cellof (cscan (measures_of ps))).
  Proof.
    unfold cscan. rewrite map_flat_map'. apply (sorted_flat_map Z.lt clt _ _ (measures_of_sorted ps)).
    - intros m _. rewrite cellof_gm. apply (mscan_sorted k (dm_of m) m (gm m) Hk (dm_pos m) (gm_ok m) (Hnd m)).
    - intros m m' x x' _ _ Hmm Hx Hx'. rewrite cellof_gm in Hx, Hx'.
      destruct (mscan_beat_range k (dm_of m) m (gm m) Hk (dm_pos m) (gm_ok m) x Hx) as [_ U].
      destruct (mscan_beat_range k (dm_of m') m' (gm m') Hk (dm_pos m') (gm_ok m') x' Hx') as [L _].
      left. assert (inject_Z (4 * (m + 1)) <= inject_Z (4 * m')) by (rewrite <- Zle_Qle; lia). lra.
  Qed.

  Lemma mch_no44 mt : forallb mch mt = true -> ~ In 44%Z mt.
  Proof. intro H. apply (forallb_not_in mch mt 44%Z H). reflexivity. Qed.

  Theorem chart_body_denote :
    exists out, write_measures cf current ps (Some k) (-1) (measures_of ps) = Some out /\
      let body := join [10%Z; 44%Z; 10%Z] out in
      (ps = [] -> body = []) /\ (ps <> [] -> body <> [] /\ head_nows body /\ head_nows (rev body)) /\ forallb bodych body = true /\
      forall op acc op' acc', run time (map cellof (cscan (measures_of ps))) (op, acc) = Some (op', acc') ->
        exists ns, denote_measures (match body with [] => [] | _ => split_on 44 body end) k 0 time op acc [] = Some (op', acc', ns).
  Proof.
    assert (Hlt: forall m, In m (measures_of ps) -> (-1 < m)%Z).
    { intros m Hm. apply measures_of_in in Hm. apply in_map_iff in Hm. destruct Hm as [p [<- Hp]]. rewrite Forall_forall in Hps. destruct (Hps p Hp). lia. }
    destruct (wm_denote (measures_of ps) (-1) (measures_of_sorted ps) Hlt ltac:(lia)) as [out [W1 [W2 [W3 W4]]]].
    exists out. split; [exact W1|]. cbv zeta.
    assert (Hms: ps <> [] -> measures_of ps <> []).
    { intros Hne E. destruct ps as [|p ps']; [congruence|]. assert (I: In (p_measure p) (measures_of (p :: ps'))) by (apply measures_of_in; left; reflexivity).
      rewrite E in I. destruct I. }
    assert (H44: Forall (fun mt => ~ In 44%Z mt) out).
    { apply Forall_forall. intros mt Hmt. rewrite Forall_forall in W3. apply mch_no44. apply (W3 mt Hmt). }
    split; [|split; [|split]].
    - intro E. assert (M: measures_of ps = []) by (rewrite E; reflexivity). rewrite M in W1. cbn [write_measures] in W1.
      injection W1 as <-. reflexivity.
    - intro Hne. specialize (W2 (Hms Hne)).
      assert (Hh: Forall (fun a : text => a <> [] /\ head_nows a) out).
      { apply Forall_forall. intros mt Hmt. rewrite Forall_forall in W3. destruct (W3 mt Hmt) as [_ [A [B _]]]. split; assumption. }
      assert (Hl: Forall (fun a : text => a <> [] /\ head_nows (rev a)) out).
      { apply Forall_forall. intros mt Hmt. rewrite Forall_forall in W3. destruct (W3 mt Hmt) as [_ [A [_ B]]]. split; assumption. }
      split; [apply (join_head _ out W2 Hh)|split; [apply (join_head _ out W2 Hh)|apply (join_last _ out W2 Hl)]].
    - apply join_chars; [reflexivity|]. apply Forall_forall. intros mt Hmt. rewrite Forall_forall in W3. destruct (W3 mt Hmt) as [A _].
      apply forallb_forall. intros c Hc. rewrite forallb_forall in A. unfold bodych. rewrite (A c Hc). apply orb_true_r.
    - intros op acc op' acc' Hrun. destruct (join [10%Z; 44%Z; 10%Z] out) as [|b0 body'] eqn:Eb.
      + destruct out as [|o1 out'].
        * cbn [map] in W4. specialize (W4 op acc). cbn [dmeas] in W4. rewrite Hrun in W4. injection W4 as <- <-. cbn [denote_measures]. eexists. reflexivity.
        * exfalso. apply Forall_cons_iff in W3. destruct W3 as [[_ [A _]] _]. destruct out' as [|o2 out'']; [cbn [join] in Eb; congruence|].
          change (join [10%Z; 44%Z; 10%Z] (o1 :: o2 :: out'')) with (o1 ++ [10%Z; 44%Z; 10%Z] ++ join [10%Z; 44%Z; 10%Z] (o2 :: out'')) in Eb.
          destruct o1; [congruence|discriminate].
      + rewrite <- Eb. apply denote_measures_dmeas.
        assert (Hone: out <> []) by (intro E; rewrite E in Eb; discriminate).
        rewrite (mrows_pieces out Hone H44). change 0%Z with (-1 + 1)%Z. rewrite W4. exact Hrun.
  Qed.

  Theorem chart_body_rows4 (Hc4 : (k_max_snap cf mod 4 = 0)%Z) (Hd4 : forall p, In p ps -> (p_den p mod 4 = 0)%Z) out :
    write_measures cf current ps (Some k) (-1) (measures_of ps) = Some out ->
    let body := join [10%Z; 44%Z; 10%Z] out in
    forall keys' time' op acc op' acc' ns,
      denote_measures (match body with [] => [] | _ => split_on 44 body end) keys' 0 time' op acc [] = Some (op', acc', ns) ->
      Forall (fun n => (n mod 4 = 0)%Z) ns.
  Proof.
    intros W body keys' time' op acc op' acc' ns D.
    assert (Hlt: forall m, In m (measures_of ps) -> (-1 < m)%Z).
    { intros m Hm. apply measures_of_in in Hm. apply in_map_iff in Hm. destruct Hm as [p [<- Hp]]. rewrite Forall_forall in Hps. destruct (Hps p Hp). lia. }
    destruct (wm_denote (measures_of ps) (-1) (measures_of_sorted ps) Hlt ltac:(lia)) as [out' [W1 [_ [W3 _]]]].
    rewrite W in W1. injection W1 as <-.
    pose proof (wm_rows4 Hc4 Hd4 (measures_of ps) (-1) out W) as R4.
    rewrite (denote_measures_ns_eq _ _ _ _ _ _ _ _ _ _ D), app_nil_r.
    apply Forall_rev. unfold body in *. destruct (join [10%Z; 44%Z; 10%Z] out) as [|b0 b'] eqn:Eb; [constructor|]. rewrite <- Eb.
    assert (Hone: out <> []) by (intro E; rewrite E in Eb; discriminate).
    assert (H44: Forall (fun mt => ~ In 44%Z mt) out).
    { apply Forall_forall. intros mt Hmt. rewrite Forall_forall in W3. apply mch_no44. apply (W3 mt Hmt). }
    assert (E : map (fun mt => Z.of_nat (length (mrows mt))) (split_on 44 (join [10%Z; 44%Z; 10%Z] out))
                = map (fun mt => Z.of_nat (length (mrows mt))) out).
    { rewrite <- (map_map mrows (fun r => Z.of_nat (length r))), (mrows_pieces out Hone H44), map_map. reflexivity. }
    rewrite E. apply Forall_forall. intros n Hn. apply in_map_iff in Hn. destruct Hn as (mt & <- & Hmt). rewrite Forall_forall in R4. exact (R4 mt Hmt).
  Qed.
End Chart.
