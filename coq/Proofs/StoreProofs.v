(* Soundness of the purity analysis of Store.v: a pure program leaves every argument object unchanged, and
   results it owns are fresh objects (they share no mutable state with any argument). *)
From Coq Require Import Arith List Bool Lia.
From RV Require Import Store.Store.
Import ListNotations.

Lemma lookup_bump_other {l l'} vs : l' <> l -> lookup l' (bump l vs) = lookup l' vs.
Proof.
  intro H. induction vs as [|[k n] vs IH]; cbn [bump lookup]; auto.
  destruct (Nat.eqb l k) eqn:E; cbn [lookup].
  - apply Nat.eqb_eq in E. subst k. destruct (Nat.eqb l' l) eqn:E2; auto. apply Nat.eqb_eq in E2. contradiction.
  - rewrite IH. reflexivity.
Qed.

(* invariant: owned variables are bound to objects allocated by the program itself *)
Definition Inv (nargs : nat) (own : list var) (e : env) (s : store) : Prop :=
  nargs <= next s /\ forall v, In v own -> exists l, lookup v e = Some l /\ nargs <= l.

Lemma existsb_in v own : existsb (Nat.eqb v) own = true <-> In v own.
Proof.
  rewrite existsb_exists. split.
  - intros [x [Hin E]]. apply Nat.eqb_eq in E. subst x. exact Hin.
  - intro H. exists v. split; auto. apply Nat.eqb_refl.
Qed.

Lemma step_inv nargs own e s i own' :
  Inv nargs own e s ->
  own' = match i with
         | IAlloc d _ => d :: own
         | IAlias d src => if existsb (Nat.eqb src) own then d :: own else filter (fun v => negb (Nat.eqb v d)) own
         | IWrite _ _ => own
         end ->
  Inv nargs own' (fst (step e s i)) (snd (step e s i)).
Proof.
  intros [Hn Hown] ->. destruct i as [d srcs|d src|d srcs]; cbn [step].
  - cbn [fst snd]. split; [change (nargs <= S (next s)); lia|]. intros v [<-|Hin].
    + exists (next s). cbn [lookup]. rewrite Nat.eqb_refl. split; auto.
    + destruct (Hown v Hin) as [l [Hl Hge]]. cbn [lookup]. destruct (Nat.eqb v d) eqn:E.
      * exists (next s). split; auto.
      * exists l. split; auto.
  - destruct (lookup src e) as [l|] eqn:El; cbn [fst snd].
    + split; [exact Hn|]. destruct (existsb (Nat.eqb src) own) eqn:Eo.
      * apply existsb_in in Eo. destruct (Hown src Eo) as [l0 [Hl0 Hge0]]. rewrite El in Hl0. injection Hl0 as <-.
        intros v [<-|Hin]; cbn [lookup].
        -- rewrite Nat.eqb_refl. exists l. split; auto.
        -- destruct (Nat.eqb v d) eqn:E; [exists l; split; auto|apply Hown; exact Hin].
      * intros v Hin. apply filter_In in Hin. destruct Hin as [Hin Hne]. apply negb_true_iff in Hne.
        cbn [lookup]. rewrite Hne. apply Hown. exact Hin.
    + split; [exact Hn|]. destruct (existsb (Nat.eqb src) own) eqn:Eo.
      * apply existsb_in in Eo. destruct (Hown src Eo) as [l0 [Hl0 _]]. rewrite El in Hl0. discriminate.
      * intros v Hin. apply filter_In in Hin. destruct Hin as [Hin _]. apply Hown. exact Hin.
  - destruct (lookup d e) as [l|]; cbn [fst snd next]; split; auto.
Qed.

(* one step of a pure program does not touch any argument object *)
Lemma step_frame nargs own e s i :
  Inv nargs own e s ->
  match i with IWrite d _ => existsb (Nat.eqb d) own = true | _ => True end ->
  forall l, l < nargs -> lookup l (versions (snd (step e s i))) = lookup l (versions s).
Proof.
  intros [Hn Hown] Hp l Hl. destruct i as [d srcs|d src|d srcs]; cbn [step].
  - cbn [snd versions lookup]. destruct (Nat.eqb l (next s)) eqn:E; auto. apply Nat.eqb_eq in E. lia.
  - destruct (lookup src e); reflexivity.
  - apply existsb_in in Hp. destruct (Hown d Hp) as [l0 [Hl0 Hge]]. rewrite Hl0. cbn [snd versions].
    apply lookup_bump_other. lia.
Qed.

Theorem pure_sound nargs p : forall own e s,
  Inv nargs own e s -> pure_from own p = true ->
  (forall l, l < nargs -> lookup l (versions (snd (run e s p))) = lookup l (versions s))
  /\ Inv nargs (owned_after own p) (fst (run e s p)) (snd (run e s p)).
Proof.
  induction p as [|i p IH]; intros own e s HI Hp; cbn [run]; [split; auto|].
  destruct (step e s i) as [e' s'] eqn:Es.
  assert (E1: e' = fst (step e s i)) by (rewrite Es; reflexivity).
  assert (E2: s' = snd (step e s i)) by (rewrite Es; reflexivity).
  destruct i as [d srcs|d src|d srcs]; cbn [pure_from owned_after] in *.
  - pose proof (step_inv nargs own e s (IAlloc d srcs) _ HI eq_refl) as HI'. rewrite <- E1, <- E2 in HI'.
    destruct (IH _ e' s' HI' Hp) as [F HInv]. split; [|exact HInv].
    intros l Hl. rewrite (F l Hl), E2. apply (step_frame nargs own e s (IAlloc d srcs) HI Logic.I l Hl).
  - pose proof (step_inv nargs own e s (IAlias d src) _ HI eq_refl) as HI'. rewrite <- E1, <- E2 in HI'.
    destruct (IH _ e' s' HI' Hp) as [F HInv]. split; [|exact HInv].
    intros l Hl. rewrite (F l Hl), E2. apply (step_frame nargs own e s (IAlias d src) HI Logic.I l Hl).
  - apply andb_true_iff in Hp. destruct Hp as [Hd Hp].
    pose proof (step_inv nargs own e s (IWrite d srcs) _ HI eq_refl) as HI'. rewrite <- E1, <- E2 in HI'.
    destruct (IH _ e' s' HI' Hp) as [F HInv]. split; [|exact HInv].
    intros l Hl. rewrite (F l Hl), E2. apply (step_frame nargs own e s (IWrite d srcs) HI Hd l Hl).
Qed.

Lemma init_inv nargs : Inv nargs [] (init_env nargs) (init_store nargs).
Proof. split; [cbn; lia|]. intros v []. Qed.

Lemma lookup_init_versions nargs k : k < nargs -> lookup k (versions (init_store nargs)) = Some 0.
Proof.
  unfold init_store; cbn [versions]. intro H.
  assert (G: forall a n, a <= k < a + n -> lookup k (map (fun k0 => (k0, 0)) (seq a n)) = Some 0).
  { intros a n. revert a. induction n as [|n IH]; intros a Hk; [lia|]. cbn [seq map lookup].
    destruct (Nat.eqb k a) eqn:E; auto. apply Nat.eqb_neq in E. apply IH. lia. }
  apply G. lia.
Qed.

(* every argument of a pure operation is unchanged *)
Theorem pure_no_arg_changes nargs p results :
  pure p = true -> fst (outcome nargs p results) = repeat false nargs.
Proof.
  intro Hp. unfold outcome. destruct (run (init_env nargs) (init_store nargs) p) as [e s] eqn:Er.
  cbn [fst]. destruct (pure_sound nargs p [] _ _ (init_inv nargs) Hp) as [F _]. rewrite Er in F. cbn [snd] in F.
  unfold changed_args.
  assert (G: forall a n, a + n <= nargs ->
             map (fun k => match lookup k (versions s) with Some 0 => false | _ => true end) (seq a n) = repeat false n).
  { intros a n. revert a. induction n as [|n IH]; intros a Hle; [reflexivity|]. cbn [seq map repeat].
    rewrite (F a ltac:(lia)), (lookup_init_versions nargs a ltac:(lia)). f_equal. apply IH. lia. }
  apply (G 0 nargs). lia.
Qed.

(* a result the program owns shares no mutable state with any argument *)
Theorem fresh_no_alias nargs p results :
  pure p = true -> fresh_results p results = true ->
  snd (outcome nargs p results) = map (fun _ => None) results.
Proof.
  intros Hp Hf. unfold outcome. destruct (run (init_env nargs) (init_store nargs) p) as [e s] eqn:Er.
  cbn [snd]. destruct (pure_sound nargs p [] _ _ (init_inv nargs) Hp) as [_ [_ HInv]]. rewrite Er in HInv. cbn [fst snd] in HInv.
  unfold fresh_results in Hf. rewrite forallb_forall in Hf. apply map_ext_in. intros r Hin.
  specialize (Hf r Hin). apply existsb_in in Hf. destruct (HInv r Hf) as [l [Hl Hge]].
  unfold result_alias. rewrite Hl. destruct (Nat.ltb l nargs) eqn:E; auto. apply Nat.ltb_lt in E. lia.
Qed.

(* ================================================================================================================
   Soundness of the may-alias analysis of effect programs (Store/Effects.v, Store/EffectsInline.v) with respect to
   the store model: every run a flat program stands for - any sequence of instances of its steps - leaves every
   argument version unchanged when the CHECKED abstract state shows no write to an object that may be an argument,
   and binds the result to a fresh object when it shows that no argument is reachable from the result.
   ================================================================================================================ *)
From Coq Require Import NArith PArith FSets.FSetPositive FSets.FMapPositive String.
From RV Require Import Store.Effects.

Lemma ps_subset_mem s t a : PS.subset s t = true -> PS.mem a s = true -> PS.mem a t = true.
Proof.
  intros Hs Ha. apply PS.mem_1. pose proof (@PS.subset_2 s t Hs) as HH. apply HH. apply PS.mem_2. exact Ha.
Qed.

Lemma reach_in_subset st s t a : reach_in st s t = true -> PS.mem a s = true -> PS.mem a t = true.
Proof.
  unfold reach_in. intro H. apply andb_true_iff in H. destruct H as [H _]. apply ps_subset_mem. exact H.
Qed.

(* what the check guarantees about a step that moves a reference: ARG flows from y to x *)
Lemma step_ok_flow st s x y :
  step_ok st s = true -> (s = FAlias x y \/ s = FLoad x y \/ s = FReach x y) ->
  PS.mem ARG (pts_of st y) = true -> PS.mem ARG (pts_of st x) = true.
Proof.
  intros Hok [->|[->| ->]] Hy; cbn [step_ok] in Hok.
  - exact (ps_subset_mem _ _ _ Hok Hy).
  - exact (reach_in_subset _ _ _ _ Hok Hy).
  - apply andb_true_iff in Hok. destruct Hok as [Hok _]. exact (ps_subset_mem _ _ _ Hok Hy).
Qed.

Definition no_arg_write (st : astate) (p : list fstep) : Prop :=
  forall x, In (FWrite x) p -> PS.mem ARG (pts_of st x) = false.

Lemma writes_in p x : In (FWrite x) p -> In x (writes p).
Proof.
  unfold writes. intro H. apply in_flat_map. exists (FWrite x). split; [exact H|left; reflexivity].
Qed.

Lemma flat_pureb_facts nargs p st : flat_pureb nargs p st = true ->
  (forall k, k < nargs -> PS.mem ARG (pts_of st (N.of_nat k)) = true)
  /\ (forall s, In s p -> step_ok st s = true)
  /\ no_arg_write st p.
Proof.
  unfold flat_pureb, closedb. intro H.
  apply andb_true_iff in H. destruct H as [H Hw]. apply andb_true_iff in H. destruct H as [_ H].
  apply andb_true_iff in H. destruct H as [Hseed Hsteps].
  rewrite forallb_forall in Hseed, Hsteps, Hw. repeat split.
  - intros k Hk. apply Hseed. apply in_seq. lia.
  - exact Hsteps.
  - intros x Hin. specialize (Hw x (writes_in _ _ Hin)). apply negb_true_iff in Hw. exact Hw.
Qed.

(* the invariant of a run: a variable bound to an argument object may be ARG in the abstract state; the argument
   versions are the initial ones; the program's own objects lie above the arguments *)
Definition EInv (nargs : nat) (st : astate) (e : env) (s : store) : Prop :=
  nargs <= next s
  /\ (forall k l, lookup k e = Some l -> l < nargs -> PS.mem ARG (pts_of st (N.of_nat k)) = true)
  /\ (forall l, l < nargs -> lookup l (versions s) = Some 0).

Lemma of_nat_nv x : N.of_nat (nv x) = x.
Proof. unfold nv. apply N2Nat.id. Qed.

Lemma einv_init nargs st :
  (forall k, k < nargs -> PS.mem ARG (pts_of st (N.of_nat k)) = true) ->
  EInv nargs st (init_env nargs) (init_store nargs).
Proof.
  intro Hseed. split; [cbn; lia|]. split.
  - intros k l Hl Hlt.
    assert (G: forall a n, lookup k (map (fun k0 => (k0, k0)) (seq a n)) = Some l -> l = k /\ a <= k < a + n).
    { intros a n. revert a. induction n as [|n IH]; intros a HH; cbn [seq map lookup] in HH; [discriminate|].
      destruct (Nat.eqb k a) eqn:E.
      - apply Nat.eqb_eq in E. injection HH as <-. subst a. split; [reflexivity|lia].
      - destruct (IH _ HH) as [-> Hr]. split; [reflexivity|lia]. }
    unfold init_env in Hl. destruct (G _ _ Hl) as [-> _]. apply Hseed. exact Hlt.
  - intros l Hl. apply lookup_init_versions. exact Hl.
Qed.

Lemma einv_step nargs st p e s i :
  (forall s0, In s0 p -> step_ok st s0 = true) -> no_arg_write st p ->
  (exists s0, In s0 p /\ conc s0 i) ->
  EInv nargs st e s -> EInv nargs st (fst (step e s i)) (snd (step e s i)).
Proof.
  intros Hok Hw [s0 [Hin Hc]] [Hn [He Hv]].
  assert (ALIAS: forall x y, (s0 = FAlias x y \/ s0 = FLoad x y \/ s0 = FReach x y) ->
                 EInv nargs st (fst (step e s (IAlias (nv x) (nv y)))) (snd (step e s (IAlias (nv x) (nv y))))).
  { intros x y Hs. cbn [step]. destruct (lookup (nv y) e) as [l|] eqn:El; cbn [fst snd]; [|repeat split; assumption].
    split; [exact Hn|]. split; [|exact Hv].
    intros k l' Hl' Hlt. cbn [lookup] in Hl'. destruct (Nat.eqb k (nv x)) eqn:E.
    - apply Nat.eqb_eq in E. subst k. injection Hl' as <-. rewrite of_nat_nv.
      apply (step_ok_flow st s0 x y (Hok _ Hin) Hs). rewrite <- (of_nat_nv y). exact (He _ _ El Hlt).
    - exact (He _ _ Hl' Hlt). }
  inversion Hc as [x srcs Hs Hi|x y Hs Hi|x y Hs Hi|x y Hs Hi|x srcs Hs Hi]; subst i.
  - (* alloc *) cbn [step fst snd]. split; [cbn [next]; lia|]. split.
    + intros k l Hl Hlt. cbn [lookup] in Hl. destruct (Nat.eqb k (nv x)) eqn:E.
      * injection Hl as <-. lia.
      * exact (He _ _ Hl Hlt).
    + intros l Hl. cbn [versions lookup]. destruct (Nat.eqb l (next s)) eqn:E.
      * apply Nat.eqb_eq in E. lia.
      * exact (Hv _ Hl).
  - apply ALIAS. left. symmetry. exact Hs.
  - apply ALIAS. right. left. symmetry. exact Hs.
  - apply ALIAS. right. right. symmetry. exact Hs.
  - (* write *) cbn [step]. destruct (lookup (nv x) e) as [l|] eqn:El; cbn [fst snd]; [|repeat split; assumption].
    split; [exact Hn|]. split; [exact He|].
    intros l' Hl'. cbn [versions]. rewrite lookup_bump_other; [exact (Hv _ Hl')|].
    intro Heq. subst l'. pose proof (He _ _ El Hl') as Hm. rewrite of_nat_nv in Hm.
    rewrite (Hw x) in Hm; [discriminate|]. rewrite Hs. exact Hin.
Qed.

Lemma einv_run nargs st p t :
  (forall s0, In s0 p -> step_ok st s0 = true) -> no_arg_write st p -> run_of p t ->
  forall e s, EInv nargs st e s -> EInv nargs st (fst (run e s t)) (snd (run e s t)).
Proof.
  intros Hok Hw Hr. induction Hr as [|i t Hi Ht IH]; intros e s HI; [exact HI|].
  cbn [run]. destruct (step e s i) as [e' s'] eqn:Es.
  apply IH. pose proof (einv_step nargs st p e s i Hok Hw Hi HI) as H. rewrite Es in H. exact H.
Qed.

Lemma unchanged_of_versions nargs s :
  (forall l, l < nargs -> lookup l (versions s) = Some 0) -> changed_args nargs s = repeat false nargs.
Proof.
  intro F. unfold changed_args.
  assert (G: forall a n, a + n <= nargs ->
             map (fun k => match lookup k (versions s) with Some 0 => false | _ => true end) (seq a n) = repeat false n).
  { intros a n. revert a. induction n as [|n IH]; intros a Hle; [reflexivity|]. cbn [seq map repeat].
    rewrite (F a ltac:(lia)). f_equal. apply IH. lia. }
  apply (G 0 nargs). lia.
Qed.

(* PURITY: no run of a program that passes the check changes an argument *)
Theorem flat_pure_sound nargs p st :
  flat_pureb nargs p st = true ->
  forall t results, run_of p t -> fst (outcome nargs t results) = repeat false nargs.
Proof.
  intros Hp t results Hr. destruct (flat_pureb_facts _ _ _ Hp) as [Hseed [Hok Hw]].
  pose proof (einv_run nargs st p t Hok Hw Hr _ _ (einv_init nargs st Hseed)) as [_ [_ Hv]].
  unfold outcome. destruct (run (init_env nargs) (init_store nargs) t) as [e s]. cbn [fst snd] in *.
  apply unchanged_of_versions. exact Hv.
Qed.

(* OWNERSHIP: ... and the result is bound to an object the program created itself *)
Theorem flat_owned_sound nargs p st ret rd :
  flat_ownedb nargs p st ret rd = true ->
  forall t, run_of p t -> outcome nargs t [nv ret] = (repeat false nargs, [None]).
Proof.
  unfold flat_ownedb. intros H t Hr.
  apply andb_true_iff in H. destruct H as [H Hrd]. apply andb_true_iff in H. destruct H as [Hp Hex].
  apply negb_true_iff in Hrd.
  destruct (flat_pureb_facts _ _ _ Hp) as [Hseed [Hok Hw]].
  pose proof (einv_run nargs st p t Hok Hw Hr _ _ (einv_init nargs st Hseed)) as [_ [He Hv]].
  unfold outcome. destruct (run (init_env nargs) (init_store nargs) t) as [e s]. cbn [fst snd] in *.
  f_equal; [apply unchanged_of_versions; exact Hv|].
  cbn [map]. f_equal. unfold result_alias. destruct (lookup (nv ret) e) as [l|] eqn:El; [|reflexivity].
  destruct (Nat.ltb l nargs) eqn:E; [|reflexivity]. apply Nat.ltb_lt in E.
  pose proof (He _ _ El E) as Hm. rewrite of_nat_nv in Hm.
  apply existsb_exists in Hex. destruct Hex as [s0 [Hin Hs0]].
  destruct s0 as [x|x y|x y|x y|x y|x|]; try discriminate.
  apply andb_true_iff in Hs0. destruct Hs0 as [Ex Ey]. apply N.eqb_eq in Ex. apply N.eqb_eq in Ey. subst x y.
  pose proof (step_ok_flow st _ rd ret (Hok _ Hin) (or_intror (or_intror eq_refl)) Hm) as Hc.
  rewrite Hrd in Hc. discriminate.
Qed.

(* the same, from any state of a run in progress that satisfies the invariant: operations applied one after another
   compose (the second program is analysed with the variables the first one left bound) *)
Theorem flat_pure_sound_from nargs p st :
  flat_pureb nargs p st = true ->
  forall t e s, run_of p t -> EInv nargs st e s -> EInv nargs st (fst (run e s t)) (snd (run e s t)).
Proof.
  intros Hp t e s Hr HI. destruct (flat_pureb_facts _ _ _ Hp) as [_ [Hok Hw]].
  exact (einv_run nargs st p t Hok Hw Hr e s HI).
Qed.

Lemma run_of_app p q t u : run_of p t -> run_of q u -> run_of (p ++ q) (t ++ u).
Proof.
  unfold run_of. intros Hp Hq. apply Forall_app. split.
  - eapply Forall_impl; [|exact Hp]. intros i [s [Hin Hc]]. exists s. split; [apply in_or_app; left; exact Hin|exact Hc].
  - eapply Forall_impl; [|exact Hq]. intros i [s [Hin Hc]]. exists s. split; [apply in_or_app; right; exact Hin|exact Hc].
Qed.

(* ---- the same two theorems for the programs of the generated table (harness/tables/effects.py -> Tables.effects):
        `flat_of` inlines the callees, `analyse` runs the iteration and the check ---- *)
From RV Require Import Generated.Tables Store.EffectsInline.
Import Tables.effects.

Theorem effect_pure_sound f :
  effect_pureb f = true ->
  forall t results, run_of (flat_of c14_effects f) t ->
  fst (outcome (nargs_of f) t results) = repeat false (nargs_of f).
Proof.
  unfold effect_pureb, analyse. cbv beta zeta. cbn [fst]. intro H.
  exact (flat_pure_sound _ _ _ H).
Qed.

Theorem effect_owned_sound f :
  effect_ownedb f = true ->
  forall t, run_of (flat_of c14_effects f) t ->
  outcome (nargs_of f) t [nv (ef_ret f)] = (repeat false (nargs_of f), [None]).
Proof.
  unfold effect_ownedb, analyse. cbv beta zeta. cbn [snd]. intro H.
  exact (flat_owned_sound _ _ _ _ _ H).
Qed.

(* the verdicts the runner looks up are the analysis' verdicts *)
Lemma effect_verdicts_are_analysis : effect_verdicts = map (analyse c14_effects) c14_effects.
Proof. vm_compute. reflexivity. Qed.
