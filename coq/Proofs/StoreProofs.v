(* Soundness of the purity analysis of Store.v: a pure program leaves every argument object unchanged, and
   results it owns are fresh objects (they share no mutable state with any argument). *)
From Coq Require Import Arith List Bool Lia.
From RV Require Import Store.Store.
Import ListNotations.

Lemma lookup_bump_other {l l'} vs : l' <> l -> lookup l' (bump l vs) = lookup l' vs.
Proof.
  intro H. induction vs as [|[k n] vs IH]; cbn [bump lookup]; auto.
  destruct (Nat.eqb l k) eqn:E; cbn [lookup].
  - apply Nat.eqb_eq in E. subst k. destruct (Nat.eqb l' l) eqn:E2; auto. apply Nat.eqb_eq in E2. contradiction.
  - rewrite IH. reflexivity.
Qed.

(* invariant: owned variables are bound to objects allocated by the program itself *)
Definition Inv (nargs : nat) (own : list var) (e : env) (s : store) : Prop :=
  nargs <= next s /\ forall v, In v own -> exists l, lookup v e = Some l /\ nargs <= l.

Lemma existsb_in v own : existsb (Nat.eqb v) own = true <-> In v own.
Proof.
  rewrite existsb_exists. split.
  - intros [x [Hin E]]. apply Nat.eqb_eq in E. subst x. exact Hin.
  - intro H. exists v. split; auto. apply Nat.eqb_refl.
Qed.

Lemma step_inv nargs own e s i own' :
  Inv nargs own e s ->
  own' = match i with
         | IAlloc d _ => d :: own
         | IAlias d src => if existsb (Nat.eqb src) own then d :: own else filter (fun v => negb (Nat.eqb v d)) own
         | IWrite _ _ => own
         end ->
  Inv nargs own' (fst (step e s i)) (snd (step e s i)).
Proof.
  intros [Hn Hown] ->. destruct i as [d srcs|d src|d srcs]; cbn [step].
  - cbn [fst snd]. split; [change (nargs <= S (next s)); lia|]. intros v [<-|Hin].
    + exists (next s). cbn [lookup]. rewrite Nat.eqb_refl. split; auto.
    + destruct (Hown v Hin) as [l [Hl Hge]]. cbn [lookup]. destruct (Nat.eqb v d) eqn:E.
      * exists (next s). split; auto.
      * exists l. split; auto.
  - destruct (lookup src e) as [l|] eqn:El; cbn [fst snd].
    + split; [exact Hn|]. destruct (existsb (Nat.eqb src) own) eqn:Eo.
      * apply existsb_in in Eo. destruct (Hown src Eo) as [l0 [Hl0 Hge0]]. rewrite El in Hl0. injection Hl0 as <-.
        intros v [<-|Hin]; cbn [lookup].
        -- rewrite Nat.eqb_refl. exists l. split; auto.
        -- destruct (Nat.eqb v d) eqn:E; [exists l; split; auto|apply Hown; exact Hin].
      * intros v Hin. apply filter_In in Hin. destruct Hin as [Hin Hne]. apply negb_true_iff in Hne.
        cbn [lookup]. rewrite Hne. apply Hown. exact Hin.
    + split; [exact Hn|]. destruct (existsb (Nat.eqb src) own) eqn:Eo.
      * apply existsb_in in Eo. destruct (Hown src Eo) as [l0 [Hl0 _]]. rewrite El in Hl0. discriminate.
      * intros v Hin. apply filter_In in Hin. destruct Hin as [Hin _]. apply Hown. exact Hin.
  - destruct (lookup d e) as [l|]; cbn [fst snd next]; split; auto.
Qed.

(* one step of a pure program does not touch any argument object *)
Lemma step_frame nargs own e s i :
  Inv nargs own e s ->
  match i with IWrite d _ => existsb (Nat.eqb d) own = true | _ => True end ->
  forall l, l < nargs -> lookup l (versions (snd (step e s i))) = lookup l (versions s).
Proof.
  intros [Hn Hown] Hp l Hl. destruct i as [d srcs|d src|d srcs]; cbn [step].
  - cbn [snd versions lookup]. destruct (Nat.eqb l (next s)) eqn:E; auto. apply Nat.eqb_eq in E. lia.
  - destruct (lookup src e); reflexivity.
  - apply existsb_in in Hp. destruct (Hown d Hp) as [l0 [Hl0 Hge]]. rewrite Hl0. cbn [snd versions].
    apply lookup_bump_other. lia.
Qed.

Theorem pure_sound nargs p : forall own e s,
  Inv nargs own e s -> pure_from own p = true ->
  (forall l, l < nargs -> lookup l (versions (snd (run e s p))) = lookup l (versions s))
  /\ Inv nargs (owned_after own p) (fst (run e s p)) (snd (run e s p)).
Proof.
  induction p as [|i p IH]; intros own e s HI Hp; cbn [run]; [split; auto|].
  destruct (step e s i) as [e' s'] eqn:Es.
  assert (E1: e' = fst (step e s i)) by (rewrite Es; reflexivity).
  assert (E2: s' = snd (step e s i)) by (rewrite Es; reflexivity).
  destruct i as [d srcs|d src|d srcs]; cbn [pure_from owned_after] in *.
  - pose proof (step_inv nargs own e s (IAlloc d srcs) _ HI eq_refl) as HI'. rewrite <- E1, <- E2 in HI'.
    destruct (IH _ e' s' HI' Hp) as [F HInv]. split; [|exact HInv].
    intros l Hl. rewrite (F l Hl), E2. apply (step_frame nargs own e s (IAlloc d srcs) HI Logic.I l Hl).
  - pose proof (step_inv nargs own e s (IAlias d src) _ HI eq_refl) as HI'. rewrite <- E1, <- E2 in HI'.
    destruct (IH _ e' s' HI' Hp) as [F HInv]. split; [|exact HInv].
    intros l Hl. rewrite (F l Hl), E2. apply (step_frame nargs own e s (IAlias d src) HI Logic.I l Hl).
  - apply andb_true_iff in Hp. destruct Hp as [Hd Hp].
    pose proof (step_inv nargs own e s (IWrite d srcs) _ HI eq_refl) as HI'. rewrite <- E1, <- E2 in HI'.
    destruct (IH _ e' s' HI' Hp) as [F HInv]. split; [|exact HInv].
    intros l Hl. rewrite (F l Hl), E2. apply (step_frame nargs own e s (IWrite d srcs) HI Hd l Hl).
Qed.

Lemma init_inv nargs : Inv nargs [] (init_env nargs) (init_store nargs).
Proof. split; [cbn; lia|]. intros v []. Qed.

Lemma lookup_init_versions nargs k : k < nargs -> lookup k (versions (init_store nargs)) = Some 0.
Proof.
  unfold init_store; cbn [versions]. intro H.
  assert (G: forall a n, a <= k < a + n -> lookup k (map (fun k0 => (k0, 0)) (seq a n)) = Some 0).
  { intros a n. revert a. induction n as [|n IH]; intros a Hk; [lia|]. cbn [seq map lookup].
    destruct (Nat.eqb k a) eqn:E; auto. apply Nat.eqb_neq in E. apply IH. lia. }
  apply G. lia.
Qed.

(* every argument of a pure operation is unchanged *)
Theorem pure_no_arg_changes nargs p results :
  pure p = true -> fst (outcome nargs p results) = repeat false nargs.
Proof.
  intro Hp. unfold outcome. destruct (run (init_env nargs) (init_store nargs) p) as [e s] eqn:Er.
  cbn [fst]. destruct (pure_sound nargs p [] _ _ (init_inv nargs) Hp) as [F _]. rewrite Er in F. cbn [snd] in F.
  unfold changed_args.
  assert (G: forall a n, a + n <= nargs ->
             map (fun k => match lookup k (versions s) with Some 0 => false | _ => true end) (seq a n) = repeat false n).
  { intros a n. revert a. induction n as [|n IH]; intros a Hle; [reflexivity|]. cbn [seq map repeat].
    rewrite (F a ltac:(lia)), (lookup_init_versions nargs a ltac:(lia)). f_equal. apply IH. lia. }
  apply (G 0 nargs). lia.
Qed.

(* a result the program owns shares no mutable state with any argument *)
Theorem fresh_no_alias nargs p results :
  pure p = true -> fresh_results p results = true ->
  snd (outcome nargs p results) = map (fun _ => None) results.
Proof.
  intros Hp Hf. unfold outcome. destruct (run (init_env nargs) (init_store nargs) p) as [e s] eqn:Er.
  cbn [snd]. destruct (pure_sound nargs p [] _ _ (init_inv nargs) Hp) as [_ [_ HInv]]. rewrite Er in HInv. cbn [fst snd] in HInv.
  unfold fresh_results in Hf. rewrite forallb_forall in Hf. apply map_ext_in. intros r Hin.
  specialize (Hf r Hin). apply existsb_in in Hf. destruct (HInv r Hf) as [l [Hl Hge]].
  unfold result_alias. rewrite Hl. destruct (Nat.ltb l nargs) eqn:E; auto. apply Nat.ltb_lt in E. lia.
Qed.
