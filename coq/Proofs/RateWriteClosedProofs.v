(* C13: the write-survival theorems with the hypothesis on the SOURCE chart (closure of the writer domains under rate,
   Proofs/RateWriteClose{BMS,SM,Osu}.v), and the witnesses where closure fails. *)
From Coq Require Import String.
From Coq Require Import ZArith QArith Qround Qabs List Bool Lia Lqa Permutation.
From RV Require Import Base.PyNum Formats.Timeline Map.RateWrite Proofs.RateWriteProofs.
From RV Require Import Proofs.RateWriteCloseBMS Proofs.RateWriteCloseSM Proofs.RateWriteCloseOsu.
From RV Require Formats.SMText Formats.SM Formats.SMSpec Formats.SMWriteDom Proofs.SMProofs Proofs.SMWriteWholeFile Proofs.SMWriteWholeEx.
From RV Require Formats.BMSText Formats.BMS Formats.BMSSpec Proofs.BMSWriteFinalProofs Timing.Snap Timing.Snapper Generated.Tables.
Import ListNotations.
Open Scope Q_scope.

(* ---- StepMania: closure holds outright for r > 0 ---- *)
Theorem sm_rate_survives_write_closed r s : 0 < r -> SMWriteWholeFile.c03_domb s = true ->
  exists toks, SM.sm_write SMProofs.live_conf SM.current (SMRate.sm_set_rate r s) = Some toks /\
    forall txt, SM.match_toks 0 toks txt = true ->
      exists d, SMSpec.sm_denote txt = Some d /\ SMRate.header_survives r s d /\
                Forall2 (SMRate.chart_survives r) (SMSpec.d_charts d) (SM.s_maps s) /\
                SMSpec.forallb2 (fun tag v => match SMSpec.lookup_last tag (SMSpec.d_items d) None with
                                              | Some x => SMText.text_eqb x v | None => false end)
                                SMSpec.text_field_tags (SM.s_txt s) = true /\
                SMRate.tempo_survives r s d.
Proof. intros Hr Hd. apply SMRateProofs.sm_rate_survives_write. apply c03_domb_rate; assumption. Qed.

(* ---- BMS: closure under the one guard a rate change can break (':.3f' of bpm * r) ---- *)
Theorem bms_rate_survives_write_closed tbl (Hok : Snapper.table_ok (1 # 96) tbl = true) mk lay dflt r c (rd : Q -> BMSText.text) :
  0 < r -> BMSSpec.write_dom tbl mk lay dflt c = true ->
  forallb BMSSpec.bpm_3f_ok (map (BMSRate.bco_rate r) (BMS.w_bpms c)) = true ->
  (forall q, BMSText.parse_decimal (rd q) <> None) ->
  exists ls l d, BMS.bms_write tbl lay dflt (BMSRate.bms_chart_rate r c) = Some ls /\
    BMSSpec.wscript tbl (BMSRate.bms_chart_rate r c) = Some l /\
    BMSSpec.bms_denote lay (map (BMSSpec.render_with rd) ls) = Some d /\ BMSRate.survives tbl dflt r c l d.
Proof.
  intros Hr Hd H3 Hp. apply (BMSRateProofs.bms_rate_survives_write tbl Hok mk lay dflt r c rd); [|exact Hp].
  apply bms_write_dom_rate; assumption.
Qed.

(* without the guard closure is false: C05's example chart rated by 3/7 has tempos 360/7 and 450/7, which ':.3f' does not
   hold; every other clause of the domain (wf_wchart, tempo_dom) is still true of the rated chart *)
Theorem bms_write_dom_rate_refuted :
  exists c r, 0 < r
    /\ BMSSpec.write_dom Tables.Tables.snapper_table Tables.Tables.bms.max_keys Tables.Tables.bms.layout_BME [48;49]%Z c = true
    /\ BMSSpec.write_dom Tables.Tables.snapper_table Tables.Tables.bms.max_keys Tables.Tables.bms.layout_BME [48;49]%Z (BMSRate.bms_chart_rate r c) = false
    /\ BMSSpec.wf_wchart 0 Tables.Tables.snapper_table Tables.Tables.bms.layout_BME [48;49]%Z (BMSRate.bms_chart_rate r c) = true
    /\ BMSSpec.tempo_dom Tables.Tables.snapper_table (BMSRate.bms_chart_rate r c) = true
    /\ forallb BMSSpec.bpm_3f_ok (BMS.w_bpms (BMSRate.bms_chart_rate r c)) = false.
Proof.
  exists Examples.bms_ex, (3 # 7). split; [reflexivity|]. split; [vm_compute; reflexivity|]. split; [vm_compute; reflexivity|].
  split; [vm_compute; reflexivity|]. split; vm_compute; reflexivity.
Qed.
(* non-vacuity of the guard: rates 2, 1/2, 3/4 and 1001/1000 keep the example's tempos within three decimals *)
Theorem bms_rate_guard_example :
  forallb (fun r => forallb BMSSpec.bpm_3f_ok (map (BMSRate.bco_rate r) (BMS.w_bpms Examples.bms_ex))) [2; 1 # 2; 3 # 4; 1001 # 1000] = true.
Proof. vm_compute. reflexivity. Qed.

(* ---- BMS, tempo rows in any order: C05_bms_write_denotes_any_order composed with the rate; hypothesis on the SOURCE chart
   (write_dom_any) and the ':.3f' guard ---- *)
From RV Require Proofs.BMSWriteAnyOrderProofs Proofs.RateScaleProofs.
Lemma written_rated_any tbl dflt r c l d : 0 < r ->
  BMSSpec.written_denotes_any tbl dflt (BMSRate.bms_chart_rate r c) l d -> BMSRate.survives_any tbl dflt r c l d.
Proof.
  intros Hr (Hh & Hl & Ht & _). unfold BMSRate.survives_any.
  destruct Hh as [hs [Ph Fh]]. destruct Hl as [ls [Pl Fl]].
  cbn [BMSRate.bms_chart_rate BMS.w_hits BMS.w_holds BMS.w_bpms BMS.w_samples] in *.
  change (BMSRate.bco_rate r) with (RateScaleProofs.bco_sc r) in Ht. rewrite (RateScaleProofs.sort_bco_sc r Hr) in Ht.
  apply Forall2_map_l in Fh. apply Forall2_map_l in Fl. apply Forall2_map_l in Ht.
  split; [|split; [|split; [|split]]].
  - exists hs. split; [apply Permutation_sym; exact Ph|]. eapply Forall2_impl'; [|exact Fh].
    intros h s (A & B & C). cbn [BMSRate.hit_rate BMS.h_col BMS.h_off BMS.h_sample] in *. auto.
  - exists ls. split; [apply Permutation_sym; exact Pl|]. eapply Forall2_impl'; [|exact Fl].
    intros h s (A & B & C & D). cbn [BMSRate.hold_rate BMS.ho_col BMS.ho_off BMS.ho_len BMS.ho_sample] in *. auto.
  - eapply Forall2_impl'; [|exact Ht]. intros b tb [A B]. cbn [RateScaleProofs.bco_sc Snap.bo_off Snap.bo_bpm] in *. split.
    + rewrite A. apply Qred_correct.
    + rewrite B. apply Qred_correct.
  - rewrite <- (Permutation_length Ph). symmetry. exact (Forall2_len _ _ _ Fh).
  - rewrite <- (Permutation_length Pl). symmetry. exact (Forall2_len _ _ _ Fl).
Qed.
Theorem bms_rate_survives_write_any_order tbl (Hok : Snapper.table_ok (1 # 96) tbl = true) mk lay dflt r c (rd : Q -> BMSText.text) :
  0 < r -> BMSSpec.write_dom_any tbl mk lay dflt c = true ->
  forallb BMSSpec.bpm_3f_ok (map (BMSRate.bco_rate r) (BMS.w_bpms c)) = true ->
  (forall q, BMSText.parse_decimal (rd q) <> None) ->
  exists ls l d, BMS.bms_write tbl lay dflt (BMSRate.bms_chart_rate r c) = Some ls /\
    BMSSpec.wscript tbl (BMSRate.bms_chart_rate r c) = Some l /\
    BMSSpec.bms_denote lay (map (BMSSpec.render_with rd) ls) = Some d /\ BMSRate.survives_any tbl dflt r c l d.
Proof.
  intros Hr Hd H3 Hp.
  destruct (BMSWriteAnyOrderProofs.bms_write_denotes_any_order tbl Hok mk lay dflt _ rd (bms_write_dom_any_rate tbl r Hr mk lay dflt c Hd H3) Hp)
    as [ls [l [d [E1 [E2 [E3 [E4 _]]]]]]].
  exists ls, l, d. split; [exact E1|]. split; [exact E2|]. split; [exact E3|]. apply written_rated_any; assumption.
Qed.

(* non-vacuity of the closed forms *)
From RV Require Proofs.OsuWhole Formats.OsuSpec Base.Text.
Theorem closed_example :
  SMWriteWholeFile.c03_domb SMWriteWholeEx.c03_ex_set = true
  /\ SMWriteWholeFile.c03_domb (SMRate.sm_set_rate (7 # 3) SMWriteWholeEx.c03_ex_set) = true
  /\ BMSSpec.write_dom Tables.Tables.snapper_table Tables.Tables.bms.max_keys Tables.Tables.bms.layout_BME [48;49]%Z Examples.bms_ex = true
  /\ forallb (fun r => forallb BMSSpec.bpm_3f_ok (map (BMSRate.bco_rate r) (BMS.w_bpms Examples.bms_ex))) [2; 1 # 2; 3 # 4; 1001 # 1000] = true
  /\ OsuSpec.write_domain OsuRateProofs.wit_chart (Text.t "Re:Zero"%string) [] = true
  /\ forallb OsuWhole.dec6_printable (OsuSpec.wn_numbers (OsuRate.osu_chart_rate 2 OsuRateProofs.wit_chart)) = true.
Proof.
  split; [vm_compute; reflexivity|]. split; [apply c03_domb_rate; [reflexivity|vm_compute; reflexivity]|].
  split; [vm_compute; reflexivity|]. split; [exact bms_rate_guard_example|]. split; vm_compute; reflexivity.
Qed.
(* C05's example chart with its tempo rows reversed: outside write_dom, inside write_dom_any; rates 2 and 3/4 keep the guard *)
Definition bms_ex_rev : BMS.wchart := BMSSpec.with_bpms Examples.bms_ex (rev (BMS.w_bpms Examples.bms_ex)).
Theorem closed_example_any :
  BMSSpec.write_dom_any Tables.Tables.snapper_table Tables.Tables.bms.max_keys Tables.Tables.bms.layout_BME [48;49]%Z bms_ex_rev = true
  /\ BMSSpec.write_dom Tables.Tables.snapper_table Tables.Tables.bms.max_keys Tables.Tables.bms.layout_BME [48;49]%Z bms_ex_rev = false
  /\ forallb (fun r => forallb BMSSpec.bpm_3f_ok (map (BMSRate.bco_rate r) (BMS.w_bpms bms_ex_rev))) [2; 3 # 4] = true.
Proof. split; [vm_compute; reflexivity|]. split; vm_compute; reflexivity. Qed.
