(* C13: rate change = uniform scaling, identity at 1, composition; built on the stacker theorems of C12. *)
From Coq Require Import ZArith QArith Qround List Bool Lia Lqa.
From RV Require Import Base.PyNum Frame.Frame Lists.TimedList Lists.SeqSpec Map.Stacker Map.StackerSpec Map.Rate Map.RateFile Proofs.StackerProofs Proofs.TimedListProofs.
Import ListNotations.
Open Scope Q_scope.

(* positional view of "set column k of a row to g(old value)" *)
Fixpoint zip_upd (k : Z) (g : cell -> cell) (cols : list Z) (r : row) : row :=
  match cols, r with
  | c :: cols', v :: r' => (if (c =? k)%Z then g v else v) :: zip_upd k g cols' r'
  | _, _ => r
  end.

Lemma zip_upd_notin k g cols r : notin k cols -> zip_upd k g cols r = r.
Proof.
  unfold notin. revert r. induction cols as [|c cols IH]; intros r H; [destruct r; reflexivity|].
  destruct r as [|v r]; [reflexivity|]. cbn [existsb] in H. apply orb_false_iff in H. destruct H as [H1 H2].
  cbn [zip_upd]. rewrite (Z.eqb_sym c k), H1, (IH r H2). reflexivity.
Qed.

Lemma row_upd_zip cols k g r : nodupb cols = true -> length r = length cols ->
  row_set cols k (g (row_get cols k r)) r = zip_upd k g cols r.
Proof.
  unfold row_set, row_get, get_cell. revert r. induction cols as [|c cols IH]; intros r Hnd Hl.
  - destruct r; [reflexivity|discriminate].
  - destruct r as [|v r]; [discriminate|]. cbn [nodupb] in Hnd. apply andb_true_iff in Hnd. destruct Hnd as [Hc Hnd].
    apply negb_true_iff in Hc. cbn [col_index zip_upd]. destruct (c =? k)%Z eqn:E.
    + apply Z.eqb_eq in E. subst c. cbn [nth_error set_nth]. f_equal. symmetry. apply zip_upd_notin. exact Hc.
    + specialize (IH r Hnd ltac:(simpl in Hl; lia)).
      destruct (col_index k cols) as [i|] eqn:Ei; cbn [option_map nth_error set_nth] in *; f_equal; exact IH.
Qed.

Lemma zip_upd_length k g cols r : length (zip_upd k g cols r) = length r.
Proof. revert r. induction cols as [|c cols IH]; intros r; destruct r; cbn [zip_upd length]; auto. Qed.

Definition rows_wf (cols : list Z) (rows : list row) : Prop := forall r, In r rows -> length r = length cols.

Lemma list_assign_scalar cols k o v rows : nodupb cols = true -> rows_wf cols rows ->
  list_assign cols k o rows [] v true = map (zip_upd k (fun c => cell_arith o c v) cols) rows.
Proof.
  intros Hnd Hw. induction rows as [|r rows IH]; [reflexivity|]. cbn [list_assign map tl].
  rewrite (row_upd_zip cols k (fun c => cell_arith o c v) r Hnd) by (apply Hw; left; reflexivity).
  f_equal. apply IH. intros r' Hin. apply Hw. right. exact Hin.
Qed.

Lemma per_list_scalar k o v ls : forallb wf_ulist ls = true ->
  per_list (SAssign k o (OScalar v)) ls
  = map (fun u => mkUlist (u_cols u) (map (zip_upd k (fun c => cell_arith o c v) (u_cols u)) (u_rows u))) ls.
Proof.
  induction ls as [|u ls IH]; intro Hwf; [reflexivity|]. cbn [forallb] in Hwf. apply andb_true_iff in Hwf.
  destruct Hwf as [Hu Hwf]. destruct (wf_ulist_rows _ Hu) as [Hnd Hlen]. cbn [per_list map].
  rewrite (list_assign_scalar _ k o v _ Hnd Hlen), (IH Hwf). reflexivity.
Qed.

Lemma upd_wf k g u : wf_ulist u = true -> wf_ulist (mkUlist (u_cols u) (map (zip_upd k g (u_cols u)) (u_rows u))) = true.
Proof.
  unfold wf_ulist. cbn [u_cols u_rows]. intro H. apply andb_true_iff in H. destruct H as [H1 H2].
  apply andb_true_iff. split; [exact H1|]. rewrite forallb_forall in *. intros r Hin.
  apply in_map_iff in Hin. destruct Hin as [r0 [<- Hin0]]. rewrite zip_upd_length. apply H2. exact Hin0.
Qed.

Lemma map_upd_wf k g ls : forallb wf_ulist ls = true ->
  forallb wf_ulist (map (fun u => mkUlist (u_cols u) (map (zip_upd k g (u_cols u)) (u_rows u))) ls) = true.
Proof.
  induction ls as [|u ls IH]; intro H; [reflexivity|]. cbn [forallb map] in *. apply andb_true_iff in H.
  destruct H as [Hu H]. rewrite (upd_wf k g u Hu), (IH H). reflexivity.
Qed.

Lemma stack_rows_len ls : length (stack_rows ls) = fold_right (fun u n => (length (u_rows u) + n)%nat) O ls.
Proof.
  induction ls as [|u ls IH]; [reflexivity|]. cbn [stack_rows flat_map fold_right]. fold (stack_rows ls).
  rewrite app_length, map_length, IH. reflexivity.
Qed.

(* running a sequence of scalar edits through one stacker = composing the per-list edits *)
Fixpoint per_list_run (ops : list sop) (ls : list ulist) : list ulist :=
  match ops with [] => ls | op :: ops' => per_list_run ops' (per_list op ls) end.

Lemma apply_len op ls rows :
  length rows = fold_right (fun u n => (length (u_rows u) + n)%nat) O ls ->
  length (st_rows (stack_apply op (mkStacker (map (fun u => length (u_rows u)) ls) rows))) = length rows.
Proof.
  intros _. destruct op as [k o [v|vs]|m cs o v]; cbn [stack_apply stack_assign stack_loc st_rows];
    rewrite ?assign_rows_length, ?loc_rows_length; reflexivity.
Qed.

Lemma per_list_lens op ls : 
  fold_right (fun u n => (length (u_rows u) + n)%nat) O (per_list op ls) = fold_right (fun u n => (length (u_rows u) + n)%nat) O ls.
Proof.
  destruct (per_list_shape op ls) as [_ H]. revert H. generalize (per_list op ls). intro l'. revert l'.
  induction ls as [|u ls IH]; intros l' H; destruct l' as [|u' l']; try discriminate; [reflexivity|].
  cbn [map] in H. injection H as H1 H2. cbn [fold_right]. rewrite H1, (IH l' H2). reflexivity.
Qed.

Lemma per_list_wf_scalar k o v ls : forallb wf_ulist ls = true -> forallb wf_ulist (per_list (SAssign k o (OScalar v)) ls) = true.
Proof. intro H. rewrite per_list_scalar by exact H. apply map_upd_wf. exact H. Qed.

Definition scalar_op (op : sop) : Prop := match op with SAssign _ _ (OScalar _) => True | _ => False end.

Lemma stack_run_refines ops : Forall scalar_op ops -> forall ls rows,
  forallb wf_ulist ls = true -> coherentP ls rows ->
  length rows = fold_right (fun u n => (length (u_rows u) + n)%nat) O ls ->
  stack_run ls (mkStacker (map (fun u => length (u_rows u)) ls) rows) ops = per_list_run ops ls.
Proof.
  induction 1 as [|op ops Hop Hops IH]; intros ls rows Hwf Hco Hlen; [reflexivity|].
  cbn [stack_run per_list_run].
  pose proof (stack_step_refines ls rows op Hwf Hco) as R.
  pose proof (coherence_preserved ls rows op Hlen) as C. cbv zeta in C.
  unfold stack_step in *. cbn [snd] in R.
  set (st' := stack_apply op (mkStacker (map (fun u => length (u_rows u)) ls) rows)) in *.
  rewrite R in C |- *.
  destruct op as [k o [v|vs]|m cs o v]; try contradiction.
  assert (Hst: st' = mkStacker (map (fun u => length (u_rows u)) (per_list (SAssign k o (OScalar v)) ls)) (st_rows st')).
  { subst st'. cbn [stack_apply stack_assign st_rows]. f_equal. destruct (per_list_shape (SAssign k o (OScalar v)) ls) as [_ E]. symmetry. exact E. }
  rewrite Hst. apply IH.
  - apply per_list_wf_scalar. exact Hwf.
  - exact C.
  - rewrite per_list_lens. subst st'. rewrite apply_len by exact Hlen. exact Hlen.
Qed.

(* composition of the three rate edits on one row = scale_row *)
Lemma rate_row by_ cols r :
  zip_upd COL_LENGTH (fun c => cell_arith ADiv c by_) cols
    (zip_upd COL_BPM (fun c => cell_arith AMul c by_) cols
      (zip_upd COL_OFFSET (fun c => cell_arith ADiv c by_) cols r)) = scale_row by_ cols r.
Proof.
  revert r. induction cols as [|c cols IH]; intros r; [destruct r; reflexivity|].
  destruct r as [|v r]; [reflexivity|]. cbn [zip_upd scale_row]. rewrite IH. f_equal.
  unfold scale_cell, COL_OFFSET, COL_LENGTH, COL_BPM.
  destruct (c =? 0)%Z eqn:E0; [apply Z.eqb_eq in E0; subst c; destruct v; reflexivity|].
  destruct (c =? 3)%Z eqn:E3; [apply Z.eqb_eq in E3; subst c; destruct v; reflexivity|].
  destruct (c =? 2)%Z eqn:E2; [apply Z.eqb_eq in E2; subst c; destruct v; reflexivity|].
  destruct v; reflexivity.
Qed.

Theorem rate_scales by_ ls : forallb wf_ulist ls = true -> rate_lists by_ ls = rate_spec by_ ls.
Proof.
  intro Hwf. unfold rate_lists, stack_init.
  rewrite (stack_run_refines (RATE_OPS by_)).
  - cbn [RATE_OPS per_list_run].
    rewrite (per_list_scalar COL_OFFSET ADiv by_ ls Hwf).
    set (l1 := map _ ls).
    assert (W1: forallb wf_ulist l1 = true) by (apply map_upd_wf; exact Hwf).
    rewrite (per_list_scalar COL_BPM AMul by_ l1 W1).
    set (l2 := map _ l1).
    assert (W2: forallb wf_ulist l2 = true) by (apply map_upd_wf; exact W1).
    rewrite (per_list_scalar COL_LENGTH ADiv by_ l2 W2).
    subst l2 l1.
    unfold rate_spec. rewrite !map_map. apply map_ext. intros u. cbn [u_cols u_rows]. unfold scale_ulist. f_equal.
    rewrite !map_map. apply map_ext. intros r. apply rate_row.
  - repeat constructor.
  - exact Hwf.
  - apply stack_init_coherent. exact Hwf.
  - cbn [st_rows]. apply stack_rows_len.
Qed.

(* frame conditions of the specification *)
Lemma scale_row_length by_ cols r : length (scale_row by_ cols r) = length r.
Proof. revert r. induction cols as [|c cols IH]; intros r; destruct r; cbn [scale_row length]; auto. Qed.

Theorem rate_shape by_ ls :
  map u_cols (rate_spec by_ ls) = map u_cols ls /\
  map (fun u => length (u_rows u)) (rate_spec by_ ls) = map (fun u => length (u_rows u)) ls.
Proof.
  unfold rate_spec. rewrite !map_map. split; apply map_ext; intros u; cbn [scale_ulist u_cols u_rows]; auto.
  rewrite map_length. reflexivity.
Qed.

(* rate 1 is the identity (cells equal as numbers) *)
Lemma scale_cell_one c v : cell_eqb (scale_cell 1 c v) v = true.
Proof.
  unfold scale_cell. destruct v; try apply cell_eqb_refl; cbn [cell_eqb].
  destruct ((c =? COL_OFFSET) || (c =? COL_LENGTH))%Z; [cbn [cell_eqb]; apply Qeq_bool_iff; rewrite Qred_correct; field|].
  destruct (c =? COL_BPM)%Z; cbn [cell_eqb]; apply Qeq_bool_iff; [rewrite Qred_correct; ring|reflexivity].
Qed.

Lemma scale_row_one cols r : row_eqb (scale_row 1 cols r) r = true.
Proof.
  revert r. induction cols as [|c cols IH]; intros r; [destruct r; apply row_eqb_refl|].
  destruct r as [|v r]; [reflexivity|]. cbn [scale_row row_eqb]. rewrite scale_cell_one, IH. reflexivity.
Qed.

Theorem rate_one ls : ulists_eqb (rate_spec 1 ls) ls = true.
Proof.
  induction ls as [|u ls IH]; [reflexivity|]. cbn [rate_spec map ulists_eqb scale_ulist u_cols u_rows].
  fold (rate_spec 1 ls). rewrite IH, andb_true_r. apply andb_true_iff. split.
  - clear. induction (u_cols u) as [|x l IHl]; cbn [zlist_eqb]; auto. rewrite Z.eqb_refl. exact IHl.
  - induction (u_rows u) as [|r rows IHr]; [reflexivity|]. cbn [map rows_eqb']. rewrite scale_row_one, IHr. reflexivity.
Qed.

(* rate a then rate b = rate (a*b) *)
Lemma scale_cell_compose a b c v : ~ a == 0 -> ~ b == 0 ->
  cell_eqb (scale_cell b c (scale_cell a c v)) (scale_cell (a * b) c v) = true.
Proof.
  intros Ha Hb. unfold scale_cell. destruct v; try apply cell_eqb_refl.
  destruct ((c =? COL_OFFSET) || (c =? COL_LENGTH))%Z eqn:E1.
  - cbn [cell_eqb]. apply Qeq_bool_iff. rewrite !Qred_correct. field. split; assumption.
  - destruct (c =? COL_BPM)%Z eqn:E2; cbn [cell_eqb]; apply Qeq_bool_iff; [rewrite !Qred_correct; ring|reflexivity].
Qed.

Lemma scale_row_compose a b cols r : ~ a == 0 -> ~ b == 0 ->
  row_eqb (scale_row b cols (scale_row a cols r)) (scale_row (a * b) cols r) = true.
Proof.
  intros Ha Hb. revert r. induction cols as [|c cols IH]; intros r; [destruct r; apply row_eqb_refl|].
  destruct r as [|v r]; [reflexivity|]. cbn [scale_row row_eqb]. rewrite scale_cell_compose, IH by assumption. reflexivity.
Qed.

Theorem rate_compose a b ls : ~ a == 0 -> ~ b == 0 ->
  ulists_eqb (rate_spec b (rate_spec a ls)) (rate_spec (a * b) ls) = true.
Proof.
  intros Ha Hb. induction ls as [|u ls IH]; [reflexivity|].
  cbn [rate_spec map ulists_eqb scale_ulist u_cols u_rows]. fold (rate_spec a ls). fold (rate_spec b (rate_spec a ls)).
  fold (rate_spec (a * b) ls). rewrite IH, andb_true_r. apply andb_true_iff. split.
  - clear. induction (u_cols u) as [|x l IHl]; cbn [zlist_eqb]; auto. rewrite Z.eqb_refl. exact IHl.
  - rewrite map_map. induction (u_rows u) as [|r rows IHr]; [reflexivity|]. cbn [map rows_eqb'].
    rewrite scale_row_compose, IHr by assumption. reflexivity.
Qed.

(* what scaling means column by column *)
Theorem scale_cell_meaning by_ c x :
  scale_cell by_ c (CNum x) =
    if ((c =? COL_OFFSET) || (c =? COL_LENGTH))%Z then CNum (Qred (x / by_))
    else if (c =? COL_BPM)%Z then CNum (Qred (x * by_)) else CNum x.
Proof. reflexivity. Qed.

(* ======================================================================================================================
   File-level part (Map/RateFile.v): OsuMap.rate, MapSet.rate, SMMapSet.rate
   ====================================================================================================================== *)

(* lst.offset /= r on a list that has neither a length nor a bpm column IS the scaling of that list *)
Lemma col_div_offset_scales r u : wf_samples u = true -> col_div_offset r u = scale_ulist r u.
Proof.
  unfold wf_samples, notin_cols. intro H. apply andb_true_iff in H. destruct H as [H Hb]. apply andb_true_iff in H.
  destruct H as [Hw Hl]. apply negb_true_iff in Hb, Hl. destruct (wf_ulist_rows _ Hw) as [Hnd Hlen].
  unfold col_div_offset, scale_ulist. f_equal. rewrite (list_assign_scalar _ _ _ _ _ Hnd Hlen).
  apply map_ext. intro row. rewrite <- rate_row.
  rewrite (zip_upd_notin COL_LENGTH) by exact Hl. rewrite (zip_upd_notin COL_BPM) by exact Hb. reflexivity.
Qed.

Theorem osu_rate_scaled r f : wf_osu_file f = true -> osu_rate r f = osu_file_scaled r f.
Proof.
  unfold wf_osu_file. intro H. apply andb_true_iff in H. destruct H as [Hl Hs].
  unfold osu_rate, osu_file_scaled, osu_preview_rate, preview_scaled, py_div, PREVIEW_UNSET.
  rewrite (rate_scales r _ Hl), (col_div_offset_scales r _ Hs). reflexivity.
Qed.

Lemma mapset_rate_scaled r cs : forallb (forallb wf_ulist) cs = true -> mapset_rate r cs = map (rate_spec r) cs.
Proof.
  unfold mapset_rate. induction cs as [|c cs IH]; intro H; [reflexivity|]. cbn [forallb] in H. apply andb_true_iff in H.
  destruct H as [Hc H]. cbn [map]. rewrite (rate_scales r c Hc), (IH H). reflexivity.
Qed.

(* MapSet.rate rates each chart on its own: as many charts, chart k of the result is chart k rated, and that is its scaling *)
Theorem mapset_rate_each_chart r cs : forallb (forallb wf_ulist) cs = true ->
  length (mapset_rate r cs) = length cs /\
  (forall k, nth_error (mapset_rate r cs) k = option_map (rate_lists r) (nth_error cs k)) /\
  (forall k c, nth_error cs k = Some c -> nth_error (mapset_rate r cs) k = Some (rate_spec r c)).
Proof.
  intro H. split; [apply map_length|]. split.
  - intro k. unfold mapset_rate. apply nth_error_map.
  - intros k c Hk. rewrite (mapset_rate_scaled r cs H). rewrite nth_error_map, Hk. reflexivity.
Qed.

Theorem sm_rate_scaled r f : wf_sm_file f = true -> sm_mapset_rate r f = sm_file_scaled r f.
Proof.
  unfold wf_sm_file. intro H. unfold sm_mapset_rate, sm_file_scaled, py_div. rewrite (mapset_rate_scaled r _ H).
  destruct (sf_offset f); reflexivity.
Qed.

(* the statement field by field *)
Theorem osu_file_fields_scale r f : wf_osu_file f = true ->
  of_lists (osu_rate r f) = rate_spec r (of_lists f) /\
  of_samples (osu_rate r f) = scale_ulist r (of_samples f) /\
  (of_preview f == -1 -> of_preview (osu_rate r f) = of_preview f) /\
  (~ of_preview f == -1 -> of_preview (osu_rate r f) == of_preview f / r) /\
  of_meta (osu_rate r f) = of_meta f.
Proof.
  intro H. rewrite (osu_rate_scaled r f H). cbn [osu_file_scaled of_lists of_samples of_preview of_meta]. unfold preview_scaled.
  split; [reflexivity|]. split; [reflexivity|]. split; [|split; [|reflexivity]].
  - intro E. apply Qeq_bool_iff in E. rewrite E. reflexivity.
  - intro N. destruct (Qeq_bool (of_preview f) (-1)) eqn:E; [apply Qeq_bool_iff in E; contradiction|apply Qred_correct].
Qed.

Theorem sm_file_fields_scale r f : wf_sm_file f = true ->
  sf_charts (sm_mapset_rate r f) = map (rate_spec r) (sf_charts f) /\
  match sf_offset f, sf_offset (sm_mapset_rate r f) with
  | Some o, Some o' => o' == o / r | None, None => True | _, _ => False end /\
  sf_sample_start (sm_mapset_rate r f) == sf_sample_start f / r /\
  sf_sample_length (sm_mapset_rate r f) == sf_sample_length f / r /\
  sf_meta (sm_mapset_rate r f) = sf_meta f.
Proof.
  intro H. rewrite (sm_rate_scaled r f H). cbn [sm_file_scaled sf_charts sf_offset sf_sample_start sf_sample_length sf_meta].
  split; [reflexivity|]. split; [destruct (sf_offset f); cbn [option_map]; [apply Qred_correct|exact I]|].
  split; [apply Qred_correct|]. split; [apply Qred_correct|reflexivity].
Qed.

(* ---- well-formedness is kept (needed to rate twice) ---- *)
Lemma scale_ulist_wf r u : wf_ulist u = true -> wf_ulist (scale_ulist r u) = true.
Proof.
  unfold wf_ulist, scale_ulist. cbn [u_cols u_rows]. intro H. apply andb_true_iff in H. destruct H as [H1 H2].
  rewrite H1. cbn [andb]. rewrite forallb_forall in *. intros x Hin. apply in_map_iff in Hin.
  destruct Hin as [x0 [<- Hin]]. rewrite scale_row_length. apply H2. exact Hin.
Qed.
Lemma rate_spec_wf r ls : forallb wf_ulist ls = true -> forallb wf_ulist (rate_spec r ls) = true.
Proof.
  induction ls as [|u ls IH]; intro H; [reflexivity|]. cbn [forallb rate_spec map] in *. apply andb_true_iff in H.
  destruct H as [Hu H]. rewrite (scale_ulist_wf r u Hu). exact (IH H).
Qed.
Lemma scaled_osu_wf r f : wf_osu_file f = true -> wf_osu_file (osu_file_scaled r f) = true.
Proof.
  unfold wf_osu_file, wf_samples. cbn [osu_file_scaled of_lists of_samples scale_ulist u_cols]. intro H.
  apply andb_true_iff in H. destruct H as [Hl H]. apply andb_true_iff in H. destruct H as [H Hb].
  apply andb_true_iff in H. destruct H as [Hw Hn]. rewrite (rate_spec_wf r _ Hl), Hb, Hn.
  change (mkUlist (u_cols (of_samples f)) (map (scale_row r (u_cols (of_samples f))) (u_rows (of_samples f))))
    with (scale_ulist r (of_samples f)). rewrite (scale_ulist_wf r _ Hw). reflexivity.
Qed.
Lemma scaled_charts_wf r cs : forallb (forallb wf_ulist) cs = true -> forallb (forallb wf_ulist) (map (rate_spec r) cs) = true.
Proof.
  induction cs as [|c cs IH]; intro H; [reflexivity|]. cbn [forallb map] in *. apply andb_true_iff in H.
  destruct H as [Hc H]. rewrite (rate_spec_wf r c Hc). exact (IH H).
Qed.

(* ---- comparisons ---- *)
Lemma cells_eqb_refl l : cells_eqb l l = true.
Proof. induction l as [|c l IH]; [reflexivity|]. cbn [cells_eqb]. rewrite cell_eqb_refl. exact IH. Qed.
Lemma scale_one_u u : ulist_eqb (scale_ulist 1 u) u = true.
Proof. exact (rate_one [u]). Qed.
Lemma scale_compose_u a b u : ~ a == 0 -> ~ b == 0 -> ulist_eqb (scale_ulist b (scale_ulist a u)) (scale_ulist (a * b) u) = true.
Proof. intros Ha Hb. exact (rate_compose a b [u] Ha Hb). Qed.
Lemma charts_one cs : charts_eqb (map (rate_spec 1) cs) cs = true.
Proof. induction cs as [|c cs IH]; [reflexivity|]. cbn [map charts_eqb]. rewrite rate_one. exact IH. Qed.
Lemma charts_compose a b cs : ~ a == 0 -> ~ b == 0 ->
  charts_eqb (map (rate_spec b) (map (rate_spec a) cs)) (map (rate_spec (a * b)) cs) = true.
Proof.
  intros Ha Hb. induction cs as [|c cs IH]; [reflexivity|]. cbn [map charts_eqb]. rewrite rate_compose by assumption. exact IH.
Qed.
Lemma qdiv_one x : Qeq_bool (Qred (x / 1)) x = true.
Proof. apply Qeq_bool_iff. rewrite Qred_correct. field. Qed.
Lemma qdiv_compose a b x : ~ a == 0 -> ~ b == 0 -> Qeq_bool (Qred (Qred (x / a) / b)) (Qred (x / (a * b))) = true.
Proof. intros Ha Hb. apply Qeq_bool_iff. rewrite !Qred_correct. field. split; assumption. Qed.

(* rate 1 is the identity on the file-level fields too *)
Theorem osu_file_rate_one f : wf_osu_file f = true -> osu_file_eqb (osu_rate 1 f) f = true.
Proof.
  intro H. rewrite (osu_rate_scaled 1 f H). unfold osu_file_eqb. cbn [osu_file_scaled of_lists of_samples of_preview of_meta].
  rewrite rate_one, scale_one_u, cells_eqb_refl. unfold preview_scaled.
  destruct (Qeq_bool (of_preview f) (-1)); [rewrite Qeq_bool_refl|rewrite qdiv_one]; reflexivity.
Qed.
Theorem sm_file_rate_one f : wf_sm_file f = true -> sm_file_eqb (sm_mapset_rate 1 f) f = true.
Proof.
  intro H. rewrite (sm_rate_scaled 1 f H). unfold sm_file_eqb.
  cbn [sm_file_scaled sf_charts sf_offset sf_sample_start sf_sample_length sf_meta].
  rewrite charts_one, !qdiv_one, cells_eqb_refl.
  destruct (sf_offset f); cbn [option_map opt_q_eqb]; [rewrite qdiv_one|]; reflexivity.
Qed.

(* rate a then rate b = rate a*b on the file-level fields too *)
(* On the preview value the composition needs a guard: a TIME p with p / a = -1 (p = -a, a negative preview time) becomes the
   value -1 after the first rate change and is then taken for the marker by the second one (the code compares with -1). *)
Lemma preview_compose a b p : ~ a == 0 -> ~ b == 0 -> (p == -1 \/ ~ p == - a) ->
  Qeq_bool (preview_scaled b (preview_scaled a p)) (preview_scaled (a * b) p) = true.
Proof.
  intros Ha Hb G. unfold preview_scaled. destruct (Qeq_bool p (-1)) eqn:E.
  - rewrite E. apply Qeq_bool_refl.
  - assert (N : ~ p == -1) by (intro X; apply Qeq_bool_iff in X; congruence).
    destruct G as [G|G]; [contradiction|].
    assert (E2 : Qeq_bool (Qred (p / a)) (-1) = false).
    { apply not_true_is_false. intro X. apply Qeq_bool_iff in X. rewrite Qred_correct in X. apply G.
      setoid_replace p with (p / a * a) by (field; exact Ha). rewrite X. ring. }
    rewrite E2. apply qdiv_compose; assumption.
Qed.
Theorem osu_file_rate_compose a b f : wf_osu_file f = true -> ~ a == 0 -> ~ b == 0 ->
  (of_preview f == -1 \/ ~ of_preview f == - a) ->
  osu_file_eqb (osu_rate b (osu_rate a f)) (osu_rate (a * b) f) = true.
Proof.
  intros H Ha Hb G. rewrite (osu_rate_scaled a f H), (osu_rate_scaled b _ (scaled_osu_wf a f H)), (osu_rate_scaled (a * b) f H).
  unfold osu_file_eqb. cbn [osu_file_scaled of_lists of_samples of_preview of_meta].
  rewrite rate_compose, scale_compose_u, preview_compose, cells_eqb_refl by assumption. reflexivity.
Qed.
(* in particular for every chart without a preview point or with one at a time >= 0, and positive rates *)
Corollary osu_file_rate_compose_pos a b f : wf_osu_file f = true -> 0 < a -> 0 < b ->
  (of_preview f == -1 \/ 0 <= of_preview f) ->
  osu_file_eqb (osu_rate b (osu_rate a f)) (osu_rate (a * b) f) = true.
Proof.
  intros H Ha Hb G. apply osu_file_rate_compose; [exact H|lra|lra|]. destruct G as [G|G]; [left; exact G|right; lra].
Qed.

Theorem sm_file_rate_compose a b f : wf_sm_file f = true -> ~ a == 0 -> ~ b == 0 ->
  sm_file_eqb (sm_mapset_rate b (sm_mapset_rate a f)) (sm_mapset_rate (a * b) f) = true.
Proof.
  intros H Ha Hb. rewrite (sm_rate_scaled a f H), (sm_rate_scaled (a * b) f H).
  rewrite (sm_rate_scaled b (sm_file_scaled a f)) by (exact (scaled_charts_wf a _ H)).
  unfold sm_file_eqb. cbn [sm_file_scaled sf_charts sf_offset sf_sample_start sf_sample_length sf_meta].
  rewrite charts_compose, !qdiv_compose, cells_eqb_refl by assumption.
  destruct (sf_offset f); cbn [option_map opt_q_eqb]; [rewrite qdiv_compose by assumption|]; reflexivity.
Qed.

(* ---- osu's "no preview point" marker.  Since repo commit 09d92a7 the code keeps the marker -1 and divides every other
   value.  The OLD model divided whatever the value held: -1 became -1/r, a preview point (written "PreviewTime: 0" for
   r > 1) - stated about osu_rate_OLD.  What holds now: a chart without a preview point has none afterwards; a chart with
   a preview point p has it at p / r unless p / r = -1 (p = -r: a negative time that lands on the marker). ---- *)
Definition wit_unset_preview : osu_file :=
  mkOsuFile [mkUlist [0; 1]%Z [[CNum 1000; CNum 1]]; mkUlist [0; 3; 4]%Z [[CNum 0; CNum 120; CNum 4]]]
            (mkUlist [0; 1001; 1002]%Z []) (-1) [].
Theorem OLD_osu_preview_unset_refuted :
  exists f r, wf_osu_file f = true /\ 0 < r /\ preview_point (of_preview f) = None /\
              of_preview (osu_rate_OLD r f) = (-1 # 2) /\ preview_point (of_preview (osu_rate_OLD r f)) = Some (-1 # 2) /\
              preview_scaled_strict r (of_preview f) (of_preview (osu_rate_OLD r f)) = false.
Proof. exists wit_unset_preview, 2. vm_compute. repeat split; reflexivity. Qed.
(* ... and the current model keeps the marker on that witness *)
Theorem osu_preview_former_witness_ok :
  of_preview (osu_rate 2 wit_unset_preview) = -1 /\
  preview_scaled_strict 2 (of_preview wit_unset_preview) (of_preview (osu_rate 2 wit_unset_preview)) = true.
Proof. vm_compute. split; reflexivity. Qed.

(* a chart without a preview point has none after the rate change: the stored value is literally unchanged *)
Theorem osu_preview_unset_kept r f : preview_point (of_preview f) = None ->
  of_preview (osu_rate r f) = of_preview f /\ preview_point (of_preview (osu_rate r f)) = None.
Proof.
  unfold preview_point. cbn [osu_rate of_preview]. unfold osu_preview_rate.
  destruct (Qeq_bool (of_preview f) PREVIEW_UNSET) eqn:E; [|discriminate]. intros _. rewrite E. split; reflexivity.
Qed.
(* the strict reading, exact guard: it fails only for a preview TIME p = -r *)
Theorem osu_preview_strict r f : ~ r == 0 -> (of_preview f == -1 \/ ~ of_preview f == - r) ->
  preview_scaled_strict r (of_preview f) (of_preview (osu_rate r f)) = true.
Proof.
  intros Hr G. cbn [osu_rate of_preview]. unfold preview_scaled_strict, preview_point, osu_preview_rate, py_div, PREVIEW_UNSET.
  destruct (Qeq_bool (of_preview f) (-1)) eqn:E1.
  - rewrite E1. reflexivity.
  - assert (N : ~ of_preview f == -1) by (intro X; apply Qeq_bool_iff in X; congruence).
    destruct G as [G|G]; [contradiction|].
    assert (E2 : Qeq_bool (Qred (of_preview f / r)) (-1) = false).
    { apply not_true_is_false. intro X. apply Qeq_bool_iff in X. rewrite Qred_correct in X. apply G.
      setoid_replace (of_preview f) with (of_preview f / r * r) by (field; exact Hr). rewrite X. ring. }
    rewrite E2. cbn [option_map opt_q_eqb]. apply Qeq_bool_iff. apply Qred_correct.
Qed.
Theorem osu_preview_strict_refuted :
  exists f r, wf_osu_file f = true /\ 0 < r /\ of_preview f = -2 /\ of_preview (osu_rate r f) = -1 /\
              preview_scaled_strict r (of_preview f) (of_preview (osu_rate r f)) = false.
Proof.
  exists (mkOsuFile (of_lists wit_unset_preview) (of_samples wit_unset_preview) (-2) []), 2. vm_compute. repeat split; reflexivity.
Qed.
Theorem osu_preview_point_scales r f : 0 < r -> (of_preview f == -1 \/ 0 <= of_preview f) ->
  preview_scaled_strict r (of_preview f) (of_preview (osu_rate r f)) = true.
Proof. intros Hr G. apply osu_preview_strict; [lra|]. destruct G as [G|G]; [left; exact G|right; lra]. Qed.
Theorem osu_preview_rate_one f : preview_scaled_strict 1 (of_preview f) (of_preview (osu_rate 1 f)) = true.
Proof.
  destruct (Qeq_bool (of_preview f) (-1)) eqn:E.
  - apply osu_preview_strict; [lra|left; apply Qeq_bool_iff; exact E].
  - apply osu_preview_strict; [lra|right]. intro X. assert (Y : of_preview f == -1) by (rewrite X; ring).
    apply Qeq_bool_iff in Y. congruence.
Qed.
(* composition on the preview value is refuted without the guard: p = -2, rate 2 then rate 2 gives -1 (kept by the second
   call), rate 4 gives -1/2 *)
Theorem osu_file_rate_compose_refuted :
  exists f a b, wf_osu_file f = true /\ 0 < a /\ 0 < b /\ of_preview f = -2 /\
                of_preview (osu_rate b (osu_rate a f)) = -1 /\ of_preview (osu_rate (a * b) f) = (-1 # 2) /\
                osu_file_eqb (osu_rate b (osu_rate a f)) (osu_rate (a * b) f) = false.
Proof.
  exists (mkOsuFile (of_lists wit_unset_preview) (of_samples wit_unset_preview) (-2) []), 2, 2. vm_compute. repeat split; reflexivity.
Qed.
