(* C03 whole-file writer theorem, part 2: text-level lemmas (Formats/SMText.v functions: split_on, join, strip,
   strip_comments, items_go, match_toks inversion, numerals, show_int / parse_int, rows of a measure text). *)
From Coq Require Import String ZArith QArith Qround Qabs List Bool Lia Lqa.
From RV Require Import Base.PyNum Formats.SMText Formats.SM Formats.SMSpec.
Import ListNotations.
Open Scope Q_scope.

Definition ws_all (w : text) : bool := forallb is_ws w.
(* empty, or first and last character not blank *)
Definition ends_okb (a : text) : bool :=
  match a with [] => true | x :: _ => negb (is_ws x) end && match rev a with [] => true | y :: _ => negb (is_ws y) end.
Definition numeral (n : text) : bool := forallb is_num_char n.
(* the rows of a measure text, as SMSpec.denote_measures extracts them *)
Definition mrows (mt : text) : list text :=
  filter (fun l : text => match l with [] => false | _ => true end) (map strip (split_on 10 mt)).
(* a sequence of items  <blank> #TAG : value <blank> ;  followed by a blank tail *)
Definition items_text (its : list (text * text * text * text)) (tail : text) : text :=
  fold_right (fun (it : text * text * text * text) acc =>
                let '(w, tag, v, w2) := it in w ++ (35%Z :: tag) ++ 58%Z :: v ++ w2 ++ 59%Z :: acc) tail its.
Definition item_ok (it : text * text * text * text) : Prop :=
  let '(w, tag, v, w2) := it in
  ws_all w = true /\ ws_all w2 = true /\ ~ In 59%Z tag /\ ~ In 59%Z v /\ ~ In 58%Z tag /\ ends_okb v = true.

From RV Require Import Proofs.SMProofs.

(* ================= general auxiliaries ================= *)
Lemma frev_rev {A} (l : list A) : frev l = rev l.
Proof. unfold frev. rewrite rev_append_rev. apply app_nil_r. Qed.

Lemma split_go_cur c s : forall cur,
  split_go c cur s = match split_go c [] s with h :: t => (rev cur ++ h) :: t | [] => [] end.
Proof.
  induction s as [|x s IH]; intro cur.
  - cbn [split_go]. rewrite !frev_rev. cbn [rev]. rewrite app_nil_r. reflexivity.
  - cbn [split_go]. destruct (x =? c)%Z.
    + rewrite !frev_rev. cbn [rev]. rewrite app_nil_r. reflexivity.
    + rewrite (IH (x :: cur)), (IH [x]). destruct (split_go c [] s) as [|h t]; [reflexivity|].
      cbn [rev app]. rewrite <- app_assoc. reflexivity.
Qed.

Lemma split_on_nil c : split_on c [] = [[]].
Proof. reflexivity. Qed.

Lemma split_go_nonempty c s : forall cur, split_go c cur s <> [].
Proof.
  induction s as [|x s IH]; intro cur; cbn [split_go]; [discriminate|].
  destruct (x =? c)%Z; [discriminate|apply IH].
Qed.
Lemma split_on_nonempty c s : split_on c s <> [].
Proof. apply split_go_nonempty. Qed.

(* the recursion of Base/Text.split_on *)
Lemma split_on_cons c x s :
  split_on c (x :: s) = if (x =? c)%Z then [] :: split_on c s
                        else match split_on c s with h :: t => (x :: h) :: t | [] => [[x]] end.
Proof.
  unfold split_on. cbn [split_go]. destruct (x =? c)%Z; [reflexivity|].
  rewrite split_go_cur. pose proof (split_go_nonempty c s []) as NE.
  destruct (split_go c [] s); [congruence|reflexivity].
Qed.

(* ---- split / join ---- *)
Lemma split_on_no_sep c s : ~ In c s -> split_on c s = [s].
Proof.
  induction s as [|x s IH]; intro H; [reflexivity|].
  rewrite split_on_cons. destruct (Z.eqb_spec x c) as [E|E]; [exfalso; apply H; left; exact E|].
  rewrite IH; [reflexivity|]. intro I. apply H. right. exact I.
Qed.

Lemma split_on_app c a b : ~ In c a -> split_on c (a ++ c :: b) = a :: split_on c b.
Proof.
  induction a as [|x a IH]; intro H; cbn [app]; rewrite split_on_cons.
  - rewrite Z.eqb_refl. reflexivity.
  - destruct (Z.eqb_spec x c) as [E|E]; [exfalso; apply H; left; exact E|].
    rewrite IH; [reflexivity|]. intro I. apply H. right. exact I.
Qed.

Lemma split_on_app_any c a b : split_on c (a ++ c :: b) = split_on c a ++ split_on c b.
Proof.
  induction a as [|x a IH]; cbn [app]; rewrite split_on_cons.
  - rewrite Z.eqb_refl. reflexivity.
  - rewrite (split_on_cons c x a). destruct (x =? c)%Z; rewrite IH; [reflexivity|].
    pose proof (split_on_nonempty c a) as NE. destruct (split_on c a); [congruence|reflexivity].
Qed.

Lemma join_cons sep a l : l <> [] -> join sep (a :: l) = a ++ sep ++ join sep l.
Proof. destruct l; [congruence|reflexivity]. Qed.

Lemma join_app sep l1 l2 : l1 <> [] -> l2 <> [] -> join sep (l1 ++ l2) = join sep l1 ++ sep ++ join sep l2.
Proof.
  induction l1 as [|a l1 IH]; intros H1 H2; [congruence|].
  destruct l1 as [|b l1].
  - cbn [app]. rewrite join_cons by exact H2. reflexivity.
  - change ((a :: b :: l1) ++ l2) with (a :: ((b :: l1) ++ l2)).
    rewrite join_cons by discriminate. rewrite IH by (discriminate || exact H2).
    rewrite (join_cons sep a (b :: l1)) by discriminate. rewrite <- !app_assoc. reflexivity.
Qed.

Lemma split_join1 c l : l <> [] -> Forall (fun p => ~ In c p) l -> split_on c (join [c] l) = l.
Proof.
  induction l as [|a l IH]; intros NE F; [congruence|].
  inversion F as [|? ? Ha Fl]; subst.
  destruct l as [|b l].
  - cbn [join]. apply split_on_no_sep. exact Ha.
  - rewrite join_cons by discriminate. cbn [app].
    rewrite split_on_app by exact Ha. f_equal. apply IH; [discriminate|exact Fl].
Qed.

(* join is the inverse of split, always *)
Lemma join_split1 c s : join [c] (split_on c s) = s.
Proof.
  induction s as [|x s IH]; [reflexivity|].
  rewrite split_on_cons. pose proof (split_on_nonempty c s) as NE.
  destruct (Z.eqb_spec x c) as [E|E].
  - rewrite join_cons by exact NE. rewrite IH. subst. reflexivity.
  - destruct (split_on c s) as [|h t]; [congruence|].
    destruct t as [|h2 t]; cbn [join] in *; rewrite <- IH; reflexivity.
Qed.

Lemma split_pieces_no_sep c s : Forall (fun p => ~ In c p) (split_on c s).
Proof.
  induction s as [|x s IH].
  - constructor; auto.
  - rewrite split_on_cons. destruct (Z.eqb_spec x c) as [E|E].
    + constructor; auto.
    + destruct (split_on c s) as [|h t]; [constructor; auto; intros [H|[]]; congruence|].
      inversion IH; subst. constructor; auto. intros [H|H]; [congruence|auto].
Qed.

(* ---- strip ---- *)
Definition head_nows (s : text) : Prop := match s with [] => True | x :: _ => is_ws x = false end.

Lemma lstrip_head s : head_nows (lstrip s).
Proof. induction s as [|x s IH]; cbn [lstrip]; [exact I|]. destruct (is_ws x) eqn:E; [exact IH|exact E]. Qed.
Lemma lstrip_id s : head_nows s -> lstrip s = s.
Proof. destruct s as [|x s]; cbn [lstrip head_nows]; [reflexivity|]. intro H. rewrite H. reflexivity. Qed.
Lemma lstrip_ws_app w s : ws_all w = true -> lstrip (w ++ s) = lstrip s.
Proof.
  induction w as [|x w IH]; intro H; [reflexivity|].
  unfold ws_all in H. cbn [forallb] in H. apply andb_true_iff in H. destruct H as [H1 H2].
  cbn [app lstrip]. rewrite H1. apply IH. exact H2.
Qed.
Lemma lstrip_suffix s : exists pre, s = pre ++ lstrip s.
Proof.
  induction s as [|x s [pre IH]]; [exists []; reflexivity|]. cbn [lstrip].
  destruct (is_ws x); [exists (x :: pre); cbn [app]; congruence|exists []; reflexivity].
Qed.
Lemma ws_all_rev w : ws_all (rev w) = ws_all w.
Proof.
  unfold ws_all. induction w as [|x w IH]; [reflexivity|].
  cbn [rev forallb]. rewrite forallb_app, IH. cbn [forallb]. rewrite andb_true_r. apply andb_comm.
Qed.
Lemma rstrip_rev s : rstrip s = rev (lstrip (rev s)).
Proof. unfold rstrip. rewrite !frev_rev. reflexivity. Qed.

(* a text whose first and last characters are not blank is unchanged by strip *)
Lemma strip_id s : head_nows s -> head_nows (rev s) -> strip s = s.
Proof.
  intros H1 H2. unfold strip. rewrite rstrip_rev, (lstrip_id s H1), (lstrip_id _ H2). apply rev_involutive.
Qed.
Lemma head_nows_rstrip s : head_nows s -> head_nows (rstrip s).
Proof.
  intro H. rewrite rstrip_rev. destruct (lstrip_suffix (rev s)) as [pre E].
  assert (S: s = rev (lstrip (rev s)) ++ rev pre).
  { rewrite <- rev_app_distr, <- E. symmetry. apply rev_involutive. }
  destruct (rev (lstrip (rev s))) as [|y r]; [exact I|]. rewrite S in H. exact H.
Qed.
Lemma strip_head s : head_nows (strip s).
Proof. unfold strip. apply head_nows_rstrip, lstrip_head. Qed.
Lemma strip_last s : head_nows (rev (strip s)).
Proof. unfold strip. rewrite rstrip_rev, rev_involutive. apply lstrip_head. Qed.
Lemma strip_idem s : strip (strip s) = strip s.
Proof. apply strip_id; [apply strip_head|apply strip_last]. Qed.

Lemma ends_okb_spec a : ends_okb a = true <-> head_nows a /\ head_nows (rev a).
Proof.
  unfold ends_okb, head_nows. rewrite andb_true_iff.
  destruct a as [|x a]; [cbn [rev]; tauto|].
  destruct (rev (x :: a)) as [|y r]; rewrite ?negb_true_iff; tauto.
Qed.

Lemma strip_ws w : ws_all w = true -> strip w = [].
Proof.
  intro H. unfold strip. rewrite <- (app_nil_r w), lstrip_ws_app by exact H. reflexivity.
Qed.

Lemma strip_ends w1 a w2 : ws_all w1 = true -> ws_all w2 = true -> ends_okb a = true -> strip (w1 ++ a ++ w2) = a.
Proof.
  intros H1 H2 Ha. apply ends_okb_spec in Ha. destruct Ha as [Hh Hl].
  unfold strip. rewrite lstrip_ws_app by exact H1.
  destruct a as [|x a].
  - cbn [app]. change (rstrip (lstrip w2) = []) with (strip w2 = []). apply strip_ws. exact H2.
  - rewrite (lstrip_id ((x :: a) ++ w2)) by exact Hh.
    rewrite rstrip_rev, rev_app_distr, lstrip_ws_app by (rewrite ws_all_rev; exact H2).
    rewrite lstrip_id by exact Hl. apply rev_involutive.
Qed.

Lemma strip_fix_ends a : strip a = a -> ends_okb a = true.
Proof.
  intro H. apply ends_okb_spec. rewrite <- H. split; [apply strip_head|apply strip_last].
Qed.

Lemma nows_head a : forallb (fun c => negb (is_ws c)) a = true -> head_nows a.
Proof.
  destruct a as [|x a]; cbn [forallb head_nows]; [auto|]. intro H. apply andb_true_iff in H.
  destruct H as [H _]. apply negb_true_iff in H. exact H.
Qed.
Lemma forallb_rev {A} (p : A -> bool) l : forallb p (rev l) = forallb p l.
Proof.
  induction l as [|x l IH]; [reflexivity|].
  cbn [rev forallb]. rewrite forallb_app, IH. cbn [forallb]. rewrite andb_true_r. apply andb_comm.
Qed.
Lemma strip_nows a : forallb (fun c => negb (is_ws c)) a = true -> strip a = a.
Proof.
  intro H. apply strip_id; apply nows_head; [exact H|]. rewrite forallb_rev. exact H.
Qed.

(* ---- contains / before_sub ---- *)
Lemma starts_with_app sub a b : starts_with sub a = true -> starts_with sub (a ++ b) = true.
Proof.
  revert a. induction sub as [|x sub IH]; intros a H; [reflexivity|].
  destruct a as [|y a]; cbn [starts_with app] in *; [discriminate|].
  apply andb_true_iff in H. destruct H as [H1 H2]. rewrite H1, (IH a H2). reflexivity.
Qed.
Lemma contains_cons sub x s : contains sub (x :: s) = starts_with sub (x :: s) || contains sub s.
Proof. reflexivity. Qed.
Lemma contains_app_false sub a b : contains sub (a ++ b) = false -> contains sub a = false /\ contains sub b = false.
Proof.
  induction a as [|x a IH]; intro H.
  - split; [|exact H]. cbn [app] in H. destruct sub as [|y sub]; [destruct b; discriminate H|reflexivity].
  - cbn [app] in H. rewrite contains_cons in H. apply orb_false_iff in H. destruct H as [H1 H2].
    destruct (IH H2) as [Ha Hb]. split; [|exact Hb]. rewrite contains_cons, Ha, orb_false_r.
    destruct (starts_with sub (x :: a)) eqn:E; [|reflexivity].
    apply (starts_with_app sub (x :: a) b) in E. cbn [app] in E. congruence.
Qed.
Lemma contains_join_false sub sep l : contains sub (join sep l) = false -> Forall (fun p => contains sub p = false) l.
Proof.
  induction l as [|a l IH]; intro H; [constructor|].
  destruct l as [|b l]; [constructor; [exact H|constructor]|].
  rewrite join_cons in H by discriminate. apply contains_app_false in H. destruct H as [Ha H].
  apply contains_app_false in H. destruct H as [_ H]. constructor; [exact Ha|apply IH; exact H].
Qed.
Lemma before_sub_clean sub s : contains sub s = false -> before_sub sub s = s.
Proof.
  induction s as [|x s IH]; intro H; [reflexivity|].
  rewrite contains_cons in H. apply orb_false_iff in H. destruct H as [H1 H2].
  cbn [before_sub]. rewrite H1, (IH H2). reflexivity.
Qed.

(* ---- comments ---- *)
Lemma strip_comments_app a b : strip_comments (a ++ 10%Z :: b) = strip_comments a ++ 10%Z :: strip_comments b.
Proof.
  unfold strip_comments. rewrite split_on_app_any, map_app.
  rewrite join_app; [reflexivity| |]; intro E; apply map_eq_nil in E; exact (split_on_nonempty _ _ E).
Qed.
Lemma strip_comments_join l : l <> [] -> strip_comments (join [10%Z] l) = join [10%Z] (map strip_comments l).
Proof.
  induction l as [|a l IH]; intro NE; [congruence|].
  destruct l as [|b l]; [reflexivity|].
  rewrite join_cons by discriminate. cbn [app]. rewrite strip_comments_app, IH by discriminate.
  change (map strip_comments (a :: b :: l)) with (strip_comments a :: map strip_comments (b :: l)).
  rewrite join_cons by discriminate. reflexivity.
Qed.
Lemma strip_comments_clean a : contains (tx "//") a = false -> strip_comments a = a.
Proof.
  intro H. unfold strip_comments.
  rewrite <- (join_split1 10 a) in H. apply contains_join_false in H.
  assert (E: map (before_sub (tx "//")) (split_on 10 a) = split_on 10 a).
  { induction H as [|p l Hp Hl IH]; [reflexivity|]. cbn [map]. rewrite IH, before_sub_clean by exact Hp. reflexivity. }
  rewrite E. apply join_split1.
Qed.
Lemma strip_comments_comment a : ~ In 10%Z a -> strip_comments (47%Z :: 47%Z :: a) = [].
Proof.
  intro H. unfold strip_comments. rewrite split_on_no_sep.
  - reflexivity.
  - intros [E|[E|I]]; [discriminate|discriminate|exact (H I)].
Qed.

Lemma sw2 x s : starts_with (tx "//") (x :: s) = (47 =? x)%Z && match s with y :: _ => (47 =? y)%Z | [] => false end.
Proof. change (tx "//") with [47%Z; 47%Z]. cbn [starts_with]. destruct s; [reflexivity|]. rewrite andb_true_r. reflexivity. Qed.

Lemma cs_skip_clean pre X : ~ In 47%Z pre -> contains (tx "//") (pre ++ X) = contains (tx "//") X.
Proof.
  induction pre as [|x pre IH]; intro H; [reflexivity|].
  cbn [app]. rewrite contains_cons, sw2.
  destruct (Z.eqb_spec 47 x) as [E|E]; [exfalso; apply H; left; auto|].
  cbn [andb orb]. apply IH. intro I. apply H. right. exact I.
Qed.
Lemma cs_skip_tame t c Y : contains (tx "//") t = false -> c <> 47%Z -> contains (tx "//") (t ++ c :: Y) = contains (tx "//") Y.
Proof.
  intros H Hc. induction t as [|x t IH].
  - cbn [app]. rewrite contains_cons, sw2. destruct (Z.eqb_spec 47 c); [congruence|reflexivity].
  - rewrite contains_cons in H. apply orb_false_iff in H. destruct H as [H1 H2].
    cbn [app]. rewrite contains_cons, (IH H2). rewrite sw2 in *.
    destruct (47 =? x)%Z; [|reflexivity]. cbn [andb] in *.
    destruct t as [|y t]; cbn [app]; [|rewrite H1; reflexivity].
    destruct (Z.eqb_spec 47 c); [congruence|reflexivity].
Qed.
Lemma cs_tame_end t : contains (tx "//") t = false -> contains (tx "//") (t ++ []) = false.
Proof. rewrite app_nil_r. auto. Qed.

(* ---- rendering relation, inverted ---- *)
Lemma drop_prefix_some t : forall s s', drop_prefix t s = Some s' -> s = t ++ s'.
Proof.
  induction t as [|x t IH]; intros s s' H; cbn [drop_prefix] in H.
  - inversion H. reflexivity.
  - destruct s as [|y s]; [discriminate|]. destruct (Z.eqb_spec x y) as [E|E]; [|discriminate].
    subst. cbn [app]. f_equal. apply IH. exact H.
Qed.
Lemma drop_prefix_app t s : drop_prefix t (t ++ s) = Some s.
Proof. induction t as [|x t IH]; [reflexivity|]. cbn [app drop_prefix]. rewrite Z.eqb_refl. exact IH. Qed.

Definition head_nonnum (s : text) : Prop := match s with [] => True | x :: _ => is_num_char x = false end.
Lemma span_num_spec s : forall n s', span_num s = (n, s') -> s = n ++ s' /\ numeral n = true /\ head_nonnum s'.
Proof.
  induction s as [|x s IH]; intros n s' H; cbn [span_num] in H.
  - inversion H. repeat split.
  - destruct (is_num_char x) eqn:E.
    + destruct (span_num s) as [a b]. inversion H; subst. destruct (IH a s' eq_refl) as [H1 [H2 H3]].
      split; [cbn [app]; congruence|]. split; [|exact H3]. unfold numeral in *. cbn [forallb]. rewrite E, H2. reflexivity.
    + inversion H; subst. split; [reflexivity|]. split; [reflexivity|exact E].
Qed.
Lemma span_num_app n s : numeral n = true -> head_nonnum s -> span_num (n ++ s) = (n, s).
Proof.
  induction n as [|x n IH]; intros Hn Hs.
  - cbn [app]. destruct s as [|y s]; [reflexivity|]. cbn [span_num head_nonnum] in *. rewrite Hs. reflexivity.
  - unfold numeral in Hn. cbn [forallb] in Hn. apply andb_true_iff in Hn. destruct Hn as [H1 H2].
    cbn [app span_num]. rewrite H1, (IH H2 Hs). reflexivity.
Qed.
Lemma head_nonnum_app a b : head_nonnum (a ++ b) -> head_nonnum a.
Proof. destruct a; [intros; exact I|auto]. Qed.

Lemma mt_nil tol s : match_toks tol [] s = true -> s = [].
Proof. destruct s; [reflexivity|discriminate]. Qed.
Lemma mt_lit tol t r s : match_toks tol (TLit t :: r) s = true -> exists s', s = t ++ s' /\ match_toks tol r s' = true.
Proof.
  cbn [match_toks]. destruct (drop_prefix t s) as [s'|] eqn:E; [|discriminate].
  intro H. exists s'. split; [apply drop_prefix_some; exact E|exact H].
Qed.
Lemma mt_num q r s : match_toks 0 (TNum q :: r) s = true ->
  exists n s' x, s = n ++ s' /\ numeral n = true /\ parse_decimal n = Some x /\ x == q /\ match_toks 0 r s' = true.
Proof.
  cbn [match_toks]. destruct (span_num s) as [n s'] eqn:E. destruct (parse_decimal n) as [x|] eqn:P; [|discriminate].
  intro H. apply andb_true_iff in H. destruct H as [C M].
  destruct (span_num_spec s n s' E) as [H1 [H2 _]].
  exists n, s', x. split; [exact H1|]. split; [exact H2|]. split; [exact P|]. split; [|exact M].
  unfold num_close in C. apply Qle_bool_iff in C. apply Qabs_Qle_condition in C. destruct C as [C1 C2]. lra.
Qed.
Lemma mt_rnd2 q r s : match_toks 0 (TRnd2 q :: r) s = true ->
  exists n s' x, s = n ++ s' /\ numeral n = true /\ parse_decimal n = Some x /\ is_millionth x = true
                 /\ Qabs (x - q) <= 1 # 2000000 /\ match_toks 0 r s' = true.
Proof.
  cbn [match_toks]. destruct (span_num s) as [n s'] eqn:E. destruct (parse_decimal n) as [x|] eqn:P; [|discriminate].
  intro H. apply andb_true_iff in H. destruct H as [H M]. apply andb_true_iff in H. destruct H as [Hh C].
  destruct (span_num_spec s n s' E) as [H1 [H2 _]].
  exists n, s', x. split; [exact H1|]. split; [exact H2|]. split; [exact P|]. split; [exact Hh|]. split; [|exact M].
  apply Qle_bool_iff in C. rewrite Qplus_0_r in C. exact C.
Qed.

Lemma mt_app_gen tol a b : forall s, match_toks tol (a ++ b) s = true ->
  exists sa sb, s = sa ++ sb /\ match_toks tol a sa = true /\ match_toks tol b sb = true.
Proof.
  induction a as [|t a IH]; intros s H.
  - exists [], s. split; [reflexivity|]. split; [reflexivity|exact H].
  - destruct t as [t|q|q]; cbn [app] in H.
    + apply mt_lit in H. destruct H as [s' [E M]]. destruct (IH s' M) as [sa [sb [E2 [Ma Mb]]]].
      exists (t ++ sa), sb. split; [rewrite E, E2; apply app_assoc|]. split; [|exact Mb].
      cbn [match_toks]. rewrite drop_prefix_app. exact Ma.
    + cbn [match_toks] in H. destruct (span_num s) as [n s'] eqn:E.
      destruct (parse_decimal n) as [x|] eqn:P; [|discriminate].
      apply andb_true_iff in H. destruct H as [C M]. destruct (IH s' M) as [sa [sb [E2 [Ma Mb]]]].
      destruct (span_num_spec s n s' E) as [H1 [H2 H3]].
      exists (n ++ sa), sb. split; [rewrite H1, E2; apply app_assoc|]. split; [|exact Mb].
      cbn [match_toks]. rewrite span_num_app; [|exact H2|rewrite E2 in H3; exact (head_nonnum_app _ _ H3)].
      rewrite P, C, Ma. reflexivity.
    + cbn [match_toks] in H. destruct (span_num s) as [n s'] eqn:E.
      destruct (parse_decimal n) as [x|] eqn:P; [|discriminate].
      apply andb_true_iff in H. destruct H as [C M]. destruct (IH s' M) as [sa [sb [E2 [Ma Mb]]]].
      destruct (span_num_spec s n s' E) as [H1 [H2 H3]].
      exists (n ++ sa), sb. split; [rewrite H1, E2; apply app_assoc|]. split; [|exact Mb].
      cbn [match_toks]. rewrite span_num_app; [|exact H2|rewrite E2 in H3; exact (head_nonnum_app _ _ H3)].
      rewrite P, C, Ma. reflexivity.
Qed.

Lemma mt_app tol a b s : match_toks tol (a ++ b) s = true ->
  exists sa sb, s = sa ++ sb /\ match_toks tol a sa = true /\ match_toks tol b sb = true.
Proof. apply mt_app_gen. Qed.

Lemma mt_sep_gen tol sep lines r : forall s,
  match_toks tol (concat (intersperse [TLit sep] lines) ++ r) s = true ->
  exists texts s', Forall2 (fun ln t => match_toks tol ln t = true) lines texts
                   /\ s = join sep texts ++ s' /\ match_toks tol r s' = true.
Proof.
  induction lines as [|l lines IH]; intros s H.
  - exists [], s. split; [constructor|]. split; [reflexivity|exact H].
  - destruct lines as [|l2 lines].
    + cbn [intersperse concat] in H. rewrite app_nil_r in H. apply mt_app in H.
      destruct H as [sa [sb [E [Ma Mb]]]]. exists [sa], sb.
      split; [constructor; [exact Ma|constructor]|]. split; [exact E|exact Mb].
    + change (intersperse [TLit sep] (l :: l2 :: lines)) with (l :: [TLit sep] :: intersperse [TLit sep] (l2 :: lines)) in H.
      cbn [concat] in H. rewrite <- !app_assoc in H. apply mt_app in H. destruct H as [sa [sb [E [Ma Mb]]]].
      cbn [app] in Mb. apply mt_lit in Mb. destruct Mb as [s2 [E2 M2]].
      destruct (IH s2 M2) as [texts [s' [F [E3 Mr]]]].
      exists (sa :: texts), s'. split; [constructor; [exact Ma|exact F]|]. split; [|exact Mr].
      rewrite join_cons by (inversion F; discriminate). rewrite E, E2, E3, <- !app_assoc. reflexivity.
Qed.

Lemma mt_sep tol sep lines r s :
  match_toks tol (concat (intersperse [TLit sep] lines) ++ r) s = true ->
  exists texts s', Forall2 (fun ln t => match_toks tol ln t = true) lines texts
                   /\ s = join sep texts ++ s' /\ match_toks tol r s' = true.
Proof. apply mt_sep_gen. Qed.

Lemma intersperse_singletons {A} (x : A) (l : list A) : concat (intersperse [x] (map (fun y => [y]) l)) = intersperse x l.
Proof.
  induction l as [|a l IH]; [reflexivity|]. destruct l as [|b l]; [reflexivity|].
  change (map (fun y => [y]) (a :: b :: l)) with ([a] :: map (fun y => [y]) (b :: l)).
  change (intersperse [x] ([a] :: map (fun y => [y]) (b :: l)))
    with ([a] :: [x] :: intersperse [x] (map (fun y => [y]) (b :: l))).
  cbn [concat]. rewrite IH. reflexivity.
Qed.

(* two millionths within half a millionth of each other are equal *)
Lemma millionth_eq x q : is_millionth x = true -> is_millionth q = true -> Qabs (x - q) <= 1 # 2000000 -> x == q.
Proof.
  unfold is_millionth. intros Hx Hq H. apply Qeq_bool_iff in Hx. apply Qeq_bool_iff in Hq.
  apply Qabs_Qle_condition in H. destruct H as [L U].
  set (a := Qfloor (x * 1000000)) in *. set (b := Qfloor (q * 1000000)) in *.
  assert (E: a = b).
  { assert (A1: (a - b < 1)%Z). { rewrite Zlt_Qlt. unfold Z.sub. rewrite inject_Z_plus, inject_Z_opp. change (inject_Z 1) with 1. lra. }
    assert (A2: (b - a < 1)%Z). { rewrite Zlt_Qlt. unfold Z.sub. rewrite inject_Z_plus, inject_Z_opp. change (inject_Z 1) with 1. lra. }
    lia. }
  rewrite E in Hx. lra.
Qed.

(* ---- numerals ---- *)
Lemma forallb_not_in {A} (p : A -> bool) s c : forallb p s = true -> p c = false -> ~ In c s.
Proof. intros F P I. rewrite forallb_forall in F. apply F in I. congruence. Qed.

Lemma numeral_not_in n c : numeral n = true -> is_num_char c = false -> ~ In c n.
Proof. apply forallb_not_in. Qed.

Lemma is_digit_range c : is_digit c = true -> (48 <= c <= 57)%Z.
Proof. unfold is_digit. intro H. apply andb_true_iff in H. destruct H as [A B]. apply Z.leb_le in A. apply Z.leb_le in B. lia. Qed.

Lemma is_ws_false_small c : (33 <= c <= 132)%Z -> is_ws c = false.
Proof.
  intro R. unfold is_ws, py_ws. cbn [existsb].
  repeat match goal with |- context [(c =? ?k)%Z] => destruct (Z.eqb_spec c k); [lia|] end. reflexivity.
Qed.
Lemma is_num_char_range c : is_num_char c = true -> (33 <= c <= 132)%Z.
Proof.
  unfold is_num_char. intro H. repeat (apply orb_true_iff in H; destruct H as [H|H]);
  try (apply Z.eqb_eq in H; lia). apply is_digit_range in H. lia.
Qed.
Lemma is_num_char_not_ws c : is_num_char c = true -> is_ws c = false.
Proof. intro H. apply is_ws_false_small, is_num_char_range, H. Qed.

Lemma numeral_nows n : numeral n = true -> forallb (fun c => negb (is_ws c)) n = true.
Proof.
  unfold numeral. induction n as [|c n IH]; [reflexivity|]. cbn [forallb]. intro H.
  apply andb_true_iff in H. destruct H as [H1 H2]. rewrite (is_num_char_not_ws c H1), (IH H2). reflexivity.
Qed.
Lemma numeral_strip n : numeral n = true -> strip n = n.
Proof. intro H. apply strip_nows, numeral_nows, H. Qed.
Lemma parse_decimal_nonempty n x : parse_decimal n = Some x -> n <> [].
Proof. intros H E. subst. discriminate H. Qed.

(* ---- integers ---- *)
Lemma is_digit_of_mod n : is_digit (48 + n mod 10) = true.
Proof. unfold is_digit. pose proof (Z.mod_pos_bound n 10 ltac:(lia)). apply andb_true_iff. split; apply Z.leb_le; lia. Qed.

Lemma digits_val_show_go fuel : forall n acc,
  (0 <= n < 2 ^ Z.of_nat fuel)%Z -> (fuel <> O) ->
  digits_val 0 (show_nat_go fuel n acc) = digits_val n acc.
Proof.
  induction fuel as [|f IH]; intros n acc Hn Hf; [congruence|].
  cbn [show_nat_go].
  destruct (Z.eqb_spec (n / 10) 0) as [E|E].
  - cbn [digits_val]. f_equal. pose proof (Z.div_mod n 10 ltac:(lia)). lia.
  - assert (Hn10: (0 <= n / 10 < 2 ^ Z.of_nat f)%Z).
    { split; [apply Z.div_pos; lia|].
      rewrite Nat2Z.inj_succ, Z.pow_succ_r in Hn by lia.
      apply Z.div_lt_upper_bound; lia. }
    destruct f as [|f'].
    { cbn in Hn10. lia. }
    rewrite IH; auto.
    cbn [digits_val]. f_equal. pose proof (Z.div_mod n 10 ltac:(lia)). lia.
Qed.
Lemma show_nat_go_digits fuel : forall n acc, forallb is_digit acc = true -> forallb is_digit (show_nat_go fuel n acc) = true.
Proof.
  induction fuel as [|f IH]; intros n acc H; cbn [show_nat_go]; auto.
  destruct (n / 10 =? 0)%Z.
  - cbn [forallb]. rewrite is_digit_of_mod. exact H.
  - apply IH. cbn [forallb]. rewrite is_digit_of_mod. exact H.
Qed.
Lemma show_nat_go_nonempty fuel n acc : fuel <> O -> show_nat_go fuel n acc <> [].
Proof.
  revert n acc. induction fuel as [|f IH]; intros n acc H; [congruence|].
  cbn [show_nat_go]. destruct (n / 10 =? 0)%Z; [discriminate|].
  destruct f; [discriminate|]. apply IH. discriminate.
Qed.
Lemma span_digits_all d : forallb is_digit d = true -> span_digits d = (d, []).
Proof.
  induction d as [|x d IH]; [reflexivity|]. cbn [forallb span_digits]. intro H.
  apply andb_true_iff in H. destruct H as [H1 H2]. rewrite H1, (IH H2). reflexivity.
Qed.
Lemma take_sign_digit c r : is_digit c = true -> take_sign (c :: r) = (false, c :: r).
Proof.
  intro H. apply is_digit_range in H. unfold take_sign.
  destruct c as [|p|p]; try lia. do 6 (destruct p as [p|p|]; try lia; try reflexivity).
Qed.

(* the digits of |z| *)
Definition nat_digits (n : Z) : text := show_nat_go (S (Z.to_nat (Z.log2 n))) n [].
Lemma nat_digits_spec n : (0 <= n)%Z ->
  forallb is_digit (nat_digits n) = true /\ nat_digits n <> [] /\ digits_val 0 (nat_digits n) = n.
Proof.
  intro H. unfold nat_digits. split; [apply show_nat_go_digits; reflexivity|].
  split; [apply show_nat_go_nonempty; discriminate|].
  rewrite digits_val_show_go; [reflexivity| |discriminate].
  destruct (Z.eq_dec n 0) as [E|E]; [subst; cbn; lia|].
  split; [exact H|]. rewrite Nat2Z.inj_succ, Z2Nat.id by (apply Z.log2_nonneg). apply Z.log2_spec. lia.
Qed.
Lemma show_int_eq z : show_int z = if (z <? 0)%Z then 45%Z :: nat_digits (- z) else nat_digits z.
Proof. reflexivity. Qed.

Lemma show_int_chars z : forallb (fun c => is_digit c || (c =? 45)%Z) (show_int z) = true.
Proof.
  assert (W: forall d, forallb is_digit d = true -> forallb (fun c => is_digit c || (c =? 45)%Z) d = true).
  { induction d as [|c d IH]; [reflexivity|]. cbn [forallb]. intro H. apply andb_true_iff in H.
    destruct H as [H1 H2]. rewrite H1, (IH H2). reflexivity. }
  rewrite show_int_eq. destruct (Z.ltb_spec z 0) as [L|L].
  - cbn [forallb]. rewrite W; [reflexivity|]. apply nat_digits_spec. lia.
  - apply W. apply nat_digits_spec. exact L.
Qed.
Lemma show_int_nonempty z : show_int z <> [].
Proof.
  rewrite show_int_eq. destruct (Z.ltb_spec z 0) as [L|L]; [discriminate|]. apply nat_digits_spec. exact L.
Qed.
Lemma show_int_nows z : forallb (fun c => negb (is_ws c)) (show_int z) = true.
Proof.
  pose proof (show_int_chars z) as H. induction (show_int z) as [|c d IH]; [reflexivity|].
  cbn [forallb] in *. apply andb_true_iff in H. destruct H as [H1 H2]. rewrite (IH H2), andb_true_r.
  apply negb_true_iff, is_ws_false_small. apply orb_true_iff in H1. destruct H1 as [H1|H1].
  - apply is_digit_range in H1. lia.
  - apply Z.eqb_eq in H1. lia.
Qed.
Lemma parse_int_show_int z : parse_int (show_int z) = Some z.
Proof.
  unfold parse_int. rewrite strip_nows by apply show_int_nows. rewrite show_int_eq.
  destruct (Z.ltb_spec z 0) as [L|L].
  - destruct (nat_digits_spec (- z) ltac:(lia)) as [D [NE V]].
    cbn [take_sign]. rewrite span_digits_all by exact D.
    destruct (nat_digits (- z)) as [|c d]; [congruence|]. rewrite V. f_equal. lia.
  - destruct (nat_digits_spec z L) as [D [NE V]].
    destruct (nat_digits z) as [|c d] eqn:S; [congruence|].
    rewrite take_sign_digit by (cbn [forallb] in D; apply andb_true_iff in D; tauto).
    rewrite span_digits_all by exact D. rewrite V. reflexivity.
Qed.

(* ---- items ---- *)
Lemma ws_all_not_in w c : ws_all w = true -> is_ws c = false -> ~ In c w.
Proof. apply forallb_not_in. Qed.

Lemma ends_okb_item tag v : ends_okb v = true -> ends_okb ((35%Z :: tag) ++ 58%Z :: v) = true.
Proof.
  intro H. apply ends_okb_spec in H. destruct H as [_ Hl]. apply ends_okb_spec. split; [reflexivity|].
  rewrite rev_app_distr. cbn [rev]. destruct (rev v) as [|y r]; [reflexivity|exact Hl].
Qed.

Lemma items_go_text its tail : Forall item_ok its -> ws_all tail = true ->
  items_go (split_on 59 (items_text its tail))
  = Some (map (fun it : text * text * text * text => let '(w, tag, v, w2) := it in (35%Z :: tag, v)) its).
Proof.
  intros F Ht. induction F as [|it its Hit F IH].
  - cbn [items_text fold_right map]. rewrite split_on_no_sep by (apply ws_all_not_in; [exact Ht|reflexivity]).
    cbn [items_go]. rewrite strip_ws by exact Ht. reflexivity.
  - destruct it as [[[w tag] v] w2]. destruct Hit as [Hw [Hw2 [Nt [Nv [Ct Ev]]]]].
    change (items_text ((w, tag, v, w2) :: its) tail)
      with (w ++ (35%Z :: tag) ++ 58%Z :: v ++ w2 ++ 59%Z :: items_text its tail).
    replace (w ++ (35%Z :: tag) ++ 58%Z :: v ++ w2 ++ 59%Z :: items_text its tail)
      with ((w ++ ((35%Z :: tag) ++ 58%Z :: v) ++ w2) ++ 59%Z :: items_text its tail)
      by (rewrite <- !app_assoc; cbn [app]; rewrite <- ?app_assoc; reflexivity).
    rewrite split_on_app.
    2:{ intro I. apply in_app_or in I. destruct I as [I|I]; [exact (ws_all_not_in w 59%Z Hw eq_refl I)|].
        apply in_app_or in I. destruct I as [I|I]; [|exact (ws_all_not_in w2 59%Z Hw2 eq_refl I)].
        apply in_app_or in I. destruct I as [[I|I]|[I|I]]; [discriminate|exact (Nt I)|discriminate|exact (Nv I)]. }
    pose proof (split_on_nonempty 59 (items_text its tail)) as NE.
    destruct (split_on 59 (items_text its tail)) as [|p r] eqn:S; [congruence|].
    cbn [items_go]. rewrite strip_ends by (assumption || apply ends_okb_item; assumption).
    cbn [items_go] in IH. cbn [app]. change (35%Z :: tag ++ 58%Z :: v) with ((35%Z :: tag) ++ 58%Z :: v).
    rewrite item_roundtrip by exact Ct. cbn [app]. rewrite IH. reflexivity.
Qed.

(* ---- rows of a measure ---- *)
Definition row_ok (r : text) : Prop := r <> [] /\ forallb (fun c => negb (is_ws c)) r = true.

Lemma mrows_nil : mrows [] = [].
Proof. reflexivity. Qed.
Lemma mrows_app_nl a b : mrows (a ++ 10%Z :: b) = mrows a ++ mrows b.
Proof. unfold mrows. rewrite split_on_app_any, map_app, filter_app. reflexivity. Qed.
Lemma mrows_nl_end a : mrows (a ++ [10%Z]) = mrows a.
Proof. rewrite mrows_app_nl, mrows_nil. apply app_nil_r. Qed.
Lemma mrows_nl_start a : mrows (10%Z :: a) = mrows a.
Proof. change (10%Z :: a) with ([] ++ 10%Z :: a). rewrite mrows_app_nl, mrows_nil. reflexivity. Qed.

Lemma mrows_join lines : lines <> [] -> Forall row_ok lines -> mrows (join [10%Z] lines) = lines.
Proof.
  intros NE F. unfold mrows. rewrite split_join1; [|exact NE|].
  2:{ eapply Forall_impl; [|exact F]. intros r [_ H]. eapply forallb_not_in; [exact H|reflexivity]. }
  clear NE. induction F as [|r l [Hr Hn] F IH]; [reflexivity|].
  cbn [map]. rewrite strip_nows by exact Hn. cbn [filter]. destruct r; [congruence|]. rewrite IH. reflexivity.
Qed.

Lemma mrows_pieces_gen out : forall p, out <> [] -> ~ In 44%Z p -> Forall (fun m => ~ In 44%Z m) out ->
  map mrows (split_on 44 (p ++ join [10%Z; 44%Z; 10%Z] out))
  = match out with m :: rest => mrows (p ++ m) :: map mrows rest | [] => [] end.
Proof.
  induction out as [|m out IH]; intros p NE Hp F; [congruence|].
  inversion F as [|? ? Hm F']; subst.
  destruct out as [|m2 out].
  - cbn [join]. rewrite split_on_no_sep; [reflexivity|].
    intro I. apply in_app_or in I. destruct I as [I|I]; [exact (Hp I)|exact (Hm I)].
  - rewrite join_cons by discriminate.
    replace (p ++ m ++ [10%Z; 44%Z; 10%Z] ++ join [10%Z; 44%Z; 10%Z] (m2 :: out))
      with (((p ++ m) ++ [10%Z]) ++ 44%Z :: ([10%Z] ++ join [10%Z; 44%Z; 10%Z] (m2 :: out)))
      by (rewrite <- !app_assoc; reflexivity).
    rewrite split_on_app.
    2:{ intro I. apply in_app_or in I. destruct I as [I|[I|[]]]; [|discriminate].
        apply in_app_or in I. destruct I as [I|I]; [exact (Hp I)|exact (Hm I)]. }
    cbn [map]. rewrite mrows_nl_end. f_equal.
    rewrite IH; [|discriminate|intros [I|[]]; discriminate|exact F'].
    cbn [app map]. rewrite mrows_nl_start. reflexivity.
Qed.

(* the note data  join "\n,\n" measures  splits at ',' into pieces with the same rows as the measures *)
Lemma mrows_pieces out : out <> [] -> Forall (fun m => ~ In 44%Z m) out ->
  map mrows (split_on 44 (join [10%Z; 44%Z; 10%Z] out)) = map mrows out.
Proof.
  intros NE F. pose proof (mrows_pieces_gen out [] NE (fun I => I) F) as H. cbn [app] in H.
  rewrite H. destruct out; [congruence|reflexivity].
Qed.
