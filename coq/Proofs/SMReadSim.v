(* C02, chart body: the reader's _read_notes loop (4-beat slicing, Fraction(j, len), symbol switch, per-column head/tail
   lists) simulates the reference interpretation of the same rows (denote_rows: open head per column, a '3' closes it):
   whenever the reference accepts the rows, the reader accepts them, every symbol yields exactly one object / closes
   exactly one head (the reader's collected objects are a permutation of the reference's), no head stays open. *)
From Coq Require Import String ZArith QArith Qround List Bool Lia Lqa Sorting.Permutation.
From RV Require Import Base.PyNum Timing.Snapper Timing.Snap Timing.TimingMap Timing.Reseat Timing.Integrate
  Formats.SMText Formats.SM Formats.SMSpec Proofs.SMProofs Proofs.SMWriteProofs.
Import ListNotations.
Open Scope Z_scope.

Section Sim.
Variables (tbl : list Q) (types : list (text * option Z)).
Let cf := ref_conf tbl types.
Variable tau : snap -> Q.          (* the time of a position *)
Variable keys : nat.
Hypothesis Hkeys : (keys <= 18)%nat.

(* ---- the objects a reader state stands for ---- *)
Definition convS (e : kind * Z * snap) : dnote := mkDn (fst (fst e)) (snd (fst e)) (tau (snd e)) 0.
Definition contrib (k : kind) (c : nat) (hl : list hentry) : list dnote :=
  flat_map (fun e : hentry => match snd e with
                              | Some t => [mkDn k (Z.of_nat c) (tau (fst e)) (Qred (tau t - tau (fst e)))]
                              | None => [] end) hl.
Fixpoint flat_cols (k : kind) (a : nat) (ll : list (list hentry)) : list dnote :=
  match ll with [] => [] | l :: r => contrib k a l ++ flat_cols k (S a) r end.
Definition notes_of_st (st : nst) : list dnote :=
  map convS (n_simple st) ++ flat_cols KHold 0 (n_holds st) ++ flat_cols KRoll 0 (n_rolls st).

Definition is_simple (k : kind) : bool := match k with KHold | KRoll => false | _ => true end.
Definition closedb (l : list hentry) : bool :=
  forallb (fun e : hentry => match snd e with Some _ => true | None => false end) l.

Definition col_ok (o : option (option (kind * Q))) (hl rl : list hentry) : Prop :=
  match o with
  | None | Some None => closedb hl = true /\ closedb rl = true
  | Some (Some (k, t0)) =>
      (k = KHold /\ closedb rl = true /\ exists pre h, hl = pre ++ [(h, None)] /\ closedb pre = true /\ t0 = tau h)
      \/ (k = KRoll /\ closedb hl = true /\ exists pre h, rl = pre ++ [(h, None)] /\ closedb pre = true /\ t0 = tau h)
  end.

Record Inv (st : nst) (op : openst) (acc : list dnote) : Prop := mkInv {
  inv_perm : Permutation (notes_of_st st) acc;
  inv_op : length op = keys;
  inv_h : length (n_holds st) = 18%nat;
  inv_r : length (n_rolls st) = 18%nat;
  inv_col : forall c hl rl, nth_error (n_holds st) c = Some hl -> nth_error (n_rolls st) c = Some rl ->
                            col_ok (nth_error op c) hl rl;
  inv_simple : Forall (fun e : kind * Z * snap => 0 <= snd (fst e) < 18 /\ is_simple (fst (fst e)) = true) (n_simple st) }.

(* ---- list facts ---- *)
Lemma contrib_app k c a b : contrib k c (a ++ b) = contrib k c a ++ contrib k c b.
Proof. unfold contrib. apply flat_map_app. Qed.

Lemma flat_cols_replace k ll : forall a col l l' extra,
  nth_error ll col = Some l -> contrib k (a + col) l' = contrib k (a + col) l ++ extra ->
  Permutation (flat_cols k a (replace_at col l' ll)) (extra ++ flat_cols k a ll).
Proof.
  induction ll as [|x ll IH]; intros a col l l' extra N E; [destruct col; discriminate|].
  destruct col as [|col]; cbn [nth_error] in N.
  - inversion N; subst x. cbn [replace_at flat_cols]. rewrite Nat.add_0_r in E. rewrite E.
    rewrite <- app_assoc. apply Permutation_app_swap_app.
  - cbn [replace_at flat_cols]. replace (a + S col)%nat with (S a + col)%nat in E by lia.
    eapply perm_trans; [apply Permutation_app_head; exact (IH (S a) col l l' extra N E)|]. apply Permutation_app_swap_app.
Qed.

Lemma closedb_app a b : closedb (a ++ b) = closedb a && closedb b.
Proof. unfold closedb. apply forallb_app. Qed.
Lemma closed_not_open l : closedb l = true -> is_open l = false.
Proof.
  intro H. unfold is_open. destruct (rev l) as [|[h [t|]] r] eqn:E; try reflexivity.
  assert (In (h, @None snap) l) by (apply (proj2 (in_rev l (h, None))); rewrite E; left; reflexivity).
  unfold closedb in H. rewrite forallb_forall in H. specialize (H _ H0). discriminate.
Qed.
Lemma contrib_closed_snoc k c pre h t : contrib k c (pre ++ [(h, Some t)]) = contrib k c pre ++ [mkDn k (Z.of_nat c) (tau h) (Qred (tau t - tau h))].
Proof. rewrite contrib_app. reflexivity. Qed.
Lemma contrib_open_snoc k c pre h : contrib k c (pre ++ [(h, None)]) = contrib k c pre ++ [].
Proof. rewrite contrib_app. reflexivity. Qed.

Lemma nth_error_lt_some {A} (l : list A) n : (n < length l)%nat -> exists x, nth_error l n = Some x.
Proof. intro H. destruct (nth_error l n) eqn:E; [eauto|]. apply nth_error_None in E. lia. Qed.

(* ---- one symbol ---- *)
Definition denote_char (c : Z) (col : nat) (t : Q) (op : openst) (acc : list dnote) : option (openst * list dnote) :=
  match lookup_sym c with
  | Some k => Some (op, mkDn k (Z.of_nat col) t 0 :: acc)
  | None =>
    match nth_error op col with
    | None => None
    | Some cur =>
      if (c =? ref_hold_head) || (c =? ref_roll_head) then
        match cur with
        | Some _ => None
        | None => Some (replace_at col (Some ((if (c =? ref_hold_head) then KHold else KRoll), t)) op, acc)
        end
      else if (c =? ref_tail) then
        match cur with
        | None => None
        | Some (k, t0) => Some (replace_at col None op, mkDn k (Z.of_nat col) t0 (Qred (t - t0)) :: acc)
        end
      else None
    end
  end.

Lemma denote_row_cons c row col t op acc :
  denote_row (c :: row) col t op acc =
  if c =? 48 then denote_row row (S col) t op acc
  else match denote_char c col t op acc with
       | Some (op', acc') => denote_row row (S col) t op' acc'
       | None => None end.
Proof.
  cbn [denote_row]. unfold denote_char. destruct (c =? 48); [reflexivity|].
  destruct (lookup_sym c); [reflexivity|]. destruct (nth_error op col) as [cur|]; [|reflexivity].
  destruct ((c =? ref_hold_head) || (c =? ref_roll_head)).
  - destruct cur; reflexivity.
  - destruct (c =? ref_tail); [|reflexivity]. destruct cur as [[k t0]|]; reflexivity.
Qed.

Lemma inv_simple_step st op acc k col so : Inv st op acc -> (col < keys)%nat -> is_simple k = true ->
  Inv (mkNst ((k, Z.of_nat col, so) :: n_simple st) (n_holds st) (n_rolls st)) op (mkDn k (Z.of_nat col) (tau so) 0 :: acc).
Proof.
  intros [P O H R C S] Hc Hk. constructor; cbn [n_simple n_holds n_rolls]; auto.
  - unfold notes_of_st. cbn [n_simple n_holds n_rolls map]. apply perm_skip. exact P.
  - constructor; [cbn [fst snd]; split; [lia|exact Hk]|exact S].
Qed.

Lemma simple_char st op acc k col so c : Inv st op acc -> (col < keys)%nat -> is_simple k = true ->
  read_char cf st so col c = (if (Z.of_nat col <? 18) then Some (mkNst ((k, Z.of_nat col, so) :: n_simple st) (n_holds st) (n_rolls st)) else None) ->
  exists st', read_char cf st so col c = Some st' /\ Inv st' op (mkDn k (Z.of_nat col) (tau so) 0 :: acc).
Proof.
  intros I Hc Hk E. assert (L : (Z.of_nat col <? 18) = true) by (apply Z.ltb_lt; lia). rewrite L in E.
  eexists. split; [exact E|]. apply inv_simple_step; assumption.
Qed.

Theorem char_sim st op acc so col c op' acc' : Inv st op acc -> (col < keys)%nat -> (c =? 48) = false ->
  denote_char c col (tau so) op acc = Some (op', acc') ->
  exists st', read_char cf st so col c = Some st' /\ Inv st' op' acc'.
Proof.
  intros I Hc N48 D.
  destruct (c =? 49) eqn:E49; [apply Z.eqb_eq in E49; subst c; inversion D; subst; apply simple_char; auto|].
  destruct (c =? 77) eqn:E77; [apply Z.eqb_eq in E77; subst c; inversion D; subst; apply simple_char; auto|].
  destruct (c =? 76) eqn:E76; [apply Z.eqb_eq in E76; subst c; inversion D; subst; apply simple_char; auto|].
  destruct (c =? 70) eqn:E70; [apply Z.eqb_eq in E70; subst c; inversion D; subst; apply simple_char; auto|].
  destruct (c =? 75) eqn:E75; [apply Z.eqb_eq in E75; subst c; inversion D; subst; apply simple_char; auto|].
  assert (LS : lookup_sym c = None).
  { unfold lookup_sym, ref_symbols. cbn [find fst]. rewrite !(Z.eqb_sym _ c), E49, E77, E76, E70, E75. reflexivity. }
  unfold denote_char in D. rewrite LS in D.
  pose proof I as [P O H R C S].
  assert (Lop : (col < length op)%nat) by lia.
  destruct (nth_error_lt_some op col Lop) as [cur Ecur]. rewrite Ecur in D.
  destruct (nth_error_lt_some (n_holds st) col ltac:(lia)) as [hl Ehl].
  destruct (nth_error_lt_some (n_rolls st) col ltac:(lia)) as [rl Erl].
  pose proof (C col hl rl Ehl Erl) as Cc. rewrite Ecur in Cc.
  assert (Hother : forall st' op'', n_simple st' = n_simple st -> length (n_holds st') = 18%nat -> length (n_rolls st') = 18%nat ->
            length op'' = keys ->
            (forall c0, c0 <> col -> nth_error (n_holds st') c0 = nth_error (n_holds st) c0 /\
                                     nth_error (n_rolls st') c0 = nth_error (n_rolls st) c0 /\ nth_error op'' c0 = nth_error op c0) ->
            (forall hl' rl', nth_error (n_holds st') col = Some hl' -> nth_error (n_rolls st') col = Some rl' -> col_ok (nth_error op'' col) hl' rl') ->
            forall acc'', Permutation (notes_of_st st') acc'' -> Inv st' op'' acc'').
  { intros st' op'' Es Lh Lr Lo Oth Same acc'' Pm. constructor; auto.
    - intros c0 hl' rl' N1 N2. destruct (Nat.eq_dec c0 col) as [->|Ne]; [apply Same; assumption|].
      destruct (Oth c0 Ne) as (A1 & A2 & A3). rewrite A3. apply C; congruence.
    - rewrite Es. exact S. }
  destruct (c =? 50) eqn:E50.
  { apply Z.eqb_eq in E50. subst c. unfold ref_hold_head, ref_roll_head, ref_tail in D. cbn [Z.eqb Pos.eqb orb] in D. destruct cur as [x|]; [discriminate|]. inversion D; subst op' acc'. clear D.
    destruct Cc as [Ch Cr].
    exists (mkNst (n_simple st) (replace_at col (hl ++ [(so, None)]) (n_holds st)) (n_rolls st)). split.
    - unfold read_char. cbn. rewrite Ehl. reflexivity.
    - apply Hother; cbn [n_simple n_holds n_rolls]; auto; try (rewrite replace_at_length; assumption).
      + intros c0 Ne. repeat split; try reflexivity; apply replace_at_other; congruence.
      + intros hl' rl' N1 N2. cbn [n_holds n_rolls n_simple] in N1, N2. rewrite replace_at_same in N1 by lia. rewrite replace_at_same by lia. inversion N1; subst hl'. rewrite Erl in N2. inversion N2; subst rl'.
        left. split; [reflexivity|]. split; [exact Cr|]. exists hl, so. auto.
      + unfold notes_of_st. cbn [n_simple n_holds n_rolls]. eapply perm_trans; [|exact P]. apply Permutation_app_head. apply Permutation_app_tail.
        apply (flat_cols_replace KHold (n_holds st) 0 col hl _ [] Ehl). apply contrib_open_snoc. }
  destruct (c =? 52) eqn:E52.
  { apply Z.eqb_eq in E52. subst c. unfold ref_hold_head, ref_roll_head, ref_tail in D. cbn [Z.eqb Pos.eqb orb] in D. destruct cur as [x|]; [discriminate|]. inversion D; subst op' acc'. clear D.
    destruct Cc as [Ch Cr].
    exists (mkNst (n_simple st) (n_holds st) (replace_at col (rl ++ [(so, None)]) (n_rolls st))). split.
    - unfold read_char. cbn. rewrite Erl. reflexivity.
    - apply Hother; cbn [n_simple n_holds n_rolls]; auto; try (rewrite replace_at_length; assumption).
      + intros c0 Ne. repeat split; try reflexivity; apply replace_at_other; congruence.
      + intros hl' rl' N1 N2. cbn [n_holds n_rolls n_simple] in N1, N2. rewrite replace_at_same in N2 by lia. rewrite replace_at_same by lia. inversion N2; subst rl'. rewrite Ehl in N1. inversion N1; subst hl'.
        right. split; [reflexivity|]. split; [exact Ch|]. exists rl, so. auto.
      + unfold notes_of_st. cbn [n_simple n_holds n_rolls]. eapply perm_trans; [|exact P]. apply Permutation_app_head. apply Permutation_app_head.
        apply (flat_cols_replace KRoll (n_rolls st) 0 col rl _ [] Erl). apply contrib_open_snoc. }
  destruct (c =? 51) eqn:E51.
  { apply Z.eqb_eq in E51. subst c. unfold ref_hold_head, ref_roll_head, ref_tail in D. cbn [Z.eqb Pos.eqb orb] in D. destruct cur as [[k t0]|]; [|discriminate]. inversion D; subst op' acc'. clear D.
    destruct Cc as [(Ek & Cr & pre & h & Eh & Cp & Et)|(Ek & Ch & pre & h & Er & Cp & Et)]; subst k t0.
    - exists (mkNst (n_simple st) (replace_at col (pre ++ [(h, Some so)]) (n_holds st)) (n_rolls st)). split.
      + unfold read_char. cbn. rewrite Ehl, Erl, Eh, is_open_snoc, close_last_app. reflexivity.
      + apply Hother; cbn [n_simple n_holds n_rolls]; auto; try (rewrite replace_at_length; assumption).
        * intros c0 Ne. repeat split; try reflexivity; apply replace_at_other; congruence.
        * intros hl' rl' N1 N2. cbn [n_holds n_rolls n_simple] in N1, N2. rewrite replace_at_same in N1 by lia. rewrite replace_at_same by lia. inversion N1; subst hl'. rewrite Erl in N2. inversion N2; subst rl'.
          split; [|exact Cr]. rewrite closedb_app, Cp. reflexivity.
        * unfold notes_of_st. cbn [n_simple n_holds n_rolls].
          eapply perm_trans; [|apply perm_skip; exact P]. unfold notes_of_st.
          eapply perm_trans; [|apply Permutation_sym; apply Permutation_middle].
          apply Permutation_app_head.
          change (?n :: ?a ++ ?b) with (([n] ++ a) ++ b). apply Permutation_app_tail.
          apply (flat_cols_replace KHold (n_holds st) 0 col hl _ [mkDn KHold (Z.of_nat col) (tau h) (Qred (tau so - tau h))] Ehl).
          rewrite Eh, contrib_closed_snoc, contrib_open_snoc, app_nil_r. reflexivity.
    - exists (mkNst (n_simple st) (n_holds st) (replace_at col (pre ++ [(h, Some so)]) (n_rolls st))). split.
      + unfold read_char. cbn. rewrite Ehl, Erl, (closed_not_open hl Ch), Er, is_open_snoc, close_last_app. reflexivity.
      + apply Hother; cbn [n_simple n_holds n_rolls]; auto; try (rewrite replace_at_length; assumption).
        * intros c0 Ne. repeat split; try reflexivity; apply replace_at_other; congruence.
        * intros hl' rl' N1 N2. cbn [n_holds n_rolls n_simple] in N1, N2. rewrite replace_at_same in N2 by lia. rewrite replace_at_same by lia. inversion N2; subst rl'. rewrite Ehl in N1. inversion N1; subst hl'.
          split; [exact Ch|]. rewrite closedb_app, Cp. reflexivity.
        * unfold notes_of_st. cbn [n_simple n_holds n_rolls].
          eapply perm_trans; [|apply perm_skip; exact P]. unfold notes_of_st.
          eapply perm_trans; [|apply Permutation_sym; apply Permutation_middle].
          apply Permutation_app_head.
          eapply perm_trans; [|apply Permutation_sym; apply Permutation_middle].
          apply Permutation_app_head.
          apply (flat_cols_replace KRoll (n_rolls st) 0 col rl _ [mkDn KRoll (Z.of_nat col) (tau h) (Qred (tau so - tau h))] Erl).
          rewrite Er, contrib_closed_snoc, contrib_open_snoc, app_nil_r. reflexivity. }
  exfalso. unfold ref_hold_head, ref_roll_head, ref_tail in D. rewrite E50, E52, E51 in D. cbn in D. discriminate.
Qed.

(* ---- one row ---- *)
Theorem row_sim so : forall row col st op acc op' acc', Inv st op acc -> (col + length row <= keys)%nat ->
  denote_row row col (tau so) op acc = Some (op', acc') ->
  exists st', read_row cf st so col row = Some st' /\ Inv st' op' acc'.
Proof.
  induction row as [|c row IH]; intros col st op acc op' acc' I L D.
  - cbn in D. inversion D; subst. exists st. split; [reflexivity|exact I].
  - rewrite denote_row_cons in D. cbn [read_row]. cbn [length] in L. destruct (c =? 48) eqn:E48.
    + apply (IH (S col) st op acc op' acc' I); [lia|exact D].
    + destruct (denote_char c col (tau so) op acc) as [[op1 acc1]|] eqn:DC; [|discriminate].
      destruct (char_sim st op acc so col c op1 acc1 I ltac:(lia) E48 DC) as (st1 & R1 & I1). rewrite R1.
      apply (IH (S col) st1 op1 acc1 op' acc' I1); [lia|exact D].
Qed.

(* ---- the rows of one measure, as one loop over the row index ---- *)
Fixpoint read_rows_flat (st : nst) (m k r : Z) (rows : list text) : option nst :=
  match rows with
  | [] => Some st
  | row :: rows' =>
      match snap_norm m (inject_Z (r / k) + Qred (inject_Z (r mod k) / inject_Z k)) 4 with
      | None => None
      | Some so => match read_row cf st so 0 row with
                   | Some st' => read_rows_flat st' m k (r + 1) rows'
                   | None => None end
      end
  end.

Lemma read_rows_flat_app m k : forall a st r b,
  read_rows_flat st m k r (a ++ b) =
  match read_rows_flat st m k r a with Some st' => read_rows_flat st' m k (r + Z.of_nat (length a)) b | None => None end.
Proof.
  induction a as [|x a IH]; intros st r b.
  - cbn. rewrite Z.add_0_r. reflexivity.
  - cbn [app read_rows_flat]. destruct (snap_norm _ _ _); [|reflexivity]. destruct (read_row cf st s 0 x); [|reflexivity].
    rewrite IH. cbn [length]. replace (r + 1 + Z.of_nat (length a)) with (r + Z.of_nat (S (length a))) by lia. reflexivity.
Qed.

Lemma read_beat_rows_flat m b k : 0 < k -> 0 <= b -> forall sl st j, 0 <= j -> j + Z.of_nat (length sl) <= k ->
  read_beat_rows cf st m b k j sl = read_rows_flat st m k (b * k + j) sl.
Proof.
  intros Hk Hb. induction sl as [|x sl IH]; intros st j Hj L; [reflexivity|]. cbn [length] in L.
  cbn [read_beat_rows read_rows_flat].
  assert (E1 : (b * k + j) / k = b) by (rewrite Z.div_add_l by lia; rewrite Z.div_small by lia; lia).
  assert (E2 : (b * k + j) mod k = j) by (rewrite Z.add_comm, Z.mod_add by lia; apply Z.mod_small; lia).
  rewrite E1, E2. destruct (snap_norm _ _ _); [|reflexivity]. destruct (read_row cf st s 0 x); [|reflexivity].
  rewrite IH by lia. replace (b * k + (j + 1)) with (b * k + j + 1) by lia. reflexivity.
Qed.

Lemma read_measure_flat st m rows k : 0 < k -> Z.of_nat (length rows) = 4 * k ->
  read_measure_beats cf st m rows (map Z.of_nat (seq 0 (Z.to_nat (k_metronome cf)))) = read_rows_flat st m k 0 rows.
Proof.
  intros Hk Hl. change (map Z.of_nat (seq 0 (Z.to_nat (k_metronome cf)))) with [0; 1; 2; 3].
  assert (Hmet : k_metronome cf = 4) by reflexivity.
  pose proof (slices_partition cf Hmet rows k ltac:(lia) Hl) as P.
  assert (Ls : forall b, 0 <= b <= 3 -> Z.of_nat (length (beat_slice cf rows b)) = k).
  { intros b Hb. rewrite (beat_slice_spec cf Hmet rows k b) by lia. rewrite firstn_length, skipn_length. nia. }
  transitivity (read_rows_flat st m k 0 (beat_slice cf rows 0 ++ beat_slice cf rows 1 ++ beat_slice cf rows 2 ++ beat_slice cf rows 3)); [|rewrite P; reflexivity].
  cbn [read_measure_beats]. rewrite !(Ls _) by lia.
  rewrite (read_beat_rows_flat m 0 k Hk ltac:(lia) _ st 0) by (rewrite ?Ls; lia).
  rewrite read_rows_flat_app, (Ls 0) by lia. replace (0 * k + 0) with 0 by lia.
  destruct (read_rows_flat st m k 0 (beat_slice cf rows 0)) as [st1|]; [|reflexivity].
  rewrite (read_beat_rows_flat m 1 k Hk ltac:(lia) _ st1 0) by (rewrite ?Ls; lia).
  rewrite read_rows_flat_app, (Ls 1) by lia. replace (1 * k + 0) with (0 + k) by lia.
  destruct (read_rows_flat st1 m k (0 + k) (beat_slice cf rows 1)) as [st2|]; [|reflexivity].
  rewrite (read_beat_rows_flat m 2 k Hk ltac:(lia) _ st2 0) by (rewrite ?Ls; lia).
  rewrite read_rows_flat_app, (Ls 2) by lia. replace (2 * k + 0) with (0 + k + k) by lia.
  destruct (read_rows_flat st2 m k (0 + k + k) (beat_slice cf rows 2)) as [st3|]; [|reflexivity].
  rewrite (read_beat_rows_flat m 3 k Hk ltac:(lia) _ st3 0) by (rewrite ?Ls; lia).
  replace (3 * k + 0) with (0 + k + k + k) by lia.
  destruct (read_rows_flat st3 m k (0 + k + k + k) (beat_slice cf rows 3)) as [st4|]; reflexivity.
Qed.

(* ---- the Snap of row r of a measure of 4k rows is the position of beat 4m + 4r/n ---- *)
Lemma row_snap m k r : 0 <= m -> 0 < k -> 0 <= r < 4 * k ->
  snap_norm m (inject_Z (r / k) + Qred (inject_Z (r mod k) / inject_Z k)) 4
  = Some (snap_of_beat (Qred (inject_Z (4 * m) + inject_Z (4 * r) / inject_Z (4 * k)))).
Proof.
  intros Hm Hk Hr.
  assert (Hk' : (0 < inject_Z k)%Q) by (change 0%Q with (inject_Z 0); rewrite <- Zlt_Qlt; exact Hk).
  set (x := (inject_Z (r / k) + Qred (inject_Z (r mod k) / inject_Z k))%Q).
  assert (Ex : (x == inject_Z r / inject_Z k)%Q).
  { unfold x. rewrite Qred_correct. rewrite (Z.div_mod r k) at 3 by lia. rewrite inject_Z_plus, inject_Z_mult. field. lra. }
  assert (X0 : (0 <= x)%Q).
  { rewrite Ex. apply Qle_shift_div_l; [exact Hk'|]. rewrite Qmult_0_l. change 0%Q with (inject_Z 0). rewrite <- Zle_Qle. lia. }
  assert (X4 : (x < 4)%Q).
  { rewrite Ex. apply Qlt_shift_div_r; [exact Hk'|]. change 4%Q with (inject_Z 4). rewrite <- inject_Z_mult, <- Zlt_Qlt. lia. }
  unfold snap_norm. assert (Em : (m <? 0) = false) by (apply Z.ltb_ge; exact Hm). rewrite Em.
  assert (C1 : Qlt_bool x 0 = false) by (apply Qlt_bool_false; exact X0).
  assert (C2 : Qle_bool 4 x = false) by (apply Qle_bool_false; exact X4).
  fold x. rewrite C1, C2. cbn [orb fst snd]. rewrite C1, Em. cbn [orb].
  unfold snap_of_beat. set (beat := Qred (inject_Z (4 * m) + inject_Z (4 * r) / inject_Z (4 * k))).
  assert (Eb : (beat == 4 * inject_Z m + x)%Q).
  { unfold beat. rewrite Qred_correct, Ex, !inject_Z_mult. change (inject_Z 4) with 4%Q. field. lra. }
  assert (F : Qfloor (beat / 4) = m).
  { apply Qfloor_unique.
    - apply Qle_shift_div_l; [reflexivity|]. rewrite Eb. lra.
    - apply Qlt_shift_div_r; [reflexivity|]. rewrite Eb. lra. }
  rewrite F. f_equal. f_equal. apply Qred_complete. rewrite Eb. ring.
Qed.

(* ---- the rows of one measure ---- *)
Variable time : Q -> Q.
Variable keysZ : Z.
Hypothesis HkeysZ : keys = Z.to_nat keysZ.
Hypothesis Htime : forall b, time b = tau (snap_of_beat b).

Theorem measure_sim m k : 0 <= m -> 0 < k -> forall rows r st op acc op' acc', Inv st op acc ->
  0 <= r -> r + Z.of_nat (length rows) <= 4 * k ->
  denote_rows rows keysZ m (4 * k) r time op acc = Some (op', acc') ->
  exists st', read_rows_flat st m k r rows = Some st' /\ Inv st' op' acc'.
Proof.
  intros Hm Hk. induction rows as [|row rows IH]; intros r st op acc op' acc' I Hr L D.
  - cbn in D. inversion D; subst. exists st. split; [reflexivity|exact I].
  - cbn [denote_rows] in D. cbn [length] in L. destruct (Z.of_nat (length row) =? keysZ) eqn:W; [|discriminate]. cbn [negb] in D.
    apply Z.eqb_eq in W. cbn [read_rows_flat]. rewrite (row_snap m k r Hm Hk ltac:(lia)).
    rewrite Htime in D.
    set (so := snap_of_beat (Qred (inject_Z (4 * m) + inject_Z (4 * r) / inject_Z (4 * k)))) in *.
    destruct (denote_row row 0 (tau so) op acc) as [[op1 acc1]|] eqn:DR; [|discriminate].
    destruct (row_sim so row 0%nat st op acc op1 acc1 I ltac:(lia) DR) as (st1 & R1 & I1). rewrite R1.
    apply (IH (r + 1) st1 op1 acc1 op' acc' I1); [lia|lia|exact D].
Qed.

(* ---- all measures of a chart ---- *)
Definition rowsD (mt : text) : list text :=
  filter (fun l => match l with [] => false | _ => true end) (map strip (split_on 10 mt)).

Lemma denote_measures_ns ms : forall m op acc ns op' acc' ns',
  denote_measures ms keysZ m time op acc ns = Some (op', acc', ns') -> exists pre, ns' = pre ++ ns.
Proof.
  induction ms as [|mt ms IH]; intros m op acc ns op' acc' ns' D.
  - cbn in D. inversion D; subst. exists []. reflexivity.
  - cbn [denote_measures] in D. fold (rowsD mt) in D. destruct (rowsD mt) as [|r0 rs] eqn:ER; [discriminate|].
    destruct (denote_rows _ _ _ _ _ _ _ _) as [[op1 acc1]|]; [|discriminate].
    destruct (IH _ _ _ _ _ _ _ D) as [pre E]. exists (pre ++ [Z.of_nat (length (r0 :: rs))]). rewrite E, <- app_assoc. reflexivity.
Qed.

Theorem measures_sim : forall ms_d ms_r m st op acc ns op' acc' ns', map measure_rows ms_r = map rowsD ms_d ->
  Inv st op acc -> 0 <= m ->
  denote_measures ms_d keysZ m time op acc ns = Some (op', acc', ns') ->
  Forall (fun n => n mod 4 = 0) ns' ->
  exists st', read_measures cf st m ms_r = Some st' /\ Inv st' op' acc'.
Proof.
  induction ms_d as [|mt ms_d IH]; intros ms_r m st op acc ns op' acc' ns' E I Hm D F.
  - destruct ms_r; [|discriminate]. cbn in D. inversion D; subst. exists st. split; [reflexivity|exact I].
  - destruct ms_r as [|mr ms_r]; [discriminate|]. cbn [map] in E. inversion E as [[E1 E2]].
    cbn [denote_measures] in D. fold (rowsD mt) in D. cbn [read_measures]. rewrite E1.
    destruct (rowsD mt) as [|r0 rs] eqn:ER; [discriminate|]. cbv zeta in D.
    set (rows := r0 :: rs) in *. remember (Z.of_nat (length rows)) as n eqn:Hn.
    match type of D with match ?X with _ => _ end = _ => destruct X as [[op1 acc1]|] eqn:DR end; [|discriminate].
    destruct (denote_measures_ns _ _ _ _ _ _ _ _ D) as [pre En].
    assert (N4 : n mod 4 = 0). { rewrite Hn. rewrite En in F. apply Forall_app in F. destruct F as [_ F]. inversion F; assumption. }
    assert (Npos : 0 < n) by (rewrite Hn; unfold rows; cbn [length]; lia).
    set (k := n / 4). assert (Ek : n = 4 * k) by (unfold k; apply Z.div_exact in N4; lia).
    assert (Hk : 0 < k) by lia.
    rewrite (read_measure_flat st m rows k Hk ltac:(rewrite <- Hn; exact Ek)).
    change (denote_rows rows keysZ m (Z.of_nat (length rows)) 0 time op acc = Some (op1, acc1)) in DR. rewrite <- Hn, Ek in DR. destruct (measure_sim m k Hm Hk rows 0 st op acc op1 acc1 I ltac:(lia) ltac:(rewrite <- Hn; lia) DR) as (st1 & R1 & I1).
    rewrite R1. apply (IH ms_r (m + 1) st1 op1 acc1 _ op' acc' ns' E2 I1 ltac:(lia) D F).
Qed.

(* ---- the end of the chart ---- *)
Lemma final_closed st op acc : Inv st op acc ->
  forallb (fun o : option (kind * Q) => match o with None => true | Some _ => false end) op = true ->
  all_closed (n_holds st) = true /\ all_closed (n_rolls st) = true.
Proof.
  intros [P O H R C S] F. rewrite forallb_forall in F.
  assert (A : forall c hl rl, nth_error (n_holds st) c = Some hl -> nth_error (n_rolls st) c = Some rl ->
              closedb hl = true /\ closedb rl = true).
  { intros c hl rl N1 N2. pose proof (C c hl rl N1 N2) as K. destruct (nth_error op c) as [[[k t0]|]|] eqn:E; try exact K.
    apply nth_error_In in E. specialize (F _ E). discriminate. }
  split; unfold all_closed; apply forallb_forall; intros l Hl; apply In_nth_error in Hl; destruct Hl as [c Hc].
  - assert (Lc : (c < 18)%nat) by (rewrite <- H; apply nth_error_Some; congruence).
    destruct (nth_error_lt_some (n_rolls st) c ltac:(lia)) as [rl Er]. exact (proj1 (A c l rl Hc Er)).
  - assert (Lc : (c < 18)%nat) by (rewrite <- R; apply nth_error_Some; congruence).
    destruct (nth_error_lt_some (n_holds st) c ltac:(lia)) as [hl Eh]. exact (proj2 (A c hl l Eh Hc)).
Qed.

Lemma inv_init : Inv (mkNst [] (repeat [] 18) (repeat [] 18)) (repeat None keys) [].
Proof.
  constructor; cbn [n_simple n_holds n_rolls].
  - unfold notes_of_st. cbn [n_simple n_holds n_rolls map app].
    assert (Z : forall k n a, flat_cols k a (repeat [] n) = []) by (intros k n; induction n; intro a; cbn; auto).
    rewrite !Z. constructor.
  - apply repeat_length.
  - apply repeat_length.
  - apply repeat_length.
  - intros c hl rl N1 N2. apply nth_error_In, repeat_spec in N1. apply nth_error_In, repeat_spec in N2. subst hl rl.
    destruct (nth_error (repeat None keys) c) as [o|] eqn:E; [|split; reflexivity].
    apply nth_error_In, repeat_spec in E. subst o. split; reflexivity.
  - constructor.
Qed.
End Sim.
