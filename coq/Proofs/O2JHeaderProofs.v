(* ojn_header_decodes: for every well-formed header, read_meta (driven by the reference layout) applied to
   the 300 laid-out bytes (followed by anything) returns exactly the header's values. *)
From Coq Require Import ZArith QArith Qround List Bool Lia Lqa.
From RV Require Import Base.PyNum Base.Bytes Formats.O2J Formats.O2JSpec Generated.Tables.
Import ListNotations.
Open Scope Z_scope.

Inductive fval := FI32 (z : Z) | FI16 (z : Z) | FF32 (w : Z) | FB (b : Z).
Definition enc_fval (v : fval) : list Z :=
  match v with FI32 z => enc_int32 z | FI16 z => enc_int16 z | FF32 w => le_encode 4 w | FB b => [b] end.
Definition fval_ok (v : fval) : bool :=
  match v with FI32 z => in_i32 z | FI16 z => in_i16 z | FF32 w => f32_finite w | FB b => byte_ok b end.
Definition fval_fmt (v : fval) : Z := match v with FI32 _ => 105 | FI16 _ => 104 | FF32 _ => 102 | FB _ => 115 end.
Definition fval_size (v : fval) : Z := match v with FI32 _ => 4 | FI16 _ => 2 | FF32 _ => 4 | FB _ => 1 end.
Definition dec_fval (v : fval) : mval :=
  match v with FI32 z => MInt z | FI16 z => MInt z | FF32 w => MFloat (f32_val w) | FB b => MByte b end.

Lemma in_i32_iff z : in_i32 z = true <-> - 2 ^ 31 <= z < 2 ^ 31.
Proof. unfold in_i32. rewrite andb_true_iff, Z.leb_le, Z.ltb_lt. tauto. Qed.
Lemma in_i16_iff z : in_i16 z = true <-> - 2 ^ 15 <= z < 2 ^ 15.
Proof. unfold in_i16. rewrite andb_true_iff, Z.leb_le, Z.ltb_lt. tauto. Qed.

Lemma f32_finite_some w : f32_finite w = true -> f32_of_bits w = Some (f32_val w) /\ 0 <= w < 2 ^ 32.
Proof.
  unfold f32_finite. rewrite !andb_true_iff, Z.leb_le, Z.ltb_lt, negb_true_iff. intros [[A B] C].
  split; [|lia]. unfold f32_of_bits. rewrite C. reflexivity.
Qed.

Lemma unpack1_enc v : fval_ok v = true -> unpack1 (fval_fmt v) (enc_fval v) = Some (dec_fval v).
Proof.
  destruct v as [z|z|w|b]; cbn [fval_ok fval_fmt enc_fval dec_fval]; intro H; unfold unpack1.
  - change (105 =? 105) with true. cbn iota. apply in_i32_iff in H. rewrite (le_int32_roundtrip z H). reflexivity.
  - change (104 =? 105) with false. change (104 =? 104) with true. cbn iota.
    apply in_i16_iff in H. rewrite (le_int16_roundtrip z H). reflexivity.
  - change (102 =? 105) with false. change (102 =? 104) with false. change (102 =? 102) with true. cbn iota.
    destruct (f32_finite_some w H) as [E R]. unfold le_float32. rewrite (le_uint32_roundtrip w R), E. reflexivity.
  - reflexivity.
Qed.

Lemma enc_fval_length v : length (enc_fval v) = Z.to_nat (fval_size v).
Proof. destruct v; reflexivity. Qed.

Lemma slice_app (pre x post : list Z) :
  slice (pre ++ x ++ post) (Z.of_nat (length pre)) (Z.of_nat (length x)) = x.
Proof.
  unfold slice. rewrite !Nat2Z.id. rewrite skipn_app, skipn_all, Nat.sub_diag. cbn [skipn app].
  rewrite firstn_app, firstn_all, Nat.sub_diag. cbn [firstn]. apply app_nil_r.
Qed.

Definition uniform (fmt sz : Z) (vs : list fval) : Prop :=
  Forall (fun v => fval_ok v = true /\ fval_fmt v = fmt /\ fval_size v = sz) vs.

Lemma read_field_enc fmt sz vs : uniform fmt sz vs -> forall pre post,
  read_field fmt sz (length vs) (pre ++ flat_map enc_fval vs ++ post) (Z.of_nat (length pre))
  = Some (map dec_fval vs, Z.of_nat (length pre + length (flat_map enc_fval vs))).
Proof.
  induction 1 as [|v vs' (Hok & Hf & Hs) _ IH]; intros pre post.
  - cbn. rewrite Nat.add_0_r. reflexivity.
  - cbn [length read_field flat_map]. rewrite <- app_assoc.
    assert (Esz : sz = Z.of_nat (length (enc_fval v))).
    { rewrite enc_fval_length, Hs. destruct v; cbn in Hs |- *; subst; reflexivity. }
    rewrite Esz at 1. rewrite slice_app. rewrite <- Hf, (unpack1_enc v Hok).
    replace (Z.of_nat (length pre) + sz) with (Z.of_nat (length (pre ++ enc_fval v))).
    2:{ rewrite app_length, Nat2Z.inj_add, <- Esz. reflexivity. }
    replace (pre ++ enc_fval v ++ flat_map enc_fval vs' ++ post) with ((pre ++ enc_fval v) ++ flat_map enc_fval vs' ++ post).
    2:{ rewrite <- app_assoc. reflexivity. }
    rewrite Hf. rewrite IH. cbn [map]. rewrite !app_length, Nat.add_assoc. reflexivity.
Qed.

Record field := mkField { f_fmt : Z; f_sz : Z; f_vals : list fval }.
Definition encf (f : field) : list Z := flat_map enc_fval (f_vals f).
Definition row (f : field) : Z * Z * Z :=
  (f_fmt f, f_sz f * Z.of_nat (length (f_vals f)), Z.of_nat (length (f_vals f))).
Definition field_ok (f : field) : Prop :=
  uniform (f_fmt f) (f_sz f) (f_vals f) /\ f_vals f <> [] /\ 0 < f_sz f.

Lemma py_int_div_exact sz n : 0 < sz -> 0 < n -> py_int_div (sz * n) n = Some sz.
Proof.
  intros Hs Hn. unfold py_int_div. destruct (Z.eqb_spec n 0); [lia|]. f_equal.
  assert (E : (inject_Z (sz * n) / inject_Z n == inject_Z sz)%Q).
  { rewrite inject_Z_mult. field. intro C. unfold Qeq in C. cbn in C. lia. }
  unfold qtrunc.
  assert (L : Qle_bool 0 (inject_Z (sz * n) / inject_Z n) = true).
  { apply Qle_bool_iff. rewrite E. change 0%Q with (inject_Z 0). rewrite <- Zle_Qle. lia. }
  rewrite L. rewrite (Qfloor_comp _ _ E). apply Qfloor_Z.
Qed.

Lemma read_fields_enc fl : Forall field_ok fl -> forall pre post,
  read_fields (map row fl) (pre ++ flat_map encf fl ++ post) (Z.of_nat (length pre))
  = Some (map (fun f => map dec_fval (f_vals f)) fl).
Proof.
  induction 1 as [|f fl' (Hu & Hne & Hsz) _ IH]; intros pre post; [reflexivity|].
  cbn [map read_fields row flat_map].
  assert (Hn : 0 < Z.of_nat (length (f_vals f))) by (destruct (f_vals f); [congruence|cbn [length]; lia]).
  rewrite (py_int_div_exact _ _ Hsz Hn).
  destruct (Z.ltb_spec (f_sz f) 0); [lia|].
  rewrite Nat2Z.id. rewrite <- app_assoc. unfold encf at 1.
  rewrite (read_field_enc _ _ _ Hu pre (flat_map encf fl' ++ post)).
  change (encf f) with (flat_map enc_fval (f_vals f)).
  rewrite (app_assoc pre (flat_map enc_fval (f_vals f))). rewrite <- app_length. rewrite IH. reflexivity.
Qed.

(* ---- the OJN header as a list of uniform fields ---- *)
Definition hdr_fields (h : fhdr) (pc : list Z) : list field :=
  [ mkField 105 4 [FI32 (fh_song_id h)]; mkField 115 1 (map FB (pad 4 (fh_signature h)));
    mkField 102 4 [FF32 (fh_encode_version h)]; mkField 105 4 [FI32 (fh_genre h)]; mkField 102 4 [FF32 (fh_bpm h)];
    mkField 104 2 (map FI16 (fh_level h));
    mkField 105 4 (map FI32 (fh_event_count h)); mkField 105 4 (map FI32 (fh_note_count h));
    mkField 105 4 (map FI32 (fh_measure_count h)); mkField 105 4 (map FI32 pc);
    mkField 104 2 [FI16 (fh_old_encode_version h)]; mkField 104 2 [FI16 (fh_old_song_id h)];
    mkField 115 1 (map FB (pad 20 (fh_old_genre h)));
    mkField 105 4 [FI32 (fh_bmp_size h)]; mkField 105 4 [FI32 (fh_old_file_version h)];
    mkField 115 1 (map FB (pad 64 (fh_title h))); mkField 115 1 (map FB (pad 32 (fh_artist h)));
    mkField 115 1 (map FB (pad 32 (fh_noter h))); mkField 115 1 (map FB (pad 32 (fh_ojm_file h)));
    mkField 105 4 [FI32 (fh_cover_size h)]; mkField 105 4 (map FI32 (fh_time h));
    mkField 105 4 (map FI32 (fh_note_offset h)); mkField 105 4 [FI32 (fh_cover_offset h)] ].

Lemma fm_i32 l : flat_map enc_fval (map FI32 l) = flat_map enc_int32 l.
Proof. induction l; cbn [map flat_map enc_fval]; congruence. Qed.
Lemma fm_i16 l : flat_map enc_fval (map FI16 l) = flat_map enc_int16 l.
Proof. induction l; cbn [map flat_map enc_fval]; congruence. Qed.
Lemma fm_b l : flat_map enc_fval (map FB l) = l.
Proof. induction l; cbn [map flat_map enc_fval app]; congruence. Qed.

Lemma encode_header_fields h pc : encode_header h pc = flat_map encf (hdr_fields h pc).
Proof.
  unfold encode_header, hdr_fields. cbn [flat_map encf f_vals].
  rewrite !fm_i32, !fm_i16, !fm_b. cbn [flat_map enc_fval]. rewrite ?app_nil_r. rewrite <- ?app_assoc. reflexivity.
Qed.

Lemma pad_length w s : (length s <= w)%nat -> length (pad w s) = w.
Proof. intro H. unfold pad. rewrite app_length, repeat_length. lia. Qed.

Lemma uniform_i32 l : forallb in_i32 l = true -> uniform 105 4 (map FI32 l).
Proof.
  induction l as [|a l IH]; cbn [map forallb bytes_ok]; intro H; [constructor|].
  apply andb_true_iff in H as [A B]. constructor; [repeat split; auto|apply IH; auto].
Qed.
Lemma uniform_i16 l : forallb in_i16 l = true -> uniform 104 2 (map FI16 l).
Proof.
  induction l as [|a l IH]; cbn [map forallb bytes_ok]; intro H; [constructor|].
  apply andb_true_iff in H as [A B]. constructor; [repeat split; auto|apply IH; auto].
Qed.
Lemma uniform_b l : bytes_ok l = true -> uniform 115 1 (map FB l).
Proof.
  induction l as [|a l IH]; cbn [map forallb bytes_ok]; intro H; [constructor|].
  apply andb_true_iff in H as [A B]. constructor; [repeat split; auto|apply IH; auto].
Qed.

Lemma bytes_ok_pad w s : bytes_ok s = true -> bytes_ok (pad w s) = true.
Proof.
  intro H. unfold pad, bytes_ok. rewrite forallb_app. unfold bytes_ok in H. rewrite H. cbn.
  induction (w - length s)%nat; cbn; auto.
Qed.
Lemma str_ok_bytes w s : str_ok w s = true -> bytes_ok s = true /\ (length s <= w)%nat
  /\ forallb (fun b => negb (b =? 0)) s = true.
Proof.
  unfold str_ok. rewrite andb_true_iff, Nat.leb_le. intros [L F]. split; [|split; auto].
  - unfold bytes_ok. rewrite forallb_forall in *. intros x Hx. specialize (F x Hx).
    apply andb_true_iff in F as [A B]. apply Z.ltb_lt in A. apply Z.ltb_lt in B. apply byte_ok_iff. lia.
  - rewrite forallb_forall in *. intros x Hx. specialize (F x Hx).
    apply andb_true_iff in F as [A B]. apply Z.ltb_lt in A. destruct (Z.eqb_spec x 0); auto; lia.
Qed.

Lemma all_some_i32 l : all_some (map as_int (map dec_fval (map FI32 l))) = Some l.
Proof. induction l; cbn [map all_some dec_fval as_int]; [reflexivity|]. rewrite IHl. reflexivity. Qed.
Lemma all_some_i16 l : all_some (map as_int (map dec_fval (map FI16 l))) = Some l.
Proof. induction l; cbn [map all_some dec_fval as_int]; [reflexivity|]. rewrite IHl. reflexivity. Qed.
Lemma all_some_b l :
  all_some (map (fun v => match v with MByte b => Some b | _ => None end) (map dec_fval (map FB l))) = Some l.
Proof. induction l; cbn [map all_some dec_fval]; [reflexivity|]. rewrite IHl. reflexivity. Qed.

(* a NUL-free string padded with NULs: dropping NULs and non-ASCII bytes = the C string with non-ASCII dropped *)
Lemma decode_replace_pad w s : forallb (fun b => negb (b =? 0)) s = true -> decode_replace (pad w s) = str_value s.
Proof.
  intro H. unfold decode_replace, pad, str_value, ascii_only. rewrite filter_app.
  assert (Z0 : filter (fun b => negb (b =? 0) && (b <? 128)) (repeat 0 (w - length s)) = []).
  { induction (w - length s)%nat; cbn; auto. }
  rewrite Z0, app_nil_r. clear Z0. induction s as [|b r IH]; [reflexivity|].
  cbn [forallb] in H. apply andb_true_iff in H as [A B]. cbn [filter cstring].
  destruct (b =? 0); [discriminate|]. cbn [negb andb filter]. rewrite (IH B). reflexivity.
Qed.

Ltac split_and H :=
  repeat match type of H with
         | (_ && _ = true) => let H' := fresh "W" in apply andb_true_iff in H as [H H']
         end.

Theorem ojn_header_decodes_ref h pc post :
  wf_hdr h = true -> ilist_ok 3 pc = true ->
  match read_fields ref_layout (encode_header h pc ++ post) 0 with
  | Some fs =>
      fld_int0 fs 0 = Some (fh_song_id h) /\ fld_str fs 1 = Some (str_value (fh_signature h))
      /\ fld_float0 fs 2 = Some (f32_val (fh_encode_version h)) /\ fld_int0 fs 3 = Some (fh_genre h)
      /\ fld_float0 fs 4 = Some (f32_val (fh_bpm h)) /\ fld_ints fs 5 = Some (fh_level h)
      /\ fld_ints fs 6 = Some (fh_event_count h) /\ fld_ints fs 7 = Some (fh_note_count h)
      /\ fld_ints fs 8 = Some (fh_measure_count h) /\ fld_ints fs 9 = Some pc
      /\ fld_int0 fs 10 = Some (fh_old_encode_version h) /\ fld_int0 fs 11 = Some (fh_old_song_id h)
      /\ fld_bytes fs 12 = Some (pad 20 (fh_old_genre h)) /\ fld_int0 fs 13 = Some (fh_bmp_size h)
      /\ fld_int0 fs 14 = Some (fh_old_file_version h) /\ fld_str fs 15 = Some (str_value (fh_title h))
      /\ fld_str fs 16 = Some (str_value (fh_artist h)) /\ fld_str fs 17 = Some (str_value (fh_noter h))
      /\ fld_str fs 18 = Some (str_value (fh_ojm_file h)) /\ fld_int0 fs 19 = Some (fh_cover_size h)
      /\ fld_ints fs 20 = Some (fh_time h) /\ fld_ints fs 21 = Some (fh_note_offset h)
      /\ fld_int0 fs 22 = Some (fh_cover_offset h)
  | None => False
  end.
Proof.
  intros Hw Hpc. unfold wf_hdr, ilist_ok in *.
  repeat match goal with H : _ && _ = true |- _ => apply andb_true_iff in H as [? ?] end.
  repeat match goal with H : (length _ =? _)%nat = true |- _ => apply Nat.eqb_eq in H end.
  repeat match goal with H : (length _ <=? _)%nat = true |- _ => apply Nat.leb_le in H end.
  repeat match goal with H : str_ok _ _ = true |- _ => apply str_ok_bytes in H as (? & ? & ?) end.
  assert (Elay : ref_layout = map row (hdr_fields h pc)).
  { unfold hdr_fields. cbn [map]. unfold row. cbn [f_fmt f_sz f_vals]. rewrite !map_length.
    repeat (rewrite pad_length by assumption).
    repeat match goal with H : length _ = _ |- _ => rewrite H end. reflexivity. }
  rewrite Elay, encode_header_fields.
  change 0 with (Z.of_nat (length (@nil Z))). rewrite <- (app_nil_l (flat_map encf (hdr_fields h pc) ++ post)).
  rewrite read_fields_enc.
  - unfold hdr_fields. cbn [map f_vals fld_int0 fld_float0 fld_ints fld_bytes fld_str fld nth_error dec_fval as_int as_float].
    rewrite !all_some_i32, !all_some_i16, !all_some_b. unfold fld_str, fld_bytes, fld. cbn [nth_error].
    rewrite !all_some_b. cbn [option_map].
    rewrite !decode_replace_pad by assumption. repeat split; reflexivity.
  - unfold hdr_fields. repeat apply Forall_cons; try apply Forall_nil;
      unfold field_ok; cbn [f_fmt f_sz f_vals]; (split; [|split; [|lia]]);
      try (apply uniform_i32; assumption); try (apply uniform_i16; assumption);
      try (apply uniform_b; apply bytes_ok_pad; assumption);
      try (constructor; [cbn [fval_ok fval_fmt fval_size]; repeat split; assumption|constructor]);
      try discriminate;
      try (intro C; apply (f_equal (@length _)) in C; rewrite map_length in C;
           try rewrite pad_length in C by assumption; cbn [length] in C; congruence).
Qed.

(* ojn_header_decodes: field extraction = layout, for every well-formed header, whatever follows the 300 bytes *)
Theorem ojn_header_decodes : Tables.c07.layout = ref_layout ->
  forall h pc post, wf_hdr h = true -> ilist_ok 3 pc = true ->
  read_meta (encode_header h pc ++ post) = denote_hdr h pc.
Proof.
  intros L h pc post Hw Hpc. unfold read_meta. rewrite L.
  pose proof (ojn_header_decodes_ref h pc post Hw Hpc) as R.
  destruct (read_fields ref_layout (encode_header h pc ++ post) 0) as [fs|]; [|contradiction].
  destruct R as (E0 & E1 & E2 & E3 & E4 & E5 & E6 & E7 & E8 & E9 & E10 & E11 & E12 & E13 & E14 & E15 & E16
                 & E17 & E18 & E19 & E20 & E21 & E22).
  rewrite E0, E1, E2, E3, E4, E5, E6, E7, E8, E9, E10, E11, E12, E13, E14, E15, E16, E17, E18, E19, E20, E21, E22.
  unfold denote_hdr. unfold wf_hdr in Hw.
  repeat match goal with H : _ && _ = true |- _ => apply andb_true_iff in H as [? ?] end.
  repeat match goal with H : f32_finite _ = true |- _ => apply f32_finite_some in H as [? _] end.
  repeat match goal with H : f32_of_bits _ = Some _ |- _ => rewrite H; clear H end.
  reflexivity.
Qed.

Lemma encode_header_length h pc : wf_hdr h = true -> ilist_ok 3 pc = true -> length (encode_header h pc) = 300%nat.
Proof.
  intros Hw Hpc. unfold wf_hdr, ilist_ok in *.
  repeat match goal with H : _ && _ = true |- _ => apply andb_true_iff in H as [? ?] end.
  repeat match goal with H : (length _ =? _)%nat = true |- _ => apply Nat.eqb_eq in H end.
  repeat match goal with H : (length _ <=? _)%nat = true |- _ => apply Nat.leb_le in H end.
  repeat match goal with H : str_ok _ _ = true |- _ => apply str_ok_bytes in H as (? & ? & ?) end.
  unfold encode_header. rewrite !app_length.
  repeat (rewrite pad_length by assumption).
  assert (F32 : forall l, length (flat_map enc_int32 l) = (4 * length l)%nat).
  { induction l; cbn [flat_map length]; [reflexivity|]. rewrite app_length, IHl. cbn. lia. }
  assert (F16 : forall l, length (flat_map enc_int16 l) = (2 * length l)%nat).
  { induction l; cbn [flat_map length]; [reflexivity|]. rewrite app_length, IHl. cbn. lia. }
  rewrite !F32, !F16.
  repeat match goal with H : length _ = _ |- _ => rewrite H end.
  reflexivity.
Qed.
