(* C03: the grid of one written measure contains exactly the placed notes (fill_lines), cell by cell. *)
From Coq Require Import String ZArith QArith List Bool Lia.
From RV Require Import Base.PyNum Timing.Snapper Timing.Snap Timing.TimingMap Timing.Reseat Formats.SMText Formats.SM.
Import ListNotations.

Lemma replace_at_length {A} (i : nat) (x : A) l : length (replace_at i x l) = length l.
Proof. revert i. induction l as [|y l IH]; intros [|i]; simpl; auto. Qed.
Lemma replace_at_same {A} (i : nat) (x : A) l : (i < length l)%nat -> nth_error (replace_at i x l) i = Some x.
Proof. revert i. induction l as [|y l IH]; intros [|i] H; simpl in *; try lia; auto. apply IH. lia. Qed.
Lemma replace_at_other {A} (i j : nat) (x : A) l : i <> j -> nth_error (replace_at i x l) j = nth_error l j.
Proof. revert i j. induction l as [|y l IH]; intros [|i] [|j] H; simpl; auto; try congruence. Qed.

Definition cell (lines : list (list Z)) (r c : nat) : option Z :=
  match nth_error lines r with Some ln => nth_error ln c | None => None end.
Definition rect (w : nat) (lines : list (list Z)) : Prop := Forall (fun ln => length ln = w) lines.

Lemma rect_replace w lines r ln : rect w lines -> length ln = w -> rect w (replace_at r ln lines).
Proof.
  unfold rect. intros H Hl. revert r. induction H as [|y l Hy H IH]; intros [|r]; simpl; constructor; auto.
Qed.
Lemma rect_nth w lines r ln : rect w lines -> nth_error lines r = Some ln -> length ln = w.
Proof. unfold rect. intros H N. rewrite Forall_forall in H. apply H. eapply nth_error_In; eauto. Qed.

(* one assignment lines[row][col] = ch with 0 <= col < keys on a keys-wide grid *)
Lemma set_cell_spec lines row col keys ch lines' :
  rect (Z.to_nat keys) lines -> (0 <= row)%Z -> (0 <= col < keys)%Z ->
  set_cell lines row col keys ch = Some lines' ->
  rect (Z.to_nat keys) lines' /\ length lines' = length lines /\
  cell lines' (Z.to_nat row) (Z.to_nat col) = Some ch /\
  forall r c, (r, c) <> (Z.to_nat row, Z.to_nat col) -> cell lines' r c = cell lines r c.
Proof.
  intros R Hr Hc H. unfold set_cell in H.
  destruct (Z.ltb_spec col 0); try lia.
  destruct (Z.ltb_spec col 0); try lia. destruct (Z.leb_spec keys col); try lia. cbn [orb] in H.
  destruct (nth_error lines (Z.to_nat row)) as [ln|] eqn:N; try discriminate. inversion H; subst lines'. clear H.
  pose proof (rect_nth _ _ _ _ R N) as Ll.
  assert (Hrow : (Z.to_nat row < length lines)%nat) by (apply nth_error_Some; congruence).
  split; [apply rect_replace; auto; rewrite replace_at_length; exact Ll|].
  split; [apply replace_at_length|]. split.
  - unfold cell. rewrite replace_at_same by exact Hrow. apply replace_at_same. rewrite Ll. lia.
  - intros r c Hne. unfold cell. destruct (Nat.eq_dec (Z.to_nat row) r) as [<-|Hd].
    + rewrite replace_at_same by exact Hrow. rewrite N. apply replace_at_other. intro E. apply Hne. subst c. reflexivity.
    + rewrite replace_at_other by exact Hd. reflexivity.
Qed.

Definition prow (dm : Z) (p : placed) : nat := Z.to_nat (p_num p * dm / p_den p).
Definition pcol (p : placed) : nat := Z.to_nat (p_col p).
Definition placed_ok (dm keys : Z) (p : placed) : Prop :=
  (0 <= p_num p)%Z /\ (0 < p_den p)%Z /\ (0 <= dm)%Z /\ (0 <= p_col p < keys)%Z.

(* the measure's grid after all assignments: every placed note is in its cell, every other cell is untouched,
   provided no two notes share a cell (the domain's no-collision condition) *)
Theorem fill_lines_cells (dm keys : Z) (g : list placed) : forall lines lines',
  rect (Z.to_nat keys) lines -> Forall (placed_ok dm keys) g ->
  NoDup (map (fun p => (prow dm p, pcol p)) g) ->
  fill_lines lines g dm keys = Some lines' ->
  rect (Z.to_nat keys) lines' /\ length lines' = length lines /\
  (forall p, In p g -> cell lines' (prow dm p) (pcol p) = Some (p_char p)) /\
  (forall r c, (forall p, In p g -> (r, c) <> (prow dm p, pcol p)) -> cell lines' r c = cell lines r c).
Proof.
  induction g as [|p g IH]; intros lines lines' R Hok Hnd H; cbn [fill_lines] in H.
  - inversion H; subst. repeat split; auto. intros p [].
  - destruct (set_cell lines (p_num p * dm / p_den p) (p_col p) keys (p_char p)) as [l1|] eqn:S; try discriminate.
    inversion Hok as [|? ? Hp Hg]; subst. inversion Hnd as [|? ? Hnin Hnd']; subst.
    destruct Hp as (Hn & Hd & Hdm & Hc).
    assert (Hrow : (0 <= p_num p * dm / p_den p)%Z) by (apply Z.div_pos; [apply Z.mul_nonneg_nonneg|]; lia).
    destruct (set_cell_spec _ _ _ _ _ _ R Hrow Hc S) as (R1 & L1 & C1 & O1).
    destruct (IH l1 lines' R1 Hg Hnd' H) as (R2 & L2 & C2 & O2).
    split; [exact R2|]. split; [congruence|]. split.
    + intros q [<-|Hq].
      * rewrite O2. exact C1. intros q Hq E. apply Hnin. apply in_map_iff. exists q. split; [symmetry; exact E|exact Hq].
      * apply C2. exact Hq.
    + intros r c Hne. rewrite O2 by (intros q Hq; apply Hne; right; exact Hq). apply O1. apply Hne. left. reflexivity.
Qed.

(* the all-'0' grid the writer starts from *)
Lemma blank_rect (k : Z) (n : nat) : rect (Z.to_nat k) (repeat (repeat 48%Z (Z.to_nat k)) n).
Proof. unfold rect. apply Forall_forall. intros x Hx. apply repeat_spec in Hx. subst. apply repeat_length. Qed.
Lemma blank_cell (k : Z) (n r c : nat) : (r < n)%nat -> (c < Z.to_nat k)%nat ->
  cell (repeat (repeat 48%Z (Z.to_nat k)) n) r c = Some 48%Z.
Proof.
  intros Hr Hc. unfold cell.
  assert (E : forall {A} (x : A) m i, (i < m)%nat -> nth_error (repeat x m) i = Some x).
  { intros A x m. induction m; intros [|i] Hi; simpl; try lia; auto. apply IHm. lia. }
  rewrite (E _ _ n r Hr). apply E. exact Hc.
Qed.

(* a written measure: den_max rows, keys wide; each placed note's symbol at (row, column); '0' everywhere else *)
Corollary written_measure_cells (dm keys : Z) (g : list placed) lines' :
  Forall (placed_ok dm keys) g -> NoDup (map (fun p => (prow dm p, pcol p)) g) ->
  fill_lines (repeat (repeat 48%Z (Z.to_nat keys)) (Z.to_nat dm)) g dm keys = Some lines' ->
  length lines' = Z.to_nat dm /\ rect (Z.to_nat keys) lines' /\
  (forall p, In p g -> cell lines' (prow dm p) (pcol p) = Some (p_char p)) /\
  (forall r c, (r < Z.to_nat dm)%nat -> (c < Z.to_nat keys)%nat ->
               (forall p, In p g -> (r, c) <> (prow dm p, pcol p)) -> cell lines' r c = Some 48%Z).
Proof.
  intros Hok Hnd H.
  destruct (fill_lines_cells dm keys g _ lines' (blank_rect keys _) Hok Hnd H) as (R & L & C & O).
  rewrite repeat_length in L. split; [exact L|]. split; [exact R|]. split; [exact C|].
  intros r c Hr Hc Hne. rewrite (O r c Hne). apply blank_cell; assumption.
Qed.
