(* C15, part 5: the writers.  The document written from a chart whose lists have their rows permuted has, section by
   section, the same MULTISET of lines / records, and therefore (the formats' reference denotations read those
   sections element by element) denotes the same multiset of objects.
     A. osu!      (Formats/Osu.v, OsuSpec.v)       - for ALL charts
     B. Quaver    (Formats/Qua.v, QuaSpec.v)       - for ALL charts and default tables, through qua_denote
     C. StepMania (Formats/SM.v), the grid half    - see the section header *)
From Coq Require Import String.
From Coq Require Import ZArith QArith Qround List Bool Sorting.Permutation Sorting.Sorted Lia.
From RV Require Import Base.PyNum Base.Text.
From RV Require Formats.Osu Formats.OsuSpec Formats.Qua Formats.QuaSpec.
From RV Require Timing.Snapper Timing.Snap Timing.TimingMap Timing.Reseat Timing.Domain2 Formats.SMText Formats.SM
  Proofs.TimingProofs Proofs.TimingProofs2 Proofs.PermProofs2.
Import ListNotations.

(* ================================================================== generic: reading a section element by element *)
Section OmapPerm.
  Context {A B : Type} (omap : (A -> option B) -> list A -> option (list B)).
  Hypothesis omap_cons : forall f x l, omap f (x :: l) =
    match f x, omap f l with Some y, Some r => Some (y :: r) | _, _ => None end.

  Lemma gen_omap_perm f l l' : Permutation l l' -> forall r, omap f l = Some r ->
    exists r', omap f l' = Some r' /\ Permutation r r'.
  Proof.
    induction 1 as [|x l l' _ IH|x y l|l l' l'' _ IH1 _ IH2]; intros r H.
    - exists r. split; [exact H|apply Permutation_refl].
    - rewrite omap_cons in H. destruct (f x) as [y|] eqn:Ex; [|discriminate]. destruct (omap f l) as [t|] eqn:El; [|discriminate].
      injection H as <-. destruct (IH t eq_refl) as [t' [E P]]. exists (y :: t'). rewrite omap_cons, Ex, E. split; [reflexivity|constructor; exact P].
    - rewrite !omap_cons in H. destruct (f y) as [b|] eqn:Ey; [|discriminate]. destruct (f x) as [a|] eqn:Ex; [|discriminate].
      destruct (omap f l) as [t|] eqn:El; [|discriminate]. injection H as <-.
      exists (a :: b :: t). rewrite !omap_cons, Ex, Ey, El. split; [reflexivity|apply perm_swap].
    - destruct (IH1 r H) as [r1 [E1 P1]]. destruct (IH2 r1 E1) as [r2 [E2 P2]]. exists r2. split; [exact E2|eapply perm_trans; eassumption].
  Qed.
End OmapPerm.

Lemma perm_filter_w {A} (p : A -> bool) l l' : Permutation l l' -> Permutation (filter p l) (filter p l').
Proof.
  induction 1 as [|x l l' _ IH|x y l|l l' l'' _ IH1 _ IH2]; cbn [filter].
  - constructor.
  - destruct (p x); [constructor|]; exact IH.
  - destruct (p x), (p y); try apply Permutation_refl. apply perm_swap.
  - eapply perm_trans; eassumption.
Qed.

(* ================================================================== A. osu! *)
Module OsuPerm.
Import Formats.Osu Formats.OsuSpec.
Open Scope Z_scope.

Definition chart_perm (c c' : chart) : Prop :=
  c_meta c = c_meta c' /\ c_bg c = c_bg c' /\ Permutation (c_samples c) (c_samples c')
  /\ Permutation (c_bpms c) (c_bpms c') /\ Permutation (c_svs c) (c_svs c')
  /\ Permutation (c_hits c) (c_hits c') /\ Permutation (c_holds c) (c_holds c').

(* the layout of a written file: fixed head (metadata, events), sample lines, the two list sections *)
Definition osu_doc (head sm bl sl : list wline) (nl : list text) : list wline :=
  (head ++ sm) ++ [[WT (NL :: TP_HEADER)]] ++ bl ++ sl ++ [[WT (NL :: NL :: HO_HEADER)]] ++ map (fun s => [WT s]) nl.

Definition head_of (c : chart) (ut ua : text) : list wline :=
  write_meta (mkChart (c_meta c) (c_bg c) [] [] [] [] []) ut ua.

Lemma write_meta_split c ut ua :
  write_meta c ut ua = head_of c ut ua ++ map (fun x => [WT (write_sample x)]) (c_samples c).
Proof. unfold head_of, write_meta. cbn [c_meta c_bg c_samples map]. rewrite app_nil_r. reflexivity. Qed.

Lemma omap_perm_osu {A B} (f : A -> option B) l l' : Permutation l l' -> forall r, Osu.omap f l = Some r ->
  exists r', Osu.omap f l' = Some r' /\ Permutation r r'.
Proof.
  apply (gen_omap_perm (@Osu.omap A B)). intros g x t. cbn [Osu.omap]. unfold obind.
  destruct (g x); [|reflexivity]. destruct (Osu.omap g t); reflexivity.
Qed.

Lemma insert_by_off_perm x l : Permutation (insert_by_off x l) (x :: l).
Proof.
  induction l as [|y l IH]; cbn [insert_by_off]; [apply Permutation_refl|].
  destruct (Qlt_bool (n_off (snd y)) (n_off (snd x))); [|apply Permutation_refl].
  apply perm_trans with (y :: x :: l); [apply perm_skip; exact IH|apply perm_swap].
Qed.
Lemma sort_by_off_perm l : Permutation (sort_by_off l) l.
Proof.
  unfold sort_by_off. induction l as [|x l IH]; cbn [fold_right]; [constructor|].
  apply perm_trans with (x :: fold_right insert_by_off [] l); [apply insert_by_off_perm|apply perm_skip; exact IH].
Qed.

Lemma write_notes_perm c c' k : Permutation (c_hits c) (c_hits c') -> Permutation (c_holds c) (c_holds c') ->
  Permutation (write_notes c k) (write_notes c' k).
Proof.
  intros Hh Hl. unfold write_notes. apply Permutation_map.
  eapply perm_trans; [apply sort_by_off_perm|]. eapply perm_trans; [|apply Permutation_sym, sort_by_off_perm].
  apply Permutation_app; apply Permutation_map; assumption.
Qed.

(* the note lines are written in non-decreasing time order whatever the row order *)
Fixpoint sorted_off (l : list (bool * note)) : Prop :=
  match l with [] => True | x :: t => (forall y, In y t -> (n_off (snd x) <= n_off (snd y))%Q) /\ sorted_off t end.
Lemma insert_by_off_sorted x l : sorted_off l -> sorted_off (insert_by_off x l).
Proof.
  induction l as [|y l IH]; cbn [insert_by_off sorted_off]; intro H; [split; [intros ? []|exact I]|].
  destruct H as [H1 H2]. destruct (Qlt_bool (n_off (snd y)) (n_off (snd x))) eqn:E.
  - apply Qlt_bool_iff in E. cbn [sorted_off]. split; [|apply IH; exact H2]. intros z Hz.
    apply (Permutation_in _ (insert_by_off_perm x l)) in Hz. destruct Hz as [<-|Hz]; [apply Qlt_le_weak; exact E|apply H1; exact Hz].
  - apply Qlt_bool_false in E. cbn [sorted_off]. split; [|split; assumption].
    intros z [<-|Hz]; [exact E|]. eapply Qle_trans; [exact E|apply H1; exact Hz].
Qed.
Lemma sort_by_off_sorted l : sorted_off (sort_by_off l).
Proof. unfold sort_by_off. induction l as [|x l IH]; cbn [fold_right]; [exact I|]. apply insert_by_off_sorted. exact IH. Qed.

(* MAIN (osu): same head, and section by section the same multiset of lines *)
Theorem osu_write_perm c c' ut ua d : chart_perm c c' -> osu_write c ut ua = Some d ->
  exists sm bl sl nl sm' bl' sl' nl',
    d = osu_doc (head_of c ut ua) sm bl sl nl
    /\ osu_write c' ut ua = Some (osu_doc (head_of c ut ua) sm' bl' sl' nl')
    /\ Permutation sm sm' /\ Permutation bl bl' /\ Permutation sl sl' /\ Permutation nl nl'.
Proof.
  intros (Hm & Hg & Hs & Hb & Hv & Hh & Hl) H. unfold osu_write in *. rewrite <- Hm.
  destruct (Osu.omap write_bpm (c_bpms c)) as [bl|] eqn:Eb; [|discriminate]. cbn [obind] in H |- *.
  destruct (omap_perm_osu _ _ _ Hb _ Eb) as [bl' [Eb' Pb]]. rewrite Eb'. cbn [obind].
  destruct (Osu.omap write_sv (c_svs c)) as [sl|] eqn:Es; [|discriminate]. cbn [obind] in H |- *.
  destruct (omap_perm_osu _ _ _ Hv _ Es) as [sl' [Es' Ps]]. rewrite Es'. cbn [obind].
  assert (Ee: match c_holds c', c_hits c' with [], [] => true | _, _ => false end
              = match c_holds c, c_hits c with [], [] => true | _, _ => false end).
  { destruct (c_holds c) as [|a t], (c_holds c') as [|a' t']; try (apply Permutation_nil in Hl; discriminate);
      try (apply Permutation_sym, Permutation_nil in Hl; discriminate);
      destruct (c_hits c) as [|b u], (c_hits c') as [|b' u']; try reflexivity;
      try (apply Permutation_nil in Hh; discriminate); try (apply Permutation_sym, Permutation_nil in Hh; discriminate). }
  rewrite Ee. destruct ((qtrunc (meta_num (c_meta c) IX_CS) <=? 0) && negb _); [discriminate|]. injection H as <-.
  exists (map (fun x => [WT (write_sample x)]) (c_samples c)), bl, sl, (write_notes c (qtrunc (meta_num (c_meta c) IX_CS))),
         (map (fun x => [WT (write_sample x)]) (c_samples c')), bl', sl', (write_notes c' (qtrunc (meta_num (c_meta c) IX_CS))).
  unfold osu_doc. rewrite !write_meta_split. unfold head_of. rewrite <- Hm, <- Hg.
  split; [reflexivity|]. split; [reflexivity|]. split; [apply Permutation_map; exact Hs|]. split; [exact Pb|]. split; [exact Ps|].
  apply write_notes_perm; assumption.
Qed.

(* the reference denotation reads the two list sections line by line: a section whose (rendered) lines are permuted
   denotes the permuted objects - for ANY line-wise rendering [rn] of the numeric tokens *)
Lemma pick_bpms_perm l l' : Permutation l l' -> Permutation (pick_bpms l) (pick_bpms l').
Proof.
  induction 1 as [|x l l' _ IH|x y l|l l' l'' _ IH1 _ IH2]; cbn [pick_bpms]; try constructor.
  - destruct x; [constructor|]; exact IH.
  - destruct x, y; try apply Permutation_refl. apply perm_swap.
  - eapply perm_trans; eassumption.
Qed.
Lemma pick_svs_perm l l' : Permutation l l' -> Permutation (pick_svs l) (pick_svs l').
Proof.
  induction 1 as [|x l l' _ IH|x y l|l l' l'' _ IH1 _ IH2]; cbn [pick_svs]; try constructor.
  - destruct x; [|constructor]; exact IH.
  - destruct x, y; try apply Permutation_refl. apply perm_swap.
  - eapply perm_trans; eassumption.
Qed.
Lemma pick_hits_perm l l' : Permutation l l' -> Permutation (pick_hits l) (pick_hits l').
Proof.
  induction 1 as [|x l l' _ IH|x y l|l l' l'' _ IH1 _ IH2]; cbn [pick_hits]; try constructor.
  - destruct x; [constructor|]; exact IH.
  - destruct x, y; try apply Permutation_refl. apply perm_swap.
  - eapply perm_trans; eassumption.
Qed.
Lemma pick_holds_perm l l' : Permutation l l' -> Permutation (pick_holds l) (pick_holds l').
Proof.
  induction 1 as [|x l l' _ IH|x y l|l l' l'' _ IH1 _ IH2]; cbn [pick_holds]; try constructor.
  - destruct x; [|constructor]; exact IH.
  - destruct x, y; try apply Permutation_refl. apply perm_swap.
  - eapply perm_trans; eassumption.
Qed.

Theorem osu_timing_section_denotes_perm (rn : wline -> text) bl sl bl' sl' tps :
  Permutation bl bl' -> Permutation sl sl' ->
  Osu.omap denote_tp (filter nonempty (map rn (bl ++ sl))) = Some tps ->
  exists tps', Osu.omap denote_tp (filter nonempty (map rn (bl' ++ sl'))) = Some tps'
    /\ Permutation (pick_bpms tps) (pick_bpms tps') /\ Permutation (pick_svs tps) (pick_svs tps').
Proof.
  intros Hb Hs H. assert (P: Permutation (filter nonempty (map rn (bl ++ sl))) (filter nonempty (map rn (bl' ++ sl')))).
  { apply perm_filter_w, Permutation_map, Permutation_app; assumption. }
  destruct (omap_perm_osu _ _ _ P _ H) as [tps' [E Pt]]. exists tps'. split; [exact E|].
  split; [apply pick_bpms_perm|apply pick_svs_perm]; exact Pt.
Qed.

Theorem osu_note_section_denotes_perm (rn : text -> text) keys nl nl' hos :
  Permutation nl nl' ->
  Osu.omap (denote_ho keys) (filter nonempty (map rn nl)) = Some hos ->
  exists hos', Osu.omap (denote_ho keys) (filter nonempty (map rn nl')) = Some hos'
    /\ Permutation (pick_hits hos) (pick_hits hos') /\ Permutation (pick_holds hos) (pick_holds hos').
Proof.
  intros Hn H. assert (P: Permutation (filter nonempty (map rn nl)) (filter nonempty (map rn nl'))).
  { apply perm_filter_w, Permutation_map. exact Hn. }
  destruct (omap_perm_osu _ _ _ P _ H) as [hos' [E Pt]]. exists hos'. split; [exact E|].
  split; [apply pick_hits_perm|apply pick_holds_perm]; exact Pt.
Qed.
End OsuPerm.

(* ================================================================== B. Quaver *)
Module QuaPerm.
Import Formats.Qua Formats.QuaSpec.
Open Scope Z_scope.

Definition frame_perm (f g : frame) : Prop := f_cols f = f_cols g /\ Permutation (f_rows f) (f_rows g).
Definition chart_perm (c c' : chart) : Prop :=
  frame_perm (c_hits c) (c_hits c') /\ frame_perm (c_holds c) (c_holds c') /\ frame_perm (c_bpms c) (c_bpms c')
  /\ frame_perm (c_svs c) (c_svs c') /\ c_meta c = c_meta c'.

Lemma omap_perm_qua {A B} (f : A -> option B) l l' : Permutation l l' -> forall r, Qua.omap f l = Some r ->
  exists r', Qua.omap f l' = Some r' /\ Permutation r r'.
Proof. apply (gen_omap_perm (@Qua.omap A B)). intros g x t. reflexivity. Qed.

Lemma omap_ext_qua {A B} (f g : A -> option B) l : (forall x, In x l -> f x = g x) -> Qua.omap f l = Qua.omap g l.
Proof.
  induction l as [|x l IH]; intro H; [reflexivity|]. cbn [Qua.omap]. rewrite (H x (or_introl eq_refl)), IH; [reflexivity|].
  intros y Hy. apply H. right. exact Hy.
Qed.

(* "if the left computation succeeds so does the right one, with a permuted result" *)
Definition ofr (x x' : option frame) : Prop := forall r, x = Some r -> exists r', x' = Some r' /\ frame_perm r r'.
Definition opl {A} (x x' : option (list A)) : Prop := forall r, x = Some r -> exists r', x' = Some r' /\ Permutation r r'.

Lemma ofr_some f f' : frame_perm f f' -> ofr (Some f) (Some f').
Proof. intros H r E. injection E as <-. exists f'. split; [reflexivity|exact H]. Qed.

Lemma bind_ofr (x x' : option frame) (k k' : frame -> option frame) :
  ofr x x' -> (forall a a', frame_perm a a' -> ofr (k a) (k' a')) -> ofr (x >>= k) (x' >>= k').
Proof.
  intros Hx Hk r E. destruct x as [a|]; [|discriminate]. destruct (Hx a eq_refl) as [a' [-> Pa]]. cbn [bind] in *.
  apply (Hk a a' Pa r E).
Qed.
Lemma bind_opl {A} (x x' : option frame) (k k' : frame -> option (list A)) :
  ofr x x' -> (forall a a', frame_perm a a' -> opl (k a) (k' a')) -> opl (x >>= k) (x' >>= k').
Proof.
  intros Hx Hk r E. destruct x as [a|]; [|discriminate]. destruct (Hx a eq_refl) as [a' [-> Pa]]. cbn [bind] in *.
  apply (Hk a a' Pa r E).
Qed.

Lemma fr_map_col_perm c g f f' : frame_perm f f' -> ofr (fr_map_col c g f) (fr_map_col c g f').
Proof.
  intros [Hc Hp] r E. unfold fr_map_col, fr_has in *. rewrite <- Hc. destruct (memZ c (f_cols f)); [|discriminate].
  destruct (Qua.omap (row_upd c g) (f_rows f)) as [rs|] eqn:Eo; [|discriminate]. injection E as <-.
  destruct (omap_perm_qua _ _ _ Hp _ Eo) as [rs' [-> P]]. eexists. split; [reflexivity|]. split; [reflexivity|exact P].
Qed.
Lemma fr_drop_perm c f f' : frame_perm f f' -> ofr (fr_drop c f) (fr_drop c f').
Proof.
  intros [Hc Hp] r E. unfold fr_drop, fr_has in *. rewrite <- Hc. destruct (memZ c (f_cols f)); [|discriminate].
  injection E as <-. eexists. split; [reflexivity|]. split; [reflexivity|]. cbn [f_rows]. apply Permutation_map. exact Hp.
Qed.
Lemma fr_set_col_perm c g f f' : frame_perm f f' -> ofr (fr_set_col c g f) (fr_set_col c g f').
Proof.
  intros [Hc Hp] r E. unfold fr_set_col, fr_has in *. rewrite <- Hc.
  match type of E with match Qua.omap ?h _ with _ => _ end = _ => destruct (Qua.omap h (f_rows f)) as [rs|] eqn:Eo; [|discriminate];
    destruct (omap_perm_qua h _ _ Hp _ Eo) as [rs' [-> P]] end.
  injection E as <-. eexists. split; [reflexivity|]. split; [reflexivity|exact P].
Qed.
Lemma fr_rename_perm ren f f' : frame_perm f f' -> frame_perm (fr_rename ren f) (fr_rename ren f').
Proof. intros [Hc Hp]. unfold fr_rename. split; cbn [f_cols f_rows]; [rewrite Hc; reflexivity|apply Permutation_map; exact Hp]. Qed.

Lemma rows_opl f f' : frame_perm f f' -> opl (Some (f_rows f)) (Some (f_rows f')).
Proof. intros [_ Hp] r E. injection E as <-. eexists. split; [reflexivity|exact Hp]. Qed.

Lemma bpms_to_yaml_perm f f' : frame_perm f f' -> opl (bpms_to_yaml f) (bpms_to_yaml f').
Proof.
  intro H. unfold bpms_to_yaml. apply bind_opl; [apply bind_ofr; [apply fr_map_col_perm; exact H|intros; apply fr_map_col_perm; assumption]|].
  intros a a' Pa. apply bind_opl; [apply fr_drop_perm, fr_rename_perm; exact Pa|]. intros; apply rows_opl; assumption.
Qed.
Lemma svs_to_yaml_perm f f' : frame_perm f f' -> opl (svs_to_yaml f) (svs_to_yaml f').
Proof.
  intro H. unfold svs_to_yaml. apply bind_opl; [apply bind_ofr; [apply fr_map_col_perm; exact H|intros; apply fr_map_col_perm; assumption]|].
  intros a a' Pa. apply rows_opl, fr_rename_perm. exact Pa.
Qed.
Lemma hits_to_yaml_perm f f' : frame_perm f f' -> opl (hits_to_yaml f) (hits_to_yaml f').
Proof.
  intro H. unfold hits_to_yaml. apply bind_opl.
  - apply bind_ofr; [apply bind_ofr; [apply fr_map_col_perm; exact H|]|]; intros; apply fr_map_col_perm; assumption.
  - intros a a' Pa. apply rows_opl, fr_rename_perm. exact Pa.
Qed.
Lemma holds_to_yaml_perm f f' : frame_perm f f' -> opl (holds_to_yaml f) (holds_to_yaml f').
Proof.
  intro H. unfold holds_to_yaml. apply bind_opl.
  - repeat (apply bind_ofr; [|intros; first [apply fr_map_col_perm|apply fr_drop_perm]; assumption]).
    apply fr_set_col_perm. exact H.
  - intros a a' Pa. apply rows_opl, fr_rename_perm. exact Pa.
Qed.

Definition qua_doc (file : row) (b s n : list row) : ytree :=
  YMap (file ++ [(K_TimingPoints, YList (map YMap b)); (K_SliderVelocities, YList (map YMap s)); (K_HitObjects, YList (map YMap n))]).

(* the written document: same metadata entries, the three lists are permutations *)
Theorem qua_write_shape md c c' d : chart_perm c c' -> qua_write md c = Some d ->
  exists file b s n b' s' n', d = qua_doc file b s n /\ qua_write md c' = Some (qua_doc file b' s' n')
    /\ Permutation b b' /\ Permutation s s' /\ Permutation n n'.
Proof.
  intros (Hh & Hl & Hb & Hs & Hm) H. unfold qua_write in *. rewrite <- Hm.
  destruct (write_meta md (c_meta c)) as [file|]; [|discriminate]. cbn [bind] in *.
  destruct (bpms_to_yaml (c_bpms c)) as [b|] eqn:Eb; [|discriminate]. destruct (bpms_to_yaml_perm _ _ Hb b Eb) as [b' [-> Pb]].
  cbn [bind] in *.
  destruct (svs_to_yaml (c_svs c)) as [s|] eqn:Es; [|discriminate]. destruct (svs_to_yaml_perm _ _ Hs s Es) as [s' [-> Ps]].
  cbn [bind] in *.
  destruct (hits_to_yaml (c_hits c)) as [h|] eqn:Eh; [|discriminate]. destruct (hits_to_yaml_perm _ _ Hh h Eh) as [h' [-> Ph]].
  cbn [bind] in *.
  destruct (holds_to_yaml (c_holds c)) as [l|] eqn:El; [|discriminate]. destruct (holds_to_yaml_perm _ _ Hl l El) as [l' [-> Pl]].
  cbn [bind] in *. injection H as <-.
  exists file, b, s, (h ++ l), b', s', (h' ++ l'). unfold qua_doc. repeat split; auto. apply Permutation_app; assumption.
Qed.

Lemma assoc_app {A} k (l1 l2 : list (Z * A)) :
  assoc k (l1 ++ l2) = match assoc k l1 with Some v => Some v | None => assoc k l2 end.
Proof. induction l1 as [|[k' v] l1 IH]; cbn [app assoc]; [reflexivity|]. destruct (k =? k'); [reflexivity|exact IH]. Qed.

Lemma section_denote_perm {A} (f : ytree -> option A) k (file : row) (b s n b' s' n' : list row) :
  Permutation b b' -> Permutation s s' -> Permutation n n' ->
  opl (section_denote f k (file ++ [(K_TimingPoints, YList (map YMap b)); (K_SliderVelocities, YList (map YMap s)); (K_HitObjects, YList (map YMap n))]))
      (section_denote f k (file ++ [(K_TimingPoints, YList (map YMap b')); (K_SliderVelocities, YList (map YMap s')); (K_HitObjects, YList (map YMap n'))])).
Proof.
  intros Pb Ps Pn r E. unfold section_denote in *. rewrite assoc_app in *. destruct (assoc k file) as [v|].
  - exists r. split; [exact E|apply Permutation_refl].
  - cbn [assoc] in *. destruct (k =? K_TimingPoints); [apply (omap_perm_qua f _ _ (Permutation_map YMap Pb) r E)|].
    destruct (k =? K_SliderVelocities); [apply (omap_perm_qua f _ _ (Permutation_map YMap Ps) r E)|].
    destruct (k =? K_HitObjects); [apply (omap_perm_qua f _ _ (Permutation_map YMap Pn) r E)|discriminate].
Qed.

Lemma ref_keys_not_sections : forall kt, In kt ref_meta_table ->
  (fst kt =? K_TimingPoints) = false /\ (fst kt =? K_SliderVelocities) = false /\ (fst kt =? K_HitObjects) = false.
Proof.
  assert (H: forallb (fun kt : Z * Z => negb (fst kt =? K_TimingPoints) && negb (fst kt =? K_SliderVelocities) && negb (fst kt =? K_HitObjects))
                     ref_meta_table = true) by (vm_compute; reflexivity).
  rewrite forallb_forall in H. intros kt Hin. specialize (H kt Hin).
  apply andb_true_iff in H. destruct H as [H H3]. apply andb_true_iff in H. destruct H as [H1 H2].
  apply negb_true_iff in H1, H2, H3. auto.
Qed.

(* MAIN (Quaver): the document written from the permuted chart exists and DENOTES (qua_denote) the same multisets of
   notes, timing points and scroll velocities and the same metadata - every chart, every default table *)
Theorem qua_write_perm md c c' d : chart_perm c c' -> qua_write md c = Some d ->
  exists d', qua_write md c' = Some d'
    /\ forall e, qua_denote d = Some e ->
         exists e', qua_denote d' = Some e' /\ Permutation (d_notes e) (d_notes e') /\ Permutation (d_bpms e) (d_bpms e')
                    /\ Permutation (d_svs e) (d_svs e') /\ d_meta e = d_meta e'.
Proof.
  intros Hc H. destruct (qua_write_shape md c c' d Hc H) as (file & b & s & n & b' & s' & n' & -> & E' & Pb & Ps & Pn).
  eexists. split; [exact E'|]. intros e He. unfold qua_doc, qua_denote in *.
  set (secs := [(K_TimingPoints, YList (map YMap b)); (K_SliderVelocities, YList (map YMap s)); (K_HitObjects, YList (map YMap n))]) in *.
  set (secs' := [(K_TimingPoints, YList (map YMap b')); (K_SliderVelocities, YList (map YMap s')); (K_HitObjects, YList (map YMap n'))]).
  destruct (section_denote note_denote K_HitObjects (file ++ secs)) as [dn|] eqn:E1; [|discriminate].
  destruct (section_denote (point_denote K_Bpm 120%Q) K_TimingPoints (file ++ secs)) as [db|] eqn:E2; [|discriminate].
  destruct (section_denote (point_denote K_Multiplier 1%Q) K_SliderVelocities (file ++ secs)) as [ds|] eqn:E3; [|discriminate].
  destruct (meta_denote (file ++ secs)) as [dm|] eqn:E4; [|discriminate]. injection He as <-.
  destruct (section_denote_perm note_denote K_HitObjects file b s n b' s' n' Pb Ps Pn dn E1) as [dn' [F1 Q1]].
  destruct (section_denote_perm (point_denote K_Bpm 120%Q) K_TimingPoints file b s n b' s' n' Pb Ps Pn db E2) as [db' [F2 Q2]].
  destruct (section_denote_perm (point_denote K_Multiplier 1%Q) K_SliderVelocities file b s n b' s' n' Pb Ps Pn ds E3) as [ds' [F3 Q3]].
  fold secs' in F1, F2, F3. rewrite F1, F2, F3.
  assert (F4: meta_denote (file ++ secs') = Some dm).
  { rewrite <- E4. unfold meta_denote. apply omap_ext_qua. intros [k ty] Hin.
    destruct (ref_keys_not_sections (k, ty) Hin) as (N1 & N2 & N3). cbn [fst] in *.
    rewrite !assoc_app. destruct (assoc k file); [reflexivity|]. unfold secs, secs'. cbn [assoc]. rewrite N1, N2, N3. reflexivity. }
  rewrite F4. eexists. split; [reflexivity|]. cbn [d_notes d_bpms d_svs d_meta]. auto.
Qed.
End QuaPerm.

(* ================================================================== C. StepMania: the grid half of SMMap.write
   chart_body = (events -> beats by TimingMap.beats) ; (beats -> measure grids by place / write_measures).
   C.1  For ALL placed-event lists: the measure texts do not depend on the order of the events, as long as events with
        DIFFERENT characters keep their relative order (char-stable permutation) - which is what permuting the rows inside
        each list of a chart gives, because SMMap.write emits the lists in a fixed order.  No "no two notes in one cell"
        condition is needed: equal characters written to one cell commute, different characters keep their order.
        Includes: the row count of a measure (lcm of the denominators, capped at MAX_SNAP, folded left to right with the
        cap applied at every step) does not depend on the order.
   C.2  Whole chart body, CONDITIONAL on the cumulative beat of an event being a function of its time (C10_beats proves
        that, up to ==, for constant metronomes; for mixed metronomes TimingMap.beats really depends on which other
        queries are present, not on their order).  Tempo rows in any order by C10's any-order theorem. *)
Module SMPerm.
Import Timing.Snapper Timing.Snap Timing.TimingMap Timing.Reseat Timing.Domain2 Formats.SMText Formats.SM
  Proofs.TimingProofs Proofs.TimingProofs2 Proofs.PermProofs2.
Open Scope Z_scope.

(* ---- replace_at *)
Lemma ra_length {A} (i : nat) (x : A) l : length (replace_at i x l) = length l.
Proof. revert i. induction l as [|y l IH]; intros [|i]; simpl; auto. Qed.
Lemma ra_same {A} (i : nat) (x : A) l : (i < length l)%nat -> nth_error (replace_at i x l) i = Some x.
Proof. revert i. induction l as [|y l IH]; intros [|i] H; simpl in *; try lia; auto. apply IH. lia. Qed.
Lemma ra_other {A} (i j : nat) (x : A) l : i <> j -> nth_error (replace_at i x l) j = nth_error l j.
Proof. revert i j. induction l as [|y l IH]; intros [|i] [|j] H; simpl; auto; try congruence. Qed.
Lemma ra_twice {A} (i : nat) (x y : A) l : replace_at i x (replace_at i y l) = replace_at i x l.
Proof. revert i. induction l as [|z l IH]; intros [|i]; simpl; auto. rewrite IH. reflexivity. Qed.
Lemma ra_comm {A} (i j : nat) (x y : A) l : i <> j -> replace_at i x (replace_at j y l) = replace_at j y (replace_at i x l).
Proof. revert i j. induction l as [|z l IH]; intros [|i] [|j] H; simpl; auto; try congruence. rewrite IH by congruence. reflexivity. Qed.
Lemma ra_comm_same {A} (i j : nat) (x : A) l : replace_at i x (replace_at j x l) = replace_at j x (replace_at i x l).
Proof. destruct (Nat.eq_dec i j) as [->|N]; [reflexivity|apply ra_comm; exact N]. Qed.

(* ---- one assignment lines[row][col] = ch *)
Definition norm_col (col keys : Z) : option nat :=
  let c := if col <? 0 then col + keys else col in
  if (c <? 0) || (keys <=? c) then None else Some (Z.to_nat c).
Definition upd (lines : list (list Z)) (R C : nat) (ch : Z) : option (list (list Z)) :=
  match nth_error lines R with None => None | Some ln => Some (replace_at R (replace_at C ch ln) lines) end.

Lemma set_cell_upd lines row col keys ch :
  set_cell lines row col keys ch = match norm_col col keys with None => None | Some C => upd lines (Z.to_nat row) C ch end.
Proof. unfold set_cell, norm_col, upd. destruct ((_ <? 0) || _); reflexivity. Qed.

Lemma nth_error_None_len {A} (l : list A) i : nth_error l i = None <-> (length l <= i)%nat.
Proof. apply nth_error_None. Qed.

Lemma upd_comm lines R1 C1 R2 C2 ch :
  match upd lines R1 C1 ch with Some L => upd L R2 C2 ch | None => None end
  = match upd lines R2 C2 ch with Some L => upd L R1 C1 ch | None => None end.
Proof.
  unfold upd. destruct (nth_error lines R1) as [l1|] eqn:E1, (nth_error lines R2) as [l2|] eqn:E2.
  - destruct (Nat.eq_dec R1 R2) as [<-|N].
    + assert (l2 = l1) by congruence. subst l2.
      assert (Hlt: (R1 < length lines)%nat) by (apply nth_error_Some; congruence).
      rewrite !ra_same by exact Hlt. rewrite !ra_twice, ra_comm_same. reflexivity.
    + assert (N': R2 <> R1) by (intro; apply N; symmetry; assumption).
      rewrite (ra_other R1 R2) by exact N. rewrite E2. rewrite (ra_other R2 R1) by exact N'. rewrite E1.
      rewrite (ra_comm R2 R1) by exact N'. reflexivity.
  - assert (N: R1 <> R2) by (intro; subst; congruence). rewrite ra_other by exact N. rewrite E2. reflexivity.
  - assert (N: R2 <> R1) by (intro; subst; congruence). rewrite ra_other by exact N. rewrite E1. reflexivity.
  - reflexivity.
Qed.

(* ---- filling one measure's grid *)
Definition prow (dm : Z) (p : placed) : nat := Z.to_nat (p_num p * dm / p_den p).
Definition step (dm keys : Z) (L : option (list (list Z))) (p : placed) : option (list (list Z)) :=
  match L with None => None | Some l => set_cell l (p_num p * dm / p_den p) (p_col p) keys (p_char p) end.

Lemma fold_step_none dm keys g : fold_left (step dm keys) g None = None.
Proof. induction g as [|p g IH]; [reflexivity|exact IH]. Qed.
Lemma fill_lines_fold dm keys : forall g lines, fill_lines lines g dm keys = fold_left (step dm keys) g (Some lines).
Proof.
  induction g as [|p g IH]; intro lines; cbn [fill_lines fold_left step]; [reflexivity|].
  destruct (set_cell lines _ _ keys _) as [l'|]; [apply IH|symmetry; apply fold_step_none].
Qed.

Lemma step_comm dm keys L x y : p_char x = p_char y -> step dm keys (step dm keys L x) y = step dm keys (step dm keys L y) x.
Proof.
  intro E. destruct L as [l|]; [|reflexivity]. cbn [step]. rewrite !set_cell_upd, E.
  destruct (norm_col (p_col x) keys) as [Cx|] eqn:Nx, (norm_col (p_col y) keys) as [Cy|] eqn:Ny.
  - pose proof (upd_comm l (Z.to_nat (p_num x * dm / p_den x)) Cx (Z.to_nat (p_num y * dm / p_den y)) Cy (p_char y)) as U.
    destruct (upd l (Z.to_nat (p_num x * dm / p_den x)) Cx (p_char y)) as [L1|],
             (upd l (Z.to_nat (p_num y * dm / p_den y)) Cy (p_char y)) as [L2|]; cbn [step]; rewrite ?set_cell_upd, ?Nx, ?Ny, ?E; auto.
  - destruct (upd l _ Cx (p_char y)); cbn [step]; rewrite ?set_cell_upd, ?Ny; reflexivity.
  - destruct (upd l _ Cy (p_char y)); cbn [step]; rewrite ?set_cell_upd, ?Nx; reflexivity.
  - reflexivity.
Qed.

(* ---- char-stable permutations: only events with the same character change places *)
Inductive cperm : list placed -> list placed -> Prop :=
| cp_nil : cperm [] []
| cp_skip x l l' : cperm l l' -> cperm (x :: l) (x :: l')
| cp_swap x y l : p_char x = p_char y -> cperm (y :: x :: l) (x :: y :: l)
| cp_trans l l' l'' : cperm l l' -> cperm l' l'' -> cperm l l''.

Lemma cperm_refl l : cperm l l.
Proof. induction l; constructor; auto. Qed.
Lemma cperm_perm l l' : cperm l l' -> Permutation l l'.
Proof. induction 1; [constructor|constructor; assumption|apply perm_swap|eapply perm_trans; eassumption]. Qed.
Lemma cperm_app_head a b b' : cperm b b' -> cperm (a ++ b) (a ++ b').
Proof. intro H. induction a; cbn [app]; [exact H|constructor; assumption]. Qed.
Lemma cperm_app_tail a a' b : cperm a a' -> cperm (a ++ b) (a' ++ b).
Proof.
  induction 1 as [|x l l' _ IH|x y l E|l l' l'' _ IH1 _ IH2]; cbn [app].
  - apply cperm_refl.
  - constructor. exact IH.
  - apply cp_swap. exact E.
  - eapply cp_trans; eassumption.
Qed.
Lemma cperm_app a a' b b' : cperm a a' -> cperm b b' -> cperm (a ++ b) (a' ++ b').
Proof. intros Ha Hb. eapply cp_trans; [apply cperm_app_tail; exact Ha|apply cperm_app_head; exact Hb]. Qed.
Lemma cperm_filter (f : placed -> bool) l l' : cperm l l' -> cperm (filter f l) (filter f l').
Proof.
  induction 1 as [|x l l' _ IH|x y l E|l l' l'' _ IH1 _ IH2]; cbn [filter].
  - constructor.
  - destruct (f x); [constructor|]; exact IH.
  - destruct (f x), (f y); try apply cperm_refl. apply cp_swap. exact E.
  - eapply cp_trans; eassumption.
Qed.
(* a block of events that all carry one character may be permuted freely *)
Lemma perm_same_char ch l l' : Permutation l l' -> Forall (fun p => p_char p = ch) l -> cperm l l'.
Proof.
  induction 1 as [|x l l' P IH|x y l|l l' l'' P1 IH1 P2 IH2]; intro F.
  - constructor.
  - constructor. apply IH. inversion F; assumption.
  - apply cp_swap. inversion F as [|? ? Hy F']. inversion F' as [|? ? Hx _]. congruence.
  - eapply cp_trans; [apply IH1; exact F|apply IH2]. rewrite Forall_forall in *. intros p Hp. apply F.
    apply (Permutation_in _ (Permutation_sym P1)). exact Hp.
Qed.

Lemma fold_step_cperm dm keys g g' : cperm g g' -> forall L, fold_left (step dm keys) g L = fold_left (step dm keys) g' L.
Proof.
  induction 1 as [|x l l' _ IH|x y l E|l l' l'' _ IH1 _ IH2]; intro L; cbn [fold_left].
  - reflexivity.
  - apply IH.
  - rewrite (step_comm dm keys L y x) by (symmetry; exact E). reflexivity.
  - rewrite IH1. apply IH2.
Qed.

Theorem fill_lines_cperm lines g g' dm keys : cperm g g' -> fill_lines lines g dm keys = fill_lines lines g' dm keys.
Proof. intro H. rewrite !fill_lines_fold. apply fold_step_cperm. exact H. Qed.

(* ---- rows of a measure: lcm of the denominators with the cap applied at every step *)
Section Cap.
  Variable cap : Z.
  Definition lc (x y : Z) : Z := Z.min (Z.lcm x y) cap.

  Lemma lc_min_l x y : lc (Z.min x cap) y = lc x y.
  Proof.
    unfold lc. destruct (Z.le_gt_cases x cap) as [Hle|Hgt]; [rewrite (Z.min_l x cap) by exact Hle; reflexivity|].
    rewrite (Z.min_r x cap) by lia. pose proof (Z.lcm_nonneg cap y) as P1. pose proof (Z.lcm_nonneg x y) as P2.
    destruct (Z.lt_ge_cases cap 0) as [Hneg|Hnn]; [rewrite !Z.min_r by lia; reflexivity|].
    destruct (Z.eq_dec y 0) as [->|Hy]; [rewrite !Z.lcm_0_r; reflexivity|].
    destruct (Z.eq_dec cap 0) as [->|Hc]; [rewrite Z.lcm_0_l; rewrite !Z.min_r by lia; reflexivity|].
    assert (L1: cap <= Z.lcm cap y).
    { apply Z.divide_pos_le; [|apply Z.divide_lcm_l]. assert (Z.lcm cap y <> 0) by (rewrite Z.lcm_eq_0; lia). lia. }
    assert (L2: x <= Z.lcm x y).
    { apply Z.divide_pos_le; [|apply Z.divide_lcm_l]. assert (Z.lcm x y <> 0) by (rewrite Z.lcm_eq_0; lia). lia. }
    rewrite !Z.min_r by lia. reflexivity.
  Qed.
  Lemma lc_comm x y : lc x y = lc y x.
  Proof. unfold lc. rewrite Z.lcm_comm. reflexivity. Qed.
  Lemma lc_assoc x y z : lc (lc x y) z = lc x (lc y z).
  Proof.
    unfold lc at 2. rewrite lc_min_l. rewrite (lc_comm x (lc y z)). unfold lc at 3. rewrite lc_min_l.
    unfold lc. rewrite (Z.lcm_comm (Z.lcm y z) x), Z.lcm_assoc. reflexivity.
  Qed.
  Lemma fold_lc_perm l l' : Permutation l l' -> forall a, fold_left lc l a = fold_left lc l' a.
  Proof.
    induction 1 as [|x l l' _ IH|x y l|l l' l'' _ IH1 _ IH2]; intro a; cbn [fold_left].
    - reflexivity.
    - apply IH.
    - rewrite !lc_assoc, (lc_comm y x). reflexivity.
    - rewrite IH1. apply IH2.
  Qed.
  Definition dmax (dens : list Z) : Z := match dens with [] => cap | d :: r => Z.min (fold_left lc r d) cap end.
  Lemma dmax_perm l l' : Permutation l l' -> dmax l = dmax l'.
  Proof.
    induction 1 as [|x l l' P _|x y l|l l' l'' _ IH1 _ IH2]; cbn [dmax fold_left].
    - reflexivity.
    - rewrite (fold_lc_perm _ _ P). reflexivity.
    - rewrite (lc_comm y x). reflexivity.
    - rewrite IH1. exact IH2.
  Qed.
End Cap.

Section Grid.
Variable cf : smconf.
Variable v : variant.

Lemma den_max_of_perm l l' : Permutation l l' -> den_max_of cf l = den_max_of cf l'.
Proof. intro H. exact (dmax_perm (k_max_snap cf) l l' H). Qed.

(* ---- the measures that are written *)
Lemma insert_z_in x c l : In x (insert_z c l) <-> x = c \/ In x l.
Proof.
  induction l as [|d l IH]; cbn [insert_z In]; [intuition|].
  destruct (c <? d); [cbn [In]; intuition|]. destruct (c =? d) eqn:E; [apply Z.eqb_eq in E; subst; cbn [In]; intuition|].
  cbn [In]. rewrite IH. intuition.
Qed.
Lemma insert_z_sorted c l : StronglySorted Z.lt l -> StronglySorted Z.lt (insert_z c l).
Proof.
  induction 1 as [|d l Hs IH Hf]; cbn [insert_z]; [constructor; constructor|].
  destruct (c <? d) eqn:E1.
  - apply Z.ltb_lt in E1. constructor; [constructor; assumption|]. constructor; [exact E1|].
    eapply Forall_impl; [|exact Hf]. intros; lia.
  - destruct (c =? d) eqn:E2; [constructor; assumption|].
    apply Z.ltb_ge in E1. apply Z.eqb_neq in E2. constructor; [exact IH|].
    apply Forall_forall. intros x Hx. apply insert_z_in in Hx. destruct Hx as [->|Hx]; [lia|].
    rewrite Forall_forall in Hf. auto.
Qed.
Lemma measures_of_perm ps ps' : Permutation ps ps' -> measures_of ps = measures_of ps'.
Proof.
  intro H. unfold measures_of. apply strict_sorted_ext.
  - induction (map p_measure ps); cbn [fold_right]; [constructor|apply insert_z_sorted; assumption].
  - induction (map p_measure ps'); cbn [fold_right]; [constructor|apply insert_z_sorted; assumption].
  - assert (A: forall l x, In x (fold_right insert_z [] l) <-> In x l).
    { induction l as [|a l IH]; intro x; cbn [fold_right]; [tauto|]. rewrite insert_z_in, IH. cbn [In]. intuition. }
    intro x. rewrite !A. split; apply Permutation_in; [apply Permutation_map; exact H|apply Permutation_map, Permutation_sym; exact H].
Qed.

Lemma write_measures_cperm ps ps' keys : cperm ps ps' -> forall ms prev,
  write_measures cf v ps keys prev ms = write_measures cf v ps' keys prev ms.
Proof.
  intro H. induction ms as [|m ms IH]; intro prev; cbn [write_measures]; [reflexivity|].
  pose proof (cperm_filter (fun p => p_measure p =? m) _ _ H) as G.
  rewrite <- (den_max_of_perm _ _ (Permutation_map p_den (cperm_perm _ _ G))).
  destruct keys as [k|]; [|reflexivity]. rewrite <- (fill_lines_cperm _ _ _ _ _ G), IH. reflexivity.
Qed.

Definition body_of_placed (ps : list placed) (keys : option Z) : option text :=
  match write_measures cf v ps keys (-1) (measures_of ps) with
  | None => None
  | Some out => Some (join [10%Z; 44%Z; 10%Z] out)
  end.

(* C.1 MAIN: the note data of a chart is the same text for every char-stable order of its placed events *)
Theorem sm_body_cperm ps ps' keys : cperm ps ps' -> body_of_placed ps keys = body_of_placed ps' keys.
Proof.
  intro H. unfold body_of_placed. rewrite <- (measures_of_perm _ _ (cperm_perm _ _ H)).
  rewrite (write_measures_cperm _ _ keys H). reflexivity.
Qed.

Lemma chart_body_placed c : chart_body cf v c =
  match chart_placed cf c with None => None | Some ps => body_of_placed ps (get_keys cf (c_type c)) end.
Proof. reflexivity. Qed.

(* ---- C.2 whole charts *)
Definition sm_chart_perm (c c' : smchart) : Prop :=
  c_type c = c_type c' /\ c_desc c = c_desc c' /\ c_diff c = c_diff c' /\ c_meter c = c_meter c' /\ c_radar c = c_radar c'
  /\ Permutation (c_bpms c) (c_bpms c') /\ Permutation (c_hits c) (c_hits c') /\ Permutation (c_holds c) (c_holds c')
  /\ Permutation (c_rolls c) (c_rolls c') /\ Permutation (c_mines c) (c_mines c') /\ Permutation (c_lifts c) (c_lifts c')
  /\ Permutation (c_fakes c) (c_fakes c') /\ Permutation (c_keys c) (c_keys c').

Definition ev_off (e : Q * Z * Z) : Q := fst (fst e).
Definition ev_place (f : Q -> Q) (e : Q * Z * Z) : placed := place cf (f (ev_off e)) (snd (fst e)) (snd e).

Lemma combine_map_self {A B} (g : A -> B) (l : list A) : combine (map g l) l = map (fun a => (g a, a)) l.
Proof. induction l as [|a l IH]; [reflexivity|]. cbn [map combine]. rewrite IH. reflexivity. Qed.

Lemma block_cperm {A} (f : Q -> Q) (mk : A -> Q * Z * Z) ch l l' :
  (forall a, snd (mk a) = ch) -> Permutation l l' -> cperm (map (ev_place f) (map mk l)) (map (ev_place f) (map mk l')).
Proof.
  intros Hch Hp. apply (perm_same_char ch); [apply Permutation_map, Permutation_map; exact Hp|].
  apply Forall_forall. intros p Hp'. apply in_map_iff in Hp'. destruct Hp' as [e [<- He]]. apply in_map_iff in He.
  destruct He as [a [<- _]]. unfold ev_place, place. cbn [p_char]. apply Hch.
Qed.

Lemma events_cperm f c c' : sm_chart_perm c c' ->
  cperm (map (ev_place f) (chart_events cf c)) (map (ev_place f) (chart_events cf c')).
Proof.
  intros (_ & _ & _ & _ & _ & _ & Hh & Hl & Hr & Hm & Hli & Hf & Hk). unfold chart_events. rewrite !map_app.
  repeat apply cperm_app;
    first [ apply (block_cperm f _ (k_hit cf)); [intro; reflexivity|assumption]
          | apply (block_cperm f _ (k_hold_head cf)); [intro; reflexivity|assumption]
          | apply (block_cperm f _ (k_hold_tail cf)); [intro; reflexivity|assumption]
          | apply (block_cperm f _ (k_roll_head cf)); [intro; reflexivity|assumption]
          | apply (block_cperm f _ (k_roll_tail cf)); [intro; reflexivity|assumption]
          | apply (block_cperm f _ (k_fake cf)); [intro; reflexivity|assumption]
          | apply (block_cperm f _ (k_key cf)); [intro; reflexivity|assumption]
          | apply (block_cperm f _ (k_lift cf)); [intro; reflexivity|assumption]
          | apply (block_cperm f _ (k_mine cf)); [intro; reflexivity|assumption] ].
Qed.

Lemma bcos_of_perm l l' : Permutation l l' -> Permutation (bcos_of l) (bcos_of l').
Proof. apply Permutation_map. Qed.

Theorem sm_chart_body_perm (f : Q -> Q) c c' : sm_chart_perm c c' ->
  distinct_offsb (bcos_of (c_bpms c)) = true ->
  tm_beats (k_tbl cf) (bcos_of (c_bpms c)) (map ev_off (chart_events cf c)) = Some (map f (map ev_off (chart_events cf c))) ->
  tm_beats (k_tbl cf) (bcos_of (c_bpms c)) (map ev_off (chart_events cf c')) = Some (map f (map ev_off (chart_events cf c'))) ->
  chart_body cf v c' = chart_body cf v c.
Proof.
  intros Hc Hd B B'. rewrite !chart_body_placed. destruct Hc as (Et & Hrest). pose proof Hrest as (_ & _ & _ & _ & Hb & _).
  destruct (timing_perm (k_tbl cf) _ _ (bcos_of_perm _ _ Hb) Hd) as (_ & _ & TB).
  unfold chart_placed. fold ev_off. rewrite TB, B, B'. rewrite <- Et.
  assert (P: forall c0, map (fun be : Q * (Q * Z * Z) => place cf (fst be) (snd (fst (snd be))) (snd (snd be)))
                            (combine (map f (map ev_off (chart_events cf c0))) (chart_events cf c0))
                        = map (ev_place f) (chart_events cf c0)).
  { intro c0. rewrite map_map, combine_map_self, map_map. reflexivity. }
  rewrite !P. symmetry. apply sm_body_cperm. apply events_cperm. split; assumption.
Qed.

(* ---- C.2 discharged on a boolean domain: ONE metronome M, every event time converts to a normalised position.
   There the cumulative beat TimingMap.beats returns for a query is a FUNCTION of the query (beat_of), whatever other
   queries are present and in whatever order *)
Section BeatsFun.
  Variable tbl : list Q.
  Variable M : Q.
  Hypothesis HM : (0 < M)%Q.

  Definition goodb (s : snap) : bool :=
    Qeq_bool (s_met s) M && Qle_bool 0 (s_b s) && Qlt_bool (s_b s) M && (0 <=? s_m s).
  Definition beat_of (full : list pr) (o : Q) : Q :=
    match lookup_snap tbl full o with Some s => Qred (sval M s) | None => 0%Q end.
  Definition beat_dom (full : list pr) (os : list Q) : bool :=
    forallb (fun o => match lookup_snap tbl full o with Some s => goodb s | None => false end) os.

  Lemma goodb_sound s : goodb s = true -> good M s.
  Proof.
    unfold goodb, good, nrm. intro H. repeat (apply andb_true_iff in H; destruct H as [H ?]).
    apply Qeq_bool_iff in H. apply Qle_bool_iff in H2. apply Qlt_bool_iff in H1. apply Z.leb_le in H0. auto.
  Qed.

  Lemma Qred_idem q : Qred (Qred q) = Qred q.
  Proof. apply Qred_complete, Qred_correct. Qed.

  Lemma beats_go_canon l : forall cur prev r, beats_go cur prev l = Some r -> forall ib, In ib r -> Qred (snd ib) = snd ib.
  Proof.
    induction l as [|[i c] l IH]; intros cur prev r H ib Hin; cbn [beats_go] in H; [injection H as <-; destruct Hin|].
    destruct (snap_sub c prev) as [d|]; [|discriminate].
    remember (Qred (cur + inject_Z (s_m d) * s_met prev + s_b d)) as cur' eqn:Ec.
    destruct (beats_go cur' c l) as [r'|] eqn:E; [|discriminate]. injection H as <-.
    destruct Hin as [<-|Hin]; [cbn [snd]; rewrite Ec; apply Qred_idem|apply (IH _ _ _ E ib Hin)].
  Qed.

  Lemma all_some_in {A} (l : list (option A)) r : all_some l = Some r -> forall b, In b r -> In (Some b) l.
  Proof.
    revert r. induction l as [|[a|] l IH]; intros r H b Hb; cbn [all_some] in H; try discriminate.
    - injection H as <-. destruct Hb.
    - destruct (all_some l) as [t|]; [|discriminate]. injection H as <-. destruct Hb as [<-|Hb]; [left; reflexivity|right; apply (IH t eq_refl b Hb)].
  Qed.
  Lemma assoc_nat_in {A} i (res : list (nat * A)) b : assoc_nat i res = Some b -> In (i, b) res.
  Proof.
    induction res as [|[j w] res IH]; cbn [assoc_nat]; [discriminate|]. destruct (Nat.eqb i j) eqn:E.
    - intro H. injection H as <-. apply Nat.eqb_eq in E. subst j. left. reflexivity.
    - intro H. right. apply IH. exact H.
  Qed.
  Lemma unpermute_in {A} n (res : list (nat * A)) l : unpermute n res = Some l -> forall b, In b l -> exists i, In (i, b) res.
  Proof.
    unfold unpermute. intros H b Hb. apply (all_some_in _ _ H) in Hb. apply in_map_iff in Hb. destruct Hb as [i [Hi _]].
    exists i. apply assoc_nat_in. exact Hi.
  Qed.

  Lemma beats_inner_canon ss bs : beats_inner ss = Some bs -> forall b, In b bs -> Qred b = b.
  Proof.
    unfold beats_inner. destruct (sort_by idx_snap_lt (combine (seq 0 (length ss)) ss)) as [|[i0 s0] rest].
    - intro H. injection H as <-. intros b [].
    - cbv zeta. remember (Qred (s_b s0 + inject_Z (s_m s0) * s_met s0)) as b0 eqn:Eb0.
      destruct (beats_go b0 s0 rest) as [r|] eqn:E; [|discriminate]. intros H b Hb.
      destruct (unpermute_in _ _ _ H b Hb) as [i [Hin|Hin]]; [injection Hin as _ <-; rewrite Eb0; apply Qred_idem|apply (beats_go_canon _ _ _ _ E (i, b) Hin)].
  Qed.

  Theorem tm_beats_fun bcos bcss os :
    bco_to_bcs tbl (sort_by bco_lt bcos) = Some bcss ->
    let full := rev (combine (sort_by bco_lt bcos) bcss) in
    beat_dom full os = true -> tm_beats tbl bcos os = Some (map (beat_of full) os).
  Proof.
    intros Hb full Hd. rewrite tm_beats_unfold. destruct os as [|o0 os0] eqn:Eos; [reflexivity|]. rewrite <- Eos in *. clear Eos o0 os0.
    unfold beat_dom in Hd. rewrite forallb_forall in Hd.
    destruct (tm_snaps_lookup tbl bcos os bcss Hb) as [ss [E1 F1]].
    { intros o Ho. specialize (Hd o Ho). fold full. destruct (lookup_snap tbl full o) as [s|]; [eexists; reflexivity|discriminate]. }
    fold full in F1. rewrite E1.
    assert (Hg: forall s, In s ss -> good M s).
    { intros s Hs. destruct (forall2_in_r _ _ _ _ F1 Hs) as [o [Ho L]]. specialize (Hd o Ho). rewrite L in Hd. apply goodb_sound. exact Hd. }
    destruct (beats_inner_spec M HM ss Hg) as [bs [E2 F2]]. rewrite E2. f_equal.
    pose proof (beats_inner_canon ss bs E2) as Hc. clear E1 E2 Hg Hd.
    revert bs F2 Hc. induction F1 as [|o s os ss L _ IH]; intros bs F2 Hc; inversion F2 as [|s' b ss' bs' Eb F2']; subst; [reflexivity|].
    cbn [map]. f_equal.
    - unfold beat_of. rewrite L. rewrite <- (Hc b (or_introl eq_refl)). apply Qred_complete. exact Eb.
    - apply IH; [exact F2'|]. intros x Hx. apply Hc. right. exact Hx.
  Qed.
End BeatsFun.

Lemma forallb_perm {A} (p : A -> bool) l l' : Permutation l l' -> forallb p l = true -> forallb p l' = true.
Proof. intros Hp H. rewrite forallb_forall in *. intros x Hx. apply H. apply (Permutation_in _ (Permutation_sym Hp)). exact Hx. Qed.

Lemma events_perm c c' : sm_chart_perm c c' -> Permutation (chart_events cf c) (chart_events cf c').
Proof.
  intros (_ & _ & _ & _ & _ & _ & Hh & Hl & Hr & Hm & Hli & Hf & Hk). unfold chart_events.
  repeat apply Permutation_app; apply Permutation_map; assumption.
Qed.

(* C.2 MAIN: the note data written for a StepMania chart does not depend on the row order of its tempo list and of its
   seven note lists - for every chart with pairwise distinct tempo offsets, one metronome M and event times that convert
   to normalised positions (all boolean, evaluated by vm_compute on any given chart) *)
Theorem sm_chart_body_perm_dom (M : Q) c c' bcss : (0 < M)%Q -> sm_chart_perm c c' ->
  distinct_offsb (bcos_of (c_bpms c)) = true ->
  bco_to_bcs (k_tbl cf) (sort_by bco_lt (bcos_of (c_bpms c))) = Some bcss ->
  beat_dom (k_tbl cf) M (rev (combine (sort_by bco_lt (bcos_of (c_bpms c))) bcss)) (map ev_off (chart_events cf c)) = true ->
  chart_body cf v c' = chart_body cf v c.
Proof.
  intros HM Hc Hd Hb Hdom.
  set (full := rev (combine (sort_by bco_lt (bcos_of (c_bpms c))) bcss)) in *.
  apply (sm_chart_body_perm (beat_of (k_tbl cf) M full) c c' Hc Hd).
  - apply (tm_beats_fun (k_tbl cf) M HM _ bcss _ Hb Hdom).
  - apply (tm_beats_fun (k_tbl cf) M HM _ bcss _ Hb). fold full.
    apply (forallb_perm _ _ _ (Permutation_map ev_off (events_perm c c' Hc)) Hdom).
Qed.

(* ---- the header: the #BPMS tag lists the same multiset of beat=bpm pairs *)
Open Scope string_scope.
Definition meta_lines (s : smset) (off : Q) (pairs : list (list tok)) : list (list tok) :=
  let t i := TLit (nth i (s_txt s) []) in
  [ [L "#TITLE:"; t 0%nat; L ";"]; [L "#SUBTITLE:"; t 1%nat; L ";"]; [L "#ARTIST:"; t 2%nat; L ";"];
    [L "#TITLETRANSLIT:"; t 3%nat; L ";"]; [L "#SUBTITLETRANSLIT:"; t 4%nat; L ";"];
    [L "#ARTISTTRANSLIT:"; t 5%nat; L ";"]; [L "#GENRE:"; t 6%nat; L ";"]; [L "#CREDIT:"; t 7%nat; L ";"];
    [L "#BANNER:"; t 8%nat; L ";"]; [L "#BACKGROUND:"; t 9%nat; L ";"]; [L "#LYRICSPATH:"; t 10%nat; L ";"];
    [L "#CDTITLE:"; t 11%nat; L ";"]; [L "#MUSIC:"; t 12%nat; L ";"];
    [L "#OFFSET:"; TNum (Qred (- (off / 1000))); L ";"];
    ((L "#BPMS:" :: concat (intersperse [TLit [44%Z; 10%Z]] pairs)) ++ [L ";"])%list;
    [L "#STOPS:;"];
    [L "#SAMPLESTART:"; TNum (Qred (s_sstart s / 1000)); L ";"];
    [L "#SAMPLELENGTH:"; TNum (Qred (s_slen s / 1000)); L ";"];
    [L "#DISPLAYBPM:"; t 13%nat; L ";"];
    (if s_sel s then [L "#SELECTABLE:YES;"] else if v_sel v then [L "#SELECTABLE:NO;"] else [L "NO;"]);
    [L "#BGCHANGES:"; t 14%nat; L ";"]; [L "#FGCHANGES:"; t 15%nat; L ";"] ].
Close Scope string_scope.

Definition bpm_pair (f : Q -> Q) (b : Q * Q * Q) : list tok := [TRnd2 (f (fst (fst b))); L "="%string; TNum (snd (fst b))].

Theorem sm_bpms_tag_perm (M : Q) s s' c0 c0' rest rest' off bcss md : (0 < M)%Q ->
  s_txt s = s_txt s' -> s_offset s = Some off -> s_offset s' = Some off -> s_sstart s = s_sstart s' -> s_slen s = s_slen s' ->
  s_sel s = s_sel s' -> s_maps s = c0 :: rest -> s_maps s' = c0' :: rest' -> Permutation (c_bpms c0) (c_bpms c0') ->
  distinct_offsb (bcos_of (c_bpms c0)) = true ->
  bco_to_bcs (k_tbl cf) (sort_by bco_lt (bcos_of (c_bpms c0))) = Some bcss ->
  let full := rev (combine (sort_by bco_lt (bcos_of (c_bpms c0))) bcss) in
  beat_dom (k_tbl cf) M full (map (fun b : Q * Q * Q => fst (fst b)) (c_bpms c0)) = true ->
  write_metadata cf v s = Some md ->
  exists pairs pairs', md = meta_lines s off pairs /\ write_metadata cf v s' = Some (meta_lines s off pairs')
                       /\ Permutation pairs pairs'.
Proof.
  intros HM Et Eo Eo' Ess Esl Ese Em Em' Hb Hd Hbc full Hdom H.
  set (f := beat_of (k_tbl cf) M full).
  destruct (timing_perm (k_tbl cf) _ _ (bcos_of_perm _ _ Hb) Hd) as (_ & _ & TB).
  unfold write_metadata in *. rewrite Em, Eo in H. rewrite Em', Eo', TB.
  rewrite (tm_beats_fun (k_tbl cf) M HM _ bcss _ Hbc Hdom) in H.
  rewrite (tm_beats_fun (k_tbl cf) M HM _ bcss _ Hbc (forallb_perm _ _ _ (Permutation_map _ Hb) Hdom)).
  fold full. fold f. fold f in H. injection H as <-.
  exists (map (bpm_pair f) (c_bpms c0)), (map (bpm_pair f) (c_bpms c0')).
  assert (P: forall l : list (Q * Q * Q),
            map (fun p : Q * (Q * Q * Q) => [TRnd2 (fst p); L "="%string; TNum (snd (fst (snd p)))]) (combine (map f (map (fun b : Q * Q * Q => fst (fst b)) l)) l)
            = map (bpm_pair f) l).
  { intro l. rewrite map_map, combine_map_self, map_map. reflexivity. }
  rewrite !P. unfold meta_lines. rewrite <- Et, <- Ess, <- Esl, <- Ese.
  split; [reflexivity|]. split; [reflexivity|]. apply Permutation_map. exact Hb.
Qed.
End Grid.
End SMPerm.
