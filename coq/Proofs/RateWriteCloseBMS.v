(* C13: closure of C05's write domain under rate.  For r > 0 the rated chart of a chart of write_dom lies in write_dom
   as soon as the rated tempos survive ':.3f' (the only clause a rate change can break: bms_write_dom_rate_refuted);
   every other clause is invariant because uniform scaling changes no position (Proofs/RateScaleProofs.v). *)
From Coq Require Import ZArith QArith Qround Qabs List Bool Lia Lqa Sorting.Permutation.
From RV Require Import Base.PyNum Timing.Snapper Timing.Snap Timing.TimingMap Timing.Integrate Timing.Domain Timing.Domain2
  Formats.BMSText Formats.BMS Formats.BMSSpec Map.RateWrite Proofs.SnapperProofs Proofs.TimingProofs Proofs.RateScaleProofs
  Proofs.BMSDenoteProofs Proofs.BMSParseProofs Proofs.BMSWriteDenoteProofs.
Import ListNotations.
Import BMSRate.
Open Scope Q_scope.

Lemma bco_rate_is_sc r b : bco_rate r b = bco_sc r b.
Proof. reflexivity. Qed.
Lemma map_bco_rate r l : map (bco_rate r) l = map (bco_sc r) l.
Proof. reflexivity. Qed.

Lemma round_half_even_comp x y : x == y -> round_half_even x = round_half_even y.
Proof.
  intro E. unfold round_half_even. cbv zeta. rewrite (Qfloor_comp x y E).
  rewrite (Qlt_bool_comp (x - inject_Z (Qfloor y)) (1 # 2) (y - inject_Z (Qfloor y)) (1 # 2)) by (try rewrite E; reflexivity).
  rewrite (Qlt_bool_comp (1 # 2) (x - inject_Z (Qfloor y)) (1 # 2) (y - inject_Z (Qfloor y))) by (try rewrite E; reflexivity).
  reflexivity.
Qed.

Lemma bco_same_refl b : bco_same b b = true.
Proof. unfold bco_same. rewrite !Q_same_refl. reflexivity. Qed.

Section Close.
  Variable tbl : list Q.
  Variable r : Q.
  Hypothesis Hr : 0 < r.

  Lemma Qred0 : Qred (0 / r) = 0.
  Proof. change 0 with (Qred 0) at 2. apply Qred_complete. unfold Qdiv. ring. Qed.

  (* ---- the four TimingMap.snaps calls of the writer return the same positions ---- *)
  Lemma write_snaps_rate c : write_snaps tbl (bms_chart_rate r c) = write_snaps tbl c.
  Proof.
    unfold write_snaps. cbn [bms_chart_rate w_bpms w_hits w_holds]. change (bco_rate r) with (bco_sc r).
    rewrite (tm_snaps_sc r Hr tbl (w_bpms c) (map h_off (map (hit_rate r) (w_hits c))) (map h_off (w_hits c))).
    2:{ rewrite map_map. clear. induction (w_hits c) as [|h l IH]; cbn [map]; constructor; [cbn [hit_rate h_off]; apply Qred_correct|exact IH]. }
    rewrite (tm_snaps_sc r Hr tbl (w_bpms c) (map ho_off (map (hold_rate r) (w_holds c))) (map ho_off (w_holds c))).
    2:{ rewrite map_map. clear. induction (w_holds c) as [|h l IH]; cbn [map]; constructor; [cbn [hold_rate ho_off]; apply Qred_correct|exact IH]. }
    rewrite (tm_snaps_sc r Hr tbl (w_bpms c) (map (fun h => Qred (ho_off h + ho_len h)) (map (hold_rate r) (w_holds c)))
               (map (fun h => Qred (ho_off h + ho_len h)) (w_holds c))).
    2:{ rewrite map_map. clear. induction (w_holds c) as [|h l IH]; cbn [map]; constructor; [|exact IH].
        cbn [hold_rate ho_off ho_len]. rewrite !Qred_correct. unfold Qdiv. ring. }
    rewrite (tm_snaps_sc r Hr tbl (w_bpms c) (map bo_off (map (bco_sc r) (w_bpms c))) (map bo_off (w_bpms c))).
    2:{ rewrite map_map. clear. induction (w_bpms c) as [|h l IH]; cbn [map]; constructor; [cbn [bco_sc bo_off]; apply Qred_correct|exact IH]. }
    reflexivity.
  Qed.

  Lemma tempo_rows_rate c : tempo_rows (bms_chart_rate r c) = map (bco_sc r) (tempo_rows c).
  Proof. unfold tempo_rows. cbn [bms_chart_rate w_bpms]. change (bco_rate r) with (bco_sc r). apply (sort_bco_sc r Hr). Qed.

  Lemma measure_lines_rate : forall rest prev, measure_lines 0 (bco_sc r prev) (map (bco_sc r) rest) = measure_lines 0 prev rest.
  Proof.
    induction rest as [|b rest IH]; intro prev; [reflexivity|]. cbn [map measure_lines]. rewrite IH. f_equal.
    cbn [bco_sc bo_bpm bo_off].
    set (ml := 4 * beat_len (bo_bpm prev)). set (ml' := 4 * beat_len (Qred (bo_bpm prev * r))).
    assert (Em : ml' == ml / r) by (unfold ml, ml'; rewrite (beat_len_sc r); unfold Qdiv; ring).
    set (x := (bo_off b - bo_off prev) / ml). set (x' := (Qred (bo_off b / r) - Qred (bo_off prev / r)) / ml').
    assert (Ex : x' == x).
    { unfold x, x'. rewrite Em, !Qred_correct. rewrite <- (div_div r Hr (bo_off b - bo_off prev) ml). apply Qdiv_comp; [unfold Qdiv; ring|reflexivity]. }
    rewrite (round_half_even_comp x' x Ex). f_equal.
    rewrite (Qle_bool_comp (Qabs (x' - inject_Z (round_half_even x)) * ml') 0 ((Qabs (x - inject_Z (round_half_even x)) * ml) / r) (0 / r)).
    - apply (Qle_bool_div r Hr).
    - rewrite Em. assert (Ea : Qabs (x' - inject_Z (round_half_even x)) == Qabs (x - inject_Z (round_half_even x))) by (apply Qabs_wd; rewrite Ex; reflexivity).
      rewrite Ea. unfold Qdiv. ring.
    - unfold Qdiv. ring.
  Qed.

  Lemma forallb_map' {A B} (f : A -> B) (p : B -> bool) l : forallb p (map f l) = forallb (fun x => p (f x)) l.
  Proof. induction l as [|x l IH]; [reflexivity|]. cbn [map forallb]. rewrite IH. reflexivity. Qed.
  Lemma forallb_ext' {A} (p q : A -> bool) l : (forall x, p x = q x) -> forallb p l = forallb q l.
  Proof. intro H. induction l as [|x l IH]; [reflexivity|]. cbn [forallb]. rewrite H, IH. reflexivity. Qed.

  Lemma wf_with_rate lay dflt c sn : wf_wchart_with 0 tbl lay dflt (bms_chart_rate r c) sn = wf_wchart_with 0 tbl lay dflt c sn.
  Proof.
    unfold wf_wchart_with. rewrite tempo_rows_rate. destruct (tempo_rows c) as [|b0 rest]; [reflexivity|]. cbn [map].
    rewrite measure_lines_rate.
    change (bco_sc r b0 :: map (bco_sc r) rest) with (map (bco_sc r) (b0 :: rest)). rewrite forallb_map'.
    rewrite (forallb_ext' (fun x => Qlt_bool 0 (bo_bpm (bco_sc r x)) && Qeq_bool (bo_met (bco_sc r x)) 4) (fun b => Qlt_bool 0 (bo_bpm b) && Qeq_bool (bo_met b) 4)).
    2:{ intro b. cbn [bco_sc bo_bpm bo_met]. rewrite (Qlt_bool_comp 0 (Qred (bo_bpm b * r)) 0 (bo_bpm b * r) (Qeq_refl _) (Qred_correct _)), (Qlt_bool_0_mul r Hr). reflexivity. }
    assert (E0 : Qeq_bool (bo_off (bco_sc r b0)) 0 = Qeq_bool (bo_off b0) 0).
    { cbn [bco_sc bo_off]. rewrite (Qeq_bool_comp (Qred (bo_off b0 / r)) 0 (bo_off b0 / r) (0 / r)); [apply (Qeq_bool_div r Hr)|apply Qred_correct|unfold Qdiv; ring]. }
    rewrite E0. cbn [bms_chart_rate w_bpms w_hits w_holds w_lnobj w_samples]. rewrite !map_length.
    rewrite !forallb_map'.
    rewrite (forallb_ext' (fun x => Qle_bool 0 (h_off (hit_rate r x)) && lane_has lay (h_col (hit_rate r x))) (fun h => Qle_bool 0 (h_off h) && lane_has lay (h_col h))).
    2:{ intro h. cbn [hit_rate h_off h_col]. rewrite (Qle_bool_comp 0 (Qred (h_off h / r)) (0 / r) (h_off h / r)); [rewrite (Qle_bool_div r Hr); reflexivity|unfold Qdiv; ring|apply Qred_correct]. }
    rewrite (forallb_ext' (fun x => Qle_bool 0 (ho_off (hold_rate r x)) && Qlt_bool 0 (ho_len (hold_rate r x)) && lane_has lay (ho_col (hold_rate r x)))
               (fun h => Qle_bool 0 (ho_off h) && Qlt_bool 0 (ho_len h) && lane_has lay (ho_col h))).
    2:{ intro h. cbn [hold_rate ho_off ho_len ho_col].
        rewrite (Qle_bool_comp 0 (Qred (ho_off h / r)) (0 / r) (ho_off h / r)) by (try apply Qred_correct; unfold Qdiv; ring).
        rewrite (Qlt_bool_comp 0 (Qred (ho_len h / r)) (0 / r) (ho_len h / r)) by (try apply Qred_correct; unfold Qdiv; ring).
        rewrite (Qle_bool_div r Hr), (Qlt_bool_div r Hr). reflexivity. }
    rewrite !map_map. cbn [hit_rate h_col hold_rate ho_col]. reflexivity.
  Qed.

  Lemma wf_rate lay dflt c : wf_wchart 0 tbl lay dflt (bms_chart_rate r c) = wf_wchart 0 tbl lay dflt c.
  Proof. unfold wf_wchart. rewrite write_snaps_rate. apply wf_with_rate. Qed.

  Lemma wscript_rate c : wscript tbl (bms_chart_rate r c) = option_map (map (bcs_sc r)) (wscript tbl c).
  Proof.
    unfold wscript. cbn [bms_chart_rate w_bpms]. change (bco_rate r) with (bco_sc r). rewrite (sort_bco_sc r Hr). apply (bco_to_bcs_sc r Hr).
  Qed.

  Lemma tempo_dom_rate c : tempo_dom tbl c = true -> tempo_dom tbl (bms_chart_rate r c) = true.
  Proof.
    unfold tempo_dom. rewrite wscript_rate. destruct (wscript tbl c) as [l|]; [|discriminate]. cbn [option_map].
    intro H. apply andb_true_iff in H. destruct H as [H Hs]. apply andb_true_iff in H. destruct H as [Hd Hf].
    destruct (from_bcs 0 l) as [s|] eqn:Ef; [|discriminate].
    apply (list_same_eq bco_same bco_same_eq) in Hf, Hs. subst s.
    rewrite (domainb_sc r Hr), Hd. cbn [andb].
    pose proof (from_bcs_sc r 0 l) as F. rewrite Qred0, Ef in F. cbn [option_map] in F. rewrite F.
    cbn [bms_chart_rate w_bpms]. change (bco_rate r) with (bco_sc r).
    rewrite (list_same_refl bco_same bco_same_refl). cbn [andb].
    rewrite (sort_bco_sc r Hr), Hs. apply (list_same_refl bco_same bco_same_refl).
  Qed.

  (* closure of write_dom under rate, under the one guard a rate change can break *)
  Theorem bms_write_dom_rate mk lay dflt c : write_dom tbl mk lay dflt c = true ->
    forallb bpm_3f_ok (map (bco_rate r) (w_bpms c)) = true ->
    write_dom tbl mk lay dflt (bms_chart_rate r c) = true.
  Proof.
    unfold write_dom. intros H H3.
    apply andb_true_iff in H. destruct H as [H Hmisc]. apply andb_true_iff in H. destruct H as [H Hb].
    apply andb_true_iff in H. destruct H as [H Ht]. apply andb_true_iff in H. destruct H as [Hlay Hwf].
    rewrite Hlay, wf_rate, Hwf, (tempo_dom_rate c Ht). cbn [andb bms_chart_rate w_bpms w_misc]. rewrite Hmisc, andb_true_r.
    rewrite forallb_map'. rewrite forallb_map' in H3. rewrite forallb_forall in *. intros b I.
    specialize (Hb b I). specialize (H3 b I). apply andb_true_iff in Hb. destruct Hb as [Hm _].
    cbn [bco_rate bo_met] in *. rewrite Hm. exact H3.
  Qed.
End Close.

(* ---- tempo rows in any order: write_dom_any is closed under rate (same guard), because sorting commutes with the scaling ---- *)
Section CloseAny.
  Variable tbl : list Q.
  Variable r : Q.
  Hypothesis Hr : 0 < r.

  Lemma time_ordered_rate c : time_ordered (bms_chart_rate r c) = bms_chart_rate r (time_ordered c).
  Proof.
    unfold time_ordered, with_bpms, bms_chart_rate. cbn [w_hits w_holds w_bpms w_samples w_lnobj w_title w_artist w_version w_misc].
    change (bco_rate r) with (bco_sc r). rewrite (sort_bco_sc r Hr). reflexivity.
  Qed.

  Theorem bms_write_dom_any_rate mk lay dflt c : write_dom_any tbl mk lay dflt c = true ->
    forallb bpm_3f_ok (map (bco_rate r) (w_bpms c)) = true ->
    write_dom_any tbl mk lay dflt (bms_chart_rate r c) = true.
  Proof.
    unfold write_dom_any. intros H H3. rewrite time_ordered_rate. apply (bms_write_dom_rate tbl r Hr); [exact H|].
    unfold time_ordered. cbn [w_bpms with_bpms]. rewrite forallb_forall in *. intros b I. apply H3.
    apply in_map_iff in I. destruct I as [x [<- Ix]]. apply in_map.
    apply (Permutation_in _ (Permutation_sym (sort_by_perm bco_lt (w_bpms c))) Ix).
  Qed.
End CloseAny.
