(* C03 o C02: every exact rendering of the text SMMapSet.write produces for a mapset of the exact domain c03_domb (whose
   tempo beats lie on the reader's 1/48 grid: readback_guard) is in the READER's domain c02_domb (Formats/SMReadDom.v):
   no ';' in a comment, every ';'-piece in the dialect (header items "#TAG:value", chart blocks with their one comment
   line before "#NOTES:", six fields, note data without blanks and comments), only blanks after the last ';', header
   items in order, rows per measure a multiple of 4, tempo beats distinct on the grid. *)
From Coq Require Import String ZArith QArith Qround Qabs List Bool Lia Lqa Sorting.Permutation.
From RV Require SMTextFacts SMReadPieces SMReadMeta.
From RV Require Import Base.PyNum Timing.Snapper Timing.Snap Timing.TimingMap Timing.Reseat Timing.Integrate
  Formats.SMText Formats.SM Formats.SMSpec Formats.SMReadDom Formats.SMWriteDom
  Proofs.TimingProofs Proofs.SMProofs Proofs.SMWriteWholeText Proofs.SMWriteWholeGrid Proofs.SMWriteWholeChart Proofs.SMWriteWholeFile.
Import ListNotations.
Open Scope Z_scope.

(* ------------------------------------------------------------------ sep_outside *)
Lemma sep_outside_clean c s : contains (tx "//") s = false -> sep_outside c false s = true.
Proof.
  induction s as [|x s IH]; intro H; [reflexivity|].
  change (contains (tx "//") (x :: s)) with (starts_with (tx "//") (x :: s) || contains (tx "//") s) in H.
  apply orb_false_iff in H. destruct H as [H1 H2]. cbn [sep_outside]. rewrite H1, (IH H2). destruct (x =? 10); reflexivity.
Qed.
Lemma sep_outside_comment c l : ~ In 10 l -> ~ In c l -> sep_outside c true l = true.
Proof.
  induction l as [|x l IH]; intros N1 N2; [reflexivity|]. cbn [sep_outside].
  destruct (x =? 10) eqn:E; [apply Z.eqb_eq in E; exfalso; apply N1; left; exact E|].
  destruct (x =? c) eqn:E2; [apply Z.eqb_eq in E2; exfalso; apply N2; left; exact E2|]. cbn [negb andb].
  apply IH; intro K; [apply N1|apply N2]; right; exact K.
Qed.
Lemma sep_outside_nl c a b : forall st, sep_outside c st (a ++ 10 :: b) = sep_outside c st a && sep_outside c false b.
Proof.
  induction a as [|x a IH]; intro st.
  - cbn [app sep_outside]. rewrite Z.eqb_refl. reflexivity.
  - cbn [app sep_outside]. destruct (x =? 10); [apply IH|]. destruct st.
    + rewrite IH. rewrite andb_assoc. reflexivity.
    + assert (S : starts_with (tx "//") (x :: a ++ 10 :: b) = starts_with (tx "//") (x :: a)).
      { rewrite !SMTextFacts.sw_slash. f_equal. destruct a; reflexivity. }
      rewrite S. destruct (starts_with (tx "//") (x :: a)); apply IH.
Qed.
Lemma sep_outside_join c ts : ts <> [] -> sep_outside c false (join [10] ts) = forallb (sep_outside c false) ts.
Proof.
  induction ts as [|t ts IH]; intro N; [congruence|]. destruct ts as [|t2 ts].
  - cbn [join forallb]. rewrite andb_true_r. reflexivity.
  - change (join [10] (t :: t2 :: ts)) with (t ++ 10 :: join [10] (t2 :: ts)). rewrite sep_outside_nl, IH by discriminate. reflexivity.
Qed.
(* a comment line:  // ... *)
Lemma sep_outside_comment_line c rest : ~ In 10 rest -> ~ In c rest -> (c =? 47) = false -> sep_outside c false (47 :: 47 :: rest) = true.
Proof.
  intros N1 N2 C. cbn [sep_outside]. change (47 =? 10) with false. cbv iota.
  change (starts_with (tx "//") (47 :: 47 :: rest)) with true. cbv iota. cbn [sep_outside]. change (47 =? 10) with false. cbv iota.
  rewrite Z.eqb_sym, C. cbn [negb andb]. apply sep_outside_comment; assumption.
Qed.

(* ------------------------------------------------------------------ splitting a text given by its pieces *)
Lemma split_with_sep c ps tail : Forall (fun p => ~ In c p) ps -> ~ In c tail ->
  split_on c (SMTextFacts.with_sep c ps ++ tail) = ps ++ [tail].
Proof.
  induction ps as [|p ps IH]; intros F N.
  - cbn. apply split_on_no_sep. exact N.
  - inversion F; subst. cbn [SMTextFacts.with_sep app]. rewrite <- app_assoc. cbn [app]. rewrite split_on_app by assumption. rewrite IH by assumption. reflexivity.
Qed.
Lemma with_sep_app c a b : SMTextFacts.with_sep c (a ++ b) = SMTextFacts.with_sep c a ++ SMTextFacts.with_sep c b.
Proof. induction a as [|x a IH]; [reflexivity|]. cbn [app SMTextFacts.with_sep]. rewrite IH, <- app_assoc. reflexivity. Qed.
Lemma split_piece_in c s p x : In p (split_on c s) -> In x p -> In x s.
Proof.
  intros Hp Hx. rewrite <- (join_split1 c s). revert Hp Hx. generalize (split_on c s). induction l as [|a l IH]; intros Hp Hx; [destruct Hp|].
  destruct l as [|b l].
  - destruct Hp as [<-|[]]. exact Hx.
  - change (join [c] (a :: b :: l)) with (a ++ [c] ++ join [c] (b :: l)). apply in_or_app. destruct Hp as [<-|Hp]; [left; exact Hx|].
    right. apply in_or_app. right. exact (IH Hp Hx).
Qed.

(* ------------------------------------------------------------------ distinct_q *)
Lemma distinct_q_FOP l : distinct_q l = true <-> ForallOrdPairs (fun a b : Q => ~ (a == b)%Q) l.
Proof.
  induction l as [|x l IH]; [split; [constructor|reflexivity]|]. cbn [distinct_q]. rewrite andb_true_iff, IH, negb_true_iff. split.
  - intros [H1 H2]. constructor; [|exact H2]. apply Forall_forall. intros y Hy E. apply Qeq_bool_iff in E.
    assert (existsb (Qeq_bool x) l = true) by (apply existsb_exists; exists y; auto). congruence.
  - intro H. inversion H as [|? ? H1 H2]; subst. split; [|exact H2]. apply not_true_is_false. intro K. apply existsb_exists in K.
    destruct K as (y & Hy & E). apply Qeq_bool_iff in E. rewrite Forall_forall in H1. exact (H1 y Hy E).
Qed.
Lemma FOP_forall2 (a b : list Q) : Forall2 Qeq a b -> ForallOrdPairs (fun x y : Q => ~ (x == y)%Q) b -> ForallOrdPairs (fun x y : Q => ~ (x == y)%Q) a.
Proof.
  induction 1 as [|x y a b Hxy F IH]; intro H; [constructor|]. inversion H as [|? ? H1 H2]; subst. constructor; [|exact (IH H2)].
  apply Forall_forall. intros x' Hx' E. destruct (forall2_in_l _ _ _ _ F Hx') as (y' & Hy' & E'). rewrite Forall_forall in H1.
  apply (H1 y' Hy'). rewrite <- Hxy, <- E'. exact E.
Qed.
Lemma FOP_perm_q (a b : list Q) : Permutation a b -> ForallOrdPairs (fun x y : Q => ~ (x == y)%Q) a -> ForallOrdPairs (fun x y : Q => ~ (x == y)%Q) b.
Proof.
  induction 1 as [|x a b P IH|x y a|a b c P1 IH1 P2 IH2]; intro H; auto.
  - inversion H as [|? ? H1 H2]; subst. constructor; [|exact (IH H2)]. apply Forall_forall. intros z Hz. rewrite Forall_forall in H1.
    apply H1. exact (Permutation_in z (Permutation_sym P) Hz).
  - inversion H as [|? ? H1 H2]; subst. inversion H2 as [|? ? H3 H4]; subst. inversion H1 as [|? ? H5 H6]; subst.
    constructor; [constructor; [intro E; apply H5; symmetry; exact E|exact H3]|constructor; assumption].
Qed.
Lemma on_grid48_comp a b : (a == b)%Q -> on_grid48 a = on_grid48 b.
Proof.
  intro E. unfold on_grid48. assert (E1 : (a * 48 == b * 48)%Q) by (rewrite E; reflexivity).
  rewrite (Qfloor_comp _ _ E1). destruct (Qeq_bool (b * 48) _) eqn:H.
  - apply Qeq_bool_iff. apply Qeq_bool_iff in H. rewrite E1. exact H.
  - destruct (Qeq_bool (a * 48) _) eqn:H2; [|reflexivity]. apply Qeq_bool_iff in H2. rewrite E1 in H2. apply Qeq_bool_iff in H2. congruence.
Qed.

(* ------------------------------------------------------------------ the written text as ';'-pieces *)
Fixpoint hpieces (W : text) (hl : list (text * text)) : list text :=
  match hl with [] => [] | tv :: r => (W ++ (35 :: fst tv) ++ 58 :: snd tv) :: hpieces nl r end.
Definition chead (cd : cdata) : list text :=
  [cd_comment cd; tx "#NOTES:"; sp5 ++ cd_ty cd ++ [58]; sp5 ++ cd_desc cd ++ [58]; sp5 ++ cd_diff cd ++ [58];
   sp5 ++ cd_meter cd ++ [58]; sp5 ++ cd_radar cd ++ [58]; cd_body cd].
Definition craw (cd : cdata) : text := join nl (chead cd) ++ nl.
Fixpoint cpieces (W : text) (cds : list cdata) : list text :=
  match cds with [] => [] | cd :: r => (W ++ craw cd) :: cpieces [10; 10; 10] r end.

Lemma ctexts_chead cd : ctexts cd = chead cd ++ [[59; 10; 10]].
Proof. reflexivity. Qed.

Lemma hflat hl : forall W R, hl <> [] -> R <> [] ->
  W ++ join nl (map hline hl ++ R) = SMTextFacts.with_sep 59 (hpieces W hl) ++ nl ++ join nl R.
Proof.
  induction hl as [|tv r IH]; intros W R Hne HR; [congruence|]. cbn [map app hpieces SMTextFacts.with_sep].
  rewrite join_cons by (destruct r; [exact HR|discriminate]). unfold hline. destruct r as [|tv2 r'].
  - cbn [map app hpieces SMTextFacts.with_sep]. rewrite <- !app_assoc. cbn [app]. rewrite <- !app_assoc. reflexivity.
  - rewrite <- !app_assoc. cbn [app]. rewrite <- !app_assoc. cbn [app]. rewrite <- (IH nl R ltac:(discriminate) HR). reflexivity.
Qed.
Lemma cflat cds : forall W, cds <> [] ->
  W ++ join nl (concat (map ctexts cds)) = SMTextFacts.with_sep 59 (cpieces W cds) ++ [10; 10].
Proof.
  induction cds as [|cd r IH]; intros W Hne; [congruence|]. cbn [map concat cpieces SMTextFacts.with_sep]. rewrite ctexts_chead. unfold craw.
  destruct r as [|cd2 r'].
  - cbn [map concat cpieces SMTextFacts.with_sep]. rewrite app_nil_r. rewrite join_app by discriminate. cbn [join].
    rewrite <- !app_assoc. unfold nl. cbn [app]. reflexivity.
  - rewrite <- app_assoc. cbn [app]. rewrite join_app by discriminate.
    rewrite join_cons by (cbn [map concat]; rewrite ctexts_chead; discriminate).
    rewrite <- !app_assoc. unfold nl. cbn [app]. rewrite <- ?app_assoc. cbn [app].
    change (10 :: 10 :: 10 :: join [10] (concat (map ctexts (cd2 :: r')))) with ([10; 10; 10] ++ join nl (concat (map ctexts (cd2 :: r')))).
    rewrite (IH [10; 10; 10] ltac:(discriminate)). reflexivity.
Qed.
Theorem text_pieces hl cds : hl <> [] -> cds <> [] ->
  join nl (map hline hl ++ concat (map ctexts cds)) = SMTextFacts.with_sep 59 (hpieces [] hl ++ cpieces nl cds) ++ [10; 10].
Proof.
  intros H1 H2. assert (R : concat (map ctexts cds) <> []) by (destruct cds; [congruence|cbn [map concat]; rewrite ctexts_chead; discriminate]).
  pose proof (hflat hl [] _ H1 R) as E. cbn [app] in E. rewrite E, (cflat cds nl H2), with_sep_app, <- app_assoc. reflexivity.
Qed.

(* ------------------------------------------------------------------ header pieces *)
Definition htags : list text := map fst (hlist [] [] [] [] [] true).
Lemma hlist_tags t a b c d e : map fst (hlist t a b c d e) = htags.
Proof. reflexivity. Qed.

Lemma htags_check : forallb (fun W => forallb (fun tag =>
    head_ok (W ++ 35 :: tag) && negb (text_eqb (head_tag (W ++ 35 :: tag)) (tx "#NOTES"))
    && negb (existsb (Z.eqb 58) (W ++ 35 :: tag)) && negb (existsb (Z.eqb 47) (W ++ 35 :: tag))
    && negb (existsb (Z.eqb 59) (W ++ 35 :: tag))) htags) [[]; [10]] = true.
Proof. vm_compute. reflexivity. Qed.

Lemma existsb_notin c l : existsb (Z.eqb c) l = false -> ~ In c l.
Proof. intros H I. assert (existsb (Z.eqb c) l = true); [|congruence]. apply existsb_exists. exists c. split; [exact I|apply Z.eqb_refl]. Qed.

Lemma header_piece_ok W tag v : In W [[]; [10]] -> In tag htags -> ~ In 58 v -> contains (tx "//") v = false ->
  SMReadDom.piece_ok (W ++ (35 :: tag) ++ 58 :: v) = true /\ ~ In 59 (W ++ 35 :: tag).
Proof.
  intros HW Ht N58 Cv. pose proof htags_check as CK. rewrite forallb_forall in CK. specialize (CK W HW). rewrite forallb_forall in CK. specialize (CK tag Ht).
  repeat (apply andb_true_iff in CK; destruct CK as [CK ?]). repeat match goal with H : negb _ = true |- _ => apply negb_true_iff in H end.
  match goal with A : existsb (Z.eqb 58) _ = false, B : existsb (Z.eqb 47) _ = false, C : existsb (Z.eqb 59) _ = false |- _ =>
    apply existsb_notin in A; apply existsb_notin in B; apply existsb_notin in C; rename A into M58; rename B into M47; rename C into M59 end.
  split; [|exact M59]. rewrite app_assoc. set (q0 := W ++ 35 :: tag) in *. unfold SMReadDom.piece_ok.
  assert (Cp : contains (tx "//") (q0 ++ 58 :: v) = false).
  { change (q0 ++ 58 :: v) with (q0 ++ [58] ++ v). rewrite app_assoc, cs_skip_clean; [exact Cv|].
    intro K. apply in_app_or in K. destruct K as [K|[K|[]]]; [exact (M47 K)|discriminate]. }
  rewrite (sep_outside_clean 58 _ Cp). rewrite split_on_app by exact M58. rewrite split_on_no_sep by exact N58. cbv beta iota. unfold head_ok.
  rewrite CK. match goal with A : text_eqb (head_tag q0) _ = false, B : tag_tame (head_tag q0) = true |- _ => rewrite A, B end. unfold no_comment. rewrite Cv. reflexivity.
Qed.

(* ------------------------------------------------------------------ chart pieces *)
Definition cfield (x : text) : text := nl ++ sp5 ++ x.
Lemma craw_colon cd : craw cd = cd_comment cd ++ nl ++ tx "#NOTES" ++ 58 :: cfield (cd_ty cd) ++ 58 :: cfield (cd_desc cd) ++ 58 :: cfield (cd_diff cd)
                                 ++ 58 :: cfield (cd_meter cd) ++ 58 :: cfield (cd_radar cd) ++ 58 :: (nl ++ cd_body cd ++ nl).
Proof.
  unfold craw, chead, cfield. do 7 (rewrite join_cons by discriminate). cbn [join]. change (tx "#NOTES:") with (tx "#NOTES" ++ [58]).
  rewrite <- !app_assoc. unfold nl. cbn [app]. reflexivity.
Qed.

Lemma linech_facts c : linech c = true -> is_ws c = false /\ c <> 47 /\ c <> 58 /\ c <> 59.
Proof.
  intro H. split; [apply linech_nows; exact H|]. unfold linech, goodch in H.
  repeat split; intro E; subst c; vm_compute in H; discriminate.
Qed.
Lemma bodych_cases c : bodych c = true -> c = 44 \/ c = 10 \/ linech c = true.
Proof.
  unfold bodych, mch. intro H. apply orb_true_iff in H. destruct H as [H|H]; [left; apply Z.eqb_eq; exact H|].
  apply orb_true_iff in H. destruct H as [H|H]; [right; left; apply Z.eqb_eq; exact H|right; right; exact H].
Qed.

Section ChartPiece.
Variables (cd : cdata) (rest : text).
Hypothesis Hcom : cd_comment cd = 47 :: 47 :: rest.
Hypothesis Hr10 : ~ In 10 rest.
Hypothesis Hr58 : ~ In 58 rest.
Hypothesis Hr59 : ~ In 59 rest.
Hypothesis Hf : forall x, In x [cd_ty cd; cd_desc cd; cd_diff cd; cd_meter cd; cd_radar cd] ->
  ~ In 58 x /\ ~ In 59 x /\ contains (tx "//") x = false.
Hypothesis Hbody : forallb bodych (cd_body cd) = true.

Lemma body_no_c c : bodych c = false -> ~ In c (nl ++ cd_body cd ++ nl).
Proof.
  intros Hc K. apply in_app_or in K. destruct K as [[K|[]]|K]; [subst c; discriminate|]. apply in_app_or in K.
  destruct K as [K|[K|[]]]; [|subst c; discriminate]. rewrite forallb_forall in Hbody. rewrite (Hbody c K) in Hc. discriminate.
Qed.
Lemma cfield_no x c : In x [cd_ty cd; cd_desc cd; cd_diff cd; cd_meter cd; cd_radar cd] -> (c = 58 \/ c = 59) -> ~ In c (cfield x).
Proof.
  intros Hx Hc K. destruct (Hf x Hx) as (A & B & _). unfold cfield in K. apply in_app_or in K.
  destruct K as [[K|[]]|K]; [destruct Hc; subst c; discriminate|]. apply in_app_or in K.
  destruct K as [K|K]; [|destruct Hc; subst c; [exact (A K)|exact (B K)]].
  assert (forall y, In y sp5 -> y = 32) by (intros y Hy; unfold sp5 in Hy; cbn in Hy; intuition). rewrite (H c K) in Hc. destruct Hc; discriminate.
Qed.
Lemma cfield_clean x : In x [cd_ty cd; cd_desc cd; cd_diff cd; cd_meter cd; cd_radar cd] -> contains (tx "//") (cfield x) = false.
Proof.
  intro Hx. destruct (Hf x Hx) as (_ & _ & C). unfold cfield. rewrite app_assoc, cs_skip_clean; [exact C|].
  intro K. apply in_app_or in K. destruct K as [[K|[]]|K]; [discriminate|]. unfold sp5 in K. cbn in K. intuition discriminate.
Qed.

Lemma chart_piece_ok W : In W [[10]; [10; 10; 10]] -> SMReadDom.piece_ok (W ++ craw cd) = true /\ ~ In 59 (W ++ craw cd).
Proof.
  intro HW.
  assert (I1 : In (cd_ty cd) [cd_ty cd; cd_desc cd; cd_diff cd; cd_meter cd; cd_radar cd]) by (cbn; auto).
  assert (I2 : In (cd_desc cd) [cd_ty cd; cd_desc cd; cd_diff cd; cd_meter cd; cd_radar cd]) by (cbn; auto).
  assert (I3 : In (cd_diff cd) [cd_ty cd; cd_desc cd; cd_diff cd; cd_meter cd; cd_radar cd]) by (cbn; auto).
  assert (I4 : In (cd_meter cd) [cd_ty cd; cd_desc cd; cd_diff cd; cd_meter cd; cd_radar cd]) by (cbn; auto 6).
  assert (I5 : In (cd_radar cd) [cd_ty cd; cd_desc cd; cd_diff cd; cd_meter cd; cd_radar cd]) by (cbn; auto 6).
  set (q0 := W ++ cd_comment cd ++ nl ++ tx "#NOTES").
  set (c6 := nl ++ cd_body cd ++ nl).
  assert (Ep : W ++ craw cd = q0 ++ 58 :: cfield (cd_ty cd) ++ 58 :: cfield (cd_desc cd) ++ 58 :: cfield (cd_diff cd)
                               ++ 58 :: cfield (cd_meter cd) ++ 58 :: cfield (cd_radar cd) ++ 58 :: c6).
  { rewrite craw_colon. unfold q0. rewrite <- !app_assoc. reflexivity. }
  assert (WW : forall c, In c W -> c = 10) by (intros c Hc; destruct HW as [<-|[<-|[]]]; cbn in Hc; intuition).
  assert (Q58 : ~ In 58 q0).
  { unfold q0. rewrite Hcom. intro K. apply in_app_or in K. destruct K as [K|K]; [pose proof (WW _ K) as K2; discriminate K2|].
    cbn [app] in K. destruct K as [K|[K|K]]; try discriminate. apply in_app_or in K. destruct K as [K|K]; [exact (Hr58 K)|].
    cbn in K. intuition discriminate. }
  assert (Q59 : ~ In 59 q0).
  { unfold q0. rewrite Hcom. intro K. apply in_app_or in K. destruct K as [K|K]; [pose proof (WW _ K) as K2; discriminate K2|].
    cbn [app] in K. destruct K as [K|[K|K]]; try discriminate. apply in_app_or in K. destruct K as [K|K]; [exact (Hr59 K)|].
    cbn in K. intuition discriminate. }
  assert (B58 : ~ In 58 c6) by (apply body_no_c; reflexivity). assert (B59 : ~ In 59 c6) by (apply body_no_c; reflexivity).
  split.
  2:{ rewrite Ep. intro K. repeat (apply in_app_or in K; destruct K as [K|K]; [first [exact (Q59 K)|revert K; apply cfield_no; auto]|destruct K as [K|K]; [discriminate|]]).
      exact (B59 K). }
  assert (B47 : ~ In 47 c6) by (apply body_no_c; reflexivity).
  assert (Cc6 : contains (tx "//") c6 = false) by (apply (SMTextFacts.contains_absent _ _ 47); [cbn; auto|exact B47]).
  set (REST := tx "#NOTES" ++ 58 :: cfield (cd_ty cd) ++ 58 :: cfield (cd_desc cd) ++ 58 :: cfield (cd_diff cd)
                               ++ 58 :: cfield (cd_meter cd) ++ 58 :: cfield (cd_radar cd) ++ 58 :: c6).
  assert (CR : contains (tx "//") REST = false).
  { unfold REST. rewrite cs_skip_tame by (try reflexivity; discriminate).
    do 5 (rewrite cs_skip_tame by (try (apply cfield_clean; assumption); discriminate)). exact Cc6. }
  assert (Ep2 : W ++ craw cd = W ++ (47 :: 47 :: rest) ++ 10 :: REST).
  { rewrite craw_colon, Hcom. unfold REST, c6, nl. cbn [app]. reflexivity. }
  assert (N10c : ~ In 10 (47 :: 47 :: rest)) by (intros [K|[K|K]]; [discriminate|discriminate|exact (Hr10 K)]).
  unfold SMReadDom.piece_ok. apply andb_true_iff. split.
  - rewrite Ep2. assert (G : sep_outside 58 false ((47 :: 47 :: rest) ++ 10 :: REST) = true).
    { rewrite sep_outside_nl, sep_outside_comment_line by (assumption || reflexivity). apply sep_outside_clean. exact CR. }
    destruct HW as [<-|[<-|[]]]; cbn [app sep_outside]; change (10 =? 10) with true; cbv iota; exact G.
  - rewrite Ep. rewrite split_on_app by exact Q58. do 5 (rewrite split_on_app by (apply cfield_no; auto)). rewrite split_on_no_sep by exact B58. cbv beta iota.
    assert (SQ : split_on 10 q0 = map (fun _ => []) W ++ [47 :: 47 :: rest; tx "#NOTES"]).
    { unfold q0. rewrite Hcom. assert (S0 : split_on 10 (47 :: 47 :: rest ++ nl ++ tx "#NOTES") = [47 :: 47 :: rest; tx "#NOTES"]).
      { unfold nl. cbn [app]. change (47 :: 47 :: rest ++ 10 :: tx "#NOTES") with ((47 :: 47 :: rest) ++ 10 :: tx "#NOTES").
        rewrite split_on_app by exact N10c. rewrite split_on_no_sep; [reflexivity|]. vm_compute. intuition discriminate. }
      destruct HW as [<-|[<-|[]]]; cbn [app map]; rewrite !SMTextFacts.split_on_sep, S0; reflexivity. }
    assert (HO : head_ok q0 = true /\ head_tag q0 = tx "#NOTES").
    { unfold head_ok, head_tag. rewrite SQ. destruct HW as [<-|[<-|[]]]; cbn [map app removelast last forallb]; (split; [|reflexivity]);
      unfold blank_or_comment; cbn [all_ws forallb orb]; change (lstrip (47 :: 47 :: rest)) with (47 :: 47 :: rest);
      change (starts_with (tx "//") (47 :: 47 :: rest)) with true; reflexivity. }
    destruct HO as [HO1 HO2]. rewrite HO1, HO2. change (text_eqb (tx "#NOTES") (tx "#NOTES")) with true. cbv iota. cbn [andb forallb].
    unfold no_comment. rewrite !cfield_clean by assumption. cbn [negb andb].
    unfold data_ok. rewrite (sep_outside_clean 44 _ Cc6). cbn [andb]. apply forallb_forall. intros m Hm. apply forallb_forall. intros l Hl.
    assert (CH : forall x, In x l -> linech x = true).
    { intros x Hx. assert (Xm : In x m) by exact (split_piece_in 10 m l x Hl Hx). assert (Xc : In x c6) by exact (split_piece_in 44 c6 m x Hm Xm).
      assert (Bx : bodych x = true) by (destruct (bodych x) eqn:E; [reflexivity|exfalso; exact (body_no_c x E Xc)]).
      destruct (bodych_cases x Bx) as [->|[->|L]]; [| |exact L].
      - exfalso. pose proof (split_pieces_no_sep 44 c6) as F. rewrite Forall_forall in F. exact (F m Hm Xm).
      - exfalso. pose proof (split_pieces_no_sep 10 m) as F. rewrite Forall_forall in F. exact (F l Hl Hx). }
    unfold line_ok. rewrite (SMTextFacts.contains_absent (tx "//") l 47) by (cbn; auto; intro K; destruct (linech_facts _ (CH _ K)) as (_ & A & _); congruence).
    apply negb_true_iff. apply not_true_is_false. intro K. apply existsb_exists in K. destruct K as (x & Hx & Wx).
    destruct (linech_facts _ (CH _ Hx)) as (A & _). congruence.
Qed.
End ChartPiece.

(* ------------------------------------------------------------------ all pieces *)
Definition hval_ok (v : text) : Prop := ~ In 58 v /\ ~ In 59 v /\ contains (tx "//") v = false.
Lemma hpieces_ok hl : forall W, In W [[]; [10]] -> Forall (fun tv : text * text => In (fst tv) htags /\ hval_ok (snd tv)) hl ->
  Forall (fun p => SMReadDom.piece_ok p = true /\ ~ In 59 p) (hpieces W hl).
Proof.
  induction hl as [|tv r IH]; intros W HW F; [constructor|]. inversion F as [|? ? [Ht (A & B & C)] F']; subst. cbn [hpieces]. constructor.
  - destruct (header_piece_ok W (fst tv) (snd tv) HW Ht A C) as [P N]. split; [exact P|].
    rewrite app_assoc. intro K. apply in_app_or in K. destruct K as [K|[K|K]]; [exact (N K)|discriminate|exact (B K)].
  - apply IH; [cbn; auto|exact F'].
Qed.

Definition cd_ok (cd : cdata) : Prop :=
  exists rest, cd_comment cd = 47 :: 47 :: rest /\ ~ In 10 rest /\ ~ In 58 rest /\ ~ In 59 rest
    /\ (forall x, In x [cd_ty cd; cd_desc cd; cd_diff cd; cd_meter cd; cd_radar cd] -> ~ In 58 x /\ ~ In 59 x /\ contains (tx "//") x = false)
    /\ forallb bodych (cd_body cd) = true.
Lemma cpieces_ok cds : forall W, In W [[10]; [10; 10; 10]] -> Forall cd_ok cds ->
  Forall (fun p => SMReadDom.piece_ok p = true /\ ~ In 59 p) (cpieces W cds).
Proof.
  induction cds as [|cd r IH]; intros W HW F; [constructor|]. inversion F as [|? ? (rest & A & B & C & D & E & G) F']; subst. cbn [cpieces]. constructor.
  - exact (chart_piece_ok cd rest A B C D E G W HW).
  - apply IH; [cbn; auto|exact F'].
Qed.

(* ------------------------------------------------------------------ no ';' inside a comment *)
Lemma hline_clean tv : In (fst tv) htags -> contains (tx "//") (snd tv) = false -> contains (tx "//") (hline tv) = false.
Proof.
  intros Ht C. pose proof htags_check as CK. rewrite forallb_forall in CK. specialize (CK [] (or_introl eq_refl)). rewrite forallb_forall in CK. specialize (CK _ Ht).
  repeat (apply andb_true_iff in CK; destruct CK as [CK ?]). repeat match goal with H : negb _ = true |- _ => apply negb_true_iff in H end.
  match goal with B : existsb (Z.eqb 47) _ = false |- _ => apply existsb_notin in B; rename B into M47 end. cbn [app] in M47.
  unfold hline. change ((35 :: fst tv) ++ 58 :: snd tv ++ [59]) with ((35 :: fst tv) ++ [58] ++ snd tv ++ [59]). rewrite app_assoc.
  rewrite cs_skip_clean; [|intro K; apply in_app_or in K; destruct K as [K|[K|[]]]; [exact (M47 K)|discriminate]].
  change (snd tv ++ [59]) with (snd tv ++ 59 :: []). rewrite cs_skip_tame by (exact C || discriminate). reflexivity.
Qed.
Lemma ctexts_sep59 cd : cd_ok cd -> forallb (sep_outside 59 false) (ctexts cd) = true.
Proof.
  intros (rest & A & B & C & D & E & G).
  assert (F : forall x, In x [cd_ty cd; cd_desc cd; cd_diff cd; cd_meter cd; cd_radar cd] -> sep_outside 59 false (sp5 ++ x ++ [58]) = true).
  { intros x Hx. destruct (E x Hx) as (_ & _ & Cx). apply sep_outside_clean. rewrite cs_skip_clean by (unfold sp5; cbn; intuition discriminate).
    change (x ++ [58]) with (x ++ 58 :: []). rewrite cs_skip_tame by (exact Cx || discriminate). reflexivity. }
  unfold ctexts. cbn [forallb]. rewrite A, sep_outside_comment_line by (assumption || reflexivity).
  rewrite !F by (cbn; auto 8). cbn [andb].
  rewrite (sep_outside_clean 59 (cd_body cd)).
  - vm_compute. reflexivity.
  - apply (SMTextFacts.contains_absent _ _ 47); [cbn; auto|]. intro K. rewrite forallb_forall in G. specialize (G _ K). vm_compute in G. discriminate.
Qed.
Lemma sep59_lines hl cds : hl <> [] -> Forall (fun tv : text * text => In (fst tv) htags /\ hval_ok (snd tv)) hl -> Forall cd_ok cds ->
  sep_outside 59 false (join nl (map hline hl ++ concat (map ctexts cds))) = true.
Proof.
  intros Hne F1 F2. unfold nl. rewrite sep_outside_join by (destruct hl; [congruence|discriminate]). rewrite forallb_app. apply andb_true_iff. split.
  - apply forallb_forall. intros x Hx. apply in_map_iff in Hx. destruct Hx as (tv & <- & Hx). rewrite Forall_forall in F1.
    destruct (F1 tv Hx) as (Ht & _ & _ & C). apply sep_outside_clean. apply hline_clean; assumption.
  - induction F2 as [|cd r H F2 IH]; [reflexivity|]. cbn [map concat]. rewrite forallb_app, (ctexts_sep59 cd H), IH. reflexivity.
Qed.

(* ------------------------------------------------------------------ the dialect of the written text *)
Lemma removelast_snoc {A} (l : list A) x : removelast (l ++ [x]) = l.
Proof. apply removelast_last. Qed.
Theorem written_dialect hl cds : hl <> [] -> cds <> [] ->
  Forall (fun tv : text * text => In (fst tv) htags /\ hval_ok (snd tv)) hl -> Forall cd_ok cds ->
  dialect2 (join nl (map hline hl ++ concat (map ctexts cds))) = true.
Proof.
  intros H1 H2 F1 F2. unfold dialect2. rewrite (sep59_lines hl cds H1 F1 F2). cbn [andb]. rewrite (text_pieces hl cds H1 H2).
  assert (P : Forall (fun p => SMReadDom.piece_ok p = true /\ ~ In 59 p) (hpieces [] hl ++ cpieces nl cds)).
  { apply Forall_app. split; [apply hpieces_ok; [cbn; auto|exact F1]|apply cpieces_ok; [cbn; auto|exact F2]]. }
  rewrite split_with_sep.
  - cbv zeta. rewrite last_last, removelast_snoc. apply andb_true_iff. split; [reflexivity|]. apply forallb_forall. intros p Hp.
    rewrite Forall_forall in P. exact (proj1 (P p Hp)).
  - eapply Forall_impl; [|exact P]. cbv beta. tauto.
  - cbn. intuition discriminate.
Qed.

(* ------------------------------------------------------------------ the header items *)
Lemma hdr_written txt n_off bpmv n_ss n_sl sel x1 ps x3 x4 :
  parse_decimal (strip n_off) = Some x1 -> SMReadDom.bpms_parse (strip bpmv) = Some ps ->
  parse_decimal (strip n_ss) = Some x3 -> parse_decimal (strip n_sl) = Some x4 ->
  hdr_scan false false (hfields (hlist txt n_off bpmv n_ss n_sl sel)) = true.
Proof.
  intros E1 E2 E3 E4. unfold hfields, hlist. cbn [map fst snd].
  revert E1 E2 E3 E4. generalize (strip n_off) (strip bpmv) (strip n_ss) (strip n_sl). intros a b c d E1 E2 E3 E4.
  repeat match goal with |- context [strip (nth ?i txt [])] => generalize (strip (nth i txt [])); intro end.
  destruct sel; cbv - [parse_decimal SMReadDom.bpms_parse]; rewrite E1, E2, E3, E4; reflexivity.
Qed.

(* ------------------------------------------------------------------ the tempo beats *)
Lemma tempo_guard_ok (pairs : list (Q * Q)) (rows : list (Q * Q * Q)) (f : Q * Q * Q -> Q) (tm : Q * Q -> Q) :
  Forall2 (fun p r => fst p == f r) pairs rows ->
  forallb (fun b => on_grid48 b && Qle_bool 0 b) (map f rows) = true -> distinct_q (map f rows) = true ->
  forallb (fun tp : Q * Q * Q => on_grid48 (fst (fst tp))) (map (fun p : Q * Q => (fst p, snd p, tm p)) (sort_by pair_lt pairs)) = true
  /\ distinct_q (map (fun tp : Q * Q * Q => fst (fst tp)) (map (fun p : Q * Q => (fst p, snd p, tm p)) (sort_by pair_lt pairs))) = true
  /\ forallb (fun p : Q * Q => Qle_bool 0 (fst p)) pairs = true.
Proof.
  intros F G D.
  assert (GG : forall p, In p pairs -> on_grid48 (fst p) = true /\ (0 <= fst p)%Q).
  { intros p Hp. destruct (forall2_in_l _ _ _ _ F Hp) as (r & Hr & E). rewrite forallb_forall in G.
    specialize (G (f r) (in_map f _ _ Hr)). apply andb_true_iff in G. destruct G as [G1 G2]. rewrite (on_grid48_comp _ _ E). split; [exact G1|].
    apply Qle_bool_iff in G2. rewrite E. exact G2. }
  split; [|split].
  - apply forallb_forall. intros tp Ht. apply in_map_iff in Ht. destruct Ht as (p & <- & Hp). cbn [fst]. apply GG.
    exact (Permutation_in _ (Permutation_sym (sort_by_perm pair_lt pairs)) Hp).
  - rewrite map_map. cbn [fst]. apply distinct_q_FOP. apply (FOP_perm_q (map fst pairs)); [apply Permutation_map; apply sort_by_perm|].
    apply (FOP_forall2 _ (map f rows)); [|apply distinct_q_FOP; exact D]. clear -F. induction F; cbn [map]; constructor; assumption.
  - apply forallb_forall. intros p Hp. apply Qle_bool_iff. exact (proj2 (GG p Hp)).
Qed.

(* ------------------------------------------------------------------ the values the writer prints *)
Lemma hval_dec v : negb (existsb (Z.eqb 58) v) && negb (existsb (Z.eqb 59) v) && negb (existsb (Z.eqb 47) v) = true -> hval_ok v.
Proof.
  intro H. repeat (apply andb_true_iff in H; destruct H as [H ?]). repeat match goal with A : negb _ = true |- _ => apply negb_true_iff in A; apply existsb_notin in A end.
  split; [assumption|]. split; [assumption|]. apply (SMTextFacts.contains_absent _ _ 47); [cbn; auto|assumption].
Qed.
Lemma hval_no v : ~ In 58 v -> ~ In 59 v -> ~ In 47 v -> hval_ok v.
Proof. intros A B C. split; [exact A|]. split; [exact B|]. apply (SMTextFacts.contains_absent _ _ 47); [cbn; auto|exact C]. Qed.
Lemma tame_hval v : tame_str v = true -> hval_ok v.
Proof. intro H. destruct (tame_parts v H) as (A & B & _ & C & _). split; [exact B|]. split; [exact A|exact C]. Qed.
Lemma numeral_hval n : numeral n = true -> hval_ok n.
Proof. intro H. apply hval_no; apply (numeral_no _ _ H); reflexivity. Qed.
Lemma show_int_hval z : hval_ok (show_int z).
Proof. apply hval_no; apply show_int_no; reflexivity. Qed.
Lemma bpmv_hval bp pairs : Forall2 pair_ok bp pairs -> hval_ok (join [44; 10] (map ptext bp)).
Proof.
  intro F. set (t := join _ _).
  assert (Hch : forallb (fun c => is_num_char c || (c =? 61) || (c =? 44) || (c =? 10)) t = true).
  { apply join_chars; [reflexivity|]. apply Forall_forall. intros x Hx. apply in_map_iff in Hx. destruct Hx as [ab [<- Hab]].
    destruct (forall2_in_l _ _ _ _ F Hab) as [p [_ [N1 [N2 _]]]]. unfold ptext. rewrite forallb_app. cbn [forallb].
    unfold numeral in N1, N2. rewrite !andb_true_iff. split; [|split; [reflexivity|]]; apply forallb_forall; intros c Hc.
    - rewrite forallb_forall in N1. rewrite (N1 c Hc). reflexivity.
    - rewrite forallb_forall in N2. rewrite (N2 c Hc). reflexivity. }
  apply hval_no; apply (forallb_not_in _ _ _ Hch); reflexivity.
Qed.
Lemma radar_hval rn rd : Forall2 rad_ok rn rd -> hval_ok (join [44] rn).
Proof.
  intro F. destruct rn as [|a rn]; [apply hval_dec; reflexivity|].
  destruct (radar_text_ok (a :: rn) rd ltac:(discriminate) F) as (A & B & C & _). apply hval_no; assumption.
Qed.

Lemma in_htags t : existsb (text_eqb t) htags = true -> In t htags.
Proof. intro H. apply existsb_exists in H. destruct H as (x & Hx & E). apply SMReadMeta.text_eqb_eq in E. subst x. exact Hx. Qed.

Lemma hlist_ok txt n_off bpmv n_ss n_sl sel : forallb tame_str txt = true -> hval_ok n_off -> hval_ok bpmv -> hval_ok n_ss -> hval_ok n_sl ->
  Forall (fun tv : text * text => In (fst tv) htags /\ hval_ok (snd tv)) (hlist txt n_off bpmv n_ss n_sl sel).
Proof.
  intros T A B C D. assert (TT : forall i, hval_ok (nth i txt [])) by (intro i; apply tame_hval; apply tame_nth; exact T).
  unfold hlist. repeat (constructor; [split; [cbn [fst]; apply in_htags; vm_compute; reflexivity|cbn [snd]; try assumption; try apply TT]|]).
  - apply hval_dec. reflexivity.
  - destruct sel; apply hval_dec; reflexivity.
  - constructor.
Qed.

Lemma mk_cd_ok c body rn rd : tame_str (c_type c) = true -> tame_str (c_desc c) = true -> tame_str (c_diff c) = true ->
  Forall2 rad_ok rn rd -> forallb bodych body = true -> cd_ok (mk_cd c body rn).
Proof.
  intros T1 T2 T3 FR HB.
  destruct (tame_parts _ T1) as (A1 & A2 & A3 & _). destruct (tame_parts _ T3) as (C1 & C2 & C3 & _).
  exists (tx "------" ++ (c_type c ++ (tx "[" ++ (show_int (c_meter c) ++ (tx " " ++ (c_diff c ++ tx "]------")))))).
  assert (NI : forall x, is_digit x || (x =? 45) = false -> In x [10; 58; 59] ->
            ~ In x (tx "------" ++ (c_type c ++ (tx "[" ++ (show_int (c_meter c) ++ (tx " " ++ (c_diff c ++ tx "]------"))))))).
  { intros x Hd Hx K. apply in_app_or in K. destruct K as [K|K]; [cbn in K, Hx; intuition congruence|].
    apply in_app_or in K. destruct K as [K|K]; [cbn in Hx; intuition (subst; tauto)|].
    apply in_app_or in K. destruct K as [K|K]; [cbn in K, Hx; intuition congruence|].
    apply in_app_or in K. destruct K as [K|K]; [exact (show_int_no _ _ Hd K)|].
    apply in_app_or in K. destruct K as [K|K]; [cbn in K, Hx; intuition congruence|].
    apply in_app_or in K. destruct K as [K|K]; [cbn in Hx; intuition (subst; tauto)|]. cbn in K, Hx; intuition congruence. }
  split; [reflexivity|]. split; [apply NI; [reflexivity|cbn; auto]|]. split; [apply NI; [reflexivity|cbn; auto]|]. split; [apply NI; [reflexivity|cbn; auto]|].
  split; [|exact HB]. unfold mk_cd. cbn [cd_ty cd_desc cd_diff cd_meter cd_radar]. intros x Hx.
  destruct Hx as [<-|[<-|[<-|[<-|[<-|[]]]]]]; [apply tame_hval; exact T1|apply tame_hval; exact T2|apply tame_hval; exact T3|apply show_int_hval|apply (radar_hval rn rd FR)].
Qed.

(* ------------------------------------------------------------------ THE theorem *)
Definition readback_guard (s : smset) : bool := readback_guard_gen live_conf s.

Theorem reader_facts_in_reader_domain s txt : readback_guard s = true -> reader_facts live_conf s txt -> c02_domb txt = true.
Proof.
  intros G (n_off & x_off & bp & pairs & n_ss & x_ss & n_sl & x_sl & cds & dcs & init & l & c0 & cs & RF). cbv zeta in RF.
  destruct RF as (Em & Et & Htx & Etxt & (N1 & P1) & (N2 & P2) & (N3 & P3) & Hbp & FP & FB & SD & R4 & FC).
  unfold readback_guard, readback_guard_gen in G. rewrite Em, Et in G. cbv zeta in G. apply andb_true_iff in G. destruct G as [G1 G2].
  unfold c02_domb. rewrite SD.
  destruct (tempo_guard_ok pairs (c_bpms c0) (fun r => spec_beat init l (fst (fst r)))
              (fun p => beat_time (Qred (- (x_off * 1000))) (tempo_script pairs) (fst p)) FB G1 G2) as (T1 & T2 & T3). cbv beta in T1, T2.
  apply andb_true_iff; split; [apply andb_true_iff; split|].
  - unfold c02_dom. cbn [d_charts d_tempo]. rewrite T1, T2, !andb_true_r. apply forallb_forall. intros dc Hdc. apply forallb_forall. intros n Hn.
    rewrite Forall_forall in R4. specialize (R4 dc Hdc). rewrite Forall_forall in R4. apply Z.eqb_eq. exact (R4 n Hn).
  - rewrite Etxt. apply written_dialect.
    + discriminate.
    + rewrite Em in FC. inversion FC. discriminate.
    + apply hlist_ok; [exact Htx|apply numeral_hval; exact N1|apply (bpmv_hval bp pairs FP)|apply numeral_hval; exact N2|apply numeral_hval; exact N3].
    + clear -FC. induction FC as [|c cd a b (body & rn & rd & -> & FR & HB & _ & HC) _ IH]; constructor; [|exact IH].
      destruct (chart_dom_parts live_conf c0 c init l HC) as (keys & _ & _ & T1 & T2 & T3 & _). exact (mk_cd_ok c body rn rd T1 T2 T3 FR HB).
  - unfold hdr_ok. cbn [d_items]. destruct (bpms_text_ok bp pairs Hbp FP) as (_ & _ & Q3 & Q4).
    apply (hdr_written _ _ _ _ _ _ x_off pairs x_ss x_sl).
    + rewrite numeral_strip by exact N1. exact P1.
    + rewrite strip_id by assumption. unfold SMReadDom.bpms_parse. rewrite (SMWriteWholeFile.bpms_parse bp pairs Hbp FP), T3. reflexivity.
    + rewrite numeral_strip by exact N2. exact P2.
    + rewrite numeral_strip by exact N3. exact P3.
Qed.
