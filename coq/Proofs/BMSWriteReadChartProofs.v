(* C05 o C04 with chart-level hypotheses only: for a chart of write_dom_any that satisfies header_guards, the written
   text lies in the reader's text-level domain (written_text_dom), every tempo object of it sits on a measure line, so
   BMSMap.read of BMSMap.write RETURNS, and returns the chart written (bms_write_read_chart). *)
From Coq Require Import ZArith QArith Qround Qabs List Bool Lia Lqa Sorting.Permutation Sorting.Sorted.
From RV Require Import Base.PyNum Timing.Snapper Timing.Snap Timing.TimingMap Timing.Integrate Timing.Domain Timing.Domain2
  Formats.BMSText Formats.BMS Formats.BMSSpec Formats.BMSGuards Proofs.SnapperProofs Proofs.TimingProofs Proofs.RederiveProofs
  Proofs.TimingProofs2 Proofs.BMSProofs Proofs.BMSDenoteProofs Proofs.BMSParseProofs Proofs.BMSWriteProofs Proofs.BMSWriteTimingProofs
  Proofs.BMSWriteLaneProofs Proofs.BMSWriteLanesProofs Proofs.BMSWriteDenoteProofs Proofs.BMSWriteFinalProofs Proofs.BMSRoundTripProofs
  Proofs.BMSWriteAnyOrderProofs Proofs.BMSWriteGuardsProofs Proofs.BMSWrittenTextProofs Proofs.BMSReadReturnsProofs Proofs.BMSReadTempoProofs.
Import ListNotations.
Open Scope Z_scope.

Local Arguments text_eqb : simpl never.

(* ================================================================ A. tempo objects at distinct positions ================================================================ *)
Lemma same_pos_snap_eq a b : same_pos a b = true -> snap_eq (snap_of a) (snap_of b) = true.
Proof.
  unfold same_pos, snap_eq, snap_of, BEATS_PER_MEASURE. cbn [s_m s_b]. intro H. apply andb_true_iff in H. destruct H as [H1 H2].
  rewrite H1. cbn [andb]. apply Qeq_bool_iff in H2. apply Qeq_bool_iff. rewrite !Qred_correct, H2. reflexivity.
Qed.

Lemma pos_eqb_sym x y : pos_eqb x y = pos_eqb y x.
Proof.
  unfold pos_eqb, snap_eq. rewrite (Z.eqb_sym (s_m (bs_snap x))).
  f_equal. destruct (Qeq_bool (s_b (bs_snap x)) (s_b (bs_snap y))) eqn:E; symmetry.
  - apply Qeq_bool_iff. apply Qeq_bool_iff in E. symmetry. exact E.
  - destruct (Qeq_bool (s_b (bs_snap y)) (s_b (bs_snap x))) eqn:E2; [|reflexivity].
    apply Qeq_bool_iff in E2. assert (Qeq_bool (s_b (bs_snap x)) (s_b (bs_snap y)) = true) by (apply Qeq_bool_iff; symmetry; exact E2). congruence.
Qed.

Lemma strict_nodup_pos l : StronglySorted (LT bcs_lt) l -> no_dup_by pos_eqb l = true.
Proof.
  induction 1 as [|a l Ss IH Fa]; [reflexivity|]. cbn [no_dup_by]. rewrite IH, andb_true_r. apply negb_true_iff.
  destruct (existsb (pos_eqb a) l) eqn:X; [|reflexivity]. exfalso. apply existsb_exists in X. destruct X as [b [Ib Eb]].
  rewrite Forall_forall in Fa. pose proof (Fa b Ib) as Lt. unfold LT, bcs_lt in Lt. apply snap_lt_iff in Lt.
  unfold pos_eqb, snap_eq in Eb. apply andb_true_iff in Eb. destruct Eb as [E1 E2]. apply Z.eqb_eq in E1. apply Qeq_bool_iff in E2.
  destruct Lt as [Lt|[_ Lt]]; [lia|lra].
Qed.

Lemma tempo_objs_member ext : forall os tl o, tempo_objs ext os = Some tl -> In o (filter tchan os) ->
  exists cc, In cc tl /\ bs_snap cc = snap_of o.
Proof.
  induction os as [|x r IH]; intros tl o H I; [contradiction|]. rewrite tempo_objs_cons in H.
  destruct (tempo_objs ext r) as [l|] eqn:E.
  2:{ destruct (tempo_of_obj ext x) as [[q|]|]; discriminate. }
  cbn [filter] in I. destruct (tempo_of_obj ext x) as [[q|]|] eqn:T.
  - inversion H; subst tl. destruct (tchan x).
    + destruct I as [<-|I]; [eexists; split; [left; reflexivity|reflexivity]|].
      destruct (IH l o eq_refl I) as [cc [Ic Ec]]. exists cc. split; [right; exact Ic|exact Ec].
    + destruct (IH l o eq_refl I) as [cc [Ic Ec]]. exists cc. split; [right; exact Ic|exact Ec].
  - discriminate.
  - inversion H; subst tl. assert (Tc : tchan x = false).
    { unfold tempo_of_obj in T. unfold tchan, is_tempo_chan. destruct (text_eqb (o_chan x) CH_BPM); [destruct (hex_parse2 (o_id x)); discriminate|].
      destruct (text_eqb (o_chan x) CH_EXBPM); [destruct (hlookup (o_id x) ext); discriminate|reflexivity]. }
    rewrite Tc in I. apply (IH l o eq_refl I).
Qed.

Lemma tempo_objs_nodup_back ext : forall os tl, tempo_objs ext os = Some tl -> no_dup_by pos_eqb tl = true ->
  no_dup_by same_pos (filter tchan os) = true.
Proof.
  induction os as [|x r IH]; intros tl H N; [reflexivity|]. rewrite tempo_objs_cons in H.
  destruct (tempo_objs ext r) as [l|] eqn:E.
  2:{ destruct (tempo_of_obj ext x) as [[q|]|]; discriminate. }
  cbn [filter]. destruct (tempo_of_obj ext x) as [[q|]|] eqn:T.
  - inversion H; subst tl. cbn [no_dup_by] in N. apply andb_true_iff in N. destruct N as [N1 N2].
    assert (Tc : tchan x = true) by (apply (tempo_of_obj_tchan ext); congruence). rewrite Tc. cbn [no_dup_by].
    rewrite (IH l eq_refl N2), andb_true_r. apply negb_true_iff. apply negb_true_iff in N1.
    destruct (existsb (same_pos x) (filter tchan r)) eqn:X; [|reflexivity]. exfalso. apply existsb_exists in X. destruct X as [o [Io Eo]].
    destruct (tempo_objs_member ext r l o E Io) as [cc [Ic Ec]].
    assert (existsb (pos_eqb (mkBcs q BEATS_PER_MEASURE (snap_of x))) l = true); [|congruence].
    apply existsb_exists. exists cc. split; [exact Ic|]. unfold pos_eqb. cbn [bs_snap]. rewrite Ec. apply same_pos_snap_eq. exact Eo.
  - discriminate.
  - inversion H; subst tl. assert (Tc : tchan x = false).
    { unfold tempo_of_obj in T. unfold tchan, is_tempo_chan. destruct (text_eqb (o_chan x) CH_BPM); [destruct (hex_parse2 (o_id x)); discriminate|].
      destruct (text_eqb (o_chan x) CH_EXBPM); [destruct (hlookup (o_id x) ext); discriminate|reflexivity]. }
    rewrite Tc. apply (IH l eq_refl N).
Qed.

(* ================================================================ B. the written text ================================================================ *)
Lemma line_good_ok ln : line_good ln -> line_ok ln /\ data_cond ln.
Proof.
  intros [S [K Nts]]. split; [split; [exact S|]|].
  - unfold data_line_ok in K. destruct (data_line ln) as [[[m ch] data]|] eqn:E; [|discriminate].
    destruct (data_line_digit _ _ _ _ E) as [a [b [c [x [y [Et [_ [Da _]]]]]]]]. subst ln. cbn [line_kind_ok]. rewrite Da.
    unfold data_line_ok. rewrite E. exact K.
  - intros m ch data E. split; [exact K|apply (Nts m ch data E)].
Qed.

Section Written.
  Variable tbl : list Q.
  Hypothesis Hok : table_ok (1 # 96) tbl = true.

  Theorem written_text_dom (mk : Z) (lay : layout) (dflt : text) (c : wchart) (r : Q -> text) (ls : list wline) :
    write_dom_any tbl mk lay dflt c = true -> header_guards c = true ->
    (forall q, parse_decimal (r q) <> None) -> (forall q, text_end_ok (r q) = true) ->
    bms_write tbl lay dflt c = Some ls ->
    text_dom lay (map (render_with r) ls) /\ bms_tempo_on_lines (map (render_with r) ls) = true.
  Proof.
    intros Hd Hg Hr Hre Hw.
    destruct (bms_write_denotes_any_order tbl Hok mk lay dflt c r Hd Hr) as [ls' [l' [d [W1 [W2 [W3 [W4 _]]]]]]].
    rewrite Hw in W1. inversion W1; subst ls'. clear W1.
    unfold write_dom_any in Hd. set (cs := time_ordered c) in *.
    assert (Lok : layout_ok mk lay = true).
    { unfold write_dom in Hd. apply andb_true_iff in Hd. destruct Hd as [X _]. apply andb_true_iff in X. destruct X as [X _].
      apply andb_true_iff in X. destruct X as [X _]. apply andb_true_iff in X. destruct X as [X _]. exact X. }
    assert (HP : Permutation (w_bpms c) (w_bpms cs)) by (unfold cs, time_ordered; cbn [w_bpms with_bpms]; apply sort_by_perm).
    assert (Ec : with_bpms cs (w_bpms c) = c) by (unfold cs, time_ordered; rewrite with_bpms_twice, with_bpms_id; reflexivity).
    destruct (write_dom_measure_lines tbl mk lay dflt cs Hd) as [B0 [brest [EB ML]]].
    destruct (write_dom_unpack tbl mk lay dflt cs Hd) as [l [b0s [rests [sh [sa [st [sbs [_ D]]]]]]]].
    destruct (any_snaps tbl Hok _ _ _ _ _ _ _ _ _ _ _ D (w_bpms c) HP) as [sb [Esn Hsb]].
    destruct (w_bpms c) as [|b0 rest0] eqn:Ep.
    { apply Permutation_nil in HP. rewrite EB in HP. discriminate. }
    rewrite <- Ep in *.
    destruct (any_written_facts tbl Hok _ _ _ _ _ _ _ _ _ _ _ D (w_bpms c) HP sb b0 rest0 Ep Esn Hsb r)
      as [ls0 [tempos [Ts [Ew [Enl [Frow [Eh [Eo [Etp [Ptp [Escr Tsim]]]]]]]]]]].
    destruct (any_note_lines tbl Hok _ _ _ _ _ _ _ _ _ _ _ D (w_bpms c) HP sb Hsb) as [ls1 [Enl1 [Pobjs Fdata]]].
    rewrite Enl in Enl1. inversion Enl1; subst ls1. clear Enl1.
    rewrite Ec in *.
    assert (Els : ls = header_lines c b0 ++ [WText []] ++ map WText ls0) by congruence. subst ls. clear Ew.
    set (ALL := RHc cs dflt sh ++ RAc cs dflt sa ++ RTc cs st) in *.
    pose proof (wd_lay _ _ _ _ _ _ _ _ _ _ _ _ D) as LF. pose proof (wd_keys _ _ _ _ _ _ _ _ _ _ _ _ D) as HK.
    (* the fields other than the tempo rows are those of c *)
    assert (Em : w_misc cs = w_misc c) by reflexivity. assert (Esm : w_samples cs = w_samples c) by reflexivity.
    assert (Eln : w_lnobj cs = w_lnobj c) by reflexivity.
    pose proof (wd_misc _ _ _ _ _ _ _ _ _ _ _ _ D) as Hmisc. rewrite Em in Hmisc.
    pose proof (wd_lnobj _ _ _ _ _ _ _ _ _ _ _ _ D) as HLN. rewrite Eln in HLN.
    assert (Hsk : Forall (fun kv : text * text => is_b36_pair (fst kv) = true) (w_samples c)).
    { pose proof (wd_smp _ _ _ _ _ _ _ _ _ _ _ _ D) as F. rewrite Esm, Eln in F. eapply Forall_impl; [|exact F]. intros kv K. apply (id_ok_facts _ _ K). }
    assert (Ln : (length (w_bpms c) < MAX_BPMS)%nat).
    { rewrite (Permutation_length HP). apply (wd_len _ _ _ _ _ _ _ _ _ _ _ _ D). }
    (* the lines *)
    destruct (written_header r c b0 Ln (proj1 HLN) Hmisc Hsk) as [EH0 EO0].
    set (lines := map (render_with r) (header_lines c b0 ++ [WText []] ++ map WText ls0)) in *.
    assert (El : lines = map (render_with r) (header_lines c b0) ++ [] :: ls0).
    { unfold lines. rewrite !map_app, map_map. cbn [map render_with app]. rewrite map_id. reflexivity. }
    assert (EH : headers_of lines = hdr_table r c b0).
    { rewrite El, headers_of_app, EH0. change ([] :: ls0) with ([[]] ++ ls0). rewrite headers_of_app, (headers_of_data ls0 Fdata).
      cbn. rewrite app_nil_r. reflexivity. }
    (* every row is written in the channel of its lane with a base-36 id *)
    assert (Ftxt : Forall row_txt_ok (map (rn_row lay) ALL ++ bp_rows_any sb)).
    { apply Forall_app. split.
      - apply Forall_forall. intros rw I. apply in_map_iff in I. destruct I as [n [<- In']].
        destruct (chan_facts lay mk LF HK _ _ _ (c_col tbl mk lay dflt cs l b0s rests sh sa st sbs D) n In') as [Il [_ [La _]]].
        unfold row_txt_ok, rn_row, row_of. cbn [wr_channel wr_value]. split; [|split].
        + unfold layout_ok in Lok. apply andb_true_iff in Lok. destruct Lok as [X _]. apply andb_true_iff in X. destruct X as [_ X].
          rewrite forallb_forall in X. pose proof (X _ Il) as Y. cbn [fst snd] in Y. apply andb_true_iff in Y. destruct Y as [Y _].
          apply andb_true_iff in Y. destruct Y as [Y _]. exact Y.
        + intro E. rewrite E in La. rewrite lane_of_dict in La.
          pose proof (layout_rev_get mk lay _ _ Lok (lf_ts mk lay LF)) as G. unfold layout_get in G. rewrite G in La. discriminate.
        + unfold ALL in In'. rewrite app_assoc in In'. apply in_app_or in In'. destruct In' as [I2|I2].
          * apply (c_val tbl mk lay dflt cs l b0s rests sh sa st sbs D n I2).
          * rewrite (c_tail cs st n I2), Eln. apply HLN.
      - apply Forall_forall. intros rw I. unfold bp_rows_any in I. apply in_map_iff in I. destruct I as [[e s] [<- I]]. cbn [fst snd].
        unfold row_txt_ok, row_of. cbn [wr_channel wr_value]. split; [reflexivity|]. split; [discriminate|].
        apply in_combine_l in I. apply in_seq in I.
        assert (Lsb : length sb = length (w_bpms c)) by (symmetry; apply (forall2_length _ _ _ Hsb)).
        unfold MAX_BPMS in Ln. apply b36_pair_is_pair. lia. }
    pose proof (write_note_lines_good _ _ Frow Ftxt Enl) as Fgood.
    (* the positions of the tempo changes *)
    pose proof (wd_dom _ _ _ _ _ _ _ _ _ _ _ _ D) as Hdom. pose proof (wd_from _ _ _ _ _ _ _ _ _ _ _ _ D) as Hfrom.
    destruct (domainb_nil_sound tbl l Hdom) as [c0 [lrest [Ell [N0 [Hm0 [Hb0 Hs]]]]]].
    destruct (script_pairs tbl Hok 0 c0 lrest N0 Hm0 Hb0 Hs) as [brest' [c0' [bcss' [E1 [_ [_ [_ [_ [E6 _]]]]]]]]]. cbv zeta in E1.
    rewrite <- Ell, Hfrom, EB in E1. injection E1 as EB0 EBr. subst brest'.
    assert (M4 : forall cc, In cc l -> bs_met cc = 4%Q) by (apply (wdom_met4 tbl Hok _ _ _ _ _ _ _ _ _ _ _ D)).
    assert (Pos : forall cc, In cc l -> (s_b (bs_snap cc) == 0)%Q).
    { intros cc I. rewrite Ell in I. destruct I as [<-|I]; [exact Hb0|].
      assert (P : Forall (fun cc => (s_m (bs_snap c0) < s_m (bs_snap cc))%Z /\ (s_b (bs_snap cc) == 0)%Q) lrest).
      { apply (measure_lines_positions tbl lrest brest c0 B0 N0); auto.
        - apply M4. rewrite Ell. left. reflexivity.
        - rewrite EB0. reflexivity.
        - intros x Ix. apply M4. rewrite Ell. right. exact Ix.
        - rewrite EB0. exact E6. }
      rewrite Forall_forall in P. apply (P cc I). }
    assert (Hall : forall o, In o (flat_map objs_of_line ls0) -> tchan o = true -> (o_pos o == 0)%Q).
    { intros o I Tc. apply (Permutation_in _ Pobjs) in I. apply in_app_or in I. destruct I as [I|I].
      - exfalso. apply in_map_iff in I. destruct I as [n [<- In']].
        destruct (chan_facts lay mk LF HK _ _ _ (c_col tbl mk lay dflt cs l b0s rests sh sa st sbs D) n In') as [_ [_ [La Ne]]].
        unfold tchan, is_tempo_chan, rn_obj, pobj in Tc. cbn [o_chan] in Tc. rewrite (text_eqb_neq _ _ Ne), orb_false_r in Tc.
        apply text_eqb_eq in Tc. rewrite Tc in La. rewrite lane_of_dict, (lf_get_bpm mk lay LF) in La. discriminate.
      - unfold XB in I. apply in_map_iff in I. destruct I as [[e [b s]] [<- I]]. apply in_combine_r in I. apply in_combine_r in I.
        destruct (forall2_in_r _ _ _ _ Hsb I) as [b' [_ [cc [Icc [[_ Sb] _]]]]]. apply in_combine_r in Icc.
        unfold tobj, pobj. cbn [o_pos fst snd]. rewrite Qred_correct, Sb, (Pos cc Icc). reflexivity. }
    split.
    - constructor.
      + (* td_lines *)
        rewrite El. apply Forall_app. split.
        * pose proof (header_lines_ok r c b0 Hre Hg (proj1 HLN) Hmisc) as Fh. eapply Forall_impl; [|exact Fh]. intros ln [A _]. exact A.
        * constructor; [split; reflexivity|]. eapply Forall_impl; [|exact Fgood]. intros ln G. apply (line_good_ok ln G).
      + rewrite EH. apply (hdr_keys_NoDup r c b0 Ln Hg Hmisc Hsk).
      + rewrite EH. apply (hdr_key_ok r c b0 Ln Hg Hmisc Hsk).
      + (* td_data *)
        rewrite El. apply Forall_app. split.
        * pose proof (header_lines_ok r c b0 Hre Hg (proj1 HLN) Hmisc) as Fh. eapply Forall_impl; [|exact Fh]. intros ln [_ A] m ch data E. congruence.
        * constructor; [intros m ch data E; discriminate|]. eapply Forall_impl; [|exact Fgood]. intros ln G. apply (line_good_ok ln G).
      + (* td_tempo_pos *)
        unfold sobjs_of. fold lines. rewrite Eo. apply (tempo_objs_nodup_back _ _ _ Etp).
        apply (no_dup_by_perm pos_eqb pos_eqb_sym Ts tempos (Permutation_sym Ptp)).
        apply strict_nodup_pos. destruct (domainb_nil_sound tbl l Hdom) as [c1 [r1 [E1' [_ [_ [_ Hs1]]]]]].
        apply (strongly_sim Ts l Tsim). rewrite E1'. apply (script_ok_strongly tbl). exact Hs1.
      + (* td_denote *)
        exists d. split; [exact W3|]. destruct W4 as [_ [_ [Ft _]]]. apply forallb_forall. intros tb I.
        destruct (forall2_in_r _ _ _ _ Ft I) as [b [Ib [_ Eb]]]. apply Qlt_bool_iff. rewrite Eb.
        pose proof (w_change_times tbl Hok (w_bpms cs) l Hdom Hfrom) as CT.
        assert (Ib' : In b (w_bpms cs)) by (unfold cs, time_ordered; cbn [w_bpms with_bpms]; exact Ib).
        destruct (forall2_in_r _ _ _ _ CT Ib') as [cc [Icc [_ [E2 _]]]]. rewrite E2.
        assert (Nc : node_ok cc).
        { rewrite Ell in Icc. destruct Icc as [<-|Icc]; [exact N0|]. clear - Hs Icc. revert c0 Hs. induction lrest as [|x rr IH]; intros p Hs; [contradiction|].
          destruct Hs as [[_ [Nx _]] Hs']. destruct Icc as [<-|Icc]; [exact Nx|]. apply (IH Icc x Hs'). }
        apply Nc.
    - unfold bms_tempo_on_lines. fold lines. rewrite Eo. apply forallb_forall. intros o I.
      destruct (is_tempo_chan (o_chan o)) eqn:Tc; [|reflexivity]. cbn [negb orb]. apply Qeq_bool_iff. apply (Hall o I Tc).
  Qed.

  Lemma forall2_flip' {A B} (P : A -> B -> Prop) la lb : Forall2 P la lb -> Forall2 (fun b a => P a b) lb la.
  Proof. induction 1; constructor; auto. Qed.

  (* bms_write_read_chart: chart-level hypotheses only.  For every chart of write_dom_any (tempo rows in any order) that
     satisfies header_guards, and any rendering of '#BPM' that parses and does not end in a blank: BMSMap.write succeeds,
     BMSMap.read of the written lines RETURNS, and the chart read is the chart written: hits and holds as multisets
     (column and sample exactly, times within 1/192 beat and exact on the snap grid), title / artist / level / LNOBJ / WAV
     table exactly, and the tempo list is the chart's tempo rows in time order (time by value, tempo exactly, metronome 4). *)
  Theorem bms_write_read_chart (mk : Z) (lay : layout) (dflt : text) (c : wchart) (r : Q -> text) :
    write_dom_any tbl mk lay dflt c = true -> header_guards c = true ->
    (forall q, parse_decimal (r q) <> None) -> (forall q, text_end_ok (r q) = true) ->
    exists ls l d c', bms_write tbl lay dflt c = Some ls /\ wscript tbl c = Some l
      /\ bms_denote lay (map (render_with r) ls) = Some d /\ written_denotes_any tbl dflt c l d
      /\ bms_read tbl lay mk (map (render_with r) ls) = Some c' /\ read_back tbl dflt c l c'
      /\ Forall2 (fun b b' => (bo_off b' == bo_off b)%Q /\ bo_bpm b' = bo_bpm b /\ bo_met b' = 4%Q) (sort_by bco_lt (w_bpms c)) (c_bpms c').
  Proof.
    intros Hd Hg Hr Hre.
    destruct (bms_write_denotes_any_order tbl Hok mk lay dflt c r Hd Hr) as [ls [l [d [W1 [W2 [W3 [W4 _]]]]]]].
    pose proof (written_read_guards tbl Hok mk lay dflt c r ls Hd W1) as G.
    destruct (written_text_dom mk lay dflt c r ls Hd Hg Hr Hre W1) as [TD On].
    assert (Lok : layout_ok mk lay = true).
    { unfold write_dom_any, write_dom in Hd. apply andb_true_iff in Hd. destruct Hd as [X _]. apply andb_true_iff in X. destruct X as [X _].
      apply andb_true_iff in X. destruct X as [X _]. apply andb_true_iff in X. destruct X as [X _]. exact X. }
    destruct (bms_read_tempo_list_on_lines tbl Hok lay mk _ Lok TD G On) as [c' [d' [R [Hd' [Cd Ft]]]]].
    rewrite W3 in Hd'. inversion Hd'; subst d'.
    exists ls, l, d, c'. repeat (split; [assumption|]). split; [apply (denotes_compose_any tbl dflt c l d c' W4 Cd)|].
    destruct W4 as [_ [_ [Fw _]]].
    pose proof (forall2_compose _ _ _ _ _ Fw (forall2_flip' _ _ _ Ft)) as C.
    eapply forall2_impl; [|exact C]. intros b b' [tb [[A1 A2] [B1 [B2 B3]]]]. cbv beta. rewrite B1, B2, A1, A2. split; [reflexivity|]. split; [reflexivity|exact B3].
  Qed.
End Written.
