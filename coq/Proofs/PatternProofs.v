(* Proofs for C20: Pattern.group, PtnCombo.combinations, the filter constructors and the templates. *)
From Coq Require Import ZArith List Bool Permutation Sorted Lia.
From RV Require Import Algo.PtnFilter Algo.Pattern Algo.PatternSpec.
Import ListNotations.
Open Scope Z_scope.

(* ================================================================ equality tests *)
Lemma ntype_eqb_eq a b : ntype_eqb a b = true <-> a = b.
Proof. destruct a, b; cbv; split; congruence. Qed.

Lemma note_eqb_eq a b : note_eqb a b = true <-> a = b.
Proof.
  destruct a as [c o t], b as [c' o' t']; unfold note_eqb; cbn [ncol noff nty].
  rewrite !andb_true_iff, !Z.eqb_eq, ntype_eqb_eq. split.
  - intros [[-> ->] ->]; reflexivity.
  - intros H; inversion H; auto.
Qed.

Lemma list_eqb_eq {A} (eqb : A -> A -> bool) :
  (forall x y, eqb x y = true <-> x = y) -> forall a b, list_eqb eqb a b = true <-> a = b.
Proof.
  intros He; induction a as [|x a IH]; destruct b as [|y b]; cbn; try (split; congruence).
  rewrite andb_true_iff, He, IH. split; [intros [-> ->]; reflexivity | intros H; inversion H; auto].
Qed.

Lemma memZ_In c l : memZ c l = true <-> In c l.
Proof.
  unfold memZ. rewrite existsb_exists. split.
  - intros [x [Hx He]]. apply Z.eqb_eq in He. subst; auto.
  - intros H. exists c. split; auto. apply Z.eqb_refl.
Qed.

(* ================================================================ multiset equality *)
Lemma remove_one_perm {A} (eqb : A -> A -> bool) (He : forall x y, eqb x y = true -> x = y) :
  forall x l r, remove_one eqb x l = Some r -> Permutation l (x :: r).
Proof.
  induction l as [|y l IH]; cbn; intros r H; [discriminate|].
  destruct (eqb x y) eqn:E.
  - inversion H; subst. apply He in E. subst. reflexivity.
  - destruct (remove_one eqb x l) as [r0|]; [|discriminate]. inversion H; subst.
    rewrite (IH r0 eq_refl). apply perm_swap.
Qed.

Lemma perm_b_sound {A} (eqb : A -> A -> bool) (He : forall x y, eqb x y = true -> x = y) :
  forall a b, perm_b eqb a b = true -> Permutation a b.
Proof.
  induction a as [|x a IH]; cbn; intros b H.
  - destruct b; [constructor | discriminate].
  - destruct (remove_one eqb x b) as [b'|] eqn:E; [|discriminate].
    apply remove_one_perm in E; auto. rewrite E. constructor. auto.
Qed.

Lemma remove_one_complete {A} (eqb : A -> A -> bool) (Hr : forall x, eqb x x = true)
      (He : forall x y, eqb x y = true -> x = y) :
  forall x l, In x l -> exists r, remove_one eqb x l = Some r /\ Permutation l (x :: r).
Proof.
  intros x l Hin. induction l as [|y l IH]; [destruct Hin|]. cbn.
  destruct (eqb x y) eqn:E.
  - apply He in E; subst. eexists; split; eauto.
  - destruct Hin as [->|Hin]; [rewrite Hr in E; discriminate|].
    destruct (IH Hin) as [r [-> Hp]]. eexists; split; eauto. rewrite Hp. apply perm_swap.
Qed.

Lemma perm_b_complete {A} (eqb : A -> A -> bool) (Hr : forall x, eqb x x = true)
      (He : forall x y, eqb x y = true -> x = y) :
  forall a b, Permutation a b -> perm_b eqb a b = true.
Proof.
  induction a as [|x a IH]; intros b Hp.
  - apply Permutation_nil in Hp; subst; reflexivity.
  - cbn. destruct (remove_one_complete eqb Hr He x b) as [r [-> Hr']].
    + eapply Permutation_in; eauto. left; auto.
    + apply IH. eapply Permutation_cons_inv. rewrite Hp. exact Hr'.
Qed.

(* ================================================================ masks *)
Lemma mask_select_In {A} : forall (l : list A) m x, In x (mask_select l m) -> In x l.
Proof.
  induction l as [|y l IH]; destruct m as [|b m]; cbn; try tauto.
  intros x. destruct b; cbn; intros H; [destruct H; auto|]; right; eauto.
Qed.

Lemma mask_select_split {A} : forall (l : list A) m, length m = length l ->
  Permutation (mask_select l m ++ mask_select l (map negb m)) l.
Proof.
  induction l as [|y l IH]; destruct m as [|b m]; cbn; intros H; try discriminate; [constructor|].
  inversion H as [H']. destruct b; cbn.
  - constructor; auto.
  - rewrite <- Permutation_middle. constructor; auto.
Qed.

Lemma mask_select_all_false {A} : forall (l : list A) k, mask_select l (repeat false k) = [].
Proof. induction l as [|y l IH]; destruct k; cbn; auto. Qed.

Lemma mask_select_app_false {A} : forall (l : list A) m k,
  mask_select l (m ++ repeat false k) = mask_select l m.
Proof.
  induction l as [|y l IH]; destruct m as [|b m]; intros k; auto.
  - cbn [app]. rewrite mask_select_all_false. reflexivity.
  - cbn. destruct b; rewrite IH; reflexivity.
Qed.

Lemma mask_select_firstn {A} : forall (l : list A) m,
  mask_select l m = mask_select (firstn (length m) l) m.
Proof.
  induction l as [|y l IH]; destruct m as [|b m]; cbn; auto.
  destruct b; rewrite <- IH; reflexivity.
Qed.

Lemma mask_select_all_true {A} : forall (l : list A) n, mask_select l (repeat true n) = firstn n l.
Proof. induction l as [|y l IH]; destruct n; cbn; auto. rewrite IH; reflexivity. Qed.

Lemma mask_select_map_pred {A} (f : A -> bool) : forall l x,
  In x (mask_select l (map f l)) -> f x = true.
Proof.
  induction l as [|y l IH]; cbn; intros x H; [destruct H|].
  destruct (f y) eqn:E; [destruct H as [->|H]; auto|]; auto.
Qed.

Lemma mask_select_and_l {A} : forall (l : list A) m1 m2 x,
  In x (mask_select l (map2 andb m1 m2)) -> In x (mask_select l m1).
Proof.
  induction l as [|y l IH]; destruct m1 as [|b1 m1], m2 as [|b2 m2]; cbn; try tauto.
  intros x. destruct b1, b2; cbn; intros H; try (destruct H; [left; auto|right]); eauto.
Qed.
Lemma mask_select_and_r {A} : forall (l : list A) m1 m2 x,
  In x (mask_select l (map2 andb m1 m2)) -> In x (mask_select l m2).
Proof.
  induction l as [|y l IH]; destruct m1 as [|b1 m1], m2 as [|b2 m2]; cbn; try tauto.
  intros x. destruct b1, b2; cbn; intros H; try (destruct H; [left; auto|right]); eauto.
Qed.

Lemma mask_select_and_nodup {A B} (f : A -> B) : forall (l : list A) m1 m2,
  NoDup (map f (mask_select l m1)) -> NoDup (map f (mask_select l (map2 andb m1 m2))).
Proof.
  induction l as [|y l IH]; destruct m1 as [|b1 m1], m2 as [|b2 m2]; cbn; intros H; try constructor.
  destruct b1, b2; cbn in *.
  - inversion H; subst. constructor; auto.
    intros Hin. apply in_map_iff in Hin. destruct Hin as [z [Hz Hin]].
    apply mask_select_and_l in Hin. apply H2. rewrite <- Hz. apply in_map; auto.
  - inversion H; auto.
  - auto.
  - auto.
Qed.

Lemma map2_length {A B C} (f : A -> B -> C) : forall a b, length a = length b -> length (map2 f a b) = length a.
Proof. induction a; destruct b; cbn; intros H; try discriminate; auto. Qed.

Lemma first_occ_length : forall l seen, length (first_occ seen l) = length l.
Proof. induction l; cbn; intros; auto. Qed.

Lemma first_occ_nodup : forall (l : list note) seen,
  NoDup (map ncol (mask_select l (first_occ seen (map ncol l)))) /\
  (forall c, In c (map ncol (mask_select l (first_occ seen (map ncol l)))) -> ~ In c seen).
Proof.
  induction l as [|y l IH]; cbn; intros seen; [split; [constructor|tauto]|].
  destruct (IH (ncol y :: seen)) as [Hn Hd].
  destruct (memZ (ncol y) seen) eqn:E; cbn.
  - split; auto. intros c Hc Hs. apply (Hd c Hc). right; auto.
  - split.
    + constructor; auto. intros Hc. apply (Hd _ Hc). left; auto.
    + intros c [<-|Hc] Hs.
      * apply memZ_In in Hs. congruence.
      * apply (Hd c Hc). right; auto.
Qed.

Lemma take_while_length_le {A} (f : A -> bool) : forall l, (length (take_while f l) <= length l)%nat.
Proof. induction l; cbn; [lia|]. destruct (f a); cbn; lia. Qed.

Lemma take_while_firstn {A} (f : A -> bool) : forall l, firstn (length (take_while f l)) l = take_while f l.
Proof. induction l; cbn; auto. destruct (f a); cbn; [rewrite IHl|]; auto. Qed.

Lemma take_while_all {A} (f : A -> bool) : forall l x, In x (take_while f l) -> f x = true.
Proof. induction l; cbn; [tauto|]. destruct (f a) eqn:E; cbn; [|tauto]. intros x [->|H]; auto. Qed.

Lemma In_firstn' {A} : forall n (l : list A) x, In x (firstn n l) -> In x l.
Proof. induction n; destruct l; cbn; try tauto. intros x [->|H]; auto. Qed.

Lemma firstn_map' {A B} (f : A -> B) : forall n l, firstn n (map f l) = map f (firstn n l).
Proof. induction n; destruct l; cbn; auto. rewrite IHn; auto. Qed.

(* ================================================================ one step of Pattern.group *)
Definition h_ok (h : option Z) : Prop := match h with None => True | Some hw => 0 <= hw end.

Definition step_mask (ung : list note) (r : note) (v : Z) (h : option Z) (aj : bool) : list bool :=
  let m0 := v_mask ung (noff r) v aj in
  match h with None => m0 | Some hw => map2 andb m0 (h_mask ung (ncol r) hw) end.

(* the mask computed for the first ungrouped row [r] of a time-sorted remainder [r :: U] selects [r]
   itself, is as long as the remainder, and the selected rows form a group satisfying the specification *)
Lemma step_mask_facts v h aj r U :
  0 <= v -> h_ok h -> Forall (by_off r) U ->
  exists m', step_mask (r :: U) r v h aj = true :: m' /\ length m' = length U /\
             group_ok v h aj (r :: mask_select U m').
Proof.
  intros Hv Hh Hs.
  set (f := fun y => y <=? noff r + v).
  set (e := length (take_while f (map noff U))).
  assert (He : (e <= length U)%nat).
  { unfold e. etransitivity; [apply take_while_length_le|]. rewrite map_length; lia. }
  set (m0 := (if aj then first_occ [ncol r] (firstn e (map ncol U)) else repeat true e)
               ++ repeat false (length U - e)).
  assert (Hm0 : v_mask (r :: U) (noff r) v aj = true :: m0).
  { unfold v_mask, bisect_left, bisect_right_lo. cbn [map take_while length].
    rewrite Z.ltb_irrefl. cbn [length skipn take_while Nat.add].
    replace (noff r <=? noff r + v) with true by (symmetry; apply Z.leb_le; lia).
    cbn [length]. fold f. fold e. cbn [Nat.eqb repeat app Nat.sub firstn].
    unfold m0. destruct aj; cbn [first_occ memZ existsb negb repeat app]; reflexivity. }
  assert (Hl0 : length m0 = length U).
  { unfold m0. rewrite app_length, repeat_length.
    destruct aj; [rewrite first_occ_length, firstn_length, map_length | rewrite repeat_length]; lia. }
  (* members of the vertical selection lie in the first e rows, hence inside the window *)
  assert (Hin0 : forall x, In x (mask_select U m0) -> In x U /\ noff x <= noff r + v).
  { intros x Hx. unfold m0 in Hx. rewrite mask_select_app_false in Hx.
    assert (Hf : In x (firstn e U)).
    { destruct aj.
      - rewrite mask_select_firstn in Hx. rewrite first_occ_length, firstn_length, map_length in Hx.
        replace (Nat.min e (length U)) with e in Hx by lia. eapply mask_select_In; eauto.
      - rewrite mask_select_all_true in Hx. auto. }
    split; [eapply In_firstn'; eauto|].
    assert (Hq : In (noff x) (take_while f (map noff U))).
    { rewrite <- take_while_firstn. fold e. rewrite firstn_map'. apply in_map; auto. }
    apply take_while_all in Hq. unfold f in Hq. apply Z.leb_le in Hq. auto. }
  assert (Hnd0 : aj = true -> NoDup (ncol r :: map ncol (mask_select U m0))).
  { intros ->. unfold m0. rewrite mask_select_app_false.
    rewrite mask_select_firstn. rewrite first_occ_length, firstn_length, map_length.
    replace (Nat.min e (length U)) with e by lia. rewrite firstn_map'.
    destruct (first_occ_nodup (firstn e U) [ncol r]) as [Hn Hd].
    constructor; auto. intros Hc. apply (Hd _ Hc). left; auto. }
  unfold step_mask. rewrite Hm0. destruct h as [hw|].
  - cbn [h_mask map map2]. cbn in Hh.
    replace (Z.abs (ncol r - ncol r) <=? hw) with true by (symmetry; apply Z.leb_le; lia).
    cbn [andb]. eexists; split; [reflexivity|]. split.
    + rewrite map2_length; [auto|]. rewrite map_length; auto.
    + split.
      * constructor.
        -- split; [lia|]. cbn. lia.
        -- apply Forall_forall. intros x Hx.
           pose proof (mask_select_and_l _ _ _ _ Hx) as H1.
           pose proof (mask_select_and_r _ _ _ _ Hx) as H2.
           apply Hin0 in H1. destruct H1 as [HU Hle].
           apply mask_select_map_pred in H2. apply Z.leb_le in H2.
           rewrite Forall_forall in Hs. specialize (Hs x HU). unfold by_off in Hs.
           split; [lia|]. cbn. lia.
      * intros Haj. specialize (Hnd0 Haj). cbn [map]. inversion Hnd0; subst.
        constructor.
        -- intros Hc. apply in_map_iff in Hc. destruct Hc as [z [Hz Hc]].
           apply mask_select_and_l in Hc. apply H1. rewrite <- Hz. apply in_map; auto.
        -- apply mask_select_and_nodup; auto.
  - eexists; split; [reflexivity|]. split; auto. split.
    + constructor.
      * split; [lia|exact I].
      * apply Forall_forall. intros x Hx. apply Hin0 in Hx. destruct Hx as [HU Hle].
        rewrite Forall_forall in Hs. specialize (Hs x HU). unfold by_off in Hs. split; [lia|exact I].
    + intros Haj. cbn [map]. auto.
Qed.

(* ================================================================ the loop of Pattern.group *)
Lemma scatter_or_prefix : forall k g m, scatter_or (repeat true k ++ g) m = repeat true k ++ scatter_or g m.
Proof. induction k; cbn; intros; auto. rewrite IHk; auto. Qed.

Lemma scatter_or_length : forall g m, length (scatter_or g m) = length g.
Proof. induction g as [|b g IH]; cbn; intros; auto. destruct b; cbn; auto. destruct m; cbn; auto. Qed.

Lemma sel_prefix {A} : forall (pre l : list A) g,
  mask_select (pre ++ l) (map negb (repeat true (length pre) ++ g)) = mask_select l (map negb g).
Proof. induction pre; cbn; auto. Qed.

Lemma nth_prefix : forall k b g, nth k (repeat true k ++ b :: g) false = b.
Proof. induction k; cbn; auto. Qed.

Lemma repeat_true_snoc : forall k (l : list bool), repeat true k ++ true :: l = repeat true (S k) ++ l.
Proof. induction k; cbn; intros; auto. rewrite IHk. reflexivity. Qed.

Lemma sel_scatter {A} : forall g (ar : list A) m,
  length ar = length g -> length m = length (mask_select ar (map negb g)) ->
  mask_select ar (map negb (scatter_or g m)) = mask_select (mask_select ar (map negb g)) (map negb m).
Proof.
  induction g as [|b g IH]; destruct ar as [|a ar]; cbn; intros m Hl Hm; try discriminate.
  - reflexivity.
  - inversion Hl. destruct b; cbn in *.
    + apply IH; auto.
    + destruct m as [|c m]; cbn in *; [discriminate|]. inversion Hm. destruct c; cbn; rewrite IH; auto.
Qed.

Lemma group_loop_inv v h aj (Hv : 0 <= v) (Hh : h_ok h) ar :
  forall rows pre g2 acc,
    ar = pre ++ map snd rows -> map fst rows = seq (length pre) (length rows) ->
    length g2 = length rows -> StronglySorted by_off (map snd rows) ->
    exists out', snd (group_loop ar v h aj rows (repeat true (length pre) ++ g2) acc) = acc ++ out' /\
                 Permutation (concat out') (mask_select (map snd rows) (map negb g2)) /\
                 Forall (group_ok v h aj) out'.
Proof.
  induction rows as [|[ix r] rows IH]; intros pre g2 acc Har Hix Hlen Hs.
  - exists []. cbn. rewrite app_nil_r. repeat split; auto.
  - destruct g2 as [|b g2]; [discriminate|]. cbn in Hix. inversion Hix as [[Hk Hix']]. clear Hix.
    cbn in Hlen. inversion Hlen as [Hlen']. clear Hlen.
    cbn [map snd] in Hs. apply StronglySorted_inv in Hs. destruct Hs as [Hs' Hfr]. subst ix.
    cbn [group_loop]. rewrite nth_prefix.
    assert (Har' : ar = (pre ++ [r]) ++ map snd rows)
      by (rewrite <- app_assoc; exact Har).
    assert (Hix'' : map fst rows = seq (length (pre ++ [r])) (length rows))
      by (rewrite app_length; cbn; replace (length pre + 1)%nat with (S (length pre)) by lia; auto).
    destruct b.
    + rewrite repeat_true_snoc.
      destruct (IH (pre ++ [r]) g2 acc Har' Hix'' Hlen' Hs') as [out' [H1 [H2 H3]]].
      rewrite app_length in H1. cbn in H1. replace (length pre + 1)%nat with (S (length pre)) in H1 by lia.
      exists out'. cbn [map negb mask_select snd]. auto.
    + set (U := mask_select (map snd rows) (map negb g2)).
      assert (Hung : mask_select ar (map negb (repeat true (length pre) ++ false :: g2)) = r :: U)
        by (rewrite Har, sel_prefix; reflexivity).
      assert (HfU : Forall (by_off r) U).
      { apply Forall_forall. intros x Hx. rewrite Forall_forall in Hfr. apply Hfr.
        eapply mask_select_In; eauto. }
      destruct (step_mask_facts v h aj r U Hv Hh HfU) as [m' [Hm [Hlm Hok]]].
      unfold step_mask in Hm. cbv zeta in Hm. cbv zeta. rewrite Hung. rewrite Hm.
      rewrite scatter_or_prefix. cbn [scatter_or mask_select]. rewrite repeat_true_snoc.
      assert (Hlen'' : length (scatter_or g2 m') = length rows) by (rewrite scatter_or_length; auto).
      destruct (IH (pre ++ [r]) (scatter_or g2 m') (acc ++ [r :: mask_select U m']) Har' Hix'' Hlen'' Hs')
        as [out' [H1 [H2 H3]]].
      rewrite app_length in H1. cbn in H1. replace (length pre + 1)%nat with (S (length pre)) in H1 by lia.
      exists ((r :: mask_select U m') :: out'). split; [|split].
      * rewrite H1. rewrite <- app_assoc. reflexivity.
      * cbn [concat map negb mask_select snd app]. fold U. constructor.
        rewrite H2. rewrite sel_scatter; [|rewrite map_length; auto|fold U; auto]. fold U.
        apply mask_select_split; auto.
      * constructor; auto.
Qed.

Lemma enumerate_from {A} : forall (l : list A) s,
  map snd (combine (seq s (length l)) l) = l /\ map fst (combine (seq s (length l)) l) = seq s (length l).
Proof.
  induction l as [|x l IH]; cbn; intros s; auto.
  destruct (IH (S s)) as [H1 H2]. rewrite H1, H2. auto.
Qed.

Lemma mask_select_not_false {A} : forall (l : list A), mask_select l (map negb (repeat false (length l))) = l.
Proof. induction l; cbn; auto. rewrite IHl; auto. Qed.

(* ---- the grouping theorems: for every time-sorted pattern and all parameters *)
Theorem group_spec_holds : forall df v h aj gs,
  StronglySorted by_off df -> group df v h aj = Some gs -> group_spec df v h aj gs.
Proof.
  intros df v h aj gs Hs Hg. unfold group in Hg.
  destruct (v <? 0) eqn:Ev; [discriminate|]. apply Z.ltb_ge in Ev.
  assert (Hh : h_ok h).
  { destruct h as [hw|]; cbn; auto. destruct (hw <? 0) eqn:Eh; [discriminate|]. apply Z.ltb_ge in Eh; auto. }
  destruct (match h with Some hw => hw <? 0 | None => false end); [discriminate|].
  inversion Hg as [Hgs]. clear Hg.
  destruct (enumerate_from df 0%nat) as [E1 E2].
  destruct (group_loop_inv v h aj Ev Hh df (enumerate df) [] (repeat false (length df)) []) as [out' [H1 [H2 H3]]].
  - unfold enumerate. rewrite E1. reflexivity.
  - unfold enumerate. rewrite E2. rewrite combine_length, seq_length, Nat.min_id. reflexivity.
  - unfold enumerate. rewrite repeat_length, combine_length, seq_length, Nat.min_id. reflexivity.
  - unfold enumerate. rewrite E1. auto.
  - cbn [length repeat app] in H1. rewrite H1. cbn [app]. split; auto.
    rewrite H2. unfold enumerate. rewrite E1. rewrite mask_select_not_false. reflexivity.
Qed.

Theorem group_defined : forall df v h aj, 0 <= v -> h_ok h -> exists gs, group df v h aj = Some gs.
Proof.
  intros df v h aj Hv Hh. unfold group.
  replace (v <? 0) with false by (symmetry; apply Z.ltb_ge; auto).
  destruct h as [hw|]; cbn in Hh; [replace (hw <? 0) with false by (symmetry; apply Z.ltb_ge; auto)|]; eauto.
Qed.

Theorem group_partition : forall df v h aj gs,
  StronglySorted by_off df -> group df v h aj = Some gs -> Permutation (concat gs) df.
Proof. intros. apply (group_spec_holds df v h aj gs); auto. Qed.

Theorem group_windows : forall df v h aj gs g,
  StronglySorted by_off df -> group df v h aj = Some gs -> In g gs ->
  exists r0 rest, g = r0 :: rest /\ Forall (in_window v h r0) g.
Proof.
  intros df v h aj gs g Hs Hg Hin. destruct (group_spec_holds df v h aj gs Hs Hg) as [_ Hf].
  rewrite Forall_forall in Hf. destruct (Hf g Hin) as [Hw _]. destruct g as [|r0 rest]; [destruct Hw|]. eauto.
Qed.

Theorem group_no_jack : forall df v h gs g,
  StronglySorted by_off df -> group df v h true = Some gs -> In g gs -> NoDup (map ncol g).
Proof.
  intros df v h gs g Hs Hg Hin. destruct (group_spec_holds df v h true gs Hs Hg) as [_ Hf].
  rewrite Forall_forall in Hf. destruct (Hf g Hin) as [_ Hn]. auto.
Qed.

(* ================================================================ the oracles decide the specification *)
Lemma in_windowb_iff v h r0 r : in_windowb v h r0 r = true <-> in_window v h r0 r.
Proof.
  unfold in_windowb, in_window. rewrite !andb_true_iff, !Z.leb_le.
  destruct h as [hw|]; [rewrite Z.leb_le|]; intuition.
Qed.

Lemma nodupZb_iff l : nodupZb l = true <-> NoDup l.
Proof.
  induction l as [|x l IH]; cbn; [split; [constructor|auto]|].
  rewrite andb_true_iff, negb_true_iff, IH. split.
  - intros [Hm Hn]. constructor; auto. intros Hin. apply memZ_In in Hin. congruence.
  - intros Hn. inversion Hn; subst. split; auto.
    destruct (memZ x l) eqn:E; auto. apply memZ_In in E. contradiction.
Qed.

Lemma group_okb_iff v h aj g : group_okb v h aj g = true <-> group_ok v h aj g.
Proof.
  unfold group_okb, group_ok. rewrite andb_true_iff, orb_true_iff, negb_true_iff, nodupZb_iff.
  destruct g as [|r0 rest].
  - split; [intros [H _]; discriminate | intros [[] _]].
  - rewrite forallb_forall, Forall_forall.
    split; intros [Hw Hn]; (split; [intros x Hx; apply in_windowb_iff; auto|]).
    + intros ->. destruct Hn; [discriminate|auto].
    + destruct aj; auto.
Qed.

Lemma note_eqb_sound : forall x y, note_eqb x y = true -> x = y.
Proof. intros x y. apply note_eqb_eq. Qed.
Lemma note_eqb_refl : forall x, note_eqb x x = true.
Proof. intros x. apply note_eqb_eq. reflexivity. Qed.
Lemma notes_eqb_sound : forall x y, list_eqb note_eqb x y = true -> x = y.
Proof. intros x y. apply (list_eqb_eq note_eqb note_eqb_eq). Qed.
Lemma notes_eqb_refl : forall x, list_eqb note_eqb x x = true.
Proof. intros x. apply (list_eqb_eq note_eqb note_eqb_eq). reflexivity. Qed.

Theorem group_specb_iff df v h aj gs : group_specb df v h aj gs = true <-> group_spec df v h aj gs.
Proof.
  unfold group_specb, group_spec. rewrite andb_true_iff, forallb_forall, Forall_forall. split.
  - intros [Hp Hf]. split; [apply (perm_b_sound note_eqb note_eqb_sound); auto|].
    intros g Hg. apply group_okb_iff; auto.
  - intros [Hp Hf]. split; [apply (perm_b_complete note_eqb note_eqb_refl note_eqb_sound); auto|].
    intros g Hg. apply group_okb_iff; auto.
Qed.

Lemma by_off_trans : Relations_1.Transitive by_off.
Proof. intros a b c. unfold by_off. lia. Qed.

Lemma sorted_offb_iff l : sorted_offb l = true <-> StronglySorted by_off l.
Proof.
  split.
  - intros H. apply Sorted_StronglySorted; [exact by_off_trans|].
    induction l as [|x l IH]; [constructor|].
    cbn in H. destruct l as [|y l']; [repeat constructor|].
    apply andb_true_iff in H. destruct H as [H1 H2]. constructor; auto.
    constructor. apply Z.leb_le; auto.
  - intros H. apply StronglySorted_Sorted in H.
    induction l as [|x l IH]; [reflexivity|].
    inversion H; subst. cbn. destruct l as [|y l']; auto.
    apply andb_true_iff. split; auto. inversion H3; subst. apply Z.leb_le; auto.
Qed.

Theorem init_specb_iff rows df : init_specb rows df = true <-> init_spec rows df.
Proof.
  unfold init_specb, init_spec. rewrite andb_true_iff, sorted_offb_iff. split; intros [Hp Hs]; split; auto.
  - apply (perm_b_sound note_eqb note_eqb_sound); auto.
  - apply (perm_b_complete note_eqb note_eqb_refl note_eqb_sound); auto.
Qed.

(* ---- Pattern.__init__ / from_note_lists: the modelled (stable) sort meets the specification *)
Lemma ins_sorted_perm r : forall l, Permutation (r :: l) (ins_sorted r l).
Proof.
  induction l as [|x l IH]; cbn; auto. destruct (noff r <=? noff x); auto.
  rewrite perm_swap. constructor; auto.
Qed.

Lemma ins_sorted_sorted r : forall l, StronglySorted by_off l -> StronglySorted by_off (ins_sorted r l).
Proof.
  induction l as [|x l IH]; cbn; intros Hs; [repeat constructor|].
  apply StronglySorted_inv in Hs. destruct Hs as [Hs Hf].
  destruct (noff r <=? noff x) eqn:E.
  - apply Z.leb_le in E. constructor; [constructor; auto|].
    constructor; [exact E|]. eapply Forall_impl; [|exact Hf]. unfold by_off. intros; lia.
  - apply Z.leb_gt in E. constructor; auto.
    eapply Permutation_Forall; [apply ins_sorted_perm|]. constructor; auto. unfold by_off; lia.
Qed.

Theorem pattern_init_spec rows : init_spec rows (pattern_init rows).
Proof.
  unfold pattern_init. induction rows as [|r rows [Hp Hs]]; cbn; [split; constructor|]. split.
  - rewrite <- ins_sorted_perm. constructor; auto.
  - apply ins_sorted_sorted; auto.
Qed.

(* every note of every list, and one tail per hold when requested *)
Lemma flat_map_filter_nil {A B} (F : A -> list B) (p : A -> bool) :
  (forall x, p x = false -> F x = []) -> forall l, flat_map F (filter p l) = flat_map F l.
Proof.
  intros H. induction l as [|x l IH]; cbn; auto.
  destruct (p x) eqn:E; cbn; rewrite IH; auto. rewrite (H x E). reflexivity.
Qed.

Lemma flat_map_app_perm {A B} (F G : A -> list B) : forall l,
  Permutation (flat_map (fun x => F x ++ G x) l) (flat_map F l ++ flat_map G l).
Proof.
  induction l as [|x l IH]; cbn; auto. rewrite IH. rewrite <- !app_assoc. apply Permutation_app_head.
  rewrite !app_assoc. apply Permutation_app_tail. apply Permutation_app_comm.
Qed.

Lemma from_note_lists_rows_perm nls tails :
  Permutation (from_note_lists_rows nls tails) (expected_rows nls tails).
Proof.
  unfold from_note_lists_rows, expected_rows, heads_of, tails_of.
  rewrite flat_map_filter_nil.
  - rewrite flat_map_app_perm. apply Permutation_app_head.
    destruct tails; cbn [andb].
    + reflexivity.
    + induction nls; cbn; auto.
  - intros nl H. apply negb_false_iff in H. apply Nat.eqb_eq in H.
    destruct (nl_rows nl); [|discriminate]. cbn. destruct (tails && _); reflexivity.
Qed.

Theorem from_note_lists_spec nls tails :
  init_spec (expected_rows nls tails) (from_note_lists nls tails).
Proof.
  destruct (pattern_init_spec (from_note_lists_rows nls tails)) as [Hp Hs]. split; auto.
  rewrite <- from_note_lists_rows_perm. exact Hp.
Qed.

(* ================================================================ combinations: oracle and refutation *)
Theorem combos_specb_iff groups size ms2 cf kf tf out :
  combos_specb groups size ms2 cf kf tf out = true <-> combos_spec groups size ms2 cf kf tf out.
Proof.
  unfold combos_specb, combos_spec. split.
  - apply (perm_b_sound (list_eqb note_eqb) notes_eqb_sound).
  - apply (perm_b_complete (list_eqb note_eqb) notes_eqb_refl notes_eqb_sound).
Qed.

Theorem jacks_specb_iff groups n keys out :
  jacks_specb groups n keys out = true <-> jacks_spec groups n keys out.
Proof.
  unfold jacks_specb, jacks_spec. split.
  - apply (perm_b_sound (list_eqb note_eqb) notes_eqb_sound).
  - apply (perm_b_complete (list_eqb note_eqb) notes_eqb_refl notes_eqb_sound).
Qed.

Theorem chord_stream_specb_iff groups p s keys al ij out :
  chord_stream_specb groups p s keys al ij out = true <-> chord_stream_spec groups p s keys al ij out.
Proof.
  unfold chord_stream_specb, chord_stream_spec. split.
  - apply (perm_b_sound (list_eqb note_eqb) notes_eqb_sound).
  - apply (perm_b_complete (list_eqb note_eqb) notes_eqb_refl notes_eqb_sound).
Qed.

(* The witness: three hits, columns 0 and 1 at time 0 and column 0 at time 1; grouped with v = 0 into
   chords of sizes [2; 1]; the chord filter [[2; 2]] does not list (2, 1) but the chunk is passed. *)
Definition witness_df : list note := [mkN 0 0 THit; mkN 1 0 THit; mkN 0 1 THit].
Definition witness_cf : nfilter := mkNF 2 [[2; 2]] 4 false.

Theorem combos_old_exact_refuted :
  exists df v h aj gs size cf out,
    StronglySorted by_off df /\ group df v h aj = Some gs /\
    wf_combos gs size (Some cf) None None = true /\
    chord_create (In2 2 [[2; 2]]) 4 0 false = Some cf /\
    combinations_old gs size false (Some cf) None None = Some out /\
    ~ combos_spec gs size false (Some cf) None None out.
Proof.
  exists witness_df, 0, None, true, [[mkN 0 0 THit; mkN 1 0 THit]; [mkN 0 1 THit]], 2%nat, witness_cf,
         [[[mkN 0 0 THit; mkN 0 1 THit]; [mkN 1 0 THit; mkN 0 1 THit]]].
  split; [apply sorted_offb_iff; vm_compute; reflexivity|].
  split; [vm_compute; reflexivity|].
  split; [vm_compute; reflexivity|].
  split; [vm_compute; reflexivity|].
  split; [vm_compute; reflexivity|].
  intros H. apply combos_specb_iff in H. vm_compute in H. discriminate.
Qed.

(* the same defect through the chord-stream template: primary 2, secondary 2 passes the chunk of sizes (2, 1) *)
Theorem chord_stream_old_refuted :
  exists gs out,
    template_chord_stream_old gs 2 2 4 false true = Some out /\ ~ chord_stream_spec gs 2 2 4 false true out.
Proof.
  exists [[mkN 0 0 THit; mkN 1 0 THit]; [mkN 0 1 THit]],
         [[[mkN 0 0 THit; mkN 0 1 THit]; [mkN 1 0 THit; mkN 0 1 THit]]].
  split; [vm_compute; reflexivity|].
  intros H. apply chord_stream_specb_iff in H. vm_compute in H. discriminate.
Qed.

(* ================================================================ cartesian products and np.meshgrid *)
Lemma flat_map_map' {A B C} (f : B -> list C) (g : A -> B) : forall l,
  flat_map f (map g l) = flat_map (fun x => f (g x)) l.
Proof. induction l; cbn; auto. rewrite IHl; auto. Qed.

Lemma map_flat_map' {A B C} (f : B -> C) (g : A -> list B) : forall l,
  map f (flat_map g l) = flat_map (fun x => map f (g x)) l.
Proof. induction l; cbn; auto. rewrite map_app, IHl; auto. Qed.

Lemma flat_map_flat_map' {A B C} (f : B -> list C) (g : A -> list B) : forall l,
  flat_map f (flat_map g l) = flat_map (fun x => flat_map f (g x)) l.
Proof. induction l; cbn; auto. rewrite flat_map_app, IHl; auto. Qed.

Lemma flat_map_ext_in' {A B} (f g : A -> list B) : forall l,
  (forall x, In x l -> f x = g x) -> flat_map f l = flat_map g l.
Proof.
  induction l; cbn; intros H; auto. rewrite (H a) by auto. rewrite IHl; auto.
Qed.

Lemma flat_map_nil_fun {A B} : forall (l : list A), flat_map (fun _ => @nil B) l = [].
Proof. induction l; cbn; auto. Qed.

Lemma flat_map_cons_perm {A B} (g : A -> B) (G : A -> list B) : forall l,
  Permutation (map g l ++ flat_map G l) (flat_map (fun b => g b :: G b) l).
Proof.
  induction l as [|b l IH]; cbn; auto. constructor.
  rewrite <- IH. rewrite !app_assoc. apply Permutation_app_tail. apply Permutation_app_comm.
Qed.

Lemma flat_map_swap {A B C} (f : A -> B -> C) : forall la lb,
  Permutation (flat_map (fun a => map (f a) lb) la) (flat_map (fun b => map (fun a => f a b) la) lb).
Proof.
  induction la as [|a la IH]; intros lb; cbn.
  - rewrite flat_map_nil_fun. constructor.
  - rewrite IH. apply flat_map_cons_perm.
Qed.

Lemma Permutation_flat_map' {A B} (f : A -> list B) : forall l l',
  Permutation l l' -> Permutation (flat_map f l) (flat_map f l').
Proof.
  induction 1; cbn; auto.
  - apply Permutation_app_head; auto.
  - rewrite !app_assoc. apply Permutation_app_tail. apply Permutation_app_comm.
  - etransitivity; eauto.
Qed.

Lemma Permutation_filter' {A} (p : A -> bool) : forall l l',
  Permutation l l' -> Permutation (filter p l) (filter p l').
Proof.
  induction 1; cbn; auto.
  - destruct (p x); auto.
  - destruct (p x), (p y); auto. apply perm_swap.
  - etransitivity; eauto.
Qed.

Lemma cart_length {A} : forall (ls : list (list A)) t, In t (cart ls) -> length t = length ls.
Proof.
  induction ls as [|l ls IH]; cbn; intros t H.
  - destruct H as [<-|[]]. reflexivity.
  - apply in_flat_map in H. destruct H as [a [_ H]]. apply in_map_iff in H.
    destruct H as [t' [<- H]]. cbn. rewrite (IH t' H). reflexivity.
Qed.

(* the declarative meaning of [cart]: one element from each list, position by position *)
Lemma cart_In {A} : forall (ls : list (list A)) t, In t (cart ls) <-> Forall2 (@In A) t ls.
Proof.
  induction ls as [|l ls IH]; cbn; intros t.
  - split; [intros [<-|[]]; constructor | intros H; inversion H; auto].
  - rewrite in_flat_map. split.
    + intros [a [Ha H]]. apply in_map_iff in H. destruct H as [t' [<- H]]. constructor; auto. apply IH; auto.
    + intros H. inversion H; subst. exists x. split; auto. apply in_map. apply IH; auto.
Qed.

Lemma cart_app {A} : forall (X Y : list (list A)),
  cart (X ++ Y) = flat_map (fun ta => map (app ta) (cart Y)) (cart X).
Proof.
  induction X as [|l X IH]; intros Y; cbn.
  - rewrite app_nil_r. symmetry. apply map_id.
  - rewrite flat_map_flat_map'. apply flat_map_ext. intros a.
    rewrite IH. rewrite map_flat_map', flat_map_map'. apply flat_map_ext. intros t.
    rewrite map_map. reflexivity.
Qed.

Lemma cart_singleton {A} : forall (l : list A), cart [l] = map (fun a => [a]) l.
Proof. induction l; cbn in *; auto; try (f_equal; auto). Qed.

Lemma cart_rev {A} : forall (ls : list (list A)), Permutation (cart (rev ls)) (map (@rev A) (cart ls)).
Proof.
  induction ls as [|l ls IH]; cbn [rev]; [cbn; auto|].
  rewrite cart_app, cart_singleton.
  rewrite (Permutation_flat_map' _ _ _ IH). rewrite flat_map_map'.
  cbn [cart]. rewrite map_flat_map'.
  assert (E1 : flat_map (fun x => map (@rev A) (map (cons x) (cart ls))) l
               = flat_map (fun a => map (fun t => rev t ++ [a]) (cart ls)) l).
  { apply flat_map_ext. intros a. rewrite map_map. reflexivity. }
  rewrite E1.
  assert (E2 : flat_map (fun x => map (app (rev x)) (map (fun a => [a]) l)) (cart ls)
               = flat_map (fun t => map (fun a => rev t ++ [a]) l) (cart ls)).
  { apply flat_map_ext. intros t. rewrite map_map. reflexivity. }
  rewrite E2.
  apply (flat_map_swap (fun (t : list A) (a : A) => rev t ++ [a])).
Qed.

(* np.meshgrid enumerates the same tuples as the cartesian product, in another order *)
Lemma mesh_perm {A} : forall (chunk : list (list A)), Permutation (mesh chunk) (cart chunk).
Proof.
  intros chunk. unfold mesh.
  set (hd2 := firstn 2 chunk). set (tl := skipn 2 chunk).
  assert (Hk : (length chunk - 2)%nat = length tl) by (unfold tl; rewrite skipn_length; reflexivity).
  rewrite Hk.
  assert (Hc : chunk = hd2 ++ tl) by (unfold hd2, tl; rewrite firstn_skipn; reflexivity).
  replace (cart chunk) with (cart (hd2 ++ tl)) by (rewrite <- Hc; reflexivity). rewrite !cart_app.
  rewrite map_flat_map'.
  assert (E1 : flat_map (fun x => map (fun t => skipn (length tl) t ++ rev (firstn (length tl) t))
                                      (map (app x) (cart hd2))) (cart (rev tl))
               = flat_map (fun ta => map (fun tb => tb ++ rev ta) (cart hd2)) (cart (rev tl))).
  { apply flat_map_ext_in'. intros ta Hta. rewrite map_map. apply map_ext. intros tb.
    apply cart_length in Hta. rewrite rev_length in Hta.
    rewrite skipn_app, firstn_app. rewrite Hta, Nat.sub_diag. cbn [skipn firstn].
    rewrite <- Hta. rewrite skipn_all, firstn_all, app_nil_r. reflexivity. }
  rewrite E1.
  assert (E2 : flat_map (fun ta => map (fun tb => tb ++ rev ta) (cart hd2)) (cart (rev tl))
               = flat_map (fun s => map (fun tb => tb ++ s) (cart hd2)) (map (@rev A) (cart (rev tl))))
    by (rewrite flat_map_map'; reflexivity).
  rewrite E2.
  assert (P : Permutation (map (@rev A) (cart (rev tl))) (cart tl)).
  { symmetry. pose proof (cart_rev (rev tl)) as H. rewrite rev_involutive in H. exact H. }
  rewrite (Permutation_flat_map' _ _ _ P).
  apply (flat_map_swap (fun (s tb : list A) => tb ++ s)).
Qed.

(* ================================================================ chunks = runs of consecutive groups *)
Lemma chunks_windows {A} : forall (n : nat) (l : list A), (1 <= n)%nat -> chunks n l = windows n l.
Proof.
  intros n l Hn. unfold chunks. induction l as [|x l IH].
  - replace (length (@nil A) + 1 - n)%nat with 0%nat by (cbn [length]; lia). reflexivity.
  - cbn [windows length]. destruct (n <=? S (length l))%nat eqn:E.
    + apply Nat.leb_le in E.
      replace (S (length l) + 1 - n)%nat with (S (length l + 1 - n)) by lia.
      cbn [seq map skipn]. f_equal. rewrite <- seq_shift, map_map. exact IH.
    + apply Nat.leb_gt in E. replace (S (length l) + 1 - n)%nat with 0%nat by lia. reflexivity.
Qed.

Lemma windows_length {A} : forall (n : nat) (l : list A) w, In w (windows n l) -> length w = n.
Proof.
  induction l as [|x l IH]; cbn [windows]; intros w H; [destruct H|].
  destruct (n <=? length (x :: l))%nat eqn:E; [|destruct H].
  apply Nat.leb_le in E. destruct H as [<-|H]; auto. rewrite firstn_length. lia.
Qed.

Lemma windows_incl {A} : forall (n : nat) (l : list A) w x, In w (windows n l) -> In x w -> In x l.
Proof.
  induction l as [|y l IH]; cbn [windows]; intros w x H Hx; [destruct H|].
  destruct (n <=? length (y :: l))%nat; [|destruct H].
  destruct H as [<-|H]; [eapply In_firstn'; eauto|]. right. eapply IH; eauto.
Qed.

(* ================================================================ the filters, inside the domain *)
Definition in_range (k : Z) (row : list Z) : Prop := Forall (fun c => 0 <= c < k) row.

Lemma row_hash_bound k : 1 <= k -> forall row, in_range k row ->
  0 <= row_hash k row < k ^ Z.of_nat (length row).
Proof.
  intros Hk. induction row as [|c r IH]; intros Hr; cbn [row_hash length].
  - cbn. lia.
  - inversion Hr; subst. specialize (IH H2).
    rewrite Nat2Z.inj_succ, Z.pow_succ_r by lia.
    assert (0 < k ^ Z.of_nat (length r)) by (apply Z.pow_pos_nonneg; lia). nia.
Qed.

Lemma row_hash_inj k : 1 <= k -> forall a b, length a = length b -> in_range k a -> in_range k b ->
  row_hash k a = row_hash k b -> a = b.
Proof.
  intros Hk. induction a as [|c a IH]; destruct b as [|d b]; cbn [length]; intros Hl Ha Hb Hh; try discriminate; auto.
  inversion Hl as [Hl']. inversion Ha; subst. inversion Hb; subst.
  cbn [row_hash] in Hh. rewrite <- Hl' in Hh.
  pose proof (row_hash_bound k Hk a H2) as Ba. pose proof (row_hash_bound k Hk b H4) as Bb.
  rewrite <- Hl' in Bb.
  assert (0 < k ^ Z.of_nat (length a)) by (apply Z.pow_pos_nonneg; lia).
  assert (c = d) by nia. subst d. f_equal. apply IH; auto. lia.
Qed.

Lemma forall2b_eqb_eq : forall a b, forall2b Z.eqb a b = true <-> a = b.
Proof.
  induction a as [|x a IH]; destruct b as [|y b]; cbn; try (split; congruence).
  rewrite andb_true_iff, Z.eqb_eq, IH. split; [intros [-> ->]; reflexivity | intros H; inversion H; auto].
Qed.

Lemma all2_forall2b {A B} (f : A -> B -> bool) : forall a b, length a = length b -> all2 f a b = forall2b f a b.
Proof. induction a; destruct b; cbn; intros H; try discriminate; auto. rewrite IHa; auto. Qed.

Lemma existsb_ext_in' {A} (f g : A -> bool) : forall l, (forall x, In x l -> f x = g x) -> existsb f l = existsb g l.
Proof. induction l; cbn; intros H; auto. rewrite (H a) by auto. rewrite IHl; auto. Qed.

Lemma map_ext_in' {A B} (f g : A -> B) : forall l, (forall x, In x l -> f x = g x) -> map f l = map g l.
Proof. induction l; cbn; intros H; auto. rewrite (H a) by auto. rewrite IHl; auto. Qed.

Lemma bool_eq_iff (a b : bool) : (a = true <-> b = true) -> a = b.
Proof. destruct a, b; intuition. Qed.

Lemma bcast_row_id size row : length row = size -> bcast_row size row = row.
Proof. intros H. unfold bcast_row. rewrite H, Nat.eqb_refl. reflexivity. Qed.

Lemma bcast_ok_refl size : bcast_ok size size = true.
Proof. unfold bcast_ok. rewrite Nat.eqb_refl. reflexivity. Qed.

Lemma forallb_in_range k row : forallb (in_keys k) row = true -> in_range k row.
Proof.
  intros H. apply Forall_forall. intros c Hc. rewrite forallb_forall in H. specialize (H c Hc).
  unfold in_keys in H. apply andb_true_iff in H. destruct H as [H1 H2].
  apply Z.leb_le in H1. apply Z.ltb_lt in H2. lia.
Qed.

Lemma existsb_exists' {A B} (f : B -> bool) (g : A -> B) : forall l, existsb f (map g l) = existsb (fun x => f (g x)) l.
Proof. induction l; cbn; auto. rewrite IHl; auto. Qed.

(* inside the domain the column hash is injective: PtnFilterCombo.filter is row membership *)
Lemma combo_filter_spec f size data :
  f_w f = size -> 1 <= f_keys f ->
  (forall row, In row (f_ar f) -> length row = size /\ in_range (f_keys f) row) ->
  (forall d, In d data -> length d = size /\ in_range (f_keys f) d) ->
  combo_filter f size data
  = Some (map (fun d => xorb (f_inv f) (existsb (forall2b Z.eqb d) (f_ar f))) data).
Proof.
  intros Hw Hk Hrows Hdata. unfold combo_filter. rewrite Hw, bcast_ok_refl. f_equal.
  apply map_ext_in'. intros d Hd. f_equal. destruct (Hdata d Hd) as [Hld Hrd].
  unfold memZ. rewrite existsb_exists'.
  apply existsb_ext_in'. intros row Hrow. destruct (Hrows row Hrow) as [Hlr Hrr].
  rewrite bcast_row_id by auto. apply bool_eq_iff. rewrite Z.eqb_eq, forall2b_eqb_eq. split.
  - apply row_hash_inj; auto. congruence.
  - intros ->. reflexivity.
Qed.

Lemma type_filter_spec f size data :
  t_w f = size -> (forall row, In row (t_ar f) -> length row = size) ->
  (forall d, In d data -> length d = size) ->
  type_filter f size data
  = Some (map (fun d => xorb (t_inv f) (existsb (forall2b subclassb d) (t_ar f))) data).
Proof.
  intros Hw Hrows Hdata. unfold type_filter. destruct data as [|d0 data']; [reflexivity|].
  rewrite Hw, Nat.ltb_irrefl. cbn [andb]. f_equal.
  apply map_ext_in'. intros d Hd. f_equal. apply existsb_ext_in'. intros row Hrow.
  apply all2_forall2b. rewrite (Hdata d Hd), (Hrows row Hrow). reflexivity.
Qed.

Lemma omap_all_some {A B} (f : A -> option B) (g : A -> B) : forall l,
  (forall x, In x l -> f x = Some (g x)) -> omap f l = Some (map g l).
Proof.
  induction l as [|x l IH]; cbn; intros H; auto.
  rewrite (H x) by auto. rewrite IH; auto.
Qed.

Lemma mask_select_map_filter {A} (p : A -> bool) : forall l, mask_select l (map p l) = filter p l.
Proof. induction l; cbn; auto. destruct (p a); rewrite IHl; auto. Qed.

Lemma filter_filter' {A} (p q : A -> bool) : forall l, filter q (filter p l) = filter (fun x => p x && q x) l.
Proof. induction l; cbn; auto. destruct (p a); cbn; [destruct (q a)|]; rewrite IHl; auto. Qed.

Lemma filter_flagged {A} (p : A -> bool) : forall l, map fst (filter snd (map (fun c => (c, p c)) l)) = filter p l.
Proof. induction l; cbn; auto. destruct (p a); cbn; rewrite IHl; auto. Qed.

Lemma concat_filter_nonempty {A} : forall (L : list (list A)),
  concat (filter (fun c => negb (length c =? 0)%nat) L) = concat L.
Proof. induction L as [|c L IH]; cbn; auto. destruct c; cbn; rewrite IH; auto. Qed.

Lemma flat_map_filter {A B} (F : A -> list B) (p : A -> bool) : forall l,
  flat_map F (filter p l) = flat_map (fun c => if p c then F c else []) l.
Proof. induction l; cbn; auto. destruct (p a); cbn; rewrite IHl; auto. Qed.

Lemma flat_map_perm_ext {A B} (f g : A -> list B) : forall l,
  (forall x, In x l -> Permutation (f x) (g x)) -> Permutation (flat_map f l) (flat_map g l).
Proof.
  induction l; cbn; intros H; auto. apply Permutation_app; [apply H; auto | apply IHl; auto].
Qed.

Lemma concat_map_flat_map {A B} (f : A -> list B) : forall (L : list (list A)),
  concat (map (flat_map f) L) = flat_map f (concat L).
Proof. induction L; cbn; auto. rewrite flat_map_app, IHL; auto. Qed.

Lemma pairs_of_windows {A} : forall (row : list A),
  pairs_of row = map (fun w => firstn 2 (skipn w row)) (seq 0 (length row - 1)).
Proof.
  induction row as [|x row IH]; [reflexivity|].
  destruct row as [|y r]; [reflexivity|].
  change (pairs_of (x :: y :: r)) with ([x; y] :: pairs_of (y :: r)). rewrite IH.
  cbn [length]. replace (S (S (length r)) - 1)%nat with (S (length r)) by lia.
  replace (S (length r) - 1)%nat with (length r) by lia.
  cbn [seq map skipn firstn]. f_equal. rewrite <- seq_shift, map_map. reflexivity.
Qed.

Lemma fold_pairs_perm {A} size : forall (ar : list (list A)),
  (forall row, In row ar -> length row = size) ->
  Permutation (fold_pairs size ar) (flat_map pairs_of ar).
Proof.
  intros ar H. unfold fold_pairs.
  rewrite (flat_map_swap (fun (w : nat) (row : list A) => firstn 2 (skipn w row))).
  apply Permutation_refl'. apply flat_map_ext_in'. intros row Hrow.
  rewrite pairs_of_windows, (H row Hrow). reflexivity.
Qed.

(* ================================================================ what combinations() computes *)
Definition sizes_of (chunk : list (list note)) : list Z := map (fun g => Z.of_nat (length g)) chunk.

(* the OLD element-wise chord test: some position where a filter row equals the chunk's sizes *)
Definition chord_passes (cf : option nfilter) (chunk : list (list note)) : bool :=
  match cf with
  | None => true
  | Some f => xorb (f_inv f) (existsb (fun row => any2 Z.eqb row (sizes_of chunk)) (f_ar f))
  end.

Definition passed_seqs (adm : list (list note) -> bool) (groups : list (list note)) (size : nat)
           (kf : option nfilter) (tf : option tfilter) : list (list note) :=
  flat_map (fun chunk =>
      if adm chunk then filter (fun s => cols_allowed kf s && types_allowed tf s) (cart chunk) else [])
    (windows size groups).

Lemma allowed_is_passed groups size cf kf tf :
  allowed_seqs groups size cf kf tf = passed_seqs (chord_allowed cf) groups size kf tf.
Proof. reflexivity. Qed.

Lemma wf_combos_parts groups size cf kf tf :
  wf_combos groups size cf kf tf = true ->
  (2 <= size)%nat /\ wf_nfilter_w size cf = true /\ wf_nfilter_w size kf = true /\
  match tf with None => True
  | Some f => t_w f = size /\ forall row, In row (t_ar f) -> length row = size end /\
  match kf with None => True
  | Some f => 1 <= f_keys f /\ (forall row, In row (f_ar f) -> in_range (f_keys f) row) /\
              (forall g r, In g groups -> In r g -> 0 <= ncol r < f_keys f) end.
Proof.
  unfold wf_combos. rewrite !andb_true_iff. intros [[[[H1 H2] H3] H4] H5].
  split; [apply Nat.leb_le; auto|]. split; auto. split; auto. split.
  - destruct tf as [f|]; auto. apply andb_true_iff in H4. destruct H4 as [Ha Hb].
    split; [apply Nat.eqb_eq; auto|]. intros row Hrow. rewrite forallb_forall in Hb.
    apply Nat.eqb_eq. auto.
  - destruct kf as [f|]; auto. rewrite !andb_true_iff in H5. destruct H5 as [[Ha Hb] Hc].
    split; [apply Z.leb_le; auto|]. split.
    + intros row Hrow. rewrite forallb_forall in Hb. apply forallb_in_range. auto.
    + intros g r Hg Hr. rewrite forallb_forall in Hc. specialize (Hc g Hg).
      rewrite forallb_forall in Hc. specialize (Hc r Hr). unfold in_keys in Hc.
      apply andb_true_iff in Hc. destruct Hc as [Hc1 Hc2]. apply Z.leb_le in Hc1. apply Z.ltb_lt in Hc2. lia.
Qed.

Lemma wf_nfilter_w_parts size f : wf_nfilter_w size (Some f) = true ->
  f_w f = size /\ forall row, In row (f_ar f) -> length row = size.
Proof.
  cbn. rewrite andb_true_iff. intros [Ha Hb]. split; [apply Nat.eqb_eq; auto|].
  intros row Hrow. rewrite forallb_forall in Hb. apply Nat.eqb_eq. auto.
Qed.

Lemma Forall2_In_member {A} : forall (s : list A) (chunk : list (list A)) r,
  Forall2 (@In A) s chunk -> In r s -> exists g, In g chunk /\ In r g.
Proof.
  induction 1; intros Hr; [destruct Hr|].
  destruct Hr as [<-|Hr]; [exists y; split; [left|]; auto|].
  destruct (IHForall2 Hr) as [g [Hg Hrg]]. exists g. split; [right|]; auto.
Qed.

Lemma filter_true' {A} (p : A -> bool) : forall l, (forall x, p x = true) -> filter p l = l.
Proof. induction l; cbn; intros H; auto. rewrite H, IHl; auto. Qed.

(* What combinations() returns inside the domain, for any chord test [ct] that behaves as [adm] on the
   runs of [size] consecutive groups: the filtered cartesian products of the passed runs. *)
Theorem combos_with_char ct adm groups size ms2 cf kf tf :
  wf_combos groups size cf kf tf = true ->
  (forall chunk, In chunk (windows size groups) ->
     match cf with None => adm chunk = true | Some f => ct f (sizes_of chunk) = Some (adm chunk) end) ->
  exists out, combinations_with ct groups size ms2 cf kf tf = Some out /\
              Permutation (concat out) (reported ms2 (passed_seqs adm groups size kf tf)).
Proof.
  intros Hwf Hadm. destruct (wf_combos_parts _ _ _ _ _ Hwf) as [Hs [Hcf [Hkf [Htf Hk]]]].
  unfold combinations_with. rewrite (chunks_windows size groups) by lia.
  replace (size <? 2)%nat with false by (symmetry; apply Nat.ltb_ge; lia).
  assert (HlenW : forall chunk s, In chunk (windows size groups) -> In s (mesh chunk) -> length s = size).
  { intros chunk s Hc Hin. apply (Permutation_in _ (mesh_perm chunk)) in Hin. apply cart_length in Hin.
    rewrite Hin. eapply windows_length; eauto. }
  assert (HmemW : forall chunk s r, In chunk (windows size groups) -> In s (mesh chunk) -> In r s ->
                                    exists g, In g groups /\ In r g).
  { intros chunk s r Hc Hin Hr. apply (Permutation_in _ (mesh_perm chunk)) in Hin. apply cart_In in Hin.
    destruct (Forall2_In_member s chunk r Hin Hr) as [g [Hg Hrg]]. exists g. split; auto.
    eapply windows_incl; eauto. }
  set (W := windows size groups) in *.
  (* the chord filter over the chunks *)
  rewrite (omap_all_some _ (fun chunk => (chunk, adm chunk))).
  2:{ intros chunk Hc. specialize (Hadm chunk Hc). destruct cf as [f|].
      - fold (sizes_of chunk). rewrite Hadm. reflexivity.
      - rewrite Hadm. reflexivity. }
  cbn [opt_bind]. rewrite filter_flagged.
  (* meshgrid and the column / type filters over the passed chunks *)
  set (pq := fun s => cols_allowed kf s && types_allowed tf s).
  rewrite (omap_all_some _ (fun chunk => filter pq (mesh chunk))).
  2:{ intros chunk Hc. apply filter_In in Hc. destruct Hc as [Hc _]. cbv beta zeta.
      assert (E1 : match kf with
                   | None => Some (mesh chunk)
                   | Some f => apply_mask (mesh chunk) (combo_filter f size (map (map ncol) (mesh chunk)))
                   end = Some (filter (cols_allowed kf) (mesh chunk))).
      { destruct kf as [f|].
        - destruct (wf_nfilter_w_parts _ _ Hkf) as [Hw Hrl]. destruct Hk as [Hk1 [Hk2 Hk3]].
          rewrite (combo_filter_spec f size); auto.
          + cbn [apply_mask]. rewrite map_map. unfold cols_allowed. rewrite mask_select_map_filter. reflexivity.
          + intros d Hd. apply in_map_iff in Hd. destruct Hd as [s [<- Hs']].
            split; [rewrite map_length; eapply HlenW; eauto|].
            apply Forall_forall. intros c Hc'. apply in_map_iff in Hc'. destruct Hc' as [r [<- Hr]].
            destruct (HmemW chunk s r Hc Hs' Hr) as [g [Hg Hrg]]. apply (Hk3 g r); auto.
        - rewrite filter_true'; auto. }
      rewrite E1. cbn [opt_bind].
      set (combos1 := filter (cols_allowed kf) (mesh chunk)).
      assert (E2 : match tf with
                   | None => Some combos1
                   | Some f => apply_mask combos1 (type_filter f size (map (map nty) combos1))
                   end = Some (filter (types_allowed tf) combos1)).
      { destruct tf as [f|].
        - destruct Htf as [Hw Hrl]. rewrite (type_filter_spec f size); auto.
          + cbn [apply_mask]. rewrite map_map. unfold types_allowed. rewrite mask_select_map_filter. reflexivity.
          + intros d Hd. apply in_map_iff in Hd. destruct Hd as [s [<- Hs']].
            rewrite map_length. unfold combos1 in Hs'. apply filter_In in Hs'. destruct Hs' as [Hs' _].
            eapply HlenW; eauto.
        - rewrite filter_true'; auto. }
      rewrite E2. unfold combos1. rewrite filter_filter'. reflexivity. }
  cbn [opt_bind]. rewrite andb_false_r. cbn [andb]. eexists; split; [reflexivity|].
  set (L := map (fun chunk => filter pq (mesh chunk)) (filter adm W)).
  assert (HL : Permutation (concat L) (passed_seqs adm groups size kf tf)).
  { unfold L, passed_seqs. fold W. rewrite <- flat_map_concat_map. rewrite flat_map_filter.
    apply flat_map_perm_ext. intros chunk Hc. destruct (adm chunk); auto.
    apply Permutation_filter'. apply mesh_perm. }
  destruct ms2; unfold reported.
  - transitivity (concat (map (flat_map (@pairs_of note)) (filter (fun c => negb (length c =? 0)%nat) L))).
    + rewrite <- !flat_map_concat_map. apply flat_map_perm_ext. intros ar Har.
      apply fold_pairs_perm. intros row Hrow.
      apply filter_In in Har. destruct Har as [Har _]. unfold L in Har. apply in_map_iff in Har.
      destruct Har as [chunk [<- Hc]]. apply filter_In in Hc. destruct Hc as [Hc _].
      apply filter_In in Hrow. destruct Hrow as [Hrow _]. eapply HlenW; eauto.
    + rewrite concat_map_flat_map, concat_filter_nonempty. apply Permutation_flat_map'. exact HL.
  - rewrite concat_filter_nonempty. exact HL.
Qed.

Lemma sizes_of_length chunk : length (sizes_of chunk) = length chunk.
Proof. unfold sizes_of. apply map_length. Qed.

(* the OLD variant: what the element-wise chord test let through *)
Theorem combos_old_char groups size ms2 cf kf tf :
  wf_combos groups size cf kf tf = true ->
  exists out, combinations_old groups size ms2 cf kf tf = Some out /\
              Permutation (concat out) (reported ms2 (passed_seqs (chord_passes cf) groups size kf tf)).
Proof.
  intros Hwf. unfold combinations_old. apply combos_with_char; auto.
  intros chunk Hc. destruct cf as [f|]; [|reflexivity].
  destruct (wf_combos_parts _ _ _ _ _ Hwf) as [_ [Hcf _]].
  destruct (wf_nfilter_w_parts _ _ Hcf) as [Hw Hrl].
  unfold chord_filter_old_any. rewrite sizes_of_length, (windows_length _ _ _ Hc), Hw, bcast_ok_refl.
  cbn [chord_passes]. f_equal. f_equal. apply existsb_ext_in'. intros row Hrow.
  rewrite bcast_row_id; auto.
Qed.

(* the guard that excludes the defect class: on every run of [size] consecutive groups the element-wise
   test gives the same answer as row membership *)
Definition chord_guard (cf : option nfilter) (size : nat) (groups : list (list note)) : bool :=
  forallb (fun chunk => Bool.eqb (chord_passes cf chunk) (chord_allowed cf chunk)) (windows size groups).

Theorem combos_old_exact_guarded groups size ms2 cf kf tf :
  wf_combos groups size cf kf tf = true -> chord_guard cf size groups = true ->
  exists out, combinations_old groups size ms2 cf kf tf = Some out /\
              combos_spec groups size ms2 cf kf tf out.
Proof.
  intros Hwf Hg. destruct (combos_old_char groups size ms2 cf kf tf Hwf) as [out [H1 H2]].
  exists out. split; auto. unfold combos_spec. rewrite allowed_is_passed.
  replace (passed_seqs (chord_allowed cf) groups size kf tf)
    with (passed_seqs (chord_passes cf) groups size kf tf); auto.
  unfold passed_seqs. apply flat_map_ext_in'. intros chunk Hc.
  unfold chord_guard in Hg. rewrite forallb_forall in Hg. specialize (Hg chunk Hc).
  apply eqb_prop in Hg. rewrite Hg. reflexivity.
Qed.

(* THE property: inside the domain combinations() succeeds and reports exactly the allowed sequences, for
   every chord-size, column and type filter *)
Theorem combos_exact groups size ms2 cf kf tf :
  wf_combos groups size cf kf tf = true ->
  exists out, combinations groups size ms2 cf kf tf = Some out /\
              combos_spec groups size ms2 cf kf tf out.
Proof.
  intros Hwf. unfold combos_spec, combinations. rewrite allowed_is_passed. apply combos_with_char; auto.
  intros chunk Hc. destruct cf as [f|]; [|reflexivity].
  destruct (wf_combos_parts _ _ _ _ _ Hwf) as [_ [Hcf _]].
  destruct (wf_nfilter_w_parts _ _ Hcf) as [Hw Hrl].
  unfold chord_filter. rewrite sizes_of_length, (windows_length _ _ _ Hc), Hw, bcast_ok_refl.
  cbn [chord_allowed]. f_equal. f_equal. apply existsb_ext_in'. intros row Hrow.
  rewrite bcast_row_id; auto. apply bool_eq_iff.
  rewrite (list_eqb_eq Z.eqb Z.eqb_eq), forall2b_eqb_eq. unfold sizes_of. split; congruence.
Qed.

(* the declarative reading of the expected list: a sequence is listed iff it takes one note from each
   group of an allowed run of consecutive groups and passes the column and type filters *)
Theorem allowed_seqs_In groups size cf kf tf s :
  In s (allowed_seqs groups size cf kf tf) <->
  exists chunk, In chunk (windows size groups) /\ chord_allowed cf chunk = true /\
                Forall2 (@In note) s chunk /\ cols_allowed kf s = true /\ types_allowed tf s = true.
Proof.
  unfold allowed_seqs. rewrite in_flat_map. split.
  - intros [chunk [Hc H]]. exists chunk. destruct (chord_allowed cf chunk); [|destruct H].
    apply filter_In in H. destruct H as [H1 H2]. apply andb_true_iff in H2. destruct H2.
    repeat split; auto. apply cart_In; auto.
  - intros [chunk [Hc [Ha [Hf [Hk Ht]]]]]. exists chunk. split; auto. rewrite Ha.
    apply filter_In. split; [apply cart_In; auto|]. rewrite Hk, Ht. reflexivity.
Qed.

(* ================================================================ the filter constructors' options *)
Lemma lex_cmp_eq : forall a b, lex_cmp a b = Eq -> a = b.
Proof.
  induction a as [|x a IH]; destruct b as [|y b]; cbn; try discriminate; auto.
  destruct (x ?= y) eqn:E; try discriminate. intros H. apply Z.compare_eq in E. subst. f_equal; auto.
Qed.

Lemma uinsert_In r : forall l x, In x (uinsert r l) <-> x = r \/ In x l.
Proof.
  induction l as [|y l IH]; cbn; intros x; [intuition|].
  destruct (lex_cmp r y) eqn:E; cbn.
  - apply lex_cmp_eq in E. subst. intuition.
  - intuition.
  - rewrite IH. intuition.
Qed.

(* np.unique(axis=0) keeps exactly the rows it was given *)
Theorem unique_rows_In : forall l x, In x (unique_rows l) <-> In x l.
Proof.
  unfold unique_rows. induction l as [|r l IH]; cbn; intros x; [tauto|].
  rewrite uinsert_In, IH. intuition.
Qed.

Lemma zrange_n_In : forall n lo d, In d (zrange_n lo n) <-> lo <= d < lo + Z.of_nat n.
Proof.
  induction n as [|n IH]; intros lo d; cbn [zrange_n In].
  - cbn. lia.
  - rewrite IH. rewrite Nat2Z.inj_succ. lia.
Qed.
Lemma zrange_In lo hi d : In d (zrange lo hi) <-> lo <= d < hi.
Proof. unfold zrange. rewrite zrange_n_In. lia. Qed.

(* HMIRROR / VMIRROR / MIRROR *)
Theorem hmirror_In keys rows r : In r (hmirror keys rows) <-> hmirror_rows keys rows r.
Proof.
  unfold hmirror, hmirror_rows. rewrite in_app_iff, in_map_iff. split; intros [H|[b [H1 H2]]]; auto.
  - right. exists b. split; auto.
  - right. exists b. split; auto.
Qed.
Theorem vmirror_In {A} (rows : list (list A)) r : In r (vmirror rows) <-> vmirror_rows rows r.
Proof.
  unfold vmirror, vmirror_rows. rewrite in_app_iff, in_map_iff. split; intros [H|[b [H1 H2]]]; auto.
  - right. exists b. split; auto.
  - right. exists b. split; auto.
Qed.

(* ANY_ORDER: every listed row is a reordering of a base row, and every reordering is listed *)
Lemma insert_all_In {A} (x : A) : forall l p, In p (insert_all x l) <-> exists l1 l2, l = l1 ++ l2 /\ p = l1 ++ x :: l2.
Proof.
  induction l as [|y l IH]; cbn; intros p.
  - split.
    + intros [<-|[]]. exists [], []. auto.
    + intros [l1 [l2 [H ->]]]. symmetry in H. apply app_eq_nil in H. destruct H; subst. auto.
  - split.
    + intros [<-|H]; [exists [], (y :: l); auto|].
      apply in_map_iff in H. destruct H as [q [<- H]]. apply IH in H. destruct H as [l1 [l2 [-> ->]]].
      exists (y :: l1), l2. auto.
    + intros [l1 [l2 [H ->]]]. destruct l1 as [|z l1]; cbn in *.
      * left. subst. reflexivity.
      * inversion H; subst. right. apply in_map. apply IH. eauto.
Qed.

Theorem perms_In {A} : forall (l p : list A), In p (perms l) <-> Permutation l p.
Proof.
  induction l as [|x l IH]; cbn; intros p.
  - split; [intros [<-|[]]; constructor | intros H; apply Permutation_nil in H; auto].
  - rewrite in_flat_map. split.
    + intros [q [Hq Hp]]. apply IH in Hq. apply insert_all_In in Hp. destruct Hp as [l1 [l2 [-> ->]]].
      rewrite <- Permutation_middle. constructor; auto.
    + intros H. assert (Hin : In x p) by (eapply Permutation_in; eauto; left; auto).
      apply in_split in Hin. destruct Hin as [l1 [l2 ->]].
      exists (l1 ++ l2). split; [apply IH; eapply Permutation_cons_app_inv; eauto|].
      apply insert_all_In. eauto.
Qed.

Theorem any_order_In {A} (rows : list (list A)) r : In r (flat_map perms rows) <-> any_order_rows rows r.
Proof.
  unfold any_order_rows. rewrite in_flat_map. split; intros [b [H1 H2]]; exists b; split; auto; apply perms_In; auto.
Qed.

(* AND_LOWER / AND_HIGHER: the added rows are exactly the boxes 1..max_k, resp. min_k..keys *)
Lemma cart_ranges_In (lo hi : Z -> Z) : forall bounds r,
  In r (cart (map (fun b => zrange (lo b) (hi b)) bounds)) <-> Forall2 (fun c b => lo b <= c < hi b) r bounds.
Proof.
  intros bounds r. rewrite cart_In. split.
  - revert r. induction bounds as [|b bounds IH]; intros r H; inversion H; subst; constructor; auto.
    apply zrange_In; auto.
  - revert r. induction bounds as [|b bounds IH]; intros r H; inversion H; subst; constructor; auto.
    apply zrange_In; auto.
Qed.

Lemma Forall2_impl' {A B} (P Q : A -> B -> Prop) : (forall a b, P a b -> Q a b) ->
  forall l l', Forall2 P l l' -> Forall2 Q l l'.
Proof. intros H. induction 1; constructor; auto. Qed.

Theorem and_lower_In rows r :
  In r (rows ++ cart (map (fun i => zrange 1 (i + 1)) (colwise Z.max rows))) <-> and_lower_rows rows r.
Proof.
  unfold and_lower_rows. rewrite in_app_iff.
  rewrite (cart_ranges_In (fun _ => 1) (fun i => i + 1)).
  split; (intros [H|H]; [left; auto|right]); (eapply Forall2_impl'; [|exact H]; cbn; intros; lia).
Qed.

Theorem and_higher_In keys rows r :
  In r (rows ++ cart (map (fun i => zrange i (keys + 1)) (colwise Z.min rows))) <-> and_higher_rows keys rows r.
Proof.
  unfold and_higher_rows. rewrite in_app_iff.
  rewrite (cart_ranges_In (fun i => i) (fun _ => keys + 1)).
  split; (intros [H|H]; [left; auto|right]); (eapply Forall2_impl'; [|exact H]; cbn; intros; lia).
Qed.

(* REPEAT: every translate of a base row that stays within 0..keys-1 *)
Lemma fold_min_facts : forall r acc, let m := fold_left Z.min r acc in
  m <= acc /\ (forall c, In c r -> m <= c) /\ (m = acc \/ In m r).
Proof.
  induction r as [|c r IH]; intros acc; cbn.
  - split; [lia|]. split; [tauto|auto].
  - destruct (IH (Z.min acc c)) as [H1 [H2 H3]]. split; [lia|]. split.
    + intros x [<-|Hx]; [lia|auto].
    + destruct H3 as [H3|H3]; [|right; right; exact H3].
      destruct (Z.min_spec acc c) as [[_ E]|[_ E]]; [left|right; left; symmetry]; (etransitivity; [exact H3|exact E]).
Qed.
Lemma fold_max_facts : forall r acc, let m := fold_left Z.max r acc in
  acc <= m /\ (forall c, In c r -> c <= m) /\ (m = acc \/ In m r).
Proof.
  induction r as [|c r IH]; intros acc; cbn.
  - split; [lia|]. split; [tauto|auto].
  - destruct (IH (Z.max acc c)) as [H1 [H2 H3]]. split; [lia|]. split.
    + intros x [<-|Hx]; [lia|auto].
    + destruct H3 as [H3|H3]; [|right; right; exact H3].
      destruct (Z.max_spec acc c) as [[_ E]|[_ E]]; [right; left; symmetry|left]; (etransitivity; [exact H3|exact E]).
Qed.

Lemma omap_some_inv {A B} (f : A -> option B) : forall l ys, omap f l = Some ys -> Forall2 (fun x y => f x = Some y) l ys.
Proof.
  induction l as [|x l IH]; cbn; intros ys H.
  - inversion H; constructor.
  - destruct (f x) eqn:E; [|discriminate]. destruct (omap f l) eqn:E2; [|discriminate].
    inversion H; subst. constructor; auto.
Qed.

Lemma repeat_row_In keys row mn mx r :
  list_min row = Some mn -> list_max row = Some mx ->
  (In r (map (fun d => shift_row (d - mn) row) (zrange 0 (keys - mx + mn)))
   <-> exists d, r = map (fun c => c + d) row /\ in_range_row keys r).
Proof.
  intros Hmn Hmx. destruct row as [|x row]; [discriminate|].
  cbn in Hmn, Hmx. inversion Hmn as [Emn]. inversion Hmx as [Emx]. clear Hmn Hmx.
  destruct (fold_min_facts row x) as [A1 [A2 A3]]. destruct (fold_max_facts row x) as [B1 [B2 B3]].
  cbv zeta in *. rewrite Emn in *. rewrite Emx in *.
  assert (Hmn_in : In mn (x :: row)) by (destruct A3; [left|right]; auto).
  assert (Hmx_in : In mx (x :: row)) by (destruct B3; [left|right]; auto).
  assert (Hlo : forall c, In c (x :: row) -> mn <= c <= mx).
  { intros c [<-|Hc]; [lia|]. split; auto. }
  rewrite in_map_iff. unfold shift_row, in_range_row. split.
  - intros [d [<- Hd]]. apply zrange_In in Hd. exists (d - mn). split; auto.
    apply Forall_forall. intros c Hc. apply in_map_iff in Hc. destruct Hc as [c0 [<- Hc0]].
    specialize (Hlo c0 Hc0). lia.
  - intros [t [-> Hr]]. exists (t + mn). split; [apply map_ext; intros; lia|].
    apply zrange_In. rewrite Forall_forall in Hr.
    assert (H1 : 0 <= mn + t < keys) by (apply Hr; apply in_map_iff; exists mn; auto).
    assert (H2 : 0 <= mx + t < keys) by (apply Hr; apply in_map_iff; exists mx; auto).
    lia.
Qed.

Theorem repeat_expand_In keys rows out :
  repeat_expand keys rows = Some out -> forall r, In r out <-> repeat_rows keys rows r.
Proof.
  unfold repeat_expand, repeat_rows. destruct rows as [|row0 rows0] eqn:Er; [discriminate|]. rewrite <- Er. clear Er row0 rows0.
  intros H r. destruct (omap _ rows) as [l|] eqn:E; [|discriminate]. cbn in H. inversion H; subst. clear H.
  apply omap_some_inv in E. rewrite in_concat. split.
  - intros [y0 [Hy Hr]]. revert Hy. induction E as [|row y rows l Hf E IH]; intros Hy; [destruct Hy|].
    destruct Hy as [->|Hy].
    + destruct (list_min row) as [mn|] eqn:Emn; [|discriminate]. destruct (list_max row) as [mx|] eqn:Emx; [|discriminate].
      inversion Hf; subst. apply (repeat_row_In keys row mn mx r Emn Emx) in Hr. destruct Hr as [d [Hd Hrr]].
      exists row, d. split; [left; auto|]. split; [destruct row; [discriminate|congruence]|]. auto.
    + destruct (IH Hy) as [b [d [Hb H']]]. exists b, d. split; [right|]; auto.
  - intros [base [d [Hb [Hne [Hd Hrr]]]]]. induction E as [|row y rows l Hf E IH]; [destruct Hb|].
    destruct Hb as [<-|Hb].
    + destruct (list_min row) as [mn|] eqn:Emn; [|discriminate]. destruct (list_max row) as [mx|] eqn:Emx; [|discriminate].
      inversion Hf; subst y. eexists; split; [left; reflexivity|].
      apply (repeat_row_In keys row mn mx r Emn Emx). exists d. auto.
    + destruct (IH Hb) as [y' [Hy' Hr']]. exists y'. split; [right|]; auto.
Qed.

(* ---- the constructors: the array holds exactly the rows the options describe, applied in the order
   REPEAT, HMIRROR, VMIRROR (combo); AND_HIGHER, AND_LOWER, ANY_ORDER (chord); ANY_ORDER else MIRROR (type) *)
Theorem combo_create_rows w rows keys options excl f :
  combo_create (In2 w rows) keys options excl = Some f ->
  f_w f = w /\ f_keys f = keys /\ f_inv f = excl /\
  exists rows1,
    (if Z.testbit options 0 then forall r, In r rows1 <-> repeat_rows keys rows r else rows1 = rows) /\
    forall r, In r (f_ar f) <->
      In r (let rows2 := if Z.testbit options 1 then hmirror keys rows1 else rows1 in
            if Z.testbit options 2 then vmirror rows2 else rows2).
Proof.
  unfold combo_create. intros H.
  destruct (Z.testbit options 0) eqn:E0.
  - destruct (repeat_expand keys rows) as [rows1|] eqn:Er; [|discriminate]. cbn [opt_bind] in H.
    inversion H; subst; cbn. repeat split; auto. exists rows1. split.
    + apply repeat_expand_In; auto.
    + intros r. apply unique_rows_In.
  - cbn [opt_bind] in H. inversion H; subst; cbn. repeat split; auto. exists rows. split; auto.
    intros r. apply unique_rows_In.
Qed.

Theorem chord_create_rows w rows keys options excl f :
  chord_create (In2 w rows) keys options excl = Some f ->
  f_w f = w /\ f_inv f = excl /\
  forall r, In r (f_ar f) <->
    In r (let rows1 := if Z.testbit options 2
                       then rows ++ cart (map (fun i => zrange i (keys + 1)) (colwise Z.min rows)) else rows in
          let rows2 := if Z.testbit options 1
                       then rows1 ++ cart (map (fun i => zrange 1 (i + 1)) (colwise Z.max rows1)) else rows1 in
          if Z.testbit options 0 then flat_map perms rows2 else rows2).
Proof.
  unfold chord_create. intros H. destruct rows as [|row0 rows0] eqn:Er; [discriminate|]. rewrite <- Er in *.
  destruct (Z.testbit options 2 && Z.testbit options 1 && _); [discriminate|].
  inversion H; subst; cbn [f_w f_inv f_ar]. repeat split; auto; apply unique_rows_In.
Qed.

Lemma dedupe_t_In : forall l r, In r (dedupe_t l) <-> In r l.
Proof.
  induction l as [|x l IH]; cbn; intros r; [tauto|].
  destruct (existsb (list_eqb ntype_eqb x) l) eqn:E.
  - rewrite IH. split; auto. intros [<-|H]; auto.
    apply existsb_exists in E. destruct E as [y [Hy He]].
    apply (list_eqb_eq ntype_eqb ntype_eqb_eq) in He. subst; auto.
  - cbn. rewrite IH. tauto.
Qed.

Theorem type_create_rows w rows options excl f :
  type_create (In2 w rows) options excl = Some f ->
  t_w f = w /\ t_inv f = excl /\
  forall r, In r (t_ar f) <->
    In r (if Z.testbit options 0 then flat_map perms rows
          else if Z.testbit options 1 then vmirror rows else rows).
Proof.
  unfold type_create. intros H. inversion H; subst; cbn [t_w t_inv t_ar]. repeat split; auto; apply dedupe_t_In.
Qed.

(* ================================================================ the templates *)
Lemma forall2b_app {A B} (f : A -> B -> bool) : forall a1 b1 a2 b2, length a1 = length b1 ->
  forall2b f (a1 ++ a2) (b1 ++ b2) = forall2b f a1 b1 && forall2b f a2 b2.
Proof.
  induction a1; destruct b1; cbn; intros a2 b2 H; try discriminate; auto.
  rewrite IHa1 by auto. rewrite andb_assoc. reflexivity.
Qed.

Lemma forall2b_In_r {A B} (f : A -> B -> bool) : forall a b y, forall2b f a b = true -> In y b ->
  exists x, In x a /\ f x y = true.
Proof.
  induction a as [|a0 a IHa]; destruct b as [|b0 b]; cbn; intros y H Hy; try discriminate; [destruct Hy|].
  apply andb_true_iff in H. destruct H as [H1 H2]. destruct Hy as [<-|Hy]; [eauto|].
  destruct (IHa b y H2 Hy) as [x [Hx Hf]]. eauto.
Qed.

Lemma forall2b_length {A B} (f : A -> B -> bool) : forall a b, forall2b f a b = true -> length a = length b.
Proof. induction a; destruct b; cbn; intros H; try discriminate; auto. apply andb_true_iff in H. f_equal. apply IHa. tauto. Qed.

Lemma forall2b_all_object : forall l, forall2b subclassb l (repeat TObject (length l)) = true.
Proof. induction l; cbn; auto. Qed.

Lemma subclass_tail x : subclassb x TTail = true <-> x = TTail.
Proof. cbn. apply ntype_eqb_eq. Qed.

(* the type filter of both templates ([HoldTail, object, ...] in ANY_ORDER): some row matches iff some note is a tail *)
Lemma tail_rows_char (rows : list (list ntype)) n tys :
  (1 <= n)%nat -> length tys = n ->
  (forall r, In r rows <-> Permutation (TTail :: repeat TObject (n - 1)) r) ->
  existsb (forall2b subclassb tys) rows = existsb (fun t => ntype_eqb t TTail) tys.
Proof.
  intros Hn Hl Hrows. apply bool_eq_iff. rewrite !existsb_exists. split.
  - intros [row [Hrow Hf]]. apply Hrows in Hrow.
    assert (Hin : In TTail row) by (eapply Permutation_in; eauto; left; auto).
    destruct (forall2b_In_r _ _ _ _ Hf Hin) as [x [Hx Hs]]. apply subclass_tail in Hs. subst.
    exists TTail. split; auto.
  - intros [t [Ht He]]. apply ntype_eqb_eq in He. subst t. apply in_split in Ht. destruct Ht as [l1 [l2 ->]].
    exists (repeat TObject (length l1) ++ TTail :: repeat TObject (length l2)). split.
    + apply Hrows. rewrite <- Permutation_middle. constructor. rewrite <- repeat_app.
      rewrite app_length in Hl. cbn in Hl. replace (n - 1)%nat with (length l1 + length l2)%nat by lia. reflexivity.
    + rewrite forall2b_app by (rewrite repeat_length; auto). cbn [forall2b].
      rewrite !forall2b_all_object. reflexivity.
Qed.

Lemma type_create_tail n : (1 <= n)%nat ->
  exists tf, type_create (In2 n [TTail :: repeat TObject (n - 1)]) 1 true = Some tf /\
             t_w tf = n /\ t_inv tf = true /\
             forall r, In r (t_ar tf) <-> Permutation (TTail :: repeat TObject (n - 1)) r.
Proof.
  intros Hn. destruct (type_create (In2 n [TTail :: repeat TObject (n - 1)]) 1 true) as [tf|] eqn:E; [|discriminate].
  exists tf. split; auto. apply type_create_rows in E. destruct E as [Hw [Hi Hr]]. repeat split; auto.
  - intros H. apply Hr in H. change (Z.testbit 1 0) with true in H. apply any_order_In in H.
    destruct H as [b [[<-|[]] Hp]]. auto.
  - intros H. apply Hr. change (Z.testbit 1 0) with true. apply any_order_In. eexists; split; [left; reflexivity|auto].
Qed.

Lemma negb_existsb {A} (p : A -> bool) : forall l, negb (existsb p l) = forallb (fun x => negb (p x)) l.
Proof. induction l; cbn; auto. rewrite negb_orb, IHl. reflexivity. Qed.

Lemma types_allowed_tail tf n s : (1 <= n)%nat -> length s = n -> t_inv tf = true ->
  (forall r, In r (t_ar tf) <-> Permutation (TTail :: repeat TObject (n - 1)) r) ->
  types_allowed (Some tf) s = forallb (fun r => negb (is_tail r)) s.
Proof.
  intros Hn Hl Hi Hr. unfold types_allowed. rewrite Hi.
  rewrite (tail_rows_char (t_ar tf) n (map nty s)); auto; [|rewrite map_length; auto].
  rewrite existsb_exists'. unfold is_tail. cbn [xorb]. apply negb_existsb.
Qed.

Lemma all_eq_repeat : forall (l : list Z) d, (forall x, In x l -> x = d) -> l = repeat d (length l).
Proof. induction l; cbn; intros d H; auto. rewrite (H a) by auto. f_equal. apply IHl. auto. Qed.

Lemma map_repeat' {A B} (f : A -> B) x : forall n, map f (repeat x n) = repeat (f x) n.
Proof. induction n; cbn; auto. rewrite IHn; auto. Qed.

(* PtnFilterCombo.create([[0] * n], keys, REPEAT): the rows [d] * n for d in 0..keys-1 *)
Lemma combo_create_repeat0 n keys excl : (1 <= n)%nat ->
  exists kf, combo_create (In2 n [repeat 0 n]) keys 1 excl = Some kf /\
             f_w kf = n /\ f_keys kf = keys /\ f_inv kf = excl /\
             forall r, In r (f_ar kf) <-> exists d, 0 <= d < keys /\ r = repeat d n.
Proof.
  intros Hn. destruct (combo_create (In2 n [repeat 0 n]) keys 1 excl) as [kf|] eqn:E.
  - exists kf. split; auto. apply combo_create_rows in E. destruct E as [Hw [Hk [Hi [rows1 [H1 H2]]]]].
    repeat split; auto.
    + intros H. apply H2 in H. change (Z.testbit 1 1) with false in H. change (Z.testbit 1 2) with false in H.
      cbv zeta in H. change (Z.testbit 1 0) with true in H1. apply H1 in H.
      destruct H as [base [d [[<-|[]] [_ [-> Hr]]]]]. rewrite map_repeat' in *. cbn in Hr.
      exists d. split; auto. unfold in_range_row in Hr. rewrite Forall_forall in Hr. apply Hr.
      destruct n; [lia|left; reflexivity].
    + intros [d [Hd ->]]. apply H2. change (Z.testbit 1 1) with false. change (Z.testbit 1 2) with false.
      cbv zeta. change (Z.testbit 1 0) with true in H1. apply H1.
      exists (repeat 0 n), d. split; [left; auto|]. split; [destruct n; [lia|discriminate]|].
      rewrite map_repeat'. split; auto. apply Forall_forall. intros x Hx. apply repeat_spec in Hx. subst; auto.
  - exfalso. destruct n as [|n']; [lia|]. unfold combo_create in E. change (Z.testbit 1 0) with true in E.
    unfold repeat_expand in E. cbn [repeat omap list_min list_max opt_bind] in E. discriminate.
Qed.

Lemma jack_rows_existsb (rows : list (list Z)) n keys s : (1 <= n)%nat -> length s = n ->
  (forall r, In r rows <-> exists d, 0 <= d < keys /\ r = repeat d n) ->
  existsb (forall2b Z.eqb (map ncol s)) rows
  = match s with [] => false | r0 :: _ => in_keys keys (ncol r0) && forallb (fun r => ncol r =? ncol r0) s end.
Proof.
  intros Hn Hl Hr.
  destruct s as [|r0 s']; [cbn in Hl; lia|]. apply bool_eq_iff. rewrite existsb_exists, andb_true_iff, forallb_forall. split.
  - intros [row [Hrow Hf]]. apply Hr in Hrow. destruct Hrow as [d [Hd ->]]. apply forall2b_eqb_eq in Hf.
    assert (Hall : forall r, In r (r0 :: s') -> ncol r = d).
    { intros r Hin. apply (in_map ncol) in Hin. rewrite Hf in Hin. apply repeat_spec in Hin. auto. }
    split.
    + unfold in_keys. rewrite (Hall r0) by (left; auto). apply andb_true_iff. split; [apply Z.leb_le|apply Z.ltb_lt]; lia.
    + intros r Hin. apply Z.eqb_eq. rewrite (Hall r Hin), (Hall r0) by (left; auto). reflexivity.
  - intros [Hk Hall]. unfold in_keys in Hk. apply andb_true_iff in Hk. destruct Hk as [Hk1 Hk2].
    apply Z.leb_le in Hk1. apply Z.ltb_lt in Hk2.
    exists (repeat (ncol r0) n). split; [apply Hr; exists (ncol r0); split; [lia|auto]|].
    apply forall2b_eqb_eq. rewrite <- Hl. rewrite <- (map_length ncol). apply all_eq_repeat.
    intros x Hx. apply in_map_iff in Hx. destruct Hx as [r [<- Hin]]. apply Z.eqb_eq. auto.
Qed.

Lemma cols_allowed_jack kf n keys s : (1 <= n)%nat -> length s = n -> f_inv kf = false ->
  (forall r, In r (f_ar kf) <-> exists d, 0 <= d < keys /\ r = repeat d n) ->
  cols_allowed (Some kf) s
  = match s with [] => false | r0 :: _ => in_keys keys (ncol r0) && forallb (fun r => ncol r =? ncol r0) s end.
Proof.
  intros Hn Hl Hi Hr. unfold cols_allowed. rewrite Hi. rewrite xorb_false_l. apply (jack_rows_existsb _ n); auto.
Qed.

Lemma filter_flat_map {A B} (p : B -> bool) (F : A -> list B) : forall l,
  filter p (flat_map F l) = flat_map (fun x => filter p (F x)) l.
Proof. induction l; cbn; auto. rewrite filter_app, IHl. reflexivity. Qed.

Lemma filter_ext_in' {A} (p q : A -> bool) : forall l, (forall x, In x l -> p x = q x) -> filter p l = filter q l.
Proof. induction l; cbn; intros H; auto. rewrite (H a) by auto. rewrite IHl; auto. Qed.

Definition cols_within (keys : Z) (groups : list (list note)) : Prop :=
  1 <= keys /\ forall g r, In g groups -> In r g -> 0 <= ncol r < keys.

Lemma wf_template groups n kf tf keys :
  (2 <= n)%nat -> cols_within keys groups ->
  f_w kf = n -> f_keys kf = keys -> (forall r, In r (f_ar kf) -> exists d, 0 <= d < keys /\ r = repeat d n) ->
  t_w tf = n -> (forall r, In r (t_ar tf) -> length r = n) ->
  forall cf, wf_nfilter_w n cf = true -> wf_combos groups n cf (Some kf) (Some tf) = true.
Proof.
  intros Hn [Hk Hc] Hw Hkeys Hrows Htw Htr cf Hcf. unfold wf_combos. rewrite Hcf, Hkeys.
  repeat (apply andb_true_iff; split); auto.
  - apply Nat.leb_le; auto.
  - rewrite Hw. apply Nat.eqb_refl.
  - apply forallb_forall. intros r Hin.
    destruct (Hrows r Hin) as [d [_ ->]]. rewrite repeat_length. apply Nat.eqb_refl.
  - rewrite Htw. apply Nat.eqb_refl.
  - apply forallb_forall. intros r Hin. apply Nat.eqb_eq. auto.
  - apply Z.leb_le; auto.
  - apply forallb_forall. intros r Hin. destruct (Hrows r Hin) as [d [Hd ->]].
    apply forallb_forall. intros x Hx. apply repeat_spec in Hx. subst. unfold in_keys.
    apply andb_true_iff. split; [apply Z.leb_le|apply Z.ltb_lt]; lia.
  - apply forallb_forall. intros g Hg. apply forallb_forall. intros r Hr. specialize (Hc g r Hg Hr).
    unfold in_keys. apply andb_true_iff. split; [apply Z.leb_le|apply Z.ltb_lt]; lia.
Qed.

(* template_jacks: exactly the jacks of the requested length, as pairs *)
Theorem template_jacks_exact groups minlen keys :
  2 <= minlen -> cols_within keys groups ->
  exists out, template_jacks groups minlen keys = Some out /\ jacks_spec groups (Z.to_nat minlen) keys out.
Proof.
  intros Hm Hc. unfold template_jacks. replace (minlen <? 2) with false by (symmetry; apply Z.ltb_ge; lia).
  set (n := Z.to_nat minlen). assert (Hn : (2 <= n)%nat) by (unfold n; lia).
  destruct (combo_create_repeat0 n keys false) as [kf [-> [Hw [Hk [Hi Hr]]]]]; [lia|].
  destruct (type_create_tail n) as [tf [-> [Htw [Hti Htr]]]]; [lia|].
  assert (Hwf : wf_combos groups n None (Some kf) (Some tf) = true).
  { apply (wf_template groups n kf tf keys); auto.
    - intros r Hin. apply Hr; auto.
    - intros r Hin. apply Htr in Hin. apply Permutation_length in Hin. rewrite <- Hin. cbn. rewrite repeat_length. lia. }
  destruct (combos_exact groups n true None (Some kf) (Some tf) Hwf) as [out [H1 H2]].
  exists out. split; auto. unfold jacks_spec. unfold combos_spec, reported in H2. rewrite H2.
  apply Permutation_refl'. f_equal. unfold allowed_seqs. rewrite filter_flat_map.
  apply flat_map_ext_in'. intros chunk Hch. cbn [chord_allowed].
  apply filter_ext_in'. intros s Hs. apply cart_length in Hs. rewrite (windows_length _ _ _ Hch) in Hs.
  rewrite (cols_allowed_jack kf n keys s) by (auto; lia).
  rewrite (types_allowed_tail tf n s) by (auto; lia).
  unfold jack_seq. reflexivity.
Qed.

(* ---- template_chord_stream *)
Lemma flat_map_pairs_of_2 {A} : forall (l : list (list A)), (forall s, In s l -> length s = 2%nat) -> flat_map pairs_of l = l.
Proof.
  induction l as [|s l IH]; cbn [flat_map]; intros H; auto.
  rewrite IH by (intros; apply H; right; auto).
  assert (Hs : length s = 2%nat) by (apply H; left; auto).
  destruct s as [|x [|y [|z s']]]; try discriminate. reflexivity.
Qed.

(* PtnFilterChord.create([[p, s]], keys, ANY_ORDER | AND_LOWER if and_lower else 0) *)
Lemma chord_create_cs (p s keys : Z) (al : bool) :
  exists cf, chord_create (In2 2 [[p; s]]) keys (if al then 3 else 0) false = Some cf /\
             f_w cf = 2%nat /\ f_inv cf = false /\
             (forall r, In r (f_ar cf) -> length r = 2%nat) /\
             forall a b, existsb (forall2b Z.eqb [a; b]) (f_ar cf) = cs_sizes_ok p s al a b.
Proof.
  destruct (chord_create (In2 2 [[p; s]]) keys (if al then 3 else 0) false) as [cf|] eqn:E.
  2:{ exfalso. unfold chord_create in E. destruct al; cbn in E; discriminate. }
  exists cf. split; auto. apply chord_create_rows in E. destruct E as [Hw [Hi Hr]]. split; auto. split; auto.
  destruct al.
  - change (Z.testbit 3 2) with false in Hr. change (Z.testbit 3 1) with true in Hr. change (Z.testbit 3 0) with true in Hr.
    cbv zeta in Hr.
    assert (Hchar : forall r, In r (f_ar cf) <->
              exists x y, (r = [x; y] \/ r = [y; x]) /\ ((x = p /\ y = s) \/ (1 <= x <= p /\ 1 <= y <= s))).
    { intros r. rewrite Hr, any_order_In. unfold any_order_rows. split.
      - intros [base [Hb Hp]]. apply and_lower_In in Hb. destruct Hb as [[<-|[]]|Hb].
        + exists p, s. split; [|left; auto].
          pose proof (Permutation_length Hp) as Hl. destruct r as [|a [|b [|c r']]]; try discriminate.
          apply Permutation_length_2 in Hp. destruct Hp as [[-> ->]|[-> ->]]; auto.
        + cbn in Hb. inversion Hb as [|x mx base' l' Hx Hb']; subst. inversion Hb' as [|y my base'' l'' Hy Hb'']; subst.
          inversion Hb''; subst. exists x, y. split; [|right; split; lia].
          pose proof (Permutation_length Hp) as Hl. destruct r as [|a [|b [|c r']]]; try discriminate.
          apply Permutation_length_2 in Hp. destruct Hp as [[-> ->]|[-> ->]]; auto.
      - intros [x [y [Hxy Hb]]]. exists [x; y]. split.
        + apply and_lower_In. destruct Hb as [[-> ->]|[Hx Hy]]; [left; left; auto|right].
          cbn. repeat constructor; lia.
        + destruct Hxy as [->| ->]; [reflexivity|apply perm_swap]. }
    split.
    + intros r Hin. apply Hchar in Hin. destruct Hin as [x [y [[->| ->] _]]]; reflexivity.
    + intros a b. apply bool_eq_iff. rewrite existsb_exists. unfold cs_sizes_ok.
      rewrite !orb_true_iff, !andb_true_iff, !Z.eqb_eq, !Z.leb_le. split.
      * intros [r [Hin Hf]]. apply forall2b_eqb_eq in Hf. subst r. apply Hchar in Hin.
        destruct Hin as [x [y [[E|E] Hb]]]; inversion E; subst; destruct Hb as [[-> ->]|[Hx Hy]]; intuition.
      * intros H. exists [a; b]. split; [|apply forall2b_eqb_eq; auto]. apply Hchar.
        destruct H as [[[[-> ->]|[-> ->]]|H]|H].
        -- exists p, s. auto.
        -- exists p, s. auto.
        -- exists a, b. split; [left; auto|right; lia].
        -- exists b, a. split; [right; auto|right; lia].
  - change (Z.testbit 0 2) with false in Hr. change (Z.testbit 0 1) with false in Hr. change (Z.testbit 0 0) with false in Hr.
    cbv zeta in Hr. split.
    + intros r Hin. apply Hr in Hin. destruct Hin as [<-|[]]. reflexivity.
    + intros a b. apply bool_eq_iff. rewrite existsb_exists. unfold cs_sizes_ok.
      rewrite !andb_true_iff, !Z.eqb_eq. split.
      * intros [r [Hin Hf]]. apply forall2b_eqb_eq in Hf. subst r. apply Hr in Hin. destruct Hin as [E|[]]. inversion E; auto.
      * intros [-> ->]. exists [p; s]. split; [apply Hr; left; auto|apply forall2b_eqb_eq; auto].
Qed.

Lemma cs_allowed_eq groups p s keys al ij cf kfo tf :
  f_inv cf = false -> (forall a b, existsb (forall2b Z.eqb [a; b]) (f_ar cf) = cs_sizes_ok p s al a b) ->
  t_inv tf = true -> (forall r, In r (t_ar tf) <-> Permutation (TTail :: repeat TObject (2 - 1)) r) ->
  match kfo with
  | None => ij = true
  | Some kf => ij = false /\ f_inv kf = true /\
               forall r, In r (f_ar kf) <-> exists d, 0 <= d < keys /\ r = repeat d 2
  end ->
  allowed_seqs groups 2 (Some cf) kfo (Some tf) = chord_stream_expected groups p s keys al ij.
Proof.
  intros Hci Hcc Hti Htr Hk. unfold allowed_seqs, chord_stream_expected.
  apply flat_map_ext_in'. intros chunk Hch. pose proof (windows_length _ _ _ Hch) as Hl.
  destruct chunk as [|g1 [|g2 [|g3 chunk']]]; try discriminate.
  cbn [chord_allowed map]. rewrite Hci, xorb_false_l, Hcc.
  destruct (cs_sizes_ok p s al (Z.of_nat (length g1)) (Z.of_nat (length g2))); auto.
  apply filter_ext_in'. intros sq Hs. apply cart_length in Hs.
  destruct sq as [|x [|y [|z sq']]]; try discriminate.
  rewrite (types_allowed_tail tf 2 [x; y]) by (auto; lia).
  cbn [forallb cs_seq]. destruct kfo as [kf|].
  - destruct Hk as [-> [Hki Hkr]]. unfold cols_allowed. rewrite Hki.
    rewrite (jack_rows_existsb (f_ar kf) 2 keys [x; y]) by (auto; lia).
    cbn [forallb xorb orb]. rewrite Z.eqb_refl, (Z.eqb_sym (ncol y) (ncol x)).
    destruct (in_keys keys (ncol x)), (ncol x =? ncol y), (is_tail x), (is_tail y); reflexivity.
  - subst ij. cbn [cols_allowed orb]. destruct (is_tail x), (is_tail y); reflexivity.
Qed.

(* template_chord_stream: exactly the pairs from consecutive chords of the requested sizes *)
Theorem template_chord_stream_exact groups p s keys al ij :
  (ij = false -> cols_within keys groups) ->
  exists out, template_chord_stream groups p s keys al ij = Some out /\
              chord_stream_spec groups p s keys al ij out.
Proof.
  intros Hc. unfold template_chord_stream, template_chord_stream_with.
  destruct (chord_create_cs p s keys al) as [cf [-> [Hcw [Hci [Hcl Hcc]]]]].
  destruct (type_create_tail 2) as [tf [Et [Htw [Hti Htr]]]]; [lia|].
  assert (Et' : type_create (In2 2 [[TTail; TObject]]) 1 true = Some tf) by exact Et. rewrite Et'. clear Et Et'.
  assert (Htl : forall r, In r (t_ar tf) -> length r = 2%nat).
  { intros r Hin. apply Htr in Hin. apply Permutation_length in Hin. rewrite <- Hin. reflexivity. }
  assert (Hcfw : wf_nfilter_w 2 (Some cf) = true).
  { cbn. rewrite Hcw. cbn. apply forallb_forall. intros r Hin. apply Nat.eqb_eq. auto. }
  destruct ij.
  - assert (Hwf : wf_combos groups 2 (Some cf) None (Some tf) = true).
    { unfold wf_combos. rewrite Hcfw, Htw. cbn. rewrite andb_true_r.
      apply forallb_forall. intros r Hin. apply Nat.eqb_eq. auto. }
    destruct (combos_exact groups 2 true (Some cf) None (Some tf) Hwf) as [out [H1 H2]].
    exists out. split; auto. unfold chord_stream_spec. unfold combos_spec, reported in H2. rewrite H2.
    rewrite flat_map_pairs_of_2.
    2:{ intros sq Hin. apply allowed_seqs_In in Hin. destruct Hin as [chunk [Hch [_ [Hf _]]]].
        apply cart_In in Hf. apply cart_length in Hf. rewrite Hf. eapply windows_length; eauto. }
    rewrite (cs_allowed_eq groups p s keys al true cf None tf) by auto. reflexivity.
  - destruct (combo_create_repeat0 2 keys true) as [kf [Ek [Hkw [Hkk [Hki Hkr]]]]]; [lia|].
    assert (Ek' : combo_create (In2 2 [[0; 0]]) keys 1 true = Some kf) by exact Ek. rewrite Ek'. clear Ek Ek'.
    assert (Hwf : wf_combos groups 2 (Some cf) (Some kf) (Some tf) = true).
    { apply (wf_template groups 2 kf tf keys); auto. intros r Hin. apply Hkr; auto. }
    destruct (combos_exact groups 2 true (Some cf) (Some kf) (Some tf) Hwf) as [out [H1 H2]].
    exists out. split; auto. unfold chord_stream_spec. unfold combos_spec, reported in H2. rewrite H2.
    rewrite flat_map_pairs_of_2.
    2:{ intros sq Hin. apply allowed_seqs_In in Hin. destruct Hin as [chunk [Hch [_ [Hf _]]]].
        apply cart_In in Hf. apply cart_length in Hf. rewrite Hf. eapply windows_length; eauto. }
    rewrite (cs_allowed_eq groups p s keys al false cf (Some kf) tf) by auto. reflexivity.
Qed.
