(* Proofs for C20: Pattern.group, PtnCombo.combinations, the filter constructors and the templates. *)
From Coq Require Import ZArith List Bool Permutation Sorted Lia.
From RV Require Import Algo.PtnFilter Algo.Pattern Algo.PatternSpec.
Import ListNotations.
Open Scope Z_scope.

(* ================================================================ equality tests *)
Lemma ntype_eqb_eq a b : ntype_eqb a b = true <-> a = b.
Proof. destruct a, b; cbv; split; congruence. Qed.

Lemma note_eqb_eq a b : note_eqb a b = true <-> a = b.
Proof.
  destruct a as [c o t], b as [c' o' t']; unfold note_eqb; cbn [ncol noff nty].
  rewrite !andb_true_iff, !Z.eqb_eq, ntype_eqb_eq. split.
  - intros [[-> ->] ->]; reflexivity.
  - intros H; inversion H; auto.
Qed.

Lemma list_eqb_eq {A} (eqb : A -> A -> bool) :
  (forall x y, eqb x y = true <-> x = y) -> forall a b, list_eqb eqb a b = true <-> a = b.
Proof.
  intros He; induction a as [|x a IH]; destruct b as [|y b]; cbn; try (split; congruence).
  rewrite andb_true_iff, He, IH. split; [intros [-> ->]; reflexivity | intros H; inversion H; auto].
Qed.

Lemma memZ_In c l : memZ c l = true <-> In c l.
Proof.
  unfold memZ. rewrite existsb_exists. split.
  - intros [x [Hx He]]. apply Z.eqb_eq in He. subst; auto.
  - intros H. exists c. split; auto. apply Z.eqb_refl.
Qed.

(* ================================================================ multiset equality *)
Lemma remove_one_perm {A} (eqb : A -> A -> bool) (He : forall x y, eqb x y = true -> x = y) :
  forall x l r, remove_one eqb x l = Some r -> Permutation l (x :: r).
Proof.
  induction l as [|y l IH]; cbn; intros r H; [discriminate|].
  destruct (eqb x y) eqn:E.
  - inversion H; subst. apply He in E. subst. reflexivity.
  - destruct (remove_one eqb x l) as [r0|]; [|discriminate]. inversion H; subst.
    rewrite (IH r0 eq_refl). apply perm_swap.
Qed.

Lemma perm_b_sound {A} (eqb : A -> A -> bool) (He : forall x y, eqb x y = true -> x = y) :
  forall a b, perm_b eqb a b = true -> Permutation a b.
Proof.
  induction a as [|x a IH]; cbn; intros b H.
  - destruct b; [constructor | discriminate].
  - destruct (remove_one eqb x b) as [b'|] eqn:E; [|discriminate].
    apply remove_one_perm in E; auto. rewrite E. constructor. auto.
Qed.

Lemma remove_one_complete {A} (eqb : A -> A -> bool) (Hr : forall x, eqb x x = true)
      (He : forall x y, eqb x y = true -> x = y) :
  forall x l, In x l -> exists r, remove_one eqb x l = Some r /\ Permutation l (x :: r).
Proof.
  intros x l Hin. induction l as [|y l IH]; [destruct Hin|]. cbn.
  destruct (eqb x y) eqn:E.
  - apply He in E; subst. eexists; split; eauto.
  - destruct Hin as [->|Hin]; [rewrite Hr in E; discriminate|].
    destruct (IH Hin) as [r [-> Hp]]. eexists; split; eauto. rewrite Hp. apply perm_swap.
Qed.

Lemma perm_b_complete {A} (eqb : A -> A -> bool) (Hr : forall x, eqb x x = true)
      (He : forall x y, eqb x y = true -> x = y) :
  forall a b, Permutation a b -> perm_b eqb a b = true.
Proof.
  induction a as [|x a IH]; intros b Hp.
  - apply Permutation_nil in Hp; subst; reflexivity.
  - cbn. destruct (remove_one_complete eqb Hr He x b) as [r [-> Hr']].
    + eapply Permutation_in; eauto. left; auto.
    + apply IH. eapply Permutation_cons_inv. rewrite Hp. exact Hr'.
Qed.

(* ================================================================ masks *)
Lemma mask_select_In {A} : forall (l : list A) m x, In x (mask_select l m) -> In x l.
Proof.
  induction l as [|y l IH]; destruct m as [|b m]; cbn; try tauto.
  intros x. destruct b; cbn; intros H; [destruct H; auto|]; right; eauto.
Qed.

Lemma mask_select_split {A} : forall (l : list A) m, length m = length l ->
  Permutation (mask_select l m ++ mask_select l (map negb m)) l.
Proof.
  induction l as [|y l IH]; destruct m as [|b m]; cbn; intros H; try discriminate; [constructor|].
  inversion H as [H']. destruct b; cbn.
  - constructor; auto.
  - rewrite <- Permutation_middle. constructor; auto.
Qed.

Lemma mask_select_all_false {A} : forall (l : list A) k, mask_select l (repeat false k) = [].
Proof. induction l as [|y l IH]; destruct k; cbn; auto. Qed.

Lemma mask_select_app_false {A} : forall (l : list A) m k,
  mask_select l (m ++ repeat false k) = mask_select l m.
Proof.
  induction l as [|y l IH]; destruct m as [|b m]; intros k; auto.
  - cbn [app]. rewrite mask_select_all_false. reflexivity.
  - cbn. destruct b; rewrite IH; reflexivity.
Qed.

Lemma mask_select_firstn {A} : forall (l : list A) m,
  mask_select l m = mask_select (firstn (length m) l) m.
Proof.
  induction l as [|y l IH]; destruct m as [|b m]; cbn; auto.
  destruct b; rewrite <- IH; reflexivity.
Qed.

Lemma mask_select_all_true {A} : forall (l : list A) n, mask_select l (repeat true n) = firstn n l.
Proof. induction l as [|y l IH]; destruct n; cbn; auto. rewrite IH; reflexivity. Qed.

Lemma mask_select_map_pred {A} (f : A -> bool) : forall l x,
  In x (mask_select l (map f l)) -> f x = true.
Proof.
  induction l as [|y l IH]; cbn; intros x H; [destruct H|].
  destruct (f y) eqn:E; [destruct H as [->|H]; auto|]; auto.
Qed.

Lemma mask_select_and_l {A} : forall (l : list A) m1 m2 x,
  In x (mask_select l (map2 andb m1 m2)) -> In x (mask_select l m1).
Proof.
  induction l as [|y l IH]; destruct m1 as [|b1 m1], m2 as [|b2 m2]; cbn; try tauto.
  intros x. destruct b1, b2; cbn; intros H; try (destruct H; [left; auto|right]); eauto.
Qed.
Lemma mask_select_and_r {A} : forall (l : list A) m1 m2 x,
  In x (mask_select l (map2 andb m1 m2)) -> In x (mask_select l m2).
Proof.
  induction l as [|y l IH]; destruct m1 as [|b1 m1], m2 as [|b2 m2]; cbn; try tauto.
  intros x. destruct b1, b2; cbn; intros H; try (destruct H; [left; auto|right]); eauto.
Qed.

Lemma mask_select_and_nodup {A B} (f : A -> B) : forall (l : list A) m1 m2,
  NoDup (map f (mask_select l m1)) -> NoDup (map f (mask_select l (map2 andb m1 m2))).
Proof.
  induction l as [|y l IH]; destruct m1 as [|b1 m1], m2 as [|b2 m2]; cbn; intros H; try constructor.
  destruct b1, b2; cbn in *.
  - inversion H; subst. constructor; auto.
    intros Hin. apply in_map_iff in Hin. destruct Hin as [z [Hz Hin]].
    apply mask_select_and_l in Hin. apply H2. rewrite <- Hz. apply in_map; auto.
  - inversion H; auto.
  - auto.
  - auto.
Qed.

Lemma map2_length {A B C} (f : A -> B -> C) : forall a b, length a = length b -> length (map2 f a b) = length a.
Proof. induction a; destruct b; cbn; intros H; try discriminate; auto. Qed.

Lemma first_occ_length : forall l seen, length (first_occ seen l) = length l.
Proof. induction l; cbn; intros; auto. Qed.

Lemma first_occ_nodup : forall (l : list note) seen,
  NoDup (map ncol (mask_select l (first_occ seen (map ncol l)))) /\
  (forall c, In c (map ncol (mask_select l (first_occ seen (map ncol l)))) -> ~ In c seen).
Proof.
  induction l as [|y l IH]; cbn; intros seen; [split; [constructor|tauto]|].
  destruct (IH (ncol y :: seen)) as [Hn Hd].
  destruct (memZ (ncol y) seen) eqn:E; cbn.
  - split; auto. intros c Hc Hs. apply (Hd c Hc). right; auto.
  - split.
    + constructor; auto. intros Hc. apply (Hd _ Hc). left; auto.
    + intros c [<-|Hc] Hs.
      * apply memZ_In in Hs. congruence.
      * apply (Hd c Hc). right; auto.
Qed.

Lemma take_while_length_le {A} (f : A -> bool) : forall l, (length (take_while f l) <= length l)%nat.
Proof. induction l; cbn; [lia|]. destruct (f a); cbn; lia. Qed.

Lemma take_while_firstn {A} (f : A -> bool) : forall l, firstn (length (take_while f l)) l = take_while f l.
Proof. induction l; cbn; auto. destruct (f a); cbn; [rewrite IHl|]; auto. Qed.

Lemma take_while_all {A} (f : A -> bool) : forall l x, In x (take_while f l) -> f x = true.
Proof. induction l; cbn; [tauto|]. destruct (f a) eqn:E; cbn; [|tauto]. intros x [->|H]; auto. Qed.

Lemma In_firstn' {A} : forall n (l : list A) x, In x (firstn n l) -> In x l.
Proof. induction n; destruct l; cbn; try tauto. intros x [->|H]; auto. Qed.

Lemma firstn_map' {A B} (f : A -> B) : forall n l, firstn n (map f l) = map f (firstn n l).
Proof. induction n; destruct l; cbn; auto. rewrite IHn; auto. Qed.

(* ================================================================ one step of Pattern.group *)
Definition h_ok (h : option Z) : Prop := match h with None => True | Some hw => 0 <= hw end.

Definition step_mask (ung : list note) (r : note) (v : Z) (h : option Z) (aj : bool) : list bool :=
  let m0 := v_mask ung (noff r) v aj in
  match h with None => m0 | Some hw => map2 andb m0 (h_mask ung (ncol r) hw) end.

(* the mask computed for the first ungrouped row [r] of a time-sorted remainder [r :: U] selects [r]
   itself, is as long as the remainder, and the selected rows form a group satisfying the specification *)
Lemma step_mask_facts v h aj r U :
  0 <= v -> h_ok h -> Forall (by_off r) U ->
  exists m', step_mask (r :: U) r v h aj = true :: m' /\ length m' = length U /\
             group_ok v h aj (r :: mask_select U m').
Proof.
  intros Hv Hh Hs.
  set (f := fun y => y <=? noff r + v).
  set (e := length (take_while f (map noff U))).
  assert (He : (e <= length U)%nat).
  { unfold e. etransitivity; [apply take_while_length_le|]. rewrite map_length; lia. }
  set (m0 := (if aj then first_occ [ncol r] (firstn e (map ncol U)) else repeat true e)
               ++ repeat false (length U - e)).
  assert (Hm0 : v_mask (r :: U) (noff r) v aj = true :: m0).
  { unfold v_mask, bisect_left, bisect_right_lo. cbn [map take_while length].
    rewrite Z.ltb_irrefl. cbn [length skipn take_while Nat.add].
    replace (noff r <=? noff r + v) with true by (symmetry; apply Z.leb_le; lia).
    cbn [length]. fold f. fold e. cbn [Nat.eqb repeat app Nat.sub firstn].
    unfold m0. destruct aj; cbn [first_occ memZ existsb negb repeat app]; reflexivity. }
  assert (Hl0 : length m0 = length U).
  { unfold m0. rewrite app_length, repeat_length.
    destruct aj; [rewrite first_occ_length, firstn_length, map_length | rewrite repeat_length]; lia. }
  (* members of the vertical selection lie in the first e rows, hence inside the window *)
  assert (Hin0 : forall x, In x (mask_select U m0) -> In x U /\ noff x <= noff r + v).
  { intros x Hx. unfold m0 in Hx. rewrite mask_select_app_false in Hx.
    assert (Hf : In x (firstn e U)).
    { destruct aj.
      - rewrite mask_select_firstn in Hx. rewrite first_occ_length, firstn_length, map_length in Hx.
        replace (Nat.min e (length U)) with e in Hx by lia. eapply mask_select_In; eauto.
      - rewrite mask_select_all_true in Hx. auto. }
    split; [eapply In_firstn'; eauto|].
    assert (Hq : In (noff x) (take_while f (map noff U))).
    { rewrite <- take_while_firstn. fold e. rewrite firstn_map'. apply in_map; auto. }
    apply take_while_all in Hq. unfold f in Hq. apply Z.leb_le in Hq. auto. }
  assert (Hnd0 : aj = true -> NoDup (ncol r :: map ncol (mask_select U m0))).
  { intros ->. unfold m0. rewrite mask_select_app_false.
    rewrite mask_select_firstn. rewrite first_occ_length, firstn_length, map_length.
    replace (Nat.min e (length U)) with e by lia. rewrite firstn_map'.
    destruct (first_occ_nodup (firstn e U) [ncol r]) as [Hn Hd].
    constructor; auto. intros Hc. apply (Hd _ Hc). left; auto. }
  unfold step_mask. rewrite Hm0. destruct h as [hw|].
  - cbn [h_mask map map2]. cbn in Hh.
    replace (Z.abs (ncol r - ncol r) <=? hw) with true by (symmetry; apply Z.leb_le; lia).
    cbn [andb]. eexists; split; [reflexivity|]. split.
    + rewrite map2_length; [auto|]. rewrite map_length; auto.
    + split.
      * constructor.
        -- split; [lia|]. cbn. lia.
        -- apply Forall_forall. intros x Hx.
           pose proof (mask_select_and_l _ _ _ _ Hx) as H1.
           pose proof (mask_select_and_r _ _ _ _ Hx) as H2.
           apply Hin0 in H1. destruct H1 as [HU Hle].
           apply mask_select_map_pred in H2. apply Z.leb_le in H2.
           rewrite Forall_forall in Hs. specialize (Hs x HU). unfold by_off in Hs.
           split; [lia|]. cbn. lia.
      * intros Haj. specialize (Hnd0 Haj). cbn [map]. inversion Hnd0; subst.
        constructor.
        -- intros Hc. apply in_map_iff in Hc. destruct Hc as [z [Hz Hc]].
           apply mask_select_and_l in Hc. apply H1. rewrite <- Hz. apply in_map; auto.
        -- apply mask_select_and_nodup; auto.
  - eexists; split; [reflexivity|]. split; auto. split.
    + constructor.
      * split; [lia|exact I].
      * apply Forall_forall. intros x Hx. apply Hin0 in Hx. destruct Hx as [HU Hle].
        rewrite Forall_forall in Hs. specialize (Hs x HU). unfold by_off in Hs. split; [lia|exact I].
    + intros Haj. cbn [map]. auto.
Qed.

(* ================================================================ the loop of Pattern.group *)
Lemma scatter_or_prefix : forall k g m, scatter_or (repeat true k ++ g) m = repeat true k ++ scatter_or g m.
Proof. induction k; cbn; intros; auto. rewrite IHk; auto. Qed.

Lemma scatter_or_length : forall g m, length (scatter_or g m) = length g.
Proof. induction g as [|b g IH]; cbn; intros; auto. destruct b; cbn; auto. destruct m; cbn; auto. Qed.

Lemma sel_prefix {A} : forall (pre l : list A) g,
  mask_select (pre ++ l) (map negb (repeat true (length pre) ++ g)) = mask_select l (map negb g).
Proof. induction pre; cbn; auto. Qed.

Lemma nth_prefix : forall k b g, nth k (repeat true k ++ b :: g) false = b.
Proof. induction k; cbn; auto. Qed.

Lemma repeat_true_snoc : forall k (l : list bool), repeat true k ++ true :: l = repeat true (S k) ++ l.
Proof. induction k; cbn; intros; auto. rewrite IHk. reflexivity. Qed.

Lemma sel_scatter {A} : forall g (ar : list A) m,
  length ar = length g -> length m = length (mask_select ar (map negb g)) ->
  mask_select ar (map negb (scatter_or g m)) = mask_select (mask_select ar (map negb g)) (map negb m).
Proof.
  induction g as [|b g IH]; destruct ar as [|a ar]; cbn; intros m Hl Hm; try discriminate.
  - reflexivity.
  - inversion Hl. destruct b; cbn in *.
    + apply IH; auto.
    + destruct m as [|c m]; cbn in *; [discriminate|]. inversion Hm. destruct c; cbn; rewrite IH; auto.
Qed.

Lemma group_loop_inv v h aj (Hv : 0 <= v) (Hh : h_ok h) ar :
  forall rows pre g2 acc,
    ar = pre ++ map snd rows -> map fst rows = seq (length pre) (length rows) ->
    length g2 = length rows -> StronglySorted by_off (map snd rows) ->
    exists out', snd (group_loop ar v h aj rows (repeat true (length pre) ++ g2) acc) = acc ++ out' /\
                 Permutation (concat out') (mask_select (map snd rows) (map negb g2)) /\
                 Forall (group_ok v h aj) out'.
Proof.
  induction rows as [|[ix r] rows IH]; intros pre g2 acc Har Hix Hlen Hs.
  - exists []. cbn. rewrite app_nil_r. repeat split; auto.
  - destruct g2 as [|b g2]; [discriminate|]. cbn in Hix. inversion Hix as [[Hk Hix']]. clear Hix.
    cbn in Hlen. inversion Hlen as [Hlen']. clear Hlen.
    cbn [map snd] in Hs. apply StronglySorted_inv in Hs. destruct Hs as [Hs' Hfr]. subst ix.
    cbn [group_loop]. rewrite nth_prefix.
    assert (Har' : ar = (pre ++ [r]) ++ map snd rows)
      by (rewrite <- app_assoc; exact Har).
    assert (Hix'' : map fst rows = seq (length (pre ++ [r])) (length rows))
      by (rewrite app_length; cbn; replace (length pre + 1)%nat with (S (length pre)) by lia; auto).
    destruct b.
    + rewrite repeat_true_snoc.
      destruct (IH (pre ++ [r]) g2 acc Har' Hix'' Hlen' Hs') as [out' [H1 [H2 H3]]].
      rewrite app_length in H1. cbn in H1. replace (length pre + 1)%nat with (S (length pre)) in H1 by lia.
      exists out'. cbn [map negb mask_select snd]. auto.
    + set (U := mask_select (map snd rows) (map negb g2)).
      assert (Hung : mask_select ar (map negb (repeat true (length pre) ++ false :: g2)) = r :: U)
        by (rewrite Har, sel_prefix; reflexivity).
      assert (HfU : Forall (by_off r) U).
      { apply Forall_forall. intros x Hx. rewrite Forall_forall in Hfr. apply Hfr.
        eapply mask_select_In; eauto. }
      destruct (step_mask_facts v h aj r U Hv Hh HfU) as [m' [Hm [Hlm Hok]]].
      unfold step_mask in Hm. cbv zeta in Hm. cbv zeta. rewrite Hung. rewrite Hm.
      rewrite scatter_or_prefix. cbn [scatter_or mask_select]. rewrite repeat_true_snoc.
      assert (Hlen'' : length (scatter_or g2 m') = length rows) by (rewrite scatter_or_length; auto).
      destruct (IH (pre ++ [r]) (scatter_or g2 m') (acc ++ [r :: mask_select U m']) Har' Hix'' Hlen'' Hs')
        as [out' [H1 [H2 H3]]].
      rewrite app_length in H1. cbn in H1. replace (length pre + 1)%nat with (S (length pre)) in H1 by lia.
      exists ((r :: mask_select U m') :: out'). split; [|split].
      * rewrite H1. rewrite <- app_assoc. reflexivity.
      * cbn [concat map negb mask_select snd app]. fold U. constructor.
        rewrite H2. rewrite sel_scatter; [|rewrite map_length; auto|fold U; auto]. fold U.
        apply mask_select_split; auto.
      * constructor; auto.
Qed.

Lemma enumerate_from {A} : forall (l : list A) s,
  map snd (combine (seq s (length l)) l) = l /\ map fst (combine (seq s (length l)) l) = seq s (length l).
Proof.
  induction l as [|x l IH]; cbn; intros s; auto.
  destruct (IH (S s)) as [H1 H2]. rewrite H1, H2. auto.
Qed.

Lemma mask_select_not_false {A} : forall (l : list A), mask_select l (map negb (repeat false (length l))) = l.
Proof. induction l; cbn; auto. rewrite IHl; auto. Qed.

(* ---- the grouping theorems: for every time-sorted pattern and all parameters *)
Theorem group_spec_holds : forall df v h aj gs,
  StronglySorted by_off df -> group df v h aj = Some gs -> group_spec df v h aj gs.
Proof.
  intros df v h aj gs Hs Hg. unfold group in Hg.
  destruct (v <? 0) eqn:Ev; [discriminate|]. apply Z.ltb_ge in Ev.
  assert (Hh : h_ok h).
  { destruct h as [hw|]; cbn; auto. destruct (hw <? 0) eqn:Eh; [discriminate|]. apply Z.ltb_ge in Eh; auto. }
  destruct (match h with Some hw => hw <? 0 | None => false end); [discriminate|].
  inversion Hg as [Hgs]. clear Hg.
  destruct (enumerate_from df 0%nat) as [E1 E2].
  destruct (group_loop_inv v h aj Ev Hh df (enumerate df) [] (repeat false (length df)) []) as [out' [H1 [H2 H3]]].
  - unfold enumerate. rewrite E1. reflexivity.
  - unfold enumerate. rewrite E2. rewrite combine_length, seq_length, Nat.min_id. reflexivity.
  - unfold enumerate. rewrite repeat_length, combine_length, seq_length, Nat.min_id. reflexivity.
  - unfold enumerate. rewrite E1. auto.
  - cbn [length repeat app] in H1. rewrite H1. cbn [app]. split; auto.
    rewrite H2. unfold enumerate. rewrite E1. rewrite mask_select_not_false. reflexivity.
Qed.

Theorem group_defined : forall df v h aj, 0 <= v -> h_ok h -> exists gs, group df v h aj = Some gs.
Proof.
  intros df v h aj Hv Hh. unfold group.
  replace (v <? 0) with false by (symmetry; apply Z.ltb_ge; auto).
  destruct h as [hw|]; cbn in Hh; [replace (hw <? 0) with false by (symmetry; apply Z.ltb_ge; auto)|]; eauto.
Qed.

Theorem group_partition : forall df v h aj gs,
  StronglySorted by_off df -> group df v h aj = Some gs -> Permutation (concat gs) df.
Proof. intros. apply (group_spec_holds df v h aj gs); auto. Qed.

Theorem group_windows : forall df v h aj gs g,
  StronglySorted by_off df -> group df v h aj = Some gs -> In g gs ->
  exists r0 rest, g = r0 :: rest /\ Forall (in_window v h r0) g.
Proof.
  intros df v h aj gs g Hs Hg Hin. destruct (group_spec_holds df v h aj gs Hs Hg) as [_ Hf].
  rewrite Forall_forall in Hf. destruct (Hf g Hin) as [Hw _]. destruct g as [|r0 rest]; [destruct Hw|]. eauto.
Qed.

Theorem group_no_jack : forall df v h gs g,
  StronglySorted by_off df -> group df v h true = Some gs -> In g gs -> NoDup (map ncol g).
Proof.
  intros df v h gs g Hs Hg Hin. destruct (group_spec_holds df v h true gs Hs Hg) as [_ Hf].
  rewrite Forall_forall in Hf. destruct (Hf g Hin) as [_ Hn]. auto.
Qed.

(* ================================================================ the oracles decide the specification *)
Lemma in_windowb_iff v h r0 r : in_windowb v h r0 r = true <-> in_window v h r0 r.
Proof.
  unfold in_windowb, in_window. rewrite !andb_true_iff, !Z.leb_le.
  destruct h as [hw|]; [rewrite Z.leb_le|]; intuition.
Qed.

Lemma nodupZb_iff l : nodupZb l = true <-> NoDup l.
Proof.
  induction l as [|x l IH]; cbn; [split; [constructor|auto]|].
  rewrite andb_true_iff, negb_true_iff, IH. split.
  - intros [Hm Hn]. constructor; auto. intros Hin. apply memZ_In in Hin. congruence.
  - intros Hn. inversion Hn; subst. split; auto.
    destruct (memZ x l) eqn:E; auto. apply memZ_In in E. contradiction.
Qed.

Lemma group_okb_iff v h aj g : group_okb v h aj g = true <-> group_ok v h aj g.
Proof.
  unfold group_okb, group_ok. rewrite andb_true_iff, orb_true_iff, negb_true_iff, nodupZb_iff.
  destruct g as [|r0 rest].
  - split; [intros [H _]; discriminate | intros [[] _]].
  - rewrite forallb_forall, Forall_forall.
    split; intros [Hw Hn]; (split; [intros x Hx; apply in_windowb_iff; auto|]).
    + intros ->. destruct Hn; [discriminate|auto].
    + destruct aj; auto.
Qed.

Lemma note_eqb_sound : forall x y, note_eqb x y = true -> x = y.
Proof. intros x y. apply note_eqb_eq. Qed.
Lemma note_eqb_refl : forall x, note_eqb x x = true.
Proof. intros x. apply note_eqb_eq. reflexivity. Qed.
Lemma notes_eqb_sound : forall x y, list_eqb note_eqb x y = true -> x = y.
Proof. intros x y. apply (list_eqb_eq note_eqb note_eqb_eq). Qed.
Lemma notes_eqb_refl : forall x, list_eqb note_eqb x x = true.
Proof. intros x. apply (list_eqb_eq note_eqb note_eqb_eq). reflexivity. Qed.

Theorem group_specb_iff df v h aj gs : group_specb df v h aj gs = true <-> group_spec df v h aj gs.
Proof.
  unfold group_specb, group_spec. rewrite andb_true_iff, forallb_forall, Forall_forall. split.
  - intros [Hp Hf]. split; [apply (perm_b_sound note_eqb note_eqb_sound); auto|].
    intros g Hg. apply group_okb_iff; auto.
  - intros [Hp Hf]. split; [apply (perm_b_complete note_eqb note_eqb_refl note_eqb_sound); auto|].
    intros g Hg. apply group_okb_iff; auto.
Qed.

Lemma by_off_trans : Relations_1.Transitive by_off.
Proof. intros a b c. unfold by_off. lia. Qed.

Lemma sorted_offb_iff l : sorted_offb l = true <-> StronglySorted by_off l.
Proof.
  split.
  - intros H. apply Sorted_StronglySorted; [exact by_off_trans|].
    induction l as [|x l IH]; [constructor|].
    cbn in H. destruct l as [|y l']; [repeat constructor|].
    apply andb_true_iff in H. destruct H as [H1 H2]. constructor; auto.
    constructor. apply Z.leb_le; auto.
  - intros H. apply StronglySorted_Sorted in H.
    induction l as [|x l IH]; [reflexivity|].
    inversion H; subst. cbn. destruct l as [|y l']; auto.
    apply andb_true_iff. split; auto. inversion H3; subst. apply Z.leb_le; auto.
Qed.

Theorem init_specb_iff rows df : init_specb rows df = true <-> init_spec rows df.
Proof.
  unfold init_specb, init_spec. rewrite andb_true_iff, sorted_offb_iff. split; intros [Hp Hs]; split; auto.
  - apply (perm_b_sound note_eqb note_eqb_sound); auto.
  - apply (perm_b_complete note_eqb note_eqb_refl note_eqb_sound); auto.
Qed.

(* ---- Pattern.__init__ / from_note_lists: the modelled (stable) sort meets the specification *)
Lemma ins_sorted_perm r : forall l, Permutation (r :: l) (ins_sorted r l).
Proof.
  induction l as [|x l IH]; cbn; auto. destruct (noff r <=? noff x); auto.
  rewrite perm_swap. constructor; auto.
Qed.

Lemma ins_sorted_sorted r : forall l, StronglySorted by_off l -> StronglySorted by_off (ins_sorted r l).
Proof.
  induction l as [|x l IH]; cbn; intros Hs; [repeat constructor|].
  apply StronglySorted_inv in Hs. destruct Hs as [Hs Hf].
  destruct (noff r <=? noff x) eqn:E.
  - apply Z.leb_le in E. constructor; [constructor; auto|].
    constructor; [exact E|]. eapply Forall_impl; [|exact Hf]. unfold by_off. intros; lia.
  - apply Z.leb_gt in E. constructor; auto.
    eapply Permutation_Forall; [apply ins_sorted_perm|]. constructor; auto. unfold by_off; lia.
Qed.

Theorem pattern_init_spec rows : init_spec rows (pattern_init rows).
Proof.
  unfold pattern_init. induction rows as [|r rows [Hp Hs]]; cbn; [split; constructor|]. split.
  - rewrite <- ins_sorted_perm. constructor; auto.
  - apply ins_sorted_sorted; auto.
Qed.

(* every note of every list, and one tail per hold when requested *)
Lemma flat_map_filter_nil {A B} (F : A -> list B) (p : A -> bool) :
  (forall x, p x = false -> F x = []) -> forall l, flat_map F (filter p l) = flat_map F l.
Proof.
  intros H. induction l as [|x l IH]; cbn; auto.
  destruct (p x) eqn:E; cbn; rewrite IH; auto. rewrite (H x E). reflexivity.
Qed.

Lemma flat_map_app_perm {A B} (F G : A -> list B) : forall l,
  Permutation (flat_map (fun x => F x ++ G x) l) (flat_map F l ++ flat_map G l).
Proof.
  induction l as [|x l IH]; cbn; auto. rewrite IH. rewrite <- !app_assoc. apply Permutation_app_head.
  rewrite !app_assoc. apply Permutation_app_tail. apply Permutation_app_comm.
Qed.

Lemma from_note_lists_rows_perm nls tails :
  Permutation (from_note_lists_rows nls tails) (expected_rows nls tails).
Proof.
  unfold from_note_lists_rows, expected_rows, heads_of, tails_of.
  rewrite flat_map_filter_nil.
  - rewrite flat_map_app_perm. apply Permutation_app_head.
    destruct tails; cbn [andb].
    + reflexivity.
    + induction nls; cbn; auto.
  - intros nl H. apply negb_false_iff in H. apply Nat.eqb_eq in H.
    destruct (nl_rows nl); [|discriminate]. cbn. destruct (tails && _); reflexivity.
Qed.

Theorem from_note_lists_spec nls tails :
  init_spec (expected_rows nls tails) (from_note_lists nls tails).
Proof.
  destruct (pattern_init_spec (from_note_lists_rows nls tails)) as [Hp Hs]. split; auto.
  rewrite <- from_note_lists_rows_perm. exact Hp.
Qed.

(* ================================================================ combinations: oracle and refutation *)
Theorem combos_specb_iff groups size ms2 cf kf tf out :
  combos_specb groups size ms2 cf kf tf out = true <-> combos_spec groups size ms2 cf kf tf out.
Proof.
  unfold combos_specb, combos_spec. split.
  - apply (perm_b_sound (list_eqb note_eqb) notes_eqb_sound).
  - apply (perm_b_complete (list_eqb note_eqb) notes_eqb_refl notes_eqb_sound).
Qed.

Theorem jacks_specb_iff groups n keys out :
  jacks_specb groups n keys out = true <-> jacks_spec groups n keys out.
Proof.
  unfold jacks_specb, jacks_spec. split.
  - apply (perm_b_sound (list_eqb note_eqb) notes_eqb_sound).
  - apply (perm_b_complete (list_eqb note_eqb) notes_eqb_refl notes_eqb_sound).
Qed.

Theorem chord_stream_specb_iff groups p s keys al ij out :
  chord_stream_specb groups p s keys al ij out = true <-> chord_stream_spec groups p s keys al ij out.
Proof.
  unfold chord_stream_specb, chord_stream_spec. split.
  - apply (perm_b_sound (list_eqb note_eqb) notes_eqb_sound).
  - apply (perm_b_complete (list_eqb note_eqb) notes_eqb_refl notes_eqb_sound).
Qed.

(* The witness: three hits, columns 0 and 1 at time 0 and column 0 at time 1; grouped with v = 0 into
   chords of sizes [2; 1]; the chord filter [[2; 2]] does not list (2, 1) but the chunk is admitted. *)
Definition witness_df : list note := [mkN 0 0 THit; mkN 1 0 THit; mkN 0 1 THit].
Definition witness_cf : nfilter := mkNF 2 [[2; 2]] 4 false.

Theorem combos_exact_refuted :
  exists df v h aj gs size cf out,
    StronglySorted by_off df /\ group df v h aj = Some gs /\
    wf_combos gs size (Some cf) None None = true /\
    chord_create (In2 2 [[2; 2]]) 4 0 false = Some cf /\
    combinations gs size false (Some cf) None None = Some out /\
    ~ combos_spec gs size false (Some cf) None None out.
Proof.
  exists witness_df, 0, None, true, [[mkN 0 0 THit; mkN 1 0 THit]; [mkN 0 1 THit]], 2%nat, witness_cf,
         [[[mkN 0 0 THit; mkN 0 1 THit]; [mkN 1 0 THit; mkN 0 1 THit]]].
  split; [apply sorted_offb_iff; vm_compute; reflexivity|].
  split; [vm_compute; reflexivity|].
  split; [vm_compute; reflexivity|].
  split; [vm_compute; reflexivity|].
  split; [vm_compute; reflexivity|].
  intros H. apply combos_specb_iff in H. vm_compute in H. discriminate.
Qed.

(* the same defect through the chord-stream template: primary 2, secondary 2 admits the chunk of sizes (2, 1) *)
Theorem chord_stream_refuted :
  exists gs out,
    template_chord_stream gs 2 2 4 false true = Some out /\ ~ chord_stream_spec gs 2 2 4 false true out.
Proof.
  exists [[mkN 0 0 THit; mkN 1 0 THit]; [mkN 0 1 THit]],
         [[[mkN 0 0 THit; mkN 0 1 THit]; [mkN 1 0 THit; mkN 0 1 THit]]].
  split; [vm_compute; reflexivity|].
  intros H. apply chord_stream_specb_iff in H. vm_compute in H. discriminate.
Qed.

(* ================================================================ cartesian products and np.meshgrid *)
Lemma flat_map_map' {A B C} (f : B -> list C) (g : A -> B) : forall l,
  flat_map f (map g l) = flat_map (fun x => f (g x)) l.
Proof. induction l; cbn; auto. rewrite IHl; auto. Qed.

Lemma map_flat_map' {A B C} (f : B -> C) (g : A -> list B) : forall l,
  map f (flat_map g l) = flat_map (fun x => map f (g x)) l.
Proof. induction l; cbn; auto. rewrite map_app, IHl; auto. Qed.

Lemma flat_map_flat_map' {A B C} (f : B -> list C) (g : A -> list B) : forall l,
  flat_map f (flat_map g l) = flat_map (fun x => flat_map f (g x)) l.
Proof. induction l; cbn; auto. rewrite flat_map_app, IHl; auto. Qed.

Lemma flat_map_ext_in' {A B} (f g : A -> list B) : forall l,
  (forall x, In x l -> f x = g x) -> flat_map f l = flat_map g l.
Proof.
  induction l; cbn; intros H; auto. rewrite (H a) by auto. rewrite IHl; auto.
Qed.

Lemma flat_map_nil_fun {A B} : forall (l : list A), flat_map (fun _ => @nil B) l = [].
Proof. induction l; cbn; auto. Qed.

Lemma flat_map_cons_perm {A B} (g : A -> B) (G : A -> list B) : forall l,
  Permutation (map g l ++ flat_map G l) (flat_map (fun b => g b :: G b) l).
Proof.
  induction l as [|b l IH]; cbn; auto. constructor.
  rewrite <- IH. rewrite !app_assoc. apply Permutation_app_tail. apply Permutation_app_comm.
Qed.

Lemma flat_map_swap {A B C} (f : A -> B -> C) : forall la lb,
  Permutation (flat_map (fun a => map (f a) lb) la) (flat_map (fun b => map (fun a => f a b) la) lb).
Proof.
  induction la as [|a la IH]; intros lb; cbn.
  - rewrite flat_map_nil_fun. constructor.
  - rewrite IH. apply flat_map_cons_perm.
Qed.

Lemma Permutation_flat_map' {A B} (f : A -> list B) : forall l l',
  Permutation l l' -> Permutation (flat_map f l) (flat_map f l').
Proof.
  induction 1; cbn; auto.
  - apply Permutation_app_head; auto.
  - rewrite !app_assoc. apply Permutation_app_tail. apply Permutation_app_comm.
  - etransitivity; eauto.
Qed.

Lemma Permutation_filter' {A} (p : A -> bool) : forall l l',
  Permutation l l' -> Permutation (filter p l) (filter p l').
Proof.
  induction 1; cbn; auto.
  - destruct (p x); auto.
  - destruct (p x), (p y); auto. apply perm_swap.
  - etransitivity; eauto.
Qed.

Lemma cart_length {A} : forall (ls : list (list A)) t, In t (cart ls) -> length t = length ls.
Proof.
  induction ls as [|l ls IH]; cbn; intros t H.
  - destruct H as [<-|[]]. reflexivity.
  - apply in_flat_map in H. destruct H as [a [_ H]]. apply in_map_iff in H.
    destruct H as [t' [<- H]]. cbn. rewrite (IH t' H). reflexivity.
Qed.

(* the declarative meaning of [cart]: one element from each list, position by position *)
Lemma cart_In {A} : forall (ls : list (list A)) t, In t (cart ls) <-> Forall2 (@In A) t ls.
Proof.
  induction ls as [|l ls IH]; cbn; intros t.
  - split; [intros [<-|[]]; constructor | intros H; inversion H; auto].
  - rewrite in_flat_map. split.
    + intros [a [Ha H]]. apply in_map_iff in H. destruct H as [t' [<- H]]. constructor; auto. apply IH; auto.
    + intros H. inversion H; subst. exists x. split; auto. apply in_map. apply IH; auto.
Qed.

Lemma cart_app {A} : forall (X Y : list (list A)),
  cart (X ++ Y) = flat_map (fun ta => map (app ta) (cart Y)) (cart X).
Proof.
  induction X as [|l X IH]; intros Y; cbn.
  - rewrite app_nil_r. symmetry. apply map_id.
  - rewrite flat_map_flat_map'. apply flat_map_ext. intros a.
    rewrite IH. rewrite map_flat_map', flat_map_map'. apply flat_map_ext. intros t.
    rewrite map_map. reflexivity.
Qed.

Lemma cart_singleton {A} : forall (l : list A), cart [l] = map (fun a => [a]) l.
Proof. induction l; cbn in *; auto; try (f_equal; auto). Qed.

Lemma cart_rev {A} : forall (ls : list (list A)), Permutation (cart (rev ls)) (map rev (cart ls)).
Proof.
  induction ls as [|l ls IH]; cbn [rev]; [cbn; auto|].
  rewrite cart_app, cart_singleton.
  rewrite (Permutation_flat_map' _ _ _ IH). rewrite flat_map_map'.
  cbn [cart]. rewrite map_flat_map'.
  etransitivity; [|apply flat_map_swap with (f := fun (a : A) (t : list A) => rev t ++ [a])].
  apply Permutation_refl'. apply flat_map_ext. intros t. rewrite map_map. reflexivity.
Qed.
