(* C09 — proofs about the common timeline (Formats/Timeline.v) and the composition read -> convert -> write. *)
From Coq Require Import ZArith QArith Qround Qabs List Bool Permutation Lia Lqa.
From RV Require Import Base.PyNum Formats.Timeline.
Import ListNotations.
Open Scope Q_scope.

Lemma ms_rel_refl {A} (R : A -> A -> Prop) : (forall x, R x x) -> forall l, ms_rel R l l.
Proof.
  intros HR l. exists l. split; [apply Permutation_refl|].
  induction l; constructor; auto.
Qed.
