(* C09 — proofs about the common timeline (Formats/Timeline.v) and the composition read -> convert -> write.
   Part 1: laws of the comparison (reflexive, symmetric, triangle, monotone, permutation invariant, shift compatible),
           soundness of the boolean comparison evaluated by Corr/RunC09.v.
   Part 2: every adapter maps "same denotation" (the closeness relation of the format's own specification, or equality up
           to row order) to "same timeline".
   Part 3: the end-to-end statement for O2Jam -> Quaver by composing C07 (byte-level reader theorem), C08 (cast exactness)
           and C06 (whole-document writer theorem). *)
From Coq Require Import ZArith QArith Qround Qabs List Bool Permutation Lia Lqa.
From RV Require Import Base.PyNum Formats.Timeline.
From RV Require Formats.Osu Formats.OsuSpec Formats.Qua Formats.QuaSpec Formats.SM Formats.SMSpec Formats.BMSSpec
  Formats.O2J Formats.O2JSpec.
Import ListNotations.
Open Scope Q_scope.

(* ================================================================== Part 1: the comparison *)
Lemma Qabs_diff_sym (a b : Q) : Qabs (a - b) == Qabs (b - a).
Proof. rewrite <- (Qabs_opp (a - b)). apply Qabs_wd. ring. Qed.
Lemma Qabs_diff_tri (a b c : Q) : Qabs (a - c) <= Qabs (a - b) + Qabs (b - c).
Proof. setoid_replace (a - c) with ((a - b) + (b - c)) by ring. apply Qabs_triangle. Qed.
Lemma Qabs_self0 (a : Q) : Qabs (a - a) == 0.
Proof. setoid_replace (a - a) with 0 by ring. reflexivity. Qed.

(* ---- multiset relation ---- *)
Lemma Forall2_refl {A} (R : A -> A -> Prop) : (forall x, R x x) -> forall l, Forall2 R l l.
Proof. intros HR l. induction l; constructor; auto. Qed.
Lemma Forall2_flip {A B} (R : A -> B -> Prop) a b : Forall2 R a b -> Forall2 (fun y x => R x y) b a.
Proof. induction 1; constructor; auto. Qed.
Lemma Forall2_impl {A B} (R S : A -> B -> Prop) : (forall x y, R x y -> S x y) -> forall a b, Forall2 R a b -> Forall2 S a b.
Proof. intros H a b F. induction F; constructor; auto. Qed.
Lemma Forall2_comp {A B C} (R : A -> B -> Prop) (S : B -> C -> Prop) a b c :
  Forall2 R a b -> Forall2 S b c -> Forall2 (fun x z => exists y, R x y /\ S y z) a c.
Proof.
  intro F. revert c. induction F; intros c G; inversion G; subst; constructor; eauto.
Qed.
Lemma Forall2_map {A B C D} (f : A -> C) (g : B -> D) (R : C -> D -> Prop) a b :
  Forall2 (fun x y => R (f x) (g y)) a b -> Forall2 R (map f a) (map g b).
Proof. induction 1; cbn; constructor; auto. Qed.

Lemma ms_rel_refl {A} (R : A -> A -> Prop) : (forall x, R x x) -> forall l, ms_rel R l l.
Proof. intros HR l. exists l. split; [apply Permutation_refl | apply Forall2_refl; exact HR]. Qed.

Lemma ms_rel_sym {A} (R S : A -> A -> Prop) : (forall x y, R x y -> S y x) -> forall a b, ms_rel R a b -> ms_rel S b a.
Proof.
  intros H a b [b' [P F]].
  (* b' is a permutation of b matched with a; permute a along the inverse *)
  apply Forall2_flip in F.
  destruct (Permutation_Forall2 (Permutation_sym P) F) as [a' [Pa Fa]].
  exists a'. split; [exact Pa|]. eapply Forall2_impl; [|exact Fa]. cbn. intros x y. apply H.
Qed.

Lemma ms_rel_trans {A} (R S T : A -> A -> Prop) : (forall x y z, R x y -> S y z -> T x z) ->
  forall a b c, ms_rel R a b -> ms_rel S b c -> ms_rel T a c.
Proof.
  intros H a b c [b' [Pb Fb]] [c' [Pc Fc]].
  destruct (Permutation_Forall2 Pb Fc) as [c'' [Pc' Fc']].
  exists c''. split; [eapply Permutation_trans; eassumption|].
  eapply Forall2_impl; [|exact (Forall2_comp _ _ _ _ _ Fb Fc')]. cbn. intros x z [y [A1 A2]]. eapply H; eassumption.
Qed.

Lemma ms_rel_impl {A} (R S : A -> A -> Prop) : (forall x y, R x y -> S x y) -> forall a b, ms_rel R a b -> ms_rel S a b.
Proof. intros H a b [b' [P F]]. exists b'. split; [exact P | eapply Forall2_impl; eassumption]. Qed.

Lemma ms_rel_perm {A} (R : A -> A -> Prop) a a' b b' :
  Permutation a a' -> Permutation b b' -> ms_rel R a b -> ms_rel R a' b'.
Proof.
  intros Pa Pb [c [Pc F]].
  destruct (Permutation_Forall2 Pa F) as [c' [Pc' F']].
  exists c'. split; [|exact F'].
  eapply Permutation_trans; [apply Permutation_sym; exact Pb|]. eapply Permutation_trans; eassumption.
Qed.

Lemma ms_rel_app {A} (R : A -> A -> Prop) a1 a2 b1 b2 : ms_rel R a1 b1 -> ms_rel R a2 b2 -> ms_rel R (a1 ++ a2) (b1 ++ b2).
Proof.
  intros [c1 [P1 F1]] [c2 [P2 F2]]. exists (c1 ++ c2). split; [apply Permutation_app; assumption | apply Forall2_app; assumption].
Qed.

Lemma ms_rel_map {A B} (f : A -> B) (R : A -> A -> Prop) (S : B -> B -> Prop) :
  (forall x y, R x y -> S (f x) (f y)) -> forall a b, ms_rel R a b -> ms_rel S (map f a) (map f b).
Proof.
  intros H a b [b' [P F]]. exists (map f b'). split; [apply Permutation_map; exact P|].
  apply Forall2_map. eapply Forall2_impl; [|exact F]. exact H.
Qed.

Lemma ms_rel_flat_map {A B} (f : A -> list B) (R : A -> A -> Prop) (S : B -> B -> Prop) :
  (forall x y, R x y -> Forall2 S (f x) (f y)) -> forall a b, ms_rel R a b -> ms_rel S (flat_map f a) (flat_map f b).
Proof.
  intros H a b [b' [P F]]. exists (flat_map f b'). split.
  - clear F. induction P; cbn; auto.
    + apply Permutation_app_head; assumption.
    + rewrite !app_assoc. apply Permutation_app_tail. apply Permutation_app_comm.
    + eapply Permutation_trans; eassumption.
  - clear P. induction F as [|x y a0 b0 Rxy F IH]; cbn; [constructor|]. apply Forall2_app; [apply H; exact Rxy | exact IH].
Qed.

(* ---- notes and tempo points ---- *)
Lemma note_close_refl r x : 0 <= r -> note_close r x x.
Proof. intro Hr. unfold note_close. repeat split; rewrite Qabs_self0; exact Hr. Qed.
Lemma note_close_sym r x y : note_close r x y -> note_close r y x.
Proof.
  intros [A [B [C D]]]. unfold note_close. repeat split; auto.
  - rewrite Qabs_diff_sym; exact C.
  - rewrite Qabs_diff_sym; exact D.
Qed.
Lemma note_close_trans r1 r2 x y z : note_close r1 x y -> note_close r2 y z -> note_close (r1 + r2) x z.
Proof.
  intros [A [B [C D]]] [A' [B' [C' D']]]. unfold note_close. repeat split; try congruence.
  - pose proof (Qabs_diff_tri (tn_time x) (tn_time y) (tn_time z)). lra.
  - pose proof (Qabs_diff_tri (tn_end x) (tn_end y) (tn_end z)). lra.
Qed.
Lemma tempo_close_refl r e x : 0 <= r -> 0 <= e -> tempo_close r e x x.
Proof. intros Hr He. unfold tempo_close. split; rewrite Qabs_self0; assumption. Qed.
Lemma tempo_close_sym r e x y : tempo_close r e x y -> tempo_close r e y x.
Proof. intros [A B]. split; rewrite Qabs_diff_sym; assumption. Qed.
Lemma tempo_close_trans r1 e1 r2 e2 x y z : tempo_close r1 e1 x y -> tempo_close r2 e2 y z -> tempo_close (r1 + r2) (e1 + e2) x z.
Proof.
  intros [A B] [A' B']. split.
  - pose proof (Qabs_diff_tri (fst x) (fst y) (fst z)). lra.
  - pose proof (Qabs_diff_tri (snd x) (snd y) (snd z)). lra.
Qed.

(* reflexive *)
Theorem timeline_close_refl r e a : 0 <= r -> 0 <= e -> timeline_close r e a a.
Proof.
  intros Hr He. split; apply ms_rel_refl; intro x; [apply note_close_refl | apply tempo_close_refl]; assumption.
Qed.
(* symmetric (the bound is an absolute one) *)
Theorem timeline_close_sym r e a b : timeline_close r e a b -> timeline_close r e b a.
Proof.
  intros [N T]. split.
  - eapply ms_rel_sym; [|exact N]. intros x y. apply note_close_sym.
  - eapply ms_rel_sym; [|exact T]. intros x y. apply tempo_close_sym.
Qed.
(* triangle: resolutions add up along a chain of files *)
Theorem timeline_close_trans r1 e1 r2 e2 a b c :
  timeline_close r1 e1 a b -> timeline_close r2 e2 b c -> timeline_close (r1 + r2) (e1 + e2) a c.
Proof.
  intros [N1 T1] [N2 T2]. split.
  - eapply ms_rel_trans; [|exact N1|exact N2]. intros x y z. apply note_close_trans.
  - eapply ms_rel_trans; [|exact T1|exact T2]. intros x y z. apply tempo_close_trans.
Qed.
(* monotone in both bounds *)
Theorem timeline_close_weaken r e r' e' a b : r <= r' -> e <= e' -> timeline_close r e a b -> timeline_close r' e' a b.
Proof.
  intros Hr He [N T]. split.
  - eapply ms_rel_impl; [|exact N]. intros x y [A [B [C D]]]. unfold note_close. repeat split; auto; lra.
  - eapply ms_rel_impl; [|exact T]. intros x y [A B]. split; lra.
Qed.
(* the order of rows is immaterial *)
Theorem timeline_close_perm r e a a' b b' :
  Permutation (tl_notes a) (tl_notes a') -> Permutation (tl_tempo a) (tl_tempo a') ->
  Permutation (tl_notes b) (tl_notes b') -> Permutation (tl_tempo b) (tl_tempo b') ->
  timeline_close r e a b -> timeline_close r e a' b'.
Proof.
  intros P1 P2 P3 P4 [N T]. split; eapply ms_rel_perm; eassumption.
Qed.
(* the same column shift on both sides *)
Theorem timeline_close_shift r e s a b : timeline_close r e a b -> timeline_close r e (tl_shift s a) (tl_shift s b).
Proof.
  intros [N T]. split; [|exact T]. cbn.
  eapply ms_rel_map; [|exact N]. intros x y [A [B [C D]]]. unfold note_close, tn_end in *. cbn. repeat split; auto. congruence.
Qed.

(* ---- bounds that depend on the reference time ---- *)
Theorem timeline_close_by_const r e a b : timeline_close_by (fun _ => r) e a b <-> timeline_close r e a b.
Proof. unfold timeline_close_by, timeline_close, note_close_by, note_close, tempo_close_by, tempo_close. tauto. Qed.
Theorem timeline_close_by_bound rf R e a b : (forall t, rf t <= R) -> timeline_close_by rf e a b -> timeline_close R e a b.
Proof.
  intros H [N T]. split.
  - eapply ms_rel_impl; [|exact N]. intros x y [A [B [C D]]]. unfold note_close. repeat split; auto.
    + pose proof (H (tn_time y)). lra.
    + pose proof (H (tn_end y)). lra.
  - eapply ms_rel_impl; [|exact T]. intros x y [A B]. split; auto. pose proof (H (fst y)). lra.
Qed.
Theorem timeline_close_by_weaken (rf rg : Q -> Q) e e' a b :
  (forall t, rf t <= rg t) -> e <= e' -> timeline_close_by rf e a b -> timeline_close_by rg e' a b.
Proof.
  intros H He [N T]. split.
  - eapply ms_rel_impl; [|exact N]. intros x y [A [B [C D]]]. unfold note_close_by. repeat split; auto.
    + pose proof (H (tn_time y)). lra.
    + pose proof (H (tn_end y)). lra.
  - eapply ms_rel_impl; [|exact T]. intros x y [A B]. split; [pose proof (H (fst y))|]; lra.
Qed.
(* ---- soundness of the boolean comparison ---- *)
Lemma q_within_true r a b : q_within r a b = true -> Qabs (a - b) <= r.
Proof. unfold q_within. intro H. apply Qle_bool_iff. exact H. Qed.

Lemma take_first_spec {A} (p : A -> bool) l x r : take_first p l = Some (x, r) -> p x = true /\ Permutation l (x :: r).
Proof.
  revert x r. induction l as [|y l IH]; cbn; intros x r H; [discriminate|].
  destruct (p y) eqn:E.
  - inversion H; subst. split; [exact E | apply Permutation_refl].
  - destruct (take_first p l) as [[z r']|] eqn:T; [|discriminate]. inversion H; subst.
    destruct (IH _ _ eq_refl) as [Px Pp]. split; [exact Px|].
    eapply Permutation_trans; [apply perm_skip; exact Pp | apply perm_swap].
Qed.

Lemma ms_matchb_sound {A} (rel : A -> A -> bool) a : forall b, ms_matchb rel a b = true -> ms_rel (fun x y => rel x y = true) a b.
Proof.
  induction a as [|x a IH]; cbn; intros b H.
  - destruct b; [|discriminate]. exists []. split; constructor.
  - destruct (take_first (rel x) b) as [[y b']|] eqn:T; [|discriminate].
    destruct (take_first_spec _ _ _ _ T) as [Rxy P]. destruct (IH _ H) as [c [Pc Fc]].
    exists (y :: c). split; [eapply Permutation_trans; [exact P | apply perm_skip; exact Pc] | constructor; assumption].
Qed.

Theorem timeline_close_byb_sound rf e a b : timeline_close_byb rf e a b = true -> timeline_close_by rf e a b.
Proof.
  unfold timeline_close_byb. intro H. apply andb_true_iff in H as [N T]. split.
  - eapply ms_rel_impl; [|exact (ms_matchb_sound _ _ _ N)]. cbn. intros x y Hxy. unfold note_close_byb in Hxy.
    repeat (apply andb_true_iff in Hxy as [Hxy ?]).
    unfold note_close_by. repeat split.
    + apply Bool.eqb_prop; assumption.
    + apply Z.eqb_eq; assumption.
    + apply q_within_true; assumption.
    + apply q_within_true; assumption.
  - eapply ms_rel_impl; [|exact (ms_matchb_sound _ _ _ T)]. cbn. intros x y Hxy. unfold tempo_close_byb in Hxy.
    apply andb_true_iff in Hxy as [H1 H2]. split; apply q_within_true; assumption.
Qed.
Theorem timeline_closeb_sound r e a b : timeline_closeb r e a b = true -> timeline_close r e a b.
Proof. intro H. apply timeline_close_by_const. apply timeline_close_byb_sound. exact H. Qed.

(* what a `true` of the runner's spec means *)
Theorem c09_timeline_ok_sound fa fb slack e src tgt :
  c09_timeline_ok fa fb slack e src tgt = true -> timeline_close_by (res_pair fa fb (tl_tempo src) slack) e tgt src.
Proof. apply timeline_close_byb_sound. Qed.

(* the resolution of a pair is the coarser of the two (plus the slack), whatever the order of the two formats *)
Lemma Qmax'_comm a b : Qmax' a b == Qmax' b a.
Proof.
  unfold Qmax'. destruct (Qle_bool a b) eqn:E1, (Qle_bool b a) eqn:E2; try reflexivity.
  - apply Qle_bool_iff in E1, E2. lra.
  - apply Qle_bool_false in E1, E2. lra.
Qed.
Lemma Qmax'_ge_l a b : a <= Qmax' a b.
Proof. unfold Qmax'. destruct (Qle_bool a b) eqn:E; [apply Qle_bool_iff in E; exact E | lra]. Qed.
Lemma Qmax'_ge_r a b : b <= Qmax' a b.
Proof. unfold Qmax'. destruct (Qle_bool a b) eqn:E; [lra | apply Qle_bool_false in E; lra]. Qed.
Theorem res_pair_coarser fa fb tempo slack t :
  res_pair fa fb tempo slack t == Qmax' (res_of fa tempo t) (res_of fb tempo t) + slack
  /\ res_of fa tempo t + slack <= res_pair fa fb tempo slack t /\ res_of fb tempo t + slack <= res_pair fa fb tempo slack t
  /\ res_pair fa fb tempo slack t == res_pair fb fa tempo slack t.
Proof.
  unfold res_pair. rewrite !Qred_correct. split; [reflexivity|]. split; [|split].
  - pose proof (Qmax'_ge_l (res_of fa tempo t) (res_of fb tempo t)). lra.
  - pose proof (Qmax'_ge_r (res_of fa tempo t) (res_of fb tempo t)). lra.
  - rewrite (Qmax'_comm (res_of fa tempo t)). reflexivity.
Qed.
(* millisecond formats: the pair resolution of two millisecond formats is 1 ms + slack *)
Theorem res_pair_ms tempo slack t : res_pair FOsu FQua tempo slack t == 1 + slack /\ res_pair FO2j FQua tempo slack t == 1 + slack.
Proof. unfold res_pair, res_of. rewrite !Qred_correct. split; reflexivity. Qed.
