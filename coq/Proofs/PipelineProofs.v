(* C09 — proofs about the common timeline (Formats/Timeline.v) and the composition read -> convert -> write.
   Part 1: laws of the comparison (reflexive, symmetric, triangle, monotone, permutation invariant, shift compatible),
           soundness of the boolean comparison evaluated by Corr/RunC09.v.
   Part 2: every adapter maps "same denotation" (the closeness relation of the format's own specification, or equality up
           to row order) to "same timeline".
   Part 3: the end-to-end statement for O2Jam -> Quaver by composing C07 (byte-level reader theorem), C08 (cast exactness)
           and C06 (whole-document writer theorem). *)
From Coq Require Import ZArith QArith Qround Qabs List Bool Permutation Lia Lqa.
From RV Require Import Base.PyNum Formats.Timeline.
From RV Require Formats.Osu Formats.OsuSpec Formats.Qua Formats.QuaSpec Formats.SM Formats.SMSpec Formats.BMSSpec
  Formats.O2J Formats.O2JSpec.
Import ListNotations.
Open Scope Q_scope.

(* ================================================================== Part 1: the comparison *)
Lemma Qabs_diff_sym (a b : Q) : Qabs (a - b) == Qabs (b - a).
Proof. rewrite <- (Qabs_opp (a - b)). apply Qabs_wd. ring. Qed.
Lemma Qabs_diff_tri (a b c : Q) : Qabs (a - c) <= Qabs (a - b) + Qabs (b - c).
Proof. setoid_replace (a - c) with ((a - b) + (b - c)) by ring. apply Qabs_triangle. Qed.
Lemma Qabs_self0 (a : Q) : Qabs (a - a) == 0.
Proof. setoid_replace (a - a) with 0 by ring. reflexivity. Qed.
Lemma Qabs_le_eq (a b r : Q) : a == b -> Qabs b <= r -> Qabs a <= r.
Proof. intros E H. rewrite E. exact H. Qed.
Lemma Qabs_zero_le (a r : Q) : a == 0 -> 0 <= r -> Qabs a <= r.
Proof. intros E H. rewrite E. cbn. exact H. Qed.

(* ---- multiset relation ---- *)
Lemma Forall2_refl {A} (R : A -> A -> Prop) : (forall x, R x x) -> forall l, Forall2 R l l.
Proof. intros HR l. induction l; constructor; auto. Qed.
Lemma Forall2_flip {A B} (R : A -> B -> Prop) a b : Forall2 R a b -> Forall2 (fun y x => R x y) b a.
Proof. induction 1; constructor; auto. Qed.
Lemma Forall2_impl {A B} (R S : A -> B -> Prop) : (forall x y, R x y -> S x y) -> forall a b, Forall2 R a b -> Forall2 S a b.
Proof. intros H a b F. induction F; constructor; auto. Qed.
Lemma Forall2_comp {A B C} (R : A -> B -> Prop) (S : B -> C -> Prop) a b c :
  Forall2 R a b -> Forall2 S b c -> Forall2 (fun x z => exists y, R x y /\ S y z) a c.
Proof.
  intro F. revert c. induction F; intros c G; inversion G; subst; constructor; eauto.
Qed.
Lemma Forall2_map {A B C D} (f : A -> C) (g : B -> D) (R : C -> D -> Prop) a b :
  Forall2 (fun x y => R (f x) (g y)) a b -> Forall2 R (map f a) (map g b).
Proof. induction 1; cbn; constructor; auto. Qed.

Lemma ms_rel_refl {A} (R : A -> A -> Prop) : (forall x, R x x) -> forall l, ms_rel R l l.
Proof. intros HR l. exists l. split; [apply Permutation_refl | apply Forall2_refl; exact HR]. Qed.

Lemma ms_rel_sym {A} (R S : A -> A -> Prop) : (forall x y, R x y -> S y x) -> forall a b, ms_rel R a b -> ms_rel S b a.
Proof.
  intros H a b [b' [P F]].
  (* b' is a permutation of b matched with a; permute a along the inverse *)
  apply Forall2_flip in F.
  destruct (Permutation_Forall2 (Permutation_sym P) F) as [a' [Pa Fa]].
  exists a'. split; [exact Pa|]. eapply Forall2_impl; [|exact Fa]. cbn. intros x y. apply H.
Qed.

Lemma ms_rel_trans {A} (R S T : A -> A -> Prop) : (forall x y z, R x y -> S y z -> T x z) ->
  forall a b c, ms_rel R a b -> ms_rel S b c -> ms_rel T a c.
Proof.
  intros H a b c [b' [Pb Fb]] [c' [Pc Fc]].
  destruct (Permutation_Forall2 Pb Fc) as [c'' [Pc' Fc']].
  exists c''. split; [eapply Permutation_trans; eassumption|].
  eapply Forall2_impl; [|exact (Forall2_comp _ _ _ _ _ Fb Fc')]. cbn. intros x z [y [A1 A2]]. eapply H; eassumption.
Qed.

Lemma ms_rel_impl {A} (R S : A -> A -> Prop) : (forall x y, R x y -> S x y) -> forall a b, ms_rel R a b -> ms_rel S a b.
Proof. intros H a b [b' [P F]]. exists b'. split; [exact P | eapply Forall2_impl; eassumption]. Qed.

Lemma ms_rel_perm {A} (R : A -> A -> Prop) a a' b b' :
  Permutation a a' -> Permutation b b' -> ms_rel R a b -> ms_rel R a' b'.
Proof.
  intros Pa Pb [c [Pc F]].
  destruct (Permutation_Forall2 Pa F) as [c' [Pc' F']].
  exists c'. split; [|exact F'].
  eapply Permutation_trans; [apply Permutation_sym; exact Pb|]. eapply Permutation_trans; eassumption.
Qed.

Lemma ms_rel_app {A} (R : A -> A -> Prop) a1 a2 b1 b2 : ms_rel R a1 b1 -> ms_rel R a2 b2 -> ms_rel R (a1 ++ a2) (b1 ++ b2).
Proof.
  intros [c1 [P1 F1]] [c2 [P2 F2]]. exists (c1 ++ c2). split; [apply Permutation_app; assumption | apply Forall2_app; assumption].
Qed.

Lemma ms_rel_map {A B} (f : A -> B) (R : A -> A -> Prop) (S : B -> B -> Prop) :
  (forall x y, R x y -> S (f x) (f y)) -> forall a b, ms_rel R a b -> ms_rel S (map f a) (map f b).
Proof.
  intros H a b [b' [P F]]. exists (map f b'). split; [apply Permutation_map; exact P|].
  apply Forall2_map. eapply Forall2_impl; [|exact F]. exact H.
Qed.

Lemma ms_rel_flat_map {A B} (f : A -> list B) (R : A -> A -> Prop) (S : B -> B -> Prop) :
  (forall x y, R x y -> Forall2 S (f x) (f y)) -> forall a b, ms_rel R a b -> ms_rel S (flat_map f a) (flat_map f b).
Proof.
  intros H a b [b' [P F]]. exists (flat_map f b'). split.
  - clear F. induction P; cbn; auto.
    + apply Permutation_app_head; assumption.
    + rewrite !app_assoc. apply Permutation_app_tail. apply Permutation_app_comm.
    + eapply Permutation_trans; eassumption.
  - clear P. induction F as [|x y a0 b0 Rxy F IH]; cbn; [constructor|]. apply Forall2_app; [apply H; exact Rxy | exact IH].
Qed.

(* ---- notes and tempo points ---- *)
Lemma note_close_refl r x : 0 <= r -> note_close r x x.
Proof. intro Hr. unfold note_close. repeat split; rewrite Qabs_self0; exact Hr. Qed.
Lemma note_close_sym r x y : note_close r x y -> note_close r y x.
Proof.
  intros [A [B [C D]]]. unfold note_close. repeat split; auto.
  - rewrite Qabs_diff_sym; exact C.
  - rewrite Qabs_diff_sym; exact D.
Qed.
Lemma note_close_trans r1 r2 x y z : note_close r1 x y -> note_close r2 y z -> note_close (r1 + r2) x z.
Proof.
  intros [A [B [C D]]] [A' [B' [C' D']]]. unfold note_close. repeat split; try congruence.
  - pose proof (Qabs_diff_tri (tn_time x) (tn_time y) (tn_time z)). lra.
  - pose proof (Qabs_diff_tri (tn_end x) (tn_end y) (tn_end z)). lra.
Qed.
Lemma tempo_close_refl r e x : 0 <= r -> 0 <= e -> tempo_close r e x x.
Proof. intros Hr He. unfold tempo_close. split; rewrite Qabs_self0; assumption. Qed.
Lemma tempo_close_sym r e x y : tempo_close r e x y -> tempo_close r e y x.
Proof. intros [A B]. split; rewrite Qabs_diff_sym; assumption. Qed.
Lemma tempo_close_trans r1 e1 r2 e2 x y z : tempo_close r1 e1 x y -> tempo_close r2 e2 y z -> tempo_close (r1 + r2) (e1 + e2) x z.
Proof.
  intros [A B] [A' B']. split.
  - pose proof (Qabs_diff_tri (fst x) (fst y) (fst z)). lra.
  - pose proof (Qabs_diff_tri (snd x) (snd y) (snd z)). lra.
Qed.

(* reflexive *)
Theorem timeline_close_refl r e a : 0 <= r -> 0 <= e -> timeline_close r e a a.
Proof.
  intros Hr He. split; apply ms_rel_refl; intro x; [apply note_close_refl | apply tempo_close_refl]; assumption.
Qed.
(* symmetric (the bound is an absolute one) *)
Theorem timeline_close_sym r e a b : timeline_close r e a b -> timeline_close r e b a.
Proof.
  intros [N T]. split.
  - eapply ms_rel_sym; [|exact N]. intros x y. apply note_close_sym.
  - eapply ms_rel_sym; [|exact T]. intros x y. apply tempo_close_sym.
Qed.
(* triangle: resolutions add up along a chain of files *)
Theorem timeline_close_trans r1 e1 r2 e2 a b c :
  timeline_close r1 e1 a b -> timeline_close r2 e2 b c -> timeline_close (r1 + r2) (e1 + e2) a c.
Proof.
  intros [N1 T1] [N2 T2]. split.
  - eapply ms_rel_trans; [|exact N1|exact N2]. intros x y z. apply note_close_trans.
  - eapply ms_rel_trans; [|exact T1|exact T2]. intros x y z. apply tempo_close_trans.
Qed.
(* monotone in both bounds *)
Theorem timeline_close_weaken r e r' e' a b : r <= r' -> e <= e' -> timeline_close r e a b -> timeline_close r' e' a b.
Proof.
  intros Hr He [N T]. split.
  - eapply ms_rel_impl; [|exact N]. intros x y [A [B [C D]]]. unfold note_close. repeat split; auto; lra.
  - eapply ms_rel_impl; [|exact T]. intros x y [A B]. split; lra.
Qed.
(* the order of rows is immaterial *)
Theorem timeline_close_perm r e a a' b b' :
  Permutation (tl_notes a) (tl_notes a') -> Permutation (tl_tempo a) (tl_tempo a') ->
  Permutation (tl_notes b) (tl_notes b') -> Permutation (tl_tempo b) (tl_tempo b') ->
  timeline_close r e a b -> timeline_close r e a' b'.
Proof.
  intros P1 P2 P3 P4 [N T]. split; eapply ms_rel_perm; eassumption.
Qed.
(* the same column shift on both sides *)
Theorem timeline_close_shift r e s a b : timeline_close r e a b -> timeline_close r e (tl_shift s a) (tl_shift s b).
Proof.
  intros [N T]. split; [|exact T]. cbn.
  eapply ms_rel_map; [|exact N]. intros x y [A [B [C D]]]. unfold note_close, tn_end in *. cbn. repeat split; auto. congruence.
Qed.

(* ---- bounds that depend on the reference time ---- *)
Theorem timeline_close_by_const r e a b : timeline_close_by (fun _ => r) e a b <-> timeline_close r e a b.
Proof. unfold timeline_close_by, timeline_close, note_close_by, note_close, tempo_close_by, tempo_close. tauto. Qed.
Theorem timeline_close_by_bound rf R e a b : (forall t, rf t <= R) -> timeline_close_by rf e a b -> timeline_close R e a b.
Proof.
  intros H [N T]. split.
  - eapply ms_rel_impl; [|exact N]. intros x y [A [B [C D]]]. unfold note_close. repeat split; auto.
    + pose proof (H (tn_time y)). lra.
    + pose proof (H (tn_end y)). lra.
  - eapply ms_rel_impl; [|exact T]. intros x y [A B]. split; auto. pose proof (H (fst y)). lra.
Qed.
Theorem timeline_close_by_weaken (rf rg : Q -> Q) e e' a b :
  (forall t, rf t <= rg t) -> e <= e' -> timeline_close_by rf e a b -> timeline_close_by rg e' a b.
Proof.
  intros H He [N T]. split.
  - eapply ms_rel_impl; [|exact N]. intros x y [A [B [C D]]]. unfold note_close_by. repeat split; auto.
    + pose proof (H (tn_time y)). lra.
    + pose proof (H (tn_end y)). lra.
  - eapply ms_rel_impl; [|exact T]. intros x y [A B]. split; [pose proof (H (fst y))|]; lra.
Qed.
(* ---- soundness of the boolean comparison ---- *)
Lemma q_within_true r a b : q_within r a b = true -> Qabs (a - b) <= r.
Proof. unfold q_within. intro H. apply Qle_bool_iff. exact H. Qed.

Lemma take_first_spec {A} (p : A -> bool) l x r : take_first p l = Some (x, r) -> p x = true /\ Permutation l (x :: r).
Proof.
  revert x r. induction l as [|y l IH]; cbn; intros x r H; [discriminate|].
  destruct (p y) eqn:E.
  - inversion H; subst. split; [exact E | apply Permutation_refl].
  - destruct (take_first p l) as [[z r']|] eqn:T; [|discriminate]. inversion H; subst.
    destruct (IH _ _ eq_refl) as [Px Pp]. split; [exact Px|].
    eapply Permutation_trans; [apply perm_skip; exact Pp | apply perm_swap].
Qed.

Lemma ms_matchb_sound {A} (rel : A -> A -> bool) a : forall b, ms_matchb rel a b = true -> ms_rel (fun x y => rel x y = true) a b.
Proof.
  induction a as [|x a IH]; cbn; intros b H.
  - destruct b; [|discriminate]. exists []. split; constructor.
  - destruct (take_first (rel x) b) as [[y b']|] eqn:T; [|discriminate].
    destruct (take_first_spec _ _ _ _ T) as [Rxy P]. destruct (IH _ H) as [c [Pc Fc]].
    exists (y :: c). split; [eapply Permutation_trans; [exact P | apply perm_skip; exact Pc] | constructor; assumption].
Qed.

Theorem timeline_close_byb_sound rf e a b : timeline_close_byb rf e a b = true -> timeline_close_by rf e a b.
Proof.
  unfold timeline_close_byb. intro H. apply andb_true_iff in H as [N T]. split.
  - eapply ms_rel_impl; [|exact (ms_matchb_sound _ _ _ N)]. cbn. intros x y Hxy. unfold note_close_byb in Hxy.
    repeat (apply andb_true_iff in Hxy as [Hxy ?]).
    unfold note_close_by. repeat split.
    + apply Bool.eqb_prop; assumption.
    + apply Z.eqb_eq; assumption.
    + apply q_within_true; assumption.
    + apply q_within_true; assumption.
  - eapply ms_rel_impl; [|exact (ms_matchb_sound _ _ _ T)]. cbn. intros x y Hxy. unfold tempo_close_byb in Hxy.
    apply andb_true_iff in Hxy as [H1 H2]. split; apply q_within_true; assumption.
Qed.
Theorem timeline_closeb_sound r e a b : timeline_closeb r e a b = true -> timeline_close r e a b.
Proof. intro H. apply (proj1 (timeline_close_by_const r e a b)). apply timeline_close_byb_sound. exact H. Qed.

(* what a `true` of the runner's spec means *)
Theorem c09_timeline_ok_sound fa fb slack e src tgt :
  c09_timeline_ok fa fb slack e src tgt = true -> timeline_close_by (res_pair fa fb (tl_tempo src) slack) e tgt src.
Proof. apply timeline_close_byb_sound. Qed.

(* the resolution of a pair is the coarser of the two (plus the slack), whatever the order of the two formats *)
Lemma Qmax'_comm a b : Qmax' a b == Qmax' b a.
Proof.
  unfold Qmax'. destruct (Qle_bool a b) eqn:E1, (Qle_bool b a) eqn:E2; try reflexivity.
  - apply Qle_bool_iff in E1, E2. lra.
  - apply Qle_bool_false in E1, E2. lra.
Qed.
Lemma Qmax'_ge_l a b : a <= Qmax' a b.
Proof. unfold Qmax'. destruct (Qle_bool a b) eqn:E; [apply Qle_bool_iff in E; exact E | lra]. Qed.
Lemma Qmax'_ge_r a b : b <= Qmax' a b.
Proof. unfold Qmax'. destruct (Qle_bool a b) eqn:E; [lra | apply Qle_bool_false in E; lra]. Qed.
Theorem res_pair_coarser fa fb tempo slack t :
  res_pair fa fb tempo slack t == Qmax' (res_of fa tempo t) (res_of fb tempo t) + slack
  /\ res_of fa tempo t + slack <= res_pair fa fb tempo slack t /\ res_of fb tempo t + slack <= res_pair fa fb tempo slack t
  /\ res_pair fa fb tempo slack t == res_pair fb fa tempo slack t.
Proof.
  unfold res_pair. rewrite !Qred_correct. split; [reflexivity|]. split; [|split].
  - pose proof (Qmax'_ge_l (res_of fa tempo t) (res_of fb tempo t)). lra.
  - pose proof (Qmax'_ge_r (res_of fa tempo t) (res_of fb tempo t)). lra.
  - rewrite (Qmax'_comm (res_of fa tempo t)). reflexivity.
Qed.
(* millisecond formats: the pair resolution of two millisecond formats is 1 ms + slack *)
Theorem res_pair_ms tempo slack t : res_pair FOsu FQua tempo slack t == 1 + slack /\ res_pair FO2j FQua tempo slack t == 1 + slack.
Proof. unfold res_pair, res_of. rewrite !Qred_correct. split; reflexivity. Qed.

(* ================================================================== Part 2: the adapters *)
(* equality up to row order is closeness 0 *)
Lemma timeline_close_of_perm ns ns' tp tp' :
  Permutation ns ns' -> Permutation tp tp' -> timeline_close 0 0 (mkTL ns tp) (mkTL ns' tp').
Proof.
  intros P1 P2.
  apply (timeline_close_perm 0 0 (mkTL ns tp) (mkTL ns tp) (mkTL ns tp) (mkTL ns' tp')); cbn; auto.
  apply timeline_close_refl; lra.
Qed.

(* ---- osu: the denotation lists up to row order ---- *)
Theorem tl_of_osu_perm d d' :
  Permutation (OsuSpec.d_hits d) (OsuSpec.d_hits d') -> Permutation (OsuSpec.d_holds d) (OsuSpec.d_holds d') ->
  Permutation (OsuSpec.d_bpms d) (OsuSpec.d_bpms d') -> timeline_close 0 0 (tl_of_osu d) (tl_of_osu d').
Proof.
  intros P1 P2 P3. unfold tl_of_osu. apply timeline_close_of_perm.
  - apply Permutation_app; apply Permutation_map; assumption.
  - apply Permutation_map; assumption.
Qed.

(* ---- StepMania ---- *)
Theorem tl_of_sm_perm d d' c c' :
  Permutation (SMSpec.d_notes c) (SMSpec.d_notes c') -> Permutation (SMSpec.d_tempo d) (SMSpec.d_tempo d') ->
  timeline_close 0 0 (tl_of_sm_chart d c) (tl_of_sm_chart d' c').
Proof.
  intros P1 P2. unfold tl_of_sm_chart. apply timeline_close_of_perm.
  - clear P2. induction P1; cbn; auto.
    + apply Permutation_app_head; assumption.
    + rewrite !app_assoc. apply Permutation_app_tail. apply Permutation_app_comm.
    + eapply Permutation_trans; eassumption.
  - apply Permutation_map; assumption.
Qed.

(* ---- BMS ---- *)
Theorem tl_of_bms_perm d d' :
  Permutation (BMSSpec.d_hits d) (BMSSpec.d_hits d') -> Permutation (BMSSpec.d_holds d) (BMSSpec.d_holds d') ->
  Permutation (BMSSpec.d_tempo d) (BMSSpec.d_tempo d') -> timeline_close 0 0 (tl_of_bms d) (tl_of_bms d').
Proof.
  intros P1 P2 P3. unfold tl_of_bms. apply timeline_close_of_perm.
  - apply Permutation_app; apply Permutation_map; assumption.
  - exact P3.
Qed.

(* ---- Quaver: the specification's own closeness (C06: every time moved by less than 1 ms) ---- *)
Lemma qua_note_close_tn x y : QuaSpec.note_close x y -> note_close 1 (tn_of_qua x) (tn_of_qua y).
Proof.
  intros [L [S [E _]]]. unfold tn_of_qua.
  destruct (QuaSpec.n_end x) as [ex|], (QuaSpec.n_end y) as [ey|]; try contradiction;
    unfold note_close, tn_end; cbn [tn_hold tn_col tn_time tn_len]; repeat split; try congruence; try lra.
  - apply (Qabs_le_eq _ (ex - ey)); [ring | lra].
  - apply (Qabs_le_eq _ (QuaSpec.n_start x - QuaSpec.n_start y)); [ring | lra].
Qed.
Lemma qua_pt_close_tp (x y : Q * Q) : QuaSpec.pt_close x y -> tempo_close 1 0 x y.
Proof.
  intros [T V]. split; [lra|]. apply Qabs_zero_le; [rewrite V; ring | lra].
Qed.
Theorem tl_of_qua_close e a : QuaSpec.den_close e a -> timeline_close 1 0 (tl_of_qua e) (tl_of_qua a).
Proof.
  intros [N [B _]]. unfold tl_of_qua. split; cbn [tl_notes tl_tempo].
  - eapply ms_rel_map; [|exact N]. exact qua_note_close_tn.
  - eapply ms_rel_impl; [|exact B]. exact qua_pt_close_tp.
Qed.
(* ... and exact equality of denotations (den_eq: multisets, times by value) is closeness 0 *)
Lemma oq_eqb_true a b : QuaSpec.oq_eqb a b = true -> match a, b with None, None => True | Some x, Some y => x == y | _, _ => False end.
Proof. destruct a, b; cbn; intro H; auto; try discriminate. apply Qeq_bool_iff; exact H. Qed.
Lemma qua_note_eqb_tn x y : QuaSpec.note_eqb x y = true -> note_close 0 (tn_of_qua x) (tn_of_qua y).
Proof.
  unfold QuaSpec.note_eqb. intro H. repeat (apply andb_true_iff in H as [H ?]).
  apply Z.eqb_eq in H. apply Qeq_bool_iff in H2. apply oq_eqb_true in H1. unfold tn_of_qua.
  destruct (QuaSpec.n_end x) as [ex|], (QuaSpec.n_end y) as [ey|]; try contradiction;
    unfold note_close, tn_end; cbn [tn_hold tn_col tn_time tn_len]; repeat split; try congruence;
    apply Qabs_zero_le; try lra; try (rewrite H2; ring); try (rewrite H1; ring).
Qed.
Theorem tl_of_qua_eq e a : QuaSpec.den_eq e a -> timeline_close 0 0 (tl_of_qua e) (tl_of_qua a).
Proof.
  intros [N [B _]]. unfold tl_of_qua. split; cbn [tl_notes tl_tempo].
  - eapply ms_rel_map; [|exact N]. exact qua_note_eqb_tn.
  - eapply ms_rel_impl; [|exact B]. intros x y H. unfold QuaSpec.pt_eqb in H. apply andb_true_iff in H as [H1 H2].
    apply Qeq_bool_iff in H1, H2. split; (apply Qabs_zero_le; [|lra]); [rewrite H1 | rewrite H2]; ring.
Qed.

(* ---- O2Jam: the specification's closeness of one difficulty (C07: rows up to permutation, times within tol,
        lengths within 2 tol) ---- *)
Lemma o2j_q_close tol a b : O2JSpec.q_close tol a b = true -> Qabs (a - b) <= tol.
Proof. unfold O2JSpec.q_close. intro H. apply Qle_bool_iff; exact H. Qed.
Theorem tl_of_omap_close tol a b : 0 <= tol -> O2JSpec.map_matches tol a b ->
  timeline_close (3 * tol) 0 (tl_of_omap a) (tl_of_omap b).
Proof.
  intros Ht [H [L B]]. unfold tl_of_omap. split; cbn [tl_notes tl_tempo].
  - apply ms_rel_app.
    + eapply ms_rel_map; [|exact H]. cbn beta. intros x y C. unfold O2JSpec.hit_close in C.
      repeat (apply andb_true_iff in C as [C ?]). apply Z.eqb_eq in C. apply o2j_q_close in H2.
      unfold note_close, tn_end; cbn [tn_hold tn_col tn_time tn_len]. repeat split; auto; [lra|].
      apply (Qabs_le_eq _ (O2J.h_off x - O2J.h_off y)); [ring | lra].
    + eapply ms_rel_map; [|exact L]. cbn beta. intros x y C. unfold O2JSpec.hold_close in C.
      repeat (apply andb_true_iff in C as [C ?]). apply Z.eqb_eq in C. apply o2j_q_close in H3, H2.
      unfold note_close, tn_end; cbn [tn_hold tn_col tn_time tn_len]. repeat split; auto; [lra|].
      apply (Qabs_le_eq _ ((O2J.l_off x - O2J.l_off y) + (O2J.l_len x - O2J.l_len y))); [ring|].
      pose proof (Qabs_triangle (O2J.l_off x - O2J.l_off y) (O2J.l_len x - O2J.l_len y)). lra.
  - eapply ms_rel_map; [|exact B]. cbn beta. intros x y C. unfold O2JSpec.bpm_close in C. apply andb_true_iff in C as [C1 C2].
    apply o2j_q_close in C1. apply Qeq_bool_iff in C2. split; cbn [fst snd]; [lra|].
    apply Qabs_zero_le; [rewrite C2; ring | lra].
Qed.
(* ... and the form in which the byte-level reader theorem of C07 is stated (rows up to order, tempo rows equal) *)
Theorem tl_of_omap_equiv a b :
  Permutation (O2J.om_hits a) (O2J.om_hits b) -> Permutation (O2J.om_holds a) (O2J.om_holds b) -> O2J.om_bpms a = O2J.om_bpms b ->
  timeline_close 0 0 (tl_of_omap a) (tl_of_omap b).
Proof.
  intros P1 P2 E. unfold tl_of_omap. rewrite E. apply timeline_close_of_perm.
  - apply Permutation_app; apply Permutation_map; assumption.
  - apply Permutation_refl.
Qed.

(* ================================================================== Part 3: O2Jam -> Quaver, end to end *)
(* The pipeline as a composition of the three existing MODELS:
     O2J.read_fixed            (C07: byte-level reader; proved = ojn_denote for every well-formed file)
     Cast.cast                 (C08: ConvertBase.cast; proved exact for every source frame), with the mapping O2JToQua
                               passes: offset / column (/ length), offset / bpm; every other declared field keeps its default
     Qua.Live.write            (C06: QuaMap.write on YAML trees; proved well-formed and within 1 ms for every strict chart)
   and the bridges between their data types (records of the O2Jam chart -> pandas frame -> Quaver's frame of YAML cells). *)
From RV Require Import Frame.Frame Convert.Cast Generated.Tables Proofs.CastProofs Proofs.QuaProofs Proofs.O2JComposeProofs.
Import O2J.

Definition COL_VOLUME : Z := 60.  Definition COL_PAN : Z := 61.  Definition COL_KEYSOUNDS : Z := 50.

(* the O2Jam lists as frames (row labels are irrelevant for cast: C08_labels_irrelevant) *)
Definition fr_hits (hs : list hitrow) : Frame.frame :=
  Frame.mkFrame [COL_OFFSET; COL_COLUMN; COL_VOLUME; COL_PAN]
    (map (fun h => (0%Z, [CNum (h_off h); CNum (inject_Z (h_col h)); CNum (inject_Z (h_vol h)); CNum (inject_Z (h_pan h))])) hs).
Definition fr_holds (ls : list holdrow) : Frame.frame :=
  Frame.mkFrame [COL_OFFSET; COL_COLUMN; COL_LENGTH; COL_VOLUME; COL_PAN]
    (map (fun h => (0%Z, [CNum (l_off h); CNum (inject_Z (l_col h)); CNum (l_len h); CNum (inject_Z (l_vol h)); CNum (inject_Z (l_pan h))])) ls).
Definition fr_bpms (bs : list bpmrow) : Frame.frame :=
  Frame.mkFrame [COL_OFFSET; COL_BPM] (map (fun b => (0%Z, [CNum (b_off b); CNum (b_bpm b)])) bs).

(* the Quaver list classes: declared fields and their defaults (TimedList.empty) *)
Definition QHIT_DECL := [COL_OFFSET; COL_COLUMN; COL_KEYSOUNDS].
Definition QHIT_DFLT := [CNum 0; CNum 0; CList []].
Definition QHOLD_DECL := [COL_OFFSET; COL_COLUMN; COL_LENGTH; COL_KEYSOUNDS].
Definition QHOLD_DFLT := [CNum 0; CNum 0; CNum 0; CList []].
Definition QBPM_DECL := [COL_OFFSET; COL_BPM; COL_METRONOME].
Definition QBPM_DFLT := [CNum 0; CNum 120; CNum 4].
(* the mappings O2JToQua.convert passes to cast *)
Definition MAP_HIT := [(COL_OFFSET, FromCol COL_OFFSET); (COL_COLUMN, FromCol COL_COLUMN)].
Definition MAP_HOLD := [(COL_OFFSET, FromCol COL_OFFSET); (COL_COLUMN, FromCol COL_COLUMN); (COL_LENGTH, FromCol COL_LENGTH)].
Definition MAP_BPM := [(COL_OFFSET, FromCol COL_OFFSET); (COL_BPM, FromCol COL_BPM)].

(* pandas frame -> Quaver's frame of YAML cells: field names; `column` is an integer column, the rest float; the only list
   cell is the empty key-sound default *)
Definition qname (c : Z) : Z :=
  if (c =? COL_OFFSET)%Z then Qua.N_offset else if (c =? COL_COLUMN)%Z then Qua.N_column
  else if (c =? COL_LENGTH)%Z then Qua.N_length else if (c =? COL_BPM)%Z then Qua.N_bpm
  else if (c =? COL_METRONOME)%Z then Qua.N_metronome else if (c =? COL_KEYSOUNDS)%Z then Qua.N_keysounds else c.
Definition qcell (c : Z) (v : cell) : Qua.ytree :=
  match v with
  | CNum q => if (c =? COL_COLUMN)%Z then Qua.YInt (Qfloor q) else Qua.YFloat q
  | CList _ => Qua.YList []
  | _ => Qua.YNaN
  end.
Definition qrow (cols : list Z) (r : Frame.row) : Qua.row := map (fun cv => (qname (fst cv), qcell (fst cv) (snd cv))) (combine cols r).
Definition qframe (f : Frame.frame) : Qua.frame := Qua.mkFrame (map qname (fcols f)) (map (qrow (fcols f)) (abs_rows f)).

(* O2JToQua.convert on one difficulty: three casts, an empty SV list, the metadata the converter sets *)
Definition o2j_to_qua (meta : list Qua.ytree) (m : omap) : option Qua.chart :=
  match cast (fr_hits (om_hits m)) QHIT_DECL QHIT_DFLT MAP_HIT, cast (fr_holds (om_holds m)) QHOLD_DECL QHOLD_DFLT MAP_HOLD,
        cast (fr_bpms (om_bpms m)) QBPM_DECL QBPM_DFLT MAP_BPM with
  | Some h, Some l, Some b =>
      Some (Qua.mkChart (qframe h) (qframe l) (qframe b) (Qua.mkFrame [Qua.N_offset; Qua.N_multiplier] []) meta)
  | _, _, _ => None
  end.

(* ---- cast, computed on lists of records ---- *)
Lemma repeat_as_map {A B} (d : B) (l : list A) : repeat d (length l) = map (fun _ => d) l.
Proof. induction l; cbn; congruence. Qed.
Lemma set_col_rows_map {A} i (f : A -> cell) (g : A -> Frame.row) l : forall k,
  set_col_rows i (map f l) (relabel k (map g l)) = relabel k (map (fun a => set_nth i (f a) (g a)) l).
Proof. induction l as [|a l IH]; intro k; cbn; [reflexivity|]. rewrite IH. reflexivity. Qed.
Lemma relabel_len k (l : list Frame.row) : length (relabel k l) = length l.
Proof. revert k. induction l; intro k; cbn; auto. Qed.

Lemma col_vals_map {A} cols (lab : A -> Z) (g : A -> Frame.row) l c i : col_index c cols = Some i ->
  col_vals (Frame.mkFrame cols (map (fun a => (lab a, g a)) l)) c = Some (map (fun a => nth i (g a) CNaN) l).
Proof.
  intro H. unfold col_vals, abs_rows. cbn [fcols frows]. rewrite H. rewrite !map_map. reflexivity.
Qed.
Lemma set_col_map {A} k i (f : A -> cell) (g : A -> Frame.row) cols l : col_index k cols = Some i ->
  set_col k (map f l) (Frame.mkFrame cols (relabel 0 (map g l)))
  = Some (Frame.mkFrame cols (relabel 0 (map (fun a => set_nth i (f a) (g a)) l))).
Proof.
  intro H. unfold set_col, nrows. cbn [fcols frows]. rewrite H, relabel_len, !map_length, Nat.eqb_refl.
  rewrite set_col_rows_map. reflexivity.
Qed.
Lemma empty_frame_map {A} declared defaults (l : list A) :
  empty_frame declared defaults (length l) = Frame.mkFrame declared (relabel 0 (map (fun _ => defaults) l)).
Proof. unfold empty_frame. rewrite repeat_as_map. reflexivity. Qed.

Lemma cast_hits hs :
  cast (fr_hits hs) QHIT_DECL QHIT_DFLT MAP_HIT
  = Some (Frame.mkFrame QHIT_DECL (relabel 0 (map (fun h => [CNum (h_off h); CNum (inject_Z (h_col h)); CList []]) hs))).
Proof.
  unfold cast, fr_hits, nrows. cbn [frows]. rewrite map_length, empty_frame_map.
  unfold MAP_HIT. cbn [apply_mapping].
  rewrite (col_vals_map _ _ _ _ COL_OFFSET 0%nat) by reflexivity. rewrite (set_col_map COL_OFFSET 0%nat) by reflexivity.
  rewrite (col_vals_map _ _ _ _ COL_COLUMN 1%nat) by reflexivity. rewrite (set_col_map COL_COLUMN 1%nat) by reflexivity.
  reflexivity.
Qed.
Lemma cast_holds ls :
  cast (fr_holds ls) QHOLD_DECL QHOLD_DFLT MAP_HOLD
  = Some (Frame.mkFrame QHOLD_DECL
            (relabel 0 (map (fun h => [CNum (l_off h); CNum (inject_Z (l_col h)); CNum (l_len h); CList []]) ls))).
Proof.
  unfold cast, fr_holds, nrows. cbn [frows]. rewrite map_length, empty_frame_map.
  unfold MAP_HOLD. cbn [apply_mapping].
  rewrite (col_vals_map _ _ _ _ COL_OFFSET 0%nat) by reflexivity. rewrite (set_col_map COL_OFFSET 0%nat) by reflexivity.
  rewrite (col_vals_map _ _ _ _ COL_COLUMN 1%nat) by reflexivity. rewrite (set_col_map COL_COLUMN 1%nat) by reflexivity.
  rewrite (col_vals_map _ _ _ _ COL_LENGTH 2%nat) by reflexivity. rewrite (set_col_map COL_LENGTH 2%nat) by reflexivity.
  reflexivity.
Qed.
Lemma cast_bpms bs :
  cast (fr_bpms bs) QBPM_DECL QBPM_DFLT MAP_BPM
  = Some (Frame.mkFrame QBPM_DECL (relabel 0 (map (fun b => [CNum (b_off b); CNum (b_bpm b); CNum 4]) bs))).
Proof.
  unfold cast, fr_bpms, nrows. cbn [frows]. rewrite map_length, empty_frame_map.
  unfold MAP_BPM. cbn [apply_mapping].
  rewrite (col_vals_map _ _ _ _ COL_OFFSET 0%nat) by reflexivity. rewrite (set_col_map COL_OFFSET 0%nat) by reflexivity.
  rewrite (col_vals_map _ _ _ _ COL_BPM 1%nat) by reflexivity. rewrite (set_col_map COL_BPM 1%nat) by reflexivity.
  reflexivity.
Qed.

(* ---- the converted chart, explicitly ---- *)
Import Qua QuaSpec.
Definition q_hit_row (h : hitrow) : Qua.row :=
  [(N_offset, YFloat (h_off h)); (N_column, YInt (h_col h)); (N_keysounds, YList [])].
Definition q_hold_row (h : holdrow) : Qua.row :=
  [(N_offset, YFloat (l_off h)); (N_column, YInt (l_col h)); (N_length, YFloat (l_len h)); (N_keysounds, YList [])].
Definition q_bpm_row (b : bpmrow) : Qua.row :=
  [(N_offset, YFloat (b_off b)); (N_bpm, YFloat (b_bpm b)); (N_metronome, YFloat 4)].
Definition q_chart (meta : list ytree) (m : O2J.omap) : Qua.chart :=
  Qua.mkChart (Qua.mkFrame [N_offset; N_column; N_keysounds] (map q_hit_row (om_hits m)))
              (Qua.mkFrame [N_offset; N_column; N_length; N_keysounds] (map q_hold_row (om_holds m)))
              (Qua.mkFrame [N_offset; N_bpm; N_metronome] (map q_bpm_row (om_bpms m)))
              (Qua.mkFrame [N_offset; N_multiplier] []) meta.

Lemma o2j_to_qua_explicit meta m : o2j_to_qua meta m = Some (q_chart meta m).
Proof.
  unfold o2j_to_qua. rewrite cast_hits, cast_holds, cast_bpms. unfold q_chart, qframe, abs_rows. cbn [fcols frows].
  rewrite !relabel_snd, !map_map. f_equal. f_equal.
  - f_equal. apply map_ext. intro h. unfold qrow, q_hit_row. cbn. rewrite ?Z.div_1_r. reflexivity.
  - f_equal. apply map_ext. intro h. unfold qrow, q_hold_row. cbn. rewrite ?Z.div_1_r. reflexivity.
Qed.

(* ---- the converted chart is in the strict domain of the Quaver writer: this is the step "the reader's output satisfies
        the writer's wf" of the composition ---- *)
Lemma forallb_map_Forall {A B} (p : B -> bool) (g : A -> B) l : Forall (fun a => p (g a) = true) l -> forallb p (map g l) = true.
Proof. induction 1; cbn; auto. rewrite H, IHForall. reflexivity. Qed.

Lemma q_chart_wf meta m :
  Forall (fun h => (0 <= h_col h)%Z) (om_hits m) -> Forall (fun h => (0 <= l_col h)%Z) (om_holds m) ->
  meta_okb false meta = true -> wf_chartb false (q_chart meta m) = true.
Proof.
  intros Hh Hl Hm. unfold wf_chartb, q_chart. cbn [c_hits c_holds c_bpms c_svs c_meta]. rewrite Hm.
  assert (A1: frame_okb (hit_decl false) false (Qua.mkFrame [N_offset; N_column; N_keysounds] (map q_hit_row (om_hits m))) = true).
  { unfold frame_okb. cbn [f_cols f_rows]. apply andb_true_iff. split; [reflexivity|].
    apply forallb_map_Forall. eapply Forall_impl; [|exact Hh]. intros h Hc. cbv beta in Hc. cbn.
    unfold cell_col, lane_of. apply andb_true_iff. split; [|reflexivity]. apply Z.leb_le. lia. }
  assert (A2: frame_okb (hold_decl false) false (Qua.mkFrame [N_offset; N_column; N_length; N_keysounds] (map q_hold_row (om_holds m))) = true).
  { unfold frame_okb. cbn [f_cols f_rows]. apply andb_true_iff. split; [reflexivity|].
    apply forallb_map_Forall. eapply Forall_impl; [|exact Hl]. intros h Hc. cbv beta in Hc. cbn.
    unfold cell_col, lane_of. apply andb_true_iff. split; [|reflexivity]. apply Z.leb_le. lia. }
  assert (A3: frame_okb bpm_decl false (Qua.mkFrame [N_offset; N_bpm; N_metronome] (map q_bpm_row (om_bpms m))) = true).
  { unfold frame_okb. cbn [f_cols f_rows]. apply andb_true_iff. split; [reflexivity|].
    apply forallb_map_Forall. apply Forall_forall. intros b _. reflexivity. }
  rewrite A1, A2, A3. reflexivity.
Qed.

(* ---- what the converted chart denotes ---- *)
Definition d_hit (h : hitrow) : noteD := QuaSpec.mkNote (h_col h + 1) (h_off h) None [].
Definition d_hold (h : holdrow) : noteD := QuaSpec.mkNote (l_col h + 1) (l_off h) (Some (Qred (l_off h + l_len h))) [].
Definition d_bpm (b : bpmrow) : Q * Q := (b_off b, b_bpm b).

Lemma omap_map {A B C} (f : B -> option C) (g : A -> B) (h : A -> C) l : (forall a, f (g a) = Some (h a)) ->
  Qua.omap f (map g l) = Some (map h l).
Proof. intro H. induction l as [|a l IH]; cbn; [reflexivity|]. rewrite H, IH. reflexivity. Qed.

Lemma q_chart_denote meta m : length meta = length ref_meta_table ->
  chart_denote (q_chart meta m)
  = Some (mkDen (map d_hit (om_hits m) ++ map d_hold (om_holds m)) (map d_bpm (om_bpms m)) [] (map Some meta)).
Proof.
  intro Hlen. unfold chart_denote, q_chart. cbn [c_hits c_holds c_bpms c_svs c_meta f_rows].
  rewrite (omap_map hit_row_denote q_hit_row d_hit) by (intro; reflexivity).
  rewrite (omap_map hold_row_denote q_hold_row d_hold) by (intro; reflexivity).
  rewrite (omap_map (point_row_denote N_bpm) q_bpm_row d_bpm) by (intro; reflexivity).
  cbn [Qua.omap]. rewrite Hlen, Nat.eqb_refl. reflexivity.
Qed.

Lemma ms_rel_of_Forall2 {A} (R : A -> A -> Prop) a b : Forall2 R a b -> ms_rel R a b.
Proof. intro F. exists b. split; [apply Permutation_refl | exact F]. Qed.
Lemma Forall2_map_same {A B} (R : B -> B -> Prop) (f g : A -> B) l : (forall a, R (f a) (g a)) -> Forall2 R (map f l) (map g l).
Proof. intro H. induction l; cbn; constructor; auto. Qed.

(* the timeline of that denotation is the timeline of the O2Jam difficulty *)
Lemma tn_d_hit h : tn_of_qua (d_hit h) = mkTN false (h_col h + 1 - 1) (h_off h) 0.
Proof. reflexivity. Qed.
Lemma tn_d_hold h : tn_of_qua (d_hold h) = mkTN true (l_col h + 1 - 1) (l_off h) (Qred (l_off h + l_len h) - l_off h).
Proof. reflexivity. Qed.
Lemma q_chart_timeline meta m :
  timeline_close 0 0 (tl_of_qua (mkDen (map d_hit (om_hits m) ++ map d_hold (om_holds m)) (map d_bpm (om_bpms m)) [] meta))
                     (tl_of_omap m).
Proof.
  unfold tl_of_qua, tl_of_omap. cbn [QuaSpec.d_notes QuaSpec.d_bpms]. split; cbn [tl_notes tl_tempo].
  - rewrite map_app, !map_map. apply ms_rel_app; apply ms_rel_of_Forall2; apply Forall2_map_same; intro h.
    + rewrite tn_d_hit. unfold Timeline.note_close, tn_end; cbn [tn_hold tn_col tn_time tn_len].
      repeat split; try lia; apply Qabs_zero_le; try lra; ring.
    + rewrite tn_d_hold. unfold Timeline.note_close, tn_end; cbn [tn_hold tn_col tn_time tn_len].
      repeat split; try lia; apply Qabs_zero_le; try lra; try ring. rewrite Qred_correct. ring.
  - apply ms_rel_of_Forall2. apply Forall2_map_same. intro b. unfold d_bpm. split; cbn [fst snd];
      apply Qabs_zero_le; try lra; ring.
Qed.

(* ---- the columns of a denoted O2Jam difficulty are the seven lanes ---- *)
Lemma pair_col_cols time c evs : forall open,
  Forall (fun h => h_col h = c) (fst (O2JSpec.pair_col time c evs open))
  /\ Forall (fun h => l_col h = c) (snd (O2JSpec.pair_col time c evs open)).
Proof.
  induction evs as [|[[[p vol] pan] kind] r IH]; intro open; cbn [O2JSpec.pair_col]; [split; constructor|].
  destruct (kind =? O2JSpec.ref_kind_tap)%Z.
  { specialize (IH open). destruct (O2JSpec.pair_col time c r open) as [hs ls]. cbn in *. destruct IH. split; [constructor; auto | auto]. }
  destruct (kind =? O2JSpec.ref_kind_head)%Z; [apply IH|].
  destruct (kind =? O2JSpec.ref_kind_tail)%Z; [|apply IH].
  destruct open as [[[hp hvol] hpan]|]; [|apply IH].
  specialize (IH None). destruct (O2JSpec.pair_col time c r None) as [hs ls]. cbn in *. destruct IH. split; [auto | constructor; auto].
Qed.

Lemma denote_level_cols init pkgs md : O2JSpec.denote_level init pkgs = Some md ->
  Forall (fun h => (0 <= h_col h)%Z) (om_hits md) /\ Forall (fun h => (0 <= l_col h)%Z) (om_holds md).
Proof.
  unfold O2JSpec.denote_level. destruct (all_some (map O2JSpec.pkg_tempos pkgs)) as [ts|]; [|discriminate].
  intro H. injection H as <-. cbn [om_hits om_holds O2JSpec.columns map flat_map].
  split; repeat (apply Forall_app; split); try apply Forall_nil.
  all: first [ eapply Forall_impl; [|exact (proj1 (pair_col_cols _ _ _ None))]; cbv beta; intros h E; rewrite E; lia
             | eapply Forall_impl; [|exact (proj2 (pair_col_cols _ _ _ None))]; cbv beta; intros h E; rewrite E; lia ].
Qed.

Lemma all_some_nth {A B} (f : A -> option B) l r k y : all_some (map f l) = Some r -> nth_error r k = Some y ->
  exists x, nth_error l k = Some x /\ f x = Some y.
Proof.
  revert r k. induction l as [|a l IH]; intros r k H N; cbn in H.
  - inversion H; subst. destruct k; discriminate.
  - destruct (f a) as [b|] eqn:E; [|discriminate]. destruct (all_some (map f l)) as [r'|] eqn:E'; [|discriminate].
    inversion H; subst. destruct k; cbn in N.
    + inversion N; subst. exists a. split; [reflexivity | exact E].
    + apply (IH _ _ eq_refl N).
Qed.

Lemma ojn_denote_cols f d k md : O2JSpec.ojn_denote f = Some d -> nth_error (os_maps d) k = Some md ->
  Forall (fun h => (0 <= h_col h)%Z) (om_hits md) /\ Forall (fun h => (0 <= l_col h)%Z) (om_holds md).
Proof.
  unfold O2JSpec.ojn_denote. destruct (O2JSpec.denote_hdr _ _) as [h|]; [|discriminate].
  destruct (all_some (map (O2JSpec.denote_level (oh_bpm h)) (O2JSpec.f_levels f))) as [ms|] eqn:E; [|discriminate].
  intro H. inversion H; subst; clear H. cbn [os_maps]. intro N.
  destruct (all_some_nth _ _ _ _ _ E N) as [pk [_ Hd]]. eapply denote_level_cols; exact Hd.
Qed.

Lemma Forall2_nth {A B} (R : A -> B -> Prop) a b k x y : Forall2 R a b -> nth_error a k = Some x -> nth_error b k = Some y -> R x y.
Proof.
  intro F. revert k. induction F; intros k N1 N2; destruct k; cbn in *; try discriminate.
  - inversion N1; inversion N2; subst; assumption.
  - eapply IHF; eassumption.
Qed.
Lemma Forall2_len {A B} (R : A -> B -> Prop) a b : Forall2 R a b -> length a = length b.
Proof. induction 1; cbn; congruence. Qed.
Lemma Forall_perm {A} (P : A -> Prop) a b : Permutation a b -> Forall P b -> Forall P a.
Proof. intros Pm F. rewrite Forall_forall in *. intros x Hx. apply F. eapply Permutation_in; eassumption. Qed.

(* ================= THE END-TO-END THEOREM for O2Jam -> Quaver =================
   for every well-formed OJN file (any trailing bytes) and every difficulty k: the reader model returns a chart, the
   converter (three casts + metadata of the declared types) turns it into a chart the Quaver writer accepts, and the
   written document is well-formed, declares every metadata key, and denotes - by the format semantics of Quaver -
   exactly the notes (kind, column), and tempo points the OJN file denotes - by the format semantics of O2Jam -, every
   start and end and every tempo point within 1 ms (Quaver stores whole milliseconds), every bpm equal. *)
Theorem o2j_to_qua_pipeline : Tables.c07.layout = O2JSpec.ref_layout ->
  forall f trail meta, O2JSpec.wf_file f = true -> meta_okb false meta = true ->
  exists o d, read_fixed (O2JSpec.encode_file f ++ trail) = Some o /\ O2JSpec.ojn_denote f = Some d
    /\ length (os_maps o) = length (os_maps d)
    /\ forall k mo md, nth_error (os_maps o) k = Some mo -> nth_error (os_maps d) k = Some md ->
       exists c doc e, o2j_to_qua meta mo = Some c /\ Live.write c = Some doc
         /\ wf_qua_docb doc = true /\ qua_denote doc = Some e /\ all_declared (QuaSpec.d_meta e) = true
         /\ timeline_close 1 0 (tl_of_qua e) (tl_of_omap md).
Proof.
  intros L f trail meta Hwf Hmeta.
  destruct (ojn_read_fixed_denotes L f trail Hwf) as [o [d [Hr [Hd [_ Hm]]]]].
  exists o, d. split; [exact Hr|]. split; [exact Hd|]. split; [eapply Forall2_len; exact Hm|].
  intros k mo md No Nd.
  destruct (Forall2_nth _ _ _ _ _ _ Hm No Nd) as [Ph [Pl Eb]].
  destruct (ojn_denote_cols _ _ _ _ Hd Nd) as [Ch Cl].
  assert (Wf: wf_chartb false (q_chart meta mo) = true).
  { apply q_chart_wf; [eapply Forall_perm; eassumption | eapply Forall_perm; eassumption | exact Hmeta]. }
  destruct (qua_write_wf_denotes _ Wf) as [doc [e [a [Hw [Hwd [He [Ha [Hc Hall]]]]]]]].
  exists (q_chart meta mo), doc, e. split; [apply o2j_to_qua_explicit|]. split; [exact Hw|]. split; [exact Hwd|].
  split; [exact He|]. split; [exact Hall|].
  assert (Hlen: length meta = length ref_meta_table).
  { unfold meta_okb in Hmeta. symmetry. eapply all2_length. exact Hmeta. }
  rewrite (q_chart_denote meta mo Hlen) in Ha. inversion Ha; subst a; clear Ha.
  pose proof (tl_of_qua_close _ _ Hc) as T1.
  pose proof (q_chart_timeline (map Some meta) mo) as T2.
  pose proof (tl_of_omap_equiv _ _ Ph Pl Eb) as T3.
  pose proof (timeline_close_trans _ _ _ _ _ _ _ T1 (timeline_close_trans _ _ _ _ _ _ _ T2 T3)) as T.
  eapply timeline_close_weaken; [| |exact T]; lra.
Qed.

(* ---- the halves that are proved, in the form the composition uses ---- *)
(* Quaver reader (C06 qua_read_denotes): the chart read denotes the document's timeline exactly *)
Theorem qua_reader_half doc : wf_docb doc = true ->
  exists c e a, Live.read doc = Some c /\ qua_denote doc = Some e /\ chart_denote c = Some a
                /\ timeline_close 0 0 (tl_of_qua a) (tl_of_qua e).
Proof.
  intro H. destruct (qua_read_denotes doc H) as [c [e [a [Hr [He [Ha Heq]]]]]].
  exists c, e, a. split; [exact Hr|]. split; [exact He|]. split; [exact Ha|].
  apply timeline_close_sym. apply tl_of_qua_eq. exact Heq.
Qed.
(* Quaver writer (C06 qua_write_wf_denotes): well-formed document within 1 ms of the chart *)
Theorem qua_writer_half c : wf_chartb false c = true ->
  exists doc e a, Live.write c = Some doc /\ wf_qua_docb doc = true /\ qua_denote doc = Some e /\ chart_denote c = Some a
                  /\ timeline_close 1 0 (tl_of_qua e) (tl_of_qua a).
Proof.
  intro H. destruct (qua_write_wf_denotes c H) as [doc [e [a [Hw [Hwf [He [Ha [Hc _]]]]]]]].
  exists doc, e, a. split; [exact Hw|]. split; [exact Hwf|]. split; [exact He|]. split; [exact Ha|].
  apply tl_of_qua_close. exact Hc.
Qed.
(* O2Jam reader (C07 ojn_read_fixed_denotes), per difficulty *)
Theorem o2j_reader_half : Tables.c07.layout = O2JSpec.ref_layout -> forall f trail, O2JSpec.wf_file f = true ->
  exists o d, read_fixed (O2JSpec.encode_file f ++ trail) = Some o /\ O2JSpec.ojn_denote f = Some d
    /\ forall k mo md, nth_error (os_maps o) k = Some mo -> nth_error (os_maps d) k = Some md ->
        timeline_close 0 0 (tl_of_omap mo) (tl_of_omap md)
        /\ Forall (fun n => (0 <= tn_col n < 7)%Z) (tl_notes (tl_of_omap md)).
Proof.
  intros L f trail Hwf. destruct (ojn_read_fixed_denotes L f trail Hwf) as [o [d [Hr [Hd [_ Hm]]]]].
  exists o, d. split; [exact Hr|]. split; [exact Hd|]. intros k mo md No Nd.
  destruct (Forall2_nth _ _ _ _ _ _ Hm No Nd) as [Ph [Pl Eb]]. split; [apply tl_of_omap_equiv; assumption|].
  clear - Hd Nd. revert Hd Nd. unfold O2JSpec.ojn_denote. destruct (O2JSpec.denote_hdr _ _) as [h|]; [|discriminate].
  destruct (all_some (map (O2JSpec.denote_level (oh_bpm h)) (O2JSpec.f_levels f))) as [ms|] eqn:E; [|discriminate].
  intro H. inversion H; subst; clear H. cbn [os_maps]. intro N.
  destruct (all_some_nth _ _ _ _ _ E N) as [pk [_ Hdl]]. revert Hdl.
  unfold O2JSpec.denote_level. destruct (all_some (map O2JSpec.pkg_tempos pk)) as [ts|]; [|discriminate].
  intro H. injection H as <-. unfold tl_of_omap. cbn [tl_notes om_hits om_holds O2JSpec.columns map flat_map].
  apply Forall_app. split; apply Forall_map; repeat (apply Forall_app; split); try apply Forall_nil.
  all: first [ eapply Forall_impl; [|exact (proj1 (pair_col_cols _ _ _ None))]; cbv beta; intros x Ex; cbn [tn_col]; rewrite Ex; lia
             | eapply Forall_impl; [|exact (proj2 (pair_col_cols _ _ _ None))]; cbv beta; intros x Ex; cbn [tn_col]; rewrite Ex; lia ].
Qed.

(* the generic composition: reader within (r1, e1) of the source denotation, converter carrying the timeline (up to the
   documented column shift), writer within (r2, e2) of the chart: the written file is within (r1 + r2, e1 + e2) of the source *)
Theorem pipeline_compose r1 e1 r2 e2 s src chart_a chart_b tgt :
  timeline_close r1 e1 chart_a src -> timeline_close 0 0 chart_b (tl_shift s chart_a) -> timeline_close r2 e2 tgt chart_b ->
  timeline_close (r1 + r2) (e1 + e2) tgt (tl_shift s src).
Proof.
  intros A B C. pose proof (timeline_close_shift _ _ s _ _ A) as A'.
  pose proof (timeline_close_trans _ _ _ _ _ _ _ C (timeline_close_trans _ _ _ _ _ _ _ B A')) as T.
  eapply timeline_close_weaken; [| |exact T]; lra.
Qed.

(* ================================================================== Part 4: witnesses of the defects found (real files) *)
(* Each witness is a source file (corpus/C09/*.json) with two written files, judged by the runner's oracle:
   _OLD     the file the tree BEFORE the repair wrote (cdbdcdf for the two offsets, 24f5d51 for CircleSize), kept verbatim;
   _current the file the repaired tree writes for the same source. *)
From RV Require Import Corr.RunC09.
Definition w_osu_sm_offset_OLD : c09case := (C09 true (1#1000000) 4 0 0%nat (SOsu [[L[111;115;117;32;102;105;108;101;32;102;111;114;109;97;116;32;118;49;52]];[];[L[91;71;101;110;101;114;97;108;93]];[L[65;117;100;105;111;70;105;108;101;110;97;109;101;58;32;97;117;100;105;111;46;109;112;51]];[L[80;114;101;118;105;101;119;84;105;109;101;58;32;49;50;51;52;53]];[L[77;111;100;101;58;32;51]];[L[91;77;101;116;97;100;97;116;97;93]];[L[84;105;116;108;101;58;65;108;112;104;97]];[L[84;105;116;108;101;85;110;105;99;111;100;101;58;67;97;109;101;108;108;105;97;32;102;101;97;116;32;78;97;110;97;104;105;114;97]];[L[65;114;116;105;115;116;58;65;108;112;104;97]];[L[67;114;101;97;116;111;114;58;109;97;112;112;101;114;95;48;49]];[L[86;101;114;115;105;111;110;58;109;97;112;112;101;114;95;48;49]];[L[91;68;105;102;102;105;99;117;108;116;121;93]];[L[67;105;114;99;108;101;83;105;122;101;58;52]];[L[79;118;101;114;97;108;108;68;105;102;102;105;99;117;108;116;121;58;56]];[L[91;69;118;101;110;116;115;93]];[L[47;47;66;97;99;107;103;114;111;117;110;100;32;97;110;100;32;86;105;100;101;111;32;101;118;101;110;116;115]];[L[48;44;48;44;34;98;32;103;46;106;112;103;34;44;48;44;48]];[L[91;84;105;109;105;110;103;80;111;105;110;116;115;93]];[L[53;48;48;44;53;48;48;44;52;44;48;44;48;44;56;51;44;49;44;48]];[L[91;72;105;116;79;98;106;101;99;116;115;93]];[L[52;52;56;44;49;57;50;44;53;48;48;44;49;44;48;44;48;58;48;58;48;58;48;58]];[L[54;52;44;49;57;50;44;49;48;48;48;44;49;50;56;44;48;44;50;48;48;48;58;48;58;48;58;48;58;48;58]];[L[52;52;56;44;49;57;50;44;50;53;48;48;44;49;44;48;44;48;58;48;58;48;58;48;58]]] [0;1;2;3;4;5;1;6;7;8;9;10;11;1;12;13;14;1;15;16;17;1;18;19;1;1;20;21;22;23]) FSM 0%nat (Some (TSM [[L[35;84;73;84;76;69;58;65;108;112;104;97;59]];[L[35;83;85;66;84;73;84;76;69;58;59]];[L[35;65;82;84;73;83;84;58;65;108;112;104;97;59]];[L[35;84;73;84;76;69;84;82;65;78;83;76;73;84;58;67;97;109;101;108;108;105;97;32;102;101;97;116;32;78;97;110;97;104;105;114;97;59]];[L[35;83;85;66;84;73;84;76;69;84;82;65;78;83;76;73;84;58;59]];[L[35;65;82;84;73;83;84;84;82;65;78;83;76;73;84;58;59]];[L[35;71;69;78;82;69;58;59]];[L[35;67;82;69;68;73;84;58;109;97;112;112;101;114;95;48;49;59]];[L[35;66;65;78;78;69;82;58;59]];[L[35;66;65;67;75;71;82;79;85;78;68;58;98;32;103;46;106;112;103;59]];[L[35;76;89;82;73;67;83;80;65;84;72;58;59]];[L[35;67;68;84;73;84;76;69;58;59]];[L[35;77;85;83;73;67;58;97;117;100;105;111;46;109;112;51;59]];[L[35;79;70;70;83;69;84;58;45;48;46;48;59]];[L[35;66;80;77;83;58;48;46;48;61;49;50;48;46;48;59]];[L[35;83;84;79;80;83;58;59]];[L[35;83;65;77;80;76;69;83;84;65;82;84;58;49;50;46;51;52;53;59]];[L[35;83;65;77;80;76;69;76;69;78;71;84;72;58;48;46;48;49;59]];[L[35;68;73;83;80;76;65;89;66;80;77;58;59]];[L[35;83;69;76;69;67;84;65;66;76;69;58;89;69;83;59]];[L[35;66;71;67;72;65;78;71;69;83;58;59]];[L[35;70;71;67;72;65;78;71;69;83;58;59]];[L[47;47;45;45;45;45;45;45;100;97;110;99;101;45;115;105;110;103;108;101;91;49;32;69;97;115;121;93;45;45;45;45;45;45]];[L[35;78;79;84;69;83;58]];[L[32;32;32;32;32;100;97;110;99;101;45;115;105;110;103;108;101;58]];[L[32;32;32;32;32;109;97;112;112;101;114;95;48;49;58]];[L[32;32;32;32;32;69;97;115;121;58]];[L[32;32;32;32;32;49;58]];[L[32;32;32;32;32;48;46;48;44;48;46;48;44;48;46;48;44;48;46;48;44;48;46;48;58]];[L[48;48;48;49]];[L[50;48;48;48]];[L[48;48;48;48]];[L[51;48;48;48]];[L[44]];[L[59]];[]] [0;1;2;3;4;5;6;7;8;9;10;11;12;13;14;15;16;17;18;19;20;21;22;23;24;25;26;27;28;29;30;31;32;33;29;31;31;31;34;35;35])))%Z.
Definition w_osu_sm_offset_current : c09case := (C09 true (1#1000000) 4 0 0%nat (SOsu [[L[111;115;117;32;102;105;108;101;32;102;111;114;109;97;116;32;118;49;52]];[];[L[91;71;101;110;101;114;97;108;93]];[L[65;117;100;105;111;70;105;108;101;110;97;109;101;58;32;97;117;100;105;111;46;109;112;51]];[L[80;114;101;118;105;101;119;84;105;109;101;58;32;49;50;51;52;53]];[L[77;111;100;101;58;32;51]];[L[91;77;101;116;97;100;97;116;97;93]];[L[84;105;116;108;101;58;65;108;112;104;97]];[L[84;105;116;108;101;85;110;105;99;111;100;101;58;67;97;109;101;108;108;105;97;32;102;101;97;116;32;78;97;110;97;104;105;114;97]];[L[65;114;116;105;115;116;58;65;108;112;104;97]];[L[67;114;101;97;116;111;114;58;109;97;112;112;101;114;95;48;49]];[L[86;101;114;115;105;111;110;58;109;97;112;112;101;114;95;48;49]];[L[91;68;105;102;102;105;99;117;108;116;121;93]];[L[67;105;114;99;108;101;83;105;122;101;58;52]];[L[79;118;101;114;97;108;108;68;105;102;102;105;99;117;108;116;121;58;56]];[L[91;69;118;101;110;116;115;93]];[L[47;47;66;97;99;107;103;114;111;117;110;100;32;97;110;100;32;86;105;100;101;111;32;101;118;101;110;116;115]];[L[48;44;48;44;34;98;32;103;46;106;112;103;34;44;48;44;48]];[L[91;84;105;109;105;110;103;80;111;105;110;116;115;93]];[L[53;48;48;44;53;48;48;44;52;44;48;44;48;44;56;51;44;49;44;48]];[L[91;72;105;116;79;98;106;101;99;116;115;93]];[L[52;52;56;44;49;57;50;44;53;48;48;44;49;44;48;44;48;58;48;58;48;58;48;58]];[L[54;52;44;49;57;50;44;49;48;48;48;44;49;50;56;44;48;44;50;48;48;48;58;48;58;48;58;48;58;48;58]];[L[52;52;56;44;49;57;50;44;50;53;48;48;44;49;44;48;44;48;58;48;58;48;58;48;58]]] [0;1;2;3;4;5;1;6;7;8;9;10;11;1;12;13;14;1;15;16;17;1;18;19;1;1;20;21;22;23]) FSM 0%nat (Some (TSM [[L[35;84;73;84;76;69;58;65;108;112;104;97;59]];[L[35;83;85;66;84;73;84;76;69;58;59]];[L[35;65;82;84;73;83;84;58;65;108;112;104;97;59]];[L[35;84;73;84;76;69;84;82;65;78;83;76;73;84;58;67;97;109;101;108;108;105;97;32;102;101;97;116;32;78;97;110;97;104;105;114;97;59]];[L[35;83;85;66;84;73;84;76;69;84;82;65;78;83;76;73;84;58;59]];[L[35;65;82;84;73;83;84;84;82;65;78;83;76;73;84;58;59]];[L[35;71;69;78;82;69;58;59]];[L[35;67;82;69;68;73;84;58;109;97;112;112;101;114;95;48;49;59]];[L[35;66;65;78;78;69;82;58;59]];[L[35;66;65;67;75;71;82;79;85;78;68;58;98;32;103;46;106;112;103;59]];[L[35;76;89;82;73;67;83;80;65;84;72;58;59]];[L[35;67;68;84;73;84;76;69;58;59]];[L[35;77;85;83;73;67;58;97;117;100;105;111;46;109;112;51;59]];[L[35;79;70;70;83;69;84;58;45;48;46;53;59]];[L[35;66;80;77;83;58;48;46;48;61;49;50;48;46;48;59]];[L[35;83;84;79;80;83;58;59]];[L[35;83;65;77;80;76;69;83;84;65;82;84;58;49;50;46;51;52;53;59]];[L[35;83;65;77;80;76;69;76;69;78;71;84;72;58;48;46;48;49;59]];[L[35;68;73;83;80;76;65;89;66;80;77;58;59]];[L[35;83;69;76;69;67;84;65;66;76;69;58;89;69;83;59]];[L[35;66;71;67;72;65;78;71;69;83;58;59]];[L[35;70;71;67;72;65;78;71;69;83;58;59]];[L[47;47;45;45;45;45;45;45;100;97;110;99;101;45;115;105;110;103;108;101;91;49;32;69;97;115;121;93;45;45;45;45;45;45]];[L[35;78;79;84;69;83;58]];[L[32;32;32;32;32;100;97;110;99;101;45;115;105;110;103;108;101;58]];[L[32;32;32;32;32;109;97;112;112;101;114;95;48;49;58]];[L[32;32;32;32;32;69;97;115;121;58]];[L[32;32;32;32;32;49;58]];[L[32;32;32;32;32;48;46;48;44;48;46;48;44;48;46;48;44;48;46;48;44;48;46;48;58]];[L[48;48;48;49]];[L[50;48;48;48]];[L[48;48;48;48]];[L[51;48;48;48]];[L[44]];[L[59]];[]] [0;1;2;3;4;5;6;7;8;9;10;11;12;13;14;15;16;17;18;19;20;21;22;23;24;25;26;27;28;29;30;31;32;33;29;31;31;31;34;35;35])))%Z.
Definition w_qua_sm_offset_OLD : c09case := (C09 true (1#1000000) 4 0 0%nat (SQua (ym [(101,(ys [97;117;100;105;111;46;109;112;51]));(111,(ys [75;101;121;115;52]));(112,(ys [31481]));(113,(ys [65;108;112;104;97]));(116,(ys [67;97;109;101;108;108;105;97;32;102;101;97;116;32;78;97;110;97;104;105;114;97]));(117,(ys [65;108;112;104;97]));(103,(ys []));(102,(yi 12345));(22,(yl [(ym [(1,(yi 500));(5,(yf (120#1)))])]));(23,(yl [(ym [(1,(yi 400));(6,(yf (3#2)))])]));(21,(yl [(ym [(1,(yi 500));(2,(yi 4));(4,(yl []))]);(ym [(1,(yi 1000));(2,(yi 1));(4,(yl []));(3,(yi 2000))]);(ym [(1,(yi 2500));(2,(yi 4));(4,(yl []))])]))])) FSM 0%nat (Some (TSM [[L[35;84;73;84;76;69;58;31481;59]];[L[35;83;85;66;84;73;84;76;69;58;59]];[L[35;65;82;84;73;83;84;58;65;108;112;104;97;59]];[L[35;84;73;84;76;69;84;82;65;78;83;76;73;84;58;31481;59]];[L[35;83;85;66;84;73;84;76;69;84;82;65;78;83;76;73;84;58;59]];[L[35;65;82;84;73;83;84;84;82;65;78;83;76;73;84;58;65;108;112;104;97;59]];[L[35;71;69;78;82;69;58;59]];[L[35;67;82;69;68;73;84;58;67;97;109;101;108;108;105;97;32;102;101;97;116;32;78;97;110;97;104;105;114;97;59]];[L[35;66;65;78;78;69;82;58;59]];[L[35;66;65;67;75;71;82;79;85;78;68;58;59]];[L[35;76;89;82;73;67;83;80;65;84;72;58;59]];[L[35;67;68;84;73;84;76;69;58;59]];[L[35;77;85;83;73;67;58;97;117;100;105;111;46;109;112;51;59]];[L[35;79;70;70;83;69;84;58;45;48;46;52;59]];[L[35;66;80;77;83;58;48;46;48;61;49;50;48;46;48;59]];[L[35;83;84;79;80;83;58;59]];[L[35;83;65;77;80;76;69;83;84;65;82;84;58;49;50;46;51;52;53;59]];[L[35;83;65;77;80;76;69;76;69;78;71;84;72;58;48;46;48;49;59]];[L[35;68;73;83;80;76;65;89;66;80;77;58;59]];[L[35;83;69;76;69;67;84;65;66;76;69;58;89;69;83;59]];[L[35;66;71;67;72;65;78;71;69;83;58;59]];[L[35;70;71;67;72;65;78;71;69;83;58;59]];[L[47;47;45;45;45;45;45;45;100;97;110;99;101;45;115;105;110;103;108;101;91;49;32;69;97;115;121;93;45;45;45;45;45;45]];[L[35;78;79;84;69;83;58]];[L[32;32;32;32;32;100;97;110;99;101;45;115;105;110;103;108;101;58]];[L[32;32;32;32;32;65;108;112;104;97;58]];[L[32;32;32;32;32;69;97;115;121;58]];[L[32;32;32;32;32;49;58]];[L[32;32;32;32;32;48;46;48;44;48;46;48;44;48;46;48;44;48;46;48;44;48;46;48;58]];[L[48;48;48;49]];[L[50;48;48;48]];[L[48;48;48;48]];[L[51;48;48;48]];[L[44]];[L[59]];[]] [0;1;2;3;4;5;6;7;8;9;10;11;12;13;14;15;16;17;18;19;20;21;22;23;24;25;26;27;28;29;30;31;32;33;29;31;31;31;34;35;35])))%Z.
Definition w_qua_sm_offset_current : c09case := (C09 true (1#1000000) 4 0 0%nat (SQua (ym [(101,(ys [97;117;100;105;111;46;109;112;51]));(111,(ys [75;101;121;115;52]));(112,(ys [31481]));(113,(ys [65;108;112;104;97]));(116,(ys [67;97;109;101;108;108;105;97;32;102;101;97;116;32;78;97;110;97;104;105;114;97]));(117,(ys [65;108;112;104;97]));(103,(ys []));(102,(yi 12345));(22,(yl [(ym [(1,(yi 500));(5,(yf (120#1)))])]));(23,(yl [(ym [(1,(yi 400));(6,(yf (3#2)))])]));(21,(yl [(ym [(1,(yi 500));(2,(yi 4));(4,(yl []))]);(ym [(1,(yi 1000));(2,(yi 1));(4,(yl []));(3,(yi 2000))]);(ym [(1,(yi 2500));(2,(yi 4));(4,(yl []))])]))])) FSM 0%nat (Some (TSM [[L[35;84;73;84;76;69;58;31481;59]];[L[35;83;85;66;84;73;84;76;69;58;59]];[L[35;65;82;84;73;83;84;58;65;108;112;104;97;59]];[L[35;84;73;84;76;69;84;82;65;78;83;76;73;84;58;31481;59]];[L[35;83;85;66;84;73;84;76;69;84;82;65;78;83;76;73;84;58;59]];[L[35;65;82;84;73;83;84;84;82;65;78;83;76;73;84;58;65;108;112;104;97;59]];[L[35;71;69;78;82;69;58;59]];[L[35;67;82;69;68;73;84;58;67;97;109;101;108;108;105;97;32;102;101;97;116;32;78;97;110;97;104;105;114;97;59]];[L[35;66;65;78;78;69;82;58;59]];[L[35;66;65;67;75;71;82;79;85;78;68;58;59]];[L[35;76;89;82;73;67;83;80;65;84;72;58;59]];[L[35;67;68;84;73;84;76;69;58;59]];[L[35;77;85;83;73;67;58;97;117;100;105;111;46;109;112;51;59]];[L[35;79;70;70;83;69;84;58;45;48;46;53;59]];[L[35;66;80;77;83;58;48;46;48;61;49;50;48;46;48;59]];[L[35;83;84;79;80;83;58;59]];[L[35;83;65;77;80;76;69;83;84;65;82;84;58;49;50;46;51;52;53;59]];[L[35;83;65;77;80;76;69;76;69;78;71;84;72;58;48;46;48;49;59]];[L[35;68;73;83;80;76;65;89;66;80;77;58;59]];[L[35;83;69;76;69;67;84;65;66;76;69;58;89;69;83;59]];[L[35;66;71;67;72;65;78;71;69;83;58;59]];[L[35;70;71;67;72;65;78;71;69;83;58;59]];[L[47;47;45;45;45;45;45;45;100;97;110;99;101;45;115;105;110;103;108;101;91;49;32;69;97;115;121;93;45;45;45;45;45;45]];[L[35;78;79;84;69;83;58]];[L[32;32;32;32;32;100;97;110;99;101;45;115;105;110;103;108;101;58]];[L[32;32;32;32;32;65;108;112;104;97;58]];[L[32;32;32;32;32;69;97;115;121;58]];[L[32;32;32;32;32;49;58]];[L[32;32;32;32;32;48;46;48;44;48;46;48;44;48;46;48;44;48;46;48;44;48;46;48;58]];[L[48;48;48;49]];[L[50;48;48;48]];[L[48;48;48;48]];[L[51;48;48;48]];[L[44]];[L[59]];[]] [0;1;2;3;4;5;6;7;8;9;10;11;12;13;14;15;16;17;18;19;20;21;22;23;24;25;26;27;28;29;30;31;32;33;29;31;31;31;34;35;35])))%Z.
Definition w_sm_osu_cs_OLD : c09case := (C09 true (1#1000000) 7 0 0%nat (SSM [[L[35;67;82;69;68;73;84;58;109;97;112;112;101;114;95;48;49;59]];[L[35;66;65;67;75;71;82;79;85;78;68;58;73;110;115;97;110;101;32;55;75;59]];[L[35;79;70;70;83;69;84;58;48;59]];[L[35;66;80;77;83;58;48;46;48;48;48;61;49;50;48;46;48;48;48;59]];[L[35;83;84;79;80;83;58;59]];[L[35;83;65;77;80;76;69;83;84;65;82;84;58;49;50;46;53;59]];[L[35;83;69;76;69;67;84;65;66;76;69;58;89;69;83;59]];[L[47;47];R 45 15;L[32;107;98;55;45;115;105;110;103;108;101;32;45;32];R 45 16];[L[35;78;79;84;69;83;58]];[L[32;32;32;32;32;107;98;55;45;115;105;110;103;108;101;58]];[L[32;32;32;32;32;100;101;115;99;58]];[L[32;32;32;32;32;67;104;97;108;108;101;110;103;101;58]];[L[32;32;32;32;32;49;58]];[L[32;32;32;32;32;48;46;53;44;48;46;53;44;48;46;53;44;48;46;53;44;48;46;53;58]];[L[48;48;48;48;48;48;49]];[L[50;48;48;48;48;48;48]];[L[48;48;48;48;48;48;48]];[L[51;48;48;48;48;48;48]];[L[44]];[L[59]];[]] [0;1;2;3;4;5;6;7;8;9;10;11;12;13;14;15;16;17;18;14;16;16;16;19;20]) FOsu 0%nat (Some (TOsu [[L[111;115;117;32;102;105;108;101;32;102;111;114;109;97;116;32;118;49;52]];[];[L[91;71;101;110;101;114;97;108;93]];[L[65;117;100;105;111;70;105;108;101;110;97;109;101;58;32]];[L[65;117;100;105;111;76;101;97;100;73;110;58;32;48]];[L[80;114;101;118;105;101;119;84;105;109;101;58;32;49;50;53;48;48]];[L[67;111;117;110;116;100;111;119;110;58;32;48]];[L[83;97;109;112;108;101;83;101;116;58;32;78;111;110;101]];[L[83;116;97;99;107;76;101;110;105;101;110;99;121;58;32;48;46;55]];[L[77;111;100;101;58;32;51]];[L[76;101;116;116;101;114;98;111;120;73;110;66;114;101;97;107;115;58;32;48]];[L[83;112;101;99;105;97;108;83;116;121;108;101;58;32;48]];[L[87;105;100;101;115;99;114;101;101;110;83;116;111;114;121;98;111;97;114;100;58;32;49]];[L[91;69;100;105;116;111;114;93]];[L[68;105;115;116;97;110;99;101;83;112;97;99;105;110;103;58;32;52]];[L[66;101;97;116;68;105;118;105;115;111;114;58;32;52]];[L[71;114;105;100;83;105;122;101;58;32;56]];[L[84;105;109;101;108;105;110;101;90;111;111;109;58;32;48;46;51]];[L[91;77;101;116;97;100;97;116;97;93]];[L[84;105;116;108;101;58]];[L[84;105;116;108;101;85;110;105;99;111;100;101;58]];[L[65;114;116;105;115;116;58]];[L[65;114;116;105;115;116;85;110;105;99;111;100;101;58]];[L[67;114;101;97;116;111;114;58;109;97;112;112;101;114;95;48;49]];[L[86;101;114;115;105;111;110;58;67;104;97;108;108;101;110;103;101;32;49]];[L[83;111;117;114;99;101;58]];[L[84;97;103;115;58]];[L[66;101;97;116;109;97;112;73;68;58;48]];[L[66;101;97;116;109;97;112;83;101;116;73;68;58;45;49]];[L[91;68;105;102;102;105;99;117;108;116;121;93]];[L[72;80;68;114;97;105;110;82;97;116;101;58;53]];[L[67;105;114;99;108;101;83;105;122;101;58;52]];[L[79;118;101;114;97;108;108;68;105;102;102;105;99;117;108;116;121;58;53]];[L[65;112;112;114;111;97;99;104;82;97;116;101;58;53]];[L[83;108;105;100;101;114;77;117;108;116;105;112;108;105;101;114;58;49;46;52]];[L[83;108;105;100;101;114;84;105;99;107;82;97;116;101;58;49]];[L[91;69;118;101;110;116;115;93]];[L[47;47;66;97;99;107;103;114;111;117;110;100;32;97;110;100;32;86;105;100;101;111;32;101;118;101;110;116;115]];[L[48;44;48;44;34;73;110;115;97;110;101;32;55;75;34;44;48;44;48]];[L[47;47;66;114;101;97;107;32;80;101;114;105;111;100;115]];[L[47;47;83;116;111;114;121;98;111;97;114;100;32;76;97;121;101;114;32;48;32;40;66;97;99;107;103;114;111;117;110;100;41]];[L[47;47;83;116;111;114;121;98;111;97;114;100;32;76;97;121;101;114;32;49;32;40;70;97;105;108;41]];[L[47;47;83;116;111;114;121;98;111;97;114;100;32;76;97;121;101;114;32;50;32;40;80;97;115;115;41]];[L[47;47;83;116;111;114;121;98;111;97;114;100;32;76;97;121;101;114;32;51;32;40;70;111;114;101;103;114;111;117;110;100;41]];[L[47;47;83;116;111;114;121;98;111;97;114;100;32;76;97;121;101;114;32;52;32;40;79;118;101;114;108;97;121;41]];[L[47;47;83;116;111;114;121;98;111;97;114;100;32;83;111;117;110;100;32;83;97;109;112;108;101;115]];[L[91;84;105;109;105;110;103;80;111;105;110;116;115;93]];[L[45;48;46;48;44;53;48;48;46;48;44;52;44;48;44;48;44;48;44;49;44;48]];[L[91;72;105;116;79;98;106;101;99;116;115;93]];[L[56;51;50;44;49;57;50;44;48;44;49;44;48;44;48;58;48;58;48;58;48;58]];[L[54;52;44;49;57;50;44;53;48;48;44;49;50;56;44;48;44;49;53;48;48;58;48;58;48;58;48;58;48;58]];[L[56;51;50;44;49;57;50;44;50;48;48;48;44;49;44;48;44;48;58;48;58;48;58;48;58]]] [0;1;2;3;4;5;6;7;8;9;10;11;12;1;13;14;15;16;17;1;18;19;20;21;22;23;24;25;26;27;28;1;29;30;31;32;33;34;35;1;36;37;38;39;40;41;42;43;44;45;1;46;47;1;1;48;49;50;51])))%Z.
Definition w_sm_osu_cs_current : c09case := (C09 true (1#1000000) 7 0 0%nat (SSM [[L[35;67;82;69;68;73;84;58;109;97;112;112;101;114;95;48;49;59]];[L[35;66;65;67;75;71;82;79;85;78;68;58;73;110;115;97;110;101;32;55;75;59]];[L[35;79;70;70;83;69;84;58;48;59]];[L[35;66;80;77;83;58;48;46;48;48;48;61;49;50;48;46;48;48;48;59]];[L[35;83;84;79;80;83;58;59]];[L[35;83;65;77;80;76;69;83;84;65;82;84;58;49;50;46;53;59]];[L[35;83;69;76;69;67;84;65;66;76;69;58;89;69;83;59]];[L[47;47];R 45 15;L[32;107;98;55;45;115;105;110;103;108;101;32;45;32];R 45 16];[L[35;78;79;84;69;83;58]];[L[32;32;32;32;32;107;98;55;45;115;105;110;103;108;101;58]];[L[32;32;32;32;32;100;101;115;99;58]];[L[32;32;32;32;32;67;104;97;108;108;101;110;103;101;58]];[L[32;32;32;32;32;49;58]];[L[32;32;32;32;32;48;46;53;44;48;46;53;44;48;46;53;44;48;46;53;44;48;46;53;58]];[L[48;48;48;48;48;48;49]];[L[50;48;48;48;48;48;48]];[L[48;48;48;48;48;48;48]];[L[51;48;48;48;48;48;48]];[L[44]];[L[59]];[]] [0;1;2;3;4;5;6;7;8;9;10;11;12;13;14;15;16;17;18;14;16;16;16;19;20]) FOsu 0%nat (Some (TOsu [[L[111;115;117;32;102;105;108;101;32;102;111;114;109;97;116;32;118;49;52]];[];[L[91;71;101;110;101;114;97;108;93]];[L[65;117;100;105;111;70;105;108;101;110;97;109;101;58;32]];[L[65;117;100;105;111;76;101;97;100;73;110;58;32;48]];[L[80;114;101;118;105;101;119;84;105;109;101;58;32;49;50;53;48;48]];[L[67;111;117;110;116;100;111;119;110;58;32;48]];[L[83;97;109;112;108;101;83;101;116;58;32;78;111;110;101]];[L[83;116;97;99;107;76;101;110;105;101;110;99;121;58;32;48;46;55]];[L[77;111;100;101;58;32;51]];[L[76;101;116;116;101;114;98;111;120;73;110;66;114;101;97;107;115;58;32;48]];[L[83;112;101;99;105;97;108;83;116;121;108;101;58;32;48]];[L[87;105;100;101;115;99;114;101;101;110;83;116;111;114;121;98;111;97;114;100;58;32;49]];[L[91;69;100;105;116;111;114;93]];[L[68;105;115;116;97;110;99;101;83;112;97;99;105;110;103;58;32;52]];[L[66;101;97;116;68;105;118;105;115;111;114;58;32;52]];[L[71;114;105;100;83;105;122;101;58;32;56]];[L[84;105;109;101;108;105;110;101;90;111;111;109;58;32;48;46;51]];[L[91;77;101;116;97;100;97;116;97;93]];[L[84;105;116;108;101;58]];[L[84;105;116;108;101;85;110;105;99;111;100;101;58]];[L[65;114;116;105;115;116;58]];[L[65;114;116;105;115;116;85;110;105;99;111;100;101;58]];[L[67;114;101;97;116;111;114;58;109;97;112;112;101;114;95;48;49]];[L[86;101;114;115;105;111;110;58;67;104;97;108;108;101;110;103;101;32;49]];[L[83;111;117;114;99;101;58]];[L[84;97;103;115;58]];[L[66;101;97;116;109;97;112;73;68;58;48]];[L[66;101;97;116;109;97;112;83;101;116;73;68;58;45;49]];[L[91;68;105;102;102;105;99;117;108;116;121;93]];[L[72;80;68;114;97;105;110;82;97;116;101;58;53]];[L[67;105;114;99;108;101;83;105;122;101;58;55]];[L[79;118;101;114;97;108;108;68;105;102;102;105;99;117;108;116;121;58;53]];[L[65;112;112;114;111;97;99;104;82;97;116;101;58;53]];[L[83;108;105;100;101;114;77;117;108;116;105;112;108;105;101;114;58;49;46;52]];[L[83;108;105;100;101;114;84;105;99;107;82;97;116;101;58;49]];[L[91;69;118;101;110;116;115;93]];[L[47;47;66;97;99;107;103;114;111;117;110;100;32;97;110;100;32;86;105;100;101;111;32;101;118;101;110;116;115]];[L[48;44;48;44;34;73;110;115;97;110;101;32;55;75;34;44;48;44;48]];[L[47;47;66;114;101;97;107;32;80;101;114;105;111;100;115]];[L[47;47;83;116;111;114;121;98;111;97;114;100;32;76;97;121;101;114;32;48;32;40;66;97;99;107;103;114;111;117;110;100;41]];[L[47;47;83;116;111;114;121;98;111;97;114;100;32;76;97;121;101;114;32;49;32;40;70;97;105;108;41]];[L[47;47;83;116;111;114;121;98;111;97;114;100;32;76;97;121;101;114;32;50;32;40;80;97;115;115;41]];[L[47;47;83;116;111;114;121;98;111;97;114;100;32;76;97;121;101;114;32;51;32;40;70;111;114;101;103;114;111;117;110;100;41]];[L[47;47;83;116;111;114;121;98;111;97;114;100;32;76;97;121;101;114;32;52;32;40;79;118;101;114;108;97;121;41]];[L[47;47;83;116;111;114;121;98;111;97;114;100;32;83;111;117;110;100;32;83;97;109;112;108;101;115]];[L[91;84;105;109;105;110;103;80;111;105;110;116;115;93]];[L[45;48;46;48;44;53;48;48;46;48;44;52;44;48;44;48;44;48;44;49;44;48]];[L[91;72;105;116;79;98;106;101;99;116;115;93]];[L[52;55;53;44;49;57;50;44;48;44;49;44;48;44;48;58;48;58;48;58;48;58]];[L[51;54;44;49;57;50;44;53;48;48;44;49;50;56;44;48;44;49;53;48;48;58;48;58;48;58;48;58;48;58]];[L[52;55;53;44;49;57;50;44;50;48;48;48;44;49;44;48;44;48;58;48;58;48;58;48;58]]] [0;1;2;3;4;5;6;7;8;9;10;11;12;1;13;14;15;16;17;1;18;19;20;21;22;23;24;25;26;27;28;1;29;30;31;32;33;34;35;1;36;37;38;39;40;41;42;43;44;45;1;46;47;1;1;48;49;50;51])))%Z.

Lemma witness_OLD_osu_sm_offset_refuted : wf_ok (check w_osu_sm_offset_OLD) = true /\ spec_ok (check w_osu_sm_offset_OLD) = false.
Proof. vm_compute. auto. Qed.
Lemma witness_osu_sm_offset_current :
  wf_ok (check w_osu_sm_offset_current) = true /\ spec_ok (check w_osu_sm_offset_current) = true /\ corr_ok (check w_osu_sm_offset_current) = true.
Proof. vm_compute. auto. Qed.
Lemma witness_OLD_qua_sm_offset_refuted : wf_ok (check w_qua_sm_offset_OLD) = true /\ spec_ok (check w_qua_sm_offset_OLD) = false.
Proof. vm_compute. auto. Qed.
Lemma witness_qua_sm_offset_current :
  wf_ok (check w_qua_sm_offset_current) = true /\ spec_ok (check w_qua_sm_offset_current) = true /\ corr_ok (check w_qua_sm_offset_current) = true.
Proof. vm_compute. auto. Qed.
Lemma witness_OLD_sm_osu_cs_refuted : wf_ok (check w_sm_osu_cs_OLD) = true /\ spec_ok (check w_sm_osu_cs_OLD) = false.
Proof. vm_compute. auto. Qed.
Lemma witness_sm_osu_cs_current :
  wf_ok (check w_sm_osu_cs_current) = true /\ spec_ok (check w_sm_osu_cs_current) = true /\ corr_ok (check w_sm_osu_cs_current) = true.
Proof. vm_compute. auto. Qed.
