(* C08: every converter description that passes `conv_okb` preserves chart content, for EVERY source chart
   (any row labels, any row order), and produces one target chart per source chart. *)
From Coq Require Import String ZArith QArith Qround List Bool Lia.
From RV Require Import Base.PyNum Base.Text Frame.Frame Convert.Cast Map.StackerSpec Generated.Tables
  Convert.Converters Proofs.CastProofs.
Import ListNotations.
Open Scope Q_scope.

(* ------------------------------------------------------------------ A. association lists *)
Lemma zlist_eqb_eq a b : zlist_eqb a b = true -> a = b.
Proof.
  revert b. induction a as [|x a IH]; intros [|y b] H; cbn [zlist_eqb] in H; try discriminate; auto.
  apply andb_true_iff in H. destruct H as [H1 H2]. apply Z.eqb_eq in H1. subst. f_equal. auto.
Qed.

Lemma mkey_eqb_eq a b : mkey_eqb a b = true <-> a = b.
Proof.
  destruct a as [a1 a2], b as [b1 b2]. unfold mkey_eqb; cbn [fst snd]. rewrite andb_true_iff, Z.eqb_eq. split.
  - intros [H1 H2]. apply eqb_prop in H1. congruence.
  - intro H. injection H as -> ->. split; auto. apply eqb_reflx.
Qed.
Lemma mkey_eqb_refl a : mkey_eqb a a = true.
Proof. apply mkey_eqb_eq. reflexivity. Qed.
Lemma mkey_eqb_neq a b : a <> b -> mkey_eqb a b = false.
Proof. intro H. destruct (mkey_eqb a b) eqn:E; auto. apply mkey_eqb_eq in E. contradiction. Qed.

Lemma memZ_In k l : memZ k l = true <-> In k l.
Proof.
  unfold memZ. rewrite existsb_exists. split.
  - intros [x [Hin E]]. apply Z.eqb_eq in E. subst. exact Hin.
  - intro H. exists k. split; auto. apply Z.eqb_refl.
Qed.

Lemma assocZ_In {A} k (l : list (Z * A)) v : assocZ k l = Some v -> In (k, v) l.
Proof.
  induction l as [|[k' v'] l IH]; cbn [assocZ]; [discriminate|].
  destruct (k' =? k)%Z eqn:E.
  - intro H. injection H as <-. apply Z.eqb_eq in E. subst. left. reflexivity.
  - intro H. right. auto.
Qed.
Lemma assocZ_map {A B} (h : A -> B) k (l : list (Z * A)) :
  assocZ k (map (fun t => (fst t, h (snd t))) l) = option_map h (assocZ k l).
Proof.
  induction l as [|[k' v'] l IH]; cbn [assocZ map fst snd]; [reflexivity|].
  destruct (k' =? k)%Z; auto.
Qed.
Lemma assocZ_mem {A} k (l : list (Z * A)) : memZ k (map fst l) = true -> exists v, assocZ k l = Some v.
Proof.
  induction l as [|[k' v'] l IH]; cbn [assocZ map fst]; intro H.
  - discriminate.
  - unfold memZ in H. cbn [existsb] in H. rewrite Z.eqb_sym in H. destruct (k' =? k)%Z; [eexists; reflexivity|].
    apply IH. exact H.
Qed.
Lemma assocZ_some_mem {A} k (l : list (Z * A)) v : assocZ k l = Some v -> memZ k (map fst l) = true.
Proof.
  intro H. apply memZ_In. apply assocZ_In in H. apply (in_map fst) in H. exact H.
Qed.

Lemma set_list_spec k f L :
  memZ k (map fst L) = true ->
  exists L', set_list k f L = Some L' /\ map fst L' = map fst L /\ assocZ k L' = Some f
             /\ forall k', k' <> k -> assocZ k' L' = assocZ k' L.
Proof.
  induction L as [|[k0 g] L IH]; intro H.
  - discriminate.
  - cbn [set_list]. unfold memZ in H. cbn [map fst existsb] in H. rewrite Z.eqb_sym in H.
    destruct (k0 =? k)%Z eqn:E.
    + apply Z.eqb_eq in E. subst k0. eexists. split; [reflexivity|]. split; [reflexivity|]. split.
      * cbn [assocZ]. rewrite Z.eqb_refl. reflexivity.
      * intros k' Hk. cbn [assocZ]. destruct (k =? k')%Z eqn:E'; auto. apply Z.eqb_eq in E'. congruence.
    + destruct (IH H) as [L' [A [B [C D]]]]. rewrite A. cbn [option_map]. eexists. split; [reflexivity|].
      split; [cbn [map fst]; rewrite B; reflexivity|]. split.
      * cbn [assocZ]. rewrite E. exact C.
      * intros k' Hk. cbn [assocZ]. destruct (k0 =? k')%Z; auto.
Qed.

(* ------------------------------------------------------------------ B. the column shift *)
Lemma shift_column_eq sh f : shift_column sh f = map_col COL_COLUMN (shift_cell sh) f.
Proof. reflexivity. Qed.
Lemma map_col_cols c g f : fcols (map_col c g f) = fcols f.
Proof. unfold map_col. destruct (col_index c (fcols f)); reflexivity. Qed.
Lemma map_col_nrows c g f : nrows (map_col c g f) = nrows f.
Proof. unfold map_col, nrows. destruct (col_index c (fcols f)); cbn [frows]; [apply map_length|reflexivity]. Qed.

Lemma nth_nth_error_none {A} i (l : list A) d : nth_error l i = None -> nth i l d = d.
Proof. intro H. apply nth_overflow. apply nth_error_None. exact H. Qed.

Lemma col_vals_map_col c g f k vs :
  g CNaN = CNaN -> col_vals f k = Some vs ->
  col_vals (map_col c g f) k = Some (if (k =? c)%Z then map g vs else vs).
Proof.
  intros Hg Hk. unfold map_col. destruct (col_index c (fcols f)) as [i|] eqn:Ei.
  - unfold col_vals in *. cbn [fcols]. destruct (col_index k (fcols f)) as [j|] eqn:Ej; [|discriminate].
    injection Hk as <-. f_equal. unfold abs_rows. cbn [frows]. rewrite !map_map. cbn [snd].
    destruct (k =? c)%Z eqn:E.
    + apply Z.eqb_eq in E. subst k. assert (j = i) by congruence. subst j.
      apply map_ext. intros [lab r]. cbn [snd]. destruct (nth_error r i) as [v|] eqn:En.
      * assert (Hlt: (i < length r)%nat) by (apply nth_error_Some; congruence).
        rewrite nth_set_nth_same by exact Hlt. f_equal. symmetry. apply nth_error_nth. exact En.
      * rewrite (nth_nth_error_none _ _ _ En). symmetry. exact Hg.
    + apply map_ext. intros [lab r]. cbn [snd]. destruct (nth_error r i) as [v|]; [|reflexivity].
      apply nth_set_nth_other. intro Eij. subst j. apply Z.eqb_neq in E. apply E.
      apply (col_index_inj _ _ _ _ Ej Ei).
  - rewrite Hk. destruct (k =? c)%Z eqn:E; [|reflexivity].
    apply Z.eqb_eq in E. subst k. unfold col_vals in Hk. rewrite Ei in Hk. discriminate.
Qed.

Lemma col_vals_shift sh f k vs :
  col_vals f k = Some vs ->
  col_vals (shift_column sh f) k = Some (if (k =? COL_COLUMN)%Z then map (shift_cell sh) vs else vs).
Proof. intro H. rewrite shift_column_eq. apply col_vals_map_col; auto. Qed.

Lemma shift_cell_not_nan sh vs : forallb not_nan vs = true -> forallb not_nan (map (shift_cell sh) vs) = true.
Proof.
  induction vs as [|v vs IH]; cbn [map forallb]; auto. intro H. apply andb_true_iff in H. destruct H as [H1 H2].
  rewrite IH by exact H2. destruct v; cbn in *; auto.
Qed.

Lemma assocZ_map_frames (h : frame -> frame) k (L : list (Z * frame)) :
  assocZ k (map (fun nf => (fst nf, h (snd nf))) L) = option_map h (assocZ k L).
Proof. apply assocZ_map. Qed.

(* ------------------------------------------------------------------ C. one cast statement *)
Lemma resolve_mapping_spec oracle tgt m :
  (forall c s, In (c, s) m -> exists s', resolve_source oracle tgt c s = Some s') ->
  exists m', resolve_mapping oracle tgt m = Some m' /\ map fst m' = map fst m
    /\ (forall c s', In (c, s') m' -> exists s, In (c, s) m /\ resolve_source oracle tgt c s = Some s')
    /\ (forall c s, In (c, s) m -> exists s', In (c, s') m' /\ resolve_source oracle tgt c s = Some s').
Proof.
  induction m as [|[c s] m IH]; intro H.
  - exists []. cbn. repeat split; auto; intros ? ? [].
  - destruct (H c s (or_introl eq_refl)) as [s' Hs'].
    destruct IH as [m' [A [B [C D]]]]; [intros c0 s0 Hin; apply H; right; exact Hin|].
    exists ((c, s') :: m'). cbn [resolve_mapping]. rewrite Hs', A. split; [reflexivity|].
    split; [cbn [map fst]; rewrite B; reflexivity|]. split.
    + intros c0 s0 [E|Hin].
      * injection E as <- <-. exists s. split; [left; reflexivity|exact Hs'].
      * destruct (C c0 s0 Hin) as [s1 [H1 H2]]. exists s1. split; [right; exact H1|exact H2].
    + intros c0 s0 [E|Hin].
      * injection E as <- <-. exists s'. split; [left; reflexivity|exact Hs'].
      * destruct (D c0 s0 Hin) as [s1 [H1 H2]]. exists s1. split; [right; exact H1|exact H2].
Qed.

Lemma col_clean_some f c : col_clean f c = true -> exists vs, col_vals f c = Some vs /\ forallb not_nan vs = true.
Proof. unfold col_clean. destruct (col_vals f c) as [vs|]; [|discriminate]. intro H. exists vs. auto. Qed.

Lemma forallb_repeat {A} (p : A -> bool) x n : p x = true -> forallb p (repeat x n) = true.
Proof. intro H. induction n; cbn; auto. rewrite H, IHn. reflexivity. Qed.

Lemma rcells_nth a b i r :
  rcells_eqb a b = true -> nth_error b i = Some r -> exists r', nth_error a i = Some r' /\ rcell_eqb r' r = true.
Proof.
  revert b i. induction a as [|x a IH]; intros [|y b] i H Hn; cbn [rcells_eqb] in H; try discriminate.
  - destruct i; discriminate.
  - apply andb_true_iff in H. destruct H as [H1 H2]. destruct i as [|i]; cbn [nth_error] in *.
    + injection Hn as <-. exists x. auto.
    + apply (IH b i H2 Hn).
Qed.
Lemma rcell_not_nan strs r' r : rcell_eqb r' r = true -> r <> RNaN -> not_nan (cell_of_rcell strs r') = true.
Proof. destruct r', r; cbn; intros H Hr; try discriminate; auto; try congruence. Qed.

(* what the property needs of a source chart, for one description *)
Section OneChart.
  Variables (d : conv_desc) (a : cargs) (sm : meta) (k : nat) (src oracle : chart).
  Let x := mkCtx a sm src k oracle.
  Hypothesis Hsrc : src_lists_wfb d src = true.
  Hypothesis Hcomp : computed_wfb d src oracle = true.

  Definition cast_facts (s : step) (g : frame) : Prop :=
    match s with
    | SCast t sl declared defaults m =>
        exists fs, assocZ sl (c_lists src) = Some fs
          /\ fcols g = declared /\ nrows g = nrows fs
          /\ (forall c c', In (c, FromColumn c') m ->
                exists vs, col_vals fs c' = Some vs /\ forallb not_nan vs = true /\ col_vals g c = Some vs)
          /\ (forall c i, col_index c declared = Some i ->
                exists vs, col_vals g c = Some vs
                           /\ (not_nan (nth i (map (cell_of_rcell (a_strs a)) defaults) CNaN) = true ->
                               forallb not_nan vs = true))
    | _ => True
    end.

  Lemma cast_step_facts t sl declared defaults m :
    In (SCast t sl declared defaults m) (cd_body d) -> cast_okb d (SCast t sl declared defaults m) = true ->
    exists g, cast_step x sl t declared defaults m = Some g /\ cast_facts (SCast t sl declared defaults m) g.
  Proof.
    intros Hin Hok. cbn [cast_okb] in Hok.
    destruct (assocZ t (cd_tgt_lists d)) as [[decl' dfl']|] eqn:Et; [|discriminate].
    destruct (assocZ sl (cd_src_lists d)) as [sdecl|] eqn:Es; [|discriminate].
    apply andb_true_iff in Hok; destruct Hok as [Hok K].
    apply andb_true_iff in Hok; destruct Hok as [Hok Kmem].
    apply andb_true_iff in Hok; destruct Hok as [Hok Kndm].
    apply andb_true_iff in Hok; destruct Hok as [Hok Klen].
    apply andb_true_iff in Hok; destruct Hok as [Hok Knd].
    apply andb_true_iff in Hok; destruct Hok as [Kdecl Kdfl].
    (* the source list *)
    pose proof Hsrc as Hs. pose proof Hcomp as Hcp.
    unfold src_lists_wfb in Hs. rewrite forallb_forall in Hs.
    specialize (Hs (sl, sdecl) (assocZ_In _ _ _ Es)). cbn [fst snd] in Hs.
    destruct (assocZ sl (c_lists src)) as [fs|] eqn:Efs; [|discriminate].
    apply andb_true_iff in Hs. destruct Hs as [Hs12 Hclean]. apply andb_true_iff in Hs12. destruct Hs12 as [Hnd Hwf].
    rewrite forallb_forall in Hclean.
    (* the computed columns *)
    unfold computed_wfb in Hcp. rewrite forallb_forall in Hcp. specialize (Hcp _ Hin). cbn beta iota in Hcp.
    rewrite forallb_forall in Hcp.
    assert (Hres: forall c s, In (c, s) m -> exists s', resolve_source oracle t c s = Some s'
                   /\ source_ok fs s'
                   /\ (exists vs, source_vals fs s' = Some vs /\ forallb not_nan vs = true)
                   /\ (forall c', s = FromColumn c' -> s' = FromCol c')).
    { intros c s Hcs. destruct s as [c'|txt].
      - exists (FromCol c'). split; [reflexivity|].
        rewrite forallb_forall in K. specialize (K _ Hcs). cbn [snd] in K. apply memZ_In in K.
        destruct (col_clean_some _ _ (Hclean _ K)) as [vs [V1 V2]].
        split; [exists vs; exact V1|]. split; [exists vs; split; assumption|]. intros c'' E. injection E as <-. reflexivity.
      - specialize (Hcp _ Hcs). cbn [snd fst] in Hcp. cbn [resolve_source].
        destruct (assocZ t (c_lists oracle)) as [fo|]; [|discriminate]. rewrite Efs in Hcp.
        destruct (col_vals fo c) as [vs|]; [|discriminate]. apply andb_true_iff in Hcp. destruct Hcp as [Hl Hn].
        apply Nat.eqb_eq in Hl. exists (FromVals vs). cbn [option_map]. split; [reflexivity|]. split; [exact Hl|].
        split; [exists vs; split; [reflexivity|exact Hn]|]. intros c' E. discriminate. }
    destruct (resolve_mapping_spec oracle t m) as [m' [R1 [R2 [R3 R4]]]].
    { intros c s Hcs. destruct (Hres c s Hcs) as [s' [E _]]. exists s'. exact E. }
    unfold cast_step. cbn [x_chart x_oracle x_args x]. rewrite Efs, R1.
    apply Nat.eqb_eq in Klen.
    destruct (cast_exact fs declared (map (cell_of_rcell (a_strs a)) defaults) m') as [g [G1 [G2 [G3 [G4 [G5 G6]]]]]].
    - exact Knd.
    - rewrite map_length. exact Klen.
    - unfold targets. rewrite R2. exact Kndm.
    - intros t0 s0 Hts. destruct (R3 _ _ Hts) as [s1 [H1 H2]]. split.
      + rewrite forallb_forall in Kmem. specialize (Kmem _ H1). exact Kmem.
      + destruct (Hres _ _ H1) as [s2 [E2 [Ok _]]]. congruence.
    - exists g. split; [exact G1|]. cbn [cast_facts]. exists fs. split; [exact Efs|]. split; [exact G2|]. split; [exact G3|].
      split.
      + intros c c' Hcc. destruct (R4 _ _ Hcc) as [s' [H1 H2]]. destruct (Hres _ _ Hcc) as [s2 [E2 [_ [[vs [V1 V2]] Hfc]]]].
        assert (s' = s2) by congruence. subst s2. rewrite (Hfc c' eq_refl) in *. cbn [source_vals] in V1.
        exists vs. split; [exact V1|]. split; [exact V2|]. rewrite (G5 _ _ H1). exact V1.
      + intros c i Hci. destruct (existsb (Z.eqb c) (targets m')) eqn:Em.
        * apply existsb_exists in Em. destruct Em as [c0 [Hc0 E0]]. apply Z.eqb_eq in E0. subst c0.
          unfold targets in Hc0. apply in_map_iff in Hc0. destruct Hc0 as [[c1 s1] [E1 Hin1]]. cbn [fst] in E1. subst c1.
          destruct (R3 _ _ Hin1) as [s0 [H0 H0']]. destruct (Hres _ _ H0) as [s2 [E2 [_ [[vs [V1 V2]] _]]]].
          assert (s1 = s2) by congruence. subst s2. exists vs. split; [rewrite (G5 _ _ Hin1); exact V1|]. intros _. exact V2.
        * rewrite (G6 c i Hci Em). eexists. split; [reflexivity|]. intro Hd. apply forallb_repeat. exact Hd.
  Qed.

  (* ---------------------------------------------------------------- D. the list statements of a loop body *)
  Fixpoint lists_steps (ss : list step) (L : list (Z * frame)) : option (list (Z * frame)) :=
    match ss with
    | [] => Some L
    | s :: ss' => match step_lists x s L with Some L' => lists_steps ss' L' | None => None end
    end.

  Lemma exec_steps_split ss st :
    exec_steps x ss st = match lists_steps ss (c_lists st), meta_steps x ss (c_meta st) with
                         | Some L, Some M => Some (mkChart L M)
                         | _, _ => None end.
  Proof.
    revert st. induction ss as [|s ss IH]; intros [L M]; cbn [exec_steps lists_steps meta_steps c_lists c_meta].
    - reflexivity.
    - unfold exec_step. cbn [c_lists c_meta].
      destruct (step_lists x s L) as [L'|]; [|reflexivity].
      destruct (step_meta x s M) as [M'|].
      + rewrite IH. reflexivity.
      + destruct (lists_steps ss L'); reflexivity.
  Qed.

  Lemma lists_steps_app s1 s2 L :
    lists_steps (s1 ++ s2) L = match lists_steps s1 L with Some L' => lists_steps s2 L' | None => None end.
  Proof.
    revert L. induction s1 as [|s s1 IH]; intro L; cbn [app lists_steps]; [reflexivity|].
    destruct (step_lists x s L); auto.
  Qed.
  Lemma lists_steps_filter ss L :
    forallb (fun s => negb (is_unknown s)) ss = true ->
    lists_steps ss L = lists_steps (filter is_list_step ss) L.
  Proof.
    revert L. induction ss as [|s ss IH]; intros L H; [reflexivity|].
    cbn [forallb] in H. apply andb_true_iff in H. destruct H as [H1 H2].
    cbn [filter]. destruct s as [tgt sl declared defaults mapping|on_set f e| |on_set f|nm le|txt]; cbn [is_list_step lists_steps step_lists]; cbn [is_unknown negb] in H1; try discriminate;
      try (apply IH; exact H2).
    - destruct (cast_step x sl tgt declared defaults mapping) as [g|]; [|reflexivity].
      destruct (set_list tgt g L); [apply IH; exact H2|reflexivity].
  Qed.
  Lemma lists_steps_none ss L :
    forallb (fun s => negb (is_unknown s)) ss = true -> forallb (fun s => negb (is_list_step s)) ss = true ->
    lists_steps ss L = Some L.
  Proof.
    intros H1 H2. rewrite (lists_steps_filter _ _ H1).
    replace (filter is_list_step ss) with (@nil step); [reflexivity|].
    clear H1. induction ss as [|s ss IH]; [reflexivity|]. cbn [forallb] in H2. apply andb_true_iff in H2.
    destruct H2 as [A B]. cbn [filter]. destruct (is_list_step s); [discriminate|]. apply IH. exact B.
  Qed.

  (* the cast assigned to list n, if any (first one) *)
  Fixpoint cast_for (n : Z) (l : list step) : option frame :=
    match l with
    | [] => None
    | SCast t sl decl dfl m :: l' => if (t =? n)%Z then cast_step x sl t decl dfl m else cast_for n l'
    | _ :: l' => cast_for n l'
    end.
  Definition fin (l : list step) (f : frame) : frame :=
    if existsb is_shift l then shift_column (a_shift a) f else f.

  Lemma option_map_id {A} (o : option A) : option_map (fun f => f) o = o.
  Proof. destruct o; reflexivity. Qed.

  Lemma casts_fold l : forall L,
    casts_then_shift l = true ->
    (forall t sl decl dfl m, In (SCast t sl decl dfl m) l ->
        memZ t (map fst L) = true /\ exists g, cast_step x sl t decl dfl m = Some g) ->
    nodupb (flat_map cast_target l) = true ->
    exists L', lists_steps l L = Some L' /\ map fst L' = map fst L
      /\ forall n, assocZ n L' = if memZ n (flat_map cast_target l)
                                 then option_map (fin l) (cast_for n l)
                                 else option_map (fin l) (assocZ n L).
  Proof.
    induction l as [|s l IH]; intros L Hc Hs Hnd.
    - exists L. split; [reflexivity|]. split; [reflexivity|]. intro n. cbn. unfold fin. cbn. rewrite option_map_id. reflexivity.
    - destruct s as [tgt sl declared defaults mapping|on_set f e| |on_set f|nm le|txt]; cbn [casts_then_shift] in Hc; try discriminate.
      + (* SCast *)
        destruct (Hs _ _ _ _ _ (or_introl eq_refl)) as [Hmem [g Hg]].
        cbn [lists_steps step_lists]. rewrite Hg.
        destruct (set_list_spec tgt g L Hmem) as [L1 [S1 [S2 [S3 S4]]]]. rewrite S1.
        cbn [flat_map cast_target app nodupb] in Hnd. apply andb_true_iff in Hnd. destruct Hnd as [Hn1 Hn2].
        apply negb_true_iff in Hn1.
        destruct (IH L1 Hc) as [L' [A [B C]]].
        { intros t0 sl0 decl0 dfl0 m0 Hin. rewrite S2. apply Hs. right. exact Hin. }
        { exact Hn2. }
        exists L'. split; [exact A|]. split; [congruence|]. intro n. rewrite C.
        cbn [flat_map cast_target app]. unfold memZ at 2. cbn [existsb]. rewrite (Z.eqb_sym n tgt).
        assert (Efin: fin (SCast tgt sl declared defaults mapping :: l) = fin l) by reflexivity. rewrite Efin.
        cbn [cast_for]. destruct (tgt =? n)%Z eqn:E.
        * apply Z.eqb_eq in E. subst n. cbn [orb]. unfold memZ. rewrite Hn1. rewrite S3, Hg. reflexivity.
        * cbn [orb]. fold (memZ n (flat_map cast_target l)). rewrite S4; [reflexivity|].
          intro E'. subst n. rewrite Z.eqb_refl in E. discriminate.
      + (* SShift, last *)
        destruct l; [|discriminate]. cbn [lists_steps step_lists]. eexists. split; [reflexivity|]. split.
        * rewrite map_map. reflexivity.
        * intro n. cbn [flat_map cast_target app]. unfold memZ. cbn [existsb]. unfold fin. cbn [existsb is_shift orb].
          apply assocZ_map_frames.
  Qed.

  Lemma flat_cast_target_filter ss : flat_map cast_target (filter is_list_step ss) = flat_map cast_target ss.
  Proof.
    induction ss as [|s ss IH]; [reflexivity|]. cbn [filter flat_map].
    destruct s; cbn [is_list_step cast_target flat_map app]; rewrite ?IH; reflexivity.
  Qed.
  Lemma existsb_shift_filter ss : existsb is_shift (filter is_list_step ss) = existsb is_shift ss.
  Proof.
    induction ss as [|s ss IH]; [reflexivity|]. cbn [filter existsb].
    destruct s; cbn [is_list_step is_shift existsb orb]; rewrite ?IH; reflexivity.
  Qed.
  Lemma cast_for_filter n ss : cast_for n (filter is_list_step ss) = cast_for n ss.
  Proof.
    induction ss as [|s ss IH]; [reflexivity|]. cbn [filter].
    destruct s; cbn [is_list_step cast_for]; rewrite ?IH; reflexivity.
  Qed.
  Lemma cast_for_in n sl decl dfl m l :
    In (SCast n sl decl dfl m) l -> nodupb (flat_map cast_target l) = true ->
    cast_for n l = cast_step x sl n decl dfl m.
  Proof.
    induction l as [|s l IH]; intros Hin Hnd; [destruct Hin|].
    destruct Hin as [E|Hin].
    - subst s. cbn [cast_for]. rewrite Z.eqb_refl. reflexivity.
    - destruct s; cbn [cast_for flat_map cast_target app] in *; try (apply IH; assumption).
      cbn [nodupb] in Hnd. apply andb_true_iff in Hnd. destruct Hnd as [Hn1 Hn2]. apply negb_true_iff in Hn1.
      destruct (tgt =? n)%Z eqn:E; [|apply IH; assumption].
      apply Z.eqb_eq in E. subst tgt. exfalso.
      assert (Hm: existsb (Z.eqb n) (flat_map cast_target l) = true).
      { apply existsb_exists. exists n. split; [|apply Z.eqb_refl]. apply in_flat_map.
        exists (SCast n sl decl dfl m). split; [exact Hin|left; reflexivity]. }
      congruence.
  Qed.
  Lemma cast_target_in n l :
    memZ n (flat_map cast_target l) = true -> exists sl decl dfl m, In (SCast n sl decl dfl m) l.
  Proof.
    intro H. apply memZ_In in H. apply in_flat_map in H. destruct H as [s [Hin Hs]].
    destruct s as [tgt sl decl dfl m|? ? ?| |? ?|? ?|?]; cbn [cast_target In] in Hs; try contradiction. destruct Hs as [E|[]]. subst tgt.
    do 4 eexists. exact Hin.
  Qed.
End OneChart.

(* ------------------------------------------------------------------ E. metadata *)
Lemma meta_steps_spec x ss : forall M0 M,
  meta_steps x ss M0 = Some M -> nodup_keysb (flat_map meta_target ss) = true ->
  (forall b f e, In (SMeta b f e) ss -> exists v, meta_value x b f e = Some v /\ assocM (b, f) M = Some v)
  /\ (forall key, existsb (mkey_eqb key) (flat_map meta_target ss) = false -> assocM key M = assocM key M0).
Proof.
  induction ss as [|s ss IH]; intros M0 M H Hnd.
  - cbn in H. injection H as <-. split; [intros ? ? ? []|reflexivity].
  - cbn [meta_steps] in H. destruct (step_meta x s M0) as [M1|] eqn:E1; [|discriminate].
    assert (Hnd': nodup_keysb (flat_map meta_target ss) = true).
    { destruct s; cbn [flat_map meta_target app nodup_keysb] in Hnd; auto. apply andb_true_iff in Hnd. apply Hnd. }
    destruct (IH M1 M H Hnd') as [A B]. split.
    + intros b f e [E|Hin]; [|apply A; exact Hin]. subst s. cbn [step_meta] in E1.
      destruct (meta_value x b f e) as [v|]; [|discriminate]. injection E1 as <-.
      exists v. split; [reflexivity|]. rewrite B.
      * cbn [assocM]. rewrite mkey_eqb_refl. reflexivity.
      * cbn [flat_map meta_target app nodup_keysb] in Hnd. apply andb_true_iff in Hnd. destruct Hnd as [Hn _].
        apply negb_true_iff in Hn. exact Hn.
    + intros key Hk. destruct s; cbn [flat_map meta_target app existsb] in Hk.
      * cbn [step_meta] in E1. injection E1 as <-. apply B. exact Hk.
      * apply orb_false_iff in Hk. destruct Hk as [Hk1 Hk2]. rewrite (B key Hk2). cbn [step_meta] in E1.
        destruct (meta_value x on_set f e) as [v|]; [|discriminate]. injection E1 as <-. cbn [assocM].
        destruct (mkey_eqb (on_set, f) key) eqn:E2; [|reflexivity].
        apply mkey_eqb_eq in E2. subst key. rewrite mkey_eqb_refl in Hk1. discriminate.
      * cbn [step_meta] in E1. injection E1 as <-. apply B. exact Hk.
      * cbn [step_meta] in E1. destruct (assocM (on_set, f) M0); [|discriminate].
        destruct (a_raise (x_args x) && negb (truthy m)); [discriminate|]. injection E1 as <-. apply B. exact Hk.
      * cbn [step_meta] in E1. assert (M1 = M0) as ->; [|apply B; exact Hk].
        destruct e; try (destruct (eval x _); [|discriminate]); injection E1 as <-; reflexivity.
      * cbn [step_meta] in E1. discriminate.
Qed.

Lemma infix_refl s : infix s s.
Proof. exists [], []. rewrite app_nil_r. reflexivity. Qed.
Lemma infix_app_l s t u : infix s t -> infix s (t ++ u).
Proof. intros [p [q ->]]. exists p, (q ++ u). rewrite <- !app_assoc. reflexivity. Qed.
Lemma infix_app_r s t u : infix s u -> infix s (t ++ u).
Proof. intros [p [q ->]]. exists (t ++ p), q. rewrite <- !app_assoc. reflexivity. Qed.

Lemma is_src_atom_eq s e : is_src_atom s e = true -> s = e.
Proof.
  destruct s, e; cbn [is_src_atom]; try discriminate; auto.
  intro H. apply andb_true_iff in H. destruct H as [H1 H2]. apply eqb_prop in H1. apply Z.eqb_eq in H2. congruence.
Qed.

Lemma carries_infix x s e : forall v,
  carriesb s e = true -> eval x e = Some v -> exists sv, eval x s = Some sv /\ infix (mtext sv) (mtext v).
Proof.
  induction e; intros v H Hv; cbn [carriesb] in H; apply orb_true_iff in H;
    (destruct H as [H|H]; [apply is_src_atom_eq in H; subst s; exists v; split; [exact Hv|apply infix_refl]|]);
    try discriminate.
  - (* EDecodeSjis *) cbn [eval] in Hv. destruct (eval x e) as [[t| t | | | | | | | |]|] eqn:Ee; try discriminate.
    destruct (asciib t); [|discriminate]. injection Hv as <-. destruct (IHe _ H eq_refl) as [sv [A B]]. exists sv. auto.
  - (* EEncodeSjis *) cbn [eval] in Hv. destruct (eval x e) as [[t| t | | | | | | | |]|] eqn:Ee; try discriminate.
    destruct (asciib t); [|discriminate]. injection Hv as <-. destruct (IHe _ H eq_refl) as [sv [A B]]. exists sv. auto.
  - (* EStr *) cbn [eval] in Hv. destruct (eval x e) as [[t| t | z | | | | | | |]|] eqn:Ee; try discriminate;
      injection Hv as <-; destruct (IHe _ H eq_refl) as [sv [A B]]; exists sv; auto.
  - (* ECat *) cbn [eval] in Hv. destruct (eval x e1) as [[t1| | | | | | | | |]|] eqn:E1; try discriminate.
    destruct (eval x e2) as [[t2| | | | | | | | |]|] eqn:E2; try discriminate. injection Hv as <-.
    apply orb_true_iff in H. destruct H as [H|H].
    + destruct (IHe1 _ H eq_refl) as [sv [A B]]. exists sv. split; auto. cbn [mtext] in *. apply infix_app_l. exact B.
    + destruct (IHe2 _ H eq_refl) as [sv [A B]]. exists sv. split; auto. cbn [mtext] in *. apply infix_app_r. exact B.
Qed.

Lemma carries_not_opaque s e : carriesb s e = true -> forall x b f, meta_value x b f e = eval x e.
Proof. intros H x b f. destruct e; try reflexivity. destruct s; discriminate. Qed.

(* ------------------------------------------------------------------ F. one source chart *)
Lemma fin_cols a l g : fcols (fin a l g) = fcols g.
Proof. unfold fin. destruct (existsb is_shift l); [rewrite shift_column_eq; apply map_col_cols|reflexivity]. Qed.
Lemma fin_nrows a l g : nrows (fin a l g) = nrows g.
Proof. unfold fin. destruct (existsb is_shift l); [rewrite shift_column_eq; apply map_col_nrows|reflexivity]. Qed.
Lemma fin_col_vals d a g c vs :
  col_vals g c = Some vs ->
  col_vals (fin a (filter is_list_step (cd_body d)) g) c = Some (carry d a c vs).
Proof.
  intro H. unfold fin, carry. rewrite existsb_shift_filter. fold (has_shift d). destruct (has_shift d).
  - rewrite andb_true_r. apply col_vals_shift. exact H.
  - rewrite andb_false_r. exact H.
Qed.
Lemma carry_not_nan d a c vs : forallb not_nan vs = true -> forallb not_nan (carry d a c vs) = true.
Proof. intro H. unfold carry. destruct ((c =? COL_COLUMN)%Z && has_shift d); [apply shift_cell_not_nan|]; exact H. Qed.

Lemma forallb_app_true {A} (p : A -> bool) l1 l2 : forallb p (l1 ++ l2) = true -> forallb p l1 = true /\ forallb p l2 = true.
Proof. rewrite forallb_app. apply andb_true_iff. Qed.

Lemma init_lists_assoc d strs L :
  assocZ L (c_lists (init_chart d strs))
  = option_map (fun p => empty_frame (fst p) (map (cell_of_rcell strs) (snd p)) 0) (assocZ L (cd_tgt_lists d)).
Proof.
  unfold init_chart. cbn [c_lists].
  apply (assocZ_map (fun p => empty_frame (fst p) (map (cell_of_rcell strs) (snd p)) 0)).
Qed.
Lemma init_lists_names d strs : map fst (c_lists (init_chart d strs)) = map fst (cd_tgt_lists d).
Proof. unfold init_chart. cbn [c_lists]. rewrite map_map. reflexivity. Qed.

Lemma nth_map_nth_error {A B} (h : A -> B) l i x d0 : nth_error l i = Some x -> nth i (map h l) d0 = h x.
Proof. intro H. apply nth_error_nth. apply map_nth_error. exact H. Qed.

Theorem conv_chart_preserves d a sm k src oracle :
  conv_okb d = true -> chart_wfb d a sm k src oracle = true ->
  exists out, conv_chart d a sm k src oracle = Some out /\ chart_preserved d a sm k src oracle out.
Proof.
  intros Hok Hwf. unfold conv_okb in Hok.
  apply andb_true_iff in Hok; destruct Hok as [Hok O_tg].
  apply andb_true_iff in Hok; destruct Hok as [Hok O_sg].
  apply andb_true_iff in Hok; destruct Hok as [Hok O_shape].
  apply andb_true_iff in Hok; destruct Hok as [Hok O_guards].
  apply andb_true_iff in Hok; destruct Hok as [Hok O_roles].
  apply andb_true_iff in Hok; destruct Hok as [Hok O_meta].
  apply andb_true_iff in Hok; destruct Hok as [Hok O_keys].
  apply andb_true_iff in Hok; destruct Hok as [Hok O_content].
  apply andb_true_iff in Hok; destruct Hok as [Hok O_tnames].
  apply andb_true_iff in Hok; destruct Hok as [Hok O_ctgt].
  apply andb_true_iff in Hok; destruct Hok as [Hok O_cast].
  apply andb_true_iff in Hok; destruct Hok as [Hok O_sharg].
  apply andb_true_iff in Hok; destruct Hok as [Hok O_cts].
  apply andb_true_iff in Hok; destruct Hok as [O_unk O_out].
  unfold chart_wfb in Hwf.
  apply andb_true_iff in Hwf; destruct Hwf as [Hwf Hmeta].
  apply andb_true_iff in Hwf; destruct Hwf as [Hsrc Hcomp].
  set (x := mkCtx a sm src k oracle) in *.
  set (strs := a_strs a).
  set (l := filter is_list_step (cd_body d)).
  unfold steps_of in O_unk. apply forallb_app_true in O_unk. destruct O_unk as [U_pre O_unk].
  apply forallb_app_true in O_unk. destruct O_unk as [U_body U_post].
  apply forallb_app_true in O_out. destruct O_out as [N_pre N_post].
  rewrite forallb_forall in O_cast.
  (* every cast of the body succeeds *)
  assert (Hcasts: forall t sl decl dfl m, In (SCast t sl decl dfl m) l ->
            memZ t (map fst (c_lists (init_chart d strs))) = true
            /\ exists g, cast_step x sl t decl dfl m = Some g).
  { intros t sl decl dfl m Hin. apply filter_In in Hin. destruct Hin as [Hin _]. split.
    - rewrite init_lists_names. pose proof (O_cast _ Hin) as Hc. cbn [cast_okb] in Hc.
      destruct (assocZ t (cd_tgt_lists d)) as [p|] eqn:E; [|discriminate]. apply (assocZ_some_mem _ _ _ E).
    - destruct (cast_step_facts d a sm k src oracle Hsrc Hcomp _ _ _ _ _ Hin (O_cast _ Hin)) as [g [G _]]. exists g. exact G. }
  destruct (casts_fold a sm k src oracle l (c_lists (init_chart d strs)) O_cts Hcasts) as [L' [F1 [F2 F3]]].
  { unfold l. rewrite flat_cast_target_filter. exact O_ctgt. }
  (* the metadata statements *)
  unfold meta_evalb in Hmeta. fold x in Hmeta. destruct (meta_steps x (steps_of d) []) as [M|] eqn:EM; [|discriminate].
  destruct (meta_steps_spec x (steps_of d) [] M EM O_keys) as [Mmap _].
  exists (mkChart L' M). split.
  { unfold conv_chart. rewrite exec_steps_split. change (mkCtx a sm src k oracle) with x. fold strs.
    change (c_meta (init_chart d strs)) with (@nil (mkey * mval)). rewrite EM.
    unfold steps_of. rewrite lists_steps_app.
    rewrite (lists_steps_none a sm k src oracle _ _ U_pre N_pre). cbv beta iota.
    rewrite lists_steps_app.
    rewrite (lists_steps_filter a sm k src oracle _ _ U_body). fold l. rewrite F1. cbv beta iota.
    rewrite (lists_steps_none a sm k src oracle _ _ U_post N_post). reflexivity. }
  (* characterisation of every list of the result *)
  assert (Hchar: forall L f, assocZ L L' = Some f ->
            exists decl' dfl' g, assocZ L (cd_tgt_lists d) = Some (decl', dfl') /\ f = fin a l g /\ fcols g = decl'
              /\ forall c i r, col_index c decl' = Some i -> nth_error dfl' i = Some r -> r <> RNaN ->
                   exists vs, col_vals g c = Some vs /\ forallb not_nan vs = true).
  { intros L f Hf. rewrite F3 in Hf. destruct (memZ L (flat_map cast_target l)) eqn:Em.
    - destruct (cast_target_in _ _ Em) as [sl [decl [dfl [m Hin]]]].
      assert (Hnd: nodupb (flat_map cast_target l) = true) by (unfold l; rewrite flat_cast_target_filter; exact O_ctgt).
      rewrite (cast_for_in a sm k src oracle _ _ _ _ _ _ Hin Hnd) in Hf.
      apply filter_In in Hin. destruct Hin as [Hin _].
      destruct (cast_step_facts d a sm k src oracle Hsrc Hcomp _ _ _ _ _ Hin (O_cast _ Hin)) as [g [G Gf]].
      rewrite G in Hf. cbn [option_map] in Hf. injection Hf as <-.
      pose proof (O_cast _ Hin) as Hc. cbn [cast_okb] in Hc.
      destruct (assocZ L (cd_tgt_lists d)) as [[decl' dfl']|] eqn:Et; [|discriminate].
      destruct (assocZ sl (cd_src_lists d)) as [sdecl|]; [|discriminate].
      apply andb_true_iff in Hc; destruct Hc as [Hc _].
      apply andb_true_iff in Hc; destruct Hc as [Hc _].
      apply andb_true_iff in Hc; destruct Hc as [Hc _].
      apply andb_true_iff in Hc; destruct Hc as [Hc _].
      apply andb_true_iff in Hc; destruct Hc as [Hc _].
      apply andb_true_iff in Hc; destruct Hc as [Kdecl Kdfl]. apply zlist_eqb_eq in Kdecl. subst decl'.
      cbn [cast_facts] in Gf. destruct Gf as [fs [_ [G2 [_ [_ G5]]]]].
      exists decl, dfl', g. split; [reflexivity|]. split; [reflexivity|]. split; [exact G2|].
      intros c i r Hci Hr Hnn. destruct (G5 c i Hci) as [vs [V1 V2]]. exists vs. split; [exact V1|]. apply V2.
      destruct (rcells_nth _ _ _ _ Kdfl Hr) as [r' [R1 R2]]. rewrite (nth_map_nth_error _ _ _ _ _ R1).
      apply (rcell_not_nan _ _ _ R2 Hnn).
    - rewrite init_lists_assoc in Hf. destruct (assocZ L (cd_tgt_lists d)) as [[decl' dfl']|] eqn:Et; [|discriminate].
      cbn [option_map fst snd] in Hf. injection Hf as <-.
      exists decl', dfl', (empty_frame decl' (map (cell_of_rcell strs) dfl') 0).
      split; [reflexivity|]. split; [reflexivity|]. split; [reflexivity|].
      intros c i r Hci _ _. rewrite (empty_frame_col _ _ _ _ _ Hci). eexists. split; reflexivity. }
  unfold chart_preserved. cbn [c_lists c_meta]. split; [|split; [|split; [|split]]].
  - (* content lists *)
    intros L cols HL. rewrite forallb_forall in O_content. specialize (O_content _ HL). cbn [fst snd] in O_content.
    apply existsb_exists in O_content. destruct O_content as [s [Hin Hs]].
    destruct s as [t sl decl dfl m|? ? ?| |? ?|? ?|?]; cbn [carries_list] in Hs; try discriminate.
    apply andb_true_iff in Hs; destruct Hs as [Hs Hcols]. apply andb_true_iff in Hs; destruct Hs as [E1 E2].
    apply Z.eqb_eq in E1, E2. subst t sl.
    destruct (cast_step_facts d a sm k src oracle Hsrc Hcomp _ _ _ _ _ Hin (O_cast _ Hin)) as [g [G Gf]].
    cbn [cast_facts] in Gf. destruct Gf as [fs [Efs [G2 [G3 [G4 _]]]]].
    assert (Hinl: In (SCast L L decl dfl m) l) by (apply filter_In; split; [exact Hin|reflexivity]).
    assert (Hnd: nodupb (flat_map cast_target l) = true) by (unfold l; rewrite flat_cast_target_filter; exact O_ctgt).
    assert (Eo: assocZ L L' = Some (fin a l g)).
    { rewrite F3. replace (memZ L (flat_map cast_target l)) with true.
      - rewrite (cast_for_in a sm k src oracle _ _ _ _ _ _ Hinl Hnd). rewrite G. reflexivity.
      - symmetry. apply memZ_In. apply in_flat_map. exists (SCast L L decl dfl m). split; [exact Hinl|left; reflexivity]. }
    unfold list_preserved. cbn [c_lists]. exists fs, (fin a l g). split; [exact Efs|]. split; [exact Eo|].
    split; [rewrite fin_nrows; exact G3|].
    intros c Hc. rewrite forallb_forall in Hcols. specialize (Hcols _ Hc). apply existsb_exists in Hcols.
    destruct Hcols as [[c0 s0] [Hp Hp']]. cbn [fst snd] in Hp'. apply andb_true_iff in Hp'. destruct Hp' as [P1 P2].
    apply Z.eqb_eq in P1. subst c0. destruct s0 as [c'|?]; cbn [is_from_column] in P2; [|discriminate].
    apply Z.eqb_eq in P2. subst c'. destruct (G4 _ _ Hp) as [vs [V1 [_ V3]]].
    exists vs. split; [exact V1|]. apply fin_col_vals. exact V3.
  - (* exactly the target's lists and declared columns *)
    unfold lists_declared. cbn [c_lists]. split; [rewrite F2; apply init_lists_names|].
    intros L f Hf. destruct (Hchar L f Hf) as [decl' [dfl' [g [A [B [C _]]]]]]. exists decl', dfl'. split; [exact A|].
    subst f. rewrite fin_cols. exact C.
  - (* nothing missing *)
    unfold nothing_missing. cbn [c_lists]. intros L f c r Hf Hd Hr.
    destruct (Hchar L f Hf) as [decl' [dfl' [g [A [B [C D]]]]]]. unfold declared_default in Hd. rewrite A in Hd.
    destruct (col_index c decl') as [i|] eqn:Ei; [|discriminate].
    destruct (D c i r Ei Hd Hr) as [vs [V1 V2]]. subst f. exists (carry d a c vs). split.
    + apply fin_col_vals. exact V1.
    + apply carry_not_nan. exact V2.
  - (* metadata as mapped *)
    unfold meta_as_mapped. cbn [c_meta]. exact Mmap.
  - (* title / artist / creator / difficulty name *)
    intro r. unfold role_carried. cbn [c_meta].
    destruct (src_role (cd_src_game d) r) as [se|] eqn:Es; [|exact I].
    destruct (tgt_role (cd_tgt_game d) r) as [key|] eqn:Et; [|exact I].
    rewrite forallb_forall in O_roles. assert (Hr: In r ROLES) by (destruct r; cbn; tauto).
    specialize (O_roles _ Hr). unfold role_okb in O_roles. rewrite Es, Et in O_roles.
    apply existsb_exists in O_roles. destruct O_roles as [s [Hin Hs]].
    destruct s as [|b f e| | | |]; try discriminate. apply andb_true_iff in Hs. destruct Hs as [Hk Hc].
    apply mkey_eqb_eq in Hk. subst key. destruct (Mmap b f e Hin) as [v [V1 V2]].
    rewrite (carries_not_opaque _ _ Hc) in V1. destruct (carries_infix x se e v Hc V1) as [sv [S1 S2]].
    exists sv, v. split; [exact S1|]. split; [exact V2|exact S2].
Qed.

(* ------------------------------------------------------------------ G. mapsets: one target chart per source chart, in order *)
Lemma run_charts_spec d a sm oracle : conv_okb d = true -> forall cs k,
  charts_wfb d a sm oracle k cs = true ->
  exists outs, run_charts d a sm oracle k cs = Some outs /\ length outs = length cs
    /\ forall i c, nth_error cs i = Some c ->
         exists out, nth_error outs i = Some out
           /\ conv_chart d a sm (k + i) c (nth (k + i) oracle empty_chart) = Some out
           /\ chart_preserved d a sm (k + i) c (nth (k + i) oracle empty_chart) out.
Proof.
  intros Hok cs. induction cs as [|c cs IH]; intros k Hwf.
  - exists []. split; [reflexivity|]. split; [reflexivity|]. intros i c Hi. destruct i; discriminate.
  - cbn [charts_wfb] in Hwf. apply andb_true_iff in Hwf. destruct Hwf as [H1 H2].
    destruct (conv_chart_preserves d a sm k c _ Hok H1) as [out [O1 O2]].
    destruct (IH (S k) H2) as [outs [R1 [R2 R3]]].
    exists (out :: outs). cbn [run_charts]. rewrite O1, R1. split; [reflexivity|]. split; [cbn; rewrite R2; reflexivity|].
    intros i c0 Hi. destruct i as [|i]; cbn [nth_error] in *.
    + injection Hi as <-. exists out. rewrite Nat.add_0_r. auto.
    + destruct (R3 i c0 Hi) as [o [A B]]. exists o. replace (k + S i)%nat with (S k + i)%nat by lia. auto.
Qed.

Theorem conv_run_one_per_chart d a src oracle :
  conv_okb d = true -> srcset_wfb d a src oracle = true ->
  exists outs, conv_run d a src oracle = Some outs
    /\ length outs = length (ss_charts src)
    /\ forall i c, nth_error (ss_charts src) i = Some c ->
         exists out, nth_error outs i = Some out
           /\ conv_chart d a (ss_meta src) i c (nth i oracle empty_chart) = Some out
           /\ chart_preserved d a (ss_meta src) i c (nth i oracle empty_chart) out.
Proof.
  intros Hok Hwf. unfold srcset_wfb in Hwf. apply andb_true_iff in Hwf. destruct Hwf as [H1 H2].
  destruct (run_charts_spec d a (ss_meta src) oracle Hok _ _ H1) as [outs [R1 [R2 R3]]].
  exists outs. split; [|split; [exact R2|exact R3]].
  unfold conv_run. destruct (cd_shape d); [|exact R1|exact R1].
  destruct (ss_charts src) as [|c [|c' cs]]; try discriminate. exact R1.
Qed.

(* ------------------------------------------------------------------ H. row labels of the source are irrelevant *)
Lemma apply_mapping_abs f f' m : fcols f = fcols f' -> abs_rows f = abs_rows f' ->
  forall b, apply_mapping f m b = apply_mapping f' m b.
Proof.
  intros Hc Hr. induction m as [|[t s] m IH]; intro b; cbn [apply_mapping]; [reflexivity|].
  destruct s as [c|vs].
  - rewrite (col_vals_abs f f' c Hc Hr). destruct (col_vals f' c) as [vs|]; [|reflexivity].
    destruct (set_col t vs b); auto.
  - destruct (set_col t vs b); auto.
Qed.
Lemma cast_abs f f' decl dfl m : fcols f = fcols f' -> abs_rows f = abs_rows f' -> cast f decl dfl m = cast f' decl dfl m.
Proof.
  intros Hc Hr. unfold cast. assert (E: nrows f = nrows f').
  { unfold nrows. rewrite <- (map_length snd (frows f)), <- (map_length snd (frows f')).
    change (length (abs_rows f) = length (abs_rows f')). rewrite Hr. reflexivity. }
  rewrite E. apply apply_mapping_abs; assumption.
Qed.

Lemma assocZ_same_rows L L' n :
  Forall2 (fun nf nf' : Z * frame => fst nf = fst nf' /\ fcols (snd nf) = fcols (snd nf') /\ abs_rows (snd nf) = abs_rows (snd nf')) L L' ->
  match assocZ n L, assocZ n L' with
  | Some f, Some f' => fcols f = fcols f' /\ abs_rows f = abs_rows f'
  | None, None => True
  | _, _ => False
  end.
Proof.
  induction 1 as [|[n1 f1] [n2 f2] L L' [E1 [E2 E3]] _ IH]; cbn [assocZ]; [exact I|].
  cbn [fst snd] in *. subst n2. destruct (n1 =? n)%Z; [split; assumption|exact IH].
Qed.

Lemma nrows_abs f f' : abs_rows f = abs_rows f' -> nrows f = nrows f'.
Proof.
  intro H. unfold nrows. rewrite <- (map_length snd (frows f)), <- (map_length snd (frows f')).
  change (length (abs_rows f) = length (abs_rows f')). rewrite H. reflexivity.
Qed.

Lemma eval_same_rows x x' e :
  x_args x = x_args x' -> x_set x = x_set x' -> same_rows (x_chart x) (x_chart x') -> x_pos x = x_pos x' ->
  eval x e = eval x' e.
Proof.
  intros Ha Hs [Hm Hl] Hp.
  induction e; cbn [eval]; rewrite ?IHe, ?IHe1, ?IHe2, ?IHe3, ?Hs, ?Hm, ?Hp; try reflexivity.
  - (* ELen *) pose proof (assocZ_same_rows _ _ l Hl) as R.
    destruct (assocZ l (c_lists (x_chart x))) as [f|], (assocZ l (c_lists (x_chart x'))) as [f'|]; try contradiction;
      [|reflexivity]. destruct R as [_ R2]. cbn [option_map]. rewrite (nrows_abs _ _ R2). reflexivity.
  - (* EFirstOffset *) pose proof (assocZ_same_rows _ _ l Hl) as R.
    destruct (assocZ l (c_lists (x_chart x))) as [f|], (assocZ l (c_lists (x_chart x'))) as [f'|]; try contradiction;
      [|reflexivity]. destruct R as [R1 R2]. rewrite (col_vals_abs f f' COL_OFFSET R1 R2). reflexivity.
  - (* EStackMaxPlus *) assert (E: stack_col_vals (x_chart x) col = stack_col_vals (x_chart x') col).
    { unfold stack_col_vals. clear - Hl. induction Hl as [|[n1 f1] [n2 f2] L L' [_ [E2 E3]] _ IH]; [reflexivity|].
      cbn [flat_map snd] in *. rewrite (col_vals_abs f1 f2 col E2 E3), IH. reflexivity. }
    rewrite E. reflexivity.
Qed.

Theorem conv_chart_labels_irrelevant d a sm k c c' oracle :
  same_rows c c' -> conv_chart d a sm k c oracle = conv_chart d a sm k c' oracle.
Proof.
  intros [Hm Hl]. unfold conv_chart. generalize (init_chart d (a_strs a)). generalize (steps_of d).
  set (x := mkCtx a sm c k oracle). set (x' := mkCtx a sm c' k oracle).
  assert (Hstep: forall s st, exec_step x s st = exec_step x' s st).
  { intros s st. unfold exec_step.
    assert (E1: step_lists x s (c_lists st) = step_lists x' s (c_lists st)).
    { destruct s as [t sl decl dfl m|? ? ?| |? ?|? ?|?]; cbn [step_lists]; try reflexivity.
      assert (E: cast_step x sl t decl dfl m = cast_step x' sl t decl dfl m).
      { unfold cast_step. cbn [x_chart x_oracle x_args x x'].
        pose proof (assocZ_same_rows _ _ sl Hl) as R.
        destruct (assocZ sl (c_lists c)) as [f|], (assocZ sl (c_lists c')) as [f'|]; try contradiction; [|reflexivity].
        destruct R as [R1 R2]. destruct (resolve_mapping oracle t m); [|reflexivity]. apply cast_abs; assumption. }
      rewrite E. reflexivity. }
    assert (E2: step_meta x s (c_meta st) = step_meta x' s (c_meta st)).
    { destruct s as [?|b f e| |? ?|nm le|?]; cbn [step_meta]; try reflexivity.
      assert (E: meta_value x b f e = meta_value x' b f e).
      { unfold meta_value. destruct e; try reflexivity; apply eval_same_rows; auto; split; assumption. }
      rewrite E. reflexivity.
      assert (E: eval x le = eval x' le) by (apply eval_same_rows; auto; split; assumption).
      rewrite E. reflexivity. }
    rewrite E1, E2. reflexivity. }
  intro ss. induction ss as [|s ss IH]; intro st; cbn [exec_steps]; [reflexivity|].
  rewrite Hstep. destruct (exec_step x' s st); auto.
Qed.

(* ------------------------------------------------------------------ I. the converters that are in the tree NOW *)
(* Re-checked on every run against the descriptions regenerated from the Python source (Generated/Tables.v):
   a statement the translator does not recognise, a dropped or re-routed content column, a lost title / artist /
   creator / difficulty name, an attribute or list the target class does not declare ... make this fail. *)
Definition shipped : list (Z * conv_desc) := Tables.convert.converters.
Lemma shipped_ok : forallb (fun p => conv_okb (snd p)) shipped = true.
Proof. vm_compute. reflexivity. Qed.

Theorem shipped_preserves n d a src oracle :
  In (n, d) shipped -> srcset_wfb d a src oracle = true ->
  exists outs, conv_run d a src oracle = Some outs
    /\ length outs = length (ss_charts src)
    /\ forall i c, nth_error (ss_charts src) i = Some c ->
         exists out, nth_error outs i = Some out
           /\ chart_preserved d a (ss_meta src) i c (nth i oracle empty_chart) out.
Proof.
  intros Hin Hwf. pose proof shipped_ok as H. rewrite forallb_forall in H. specialize (H _ Hin). cbn [snd] in H.
  destruct (conv_run_one_per_chart d a src oracle H Hwf) as [outs [A [B C]]]. exists outs. split; [exact A|]. split; [exact B|].
  intros i c Hi. destruct (C i c Hi) as [out [O1 [_ O3]]]. exists out. auto.
Qed.
