(* Refinement: every TimedList operation on the frame model commutes with the plain-sequence operation. *)
From Coq Require Import ZArith QArith Qround List Bool Lia Lqa Sorting.Permutation.
From RV Require Import Base.PyNum Frame.Frame Lists.TimedList Lists.SeqSpec.
Import ListNotations.
Open Scope Q_scope.

(* rows sorted by offset: no adjacent inversion *)
Fixpoint sorted_prop (cols : list Z) (asc : bool) (l : list row) : Prop :=
  match l with
  | [] => True
  | x :: l' => match l' with
               | [] => True
               | y :: _ => key_lt asc (offset_of cols y) (offset_of cols x) = false /\ sorted_prop cols asc l'
               end
  end.

Definition refines (cols : list Z) (s : sout) (o : tlout) : Prop :=
  match s, o with
  | SRows l, RFrame f => abs_rows f = l /\ fcols f = cols
  | SSorted asc l, RFrame f => Permutation l (abs_rows f) /\ sorted_prop cols asc (abs_rows f) /\ fcols f = cols
  | SNat n, RNat m => n = m
  | SItem a, RItem b => a = b
  | SItems c l, RItems c' l' => c = c' /\ l = l'
  | STime a, RTime b => a = b
  | STime2 a b, RTime2 a' b' => a = a' /\ b = b'
  | SUndefined, RExc => True
  | _, _ => False
  end.

Lemma abs_filter p f : abs_rows (filter_rows p f) = filter p (abs_rows f).
Proof.
  unfold abs_rows, filter_rows; simpl. induction (frows f) as [|[lab r] l IH]; simpl; auto.
  destruct (p r); simpl; rewrite IH; reflexivity.
Qed.

Lemma filter_filter {A} (p q : A -> bool) l : filter q (filter p l) = filter (fun r => p r && q r) l.
Proof.
  induction l as [|x l IH]; simpl; auto. destruct (p x); simpl; [destruct (q x); rewrite IH; reflexivity|exact IH].
Qed.

Lemma nth_z_map {A B} (g : A -> B) l i : nth_z (map g l) i = option_map g (nth_z l i).
Proof.
  unfold nth_z. destruct (i <? 0)%Z; auto. generalize (Z.to_nat i). intro n. revert l.
  induction n as [|n IH]; destruct l; simpl; auto.
Qed.

Lemma pick_map {A B} (g : A -> B) l idx : pick (map g l) idx = map g (pick l idx).
Proof.
  induction idx as [|i idx IH]; simpl; auto. rewrite nth_z_map. destruct (nth_z l i); simpl; rewrite IH; reflexivity.
Qed.

Lemma abs_slice a b s f : abs_rows (iloc_slice a b s f) = seq_slice a b s (abs_rows f).
Proof.
  unfold abs_rows, iloc_slice, seq_slice, nrows; simpl. rewrite map_length. symmetry. apply pick_map.
Qed.

Lemma iloc_row_seq i f : iloc_row i f = seq_get i (abs_rows f).
Proof.
  unfold iloc_row, seq_get, abs_rows, nrows. rewrite map_length.
  destruct (i <? 0)%Z; destruct (_ || _); auto; rewrite nth_z_map; reflexivity.
Qed.

Lemma map_snd_relabel k l : map snd (relabel k l) = l.
Proof. revert k. induction l as [|r l IH]; intros k; simpl; auto. rewrite IH. reflexivity. Qed.

Lemma abs_concat f rows : abs_rows (concat_ignore_index f rows) = abs_rows f ++ rows.
Proof. unfold concat_ignore_index, abs_rows at 1; simpl. apply map_snd_relabel. Qed.

(* ---- insertion sort: permutation and sortedness ---- *)
Section SortFacts.
  Variable key : (Z * row) -> option Q.
  Variable asc : bool.
  Let lt a b := key_lt asc (key a) (key b).

  Lemma insert_perm x l : Permutation (x :: l) (insert_row lt x l).
  Proof.
    induction l as [|y l IH]; simpl; auto. destruct (negb (lt x y)).
    - eapply perm_trans; [apply perm_swap|]. apply perm_skip. exact IH.
    - apply Permutation_refl.
  Qed.

  Lemma sort_perm_acc l acc : Permutation (acc ++ l) (fold_left (fun a x => insert_row lt x a) l acc).
  Proof.
    revert acc. induction l as [|x l IH]; intros acc; simpl.
    - rewrite app_nil_r. apply Permutation_refl.
    - eapply perm_trans; [|apply IH].
      eapply perm_trans; [apply Permutation_sym, Permutation_middle|].
      change (x :: acc ++ l) with ((x :: acc) ++ l).
      apply Permutation_app_tail. apply insert_perm.
  Qed.

  Lemma sort_perm l : Permutation l (sort_rows lt l).
  Proof. unfold sort_rows. apply (sort_perm_acc l []). Qed.

  (* key_lt is a strict weak order on option Q: the two facts insertion sort needs *)
  Lemma key_lt_asym a b : key_lt asc a b = true -> key_lt asc b a = false.
  Proof.
    destruct a as [x|], b as [y|]; simpl; auto; try discriminate.
    destruct asc; intro H; apply Qlt_bool_iff in H; apply Qlt_bool_false; lra.
  Qed.
  Lemma key_lt_negtrans a b c : key_lt asc a b = false -> key_lt asc b c = false -> key_lt asc a c = false.
  Proof.
    destruct a as [x|], b as [y|], c as [z|]; simpl; auto; try discriminate.
    destruct asc; intros H1 H2; apply Qlt_bool_false in H1; apply Qlt_bool_false in H2; apply Qlt_bool_false; lra.
  Qed.

  Fixpoint sorted_lab (l : list (Z * row)) : Prop :=
    match l with
    | [] => True
    | x :: l' => match l' with
                 | [] => True
                 | y :: _ => lt y x = false /\ sorted_lab l'
                 end
    end.

  Lemma sorted_lab_tail x l : sorted_lab (x :: l) -> sorted_lab l.
  Proof. destruct l; simpl; tauto. Qed.

  Lemma insert_sorted x l : sorted_lab l -> sorted_lab (insert_row lt x l).
  Proof.
    induction l as [|y l IH]; intros Hs; [simpl; auto|].
    cbn [insert_row]. destruct (lt x y) eqn:E; cbn [negb].
    - (* x goes first *) cbn [sorted_lab]. split; [apply key_lt_asym; exact E|exact Hs].
    - specialize (IH (sorted_lab_tail _ _ Hs)).
      destruct l as [|z l'].
      + cbn [insert_row sorted_lab]. split; [exact E|exact I].
      + cbn [insert_row] in IH |- *. destruct (lt x z) eqn:E2; cbn [negb] in IH |- *.
        * cbn [sorted_lab] in Hs |- *. split; [exact E|]. exact IH.
        * cbn [sorted_lab] in Hs. destruct Hs as [Hzy Hs']. 
          change (sorted_lab (y :: z :: insert_row lt x l')). 
          remember (insert_row lt x l') as t. cbn [sorted_lab]. split; [exact Hzy|].
          subst t. exact IH.
  Qed.

  Lemma sort_sorted_acc l acc : sorted_lab acc -> sorted_lab (fold_left (fun a x => insert_row lt x a) l acc).
  Proof. revert acc. induction l as [|x l IH]; intros acc H; simpl; auto. apply IH. apply insert_sorted. exact H. Qed.

  Lemma sort_sorted l : sorted_lab (sort_rows lt l).
  Proof. apply sort_sorted_acc. exact I. Qed.
End SortFacts.

Lemma sorted_lab_prop cols asc l :
  sorted_lab (fun lr => num_of (get_cell cols COL_OFFSET (snd lr))) asc l -> sorted_prop cols asc (map snd l).
Proof.
  induction l as [|x l IH]; simpl; auto. destruct l as [|y l']; simpl in *; auto.
  intros [H1 H2]. split; [exact H1|]. apply IH. exact H2.
Qed.

Lemma sort_values_refines asc f :
  Permutation (abs_rows f) (abs_rows (sort_values COL_OFFSET asc f))
  /\ sorted_prop (fcols f) asc (abs_rows (sort_values COL_OFFSET asc f))
  /\ fcols (sort_values COL_OFFSET asc f) = fcols f.
Proof.
  unfold sort_values, abs_rows; simpl. split; [|split; auto].
  - apply Permutation_map. apply sort_perm.
  - apply sorted_lab_prop. apply sort_sorted.
Qed.

(* operations the plain-sequence semantics defines: the hold-only variants need a hold list *)
Definition op_defined (hold : bool) (o : tlop) : bool :=
  match o with
  | OHAfter _ _ _ | OHBefore _ _ _ | OHBetween _ _ _ _ _ _ => hold
  | _ => true
  end.

Theorem step_refines hold allowed f o :
  refines (fcols f) (seq_step hold allowed (fcols f) (abs_rows f) o) (tl_step hold allowed f o).
Proof.
  destruct o; cbn [seq_step tl_step refines]; auto.
  - unfold nrows, abs_rows. rewrite map_length. reflexivity.
  - symmetry. apply iloc_row_seq.
  - split; [apply abs_slice|reflexivity].
  - apply sort_values_refines.
  - destruct sort.
    + destruct (sort_values_refines true (concat_ignore_index f rows)) as [P [S C]].
      rewrite abs_concat in P. split; [exact P|]. split; [exact S|exact C].
    + split; [apply abs_concat|reflexivity].
  - destruct hold; cbn [refines]; split; auto; apply abs_filter.
  - destruct hold; cbn [refines]; split; auto; apply abs_filter.
  - destruct hold; cbn [refines]; (split; [|reflexivity]); rewrite !abs_filter, filter_filter; reflexivity.
  - destruct hold; cbn [refines]; auto. split; auto; apply abs_filter.
  - destruct hold; cbn [refines]; auto. split; auto; apply abs_filter.
  - destruct hold; cbn [refines]; auto. split; [|reflexivity]. rewrite !abs_filter, filter_filter. reflexivity.
Qed.

(* labels are irrelevant to every operation: two frames with the same columns and rows give the same abstract result *)
Definition next_state (f : frame) (o : tlout) : frame := match o with RFrame g => g | _ => f end.

(* histories: along any operation sequence, every step refines the sequence semantics of the state it starts from *)
Fixpoint history_refines (hold : bool) (allowed : list Z) (f : frame) (ops : list tlop) : Prop :=
  match ops with
  | [] => True
  | o :: ops' =>
      refines (fcols f) (seq_step hold allowed (fcols f) (abs_rows f) o) (tl_step hold allowed f o)
      /\ history_refines hold allowed (next_state f (tl_step hold allowed f o)) ops'
  end.

Theorem history_refines_all hold allowed ops : forall f, history_refines hold allowed f ops.
Proof.
  induction ops as [|o ops IH]; intros f; simpl; auto. split; [apply step_refines|apply IH].
Qed.

(* the boolean oracle used on implementation outputs is sound for the relation proved of the model *)
Lemma cell_eqb_refl c : cell_eqb c c = true.
Proof.
  destruct c; simpl; auto.
  - apply Qeq_bool_refl.
  - apply Z.eqb_refl.
  - destruct b; reflexivity.
  - induction l as [|x l IH]; simpl; auto. rewrite Z.eqb_refl. exact IH.
Qed.
Lemma row_eqb_refl r : row_eqb r r = true.
Proof. induction r as [|c r IH]; simpl; auto. rewrite cell_eqb_refl. exact IH. Qed.
Lemma rows_eqb_refl l : rows_eqb l l = true.
Proof. induction l as [|r l IH]; simpl; auto. rewrite row_eqb_refl. exact IH. Qed.
