(* C05, whole file: bms_denote (bms_write c) is the chart, for every chart of write_dom (bms_write_denotes). *)
From Coq Require Import ZArith QArith Qround Qabs List Bool Lia Lqa Sorting.Permutation Sorting.Sorted.
From RV Require Import Base.PyNum Timing.Snapper Timing.Snap Timing.TimingMap Timing.Integrate Timing.Domain Timing.Domain2
  Formats.BMSText Formats.BMS Formats.BMSSpec Proofs.SnapperProofs Proofs.TimingProofs Proofs.RederiveProofs Proofs.TimingProofs2
  Proofs.BMSProofs Proofs.BMSDenoteProofs Proofs.BMSParseProofs Proofs.BMSWriteProofs Proofs.BMSWriteTimingProofs
  Proofs.BMSWriteLaneProofs Proofs.BMSWriteLanesProofs.
Import ListNotations.
Open Scope Z_scope.

Local Arguments text_eqb : simpl never.

(* ================================================================ A. small facts ================================================================ *)
Lemma time_of_go_qssim rest : forall t cur q q', ssim q q' -> (time_of_go t cur rest q == time_of_go t cur rest q')%Q.
Proof.
  induction rest as [|n rest IH]; intros t cur q q' S; cbn [time_of_go].
  - rewrite (seg_beats_ssim (bs_met cur) (bs_snap cur) (bs_snap cur) q q'); [reflexivity|split; reflexivity|exact S].
  - assert (E : snap_le (bs_snap n) q = snap_le (bs_snap n) q').
    { destruct (snap_le (bs_snap n) q) eqn:E1; symmetry.
      - apply snap_le_iff. apply snap_le_iff in E1. apply (sle_ssim _ _ _ _ (conj eq_refl (Qeq_refl _)) S E1).
      - destruct (snap_le (bs_snap n) q') eqn:E2; [|reflexivity]. apply snap_le_iff in E2.
        assert (S' : ssim q' q) by (destruct S; split; [auto|symmetry; auto]).
        pose proof (sle_ssim _ _ _ _ (conj eq_refl (Qeq_refl _)) S' E2) as X. apply snap_le_iff in X. congruence. }
    rewrite E. destruct (snap_le (bs_snap n) q'); [apply IH; exact S|].
    rewrite (seg_beats_ssim (bs_met cur) (bs_snap cur) (bs_snap cur) q q'); [reflexivity|split; reflexivity|exact S].
Qed.
Lemma time_of_qssim init l q q' : ssim q q' -> (time_of init l q == time_of init l q')%Q.
Proof. destruct l; [reflexivity|]. apply time_of_go_qssim. Qed.

(* an object placed at a position of the chart's timing: measure, fraction of a 4-beat measure *)
Definition pobj (s : snap) (ch v : text) : sobj := mkObj (s_m s) (Qred (s_b s / 4)) ch v.

Lemma snap_of_pobj s ch v : ssim (snap_of (pobj s ch v)) s.
Proof. unfold snap_of, pobj, BEATS_PER_MEASURE, ssim. cbn [o_measure o_pos s_m s_b]. split; [reflexivity|]. rewrite !Qred_correct. field. Qed.

Lemma Qlt_bool_wd a b c d : (a == c)%Q -> (b == d)%Q -> Qlt_bool a b = Qlt_bool c d.
Proof.
  intros E1 E2. destruct (Qlt_bool a b) eqn:X; symmetry.
  - apply Qlt_bool_iff. apply Qlt_bool_iff in X. rewrite <- E1, <- E2. exact X.
  - apply Qlt_bool_false. apply Qlt_bool_false in X. rewrite <- E1, <- E2. exact X.
Qed.
Lemma Qeq_bool_wd a b c d : (a == c)%Q -> (b == d)%Q -> Qeq_bool a b = Qeq_bool c d.
Proof.
  intros E1 E2. destruct (Qeq_bool a b) eqn:X; symmetry.
  - apply Qeq_bool_iff. apply Qeq_bool_iff in X. rewrite <- E1, <- E2. exact X.
  - destruct (Qeq_bool c d) eqn:Y; [|reflexivity]. apply Qeq_bool_iff in Y.
    assert (Qeq_bool a b = true) by (apply Qeq_bool_iff; rewrite E1, E2; exact Y). congruence.
Qed.

Lemma obj_lt_pobj s ch v s' ch' v' : obj_lt (pobj s ch v) (pobj s' ch' v') = snap_lt s s'.
Proof.
  unfold obj_lt. destruct (snap_of_pobj s ch v) as [M B]. destruct (snap_of_pobj s' ch' v') as [M' B'].
  unfold snap_lt. rewrite M, M'. rewrite (Qlt_bool_wd _ _ _ _ B B'). reflexivity.
Qed.
Lemma same_pos_pobj s ch v s' ch' v' : same_pos (pobj s ch v) (pobj s' ch' v') = snap_eq s s'.
Proof.
  unfold same_pos, snap_eq, pobj. cbn [o_measure o_pos]. f_equal.
  destruct (Qeq_bool (s_b s) (s_b s')) eqn:E.
  - apply Qeq_bool_iff. apply Qeq_bool_iff in E. rewrite !Qred_correct, E. reflexivity.
  - destruct (Qeq_bool (Qred (s_b s / 4)) (Qred (s_b s' / 4))) eqn:E2; [|reflexivity]. apply Qeq_bool_iff in E2.
    rewrite !Qred_correct in E2.
    assert (X : (s_b s == (s_b s / 4) * 4)%Q) by field. assert (Y : (s_b s' == (s_b s' / 4) * 4)%Q) by field.
    assert (Qeq_bool (s_b s) (s_b s') = true) by (apply Qeq_bool_iff; rewrite X, Y, E2; reflexivity). congruence.
Qed.

(* the row the writer makes for a placed object denotes that object *)
Lemma row_obj_of s ch v : (s_met s == 4)%Q -> row_obj (row_of s ch v) = pobj s ch v.
Proof.
  intro M. unfold row_obj, row_of, pobj, row_pos. cbn [wr_measure wr_channel wr_value wr_num wr_den]. f_equal.
  apply Qred_complete.
  assert (Ed : qtrunc (inject_Z (Zpos (Qden (s_b s))) * s_met s) = 4 * Zpos (Qden (s_b s))).
  { apply qtrunc_inject; [lia|]. rewrite M, inject_Z_mult. change (inject_Z 4) with 4%Q. ring. }
  rewrite Ed. rewrite inject_Z_mult. change (inject_Z 4) with 4%Q.
  destruct (s_b s) as [n d]. cbn [Qnum Qden]. unfold Qdiv, Qmult, Qinv, Qeq, inject_Z. cbn. destruct n; cbn; lia.
Qed.
Lemma row_of_fields s ch v : (s_met s == 4)%Q ->
  wr_measure (row_of s ch v) = s_m s /\ wr_channel (row_of s ch v) = ch /\ wr_value (row_of s ch v) = v
  /\ wr_den (row_of s ch v) = 4 * Zpos (Qden (s_b s)) /\ wr_num (row_of s ch v) = Qnum (s_b s).
Proof.
  intro M. unfold row_of. cbn [wr_measure wr_channel wr_value wr_num wr_den]. repeat split.
  apply qtrunc_inject; [lia|]. rewrite M, inject_Z_mult. change (inject_Z 4) with 4%Q. ring.
Qed.

(* ================================================================ B. the header section, read back ================================================================ *)
Lemma data_line_none_nondigit c r : is_digit c = false -> data_line (35 :: c :: r) = None.
Proof.
  intro D. destruct (data_line (35 :: c :: r)) as [[[m ch] data]|] eqn:E; [|reflexivity].
  destruct (data_line_digit _ _ _ _ E) as [a [b [c' [x [y [Et [_ [Da _]]]]]]]]. inversion Et; subst. congruence.
Qed.
Lemma split_first_at k v : ~ In 32 k -> split_first 32 (k ++ 32 :: v) = (k, Some v).
Proof.
  induction k as [|c k IH]; intro N; cbn; [reflexivity|].
  destruct (c =? 32) eqn:E; [apply Z.eqb_eq in E; subst; exfalso; apply N; left; reflexivity|].
  rewrite IH; [reflexivity|]. intro; apply N; right; assumption.
Qed.
Lemma header_line_kv c k v : is_digit c = false -> ~ In 32 (c :: k) ->
  header_line (35 :: (c :: k) ++ 32 :: v) = Some (c :: k, v) /\ objs_of_line (35 :: (c :: k) ++ 32 :: v) = [].
Proof.
  intros D N. unfold header_line, objs_of_line. cbn [app]. rewrite (data_line_none_nondigit c _ D).
  change (c :: k ++ 32 :: v) with ((c :: k) ++ 32 :: v). rewrite (split_first_at _ _ N). split; reflexivity.
Qed.

Definition key_line_ok (k : text) : Prop := match k with c :: _ => is_digit c = false | [] => False end /\ ~ In 32 k.

Lemma header_line_key k v : key_line_ok k ->
  header_line ([35] ++ k ++ [32] ++ v) = Some (k, v) /\ objs_of_line ([35] ++ k ++ [32] ++ v) = [].
Proof. intros [D N]. destruct k as [|c k]; [contradiction|]. apply (header_line_kv c k v D N). Qed.

Lemma headers_of_map {A} (f : A -> text) (g : A -> text * text) (l : list A) :
  (forall x, In x l -> header_line (f x) = Some (g x) /\ objs_of_line (f x) = []) ->
  headers_of (map f l) = map g l /\ flat_map objs_of_line (map f l) = [].
Proof.
  induction l as [|x l IH]; intro H; [split; reflexivity|]. destruct (H x (or_introl eq_refl)) as [E1 E2].
  destruct (IH (fun y I => H y (or_intror I))) as [E3 E4]. unfold headers_of in *. cbn [map flat_map]. rewrite E1, E2, E3, E4. split; reflexivity.
Qed.
Lemma headers_of_app a b : headers_of (a ++ b) = headers_of a ++ headers_of b.
Proof. unfold headers_of. apply flat_map_app. Qed.

Lemma b36_pair_no_blank n : 0 <= n < 1296 -> ~ In 32 (b36_pair n) /\ length (b36_pair n) = 2%nat.
Proof.
  intro H. destruct (is_b36_pair_chars _ (b36_pair_is_pair n H)) as [x [y [E [X1 [_ [Y1 _]]]]]]. rewrite E. split; [|reflexivity].
  intros [I|[I|[]]]; congruence.
Qed.
Lemma b36_id_no_blank k : is_b36_pair k = true -> ~ In 32 k /\ length k = 2%nat.
Proof.
  intro H. destruct (is_b36_pair_chars _ H) as [x [y [E [X1 [_ [Y1 _]]]]]]. rewrite E. split; [|reflexivity].
  intros [I|[I|[]]]; congruence.
Qed.

Definition hdr_table (r : Q -> text) (c : wchart) (b0 : bco) : list (text * text) :=
  [(S_TITLE, w_title c); (S_ARTIST, w_artist c); (S_BPM, r (bo_bpm b0)); (S_PLAYLEVEL, w_version c)]
  ++ w_misc c ++ [(S_LNOBJ, w_lnobj c)]
  ++ map (fun eb => (S_BPM ++ b36_pair (Z.of_nat (fst eb)), fmt_fixed 3 (bo_bpm (snd eb)))) (combine (seq 1 (length (w_bpms c))) (w_bpms c))
  ++ map (fun kv => (S_WAV ++ fst kv, snd kv)) (w_samples c).

Lemma misc_key_ok_facts k : misc_key_ok k = true ->
  key_line_ok k /\ k <> S_LNOBJ /\ is_table_key S_BPM k = false /\ is_table_key S_WAV k = false.
Proof.
  unfold misc_key_ok. intro H. apply andb_true_iff in H. destruct H as [H H5]. apply andb_true_iff in H. destruct H as [H H4].
  apply andb_true_iff in H. destruct H as [H H3]. apply andb_true_iff in H. destruct H as [H1 H2].
  apply negb_true_iff in H1, H3, H4, H5. repeat split; auto.
  - destruct k as [|c k]; [discriminate|]. apply negb_true_iff in H2. exact H2.
  - intro I. assert (existsb (Z.eqb 32) k = true) by (apply existsb_exists; exists 32; split; [exact I|reflexivity]). congruence.
  - apply text_eqb_false_iff. exact H3.
Qed.

Definition header_lines (c : wchart) (b0 : bco) : list wline :=
  [WText (T_TITLE ++ w_title c); WText (T_ARTIST ++ w_artist c); WBpm0 (bo_bpm b0); WText (T_PLAYLEVEL ++ w_version c)]
  ++ map (fun kv => WText ([35] ++ fst kv ++ [32] ++ snd kv)) (w_misc c)
  ++ [WText (T_LNOBJ ++ w_lnobj c)]
  ++ map (fun eb => WText (T_BPM ++ b36_pair (Z.of_nat (fst eb)) ++ [32] ++ fmt_fixed 3 (bo_bpm (snd eb))))
         (combine (seq 1 (length (w_bpms c))) (w_bpms c))
  ++ map (fun kv => WText (T_WAV ++ fst kv ++ [32] ++ snd kv)) (w_samples c).

Lemma write_header_eq c b0 rest : w_bpms c = b0 :: rest -> (length (w_bpms c) < MAX_BPMS)%nat -> w_lnobj c <> [] ->
  write_header c = Some (header_lines c b0).
Proof.
  intros E L N. unfold write_header, header_lines. apply Nat.ltb_lt in L.
  remember (w_bpms c) as bs eqn:Ebs. rewrite L. cbn [negb]. subst bs. rewrite E.
  destruct (w_lnobj c); [contradiction|]. reflexivity.
Qed.

Theorem written_header (r : Q -> text) (c : wchart) (b0 : bco) :
  (length (w_bpms c) < MAX_BPMS)%nat ->
  is_b36_pair (w_lnobj c) = true ->
  Forall (fun kv => misc_key_ok (fst kv) = true) (w_misc c) ->
  Forall (fun kv => is_b36_pair (fst kv) = true) (w_samples c) ->
  headers_of (map (render_with r) (header_lines c b0)) = hdr_table r c b0
  /\ flat_map objs_of_line (map (render_with r) (header_lines c b0)) = [].
Proof.
  intros El Hl Hm Hs. unfold header_lines. rewrite !map_app. cbn [map render_with].
  (* the mapped sections *)
  destruct (headers_of_map (fun kv : text * text => render_with r (WText ([35] ++ fst kv ++ [32] ++ snd kv))) (fun kv => kv) (w_misc c)) as [M1 M2].
  { intros kv I. rewrite Forall_forall in Hm. destruct (misc_key_ok_facts _ (Hm kv I)) as [K _]. cbn [render_with].
    destruct kv as [k v]. apply (header_line_key k v K). }
  destruct (headers_of_map (fun eb : nat * bco => render_with r (WText (T_BPM ++ b36_pair (Z.of_nat (fst eb)) ++ [32] ++ fmt_fixed 3 (bo_bpm (snd eb)))))
              (fun eb => (S_BPM ++ b36_pair (Z.of_nat (fst eb)), fmt_fixed 3 (bo_bpm (snd eb)))) (combine (seq 1 (length (w_bpms c))) (w_bpms c))) as [X1 X2].
  { intros [e b] I. cbn [render_with fst snd]. apply in_combine_l in I. apply in_seq in I. unfold MAX_BPMS in El.
    destruct (b36_pair_no_blank (Z.of_nat e) ltac:(lia)) as [Nb _].
    change (T_BPM ++ b36_pair (Z.of_nat e) ++ [32] ++ fmt_fixed 3 (bo_bpm b)) with ([35] ++ (S_BPM ++ b36_pair (Z.of_nat e)) ++ [32] ++ fmt_fixed 3 (bo_bpm b)).
    apply header_line_key. split; [reflexivity|]. intro I2. apply in_app_or in I2. destruct I2 as [I2|I2]; [|contradiction].
    cbn in I2. destruct I2 as [I2|[I2|[I2|[]]]]; discriminate. }
  destruct (headers_of_map (fun kv : text * text => render_with r (WText (T_WAV ++ fst kv ++ [32] ++ snd kv))) (fun kv => (S_WAV ++ fst kv, snd kv)) (w_samples c)) as [W1 W2].
  { intros [k v] I. cbn [render_with fst snd]. rewrite Forall_forall in Hs. destruct (b36_id_no_blank k (Hs _ I)) as [Nb _].
    change (T_WAV ++ k ++ [32] ++ v) with ([35] ++ (S_WAV ++ k) ++ [32] ++ v).
    apply header_line_key. split; [reflexivity|]. intro I2. apply in_app_or in I2. destruct I2 as [I2|I2]; [|contradiction].
    cbn in I2. destruct I2 as [I2|[I2|[I2|[]]]]; discriminate. }
  rewrite !map_map in *. cbv beta in *.
  (* the single lines *)
  destruct (header_line_key S_TITLE (w_title c) ltac:(split; [reflexivity|intro I; cbn in I; intuition discriminate])) as [T1 T2].
  destruct (header_line_key S_ARTIST (w_artist c) ltac:(split; [reflexivity|intro I; cbn in I; intuition discriminate])) as [A1 A2].
  destruct (header_line_key S_BPM (r (bo_bpm b0)) ltac:(split; [reflexivity|intro I; cbn in I; intuition discriminate])) as [B1 B2].
  destruct (header_line_key S_PLAYLEVEL (w_version c) ltac:(split; [reflexivity|intro I; cbn in I; intuition discriminate])) as [P1 P2].
  destruct (header_line_key S_LNOBJ (w_lnobj c) ltac:(split; [reflexivity|intro I; cbn in I; intuition discriminate])) as [L1 L2].
  unfold hdr_table. split.
  - rewrite !headers_of_app. unfold text in *. rewrite M1, X1, W1, map_id. unfold headers_of. cbn [flat_map].
    change (T_TITLE ++ w_title c) with ([35] ++ S_TITLE ++ [32] ++ w_title c).
    change (T_ARTIST ++ w_artist c) with ([35] ++ S_ARTIST ++ [32] ++ w_artist c).
    change (T_BPM ++ [32] ++ r (bo_bpm b0)) with ([35] ++ S_BPM ++ [32] ++ r (bo_bpm b0)).
    change (T_PLAYLEVEL ++ w_version c) with ([35] ++ S_PLAYLEVEL ++ [32] ++ w_version c).
    change (T_LNOBJ ++ w_lnobj c) with ([35] ++ S_LNOBJ ++ [32] ++ w_lnobj c).
    rewrite T1, A1, B1, P1, L1. reflexivity.
  - rewrite !flat_map_app. unfold text in *. rewrite M2, X2, W2. cbn [flat_map].
    change (T_TITLE ++ w_title c) with ([35] ++ S_TITLE ++ [32] ++ w_title c).
    change (T_ARTIST ++ w_artist c) with ([35] ++ S_ARTIST ++ [32] ++ w_artist c).
    change (T_BPM ++ [32] ++ r (bo_bpm b0)) with ([35] ++ S_BPM ++ [32] ++ r (bo_bpm b0)).
    change (T_PLAYLEVEL ++ w_version c) with ([35] ++ S_PLAYLEVEL ++ [32] ++ w_version c).
    change (T_LNOBJ ++ w_lnobj c) with ([35] ++ S_LNOBJ ++ [32] ++ w_lnobj c).
    rewrite T2, A2, B2, P2, L2. reflexivity.
Qed.

(* ================================================================ C. the tables of the written header ================================================================ *)
Lemma table_of_app p a b : table_of p (a ++ b) = table_of p a ++ table_of p b.
Proof. unfold table_of. apply flat_map_app. Qed.
Lemma table_of_none p (l : list (text * text)) : (forall kv, In kv l -> is_table_key p (fst kv) = false) -> table_of p l = [].
Proof.
  induction l as [|[k v] l IH]; intro H; [reflexivity|]. rewrite table_of_cons.
  pose proof (H (k, v) (or_introl eq_refl)) as Hk. cbn [fst] in Hk. rewrite Hk. cbn [app].
  apply IH. intros kv I. apply H. right. exact I.
Qed.
Lemma hlookup_app k (a b : list (text * text)) : hlookup k (a ++ b) = match hlookup k a with Some v => Some v | None => hlookup k b end.
Proof. induction a as [|[k' v] a IH]; [reflexivity|]. cbn [app hlookup]. destruct (text_eqb k k'); [reflexivity|exact IH]. Qed.
Lemma hlookup_none k (l : list (text * text)) : (forall kv, In kv l -> fst kv <> k) -> hlookup k l = None.
Proof.
  induction l as [|[k' v] l IH]; intro H; [reflexivity|]. cbn [hlookup].
  rewrite text_eqb_neq by (intro E; apply (H (k', v) (or_introl eq_refl)); symmetry; exact E).
  apply IH. intros kv I. apply H. right. exact I.
Qed.
Lemma hlookup_in_nodup (l : list (text * text)) k v : NoDup (map fst l) -> In (k, v) l -> hlookup k l = Some v.
Proof.
  induction l as [|[k' v'] l IH]; intros N I; [contradiction|]. cbn [map fst] in N. inversion N as [|? ? Nk N']; subst.
  cbn [hlookup]. destruct I as [E|I].
  - inversion E; subst. rewrite text_eqb_refl. reflexivity.
  - rewrite text_eqb_neq; [apply IH; assumption|]. intro E. subst k'. apply Nk. apply in_map_iff. exists (k, v). auto.
Qed.

Definition ex_table (c : wchart) : list (text * text) :=
  map (fun eb => (b36_pair (Z.of_nat (fst eb)), fmt_fixed 3 (bo_bpm (snd eb)))) (combine (seq 1 (length (w_bpms c))) (w_bpms c)).

Lemma table_of_prefixed_same p {A} (k : A -> text) (v : A -> text) (l : list A) : length p = 3%nat ->
  (forall x, In x l -> length (k x) = 2%nat) ->
  table_of p (map (fun x => (p ++ k x, v x)) l) = map (fun x => (k x, v x)) l.
Proof.
  intros Lp H. induction l as [|x l IH]; [reflexivity|]. cbn [map]. rewrite table_of_cons.
  assert (S1 : forall t, starts_with p (p ++ t) = true).
  { intro t. clear. induction p as [|c p IHp]; [reflexivity|]. cbn. rewrite Z.eqb_refl. exact IHp. }
  unfold is_table_key. rewrite S1, app_length, Lp, (H x (or_introl eq_refl)). cbn [Nat.add Nat.eqb andb app].
  assert (skipn 3 (p ++ k x) = k x) as ->.
  { destruct p as [|a [|b [|c [|d p']]]]; try discriminate. reflexivity. }
  f_equal. apply IH. intros y I. apply H. right. exact I.
Qed.
Lemma table_of_prefixed_other p q {A} (k : A -> text) (v : A -> text) (l : list A) :
  (forall t, starts_with p (q ++ t) = false) ->
  table_of p (map (fun x => (q ++ k x, v x)) l) = [].
Proof.
  intro H. apply table_of_none. intros kv I. apply in_map_iff in I. destruct I as [x [<- _]]. cbn [fst].
  unfold is_table_key. rewrite H. reflexivity.
Qed.

Section HeaderTables.
  Variables (r : Q -> text) (c : wchart) (b0 : bco).
  Hypothesis Hm : Forall (fun kv => misc_key_ok (fst kv) = true) (w_misc c).
  Hypothesis Hs : Forall (fun kv => is_b36_pair (fst kv) = true) (w_samples c).
  Let hs := hdr_table r c b0.

  Lemma hdr_bpm : hlookup S_BPM hs = Some (r (bo_bpm b0)).
  Proof. reflexivity. Qed.
  Lemma hdr_title : hlookup S_TITLE hs = Some (w_title c) /\ hlookup S_ARTIST hs = Some (w_artist c) /\ hlookup S_PLAYLEVEL hs = Some (w_version c).
  Proof. repeat split; reflexivity. Qed.
  Lemma hdr_lnobj : hlookup S_LNOBJ hs = Some (w_lnobj c).
  Proof.
    unfold hs, hdr_table. rewrite hlookup_app. assert (hlookup S_LNOBJ [(S_TITLE, w_title c); (S_ARTIST, w_artist c); (S_BPM, r (bo_bpm b0)); (S_PLAYLEVEL, w_version c)] = None) as -> by reflexivity.
    rewrite hlookup_app. rewrite hlookup_none; [reflexivity|].
    intros kv I. rewrite Forall_forall in Hm. destruct (misc_key_ok_facts _ (Hm kv I)) as [_ [N _]]. exact N.
  Qed.
  Lemma hdr_ext : table_of S_BPM hs = ex_table c.
  Proof.
    unfold hs, hdr_table. rewrite !table_of_app.
    assert (table_of S_BPM [(S_TITLE, w_title c); (S_ARTIST, w_artist c); (S_BPM, r (bo_bpm b0)); (S_PLAYLEVEL, w_version c)] = []) as -> by reflexivity.
    rewrite (table_of_none S_BPM (w_misc c)).
    2:{ intros kv I. rewrite Forall_forall in Hm. destruct (misc_key_ok_facts _ (Hm kv I)) as [_ [_ [N _]]]. exact N. }
    assert (table_of S_BPM [(S_LNOBJ, w_lnobj c)] = []) as -> by reflexivity.
    match goal with |- context [table_of S_BPM (map ?f (w_samples c))] =>
      assert (E : table_of S_BPM (map f (w_samples c)) = []) by (apply (table_of_prefixed_other S_BPM S_WAV fst snd (w_samples c)); intro t; reflexivity);
      rewrite E; clear E end.
    cbn [app]. rewrite app_nil_r.
    apply (table_of_prefixed_same S_BPM (fun eb : nat * bco => b36_pair (Z.of_nat (fst eb))) (fun eb => fmt_fixed 3 (bo_bpm (snd eb)))); [reflexivity|].
    intros x _. reflexivity.
  Qed.
  Lemma hdr_wav : table_of S_WAV hs = w_samples c.
  Proof.
    unfold hs, hdr_table. rewrite !table_of_app.
    assert (table_of S_WAV [(S_TITLE, w_title c); (S_ARTIST, w_artist c); (S_BPM, r (bo_bpm b0)); (S_PLAYLEVEL, w_version c)] = []) as -> by reflexivity.
    rewrite (table_of_none S_WAV (w_misc c)).
    2:{ intros kv I. rewrite Forall_forall in Hm. destruct (misc_key_ok_facts _ (Hm kv I)) as [_ [_ [_ N]]]. exact N. }
    assert (table_of S_WAV [(S_LNOBJ, w_lnobj c)] = []) as -> by reflexivity.
    match goal with |- context [table_of S_WAV (map ?f (combine ?a ?b))] =>
      assert (E : table_of S_WAV (map f (combine a b)) = []) by
        (apply (table_of_prefixed_other S_WAV S_BPM (fun eb : nat * bco => b36_pair (Z.of_nat (fst eb))) (fun eb => fmt_fixed 3 (bo_bpm (snd eb)))); intro t; reflexivity);
      rewrite E; clear E end.
    cbn [app].
    match goal with |- table_of S_WAV (map ?f (w_samples c)) = _ =>
      assert (E : table_of S_WAV (map f (w_samples c)) = map (fun x => (fst x, snd x)) (w_samples c)) end.
    { apply (table_of_prefixed_same S_WAV fst snd (w_samples c)); [reflexivity|].
      intros x I. rewrite Forall_forall in Hs. destruct (b36_id_no_blank _ (Hs x I)) as [_ L]. exact L. }
    rewrite E. clear. induction (w_samples c) as [|[k v] l IH]; [reflexivity|]. cbn [map fst snd]. f_equal. exact IH.
  Qed.
  Lemma hdr_misc kv : In kv (w_misc c) -> In kv hs.
  Proof. intro I. unfold hs, hdr_table. apply in_or_app. right. apply in_or_app. left. exact I. Qed.
End HeaderTables.

(* the '#BPMxx' table: id e -> the three-decimal print of the e-th tempo *)
Lemma ex_table_keys c : (length (w_bpms c) < MAX_BPMS)%nat -> NoDup (map fst (ex_table c)).
Proof.
  intro L. unfold ex_table. rewrite map_map. cbn [fst].
  assert (G : forall (l : list bco) n, (n + length l <= 1295)%nat -> NoDup (map (fun x : nat * bco => b36_pair (Z.of_nat (fst x))) (combine (seq n (length l)) l))).
  { induction l as [|b l IH]; intros n Hn; [constructor|]. cbn [length seq combine map fst]. constructor.
    - intro I. apply in_map_iff in I. destruct I as [[e b'] [E I]]. cbn [fst] in E. apply in_combine_l in I. apply in_seq in I.
      cbn [length] in Hn. apply b36_pair_injective in E; lia.
    - apply IH. cbn [length] in Hn. lia. }
  apply G. unfold MAX_BPMS in L. lia.
Qed.
Lemma ex_table_lookup c e b : (length (w_bpms c) < MAX_BPMS)%nat -> In (e, b) (combine (seq 1 (length (w_bpms c))) (w_bpms c)) ->
  hlookup (b36_pair (Z.of_nat e)) (ex_table c) = Some (fmt_fixed 3 (bo_bpm b)).
Proof.
  intros L I. apply hlookup_in_nodup; [apply ex_table_keys; exact L|].
  unfold ex_table. apply in_map_iff. exists (e, b). split; [reflexivity|exact I].
Qed.
Lemma bpm_3f_parse b : bpm_3f_ok b = true -> parse_decimal (fmt_fixed 3 (bo_bpm b)) = Some (bo_bpm b).
Proof. unfold bpm_3f_ok. destruct (parse_decimal _) as [q|]; [|discriminate]. intro H. apply Q_same_eq in H. subst. reflexivity. Qed.
Lemma ex_table_parses c : Forall (fun b => bpm_3f_ok b = true) (w_bpms c) ->
  all_someq (map (fun kv => (fst kv, parse_decimal (snd kv))) (ex_table c))
  = Some (map (fun eb => (b36_pair (Z.of_nat (fst eb)), bo_bpm (snd eb))) (combine (seq 1 (length (w_bpms c))) (w_bpms c))).
Proof.
  intro F. unfold ex_table. rewrite map_map. cbn [fst snd].
  assert (G : forall (l : list bco) n, Forall (fun b => bpm_3f_ok b = true) l ->
    all_someq (map (fun x : nat * bco => (b36_pair (Z.of_nat (fst x)), parse_decimal (fmt_fixed 3 (bo_bpm (snd x))))) (combine (seq n (length l)) l))
    = Some (map (fun eb : nat * bco => (b36_pair (Z.of_nat (fst eb)), bo_bpm (snd eb))) (combine (seq n (length l)) l))).
  { induction l as [|b l IH]; intros n Fl; [reflexivity|]. inversion Fl as [|? ? Fb Fl']; subst.
    cbn [length seq combine map fst snd all_someq]. rewrite (bpm_3f_parse b Fb), (IH (S n) Fl'). reflexivity. }
  apply G. exact F.
Qed.

(* ================================================================ D. list bookkeeping ================================================================ *)
Lemma all_some'_total {A B} (f : A -> option B) (g : A -> B) (l : list A) :
  (forall x, In x l -> f x = Some (g x)) -> all_some' (map f l) = Some (map g l).
Proof.
  induction l as [|x l IH]; intro H; [reflexivity|]. cbn [map all_some']. rewrite (H x (or_introl eq_refl)).
  rewrite IH by (intros y I; apply H; right; exact I). reflexivity.
Qed.
Lemma no_dup_by_map {A B} (e : B -> B -> bool) (f : A -> B) l : no_dup_by e (map f l) = no_dup_by (fun a b => e (f a) (f b)) l.
Proof.
  induction l as [|x l IH]; [reflexivity|]. cbn [map no_dup_by]. rewrite IH. f_equal. f_equal.
  clear. induction l as [|y l IH]; [reflexivity|]. cbn [map existsb]. rewrite IH. reflexivity.
Qed.
Lemma no_dup_by_ext {A} (e e' : A -> A -> bool) l : (forall a b, In a l -> In b l -> e a b = e' a b) -> no_dup_by e l = no_dup_by e' l.
Proof.
  induction l as [|x l IH]; intro H; [reflexivity|]. cbn [no_dup_by]. rewrite IH by (intros a b Ia Ib; apply H; right; assumption).
  f_equal. f_equal. assert (G : forall l', incl l' l -> existsb (e x) l' = existsb (e' x) l').
  { induction l' as [|y l' IH']; intro I; [reflexivity|]. cbn [existsb]. rewrite IH' by (intros z Iz; apply I; right; exact Iz).
    rewrite (H x y (or_introl eq_refl) (or_intror (I y (or_introl eq_refl)))). reflexivity. }
  apply G. apply incl_refl.
Qed.
Lemma no_dup_by_NoDup_map {A K} (e : A -> A -> bool) (key : A -> K) l :
  (forall a b, In a l -> In b l -> key a = key b -> e a b = true) -> no_dup_by e l = true -> NoDup (map key l).
Proof.
  induction l as [|x l IH]; intros H N; [constructor|]. cbn [no_dup_by map] in *. apply andb_true_iff in N. destruct N as [N1 N2].
  constructor; [|apply IH; [intros a b Ia Ib; apply H; right; assumption|exact N2]].
  intro I. apply in_map_iff in I. destruct I as [y [Ey Iy]]. apply negb_true_iff in N1.
  assert (existsb (e x) l = true) by (apply existsb_exists; exists y; split; [exact Iy|apply H; [left; reflexivity|right; exact Iy|symmetry; exact Ey]]).
  congruence.
Qed.
Lemma NoDup_app_intro {A} (a b : list A) : NoDup a -> NoDup b -> (forall x, In x a -> ~ In x b) -> NoDup (a ++ b).
Proof.
  induction a as [|x a IH]; intros Na Nb D; [exact Nb|]. cbn [app]. inversion Na as [|? ? Nx Na']; subst. constructor.
  - intro I. apply in_app_or in I. destruct I as [I|I]; [contradiction|]. apply (D x (or_introl eq_refl) I).
  - apply IH; auto. intros y I. apply D. right. exact I.
Qed.
Lemma combine_map_l {A B C} (f : A -> C) (la : list A) (lb : list B) : combine (map f la) lb = map (fun p => (f (fst p), snd p)) (combine la lb).
Proof. revert lb. induction la as [|a la IH]; intros [|b lb]; cbn; try reflexivity. f_equal. apply IH. Qed.
Lemma combine_swap {A B} (la : list A) (lb : list B) : combine lb la = map (fun p => (snd p, fst p)) (combine la lb).
Proof. revert lb. induction la as [|a la IH]; intros [|b lb]; cbn; try reflexivity. f_equal. apply IH. Qed.
Lemma interleave_perm {A B C} (f : A -> C) (g : B -> C) (la : list A) (lb : list B) : length la = length lb ->
  Permutation (flat_map (fun p => [f (fst p); g (snd p)]) (combine la lb)) (map f la ++ map g lb).
Proof.
  revert lb. induction la as [|a la IH]; intros [|b lb] L; try discriminate; [apply Permutation_refl|].
  cbn [combine flat_map map app fst snd]. apply perm_skip. eapply Permutation_trans; [apply perm_skip; apply IH; cbn in L; lia|].
  apply Permutation_middle.
Qed.
Lemma forall2_combine_map {A B} (P : A -> B -> Prop) la lb : Forall2 P la lb -> Forall (fun p => P (fst p) (snd p)) (combine la lb).
Proof. induction 1; cbn; constructor; auto. Qed.
Lemma in_combine_same {A B C} (f : A -> B) (g : A -> C) (l : list A) x y : In (x, y) (combine (map f l) (map g l)) -> exists a, In a l /\ x = f a /\ y = g a.
Proof.
  induction l as [|a l IH]; [contradiction|]. cbn [map combine]. intros [E|I].
  - inversion E; subst. exists a. split; [left; reflexivity|auto].
  - destruct (IH I) as [a' [Ia E]]. exists a'. split; [right; exact Ia|exact E].
Qed.

(* ================================================================ E. placed notes: rows and lanes ================================================================ *)
Definition rn := (Z * snap * text)%type.                 (* a placed note object: column, position, id *)
Definition rn_col (n : rn) : Z := fst (fst n).
Definition rn_snap (n : rn) : snap := snd (fst n).
Definition rn_val (n : rn) : text := snd n.
Definition rn_proj (n : rn) : Z * snap := (rn_col n, rn_snap n).
Definition same_cs (a b : Z * snap) : bool := (fst a =? fst b) && snap_eq (snd a) (snd b).

Section Placed.
  Variables (lay : layout) (mk : Z) (lnobj : text).
  Hypothesis LF : layout_facts mk lay.
  Hypothesis Hkeys : forall ch col, In (ch, col) lay -> length ch = 2%nat.
  Definition chan (col : Z) : text := match layout_rev lay col with Some ch => ch | None => [] end.
  Definition rn_obj (n : rn) : sobj := pobj (rn_snap n) (chan (rn_col n)) (rn_val n).
  Definition rn_row (n : rn) : wrow := row_of (rn_snap n) (chan (rn_col n)) (rn_val n).

  Variables RH RA RT : list rn.
  Let ALL := RH ++ RA ++ RT.
  Hypothesis Hcol : forall n, In n ALL -> (exists ch, layout_rev lay (rn_col n) = Some ch) /\ 0 <= rn_col n.
  Hypothesis Hsnap : forall n, In n ALL -> 0 <= s_m (rn_snap n) < 1000 /\ (0 <= s_b (rn_snap n))%Q /\ (s_b (rn_snap n) < 4)%Q /\ (s_met (rn_snap n) == 4)%Q.
  Hypothesis Hval : forall n, In n (RH ++ RA) -> is_b36_pair (rn_val n) = true /\ text_eqb (rn_val n) ID_NONE = false /\ text_eqb (rn_val n) lnobj = false.
  Hypothesis Hln : is_b36_pair lnobj = true /\ text_eqb lnobj ID_NONE = false.
  Hypothesis Htail : forall n, In n RT -> rn_val n = lnobj.
  Hypothesis Hat : Forall2 (fun a t => rn_col a = rn_col t /\ snap_lt (rn_snap a) (rn_snap t) = true) RA RT.
  Hypothesis Hnd : no_dup_by same_cs (map rn_proj ALL) = true.
  Hypothesis Hin : forall a t o, In (a, t) (combine RA RT) -> In o ALL ->
    ~ (rn_col o = rn_col a /\ snap_lt (rn_snap a) (rn_snap o) = true /\ snap_lt (rn_snap o) (rn_snap t) = true).

  Lemma chan_facts n : In n ALL -> In (chan (rn_col n), rn_col n) lay /\ length (chan (rn_col n)) = 2%nat
    /\ lane_of lay (chan (rn_col n)) = Some (rn_col n) /\ chan (rn_col n) <> CH_EXBPM.
  Proof.
    intro I. destruct (Hcol n I) as [[ch E] C0]. unfold chan. rewrite E. pose proof (layout_rev_in _ _ _ E) as Il.
    assert (G : dict_get ch lay = Some (rn_col n)).
    { apply dict_get_of_in; [apply no_dup_text_NoDup; exact (lf_keys mk lay LF)|exact Il]. }
    split; [exact Il|]. split; [apply (Hkeys _ _ Il)|]. split.
    - rewrite lane_of_dict, G. assert ((0 <=? rn_col n) = true) as -> by (apply Z.leb_le; exact C0). reflexivity.
    - intro Ex. subst ch. rewrite (lf_get_ex mk lay LF) in G. inversion G as [G']. unfold V_EXBPM in G'. lia.
  Qed.

  Lemma chan_inj a b : In a ALL -> In b ALL -> chan (rn_col a) = chan (rn_col b) -> rn_col a = rn_col b.
  Proof.
    intros Ia Ib E. destruct (chan_facts a Ia) as [_ [_ [La _]]]. destruct (chan_facts b Ib) as [_ [_ [Lb _]]]. rewrite E in La. congruence.
  Qed.

  Lemma val_facts n : In n ALL -> length (rn_val n) = 2%nat /\ text_eqb (rn_val n) ID_NONE = false.
  Proof.
    intro I. unfold ALL in I. rewrite app_assoc in I. apply in_app_or in I. destruct I as [I|I].
    - destruct (Hval n I) as [B [N _]]. destruct (b36_id_no_blank _ B) as [_ L]. auto.
    - rewrite (Htail n I). destruct Hln as [B N]. destruct (b36_id_no_blank _ B) as [_ L]. auto.
  Qed.

  (* ---- the rows ---- *)
  Lemma rn_row_wf n : In n ALL -> row_wf (rn_row n).
  Proof.
    intro I. destruct (Hsnap n I) as [Hm [B0 [B4 M]]]. destruct (row_of_fields (rn_snap n) (chan (rn_col n)) (rn_val n) M) as [R1 [R2 [R3 [R4 R5]]]].
    destruct (chan_facts n I) as [_ [Lc _]]. destruct (val_facts n I) as [Lv Nv].
    unfold row_wf, rn_row. rewrite R1, R2, R3, R4, R5. repeat split; auto; try lia.
    - unfold Qle in B0. cbn in B0. lia.
    - unfold Qlt in B4. cbn in B4. lia.
  Qed.
  Lemma rn_row_obj n : In n ALL -> row_obj (rn_row n) = rn_obj n.
  Proof. intro I. destruct (Hsnap n I) as [_ [_ [_ M]]]. apply row_obj_of. exact M. Qed.
  Lemma rn_row_key n : In n ALL -> row_key (rn_row n) = (s_m (rn_snap n), chan (rn_col n), Qred (s_b (rn_snap n) / 4)).
  Proof.
    intro I. pose proof (rn_row_obj n I) as E.
    pose proof (f_equal o_measure E) as E1. pose proof (f_equal o_chan E) as E2. pose proof (f_equal o_pos E) as E3.
    unfold row_obj, rn_obj, pobj in E1, E2, E3. cbn [o_measure o_chan o_pos] in E1, E2, E3.
    unfold row_key. rewrite E1, E2, E3. reflexivity.
  Qed.

  Lemma rows_keys_NoDup : NoDup (map row_key (map rn_row ALL)).
  Proof.
    rewrite map_map. rewrite no_dup_by_map in Hnd.
    apply (no_dup_by_NoDup_map (fun a b => same_cs (rn_proj a) (rn_proj b))); [|exact Hnd].
    intros a b Ia Ib E. rewrite (rn_row_key a Ia), (rn_row_key b Ib) in E.
    pose proof (f_equal (fun k : Z * text * Q => fst (fst k)) E) as E1. pose proof (f_equal (fun k : Z * text * Q => snd (fst k)) E) as E2.
    pose proof (f_equal (fun k : Z * text * Q => snd k) E) as E3. cbv beta in E1, E2, E3. cbn [fst snd] in E1, E2, E3.
    unfold same_cs, rn_proj. cbn [fst snd]. rewrite (chan_inj a b Ia Ib E2), Z.eqb_refl. cbn [andb].
    unfold snap_eq. rewrite E1, Z.eqb_refl. cbn [andb]. apply Qeq_bool_iff.
    assert (X : (Qred (s_b (rn_snap a) / 4) == Qred (s_b (rn_snap b) / 4))%Q) by (rewrite E3; reflexivity).
    rewrite !Qred_correct in X.
    assert (Xa : (s_b (rn_snap a) == (s_b (rn_snap a) / 4) * 4)%Q) by field. assert (Xb : (s_b (rn_snap b) == (s_b (rn_snap b) / 4) * 4)%Q) by field.
    rewrite Xa, Xb, X. reflexivity.
  Qed.

  (* ---- the lanes ---- *)
  Definition notes : list cnote :=
    map (fun n => (rn_col n, IHit (rn_obj n))) RH ++ map (fun p => (rn_col (fst p), IHold (rn_obj (fst p)) (rn_obj (snd p)))) (combine RA RT).

  Lemma len_at : length RA = length RT.
  Proof. clear - Hat. induction Hat; cbn; auto. Qed.

  Lemma in_RA_RT a t : In (a, t) (combine RA RT) -> In a ALL /\ In t ALL /\ rn_col a = rn_col t /\ snap_lt (rn_snap a) (rn_snap t) = true.
  Proof.
    intro I. pose proof (in_combine_l _ _ _ _ I) as Ia. pose proof (in_combine_r _ _ _ _ I) as It.
    split; [unfold ALL; apply in_or_app; right; apply in_or_app; left; exact Ia|].
    split; [unfold ALL; apply in_or_app; right; apply in_or_app; right; exact It|].
    pose proof (forall2_combine_map _ _ _ Hat) as F. rewrite Forall_forall in F. apply (F (a, t) I).
  Qed.

  (* the tagged objects of the notes: the placed objects, holds interleaved *)
  Lemma notes_cobjs : flat_map cobjs notes =
    map (fun n => (rn_col n, rn_obj n)) RH ++ flat_map (fun p => [(rn_col (fst p), rn_obj (fst p)); (rn_col (snd p), rn_obj (snd p))]) (combine RA RT).
  Proof.
    unfold notes. rewrite flat_map_app. f_equal.
    - clear. induction RH as [|n l IH]; [reflexivity|]. cbn [map flat_map cobjs item_objs fst snd app]. f_equal. exact IH.
    - assert (G : forall l, (forall a t, In (a, t) l -> rn_col a = rn_col t) ->
        flat_map cobjs (map (fun p : rn * rn => (rn_col (fst p), IHold (rn_obj (fst p)) (rn_obj (snd p)))) l)
        = flat_map (fun p => [(rn_col (fst p), rn_obj (fst p)); (rn_col (snd p), rn_obj (snd p))]) l).
      { induction l as [|[a t] l IH]; intro H; [reflexivity|]. cbn [map flat_map cobjs item_objs fst snd app].
        rewrite (H a t (or_introl eq_refl)). f_equal. f_equal. apply IH. intros a' t' I. apply H. right. exact I. }
      apply G. intros a t I. apply (in_RA_RT a t I).
  Qed.
  Lemma notes_cobjs_perm : Permutation (flat_map cobjs notes) (map (fun n => (rn_col n, rn_obj n)) ALL).
  Proof.
    rewrite notes_cobjs. unfold ALL. rewrite !map_app. apply Permutation_app_head.
    apply (interleave_perm (fun n => (rn_col n, rn_obj n)) (fun n => (rn_col n, rn_obj n)) RA RT len_at).
  Qed.

  Lemma same_cpos_rn a b : same_cpos (rn_col a, rn_obj a) (rn_col b, rn_obj b) = same_cs (rn_proj a) (rn_proj b).
  Proof. unfold same_cpos, same_cs, rn_proj, rn_obj. cbn [fst snd]. rewrite same_pos_pobj. reflexivity. Qed.

  Lemma same_cpos_sym a b : same_cpos a b = same_cpos b a.
  Proof. unfold same_cpos. rewrite (Z.eqb_sym (fst a)), same_pos_sym. reflexivity. Qed.

  Theorem placed_lanes (xb objs : list sobj) :
    (forall o, In o xb -> o_chan o = CH_EXBPM) ->
    Permutation objs (map rn_obj ALL ++ xb) ->
    exists H L, lanes_denote lnobj lay objs (lanes lay) = Some (H, L)
      /\ Permutation H (map (fun n => (rn_col n, rn_obj n)) RH)
      /\ Permutation L (map (fun p => (rn_col (fst p), (rn_obj (fst p), rn_obj (snd p)))) (combine RA RT)).
  Proof.
    intros Hxb P.
    assert (Px : Permutation (map snd (flat_map cobjs notes)) (map rn_obj ALL)).
    { eapply Permutation_trans; [apply Permutation_map; apply notes_cobjs_perm|]. rewrite map_map. cbn [snd]. apply Permutation_refl. }
    destruct (lanes_of_notes lnobj lay notes xb) with (objs := objs) (cols := lanes lay) as [H [L [E [PH PL]]]].
    - (* every object of a note lies in the lane of its column *)
      intros n o I Io. unfold notes in I. apply in_app_or in I. destruct I as [I|I]; apply in_map_iff in I.
      + destruct I as [x [<- Ix]]. cbn [fst snd item_objs] in *. destruct Io as [<-|[]].
        assert (Ia : In x ALL) by (unfold ALL; apply in_or_app; left; exact Ix).
        unfold rn_obj, pobj. cbn [o_chan]. apply (chan_facts x Ia).
      + destruct I as [[a t] [<- Ix]]. cbn [fst snd item_objs] in *. destruct (in_RA_RT a t Ix) as [Ia [It [Ec _]]].
        destruct Io as [<-|[<-|[]]]; unfold rn_obj, pobj; cbn [o_chan]; [apply (chan_facts a Ia)|rewrite Ec; apply (chan_facts t It)].
    - intros o I. rewrite lane_of_dict, (Hxb o I), (lf_get_ex mk lay LF). reflexivity.
    - intros n I. unfold notes in I. apply in_app_or in I. destruct I as [I|I]; apply in_map_iff in I.
      + destruct I as [x [<- Ix]]. cbn [snd item_ok rn_obj pobj o_id]. apply (Hval x). apply in_or_app. left. exact Ix.
      + destruct I as [[a t] [<- Ix]]. cbn [fst snd item_ok]. destruct (in_RA_RT a t Ix) as [Ia [It [Ec Lt]]].
        unfold rn_obj at 1 2. unfold pobj at 1 2. cbn [o_id]. split; [|split].
        * apply (Hval a). apply in_or_app. right. apply (in_combine_l _ _ _ _ Ix).
        * rewrite (Htail t (in_combine_r _ _ _ _ Ix)). apply text_eqb_refl.
        * unfold rn_obj. rewrite obj_lt_pobj. exact Lt.
    - (* distinct positions per column *)
      apply (no_dup_by_perm same_cpos same_cpos_sym _ _ (Permutation_sym notes_cobjs_perm)).
      rewrite no_dup_by_map. rewrite no_dup_by_map in Hnd.
      rewrite (no_dup_by_ext _ (fun a b => same_cs (rn_proj a) (rn_proj b))); [exact Hnd|]. intros a b _ _. apply same_cpos_rn.
    - (* nothing strictly inside a hold *)
      intros c hd tl o I Io. unfold notes in I. apply in_app_or in I. destruct I as [I|I]; apply in_map_iff in I.
      + destruct I as [x [Ex _]]. discriminate.
      + destruct I as [[a t] [Ex Ix]]. cbn [fst snd] in Ex. inversion Ex; subst c hd tl.
        apply (Permutation_in _ notes_cobjs_perm) in Io. apply in_map_iff in Io. destruct Io as [x [Ex' Ix']]. inversion Ex' as [[Ec Eo]]. subst o.
        unfold rn_obj. rewrite !obj_lt_pobj. intros [L1 L2]. apply (Hin a t x Ix Ix'). auto.
    - eapply Permutation_trans; [exact P|]. apply Permutation_app_tail. apply Permutation_sym. exact Px.
    - apply lanes_NoDup. exact (lf_vals mk lay LF).
    - intros n I. unfold notes in I. apply in_app_or in I. destruct I as [I|I]; apply in_map_iff in I.
      + destruct I as [x [<- Ix]]. cbn [fst]. assert (Ia : In x ALL) by (unfold ALL; apply in_or_app; left; exact Ix).
        destruct (chan_facts x Ia) as [Il _]. apply (in_lanes lay _ _ Il). apply (Hcol x Ia).
      + destruct I as [[a t] [<- Ix]]. cbn [fst]. destruct (in_RA_RT a t Ix) as [Ia _].
        destruct (chan_facts a Ia) as [Il _]. apply (in_lanes lay _ _ Il). apply (Hcol a Ia).
    - exists H, L. split; [exact E|]. unfold notes in PH, PL. rewrite flat_map_app in PH, PL. split.
      + eapply Permutation_trans; [exact PH|].
        assert (E1 : flat_map tagH (map (fun n : rn => (rn_col n, IHit (rn_obj n))) RH) = map (fun n => (rn_col n, rn_obj n)) RH).
        { clear. induction RH as [|n l IH]; [reflexivity|]. cbn [map flat_map tagH fst snd app]. f_equal. exact IH. }
        assert (E2 : flat_map tagH (map (fun p : rn * rn => (rn_col (fst p), IHold (rn_obj (fst p)) (rn_obj (snd p)))) (combine RA RT)) = []).
        { clear. induction (combine RA RT) as [|n l IH]; [reflexivity|]. cbn [map flat_map tagH fst snd app]. exact IH. }
        match goal with |- Permutation ?X _ => assert (EX : X = map (fun n => (rn_col n, rn_obj n)) RH ++ []) by (f_equal; [exact E1|exact E2]) end.
        rewrite EX, app_nil_r. apply Permutation_refl.
      + eapply Permutation_trans; [exact PL|].
        assert (E1 : flat_map tagL (map (fun n : rn => (rn_col n, IHit (rn_obj n))) RH) = []).
        { clear. induction RH as [|n l IH]; [reflexivity|]. cbn [map flat_map tagL fst snd app]. exact IH. }
        assert (E2 : flat_map tagL (map (fun p : rn * rn => (rn_col (fst p), IHold (rn_obj (fst p)) (rn_obj (snd p)))) (combine RA RT))
                     = map (fun p => (rn_col (fst p), (rn_obj (fst p), rn_obj (snd p)))) (combine RA RT)).
        { clear. induction (combine RA RT) as [|n l IH]; [reflexivity|]. cbn [map flat_map tagL fst snd app]. f_equal. exact IH. }
        match goal with |- Permutation ?X _ => assert (EX : X = [] ++ map (fun p => (rn_col (fst p), (rn_obj (fst p), rn_obj (snd p)))) (combine RA RT)) by (f_equal; [exact E1|exact E2]) end.
        rewrite EX. apply Permutation_refl.
  Qed.
End Placed.

(* ================================================================ F. tempo objects ================================================================ *)
Lemma tempo_objs_perm ext a b : Permutation a b -> forall ta, tempo_objs ext a = Some ta ->
  exists tb, tempo_objs ext b = Some tb /\ Permutation ta tb.
Proof.
  induction 1 as [|x l l' P IH|x y l|l l' l'' P1 IH1 P2 IH2]; intros ta H.
  - exists ta. split; [exact H|apply Permutation_refl].
  - rewrite tempo_objs_cons in *. destruct (tempo_objs ext l) as [tl|] eqn:E.
    2:{ destruct (tempo_of_obj ext x) as [[q|]|]; discriminate. }
    destruct (IH tl eq_refl) as [tl' [E' P']]. rewrite E'.
    destruct (tempo_of_obj ext x) as [[q|]|]; try discriminate; inversion H; subst; eexists; split; try reflexivity; auto.
  - rewrite !tempo_objs_cons in *. destruct (tempo_objs ext l) as [tl|] eqn:E.
    2:{ destruct (tempo_of_obj ext x) as [[q|]|], (tempo_of_obj ext y) as [[q'|]|]; discriminate. }
    destruct (tempo_of_obj ext x) as [[q|]|], (tempo_of_obj ext y) as [[q'|]|]; try discriminate; inversion H; subst;
      eexists; split; try reflexivity; try apply Permutation_refl. apply perm_swap.
  - destruct (IH1 ta H) as [tb [E1 Q1]]. destruct (IH2 tb E1) as [tc [E2 Q2]]. exists tc. split; [exact E2|].
    eapply Permutation_trans; eassumption.
Qed.
Lemma tempo_objs_app_none ext a b : (forall o, In o a -> tempo_of_obj ext o = None) -> tempo_objs ext (a ++ b) = tempo_objs ext b.
Proof.
  induction a as [|x a IH]; intro H; [reflexivity|]. cbn [app]. rewrite tempo_objs_cons, (H x (or_introl eq_refl)).
  rewrite IH by (intros o I; apply H; right; exact I). destruct (tempo_objs ext b); reflexivity.
Qed.

Lemma bcs_lt_asym a b : bcs_lt a b = true -> bcs_lt b a = false.
Proof.
  unfold bcs_lt. intro H. apply snap_lt_iff in H. destruct (snap_lt (bs_snap b) (bs_snap a)) eqn:E; [|reflexivity].
  apply snap_lt_iff in E. exfalso. apply (slt_not_sle _ _ H). apply slt_sle. exact E.
Qed.
Lemma bcs_lt_false a b : bcs_lt a b = false <-> sle (bs_snap b) (bs_snap a).
Proof.
  unfold bcs_lt. split.
  - intro H. destruct (sle_total (bs_snap b) (bs_snap a)) as [S|S]; [exact S|]. apply snap_lt_iff in S. congruence.
  - intro H. destruct (snap_lt (bs_snap a) (bs_snap b)) eqn:E; [|reflexivity]. apply snap_lt_iff in E.
    exfalso. apply (slt_not_sle _ _ E H).
Qed.
Lemma bcs_lt_negtrans x y z : bcs_lt y x = false -> bcs_lt z y = false -> bcs_lt z x = false.
Proof. rewrite !bcs_lt_false. intros A B. eapply sle_trans; eassumption. Qed.

Lemma combine_combine_l {A B C} (la : list A) (lb : list B) (lc : list C) : length lb = length lc ->
  combine la lb = map (fun t => (fst t, fst (snd t))) (combine la (combine lb lc)).
Proof.
  revert lb lc. induction la as [|a la IH]; intros lb lc L; [reflexivity|]. destruct lb as [|b lb], lc as [|c lc]; try discriminate; [reflexivity|].
  cbn [combine map fst snd]. f_equal. apply IH. cbn in L. lia.
Qed.
Lemma combine_combine_r {A B C} (la : list A) (lb : list B) (lc : list C) : length lb = length lc ->
  combine la lc = map (fun t => (fst t, snd (snd t))) (combine la (combine lb lc)).
Proof.
  revert lb lc. induction la as [|a la IH]; intros lb lc L; [reflexivity|]. destruct lb as [|b lb], lc as [|c lc]; try discriminate; [reflexivity|].
  cbn [combine map fst snd]. f_equal. apply IH. cbn in L. lia.
Qed.

(* strictly increasing positions, pairwise *)
Lemma script_ok_strongly tbl : forall rest p, script_ok tbl p rest -> StronglySorted (fun a b => slt (bs_snap a) (bs_snap b)) (p :: rest).
Proof.
  induction rest as [|c rest IH]; intros p H; [constructor; [constructor|constructor]|].
  pose proof H as [_ Hs]. constructor; [apply IH; exact Hs|].
  apply Forall_forall. intros x I. apply (script_ok_all_slt tbl (c :: rest) p H x I).
Qed.

Lemma strongly_sim (l' l : list bcs) : Forall2 sim l' l -> StronglySorted (fun a b => slt (bs_snap a) (bs_snap b)) l ->
  StronglySorted (LT bcs_lt) l'.
Proof.
  induction 1 as [|x' x l' l Sx F IH]; intro Ss; [constructor|]. apply StronglySorted_inv in Ss. destruct Ss as [Ss Fx].
  constructor; [apply IH; exact Ss|]. rewrite Forall_forall in Fx. apply Forall_forall. intros y' Iy.
  destruct (forall2_in_l _ _ _ _ F Iy) as [y [Iy2 Sy]]. unfold LT, bcs_lt. apply snap_lt_iff.
  apply (slt_ssim (bs_snap x) (bs_snap x') (bs_snap y) (bs_snap y')).
  - apply sim_sym_ssim. exact Sx.
  - apply sim_sym_ssim. exact Sy.
  - apply Fx. exact Iy2.
Qed.

Lemma forall2_impl_in2 {A B} (P Q : A -> B -> Prop) l r :
  Forall2 P l r -> (forall a b, In a l -> In b r -> P a b -> Q a b) -> Forall2 Q l r.
Proof.
  induction 1 as [|a b l r Hab _ IH]; intro H; [constructor|]. constructor.
  - apply H; [left; reflexivity|left; reflexivity|exact Hab].
  - apply IH. intros x y Ix Iy. apply H; right; assumption.
Qed.

Lemma forall2_flip_map {A B C} (f : A -> C) (Q : B -> C -> Prop) (la : list A) (lb : list B) :
  Forall2 (fun a b => Q b (f a)) la lb -> Forall2 Q lb (map f la).
Proof. induction 1; cbn; constructor; auto. Qed.

Section TempoSide.
  Variable tbl : list Q.
  Variables (c : wchart) (l : list bcs) (sb : list snap).
  Hypothesis Hdom : domainb tbl l [] = true.
  Hypothesis Hlen : (length (w_bpms c) < MAX_BPMS)%nat.
  Hypothesis H3f : Forall (fun b => bpm_3f_ok b = true) (w_bpms c).
  Hypothesis Hct : Forall2 (fun cc b => (bo_off b == time_of 0 l (bs_snap cc))%Q /\ bo_bpm b = bs_bpm cc /\ bo_met b = bs_met cc) l (w_bpms c).
  Hypothesis Hmet : Forall (fun b => bo_met b = 4%Q) (w_bpms c).
  Hypothesis Hsb : Forall2 (fun cc s => ssim s (bs_snap cc) /\ s_met s = bs_met cc) l sb.

  Let n := length (w_bpms c).
  Let TR := combine (seq 1 n) (combine (w_bpms c) sb).
  Definition tobj (t : nat * (bco * snap)) : sobj := pobj (snd (snd t)) CH_EXBPM (b36_pair (Z.of_nat (fst t))).
  Definition tbcs (t : nat * (bco * snap)) : bcs := mkBcs (bo_bpm (fst (snd t))) BEATS_PER_MEASURE (snap_of (tobj t)).
  Definition T0 : list bcs := map tbcs TR.
  Definition XB : list sobj := map tobj TR.

  Lemma len_sb : length sb = n.
  Proof. unfold n. rewrite <- (forall2_length _ _ _ Hsb). apply (forall2_length _ _ _ Hct). Qed.

  Lemma xb_is : XB = map (fun p => pobj (snd p) CH_EXBPM (b36_pair (Z.of_nat (fst p)))) (combine (seq 1 (length sb)) sb).
  Proof.
    unfold XB, TR. rewrite len_sb. rewrite (combine_combine_r (seq 1 n) (w_bpms c) sb) by (rewrite len_sb; reflexivity).
    rewrite map_map. reflexivity.
  Qed.

  Lemma tempo_objs_xb : tempo_objs (ex_table c) XB = Some T0.
  Proof.
    unfold XB, T0.
    assert (G : forall tr, (forall t, In t tr -> In (fst t, fst (snd t)) (combine (seq 1 n) (w_bpms c))) ->
              tempo_objs (ex_table c) (map tobj tr) = Some (map tbcs tr)).
    { induction tr as [|t tr IH]; intro H; [reflexivity|]. cbn [map]. rewrite tempo_objs_cons.
      rewrite IH by (intros t' I; apply H; right; exact I).
      assert (tempo_of_obj (ex_table c) (tobj t) = Some (Some (bo_bpm (fst (snd t))))) as ->; [|reflexivity].
      unfold tempo_of_obj, tobj, pobj. cbn [o_chan o_id].
      assert (text_eqb CH_EXBPM CH_BPM = false) as -> by reflexivity. rewrite text_eqb_refl.
      pose proof (H t (or_introl eq_refl)) as I. unfold n in I. rewrite (ex_table_lookup c _ _ Hlen I).
      rewrite Forall_forall in H3f. rewrite (bpm_3f_parse _ (H3f _ (in_combine_r _ _ _ _ I))). reflexivity. }
    apply G. intros t I. unfold TR in I.
    rewrite (combine_combine_l (seq 1 n) (w_bpms c) sb) by (rewrite len_sb; reflexivity).
    apply in_map_iff. exists t. split; [reflexivity|exact I].
  Qed.

  Lemma T0_sim : Forall2 sim T0 l.
  Proof.
    unfold T0, TR.
    assert (G : forall (l0 : list bcs) (bs : list bco) (ss : list snap) (k : nat),
              Forall2 (fun cc b => bo_bpm b = bs_bpm cc /\ bo_met b = bs_met cc /\ bo_met b = 4%Q /\ s_met (bs_snap cc) = bs_met cc) l0 bs ->
              Forall2 (fun cc s => ssim s (bs_snap cc)) l0 ss ->
              Forall2 sim (map tbcs (combine (seq k (length bs)) (combine bs ss))) l0).
    { induction l0 as [|cc l0 IH]; intros bs ss k F1 F2; inversion F1 as [|? b ? bs' [E1 [E2 [E3 E4]]] F1']; subst;
        inversion F2 as [|? s ? ss' Es F2']; subst; [constructor|].
      cbn [length seq combine map]. constructor; [|apply IH; assumption].
      unfold sim, tbcs. cbn [bs_bpm bs_met bs_snap fst snd]. destruct (snap_of_pobj s CH_EXBPM (b36_pair (Z.of_nat k))) as [M B].
      destruct Es as [Em Eb]. unfold tobj. cbn [fst snd]. unfold BEATS_PER_MEASURE. repeat split.
      - exact E1.
      - rewrite <- E2. symmetry. exact E3.
      - rewrite M. exact Em.
      - rewrite B. exact Eb.
      - unfold snap_of, BEATS_PER_MEASURE. cbn [s_met]. rewrite E4, <- E2. symmetry. exact E3. }
    apply G.
    - destruct (domainb_nil_sound tbl l Hdom) as [c0 [rest [El [H0 [_ [_ Hs]]]]]].
      assert (Wf : forall cc, In cc l -> s_met (bs_snap cc) = bs_met cc).
      { intros cc I. rewrite El in I. destruct I as [<-|I]; [destruct H0 as [[_ [_ W]] _]; exact W|]. clear - Hs I. revert c0 Hs. induction rest as [|x r IH]; intros p Hs; [contradiction|].
        destruct Hs as [[_ [Nx _]] Hs']. destruct I as [<-|I]; [destruct Nx as [[_ [_ W]] _]; exact W|]. apply (IH I x Hs'). }
      apply (forall2_impl_in2 _ _ _ _ Hct). intros cc b Ic Ib [_ [E1 E2]]. rewrite Forall_forall in Hmet.
      repeat split; auto.
    - eapply forall2_impl; [|exact Hsb]. intros cc s [A _]. exact A.
  Qed.

  Lemma T0_sorted : StronglySorted (LT bcs_lt) T0.
  Proof.
    destruct (domainb_nil_sound tbl l Hdom) as [c0 [rest [El [_ [_ [_ Hs]]]]]].
    apply (strongly_sim T0 l T0_sim). rewrite El. apply (script_ok_strongly tbl). exact Hs.
  Qed.

  (* the script the written file denotes, for any listing of the tempo objects *)
  Lemma script_written bpm0 tempos : Permutation tempos T0 -> script_of bpm0 tempos = T0.
  Proof.
    intro P. unfold script_of. change (fun a b : bcs => snap_lt (bs_snap a) (bs_snap b)) with bcs_lt.
    rewrite (sort_of_perm bcs_lt bcs_lt_asym bcs_lt_negtrans tempos T0 T0_sorted P).
    pose proof T0_sim as S. destruct (domainb_nil_sound tbl l Hdom) as [c0 [rest [El [_ [Hm0 [Hb0 _]]]]]].
    rewrite El in S. inversion S as [|x ? xs ? Sx _ Ex]. subst. destruct Sx as [_ [_ [A [B _]]]].
    assert (at_origin (bs_snap x) = true) as ->; [|reflexivity].
    apply at_origin_iff. rewrite A, B. auto.
  Qed.

  Lemma time_written q : (time_of 0 T0 q == time_of 0 l q)%Q.
  Proof.
    pose proof T0_sim as S. destruct l as [|c0 rest]; [inversion S; reflexivity|].
    inversion S as [|x ? xs ? Sx Sr Ex]. subst. cbn [time_of]. apply (time_of_go_sim rest xs Sr 0%Q c0 x q Sx).
  Qed.

  Lemma tempo_written :
    Forall2 (fun b tb => (fst tb == bo_off b)%Q /\ snd tb = bo_bpm b) (w_bpms c)
            (map (fun x => (Qred (time_of 0 T0 (bs_snap x)), bs_bpm x)) T0).
  Proof.
    pose proof (forall2_compose _ _ _ _ _ T0_sim Hct) as C.
    apply forall2_flip_map. apply (forall2_impl_in _ _ _ _ C). intros x b _ [cc [Sx [E1 [E2 _]]]]. cbn [fst snd]. split.
    - rewrite Qred_correct, time_written, E1. apply time_of_qssim. apply sim_ssim. exact Sx.
    - destruct Sx as [A _]. rewrite A. symmetry. exact E2.
  Qed.
End TempoSide.

(* ================================================================ G. from the chart ================================================================ *)
Lemma bco_same_eq a b : bco_same a b = true -> a = b.
Proof.
  destruct a, b. unfold bco_same. cbn. intro H. apply andb_true_iff in H. destruct H as [H C]. apply andb_true_iff in H. destruct H as [A B].
  apply Q_same_eq in A, B, C. subst. reflexivity.
Qed.

Lemma lane_has_rev lay col : lane_has lay col = true -> (exists ch, layout_rev lay col = Some ch) /\ 0 <= col.
Proof.
  unfold lane_has. intro H. apply andb_true_iff in H. destruct H as [H1 H2]. split; [|apply Z.leb_le; exact H2].
  apply existsb_exists in H1. destruct H1 as [[k v] [I E]]. cbn [snd] in E. apply Z.eqb_eq in E. subst v.
  unfold layout_rev. clear H2.
  assert (G : forall l acc, In (k, col) l -> exists ch, fold_left (fun acc kv => if snd kv =? col then Some (fst kv) else acc) l acc = Some ch).
  { induction l as [|[k' v'] l IH]; intros acc Il; [contradiction|]. cbn [fold_left fst snd]. destruct Il as [E|Il].
    - inversion E; subst. rewrite Z.eqb_refl. clear. revert k. induction l as [|[k2 v2] l IH]; intro k; [exists k; reflexivity|].
      cbn [fold_left fst snd]. destruct (v2 =? col); apply IH.
    - apply IH. exact Il. }
  apply G. exact I.
Qed.

Lemma samples_rev_in (smp : list (text * text)) s k : samples_rev smp s = Some k -> In (k, s) smp.
Proof.
  unfold samples_rev.
  assert (G : forall l acc, fold_left (fun acc kv => if text_eqb (snd kv) s then Some (fst kv) else acc) l acc = Some k -> acc = Some k \/ In (k, s) l).
  { induction l as [|[k' v'] l IH]; intros acc H; [left; exact H|]. cbn [fold_left fst snd] in H. apply IH in H. destruct H as [H|H]; [|right; right; exact H].
    destruct (text_eqb v' s) eqn:E; [|left; exact H]. apply text_eqb_eq in E. inversion H; subst. right. left. reflexivity. }
  intro H. apply G in H. destruct H as [H|H]; [discriminate|exact H].
Qed.

Lemma active_by_time_in cur rest o : In (active_by_time cur rest o) (cur :: rest).
Proof.
  revert cur. induction rest as [|nxt rest IH]; intro cur; [left; reflexivity|]. cbn [active_by_time].
  destruct (Qle_bool (fst nxt) o); [right; apply IH|left; reflexivity].
Qed.
Lemma active_at_time_in init l o : l <> [] -> In (snd (active_at_time init l o)) l.
Proof.
  intro N. unfold active_at_time. destruct l as [|c0 rest]; [contradiction|]. cbn [change_times combine].
  pose proof (active_by_time_in (init, c0) (combine (change_times_go init c0 rest) rest) o) as I.
  destruct I as [<-|I]; [left; reflexivity|]. right. destruct (active_by_time _ _ o) as [t cc]. apply in_combine_r in I. exact I.
Qed.

Lemma proj_combine {B} (f : B -> Z) (g : B -> text) (ls : list snap) (lb : list B) :
  map rn_proj (map (fun p : snap * B => (f (snd p), fst p, g (snd p))) (combine ls lb)) = combine (map f lb) ls.
Proof.
  revert lb. induction ls as [|s ls IH]; intros lb.
  - cbn. destruct (map f lb); reflexivity.
  - destruct lb as [|b lb]; [reflexivity|]. cbn [combine map fst snd]. unfold rn_proj at 1. unfold rn_col, rn_snap. cbn [fst snd]. f_equal. apply IH.
Qed.

Lemma b36_pair_not_none e : 1 <= e < 1296 -> text_eqb (b36_pair e) ID_NONE = false.
Proof.
  intro H. apply text_eqb_neq. intro E. change ID_NONE with (b36_pair 0) in E. apply b36_pair_injective in E; lia.
Qed.

Lemma id_ok_facts lnobj id : id_ok lnobj id = true -> is_b36_pair id = true /\ text_eqb id ID_NONE = false /\ text_eqb id lnobj = false.
Proof.
  unfold id_ok. intro H. apply andb_true_iff in H. destruct H as [H C]. apply andb_true_iff in H. destruct H as [A B].
  apply negb_true_iff in B, C. auto.
Qed.

(* the row table of _write_notes for a 4/4 chart *)
Lemma write_rows_eq tbl (lay : layout) dflt c sh sa st sb :
  Forall (fun b => Qeq_bool (bo_met b) 4 = true) (w_bpms c) ->
  (forall h, In h (w_hits c) -> exists ch, layout_rev lay (h_col h) = Some ch) ->
  (forall h, In h (w_holds c) -> exists ch, layout_rev lay (ho_col h) = Some ch) ->
  layout_rev lay V_EXBPM = Some CH_EXBPM ->
  write_rows_of tbl lay dflt c (Some (mkSn sh sa st sb)) =
  Some (map (rn_row lay) (map (fun p => (h_col (snd p), fst p, sample_id c dflt (h_sample (snd p)))) (combine sh (w_hits c))
                          ++ map (fun p => (ho_col (snd p), fst p, sample_id c dflt (ho_sample (snd p)))) (combine sa (w_holds c))
                          ++ map (fun p => (ho_col (snd p), fst p, w_lnobj c)) (combine st (w_holds c)))
        ++ map (fun p => row_of (snd p) CH_EXBPM (b36_pair (Z.of_nat (fst p)))) (combine (seq 1 (length sb)) sb)).
Proof.
  intros Fm Hh Hl Ex. unfold write_rows_of.
  assert (filter (fun b => negb (Qeq_bool (bo_met b) 4)) (w_bpms c) = []) as ->.
  { clear - Fm. induction Fm as [|b l E _ IH]; [reflexivity|]. cbn [filter]. rewrite E. exact IH. }
  rewrite (all_some'_total _ (fun p : snap * hit => rn_row lay (h_col (snd p), fst p, sample_id c dflt (h_sample (snd p))))).
  2:{ intros [s h] I. cbn [fst snd]. destruct (Hh h (in_combine_r _ _ _ _ I)) as [ch E]. unfold rn_row, chan, rn_col, rn_snap, rn_val. cbn [fst snd]. rewrite E. reflexivity. }
  rewrite (all_some'_total _ (fun p : snap * hold => rn_row lay (ho_col (snd p), fst p, sample_id c dflt (ho_sample (snd p))))).
  2:{ intros [s h] I. cbn [fst snd]. destruct (Hl h (in_combine_r _ _ _ _ I)) as [ch E]. unfold rn_row, chan, rn_col, rn_snap, rn_val. cbn [fst snd]. rewrite E. reflexivity. }
  rewrite (all_some'_total _ (fun p : snap * hold => rn_row lay (ho_col (snd p), fst p, w_lnobj c))).
  2:{ intros [s h] I. cbn [fst snd]. destruct (Hl h (in_combine_r _ _ _ _ I)) as [ch E]. unfold rn_row, chan, rn_col, rn_snap, rn_val. cbn [fst snd]. rewrite E. reflexivity. }
  rewrite Ex. rewrite !map_app, !map_map, <- !app_assoc. reflexivity.
Qed.
