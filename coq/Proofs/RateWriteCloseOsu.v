(* C13: closure of C01's write domain under rate.  OsuSpec.write_domain (well-formed chart, attribute kinds, integral
   int-typed attributes) is closed under OsuMap.rate for every r <> 0: the rate touches offsets, lengths, tempos and the
   PreviewTime cell only.  The full domain of the whole-file writer theorem, wdom, also demands that the float printer
   prints the written numbers without loss -- an oracle clause a rate change can break (1000 / 3 has no six-decimal
   print): closure of wdom6 is refuted, and the survival theorem is restated with the source chart in write_domain and
   the printability of the RATED numbers as the only remaining hypothesis. *)
From Coq Require Import String.
From Coq Require Import ZArith QArith Qround Qabs List Bool Lia Lqa Permutation.
From RV Require Import Base.PyNum Base.Text Formats.Timeline Map.RateWrite Map.RateFile.
From RV Require Import Formats.Osu Formats.OsuSpec Proofs.OsuProofs Proofs.OsuWrite Proofs.OsuWhole Proofs.RateWriteProofs.
Import ListNotations.
Import OsuRate.
Open Scope Q_scope.

Lemma fbm {A B} (f : A -> B) (p : B -> bool) l : forallb p (map f l) = forallb (fun x => p (f x)) l.
Proof. induction l as [|x l IH]; [reflexivity|]. cbn [map forallb]. rewrite IH. reflexivity. Qed.
Lemma fbe {A} (p q : A -> bool) l : (forall x, p x = q x) -> forallb p l = forallb q l.
Proof. intro H. induction l as [|x l IH]; [reflexivity|]. cbn [forallb]. rewrite H, IH. reflexivity. Qed.

Lemma bpm_rate_nonzero r b : ~ r == 0 -> negb (Qeq_bool (b_bpm b) 0) = true -> negb (Qeq_bool (b_bpm (bpm_rate r b)) 0) = true.
Proof.
  intros Hr H. apply negb_true_iff in H. apply negb_true_iff. cbn [bpm_rate b_bpm].
  destruct (Qeq_bool (Qred (b_bpm b * r)) 0) eqn:E; [|reflexivity]. apply Qeq_bool_iff in E. rewrite Qred_correct in E.
  apply Qmult_integral in E. destruct E as [E|E]; [|contradiction]. apply Qeq_bool_iff in E. congruence.
Qed.

(* closure of write_domain under rate *)
Theorem osu_write_domain_rate r c ut ua : ~ r == 0 -> write_domain c ut ua = true -> write_domain (osu_chart_rate r c) ut ua = true.
Proof.
  intros Hr H. unfold write_domain in *. apply andb_true_iff in H. destruct H as [H HI]. apply andb_true_iff in H. destruct H as [HW HK].
  unfold wf_chart in HW. cbv zeta in HW.
  apply andb_true_iff in HW. destruct HW as [HW W12]. apply andb_true_iff in HW. destruct HW as [HW W11].
  apply andb_true_iff in HW. destruct HW as [HW W10]. apply andb_true_iff in HW. destruct HW as [HW W9].
  apply andb_true_iff in HW. destruct HW as [HW W8]. apply andb_true_iff in HW. destruct HW as [HW W7].
  apply andb_true_iff in HW. destruct HW as [HW W6]. apply andb_true_iff in HW. destruct HW as [HW W5].
  apply andb_true_iff in HW. destruct HW as [HW W4]. apply andb_true_iff in HW. destruct HW as [HW W3].
  apply andb_true_iff in HW. destruct HW as [W1 W2].
  destruct c as [m bg smp bpms svs hits holds]. cbn [c_meta c_bg c_samples c_bpms c_svs c_hits c_holds] in *.
  apply Nat.eqb_eq in W1.
  do 30 (destruct m as [|? m]; [discriminate|]). destruct m; [|discriminate]. clear W1.
  unfold osu_chart_rate. cbn [c_meta c_bg c_samples c_bpms c_svs c_hits c_holds set_nth IX_PREVIEW].
  unfold wf_chart. cbv zeta. cbn [c_meta c_bg c_samples c_bpms c_svs c_hits c_holds].
  cbn [kinds_ok key_table] in HK |- *.
  unfold wi_numbers in *. cbn [c_meta map] in HI |- *.
  unfold meta_num, IX_CS in *. cbn [nth length Nat.eqb] in *.
  cbn [forallb mstr_ok] in W5 |- *.
  rewrite W2, W3, W4, W6, W7. cbn [andb].
  repeat (apply andb_true_iff in W5; destruct W5 as [? W5]).
  repeat match goal with H : ?x = true |- context [?x] => rewrite H end. cbn [andb].
  rewrite !fbm.
  rewrite (fbe (fun x => clean (sm_file (sample_rate r x)) && negb (has 44 (sm_file (sample_rate r x)))) (fun s => clean (sm_file s) && negb (has 44 (sm_file s)))) by reflexivity.
  rewrite W8. cbn [andb].
  assert (Eb : forallb (fun x => negb (Qeq_bool (b_bpm (bpm_rate r x)) 0)) bpms = true).
  { rewrite forallb_forall in *. intros b I. apply bpm_rate_nonzero; [exact Hr|apply W9; exact I]. }
  rewrite Eb. cbn [andb].
  rewrite (fbe (fun x => negb (Qeq_bool (s_mul (sv_rate r x)) 0)) (fun s => negb (Qeq_bool (s_mul s) 0))) by reflexivity.
  rewrite W10. cbn [andb].
  rewrite (fbe (fun x => note_ok _ (note_rate r x)) (note_ok (Qfloor match m25 with MNum q => q | MBool b => if b then 1 else 0 | _ => 0 end))) by reflexivity.
  rewrite W11. cbn [andb].
  rewrite (fbe (fun x => note_ok _ (note_rate r x)) (note_ok (Qfloor match m25 with MNum q => q | MBool b => if b then 1 else 0 | _ => 0 end))) by reflexivity.
  rewrite W12. cbn [andb].
  repeat (apply andb_true_iff in HK; destruct HK as [? HK]).
  repeat match goal with H : ?x = true |- context [?x] => rewrite H end. cbn [andb kind_ok].
  exact HI.
Qed.

Lemma wi_numbers_rate r c : length (c_meta c) = 30%nat -> wi_numbers (osu_chart_rate r c) = wi_numbers c.
Proof.
  destruct c as [m bg smp bpms svs hits holds]. cbn [c_meta]. intro L.
  do 30 (destruct m as [|? m]; [discriminate|]). destruct m; [|discriminate]. reflexivity.
Qed.
Lemma write_domain_len c ut ua : write_domain c ut ua = true -> length (c_meta c) = 30%nat.
Proof.
  unfold write_domain, wf_chart. cbv zeta. intro H. repeat (apply andb_true_iff in H; destruct H as [H _]). apply Nat.eqb_eq. exact H.
Qed.

(* ---- the survival theorem with the SOURCE chart in write_domain: what remains is the oracle clause on the printer ---- *)
Section WholeClosed.
  Variable show_num show_inum : Q -> Text.text.
  Variable printable iprintable : Q -> bool.
  Hypothesis show_num_reads : forall q, printable q = true -> Text.parse_dec (show_num q) = Some (Qred q).
  Hypothesis show_inum_reads : forall q, iprintable q = true -> Text.parse_int (show_inum q) = Some (Qfloor q).

  Theorem osu_wdom_rate r c ut ua : ~ r == 0 -> write_domain c ut ua = true ->
    forallb printable (wn_numbers (osu_chart_rate r c)) = true -> forallb iprintable (wi_numbers c) = true ->
    OsuWrite.wdom printable iprintable (osu_chart_rate r c) ut ua = true.
  Proof.
    intros Hr D P I. unfold OsuWrite.wdom. rewrite (osu_write_domain_rate r c ut ua Hr D), P.
    rewrite (wi_numbers_rate r c (write_domain_len c ut ua D)), I. reflexivity.
  Qed.

  Theorem osu_rate_survives_write_closed r c ut ua : ~ r == 0 -> write_domain c ut ua = true ->
    forallb printable (wn_numbers (osu_chart_rate r c)) = true -> forallb iprintable (wi_numbers c) = true ->
    exists text d, OsuWrite.written show_num show_inum (osu_chart_rate r c) ut ua = Some text /\
                   osu_denote text = Some d /\ wf_osu_text text = true /\ all_present d = true /\ OsuRateProofs.survives r c d.
  Proof.
    intros Hr D P I.
    apply (OsuRateProofs.osu_rate_survives_write show_num show_inum printable iprintable show_num_reads show_inum_reads r c ut ua Hr).
    apply osu_wdom_rate; assumption.
  Qed.
End WholeClosed.

Theorem osu_rate_survives_write_dec6_closed r c ut ua : ~ r == 0 -> write_domain c ut ua = true ->
  forallb OsuWhole.dec6_printable (wn_numbers (osu_chart_rate r c)) = true ->
  exists text d, OsuWhole.written6 (osu_chart_rate r c) ut ua = Some text /\
                 osu_denote text = Some d /\ wf_osu_text text = true /\ all_present d = true /\ OsuRateProofs.survives r c d.
Proof.
  intros Hr D P.
  apply (osu_rate_survives_write_closed OsuWhole.show_dec6 OsuWhole.show_intq OsuWhole.dec6_printable OsuWhole.any_q
           OsuWhole.show_dec6_reads OsuWhole.show_intq_reads r c ut ua Hr D P).
  clear. induction (wi_numbers c); [reflexivity|exact IHl].
Qed.

(* closure of the FULL writer domain (with the six-decimal printer) is false: rate 3 moves 1000 ms to 1000/3 ms, which
   no six-decimal print holds; the structural part write_domain of the rated chart still holds *)
Theorem osu_wdom6_rate_refuted :
  exists c r, ~ r == 0 /\ OsuWhole.wdom6 c (Text.t "Re:Zero"%string) [] = true
    /\ OsuWhole.wdom6 (osu_chart_rate r c) (Text.t "Re:Zero"%string) [] = false
    /\ write_domain (osu_chart_rate r c) (Text.t "Re:Zero"%string) [] = true.
Proof.
  exists OsuRateProofs.wit_chart, 3. split; [intro E; discriminate|]. split; [vm_compute; reflexivity|]. split; vm_compute; reflexivity.
Qed.
