(* C05 o C04: reading back what the writer wrote.  bms_write_denotes (the written lines denote the chart) composed with
   bms_read_text_denotes (the reader returns what the lines denote): whenever the written text lies in the reader's
   text-level domain (text_domb: decidable on the written lines; read_guards), BMSMap.read of BMSMap.write of a chart of
   write_dom is that chart, rows up to order, times within 1/192 beat and exact on the snap grid (bms_write_read). *)
From Coq Require Import ZArith QArith Qround Qabs List Bool Lia Lqa Sorting.Permutation.
From RV Require Import Base.PyNum Timing.Snapper Timing.Snap Timing.TimingMap Timing.Integrate Timing.Domain Timing.Domain2
  Formats.BMSText Formats.BMS Formats.BMSSpec Proofs.TimingProofs Proofs.TimingProofs2 Proofs.BMSProofs Proofs.BMSDenoteProofs
  Proofs.BMSParseProofs Proofs.BMSWriteFinalProofs.
Import ListNotations.
Open Scope Z_scope.

(* a relation carried along a permutation *)
Lemma forall2_perm_l {A B} (M : A -> B -> Prop) (xs xs' : list A) : Permutation xs' xs -> forall ys, Forall2 M xs ys ->
  exists ys', Permutation ys' ys /\ Forall2 M xs' ys'.
Proof.
  induction 1 as [|x l l' P IH|x y l|l l' l'' P1 IH1 P2 IH2]; intros ys F.
  - inversion F; subst. exists []. split; constructor.
  - inversion F as [|? b ? ys0 Mxb F']; subst. destruct (IH ys0 F') as [ys' [P' F'']]. exists (b :: ys'). split; [apply perm_skip; exact P'|constructor; assumption].
  - inversion F as [|? b ? ys0 Mb F']; subst. inversion F' as [|? b2 ? ys1 Mb2 F'']; subst.
    exists (b2 :: b :: ys1). split; [apply perm_swap|constructor; [assumption|constructor; assumption]].
  - destruct (IH2 ys F) as [ys1 [Q1 G1]]. destruct (IH1 ys1 G1) as [ys2 [Q2 G2]]. exists ys2. split; [eapply Permutation_trans; eassumption|exact G2].
Qed.

(* the chart read back, against the chart written *)
Definition read_back (tbl : list Q) (dflt : text) (c : wchart) (l : list bcs) (c' : bms_chart) : Prop :=
  (exists hs, Permutation hs (c_hits c')
     /\ Forall2 (fun h h' => h_col h' = h_col h /\ time_rt tbl l (h_off h) (h_off h')
                             /\ h_sample h' = sample_of (w_samples c) (sample_id c dflt (h_sample h))) (w_hits c) hs)
  /\ (exists ls, Permutation ls (c_holds c')
     /\ Forall2 (fun h h' => ho_col h' = ho_col h /\ time_rt tbl l (ho_off h) (ho_off h')
                             /\ time_rt tbl l (Qred (ho_off h + ho_len h)) (ho_off h' + ho_len h')
                             /\ ho_sample h' = sample_of (w_samples c) (sample_id c dflt (ho_sample h))) (w_holds c) ls)
  /\ m_title (c_meta c') = w_title c /\ m_artist (c_meta c') = w_artist c /\ m_version (c_meta c') = w_version c
  /\ m_lnobj (c_meta c') = w_lnobj c /\ m_samples (c_meta c') = w_samples c.

Lemma time_rt_wd' tbl l o t t' : (t == t')%Q -> time_rt tbl l o t -> time_rt tbl l o t'.
Proof.
  intros E [A B]. split.
  - assert (X : (t' - o == t - o)%Q) by (rewrite E; reflexivity). rewrite (Qabs_wd _ _ X). exact A.
  - intro G. rewrite <- E. apply B. exact G.
Qed.

Section RoundTrip.
  Variable tbl : list Q.
  Hypothesis Hok : table_ok (1 # 96) tbl = true.

  Lemma denotes_compose dflt c l d c' : written_denotes tbl dflt c l d -> chart_denotes c' d -> read_back tbl dflt c l c'.
  Proof.
    intros [[hs2 [P2 F2]] [[ls2 [Q2 G2]] [_ [T1 [T2 [T3 [Ln [Wv _]]]]]]]] [[hs1 [P1 F1]] [[ls1 [Q1 G1]] [M1 [M2 [M3 [M4 [_ [M6 _]]]]]]]].
    unfold read_back. rewrite M1, M2, M3, M4, M6, T1, T2, T3, Ln, Wv. cbn [or_empty]. split; [|split; [|repeat split; reflexivity]].
    - destruct (forall2_perm_l hit_matches hs1 hs2 (Permutation_trans P2 (Permutation_sym P1)) _ F1) as [ys [Py Fy]].
      exists ys. split; [exact Py|]. pose proof (forall2_compose _ _ _ _ _ F2 Fy) as C.
      eapply forall2_impl; [|exact C]. intros h h' [s [[A1 [A2 A3]] [B1 [B2 B3]]]]. cbv beta.
      split; [congruence|]. split; [|congruence]. apply (time_rt_wd' tbl l _ (sh_time s)); [symmetry; exact B2|exact A2].
    - destruct (forall2_perm_l hold_matches ls1 ls2 (Permutation_trans Q2 (Permutation_sym Q1)) _ G1) as [ys [Py Fy]].
      exists ys. split; [exact Py|]. pose proof (forall2_compose _ _ _ _ _ G2 Fy) as C.
      eapply forall2_impl; [|exact C]. intros h h' [s [[A1 [A2 [A3 A4]]] [B1 [B2 [B3 B4]]]]]. cbv beta.
      split; [congruence|]. split; [|split; [|congruence]].
      + apply (time_rt_wd' tbl l _ (sl_time s)); [symmetry; exact B2|exact A2].
      + apply (time_rt_wd' tbl l _ (sl_time s + sl_len s)%Q); [rewrite B2, B3; reflexivity|exact A3].
  Qed.

  (* bms_write_read: BMSMap.read (BMSMap.write c) is c.  For every chart of write_dom and every rendering of the initial
     tempo that parses: the write succeeds, the reference interpreter accepts the lines and they denote the chart
     (bms_write_denotes); and whenever the written text lies in the reader's text-level domain and BMSMap.read returns a
     chart, that chart is the one written: hits and holds as multisets, columns and samples exactly, times within 1/192
     beat (equal on the snap grid), header fields and the WAV table exactly. *)
  Theorem bms_write_read (mk : Z) (lay : layout) (dflt : text) (c : wchart) (r : Q -> text) :
    write_dom tbl mk lay dflt c = true -> (forall q, parse_decimal (r q) <> None) ->
    exists ls l d, bms_write tbl lay dflt c = Some ls /\ wscript tbl c = Some l
      /\ bms_denote lay (map (render_with r) ls) = Some d /\ written_denotes tbl dflt c l d
      /\ forall c', text_domb lay (map (render_with r) ls) = true -> read_guards tbl (map (render_with r) ls) = true ->
                    bms_read tbl lay mk (map (render_with r) ls) = Some c' -> read_back tbl dflt c l c'.
  Proof.
    intros Hd Hr. destruct (bms_write_denotes tbl Hok mk lay dflt c r Hd Hr) as [ls [l [d [E1 [E2 [E3 E4]]]]]].
    exists ls, l, d. split; [exact E1|]. split; [exact E2|]. split; [exact E3|]. split; [exact E4|].
    intros c' Td G R.
    assert (Lok : layout_ok mk lay = true).
    { unfold write_dom in Hd. apply andb_true_iff in Hd. destruct Hd as [Hd _]. apply andb_true_iff in Hd. destruct Hd as [Hd _].
      apply andb_true_iff in Hd. destruct Hd as [Hd _]. apply andb_true_iff in Hd. destruct Hd as [Hd _]. exact Hd. }
    destruct (bms_read_text_denotes tbl Hok lay mk _ c' Lok (text_domb_sound _ _ Td) G R) as [d' [E5 E6]].
    rewrite E3 in E5. inversion E5; subst d'. apply (denotes_compose dflt c l d c' E4 E6).
  Qed.
End RoundTrip.
