(* C02, THE whole-file theorem: for every .sm text in the decidable domain c02_domb (Formats/SMReadDom.v)
   SMMapSet.read succeeds and returns exactly what the reference semantics sm_denote defines: one chart per #NOTES item,
   in file order, with its header fields; per kind a permutation of the denoted objects (column, time, length — times are
   Integrate.time_of of the row's position under the file's #BPMS script from -#OFFSET); every tempo change of the file
   in each chart's tempo list at its millisecond position.  Corollary: the runner's oracle read_spec 0 holds. *)
From Coq Require Import String ZArith QArith Qround Qabs List Bool Lia Lqa Sorting.Permutation.
From RV Require Import Base.PyNum Timing.Snapper Timing.Snap Timing.TimingMap Timing.Reseat Timing.Integrate Timing.Domain
  Timing.ReseatSpec Timing.ReseatDomain
  Formats.SMText Formats.SM Formats.SMSpec Formats.SMReadDom
  Proofs.SnapperProofs Proofs.TimingProofs Proofs.RederiveProofs Proofs.ReseatProofs Proofs.SMProofs Proofs.SMReadProofs
  Proofs.SMWriteProofs Proofs.SMTextFacts Proofs.SMReadPieces Proofs.SMReadMeta Proofs.SMReadRows Proofs.SMReadSim
  Proofs.SMReadExpand Proofs.SMReadTiming Proofs.SMReadTimes Proofs.SMReadChart Proofs.SMCanon.
Import ListNotations.
Open Scope Q_scope.

Definition Cn (t : text) : bool := contains (tx "#NOTES:") t.

(* what a '#NOTES' token and its item have in common *)
Definition notes_tok_rel (tok : text) (it : text * text) : Prop :=
  exists c1 c2 c3 c4 c5 c6 r0 l w2,
    map strip (split_on 58 (snd it)) = [strip c1; strip c2; strip c3; strip c4; strip c5; strip (sc false c6)]
    /\ split_on 58 tok = [r0; c1; c2; c3; c4; c5; l] /\ c6 = l ++ w2 /\ allws w2 /\ data_ok c6 = true.

Inductive piece_rel (p : text) (it : text * text) : Prop :=
| PRmeta : is_notes it = false -> Cn (strip p) = false ->
    (forall st, read_meta_token st (strip p) = meta_step st (fst it) (strip (snd it))) -> piece_rel p it
| PRnotes : is_notes it = true -> Cn (strip p) = true -> notes_tok_rel (strip p) it -> piece_rel p it.

Lemma piece_rel_of p : piece_ok p = true -> exists it, item_of (sc false p) = Some it /\ piece_rel p it.
Proof.
  unfold piece_ok. intro H. apply andb_true_iff in H. destruct H as [G H].
  destruct (split_on 58 p) as [|q0 rest] eqn:Sp; [discriminate|]. apply andb_true_iff in H. destruct H as [H0 H].
  destruct (text_eqb (head_tag q0) (tx "#NOTES")) eqn:Et.
  - destruct rest as [|c1 [|c2 [|c3 [|c4 [|c5 [|c6 [|? ?]]]]]]]; try discriminate.
    apply andb_true_iff in H. destruct H as [Hc Hd]. apply text_eqb_eq in Et.
    destruct (notes_piece p q0 c1 c2 c3 c4 c5 c6 Sp G H0 Hc Et) as ((V & IV & MV) & Cp & r0 & l & w2 & S2 & E6 & W2).
    exists (tx "#NOTES", V). split; [exact IV|]. apply PRnotes; [reflexivity|exact Cp|].
    exists c1, c2, c3, c4, c5, c6, r0, l, w2. auto.
  - destruct rest as [|q1 [|? ?]]; try discriminate.
    destruct (meta_piece p q0 q1 Sp G H0 H Et) as (IV & Np & Ms & N0 & Hk & Cp).
    exists (head_tag q0, rstrip q1). split; [exact IV|]. apply PRmeta; [exact Et|exact Cp|].
    intro st. cbn [fst snd]. rewrite strip_rstrip, <- Hk. exact (read_meta_token_step st (strip p) (strip q0) (strip q1) [] Np Ms N0).
Qed.

Lemma pieces_rel Pi : forallb piece_ok Pi = true ->
  exists items, map_opt item_of (map (sc false) Pi) = Some items /\ Forall2 piece_rel Pi items.
Proof.
  induction Pi as [|p Pi IH]; intro H.
  - exists []. split; [reflexivity|constructor].
  - cbn [forallb] in H. apply andb_true_iff in H. destruct H as [H1 H2].
    destruct (piece_rel_of p H1) as (it & E1 & R1). destruct (IH H2) as (items & E2 & R2).
    exists (it :: items). split; [cbn [map map_opt]; rewrite E1, E2; reflexivity|constructor; assumption].
Qed.

Lemma meta_run Pi items : Forall2 piece_rel Pi items -> forall st,
  read_metadata st (filter (fun t => negb (Cn t)) (map strip Pi))
  = read_fields st (map (fun it : text * text => (fst it, strip (snd it))) (filter (fun it => negb (is_notes it)) items)).
Proof.
  induction 1 as [|p it Pi items R _ IH]; intro st; [reflexivity|]. cbn [map filter]. destruct R as [N C M|N C M]; rewrite N, C; cbn [negb].
  - cbn [map read_metadata read_fields fst snd]. rewrite M. destruct (meta_step st (fst it) (strip (snd it))); [apply IH|reflexivity].
  - apply IH.
Qed.
Lemma maps_rel Pi items : Forall2 piece_rel Pi items ->
  Forall2 notes_tok_rel (filter Cn (map strip Pi)) (filter is_notes items).
Proof.
  induction 1 as [|p it Pi items R _ IH]; [constructor|]. cbn [map filter]. destruct R as [N C M|N C M]; rewrite N, C; [exact IH|constructor; assumption].
Qed.

Lemma list_close_refl l : list_close 0 l l = true.
Proof. induction l as [|x l IH]; [reflexivity|]. cbn [list_close]. rewrite q_close_refl, IH. reflexivity. Qed.
Lemma Forall_rev' {A} (P : A -> Prop) l : Forall P (rev l) -> Forall P l.
Proof. intro H. apply Forall_forall. intros x Hx. rewrite Forall_forall in H. apply H. apply in_rev in Hx. exact Hx. Qed.

Section Whole.
Variables (tbl : list Q) (types : list (text * option Z)).
Let cf := ref_conf tbl types.
Hypothesis Htbl : table_ok (1 # 96) tbl = true.
Hypothesis Hgrid : grid48_in_table tbl = true.

Section Charts.
Variables (pairs : list (Q * Q)) (init : Q).
Let sorted := sort_by pair_lt pairs.
Let script := script_of_pairs sorted.
Let bcss := script_of_pairs pairs.
Hypothesis Hadj : adj_lt sorted.
Hypothesis Hg48 : forall p, In p sorted -> on_grid48 (fst p) = true.
Hypothesis Hpos : forall p, In p sorted -> 0 <= fst p /\ 0 < snd p.
Hypothesis Hfirst : match script with c0 :: _ => (s_m (bs_snap c0) =? 0)%Z && Qeq_bool (s_b (bs_snap c0)) 0 = true | [] => False end.
Let time := beat_time init script.

Definition chart_rel (dc : dchart) (c : smchart) : Prop :=
  header_match 0 dc c = true
  /\ (forall kl, In kl (chart_objs c) -> Permutation (snd kl) (dnotes_of (fst kl) (d_notes dc)))
  /\ (forall x, In x script -> exists b, In b (c_bpms c) /\ fst (fst b) == time_of init script (bs_snap x))
  /\ (forall kl, In kl (chart_objs c) -> forall x y, In x (snd kl) -> In y (snd kl) -> cmp_ok note4_lt x y)
  /\ (forallb (fun x => Qeq_bool (s_b (bs_snap x)) 0) script = true ->
      Forall2 (fun (b : Q * Q * Q) x => fst (fst b) == time_of init script (bs_snap x) /\ snd (fst b) = bs_bpm x /\ snd b = 4) (c_bpms c) script).

Theorem read_chart_denotes tok it dc : notes_tok_rel tok it -> denote_chart (snd it) time = Some dc ->
  Forall (fun n => (n mod 4 = 0)%Z) (d_rows dc) ->
  exists c, read_chart cf tok (Some init) (Some bcss) true = Some c /\ chart_rel dc c.
Proof.
  intros (c1 & c2 & c3 & c4 & c5 & c6 & r0 & l & w2 & MV & ST & E6 & W2 & DO) D F4.
  unfold denote_chart in D. rewrite MV in D.
  destruct (ref_keys (strip c1)) as [keysZ|] eqn:RK; [|discriminate].
  destruct (parse_int (strip c4)) as [mt|] eqn:PM; [|discriminate].
  destruct (map_opt parse_decimal (split_on 44 (strip c5))) as [rd|] eqn:PR; [|discriminate].
  set (data_d := strip (sc false c6)) in *.
  destruct (denote_measures (match data_d with [] => [] | _ :: _ => split_on 44 data_d end) keysZ 0 time (repeat None (Z.to_nat keysZ)) [] [])
    as [[[op notes] ns]|] eqn:DM; [|discriminate].
  destruct (forallb (fun o : option (kind * Q) => match o with None => true | Some _ => false end) op) eqn:FO; [|discriminate].
  inversion D; subst dc. clear D. cbn [d_rows] in F4.
  pose proof (data_rows c6 l w2 DO E6 W2) as DR. fold data_d in DR.
  assert (Rows : (match data_d with [] => [] | _ :: _ => split_on 44 data_d end = [] /\ map measure_rows (split_on 44 l) = [[]])
                 \/ map measure_rows (split_on 44 l) = map rowsD (match data_d with [] => [] | _ :: _ => split_on 44 data_d end)).
  { destruct data_d as [|x dd] eqn:Ed; [left; split; [reflexivity|exact DR]|right; exact DR]. }
  destruct (read_notes_denotes tbl types Htbl Hgrid pairs init Hadj Hg48 Hpos Hfirst l _ keysZ op notes ns
              (ref_keys_bound _ _ RK) Rows DM FO (Forall_rev' _ _ F4)) as (n & RN & NR & TR & NC & TL).
  eexists. split.
  - unfold read_chart. rewrite ST. cbn [removelast last nth_error]. rewrite PM, PR. fold bcss in RN. change (ref_conf tbl types) with cf in RN. rewrite RN. reflexivity.
  - unfold chart_rel. cbn [d_notes c_bpms]. split; [|split; [|split; [|split]]].
    + unfold header_match. cbn [d_type d_desc d_diff d_meter d_radar c_type c_desc c_diff c_meter c_radar].
      rewrite !text_eqb_refl, Z.eqb_refl, list_close_refl. reflexivity.
    + destruct NR as (N1 & N2 & N3 & N4 & N5 & N6 & N7). unfold chart_objs.
      cbn [c_hits c_holds c_rolls c_mines c_lifts c_fakes c_keys]. intros kl [<-|[<-|[<-|[<-|[<-|[<-|[<-|[]]]]]]]]; cbn [fst snd]; assumption.
    + exact TR.
    + unfold chart_objs. cbn [c_hits c_holds c_rolls c_mines c_lifts c_fakes c_keys].
      intros kl Hkl. apply NC. destruct Hkl as [<-|[<-|[<-|[<-|[<-|[<-|[<-|[]]]]]]]]; cbn [snd In]; tauto.
    + exact TL.
Qed.

Theorem read_charts_denote toks its cs : Forall2 notes_tok_rel toks its ->
  map_opt (fun it : text * text => denote_chart (snd it) time) its = Some cs ->
  Forall (fun dc => Forall (fun n => (n mod 4 = 0)%Z) (d_rows dc)) cs ->
  exists cs', map_opt (fun t => read_chart cf t (Some init) (Some bcss) true) toks = Some cs' /\ Forall2 chart_rel cs cs'.
Proof.
  intros R. revert cs. induction R as [|tok it toks its R1 _ IH]; intros cs D F.
  - inversion D; subst. exists []. split; [reflexivity|constructor].
  - cbn [map_opt] in D. destruct (denote_chart (snd it) time) as [dc|] eqn:D1; [|discriminate].
    destruct (map_opt (fun it0 : text * text => denote_chart (snd it0) time) its) as [cs0|] eqn:D2; [|discriminate]. inversion D; subst cs.
    inversion F as [|? ? F1 F2]; subst.
    destruct (read_chart_denotes tok it dc R1 D1 F1) as (c & RC & CR). destruct (IH cs0 eq_refl F2) as (cs' & RS & FR).
    exists (c :: cs'). split; [cbn [map_opt]; rewrite RC, RS; reflexivity|constructor; assumption].
Qed.
End Charts.

(* ------------------------------------------------------------------ the file *)
Definition file_rel (d : dfile) (s : smset) : Prop :=
  Forall2 (fun dc c =>
    header_match 0 dc c = true
    /\ (forall kl, In kl (chart_objs c) -> Permutation (snd kl) (dnotes_of (fst kl) (d_notes dc)))
    /\ (forall tp : Q * Q * Q, In tp (d_tempo d) -> exists b, In b (c_bpms c) /\ fst (fst b) == snd tp)
    /\ (forall kl, In kl (chart_objs c) -> forall x y, In x (snd kl) -> In y (snd kl) -> cmp_ok note4_lt x y))
  (d_charts d) (s_maps s).

Definition tempo_exact (d : dfile) (s : smset) : Prop :=
  Forall (fun c => Forall2 (fun (b tp : Q * Q * Q) => fst (fst b) == snd tp /\ snd (fst b) = snd (fst tp) /\ snd b = 4) (c_bpms c) (d_tempo d)) (s_maps s).

Lemma mult4_beat x : is_mult4 x = true -> Qeq_bool (s_b (snap_of_beat x)) 0 = true.
Proof.
  unfold is_mult4. intro H. apply Qeq_bool_iff in H. apply Qeq_bool_iff. cbn [snap_of_beat s_b]. rewrite Qred_correct, <- H. field.
Qed.

Theorem sm_read_denotes_lines txt : c02_domb txt = true ->
  exists d s, sm_denote txt = Some d /\ sm_read cf current txt = Some s /\ file_rel d s /\ s_offset s = Some (d_beat0 d)
              /\ (tempo_on_lines d = true -> tempo_exact d s).
Proof.
  unfold c02_domb. destruct (sm_denote txt) as [d|] eqn:SD; [|discriminate]. intro H.
  apply andb_true_iff in H. destruct H as [H HH]. apply andb_true_iff in H. destruct H as [HD HL].
  exists d. unfold sm_denote in SD.
  destruct (items_go (split_on 59 (strip_comments txt))) as [items|] eqn:IG; [|discriminate].
  set (fields := map (fun it : text * text => (fst it, strip (snd it))) (filter (fun it => negb (is_notes it)) items)) in *.
  destruct (lookup_last (tx "#OFFSET") fields None) as [offv|] eqn:LO; [|discriminate].
  destruct (lookup_last (tx "#BPMS") fields None) as [bpmv|] eqn:LB; [|discriminate].
  destruct (parse_decimal offv) as [off|] eqn:PO; [|discriminate].
  destruct (map_opt (fun p => parse_pair (strip p)) (split_on 44 bpmv)) as [pairs|] eqn:PP; [|discriminate].
  cbv zeta in SD.
  set (init := Qred (- (off * 1000))) in *.
  destruct (_ && _ && forallb (fun p : Q * Q => Qlt_bool 0 (snd p)) pairs) eqn:CK; [|discriminate].
  destruct (map_opt (fun it : text * text => denote_chart (snd it) (beat_time init (tempo_script pairs))) (filter is_notes items)) as [cs|] eqn:DC; [|discriminate].
  inversion SD; subst d. clear SD.
  apply andb_true_iff in CK. destruct CK as [CK Hbpm]. apply andb_true_iff in CK. destruct CK as [_ Hfirst0].
  (* the domain of the tempo script *)
  unfold hdr_ok in HH. cbn [d_items] in HH.
  unfold c02_dom in HD. cbn [d_charts d_tempo] in HD. apply andb_true_iff in HD. destruct HD as [HD Hdist]. apply andb_true_iff in HD. destruct HD as [Hrows Hg].
  assert (InO : In (tx "#OFFSET", offv) fields) by (destruct (lookup_last_in _ _ _ _ LO) as [K|K]; [discriminate|exact K]).
  assert (InB : In (tx "#BPMS", bpmv) fields) by (destruct (lookup_last_in _ _ _ _ LB) as [K|K]; [discriminate|exact K]).
  pose proof (hdr_scan_bpms_parse fields false false HH bpmv InB) as BP.
  destruct (bpms_parse bpmv) as [pairs'|] eqn:BPe; [|discriminate]. destruct (bpms_parse_pairs _ _ BPe) as [BP1 BP2].
  rewrite PP in BP1. inversion BP1; subst pairs'. clear BP1 BP.
  set (sorted := sort_by pair_lt pairs) in *.
  assert (Psort : forall p, In p sorted -> In p pairs).
  { intros p Hp. apply (Permutation_in p (Permutation_sym (sort_by_perm pair_lt pairs))). exact Hp. }
  assert (Hpos : forall p, In p sorted -> 0 <= fst p /\ 0 < snd p).
  { intros p Hp. apply Psort in Hp. rewrite forallb_forall in BP2, Hbpm. split; [apply Qle_bool_iff; exact (BP2 p Hp)|apply Qlt_bool_iff; exact (Hbpm p Hp)]. }
  assert (Hg48 : forall p, In p sorted -> on_grid48 (fst p) = true).
  { intros p Hp. rewrite forallb_forall in Hg. apply (Hg (fst p, snd p, beat_time init (tempo_script pairs) (fst p))).
    apply in_map_iff. exists p. split; [reflexivity|exact Hp]. }
  assert (Hadj : adj_lt sorted).
  { apply adj_lt_of_distinct; [apply sort_adj_le|]. rewrite map_map in Hdist. exact Hdist. }
  assert (Hfirst : match script_of_pairs sorted with c0 :: _ => (s_m (bs_snap c0) =? 0)%Z && Qeq_bool (s_b (bs_snap c0)) 0 = true | [] => False end).
  { rewrite tempo_script_eq in Hfirst0. fold sorted in Hfirst0. destruct (script_of_pairs sorted); [discriminate|]. rewrite andb_comm. exact Hfirst0. }
  (* pieces *)
  unfold dialect2 in HL. apply andb_true_iff in HL. destruct HL as [Gs HL]. apply andb_true_iff in HL. destruct HL as [Hlast Hpieces].
  pose proof (split_on_last_decomp 59 txt) as DP. set (Pi := removelast (split_on 59 txt)) in *. set (pl := last (split_on 59 txt) []) in *.
  destruct (last_piece pl Hlast) as [Lp1 Lp2].
  rewrite strip_comments_sc, (sc_split_false 59 txt eq_refl eq_refl Gs), DP, map_app in IG. cbn [map] in IG.
  rewrite items_go_snoc, Lp2 in IG.
  destruct (pieces_rel Pi Hpieces) as (items' & IG' & PR). rewrite IG in IG'. inversion IG'; subst items'. clear IG'.
  (* the header *)
  assert (FS : Forall (fun f : text * text => strip (snd f) = snd f) fields).
  { apply Forall_forall. intros f Hf. unfold fields in Hf. apply in_map_iff in Hf. destruct Hf as (it & <- & _). cbn [snd]. apply strip_idem. }
  assert (UO : forall v, In (tx "#OFFSET", v) fields -> v = offv).
  { intros v K. pose proof (unique_offset fields false false HH v K None) as U. rewrite LO in U. inversion U. reflexivity. }
  assert (UB : forall v, In (tx "#BPMS", v) fields -> v = bpmv).
  { intros v K. pose proof (unique_bpms fields false false HH v K None) as U. rewrite LB in U. inversion U. reflexivity. }
  assert (Hfrom : forall i, from_bcs i (script_of_pairs pairs) <> None).
  { intro i. destruct (offsets_ok tbl types Htbl Hgrid pairs i Hadj Hg48 Hpos Hfirst [] ltac:(intros q [])) as (bcos & _ & E & _). congruence. }
  destruct (run_fields offv bpmv off (script_of_pairs pairs) PO (read_bpms_of_parse bpmv pairs BPe) Hfrom fields false false (meta_init current)
              HH FS UO UB eq_refl ltac:(discriminate) ltac:(discriminate)) as (st & RF & Sst & Ost & Bst).
  specialize (Ost (or_intror (ex_intro _ offv InO))). specialize (Bst (or_intror (ex_intro _ bpmv InB))). fold init in Ost.
  (* the charts *)
  assert (F4 : Forall (fun dc => Forall (fun n => (n mod 4 = 0)%Z) (d_rows dc)) cs).
  { apply Forall_forall. intros dc Hdc. apply Forall_forall. intros n Hn. rewrite forallb_forall in Hrows. specialize (Hrows dc Hdc).
    rewrite forallb_forall in Hrows. apply Z.eqb_eq. exact (Hrows n Hn). }
  rewrite tempo_script_eq in DC. fold sorted in DC.
  destruct (read_charts_denote pairs init Hadj Hg48 Hpos Hfirst _ _ cs (maps_rel Pi items PR) DC F4) as (cs' & RC & CR).
  exists (mkSet (m_txt st) (m_offset st) (m_sstart st) (m_slen st) (m_sel st) cs'). split; [reflexivity|]. split.
  - unfold sm_read. rewrite DP, map_app. cbn [map]. rewrite Lp1, !filter_app. cbn [filter]. change (contains (tx "#NOTES:") []) with false. cbn [negb].
    rewrite app_nil_r, read_metadata_app. fold Cn. rewrite (meta_run Pi items PR). fold fields. rewrite RF. cbn [read_metadata read_meta_token].
    rewrite Ost, Bst, Sst. change (contains (tx "#NOTES:")) with Cn. rewrite RC. reflexivity.
  - split; [|split; [cbn [s_offset d_beat0]; exact Ost|]].
    2:{ unfold tempo_on_lines, tempo_exact. cbn [d_tempo s_maps]. intro HL.
        assert (HS : forallb (fun x => Qeq_bool (s_b (bs_snap x)) 0) (script_of_pairs sorted) = true).
        { unfold script_of_pairs. apply forallb_forall. intros x Hx. apply in_map_iff in Hx. destruct Hx as (p & <- & Hp). cbn [bs_snap].
          apply mult4_beat. rewrite forallb_forall in HL. apply (HL (fst p, snd p, beat_time init (tempo_script pairs) (fst p))).
          apply in_map_iff. exists p. split; [reflexivity|exact Hp]. }
        clear -CR HS. induction CR as [|dc c cs cs' (_ & _ & _ & _ & E) _ IH]; constructor; [|exact IH].
        specialize (E HS). rewrite tempo_script_eq. fold sorted. unfold script_of_pairs in E.
        assert (GM : forall (R : Q * Q * Q -> bcs -> Prop) (R' : Q * Q * Q -> Q * Q * Q -> Prop) (f : Q * Q -> bcs) (g : Q * Q -> Q * Q * Q) la lp,
                  (forall a p, R a (f p) -> R' a (g p)) -> Forall2 R la (map f lp) -> Forall2 R' la (map g lp)).
        { intros R R' f g la lp Hi. revert la. induction lp as [|p lp IHp]; intros la F0; inversion F0; subst; cbn [map]; constructor; auto. }
        refine (GM _ _ _ _ _ _ _ E). intros a p (A & B & C). cbn [fst snd bs_snap bs_bpm] in *. split; [|split; assumption].
        rewrite A. unfold beat_time. rewrite Qred_correct. reflexivity. }
    unfold file_rel. cbn [d_charts s_maps d_tempo]. clear -CR. induction CR as [|dc c cs cs' (A & B & C & D & _) _ IH]; constructor; [|exact IH].
    split; [exact A|]. split; [exact B|]. split; [|exact D]. intros tp Htp. apply in_map_iff in Htp. destruct Htp as (p & <- & Hp). cbn [snd].
    destruct (C (mkBcs (snd p) 4 (snap_of_beat (fst p)))) as (b & Hb & Eb).
    { unfold script_of_pairs. apply in_map_iff. exists p. split; [reflexivity|exact Hp]. }
    exists b. split; [exact Hb|]. rewrite Eb. cbn [bs_snap]. unfold beat_time. rewrite Qred_correct. rewrite tempo_script_eq. reflexivity.
Qed.

Theorem sm_read_denotes txt : c02_domb txt = true ->
  exists d s, sm_denote txt = Some d /\ sm_read cf current txt = Some s /\ file_rel d s /\ s_offset s = Some (d_beat0 d).
Proof. intro H. destruct (sm_read_denotes_lines txt H) as (d & s & A & B & C & D & _). exists d, s. auto. Qed.

(* the runner's oracle on the model's result *)
Lemma forallb2_of_Forall2 {A B} (R : A -> B -> Prop) (f : A -> B -> bool) la lb :
  (forall a b, R a b -> f a b = true) -> Forall2 R la lb -> forallb2 f la lb = true.
Proof. intros H F. induction F as [|a b la lb Hab _ IH]; [reflexivity|]. cbn [forallb2]. rewrite (H a b Hab), IH. reflexivity. Qed.

Theorem file_rel_read_spec d s : file_rel d s -> read_spec 0 d s = true.
Proof.
  unfold file_rel, read_spec. apply forallb2_of_Forall2. intros dc c (A & B & C & D). rewrite A. cbn [andb].
  apply andb_true_iff. split.
  - unfold objs_match. apply forallb_forall. intros kl Hkl.
    rewrite <- (canon_perm_eq (snd kl) _ (B kl Hkl) (D kl Hkl)). apply notes_close_refl.
  - apply forallb_forall. intros tp Htp. destruct (C tp Htp) as (b & Hb & Eb). apply existsb_exists. exists b. split; [exact Hb|].
    unfold q_close. apply Qle_bool_iff. rewrite Eb. setoid_replace (snd tp - snd tp) with 0 by ring. cbn. lra.
Qed.

Theorem sm_read_spec txt : c02_domb txt = true ->
  exists d s, sm_denote txt = Some d /\ sm_read cf current txt = Some s /\ file_rel d s /\ read_spec 0 d s = true
              /\ s_offset s = Some (d_beat0 d).
Proof.
  intro H. destruct (sm_read_denotes txt H) as (d & s & A & B & C & D). exists d, s. repeat split; try assumption. apply file_rel_read_spec. exact C.
Qed.
End Whole.

(* for any configuration equal to the reference one (table obligations in Props) *)
Theorem sm_read_spec_conf (cf : smconf) tbl types : cf = ref_conf tbl types -> table_ok (1 # 96) tbl = true -> grid48_in_table tbl = true ->
  forall txt, c02_domb txt = true ->
  exists d s, sm_denote txt = Some d /\ sm_read cf current txt = Some s /\ file_rel d s /\ read_spec 0 d s = true
              /\ s_offset s = Some (d_beat0 d).
Proof. intros -> H1 H2. exact (sm_read_spec tbl types H1 H2). Qed.

(* tempo changes on measure lines: the chart's tempo list IS the file's tempo list (count, order, ms, bpm; metronome 4) *)
Theorem sm_read_tempo_lines_conf (cf : smconf) tbl types : cf = ref_conf tbl types -> table_ok (1 # 96) tbl = true -> grid48_in_table tbl = true ->
  forall txt, c02_domb txt = true -> sm_tempo_on_lines txt = true ->
  exists d s, sm_denote txt = Some d /\ sm_read cf current txt = Some s /\ tempo_exact d s.
Proof.
  intros -> H1 H2 txt Hd HL. destruct (sm_read_denotes_lines tbl types H1 H2 txt Hd) as (d & s & A & B & _ & _ & E).
  exists d, s. split; [exact A|]. split; [exact B|]. apply E. unfold sm_tempo_on_lines in HL. rewrite A in HL. exact HL.
Qed.
