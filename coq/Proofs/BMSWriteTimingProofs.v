(* C05, timing: what the four TimingMap.snaps calls of _write_notes return for a chart whose tempo list is, in
   millisecond form, a script of C10's on-grid domain.  Uses the C10 theorems (Proofs/TimingProofs2.v). *)
From Coq Require Import ZArith QArith Qround Qabs List Bool Lia Lqa Sorting.Permutation.
From RV Require Import Base.PyNum Timing.Snapper Timing.Snap Timing.TimingMap Timing.Integrate Timing.Domain Timing.Domain2
  Proofs.SnapperProofs Proofs.TimingProofs Proofs.RederiveProofs Proofs.TimingProofs2.
Import ListNotations.
Open Scope Q_scope.

Lemma script_ok_all_slt tbl : forall rest p, script_ok tbl p rest -> forall cc, In cc rest -> slt (bs_snap p) (bs_snap cc).
Proof.
  induction rest as [|c rest IH]; intros p H cc I; [contradiction|]. destruct H as [[Hlt _] Hs].
  destruct I as [<-|I]; [exact Hlt|]. eapply slt_trans_le; [exact Hlt|]. apply (IH c Hs cc I).
Qed.

(* every change of a script sits, in the millisecond form, at its own integrated time *)
Lemma linked_times tbl : forall rest brest off p, script_ok tbl p rest -> linked off p rest brest ->
  Forall2 (fun cc b => time_of_go off p rest (bs_snap cc) == bo_off b) rest brest.
Proof.
  induction rest as [|c rest IH]; intros brest off p Hs Hl.
  - destruct brest; [constructor|destruct Hl].
  - destruct brest as [|b brest]; [destruct Hl|]. destruct Hl as [_ [_ [Loff Ll]]]. pose proof Hs as [[Hlt _] Hs'].
    constructor.
    + cbn [time_of_go]. assert (snap_le (bs_snap c) (bs_snap c) = true) as ->.
      { apply snap_le_iff. right. split; [reflexivity|lra]. }
      rewrite time_of_go_before by (intros x I; apply (script_ok_all_slt tbl rest c Hs' x I)).
      rewrite seg_beats_self, Loff. ring.
    + specialize (IH brest (bo_off b) c Hs' Ll). apply (forall2_impl_in _ _ _ _ IH). intros cc b' I E.
      cbn [time_of_go]. assert (snap_le (bs_snap c) (bs_snap cc) = true) as ->.
      { apply snap_le_iff. apply slt_sle. apply (script_ok_all_slt tbl rest c Hs' cc I). }
      rewrite <- E. apply time_of_go_comp. symmetry. exact Loff.
Qed.

(* the change active at the position of a change is that change *)
Lemma active_go_self tbl : forall rest p t cc, script_ok tbl p rest -> In cc (p :: rest) ->
  snd (active_go t p rest (bs_snap cc)) = cc.
Proof.
  induction rest as [|n rest IH]; intros p t cc Hs I.
  - destruct I as [<-|[]]. reflexivity.
  - pose proof Hs as [[Hlt _] Hs']. cbn [active_go]. destruct I as [<-|I].
    + assert (snap_le (bs_snap n) (bs_snap p) = false) as ->; [|reflexivity].
      destruct (snap_le (bs_snap n) (bs_snap p)) eqn:E; [|reflexivity]. apply snap_le_iff in E.
      exfalso. apply (slt_not_sle _ _ Hlt E).
    + assert (snap_le (bs_snap n) (bs_snap cc) = true) as ->.
      { apply snap_le_iff. destruct I as [<-|I]; [right; split; [reflexivity|lra]|].
        apply slt_sle. apply (script_ok_all_slt tbl rest n Hs' cc I). }
      apply IH; assumption.
Qed.

Lemma forall2_zip {A B C} (P : A -> C -> Prop) (R : B -> C -> Prop) (la : list A) (lb : list B) (lc : list C) :
  Forall2 P la lc -> Forall2 R lb lc -> Forall2 (fun ab c => P (fst ab) c /\ R (snd ab) c) (combine la lb) lc.
Proof.
  intro H. revert lb. induction H as [|a c la lc Pac _ IH]; intros lb H2; inversion H2; subst; cbn [combine]; constructor; auto.
Qed.

Lemma forall2_unmap {A B C} (f : A -> C) (P : C -> B -> Prop) l r :
  Forall2 P (map f l) r -> Forall2 (fun a b => In a l /\ P (f a) b) l r.
Proof.
  revert r. induction l as [|a l IH]; intros r H; inversion H as [|? b0 ? r0 Hab Hr]; subst; constructor.
  - split; [left; reflexivity|exact Hab].
  - apply (forall2_impl_in _ _ _ _ (IH _ Hr)). intros x' y' _ [I J]. split; [right; exact I|exact J].
Qed.

Section WTiming.
  Variable tbl : list Q.
  Hypothesis Hok : table_ok (1 # 96) tbl = true.
  Variables (bcos S : list bco) (l : list bcs).
  Hypothesis HS : S = sort_by bco_lt bcos.
  Hypothesis Hl : bco_to_bcs tbl S = Some l.
  Hypothesis Hdom : domainb tbl l [] = true.
  Hypothesis Hfrom : from_bcs 0 l = Some S.

  Lemma S_sorted : sort_by bco_lt S = S.
  Proof.
    destruct (domainb_nil_sound tbl l Hdom) as [c0 [rest [El [H0 [Hm0 [Hb0 Hs]]]]]].
    destruct (script_pairs tbl Hok 0 c0 rest H0 Hm0 Hb0 Hs) as [brest [c0' [bcss' [E1 [E2 _]]]]]. cbv zeta in *.
    rewrite <- El, Hfrom in E1. injection E1 as ES. rewrite ES. exact E2.
  Qed.

  Lemma tm_snaps_sorted os : tm_snaps tbl bcos os = tm_snaps tbl S os.
  Proof. unfold tm_snaps. rewrite S_sorted, <- HS. reflexivity. Qed.

  (* hits, hold heads, hold tails: any non-negative times *)
  Theorem w_snaps os : (forall o, In o os -> 0 <= o) ->
    exists ss, tm_snaps tbl bcos os = Some ss /\ Forall2 (snap_rt_spec tbl 0 l) os ss.
  Proof.
    intro Hos. destruct (domainb_nil_sound tbl l Hdom) as [c0 [rest [El [H0 [Hm0 [Hb0 Hs]]]]]].
    destruct (snaps_on_grid tbl Hok 0 c0 rest os H0 Hm0 Hb0 Hs Hos) as [bcos' [ss [F1 [F2 [F3 _]]]]].
    rewrite <- El, Hfrom in F1. inversion F1; subst bcos'. exists ss. split; [rewrite tm_snaps_sorted; exact F2|rewrite El; exact F3].
  Qed.

  (* the millisecond form of the script: each tempo point at the integrated time of its change *)
  Theorem w_change_times : Forall2 (fun cc b => bo_off b == time_of 0 l (bs_snap cc) /\ bo_bpm b = bs_bpm cc /\ bo_met b = bs_met cc) l S.
  Proof.
    destruct (domainb_nil_sound tbl l Hdom) as [c0 [rest [El [H0 [Hm0 [Hb0 Hs]]]]]].
    destruct (script_pairs tbl Hok 0 c0 rest H0 Hm0 Hb0 Hs) as [brest [c0' [bcss' [E1 [_ [_ [_ [_ [E6 _]]]]]]]]]. cbv zeta in *.
    rewrite <- El, Hfrom in E1. injection E1 as ES. rewrite El, ES. constructor.
    - cbn [bo_off bo_bpm bo_met time_of]. split; [|split; reflexivity].
      rewrite time_of_go_before by (intros x I; apply (script_ok_all_slt tbl rest c0 Hs x I)).
      rewrite seg_beats_self. ring.
    - pose proof (linked_times tbl rest brest 0 c0 Hs E6) as T.
      assert (Lk : forall rest brest off p, linked off p rest brest -> Forall2 (fun cc b => bo_bpm b = bs_bpm cc /\ bo_met b = bs_met cc) rest brest).
      { induction rest0 as [|x r IH]; intros br off p L; destruct br as [|y br]; cbn [linked] in L; try contradiction; constructor.
        - destruct L as [A [B _]]. split; assumption.
        - destruct L as [_ [_ [_ L']]]. eapply IH; exact L'. }
      specialize (Lk rest brest 0 c0 E6).
      change (Forall2 (fun cc b => bo_off b == time_of_go 0 c0 rest (bs_snap cc) /\ bo_bpm b = bs_bpm cc /\ bo_met b = bs_met cc) rest brest).
      clear - T Lk. revert T Lk. generalize (time_of_go 0 c0 rest). intros f T Lk.
      induction T as [|cc b r br E _ IH]; inversion Lk as [|? ? ? ? K Lk']; subst; constructor; auto.
      split; [symmetry; exact E|exact K].
  Qed.

  Lemma zero_on_grid : on_grid tbl 0.
  Proof.
    unfold table_ok in Hok. destruct tbl as [|v0 t]; [discriminate|].
    apply andb_true_iff in Hok. destruct Hok as [H _]. apply andb_true_iff in H. destruct H as [H _].
    apply Qeq_bool_iff in H. exists v0. split; [left; reflexivity|]. rewrite H. unfold frac. cbn. reflexivity.
  Qed.

  (* tempo points: the snaps of their own times are the positions of the script *)
  Theorem w_change_snaps :
    exists sb, tm_snaps tbl bcos (map bo_off bcos) = Some sb
      /\ Forall2 (fun b s => exists cc, In (b, cc) (combine S l) /\ ssim s (bs_snap cc) /\ s_met s = bs_met cc) bcos sb.
  Proof.
    pose proof w_change_times as CT.
    destruct (domainb_nil_sound tbl l Hdom) as [c0 [rest [El [H0 [Hm0 [Hb0 Hs]]]]]].
    (* sorted order: positions -> times -> positions *)
    assert (Hq : forall q, In q (map bs_snap l) -> pos_ok tbl c0 rest q).
    { intros q I. apply in_map_iff in I. destruct I as [cc [<- I]]. unfold pos_ok. rewrite El in I.
      rewrite (active_go_self tbl rest c0 0 cc Hs I).
      assert (Nc : node_ok cc).
      { destruct I as [<-|I]; [exact H0|]. clear - Hs I. revert c0 Hs. induction rest as [|x r IH]; intros p Hs; [contradiction|].
        destruct Hs as [[_ [Nx _]] Hs']. destruct I as [<-|I]; [exact Nx|]. apply (IH I x Hs'). }
      destruct Nc as [_ [_ [B0 [B1 _]]]]. split; [|split].
      - destruct I as [<-|I]; [right; split; [reflexivity|lra]|]. apply slt_sle. apply (script_ok_all_slt tbl rest c0 Hs cc I).
      - split; assumption.
      - eapply on_grid_comp; [symmetry; apply seg_beats_self|exact zero_on_grid]. }
    assert (Hos : Forall2 (fun q o => o == time_of 0 (c0 :: rest) q) (map bs_snap l) (map bo_off S)).
    { rewrite <- El. clear - CT. revert CT. generalize (time_of 0 l). intros f CT.
      induction CT as [|cc b l' S' [E _] _ IH]; cbn [map]; constructor; auto. }
    destruct (snaps_of_offsets tbl Hok 0 c0 rest (map bs_snap l) (map bo_off S) H0 Hm0 Hb0 Hs Hq Hos)
      as [Hge [bcos' [ss [F1 [F2 F3]]]]].
    rewrite <- El, Hfrom in F1. inversion F1; subst bcos'. clear F1.
    (* per-query form *)
    destruct (script_setup tbl Hok 0 c0 rest H0 Hm0 Hb0 Hs) as [brest [c0' [bcss' [E1 [E2 [E3 [E4 [E5 [E6 _]]]]]]]]]. cbv zeta in *.
    rewrite <- El, Hfrom in E1. injection E1 as ES. rewrite <- ES in *. rewrite S_sorted, Hl in E3. injection E3 as EL. rewrite <- EL in *.
    rewrite S_sorted in E4.
    set (full := rev (combine S l)).
    assert (Hdef : forall o, 0 <= o -> exists v, lookup_snap tbl full o = Some v).
    { intros o Ho. unfold full. rewrite E4.
      destruct (lookup_snap_spec tbl Hok _ _ o E5 E6) as [r [V _]]; [cbn; exact Ho|]. exists r. exact V. }
    assert (SL : bco_to_bcs tbl (sort_by bco_lt S) = Some l) by (rewrite S_sorted; exact Hl).
    destruct (tm_snaps_lookup tbl S (map bo_off S) l SL) as [res [R1 R2]].
    { intros o I. rewrite S_sorted. apply Hdef. apply Hge. exact I. }
    rewrite S_sorted in R2. fold full in R2. rewrite F2 in R1. inversion R1; subst res. clear R1.
    (* pair each tempo point with its change *)
    assert (Z : Forall2 (fun bc s => lookup_snap tbl full (bo_off (fst bc)) = Some s
                                     /\ ssim s (bs_snap (snd bc)) /\ s_met s = bs_met (snd bc)) (combine S l) ss).
    { assert (A : Forall2 (fun b s => lookup_snap tbl full (bo_off b) = Some s) S ss).
      { apply (forall2_impl_in _ _ _ _ (forall2_unmap _ _ _ _ R2)). intros b s _ [_ J]. exact J. }
      assert (B : Forall2 (fun cc s => ssim s (bs_snap cc) /\ s_met s = bs_met cc) l ss).
      { apply (forall2_impl_in _ _ _ _ (forall2_unmap _ _ _ _ F3)). intros cc s _ [I [J K]]. split; [exact J|].
        rewrite K. rewrite (active_go_self tbl rest c0 0 cc Hs); [reflexivity|rewrite <- El; exact I]. }
      apply (forall2_zip _ _ _ _ _ A B). }
    (* the order of the chart *)
    assert (Pm : Permutation bcos S) by (rewrite HS; apply sort_by_perm).
    assert (SL' : bco_to_bcs tbl (sort_by bco_lt bcos) = Some l) by (rewrite <- HS; exact Hl).
    destruct (tm_snaps_lookup tbl bcos (map bo_off bcos) l SL') as [sb [T1 T2]].
    { intros o I. rewrite <- HS. apply Hdef. apply Hge. apply in_map_iff in I. destruct I as [b [<- I]].
      apply in_map. apply (Permutation_in _ Pm I). }
    rewrite <- HS in T2. fold full in T2.
    exists sb. split; [exact T1|].
    assert (T3 : Forall2 (fun b s => In b bcos /\ lookup_snap tbl full (bo_off b) = Some s) bcos sb).
    { apply (forall2_unmap _ _ _ _ T2). }
    apply (forall2_impl_in _ _ _ _ T3). intros b s _ [Ib Lb].
    assert (Is : In b S) by (apply (Permutation_in _ Pm Ib)).
    assert (Len : length S = length l) by (symmetry; apply (forall2_length _ _ _ CT)).
    (* b has a partner in l *)
    assert (Ex : exists cc, In (b, cc) (combine S l)).
    { clear - Is Len. revert l Len. induction S as [|x S' IH]; intros l Len; [contradiction|]. destruct l as [|y l']; [discriminate|].
      destruct Is as [<-|Is]; [exists y; left; reflexivity|]. destruct (IH Is l') as [cc I]; [cbn in Len; lia|]. exists cc. right. exact I. }
    destruct Ex as [cc Icc]. exists cc. split; [exact Icc|].
    destruct (forall2_in_l _ _ _ _ Z Icc) as [s' [_ [L' [Ss Sm]]]]. cbn [fst snd] in *.
    rewrite Lb in L'. inversion L'; subst s'. split; assumption.
  Qed.
  (* the same, for a tempo list given in time order: aligned with the script *)
  Theorem w_change_snaps_sorted : bcos = S ->
    exists sb, tm_snaps tbl bcos (map bo_off bcos) = Some sb
      /\ Forall2 (fun cc s => ssim s (bs_snap cc) /\ s_met s = bs_met cc) l sb.
  Proof.
    intro Eb. pose proof w_change_times as CT.
    destruct (domainb_nil_sound tbl l Hdom) as [c0 [rest [El [H0 [Hm0 [Hb0 Hs]]]]]].
    assert (Hq : forall q, In q (map bs_snap l) -> pos_ok tbl c0 rest q).
    { intros q I. apply in_map_iff in I. destruct I as [cc [<- I]]. unfold pos_ok. rewrite El in I.
      rewrite (active_go_self tbl rest c0 0 cc Hs I).
      assert (Nc : node_ok cc).
      { destruct I as [<-|I]; [exact H0|]. clear - Hs I. revert c0 Hs. induction rest as [|x r IH]; intros p Hs; [contradiction|].
        destruct Hs as [[_ [Nx _]] Hs']. destruct I as [<-|I]; [exact Nx|]. apply (IH I x Hs'). }
      destruct Nc as [_ [_ [B0 [B1 _]]]]. split; [|split].
      - destruct I as [<-|I]; [right; split; [reflexivity|lra]|]. apply slt_sle. apply (script_ok_all_slt tbl rest c0 Hs cc I).
      - split; assumption.
      - eapply on_grid_comp; [symmetry; apply seg_beats_self|exact zero_on_grid]. }
    assert (Hos : Forall2 (fun q o => o == time_of 0 (c0 :: rest) q) (map bs_snap l) (map bo_off S)).
    { rewrite <- El. clear - CT. revert CT. generalize (time_of 0 l). intros f CT.
      induction CT as [|cc b l' S' [E _] _ IH]; cbn [map]; constructor; auto. }
    destruct (snaps_of_offsets tbl Hok 0 c0 rest (map bs_snap l) (map bo_off S) H0 Hm0 Hb0 Hs Hq Hos)
      as [Hge [bcos' [ss [F1 [F2 F3]]]]].
    rewrite <- El, Hfrom in F1. inversion F1; subst bcos'. clear F1.
    exists ss. rewrite Eb. split; [exact F2|].
    apply (forall2_impl_in _ _ _ _ (forall2_unmap _ _ _ _ F3)). intros cc s _ [I [J K]]. split; [exact J|].
    rewrite K. rewrite (active_go_self tbl rest c0 0 cc Hs); [reflexivity|rewrite <- El; exact I].
  Qed.
End WTiming.
