(* C06 — proofs about the model (Formats/Qua.v) and the oracle (Formats/QuaSpec.v). *)
From Coq Require Import ZArith QArith Qround Qabs List Bool Lia Lqa Permutation.
From RV Require Import Base.PyNum Formats.Qua Formats.QuaSpec.
Import ListNotations.
Open Scope Z_scope.

(* ------------------------------------------------------------------ int(): truncation moves a time by < 1 *)
Lemma Qabs_lt1 (a : Q) : (-(1) < a)%Q -> (a < 1)%Q -> (Qabs a < 1)%Q.
Proof. intros H1 H2. apply Qabs_case; intros; lra. Qed.

Lemma qtrunc_lt1 (x : Q) : (Qabs (x - inject_Z (qtrunc x)) < 1)%Q.
Proof.
  unfold qtrunc. destruct (Qle_bool 0 x) eqn:E.
  - pose proof (Qfloor_le x) as F1. pose proof (Qlt_floor x) as F2.
    rewrite inject_Z_plus in F2. change (inject_Z 1) with 1%Q in F2. apply Qabs_lt1; lra.
  - pose proof (Qfloor_le (- x)) as F1. pose proof (Qlt_floor (- x)) as F2.
    rewrite inject_Z_plus in F2. change (inject_Z 1) with 1%Q in F2.
    rewrite inject_Z_opp. apply Qabs_lt1; lra.
Qed.

Lemma qtrunc_inject (z : Z) : qtrunc (inject_Z z) = z.
Proof.
  unfold qtrunc. destruct (Qle_bool 0 (inject_Z z)) eqn:E.
  - apply Qfloor_Z.
  - rewrite <- inject_Z_opp, Qfloor_Z. lia.
Qed.

(* int(int(x)) = int(x): a second generation cannot move a time again *)
Lemma cast_int_idem (v w : ytree) : cast_int v = Some w -> cast_int w = Some w.
Proof. destruct v; simpl; intro H; inversion H; reflexivity. Qed.

Lemma lt1_true (a b : Q) : lt1 a b = true <-> (Qabs (a - b) < 1)%Q.
Proof. unfold lt1. apply Qlt_bool_iff. Qed.

(* the time written for a numeric cell is within 1 ms of the cell *)
Lemma cast_int_close (v : ytree) (q : Q) : num v = Some q ->
  exists z, cast_int v = Some (YInt z) /\ lt1 (inject_Z z) q = true.
Proof.
  destruct v; simpl; intro H; inversion H; subst.
  - exists z. split; [reflexivity|]. apply lt1_true. apply Qabs_lt1; lra.
  - exists (qtrunc q). split; [reflexivity|]. apply lt1_true.
    pose proof (qtrunc_lt1 q) as T. rewrite <- Qabs_opp.
    setoid_replace (- (inject_Z (qtrunc q) - q))%Q with (q - inject_Z (qtrunc q))%Q by ring. exact T.
Qed.

(* ------------------------------------------------------------------ Tags: split / join *)
(* the reader's  [i for i in s.split(" ") if i]  is the list of blank-separated words *)
Lemma tags_of_words_go (s cur : text) :
  filter nonempty (split_sp s cur) = words_go s cur.
Proof.
  revert cur. induction s as [|c t IH]; intro cur; simpl.
  - destruct cur as [|x cur']; simpl; [reflexivity|].
    destruct (rev cur' ++ [x]) eqn:E; [destruct (rev cur'); discriminate|reflexivity].
  - destruct (c =? 32).
    + simpl. rewrite IH. destruct cur as [|x cur']; simpl; [reflexivity|].
      destruct (rev cur' ++ [x]) eqn:E; [destruct (rev cur'); discriminate|reflexivity].
    + apply IH.
Qed.
Theorem tags_of_is_words (s : text) : tags_of s = words s.
Proof. apply tags_of_words_go. Qed.

Definition good_tag (t : text) : bool := negb (memZ 32 t) && nonempty t.

Lemma words_go_app_noblank (t rest cur : text) :
  memZ 32 t = false -> words_go (t ++ rest) cur = words_go rest (rev t ++ cur).
Proof.
  revert cur. induction t as [|c t IH]; intros cur H; [reflexivity|].
  unfold memZ in H. cbn [existsb] in H. apply orb_false_iff in H. destruct H as [H1 H2].
  rewrite Z.eqb_sym in H1. cbn [app words_go]. rewrite H1. rewrite IH by exact H2. cbn [rev]. rewrite <- app_assoc. reflexivity.
Qed.

Theorem words_join (ts : list text) : forallb good_tag ts = true -> words (join_sp ts) = ts.
Proof.
  unfold words. induction ts as [|t ts IH]; intro H; [reflexivity|].
  simpl in H. apply andb_true_iff in H. destruct H as [Ht Hts].
  unfold good_tag in Ht. apply andb_true_iff in Ht. destruct Ht as [Hb Hn]. apply negb_true_iff in Hb.
  destruct ts as [|t' ts'].
  - simpl. rewrite <- (app_nil_r t) at 1. rewrite words_go_app_noblank by exact Hb. simpl.
    rewrite app_nil_r. destruct (rev t) eqn:E.
    + destruct t; [discriminate|]. simpl in E. destruct (rev t); discriminate.
    + rewrite <- E, rev_involutive. reflexivity.
  - change (join_sp (t :: t' :: ts')) with (t ++ 32 :: join_sp (t' :: ts')).
    rewrite words_go_app_noblank by exact Hb. simpl. rewrite app_nil_r.
    destruct (rev t) eqn:E.
    + destruct t; [discriminate|]. simpl in E. destruct (rev t); discriminate.
    + rewrite <- E, rev_involutive. f_equal. apply IH. exact Hts.
Qed.

(* ------------------------------------------------------------------ soundness of the boolean oracles *)
Lemma all2_Forall2 {A B} (p : A -> B -> bool) (P : A -> B -> Prop) :
  (forall a b, p a b = true -> P a b) -> forall l m, all2 p l m = true -> Forall2 P l m.
Proof.
  intros HP. induction l as [|x l IH]; destruct m as [|y m]; simpl; intro H; try discriminate; constructor.
  - apply HP. apply andb_true_iff in H. tauto.
  - apply IH. apply andb_true_iff in H. tauto.
Qed.

Lemma remove1_perm {A} (eqb : A -> A -> bool) x l l' :
  remove1 eqb x l = Some l' -> exists y, eqb x y = true /\ Permutation l (y :: l').
Proof.
  revert l'. induction l as [|y t IH]; simpl; intros l' H; [discriminate|].
  destruct (eqb x y) eqn:E.
  - inversion H; subst. exists y. split; [exact E|apply Permutation_refl].
  - destruct (remove1 eqb x t) as [t'|] eqn:R; [|discriminate]. inversion H; subst.
    destruct (IH t' eq_refl) as [z [Ez Pz]]. exists z. split; [exact Ez|].
    eapply perm_trans; [apply perm_skip; exact Pz|apply perm_swap].
Qed.

Lemma perm_eqb_sound {A} (eqb : A -> A -> bool) (a b : list A) :
  perm_eqb eqb a b = true -> exists b', Permutation b b' /\ Forall2 (fun x y => eqb x y = true) a b'.
Proof.
  revert b. induction a as [|x a IH]; intros b H; simpl in H.
  - destruct b; [|discriminate]. exists []. split; constructor.
  - destruct (remove1 eqb x b) as [b1|] eqn:R; [|discriminate].
    destruct (remove1_perm _ _ _ _ R) as [y [Ey Py]].
    destruct (IH b1 H) as [b2 [P2 F2]].
    exists (y :: b2). split; [eapply perm_trans; [exact Py|apply perm_skip; exact P2]|constructor; assumption].
Qed.

Lemma note_closeb_sound a b : note_closeb a b = true -> note_close a b.
Proof.
  unfold note_closeb, note_close. intro H.
  repeat (apply andb_true_iff in H; destruct H as [H ?]).
  split; [apply Z.eqb_eq; exact H|]. split; [apply lt1_true; assumption|]. split; [|assumption].
  destruct (n_end a), (n_end b); try discriminate; auto. apply lt1_true. assumption.
Qed.
Lemma pt_closeb_sound a b : pt_closeb a b = true -> pt_close a b.
Proof.
  unfold pt_closeb, pt_close. intro H. apply andb_true_iff in H. destruct H as [H1 H2].
  split; [apply lt1_true; exact H1|apply Qeq_bool_iff; exact H2].
Qed.

Theorem den_closeb_sound e a : den_closeb e a = true -> den_close e a.
Proof.
  unfold den_closeb, den_close. intro H.
  repeat (apply andb_true_iff in H; destruct H as [H ?]).
  split; [exists (d_notes a); split; [apply Permutation_refl|eapply all2_Forall2; [apply note_closeb_sound|exact H]]|].
  split; [exists (d_bpms a); split; [apply Permutation_refl|eapply all2_Forall2; [apply pt_closeb_sound|assumption]]|].
  split; [exists (d_svs a); split; [apply Permutation_refl|eapply all2_Forall2; [apply pt_closeb_sound|assumption]]|].
  assumption.
Qed.

Theorem den_eqb_sound e a : den_eqb e a = true -> den_eq e a.
Proof.
  unfold den_eqb, den_eq. intro H.
  repeat (apply andb_true_iff in H; destruct H as [H ?]).
  split; [apply perm_eqb_sound; exact H|]. split; [apply perm_eqb_sound; assumption|].
  split; [apply perm_eqb_sound; assumption|assumption].
Qed.

(* what the four oracles of Corr/RunC06.v establish when they answer true *)
Definition ReadSpec (doc : ytree) (out : option chart) : Prop :=
  exists c e a, out = Some c /\ qua_denote doc = Some e /\ chart_denote c = Some a /\ den_eq e a.
Definition WriteSpec (c : chart) (out : option ytree) : Prop :=
  exists d e a, out = Some d /\ wf_qua_docb d = true /\ qua_denote d = Some e /\ chart_denote c = Some a
                /\ den_close e a /\ all_declared (d_meta e) = true.
Definition WriteReadSpec (c : chart) (out : option chart) : Prop :=
  exists c' e a, out = Some c' /\ chart_denote c = Some e /\ chart_denote c' = Some a /\ den_close e a.

Theorem read_specb_sound doc out : read_specb doc out = true -> ReadSpec doc out.
Proof.
  unfold read_specb, ReadSpec. destruct out as [c|]; [|discriminate].
  destruct (qua_denote doc) as [e|]; [|discriminate]. destruct (chart_denote c) as [a|]; [|discriminate].
  intro H. exists c, e, a. split; [reflexivity|]. split; [reflexivity|]. split; [reflexivity|]. apply den_eqb_sound; exact H.
Qed.
Theorem write_specb_sound c out : write_specb c out = true -> WriteSpec c out.
Proof.
  unfold write_specb, WriteSpec. destruct out as [d|]; [|discriminate]. intro H.
  apply andb_true_iff in H. destruct H as [W H].
  destruct (qua_denote d) as [e|]; [|discriminate]. destruct (chart_denote c) as [a|]; [|discriminate].
  apply andb_true_iff in H. destruct H as [H1 H2].
  exists d, e, a. split; [reflexivity|]. split; [exact W|]. split; [reflexivity|]. split; [reflexivity|].
  split; [apply den_closeb_sound; exact H1|exact H2].
Qed.
Theorem wr_specb_sound c out : wr_specb c out = true -> WriteReadSpec c out.
Proof.
  unfold wr_specb, WriteReadSpec. destruct out as [c'|]; [|discriminate].
  destruct (chart_denote c) as [e|]; [|discriminate]. destruct (chart_denote c') as [a|]; [|discriminate].
  intro H. exists c', e, a. split; [reflexivity|]. split; [reflexivity|]. split; [reflexivity|]. apply den_closeb_sound; exact H.
Qed.
